#!/usr/bin/env python3-vt
"""validate MANIFEST.json and every evidence file against the given schemas"""
import json, jsonschema, glob, sys
ok = True
def v(path, schema):
    global ok
    try:
        jsonschema.validate(json.load(open(path)), json.load(open(schema)))
        print("valid", path)
    except Exception as e:
        ok = False
        print("INVALID", path, str(e)[:400])
v("MANIFEST.json", "/root/.vp/MANIFEST.schema.json")
for f in sorted(glob.glob("evidence/*.json")):
    v(f, "/root/.vp/EVIDENCE.schema.json")
m = json.load(open("MANIFEST.json"))
props = [json.loads(l)["id"] for l in open("properties.jsonl")]
claimed = {c["property_id"] for c in m["checks"]}
na = {c["property_id"] for c in m.get("not_applicable", [])}
missing = [p for p in props if p not in claimed and p not in na]
print("claimed", sorted(claimed)); print("not_applicable", sorted(na)); print("neither", missing)
sys.exit(0 if ok else 1)
