import Compio.Lemmas.AsyncifyPool
namespace Compio.Asyncify

/-! ## pending rendezvous sends versus workers that will call `recv` again -/

def DState.isSending : DState → Bool
  | .sending _ => true
  | _ => false

/-- the worker will (re-)enter `recv_timeout` unless a timer or an uncaught panic stops it -/
def WState.willRecv : WState → Bool
  | .leaving => false
  | .exited => false
  | _ => true

/-- dispatchers between `thread::spawn` and the end of `sender.send` -/
def pendingSends (s : State) : Nat := cnt s.disp DState.isSending s.nd + s.sendq.length

/-- neither an idle timeout nor a job that panics uncaught -/
def Benign : Event → Bool
  | .timeout _ => false
  | .submit _ .raw => false
  | _ => true

theorem pending_step {s s' : State} {e : Event} (hI : Inv s) (hk : ∀ j, s.kind j ≠ .raw) (hb : Benign e = true)
    (hp : pendingSends s ≤ cnt s.wrk WState.willRecv s.nw) (h : step? s e = some s') :
    pendingSends s' ≤ cnt s'.wrk WState.willRecv s'.nw ∧ ∀ j, s'.kind j ≠ .raw := by
  unfold pendingSends at hp ⊢
  cases e with
  | submit d k =>
    obtain ⟨hd, hj, rfl⟩ := doSubmit_some h
    refine ⟨?_, ?_⟩
    · simp only [cnt_split _ _ hd, cntEx_upd, upd_same, hj, DState.isSending] at hp ⊢; cnt_norm at hp ⊢; omega
    · intro j
      show upd s.kind s.njobs k j ≠ .raw
      by_cases he : j = s.njobs
      · subst he; rw [upd_same]; intro hr; subst hr; simp [Benign] at hb
      · rw [upd_ne _ _ he]; exact hk j
  | trySend d =>
    obtain ⟨hd, j, hj, (⟨w, rest, hw, rfl⟩ | ⟨_, rfl⟩)⟩ := doTrySend_some h
    · obtain ⟨hwn, hwp⟩ := hI.wait_parked w (by simp [hw])
      refine ⟨?_, hk⟩
      simp only [cnt_split _ _ hd, cnt_split _ _ hwn, cntEx_upd, upd_same, hj, hwp, DState.isSending, WState.willRecv] at hp ⊢
      cnt_norm at hp ⊢; omega
    · refine ⟨?_, hk⟩
      simp only [cnt_split _ _ hd, cntEx_upd, upd_same, hj, DState.isSending] at hp ⊢; cnt_norm at hp ⊢; omega
  | load d =>
    obtain ⟨hd, j, hj, (⟨_, rfl⟩ | ⟨_, _, rfl⟩ | ⟨_, _, _, rfl⟩ | ⟨_, _, _, rfl⟩)⟩ := doLoad_some h <;>
    · refine ⟨?_, hk⟩
      simp only [cnt_split _ _ hd, cntEx_upd, upd_same, hj, DState.isSending] at hp ⊢; cnt_norm at hp ⊢; omega
  | spawn d =>
    obtain ⟨hd, j, hj, rfl⟩ := doSpawn_some h
    refine ⟨?_, hk⟩
    simp only [cnt_split _ _ hd, cntEx_upd, upd_same, cnt_push, hj, DState.isSending, WState.willRecv] at hp ⊢
    cnt_norm at hp ⊢; omega
  | send d =>
    obtain ⟨hd, j, hj, (⟨w, rest, hw, rfl⟩ | ⟨_, rfl⟩)⟩ := doSend_some h
    · obtain ⟨hwn, hwp⟩ := hI.wait_parked w (by simp [hw])
      refine ⟨?_, hk⟩
      simp only [cnt_split _ _ hd, cnt_split _ _ hwn, cntEx_upd, upd_same, hj, hwp, DState.isSending, WState.willRecv] at hp ⊢
      cnt_norm at hp ⊢; omega
    · refine ⟨?_, hk⟩
      simp only [cnt_split _ _ hd, cntEx_upd, upd_same, hj, DState.isSending] at hp ⊢; cnt_norm at hp ⊢; omega
  | retry d =>
    obtain ⟨hd, j, hj, rfl⟩ := doRetry_some h
    refine ⟨?_, hk⟩
    simp only [cnt_split _ _ hd, cntEx_upd, upd_same, hj, DState.isSending] at hp ⊢; cnt_norm at hp ⊢; omega
  | giveUp d =>
    obtain ⟨hd, j, (⟨hj, rfl⟩ | ⟨hj, rfl⟩)⟩ := doGiveUp_some h <;>
    · refine ⟨?_, hk⟩
      simp only [cnt_split _ _ hd, cntEx_upd, upd_same, hj, DState.isSending] at hp ⊢; cnt_norm at hp ⊢; omega
  | reap d => obtain ⟨e, rest, _, rfl⟩ := doReap_some h; exact ⟨hp, hk⟩
  | count w =>
    obtain ⟨hw, hs, (⟨_, rfl⟩ | ⟨_, rfl⟩)⟩ := doCount_some h <;>
    · refine ⟨?_, hk⟩
      simp only [cnt_split _ _ hw, cntEx_upd, upd_same, hs, WState.willRecv] at hp ⊢; cnt_norm at hp ⊢; omega
  | recv w =>
    obtain ⟨hw, hs, (⟨d, j, rest, hq, rfl⟩ | ⟨_, rfl⟩)⟩ := doRecv_some h
    · obtain ⟨hd, hb'⟩ := hI.sendq_blocked d j (by rw [hq]; simp)
      refine ⟨?_, hk⟩
      simp only [cnt_split _ _ hd, cnt_split _ _ hw, cntEx_upd, upd_same, hs, hb', hq, DState.isSending, WState.willRecv] at hp ⊢
      cnt_norm at hp ⊢; omega
    · refine ⟨?_, hk⟩
      simp only [cnt_split _ _ hw, cntEx_upd, upd_same, hs, WState.willRecv] at hp ⊢; cnt_norm at hp ⊢; omega
  | wake w =>
    obtain ⟨hw, j, hs, rfl⟩ := doWake_some h
    refine ⟨?_, hk⟩
    simp only [cnt_split _ _ hw, cntEx_upd, upd_same, hs, WState.willRecv] at hp ⊢; cnt_norm at hp ⊢; omega
  | timeout w => simp [Benign] at hb
  | finish w =>
    obtain ⟨hw, j, hs, (⟨hr, rfl⟩ | ⟨_, rfl⟩)⟩ := doFinish_some h
    · exact absurd hr (hk j)
    · refine ⟨?_, hk⟩
      simp only [cnt_split _ _ hw, cntEx_upd, upd_same, hs, WState.willRecv] at hp ⊢; cnt_norm at hp ⊢; omega
  | exit w =>
    obtain ⟨hw, hs, rfl⟩ := doExit_some h
    refine ⟨?_, hk⟩
    simp only [cnt_split _ _ hw, cntEx_upd, upd_same, hs, WState.willRecv] at hp ⊢; cnt_norm at hp ⊢; omega

theorem pending_run : ∀ {evs : List Event} {s s' : State}, Inv s → (∀ j, s.kind j ≠ .raw) →
    (∀ e, e ∈ evs → Benign e = true) → pendingSends s ≤ cnt s.wrk WState.willRecv s.nw → run? s evs = some s' →
    pendingSends s' ≤ cnt s'.wrk WState.willRecv s'.nw
  | [], s, s', _, _, _, hp, h => by simp [run?] at h; subst h; exact hp
  | e :: es, s, s', hI, hk, hb, hp, h => by
    unfold run? at h
    split at h
    · rename_i s1 h1
      obtain ⟨hp1, hk1⟩ := pending_step hI hk (hb e List.mem_cons_self) hp h1
      exact pending_run (inv_step hI h1) hk1 (fun e' he' => hb e' (List.mem_cons_of_mem _ he')) hp1 h
    · cases h

/-- some index below `n` satisfies `p` when the count is positive -/
theorem exists_of_cnt_pos {α : Type} (f : Nat → α) (p : α → Bool) : ∀ n : Nat, 1 ≤ cnt f p n → ∃ i, i < n ∧ p (f i) = true
  | 0, h => by simp [cnt] at h
  | n + 1, h => by
    rw [cnt_succ] at h
    cases hp : p (f n)
    · rw [hp] at h
      obtain ⟨i, hi, hpi⟩ := exists_of_cnt_pos f p n (by simpa using h)
      exact ⟨i, by omega, hpi⟩
    · exact ⟨n, by omega, hp⟩

/-! ## the driver's deterministic scheduler only takes steps of the model -/

theorem quiesce_valid : ∀ (fuel : Nat) (s : State), run? s (quiesce fuel s).1 = some (quiesce fuel s).2
  | 0, s => rfl
  | fuel + 1, s => by
    unfold quiesce
    split
    · rfl
    · rename_i e he
      split
      · rename_i s' hs
        show run? s (e :: (quiesce fuel s').1) = _
        rw [run?, hs]
        exact quiesce_valid fuel s'
      · rfl

theorem run?_append (s : State) : ∀ (a b : List Event), run? s (a ++ b) = (run? s a).bind (fun s' => run? s' b)
  | [], b => rfl
  | e :: a, b => by
    show run? s (e :: (a ++ b)) = _
    rw [run?, run?]
    cases step? s e with
    | none => rfl
    | some s1 => exact run?_append s1 a b

end Compio.Asyncify
