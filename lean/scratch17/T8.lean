import Compio.Props.C17
namespace Compio.Props.C17
open Compio Compio.Asyncify

/-! ## 4. Progress (enabledness and witness schedules; no fairness operator) -/

/-- **the retry loop terminates once any worker parks**: with a worker parked in `recv`, the next turn of
`while let Err(e) = pool.dispatch(closure) { closure = e.0; yield_now() }` is accepted — the closure goes
to the longest-waiting worker and `dispatch` returns `Ok`. -/
theorem retry_succeeds_once_a_worker_parks {s : State} {d j w : Nat} {rest : List Nat} (hd : d < s.nd)
    (hr : s.disp d = .refused j) (hw : s.waiting = w :: rest) :
    ∃ s', run? s [.retry d, .trySend d] = some s' ∧ s'.disp d = .idle ∧ s'.wrk w = .handed j
      ∧ s'.waiting = rest := by
  apply Exists.intro
  refine ⟨?_, ?_⟩
  · simp [run?, step?, doRetry, doTrySend, hd, hr, hw]
    rfl
  · simp

/-- … and that worker then runs it -/
theorem handed_job_starts {s : State} {w j : Nat} (hw : w < s.nw) (hh : s.wrk w = .handed j) :
    ∃ s', step? s (.wake w) = some s' ∧ s'.wrk w = .running j ∧ s'.ran = s.ran ++ [(j, w)] := by
  apply Exists.intro
  refine ⟨?_, ?_⟩
  · simp [step?, doWake, hw, hh]
    rfl
  · simp

/-- a sender blocked in the rendezvous `send` is served by the next worker that enters `recv` -/
theorem blocked_sender_served {s : State} {w d j : Nat} {rest : List (Nat × Nat)} (hw : w < s.nw)
    (hr : s.wrk w = .ready) (hq : s.sendq = (d, j) :: rest) :
    ∃ s', step? s (.recv w) = some s' ∧ s'.wrk w = .running j ∧ s'.disp d = .idle ∧ s'.sendq = rest := by
  apply Exists.intro
  refine ⟨?_, ?_⟩
  · simp [step?, doRecv, hw, hr, hq]
    rfl
  · simp

/-- **after all workers retired a later dispatch spawns again**: no pool thread left (all exited after
their idle timeout), nobody stuck in the channel, `thread_limit >= 1`: the next `dispatch` passes the limit
check, spawns a thread, and that thread runs the job. -/
theorem respawn_after_retirement {limit nd : Nat} {s : State} (h : Reach limit nd false s) (hl : 1 ≤ limit)
    {d : Nat} (hd : d < s.nd) (hidle : s.disp d = .idle) (hall : ∀ w, w < s.nw → s.wrk w = .exited)
    (hq : s.sendq = []) (k : Kind) :
    ∃ s', run? s [.submit d k, .trySend d, .load d, .spawn d, .send d, .count s.nw, .recv s.nw] = some s'
      ∧ s'.wrk s.nw = .running s.njobs ∧ s'.disp d = .idle ∧ s'.nw = s.nw + 1 ∧ live s' = 1 := by
  have hI := reach_inv h
  obtain ⟨hlim, hres, _⟩ := reach_static h
  have hwait : s.waiting = [] := by
    cases hw : s.waiting with
    | nil => rfl
    | cons a l =>
      obtain ⟨h1, h2⟩ := hI.wait_parked a (by rw [hw]; simp)
      rw [hall a h1] at h2; cases h2
  have hc : s.counter = 0 := by
    rw [hI.counter_raw hres]
    exact cnt_zero_of _ _ _ (fun i hi => by rw [hall i hi]; rfl)
  have hl' : ¬ s.limit = 0 := by omega
  have hl'' : ¬ s.limit ≤ 0 := by omega
  have hlive0 : cnt s.wrk WState.alive s.nw = 0 := cnt_zero_of _ _ _ (fun i hi => by rw [hall i hi]; rfl)
  apply Exists.intro
  refine ⟨?_, ?_⟩
  · simp [run?, step?, doSubmit, doTrySend, doLoad, doSpawn, doSend, doCount, doRecv, hd, hidle, hwait, hc, hl',
      hl'', hres, hq, upd]
    rfl
  · refine ⟨by simp [upd], by simp [upd], rfl, ?_⟩
    show cnt _ WState.alive (s.nw + 1) = 1
    rw [cnt_succ]
    have : cnt (upd (upd (upd s.wrk s.nw .starting) s.nw .ready) s.nw (.running s.njobs)) WState.alive s.nw
        = cnt s.wrk WState.alive s.nw := by
      rw [cnt_upd_ge _ _ _ (Nat.le_refl _), cnt_upd_ge _ _ _ (Nat.le_refl _), cnt_upd_ge _ _ _ (Nat.le_refl _)]
    simp only [upd_same]
    rw [this, hlive0]
    rfl

/-- **no stranding without timers and crashes**: on a schedule without idle timeouts and without jobs that
panic uncaught, every dispatcher between `thread::spawn` and the end of its rendezvous `send` is matched
by a distinct worker that will enter `recv` again; in particular, whenever a sender is blocked some
worker step (`count`, `recv`, `wake`, `finish`) is enabled. (F170 is exactly the failure of this
statement once `timeout` events are allowed: `Cex.C17.stranded_dispatch_counterexample`.) -/
theorem no_stranding_without_timers_and_crashes {limit nd : Nat} {reserve : Bool} {evs : List Event} {s : State}
    (hb : ∀ e, e ∈ evs → Benign e = true) (h : run? (init limit nd reserve) evs = some s) :
    pendingSends s ≤ cnt s.wrk WState.willRecv s.nw ∧
    (s.sendq ≠ [] → ∃ w, w < s.nw ∧
      ((step? s (.count w)).isSome ∨ (step? s (.recv w)).isSome ∨ (step? s (.wake w)).isSome
        ∨ (step? s (.finish w)).isSome)) := by
  have hI0 := inv_init limit nd reserve
  have hp0 : pendingSends (init limit nd reserve) ≤ cnt (init limit nd reserve).wrk WState.willRecv (init limit nd reserve).nw := by
    have : cnt (fun _ : Nat => DState.idle) DState.isSending nd = 0 := cnt_zero_of _ _ _ (fun _ _ => rfl)
    simp [pendingSends, init, this]
  have hp := pending_run hI0 (by intro j; simp [init]) hb hp0 h
  refine ⟨hp, ?_⟩
  intro hne
  have hI := inv_run hI0 h
  have hpos : 1 ≤ cnt s.wrk WState.willRecv s.nw := by
    have : 1 ≤ s.sendq.length := by
      cases hq : s.sendq with
      | nil => exact absurd hq hne
      | cons a l => simp
    unfold pendingSends at hp
    omega
  obtain ⟨w, hw, hwr⟩ := exists_of_cnt_pos _ _ _ hpos
  refine ⟨w, hw, ?_⟩
  cases hs : s.wrk w with
  | starting => left; cases hr : s.reserve <;> simp [step?, doCount, hw, hs, hr]
  | ready =>
    right; left
    cases hq : s.sendq with
    | nil => exact absurd hq hne
    | cons a l => obtain ⟨d, j⟩ := a; simp [step?, doRecv, hw, hs, hq]
  | parked =>
    have := hI.chan (by intro he; have := hI.parked_wait w hw hs; rw [he] at this; cases this)
    exact absurd this hne
  | handed j => right; right; left; simp [step?, doWake, hw, hs]
  | running j =>
    right; right; right
    by_cases hk : s.kind j = .raw <;> simp [step?, doFinish, hw, hs, hk]
  | leaving => rw [hs] at hwr; simp [WState.willRecv] at hwr
  | exited => rw [hs] at hwr; simp [WState.willRecv] at hwr

/-- the scheduler the driver uses for the forced single-dispatcher cases takes model steps only -/
theorem quiesce_is_a_schedule (fuel : Nat) (s : State) : run? s (quiesce fuel s).1 = some (quiesce fuel s).2 :=
  quiesce_valid fuel s

end Compio.Props.C17
