import Compio.Lemmas.AsyncifyPool
namespace Compio.Asyncify

structure Inv (s : State) : Prop where
  wait_parked : ∀ w, w ∈ s.waiting → w < s.nw ∧ s.wrk w = .parked
  parked_wait : ∀ w, w < s.nw → s.wrk w = .parked → w ∈ s.waiting
  wait_nodup : s.waiting.Nodup
  place : ∀ j, holders s j = if j < s.njobs then 1 else 0

theorem place_trySend {s s' : State} {d : Nat} (hI : Inv s) (h : doTrySend s d = some s') (j' : Nat) :
    holders s' j' = if j' < s'.njobs then 1 else 0 := by
  obtain ⟨hd, j, hj, (⟨w, rest, hw, rfl⟩ | ⟨hw, rfl⟩)⟩ := doTrySend_some h
  · have hp := hI.place j'
    have hww := hI.wait_parked w (by simp [hw])
    unfold holders at hp ⊢
    simp only [cnt_split _ _ hd, cnt_split _ _ hww.1, cntEx_upd, upd_same, hj, hww.2,
      DState.holds, WState.holds, Bool.toNat_false] at hp ⊢
    omega
  · have hp := hI.place j'
    unfold holders at hp ⊢
    simp only [cnt_split _ _ hd, cntEx_upd, upd_same, hj, DState.holds] at hp ⊢
    omega
end Compio.Asyncify
