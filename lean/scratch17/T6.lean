import Compio.Lemmas.AsyncifyPool
namespace Compio.Asyncify

/-- who owns what: metadata of the jobs held by the components -/
structure Meta (s : State) : Prop where
  done_meta : ∀ e, (e ∈ s.completed ∨ e ∈ s.delivered) →
    e.job < s.njobs ∧ e.owner = s.owner e.job ∧ e.out = outcomeOf (s.kind e.job) ∧ s.kind e.job ≠ .raw
  disp_owner : ∀ d j, d < s.nd → DState.holds j (s.disp d) = true → s.owner j = d ∧ j < s.njobs
  sendq_owner : ∀ d j, (d, j) ∈ s.sendq → s.owner j = d ∧ j < s.njobs
  wrk_known : ∀ w j, w < s.nw → WState.holds j (s.wrk w) = true → j < s.njobs

/-- `disp d` changes to a state holding at most the job it held before -/
theorem disp_owner_upd {s : State} (hM : Meta s) {d : Nat} {y : DState}
    (hy : ∀ j, DState.holds j y = true → DState.holds j (s.disp d) = true) :
    ∀ d' j, d' < s.nd → DState.holds j (upd s.disp d y d') = true → s.owner j = d' ∧ j < s.njobs := by
  intro d' j hd' hh
  by_cases he : d' = d
  · subst he; rw [upd_same] at hh; exact hM.disp_owner d' j hd' (hy j hh)
  · rw [upd_ne _ _ he] at hh; exact hM.disp_owner d' j hd' hh

/-- `wrk w` changes to a state holding at most job `j0`, which is known -/
theorem wrk_known_upd {s : State} (hM : Meta s) {w : Nat} {y : WState} {j0 : Nat} (hj0 : j0 < s.njobs)
    (hy : ∀ j, WState.holds j y = true → j = j0) :
    ∀ w' j, w' < s.nw → WState.holds j (upd s.wrk w y w') = true → j < s.njobs := by
  intro w' j hw' hh
  by_cases he : w' = w
  · subst he; rw [upd_same] at hh; rw [hy j hh]; exact hj0
  · rw [upd_ne _ _ he] at hh; exact hM.wrk_known w' j hw' hh

theorem wrk_known_upd_none {s : State} (hM : Meta s) {w : Nat} {y : WState}
    (hy : ∀ j, WState.holds j y = false) :
    ∀ w' j, w' < s.nw → WState.holds j (upd s.wrk w y w') = true → j < s.njobs := by
  intro w' j hw' hh
  by_cases he : w' = w
  · subst he; rw [upd_same, hy] at hh; cases hh
  · rw [upd_ne _ _ he] at hh; exact hM.wrk_known w' j hw' hh

theorem takeOwned_mem (d : Nat) : ∀ (l : List Done) (e : Done) (rest : List Done),
    takeOwned d l = some (e, rest) → e ∈ l ∧ ∀ x, x ∈ rest → x ∈ l
  | [], e, rest, h => by simp [takeOwned] at h
  | a :: l, e, rest, h => by
    unfold takeOwned at h
    split at h
    · simp only [Option.some.injEq, Prod.mk.injEq] at h
      obtain ⟨rfl, rfl⟩ := h
      exact ⟨List.mem_cons_self, fun x hx => List.mem_cons_of_mem _ hx⟩
    · split at h
      · rename_i x r hx
        simp only [Option.some.injEq, Prod.mk.injEq] at h
        obtain ⟨rfl, rfl⟩ := h
        obtain ⟨h1, h2⟩ := takeOwned_mem d l x r hx
        refine ⟨List.mem_cons_of_mem _ h1, ?_⟩
        intro y hy
        rcases List.mem_cons.mp hy with rfl | hy
        · exact List.mem_cons_self
        · exact List.mem_cons_of_mem _ (h2 y hy)
      · cases h

theorem holds_trying (j j' : Nat) : DState.holds j' (.trying j) = true ↔ j = j' := by simp [DState.holds]
theorem holds_eq {j j' : Nat} {x : DState} (hx : ∀ i, DState.holds i x = (j == i)) : DState.holds j' x = true → j' = j := by
  intro h; rw [hx] at h; exact (beq_iff_eq.mp h).symm

theorem meta_step {s s' : State} {e : Event} (hM : Meta s) (h : step? s e = some s') : Meta s' := by
  cases e with
  | submit d k =>
    obtain ⟨hd, hj, rfl⟩ := doSubmit_some h
    refine ⟨?_, ?_, ?_, ?_⟩
    · intro e he
      obtain ⟨a, b, c, d'⟩ := hM.done_meta e he
      have hne : e.job ≠ s.njobs := by omega
      exact ⟨Nat.lt_succ_of_lt a, by show _ = upd s.owner _ _ _; rw [upd_ne _ _ hne]; exact b,
        by show _ = outcomeOf (upd s.kind _ _ _); rw [upd_ne _ _ hne]; exact c,
        by show upd s.kind _ _ _ ≠ _; rw [upd_ne _ _ hne]; exact d'⟩
    · intro d' j hd' hh
      have hh' : DState.holds j (upd s.disp d (.trying s.njobs) d') = true := hh
      by_cases he : d' = d
      · subst he
        rw [upd_same] at hh'
        have : s.njobs = j := (holds_trying _ _).mp hh'
        subst this
        exact ⟨upd_same _ _ _, Nat.lt_succ_self _⟩
      · rw [upd_ne _ _ he] at hh'
        obtain ⟨a, b⟩ := hM.disp_owner d' j hd' hh'
        exact ⟨by show upd s.owner _ _ _ = _; rw [upd_ne _ _ (by omega)]; exact a, Nat.lt_succ_of_lt b⟩
    · intro d' j hm
      obtain ⟨a, b⟩ := hM.sendq_owner d' j hm
      exact ⟨by show upd s.owner _ _ _ = _; rw [upd_ne _ _ (by omega)]; exact a, Nat.lt_succ_of_lt b⟩
    · intro w j hw hh
      exact Nat.lt_succ_of_lt (hM.wrk_known w j hw hh)
  | trySend d =>
    obtain ⟨hd, j, hj, (⟨w, rest, _, rfl⟩ | ⟨_, rfl⟩)⟩ := doTrySend_some h
    · have hjn := (hM.disp_owner d j hd (by rw [hj]; simp [DState.holds])).2
      exact ⟨hM.done_meta, disp_owner_upd hM (by intro i hi; simp [DState.holds] at hi), hM.sendq_owner,
        wrk_known_upd hM hjn (by intro i hi; simp [WState.holds] at hi; exact hi.symm)⟩
    · exact ⟨hM.done_meta, disp_owner_upd hM (by intro i hi; rw [hj]; exact hi), hM.sendq_owner, hM.wrk_known⟩
  | load d =>
    obtain ⟨hd, j, hj, (⟨_, rfl⟩ | ⟨_, _, rfl⟩ | ⟨_, _, _, rfl⟩ | ⟨_, _, _, rfl⟩)⟩ := doLoad_some h <;>
    exact ⟨hM.done_meta, disp_owner_upd hM (by intro i hi; rw [hj]; exact hi), hM.sendq_owner, hM.wrk_known⟩
  | spawn d =>
    obtain ⟨hd, j, hj, rfl⟩ := doSpawn_some h
    refine ⟨hM.done_meta, disp_owner_upd hM (by intro i hi; rw [hj]; exact hi), hM.sendq_owner, ?_⟩
    intro w' j' hw' hh
    have hh' : WState.holds j' (upd s.wrk s.nw .starting w') = true := hh
    by_cases he : w' = s.nw
    · subst he; rw [upd_same] at hh'; simp [WState.holds] at hh'
    · rw [upd_ne _ _ he] at hh'
      exact hM.wrk_known w' j' (by have : w' < s.nw + 1 := hw'; omega) hh'
  | send d =>
    obtain ⟨hd, j, hj, (⟨w, rest, _, rfl⟩ | ⟨_, rfl⟩)⟩ := doSend_some h
    · have hjn := (hM.disp_owner d j hd (by rw [hj]; simp [DState.holds])).2
      exact ⟨hM.done_meta, disp_owner_upd hM (by intro i hi; simp [DState.holds] at hi), hM.sendq_owner,
        wrk_known_upd hM hjn (by intro i hi; simp [WState.holds] at hi; exact hi.symm)⟩
    · have hjo := hM.disp_owner d j hd (by rw [hj]; simp [DState.holds])
      refine ⟨hM.done_meta, disp_owner_upd hM (by intro i hi; simp [DState.holds] at hi), ?_, hM.wrk_known⟩
      intro d' j' hm
      rcases List.mem_append.mp hm with h1 | h1
      · exact hM.sendq_owner d' j' h1
      · simp only [List.mem_singleton, Prod.mk.injEq] at h1
        obtain ⟨rfl, rfl⟩ := h1
        exact hjo
  | retry d =>
    obtain ⟨hd, j, hj, rfl⟩ := doRetry_some h
    exact ⟨hM.done_meta, disp_owner_upd hM (by intro i hi; rw [hj]; exact hi), hM.sendq_owner, hM.wrk_known⟩
  | giveUp d =>
    obtain ⟨hd, j, (⟨hj, rfl⟩ | ⟨hj, rfl⟩)⟩ := doGiveUp_some h <;>
    exact ⟨hM.done_meta, disp_owner_upd hM (by intro i hi; simp [DState.holds] at hi), hM.sendq_owner, hM.wrk_known⟩
  | reap d =>
    obtain ⟨e, rest, he, rfl⟩ := doReap_some h
    obtain ⟨h1, h2⟩ := takeOwned_mem d _ _ _ he
    refine ⟨?_, hM.disp_owner, hM.sendq_owner, hM.wrk_known⟩
    intro x hx
    rcases hx with hx | hx
    · exact hM.done_meta x (.inl (h2 x hx))
    · rcases List.mem_cons.mp hx with rfl | hx
      · exact hM.done_meta x (.inl h1)
      · exact hM.done_meta x (.inr hx)
  | count w =>
    obtain ⟨hw, hs, (⟨_, rfl⟩ | ⟨_, rfl⟩)⟩ := doCount_some h <;>
    exact ⟨hM.done_meta, hM.disp_owner, hM.sendq_owner, wrk_known_upd_none hM (by intro i; rfl)⟩
  | recv w =>
    obtain ⟨hw, hs, (⟨d, j, rest, hq, rfl⟩ | ⟨_, rfl⟩)⟩ := doRecv_some h
    · have hjn := (hM.sendq_owner d j (by rw [hq]; simp)).2
      refine ⟨hM.done_meta, disp_owner_upd hM (by intro i hi; simp [DState.holds] at hi), ?_,
        wrk_known_upd hM hjn (by intro i hi; simp [WState.holds] at hi; exact hi.symm)⟩
      intro d' j' hm
      exact hM.sendq_owner d' j' (by rw [hq]; exact List.mem_cons_of_mem _ hm)
    · exact ⟨hM.done_meta, hM.disp_owner, hM.sendq_owner, wrk_known_upd_none hM (by intro i; rfl)⟩
  | wake w =>
    obtain ⟨hw, j, hs, rfl⟩ := doWake_some h
    have hjn := hM.wrk_known w j hw (by rw [hs]; simp [WState.holds])
    exact ⟨hM.done_meta, hM.disp_owner, hM.sendq_owner,
      wrk_known_upd hM hjn (by intro i hi; simp [WState.holds] at hi; exact hi.symm)⟩
  | timeout w =>
    obtain ⟨hw, hs, rfl⟩ := doTimeout_some h
    exact ⟨hM.done_meta, hM.disp_owner, hM.sendq_owner, wrk_known_upd_none hM (by intro i; rfl)⟩
  | finish w =>
    obtain ⟨hw, j, hs, (⟨_, rfl⟩ | ⟨hk, rfl⟩)⟩ := doFinish_some h
    · exact ⟨hM.done_meta, hM.disp_owner, hM.sendq_owner, wrk_known_upd_none hM (by intro i; rfl)⟩
    · have hjn := hM.wrk_known w j hw (by rw [hs]; simp [WState.holds])
      refine ⟨?_, hM.disp_owner, hM.sendq_owner, wrk_known_upd_none hM (by intro i; rfl)⟩
      intro x hx
      rcases hx with hx | hx
      · rcases List.mem_append.mp hx with hx | hx
        · exact hM.done_meta x (.inl hx)
        · simp only [List.mem_singleton] at hx; subst hx
          exact ⟨hjn, rfl, rfl, hk⟩
      · exact hM.done_meta x (.inr hx)
  | exit w =>
    obtain ⟨hw, hs, rfl⟩ := doExit_some h
    exact ⟨hM.done_meta, hM.disp_owner, hM.sendq_owner, wrk_known_upd_none hM (by intro i; rfl)⟩

theorem meta_init (limit nd : Nat) (reserve : Bool) : Meta (init limit nd reserve) := by
  refine ⟨?_, ?_, ?_, ?_⟩
  · intro e he
    rcases he with he | he <;> cases he
  · intro d j _ h
    simp [init, DState.holds] at h
  · intro d j h
    cases h
  · intro w j h
    exact absurd h (Nat.not_lt_zero _)

theorem meta_run {s : State} (hM : Meta s) : ∀ {evs : List Event} {s' : State}, run? s evs = some s' → Meta s'
  | [], s', h => by simp [run?] at h; subst h; exact hM
  | e :: es, s', h => by
    unfold run? at h
    split at h
    · rename_i s1 h1
      exact meta_run (meta_step hM h1) h
    · cases h

end Compio.Asyncify
