import Compio.Lemmas.AsyncifyPool
namespace Compio.Asyncify

def DState.isBlocked : DState → Bool
  | .blocked => true
  | _ => false

/-- the inductive invariant of the pool model -/
structure Inv (s : State) : Prop where
  wait_parked : ∀ w, w ∈ s.waiting → w < s.nw ∧ s.wrk w = .parked
  parked_wait : ∀ w, w < s.nw → s.wrk w = .parked → w ∈ s.waiting
  wait_nodup : s.waiting.Nodup
  sendq_blocked : ∀ d j, (d, j) ∈ s.sendq → d < s.nd ∧ s.disp d = .blocked
  sendq_nodup : (s.sendq.map Prod.fst).Nodup
  chan : s.waiting ≠ [] → s.sendq = []
  place : ∀ j, holders s j = if j < s.njobs then 1 else 0
  started : ∀ j, ranCount s j = cnt s.wrk (WState.runs j) s.nw + s.completed.countP (fun e => e.job == j)
      + s.delivered.countP (fun e => e.job == j) + s.crashed.count j
  counter_raw : s.reserve = false → s.counter = cnt s.wrk WState.counted s.nw
  counter_res : s.reserve = true → s.counter = cnt s.wrk WState.alive s.nw + cnt s.disp DState.isSpawning s.nd
  res_limit : s.reserve = true → s.counter ≤ s.limit

/-! ### the waiting queue -/

/-- updating a worker that is not parked (before and after) to something not parked, shrinking the queue -/
theorem wait_parked_upd {s : State} (hI : Inv s) {w : Nat} {x : WState} {W' : List Nat}
    (hsub : ∀ w', w' ∈ W' → w' ∈ s.waiting ∧ w' ≠ w) :
    ∀ w', w' ∈ W' → w' < s.nw ∧ upd s.wrk w x w' = .parked := by
  intro w' hw'
  obtain ⟨hin, hne⟩ := hsub w' hw'
  rw [upd_ne _ _ hne]
  exact hI.wait_parked w' hin

theorem not_mem_waiting {s : State} (hI : Inv s) {w : Nat} (h : s.wrk w ≠ .parked) : w ∉ s.waiting :=
  fun hm => h (hI.wait_parked w hm).2

theorem waiting_ne {s : State} (hI : Inv s) {w w' : Nat} (h : s.wrk w ≠ .parked) (hm : w' ∈ s.waiting) : w' ≠ w := by
  intro he; subst he; exact not_mem_waiting hI h hm

/-- a worker state change `x` (not parked) at a worker that was not parked keeps the queue facts -/
theorem waitInv_upd_other {s : State} (hI : Inv s) {w : Nat} {x : WState} (hw : s.wrk w ≠ .parked) (hx : x ≠ .parked) :
    (∀ w', w' ∈ s.waiting → w' < s.nw ∧ upd s.wrk w x w' = .parked) ∧
    (∀ w', w' < s.nw → upd s.wrk w x w' = .parked → w' ∈ s.waiting) := by
  refine ⟨wait_parked_upd hI (fun w' h' => ⟨h', waiting_ne hI hw h'⟩), ?_⟩
  intro w' hlt hp
  by_cases he : w' = w
  · subst he; rw [upd_same] at hp; exact absurd hp hx
  · rw [upd_ne _ _ he] at hp; exact hI.parked_wait w' hlt hp

/-- popping the head of the queue and handing it a job -/
theorem waitInv_pop {s : State} (hI : Inv s) {w : Nat} {rest : List Nat} {x : WState} (hw : s.waiting = w :: rest)
    (hx : x ≠ .parked) :
    (∀ w', w' ∈ rest → w' < s.nw ∧ upd s.wrk w x w' = .parked) ∧
    (∀ w', w' < s.nw → upd s.wrk w x w' = .parked → w' ∈ rest) ∧ rest.Nodup := by
  have hnd := hI.wait_nodup
  rw [hw] at hnd
  have hnd' := List.nodup_cons.mp hnd
  refine ⟨wait_parked_upd hI (fun w' h' => ⟨by rw [hw]; exact List.mem_cons_of_mem _ h', ?_⟩), ?_, hnd'.2⟩
  · intro he; subst he; exact hnd'.1 h'
  · intro w' hlt hp
    by_cases he : w' = w
    · subst he; rw [upd_same] at hp; exact absurd hp hx
    · rw [upd_ne _ _ he] at hp
      have := hI.parked_wait w' hlt hp
      rw [hw] at this
      rcases List.mem_cons.mp this with h1 | h1
      · exact absurd h1 he
      · exact h1

end Compio.Asyncify
