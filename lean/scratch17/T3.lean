import Compio.Lemmas.AsyncifyPool
namespace Compio.Asyncify

macro "ite_omega" : tactic => `(tactic| ((repeat' split) <;> intros <;> omega))


theorem inv_submit {s s' : State} {d : Nat} {k : Kind} (hI : Inv s) (h : doSubmit s d k = some s') : Inv s' := by
  obtain ⟨hd, hdisp, rfl⟩ := doSubmit_some h
  refine { wait_parked := hI.wait_parked, parked_wait := hI.parked_wait, wait_nodup := hI.wait_nodup,
           sendq_blocked := ?_, sendq_nodup := hI.sendq_nodup, chan := hI.chan, place := ?_, started := hI.started,
           counter_raw := hI.counter_raw, counter_res := ?_, res_limit := hI.res_limit }
  · intro d' j' hm
    obtain ⟨h1, h2⟩ := hI.sendq_blocked d' j' hm
    refine ⟨h1, ?_⟩
    have : d' ≠ d := by intro he; subst he; rw [hdisp] at h2; cases h2
    show upd s.disp d _ d' = _
    rw [upd_ne _ _ this]; exact h2
  · intro j'
    have hp := hI.place j'
    unfold holders at hp ⊢
    simp only [cnt_split _ _ hd, cntEx_upd, upd_same, hdisp, DState.holds, toNat_ite, beq_iff_eq, Bool.false_eq_true, ↓reduceIte] at hp ⊢
    revert hp; ite_omega
  · intro hr
    have hc := hI.counter_res hr
    simp only [cnt_split _ _ hd, cntEx_upd, upd_same, hdisp, DState.isSpawning, toNat_ite, Bool.false_eq_true, ↓reduceIte] at hc ⊢
    revert hc; ite_omega
end Compio.Asyncify
