import Compio.Lemmas.AsyncifyPool
namespace Compio.Asyncify

/-! ## configuration is static; metadata of jobs -/

theorem step_static {s s' : State} {e : Event} (h : step? s e = some s') :
    s'.limit = s.limit ∧ s'.reserve = s.reserve ∧ s'.nd = s.nd := by
  cases e with
  | submit d k => obtain ⟨_, _, rfl⟩ := doSubmit_some h; exact ⟨rfl, rfl, rfl⟩
  | trySend d => obtain ⟨_, j, _, (⟨w, rest, _, rfl⟩ | ⟨_, rfl⟩)⟩ := doTrySend_some h <;> exact ⟨rfl, rfl, rfl⟩
  | load d =>
    obtain ⟨_, j, _, (⟨_, rfl⟩ | ⟨_, _, rfl⟩ | ⟨_, _, _, rfl⟩ | ⟨_, _, _, rfl⟩)⟩ := doLoad_some h <;> exact ⟨rfl, rfl, rfl⟩
  | spawn d => obtain ⟨_, j, _, rfl⟩ := doSpawn_some h; exact ⟨rfl, rfl, rfl⟩
  | send d => obtain ⟨_, j, _, (⟨w, rest, _, rfl⟩ | ⟨_, rfl⟩)⟩ := doSend_some h <;> exact ⟨rfl, rfl, rfl⟩
  | retry d => obtain ⟨_, j, _, rfl⟩ := doRetry_some h; exact ⟨rfl, rfl, rfl⟩
  | giveUp d => obtain ⟨_, j, (⟨_, rfl⟩ | ⟨_, rfl⟩)⟩ := doGiveUp_some h <;> exact ⟨rfl, rfl, rfl⟩
  | reap d => obtain ⟨e, rest, _, rfl⟩ := doReap_some h; exact ⟨rfl, rfl, rfl⟩
  | count w => obtain ⟨_, _, (⟨_, rfl⟩ | ⟨_, rfl⟩)⟩ := doCount_some h <;> exact ⟨rfl, rfl, rfl⟩
  | recv w => obtain ⟨_, _, (⟨d, j, rest, _, rfl⟩ | ⟨_, rfl⟩)⟩ := doRecv_some h <;> exact ⟨rfl, rfl, rfl⟩
  | wake w => obtain ⟨_, j, _, rfl⟩ := doWake_some h; exact ⟨rfl, rfl, rfl⟩
  | timeout w => obtain ⟨_, _, rfl⟩ := doTimeout_some h; exact ⟨rfl, rfl, rfl⟩
  | finish w => obtain ⟨_, j, _, (⟨_, rfl⟩ | ⟨_, rfl⟩)⟩ := doFinish_some h <;> exact ⟨rfl, rfl, rfl⟩
  | exit w => obtain ⟨_, _, rfl⟩ := doExit_some h; exact ⟨rfl, rfl, rfl⟩

theorem run_static {s : State} : ∀ {evs : List Event} {s' : State}, run? s evs = some s' →
    s'.limit = s.limit ∧ s'.reserve = s.reserve ∧ s'.nd = s.nd
  | [], s', h => by simp [run?] at h; subst h; exact ⟨rfl, rfl, rfl⟩
  | e :: es, s', h => by
    unfold run? at h
    split at h
    · rename_i s1 h1
      obtain ⟨a, b, c⟩ := step_static h1
      obtain ⟨a', b', c'⟩ := run_static h
      exact ⟨a'.trans a, b'.trans b, c'.trans c⟩
    · cases h

/-! ## spawns in flight: the unconditional bound -/

/-- counted workers plus spawns in flight -/
def xcount (s : State) : Nat := s.counter + inflight s

/-- effect of one step of the code as it is on `counter + inflight`: it never grows, except when a
dispatcher passes the limit check (`counter < limit`), which adds one spawn in flight -/
theorem xcount_step {s s' : State} {e : Event} (hr : s.reserve = false) (h : step? s e = some s') :
    xcount s' ≤ xcount s ∨ (s.counter < s.limit ∧ s'.counter = s.counter ∧ inflight s' = inflight s + 1) := by
  unfold xcount inflight
  cases e with
  | submit d k =>
    obtain ⟨hd, hj, rfl⟩ := doSubmit_some h
    left
    simp only [cnt_split _ _ hd, cntEx_upd, upd_same, hj]; cnt_norm; omega
  | trySend d =>
    obtain ⟨hd, j, hj, (⟨w, rest, _, rfl⟩ | ⟨_, rfl⟩)⟩ := doTrySend_some h
    · left
      by_cases hw : w < s.nw
      · simp only [cnt_split _ _ hd, cnt_split _ _ hw, cntEx_upd, upd_same, hj]; cnt_norm
        cases s.wrk w <;> simp <;> omega
      · simp only [cnt_split _ _ hd, cnt_upd_ge _ _ _ (Nat.le_of_not_lt hw), cntEx_upd, upd_same, hj]; cnt_norm; omega
    · left
      simp only [cnt_split _ _ hd, cntEx_upd, upd_same, hj]; cnt_norm; omega
  | load d =>
    obtain ⟨hd, j, hj, (⟨_, rfl⟩ | ⟨_, _, rfl⟩ | ⟨_, _, hr', rfl⟩ | ⟨_, hlt, _, rfl⟩)⟩ := doLoad_some h
    · left; simp only [cnt_split _ _ hd, cntEx_upd, upd_same, hj]; cnt_norm; omega
    · left; simp only [cnt_split _ _ hd, cntEx_upd, upd_same, hj]; cnt_norm; omega
    · rw [hr] at hr'; cases hr'
    · right
      refine ⟨hlt, rfl, ?_⟩
      simp only [cnt_split _ _ hd, cntEx_upd, upd_same, hj]; cnt_norm; omega
  | spawn d =>
    obtain ⟨hd, j, hj, rfl⟩ := doSpawn_some h
    left
    simp only [cnt_split _ _ hd, cntEx_upd, upd_same, cnt_push, hj]; cnt_norm; omega
  | send d =>
    obtain ⟨hd, j, hj, (⟨w, rest, _, rfl⟩ | ⟨_, rfl⟩)⟩ := doSend_some h
    · left
      by_cases hw : w < s.nw
      · simp only [cnt_split _ _ hd, cnt_split _ _ hw, cntEx_upd, upd_same, hj]; cnt_norm
        cases s.wrk w <;> simp <;> omega
      · simp only [cnt_split _ _ hd, cnt_upd_ge _ _ _ (Nat.le_of_not_lt hw), cntEx_upd, upd_same, hj]; cnt_norm; omega
    · left
      simp only [cnt_split _ _ hd, cntEx_upd, upd_same, hj]; cnt_norm; omega
  | retry d =>
    obtain ⟨hd, j, hj, rfl⟩ := doRetry_some h
    left; simp only [cnt_split _ _ hd, cntEx_upd, upd_same, hj]; cnt_norm; omega
  | giveUp d =>
    obtain ⟨hd, j, (⟨hj, rfl⟩ | ⟨hj, rfl⟩)⟩ := doGiveUp_some h <;>
    · left; simp only [cnt_split _ _ hd, cntEx_upd, upd_same, hj]; cnt_norm; omega
  | reap d => obtain ⟨e, rest, _, rfl⟩ := doReap_some h; left; exact Nat.le_refl _
  | count w =>
    obtain ⟨hw, hs, (⟨hr', rfl⟩ | ⟨_, rfl⟩)⟩ := doCount_some h
    · rw [hr] at hr'; cases hr'
    · left; simp only [cnt_split _ _ hw, cntEx_upd, upd_same, hs]; cnt_norm; omega
  | recv w =>
    obtain ⟨hw, hs, (⟨d, j, rest, _, rfl⟩ | ⟨_, rfl⟩)⟩ := doRecv_some h
    · left
      by_cases hd : d < s.nd
      · simp only [cnt_split _ _ hd, cnt_split _ _ hw, cntEx_upd, upd_same, hs]; cnt_norm
        cases s.disp d <;> simp <;> omega
      · simp only [cnt_upd_ge _ _ _ (Nat.le_of_not_lt hd), cnt_split _ _ hw, cntEx_upd, upd_same, hs]; cnt_norm; omega
    · left; simp only [cnt_split _ _ hw, cntEx_upd, upd_same, hs]; cnt_norm; omega
  | wake w =>
    obtain ⟨hw, j, hs, rfl⟩ := doWake_some h
    left; simp only [cnt_split _ _ hw, cntEx_upd, upd_same, hs]; cnt_norm; omega
  | timeout w =>
    obtain ⟨hw, hs, rfl⟩ := doTimeout_some h
    left; simp only [cnt_split _ _ hw, cntEx_upd, upd_same, hs]; cnt_norm; omega
  | finish w =>
    obtain ⟨hw, j, hs, (⟨_, rfl⟩ | ⟨_, rfl⟩)⟩ := doFinish_some h <;>
    · left; simp only [cnt_split _ _ hw, cntEx_upd, upd_same, hs]; cnt_norm; omega
  | exit w =>
    obtain ⟨hw, hs, rfl⟩ := doExit_some h
    left; simp only [cnt_split _ _ hw, cntEx_upd, upd_same, hs]; cnt_norm; omega

theorem inflight_le_peak (s : State) : ∀ evs : List Event, inflight s ≤ peak s evs
  | [] => Nat.le_refl _
  | e :: es => by
    unfold peak
    split
    · exact Nat.le_max_left _ _
    · exact Nat.le_refl _

/-- along any schedule of the code as it is, `counter + inflight` stays below
`limit + (largest number of spawns in flight) - 1` (or below its initial value) -/
theorem xcount_run : ∀ {evs : List Event} {s s' : State}, s.reserve = false → run? s evs = some s' →
    xcount s' ≤ max (xcount s) (s.limit + peak s evs - 1)
  | [], s, s', _, h => by simp [run?] at h; subst h; exact Nat.le_max_left _ _
  | e :: es, s, s', hr, h => by
    unfold run? at h
    split at h
    · rename_i s1 h1
      obtain ⟨hl, hr1, _⟩ := step_static h1
      have ih := xcount_run (hr1.trans hr) h
      have hp : peak s (e :: es) = max (inflight s) (peak s1 es) := by
        rw [peak.eq_2, h1]
      have hip := inflight_le_peak s1 es
      rw [hp, hl] at *
      rcases xcount_step hr h1 with hle | ⟨hlt, hc, hi⟩
      · omega
      · have : xcount s1 = s.counter + (inflight s + 1) := by unfold xcount; rw [hc, hi]
        omega
    · cases h

end Compio.Asyncify
