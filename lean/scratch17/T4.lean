import Compio.Lemmas.AsyncifyPool
namespace Compio.Asyncify

macro "ite_omega" : tactic => `(tactic| ((repeat' split) <;> intros <;> omega))

/-- normalise indicator terms so that `omega` (after splitting the `if`s) can finish -/
macro "cnt_norm" loc:(Lean.Parser.Tactic.location)? : tactic =>
  `(tactic| simp only [cntEx_upd, upd_same, cnt_push, DState.holds, WState.holds, WState.runs, WState.counted,
      WState.alive, WState.isStarting, WState.isRunning, DState.isSpawning, DState.isBlocked, toNat_ite,
      beq_iff_eq, Bool.false_eq_true, ↓reduceIte, List.countP_cons, List.countP_append, List.countP_nil,
      List.count_cons, List.count_nil, List.length_append, List.length_cons, List.length_nil] $(loc)?)

theorem sendq_blocked_upd {s : State} (hI : Inv s) {d : Nat} {x : DState} (hne : s.disp d ≠ .blocked) :
    ∀ d' j', (d', j') ∈ s.sendq → d' < s.nd ∧ upd s.disp d x d' = .blocked := by
  intro d' j' hm
  obtain ⟨h1, h2⟩ := hI.sendq_blocked d' j' hm
  have : d' ≠ d := by intro he; subst he; exact hne h2
  exact ⟨h1, by rw [upd_ne _ _ this]; exact h2⟩

theorem inv_submit {s s' : State} {d : Nat} {k : Kind} (hI : Inv s) (h : doSubmit s d k = some s') : Inv s' := by
  obtain ⟨hd, hdisp, rfl⟩ := doSubmit_some h
  refine { wait_parked := hI.wait_parked, parked_wait := hI.parked_wait, wait_nodup := hI.wait_nodup,
           sendq_blocked := sendq_blocked_upd hI (by rw [hdisp]; simp), sendq_nodup := hI.sendq_nodup,
           chan := hI.chan, place := ?_, started := hI.started,
           counter_raw := hI.counter_raw, counter_res := ?_, res_limit := hI.res_limit }
  · intro j'
    have hp := hI.place j'
    unfold holders at hp ⊢
    simp only [cnt_split _ _ hd, hdisp, cntEx_upd, upd_same] at hp ⊢
    cnt_norm at hp ⊢
    revert hp; ite_omega
  · intro hr
    have hc := hI.counter_res hr
    simp only [cnt_split _ _ hd, hdisp, cntEx_upd, upd_same] at hc ⊢
    cnt_norm at hc ⊢
    omega

/-- a job handed to the head of the waiting queue (by `try_send` or by `send`) -/
theorem inv_hand {s : State} {d w j : Nat} {rest : List Nat} {x : DState} (hI : Inv s) (hd : d < s.nd)
    (hx : s.disp d = x) (hxh : ∀ j', DState.holds j' x = (j == j')) (hxs : DState.isSpawning x = false)
    (hxb : x ≠ .blocked) (hw : s.waiting = w :: rest) :
    Inv { s with disp := upd s.disp d .idle, wrk := upd s.wrk w (.handed j), waiting := rest } := by
  have hww := hI.wait_parked w (by simp [hw])
  obtain ⟨w1, w2, w3⟩ := waitInv_pop (x := .handed j) hI hw (by simp)
  have hq : s.sendq = [] := hI.chan (by simp [hw])
  refine { wait_parked := w1, parked_wait := w2, wait_nodup := w3,
           sendq_blocked := sendq_blocked_upd hI (by rw [hx]; exact hxb), sendq_nodup := hI.sendq_nodup,
           chan := fun _ => hq, place := ?_, started := ?_,
           counter_raw := ?_, counter_res := ?_, res_limit := hI.res_limit }
  · intro j'
    have hp := hI.place j'
    unfold holders at hp ⊢
    simp only [cnt_split _ _ hd, cnt_split _ _ hww.1, cntEx_upd, upd_same, hx, hxh, hww.2] at hp ⊢
    cnt_norm at hp ⊢
    revert hp; ite_omega
  · intro j'
    have hp := hI.started j'
    unfold ranCount at hp ⊢
    simp only [cnt_split _ _ hww.1, hww.2, cntEx_upd, upd_same] at hp ⊢
    cnt_norm at hp ⊢
    omega
  · intro hr
    have hc := hI.counter_raw hr
    simp only [cnt_split _ _ hww.1, hww.2, cntEx_upd, upd_same] at hc ⊢
    cnt_norm at hc ⊢
    omega
  · intro hr
    have hc := hI.counter_res hr
    simp only [cnt_split _ _ hd, cnt_split _ _ hww.1, cntEx_upd, upd_same, hx, hxs, hww.2] at hc ⊢
    cnt_norm at hc ⊢
    omega

/-- the dispatcher moves on with its job in hand (no other component changes) -/
theorem inv_dispOnly {s : State} {d j : Nat} {x y : DState} (hI : Inv s) (hd : d < s.nd)
    (hx : s.disp d = x) (hxh : ∀ j', DState.holds j' x = (j == j')) (hyh : ∀ j', DState.holds j' y = (j == j'))
    (hxb : x ≠ .blocked) (hs : DState.isSpawning x = DState.isSpawning y) :
    Inv { s with disp := upd s.disp d y } := by
  refine { wait_parked := hI.wait_parked, parked_wait := hI.parked_wait, wait_nodup := hI.wait_nodup,
           sendq_blocked := sendq_blocked_upd hI (by rw [hx]; exact hxb), sendq_nodup := hI.sendq_nodup,
           chan := hI.chan, place := ?_, started := hI.started,
           counter_raw := hI.counter_raw, counter_res := ?_, res_limit := hI.res_limit }
  · intro j'
    have hp := hI.place j'
    unfold holders at hp ⊢
    simp only [cnt_split _ _ hd, cntEx_upd, upd_same, hx, hxh, hyh] at hp ⊢
    cnt_norm at hp ⊢
    revert hp; ite_omega
  · intro hr
    have hc := hI.counter_res hr
    simp only [cnt_split _ _ hd, cntEx_upd, upd_same, hx, hs] at hc ⊢
    omega

theorem inv_trySend {s s' : State} {d : Nat} (hI : Inv s) (h : doTrySend s d = some s') : Inv s' := by
  obtain ⟨hd, j, hj, (⟨w, rest, hw, rfl⟩ | ⟨_, rfl⟩)⟩ := doTrySend_some h
  · exact inv_hand hI hd hj (by intro j'; rfl) rfl (by simp) hw
  · exact inv_dispOnly hI hd hj (by intro j'; rfl) (by intro j'; rfl) (by simp) rfl


theorem inv_load {s s' : State} {d : Nat} (hI : Inv s) (h : doLoad s d = some s') : Inv s' := by
  obtain ⟨hd, j, hj, (⟨_, rfl⟩ | ⟨_, _, rfl⟩ | ⟨_, hlt, hr, rfl⟩ | ⟨_, _, hr, rfl⟩)⟩ := doLoad_some h
  · exact inv_dispOnly hI hd hj (by intro j'; rfl) (by intro j'; rfl) (by simp) rfl
  · exact inv_dispOnly hI hd hj (by intro j'; rfl) (by intro j'; rfl) (by simp) rfl
  · -- the slot is reserved together with the limit check
    refine { wait_parked := hI.wait_parked, parked_wait := hI.parked_wait, wait_nodup := hI.wait_nodup,
             sendq_blocked := sendq_blocked_upd hI (by rw [hj]; simp), sendq_nodup := hI.sendq_nodup,
             chan := hI.chan, place := ?_, started := hI.started,
             counter_raw := ?_, counter_res := ?_, res_limit := ?_ }
    · intro j'
      have hp := hI.place j'
      unfold holders at hp ⊢
      simp only [cnt_split _ _ hd, cntEx_upd, upd_same, hj] at hp ⊢
      cnt_norm at hp ⊢
      revert hp; ite_omega
    · intro hf; rw [show s.reserve = true from hr] at hf; cases hf
    · intro _
      have hc := hI.counter_res hr
      simp only [cnt_split _ _ hd, cntEx_upd, upd_same, hj] at hc ⊢
      cnt_norm at hc ⊢
      omega
    · intro _
      show s.counter + 1 ≤ s.limit
      omega
  · refine { wait_parked := hI.wait_parked, parked_wait := hI.parked_wait, wait_nodup := hI.wait_nodup,
             sendq_blocked := sendq_blocked_upd hI (by rw [hj]; simp), sendq_nodup := hI.sendq_nodup,
             chan := hI.chan, place := ?_, started := hI.started,
             counter_raw := hI.counter_raw, counter_res := ?_, res_limit := hI.res_limit }
    · intro j'
      have hp := hI.place j'
      unfold holders at hp ⊢
      simp only [cnt_split _ _ hd, cntEx_upd, upd_same, hj] at hp ⊢
      cnt_norm at hp ⊢
      revert hp; ite_omega
    · intro hf; rw [show s.reserve = false from hr] at hf; cases hf

theorem inv_spawn {s s' : State} {d : Nat} (hI : Inv s) (h : doSpawn s d = some s') : Inv s' := by
  obtain ⟨hd, j, hj, rfl⟩ := doSpawn_some h
  refine { wait_parked := ?_, parked_wait := ?_, wait_nodup := hI.wait_nodup,
           sendq_blocked := sendq_blocked_upd hI (by rw [hj]; simp), sendq_nodup := hI.sendq_nodup,
           chan := hI.chan, place := ?_, started := ?_,
           counter_raw := ?_, counter_res := ?_, res_limit := hI.res_limit }
  · intro w' hm
    obtain ⟨h1, h2⟩ := hI.wait_parked w' hm
    refine ⟨Nat.lt_succ_of_lt h1, ?_⟩
    show upd s.wrk s.nw .starting w' = .parked
    rw [upd_ne _ _ (by omega)]; exact h2
  · intro w' hlt hp
    have hp' : upd s.wrk s.nw .starting w' = .parked := hp
    by_cases he : w' = s.nw
    · subst he; rw [upd_same] at hp'; cases hp'
    · rw [upd_ne _ _ he] at hp'
      exact hI.parked_wait w' (by have : w' < s.nw + 1 := hlt; omega) hp'
  · intro j'
    have hp := hI.place j'
    unfold holders at hp ⊢
    simp only [cnt_split _ _ hd, cntEx_upd, upd_same, cnt_push, hj] at hp ⊢
    cnt_norm at hp ⊢
    revert hp; ite_omega
  · intro j'
    have hp := hI.started j'
    unfold ranCount at hp ⊢
    simp only [cnt_push] at hp ⊢
    cnt_norm at hp ⊢
    omega
  · intro hr
    have hc := hI.counter_raw hr
    simp only [cnt_push] at hc ⊢
    cnt_norm at hc ⊢
    omega
  · intro hr
    have hc := hI.counter_res hr
    simp only [cnt_split _ _ hd, cntEx_upd, upd_same, cnt_push, hj] at hc ⊢
    cnt_norm at hc ⊢
    omega

theorem inv_send {s s' : State} {d : Nat} (hI : Inv s) (h : doSend s d = some s') : Inv s' := by
  obtain ⟨hd, j, hj, (⟨w, rest, hw, rfl⟩ | ⟨hw, rfl⟩)⟩ := doSend_some h
  · exact inv_hand hI hd hj (by intro j'; rfl) rfl (by simp) hw
  · have hnb : s.disp d ≠ .blocked := by rw [hj]; simp
    have hdq : d ∉ s.sendq.map Prod.fst := by
      intro hm
      obtain ⟨⟨d', j'⟩, hm', he⟩ := List.mem_map.mp hm
      simp only at he; subst he
      exact hnb (hI.sendq_blocked _ _ hm').2
    refine { wait_parked := hI.wait_parked, parked_wait := hI.parked_wait, wait_nodup := hI.wait_nodup,
             sendq_blocked := ?_, sendq_nodup := ?_,
             chan := fun hne => absurd hw hne, place := ?_, started := hI.started,
             counter_raw := hI.counter_raw, counter_res := ?_, res_limit := hI.res_limit }
    · intro d' j' hm
      rcases List.mem_append.mp hm with h1 | h1
      · exact sendq_blocked_upd hI hnb d' j' h1
      · simp only [List.mem_singleton, Prod.mk.injEq] at h1
        obtain ⟨rfl, rfl⟩ := h1
        exact ⟨hd, upd_same _ _ _⟩
    · show ((s.sendq ++ [(d, j)]).map Prod.fst).Nodup
      rw [List.map_append, List.nodup_append]
      refine ⟨hI.sendq_nodup, by simp, ?_⟩
      intro a ha b hb
      simp only [List.map_cons, List.map_nil, List.mem_singleton] at hb
      subst hb
      intro he; subst he; exact hdq ha
    · intro j'
      have hp := hI.place j'
      unfold holders at hp ⊢
      simp only [cnt_split _ _ hd, cntEx_upd, upd_same, hj] at hp ⊢
      cnt_norm at hp ⊢
      revert hp; ite_omega
    · intro hr
      have hc := hI.counter_res hr
      simp only [cnt_split _ _ hd, cntEx_upd, upd_same, hj] at hc ⊢
      cnt_norm at hc ⊢
      omega

theorem inv_retry {s s' : State} {d : Nat} (hI : Inv s) (h : doRetry s d = some s') : Inv s' := by
  obtain ⟨hd, j, hj, rfl⟩ := doRetry_some h
  exact inv_dispOnly hI hd hj (by intro j'; rfl) (by intro j'; rfl) (by simp) rfl

theorem inv_giveUp {s s' : State} {d : Nat} (hI : Inv s) (h : doGiveUp s d = some s') : Inv s' := by
  obtain ⟨hd, j, (⟨hj, rfl⟩ | ⟨hj, rfl⟩)⟩ := doGiveUp_some h
  all_goals
    refine { wait_parked := hI.wait_parked, parked_wait := hI.parked_wait, wait_nodup := hI.wait_nodup,
             sendq_blocked := sendq_blocked_upd hI (by rw [hj]; simp), sendq_nodup := hI.sendq_nodup,
             chan := hI.chan, place := ?_, started := hI.started,
             counter_raw := hI.counter_raw, counter_res := ?_, res_limit := hI.res_limit }
  all_goals first
    | (intro j'
       have hp := hI.place j'
       unfold holders at hp ⊢
       simp only [cnt_split _ _ hd, cntEx_upd, upd_same, hj] at hp ⊢
       cnt_norm at hp ⊢
       revert hp; ite_omega)
    | (intro hr
       have hc := hI.counter_res hr
       simp only [cnt_split _ _ hd, cntEx_upd, upd_same, hj] at hc ⊢
       cnt_norm at hc ⊢
       omega)

theorem takeOwned_countP (p : Done → Bool) (d : Nat) :
    ∀ (l : List Done) (e : Done) (rest : List Done), takeOwned d l = some (e, rest) →
      l.countP p = rest.countP p + (p e).toNat ∧ e.owner = d
  | [], e, rest, h => by simp [takeOwned] at h
  | a :: l, e, rest, h => by
    unfold takeOwned at h
    split at h
    · rename_i ho
      simp only [Option.some.injEq, Prod.mk.injEq] at h
      obtain ⟨rfl, rfl⟩ := h
      refine ⟨?_, ho⟩
      rw [List.countP_cons, toNat_ite]
    · split at h
      · rename_i x r hx
        simp only [Option.some.injEq, Prod.mk.injEq] at h
        obtain ⟨rfl, rfl⟩ := h
        obtain ⟨h1, h2⟩ := takeOwned_countP p d l x r hx
        refine ⟨?_, h2⟩
        rw [List.countP_cons, List.countP_cons, h1]
        omega
      · cases h

theorem inv_reap {s s' : State} {d : Nat} (hI : Inv s) (h : doReap s d = some s') : Inv s' := by
  obtain ⟨e, rest, he, rfl⟩ := doReap_some h
  refine { wait_parked := hI.wait_parked, parked_wait := hI.parked_wait, wait_nodup := hI.wait_nodup,
           sendq_blocked := hI.sendq_blocked, sendq_nodup := hI.sendq_nodup,
           chan := hI.chan, place := ?_, started := ?_,
           counter_raw := hI.counter_raw, counter_res := hI.counter_res, res_limit := hI.res_limit }
  · intro j'
    have hp := hI.place j'
    have hc := (takeOwned_countP (fun e => e.job == j') d _ _ _ he).1
    unfold holders at hp ⊢
    simp only [hc] at hp
    cnt_norm at hp ⊢
    revert hp; ite_omega
  · intro j'
    have hp := hI.started j'
    have hc := (takeOwned_countP (fun e => e.job == j') d _ _ _ he).1
    unfold ranCount at hp ⊢
    simp only [hc] at hp
    cnt_norm at hp ⊢
    revert hp; ite_omega


theorem inv_count {s s' : State} {w : Nat} (hI : Inv s) (h : doCount s w = some s') : Inv s' := by
  obtain ⟨hw, hs, (⟨hr, rfl⟩ | ⟨hr, rfl⟩)⟩ := doCount_some h
  · obtain ⟨w1, w2⟩ := waitInv_upd_other (x := .ready) hI (by rw [hs]; simp) (by simp)
    refine { wait_parked := w1, parked_wait := w2, wait_nodup := hI.wait_nodup,
             sendq_blocked := hI.sendq_blocked, sendq_nodup := hI.sendq_nodup,
             chan := hI.chan, place := ?_, started := ?_,
             counter_raw := ?_, counter_res := ?_, res_limit := hI.res_limit }
    · intro j'
      have hp := hI.place j'
      unfold holders at hp ⊢
      simp only [cnt_split _ _ hw, cntEx_upd, upd_same, hs] at hp ⊢
      cnt_norm at hp ⊢
      revert hp; ite_omega
    · intro j'
      have hp := hI.started j'
      unfold ranCount at hp ⊢
      simp only [cnt_split _ _ hw, cntEx_upd, upd_same, hs] at hp ⊢
      cnt_norm at hp ⊢
      omega
    · intro hf; rw [show s.reserve = true from hr] at hf; cases hf
    · intro hr'
      have hc := hI.counter_res hr'
      simp only [cnt_split _ _ hw, cntEx_upd, upd_same, hs] at hc ⊢
      cnt_norm at hc ⊢
      omega
  · obtain ⟨w1, w2⟩ := waitInv_upd_other (x := .ready) hI (by rw [hs]; simp) (by simp)
    refine { wait_parked := w1, parked_wait := w2, wait_nodup := hI.wait_nodup,
             sendq_blocked := hI.sendq_blocked, sendq_nodup := hI.sendq_nodup,
             chan := hI.chan, place := ?_, started := ?_,
             counter_raw := ?_, counter_res := ?_, res_limit := ?_ }
    · intro j'
      have hp := hI.place j'
      unfold holders at hp ⊢
      simp only [cnt_split _ _ hw, cntEx_upd, upd_same, hs] at hp ⊢
      cnt_norm at hp ⊢
      revert hp; ite_omega
    · intro j'
      have hp := hI.started j'
      unfold ranCount at hp ⊢
      simp only [cnt_split _ _ hw, cntEx_upd, upd_same, hs] at hp ⊢
      cnt_norm at hp ⊢
      omega
    · intro hr'
      have hc := hI.counter_raw hr'
      simp only [cnt_split _ _ hw, cntEx_upd, upd_same, hs] at hc ⊢
      cnt_norm at hc ⊢
      omega
    · intro hf; rw [show s.reserve = false from hr] at hf; cases hf
    · intro hf; rw [show s.reserve = false from hr] at hf; cases hf

theorem inv_recv {s s' : State} {w : Nat} (hI : Inv s) (h : doRecv s w = some s') : Inv s' := by
  obtain ⟨hw, hs, (⟨d, j, rest, hq, rfl⟩ | ⟨hq, rfl⟩)⟩ := doRecv_some h
  · -- a blocked sender is served
    obtain ⟨w1, w2⟩ := waitInv_upd_other (x := .running j) hI (by rw [hs]; simp) (by simp)
    obtain ⟨hd, hb⟩ := hI.sendq_blocked d j (by rw [hq]; simp)
    have hwe : s.waiting = [] := by
      cases hwt : s.waiting with
      | nil => rfl
      | cons a l => have := hI.chan (by rw [hwt]; simp); rw [hq] at this; cases this
    have hnd := hI.sendq_nodup
    rw [hq, List.map_cons, List.nodup_cons] at hnd
    refine { wait_parked := w1, parked_wait := w2, wait_nodup := hI.wait_nodup,
             sendq_blocked := ?_, sendq_nodup := hnd.2,
             chan := fun hne => absurd hwe hne, place := ?_, started := ?_,
             counter_raw := ?_, counter_res := ?_, res_limit := hI.res_limit }
    · intro d' j' hm
      obtain ⟨h1, h2⟩ := hI.sendq_blocked d' j' (by rw [hq]; exact List.mem_cons_of_mem _ hm)
      have hne : d' ≠ d := by
        intro he; subst he
        exact hnd.1 (List.mem_map.mpr ⟨(d', j'), hm, rfl⟩)
      exact ⟨h1, by show upd s.disp d .idle d' = _; rw [upd_ne _ _ hne]; exact h2⟩
    · intro j'
      have hp := hI.place j'
      unfold holders at hp ⊢
      simp only [cnt_split _ _ hd, cnt_split _ _ hw, cntEx_upd, upd_same, hs, hb, hq] at hp ⊢
      cnt_norm at hp ⊢
      revert hp; ite_omega
    · intro j'
      have hp := hI.started j'
      unfold ranCount at hp ⊢
      simp only [cnt_split _ _ hw, cntEx_upd, upd_same, hs] at hp ⊢
      cnt_norm at hp ⊢
      revert hp; ite_omega
    · intro hr'
      have hc := hI.counter_raw hr'
      simp only [cnt_split _ _ hw, cntEx_upd, upd_same, hs] at hc ⊢
      cnt_norm at hc ⊢
      omega
    · intro hr'
      have hc := hI.counter_res hr'
      simp only [cnt_split _ _ hd, cnt_split _ _ hw, cntEx_upd, upd_same, hs, hb] at hc ⊢
      cnt_norm at hc ⊢
      omega
  · -- nothing pending: park
    have hnw : w ∉ s.waiting := not_mem_waiting hI (by rw [hs]; simp)
    refine { wait_parked := ?_, parked_wait := ?_, wait_nodup := ?_,
             sendq_blocked := hI.sendq_blocked, sendq_nodup := hI.sendq_nodup,
             chan := fun _ => hq, place := ?_, started := ?_,
             counter_raw := ?_, counter_res := ?_, res_limit := hI.res_limit }
    · intro w' hm
      rcases List.mem_append.mp hm with h1 | h1
      · obtain ⟨a, b⟩ := hI.wait_parked w' h1
        have hne : w' ≠ w := by intro he; subst he; exact hnw h1
        exact ⟨a, by show upd s.wrk w .parked w' = _; rw [upd_ne _ _ hne]; exact b⟩
      · simp only [List.mem_singleton] at h1; subst h1
        exact ⟨hw, upd_same _ _ _⟩
    · intro w' hlt hp
      have hp' : upd s.wrk w .parked w' = .parked := hp
      by_cases he : w' = w
      · subst he; exact List.mem_append.mpr (.inr (by simp))
      · rw [upd_ne _ _ he] at hp'
        exact List.mem_append.mpr (.inl (hI.parked_wait w' hlt hp'))
    · show (s.waiting ++ [w]).Nodup
      rw [List.nodup_append]
      refine ⟨hI.wait_nodup, by simp, ?_⟩
      intro a ha b hb
      simp only [List.mem_singleton] at hb; subst hb
      intro he; subst he; exact hnw ha
    · intro j'
      have hp := hI.place j'
      unfold holders at hp ⊢
      simp only [cnt_split _ _ hw, cntEx_upd, upd_same, hs] at hp ⊢
      cnt_norm at hp ⊢
      revert hp; ite_omega
    · intro j'
      have hp := hI.started j'
      unfold ranCount at hp ⊢
      simp only [cnt_split _ _ hw, cntEx_upd, upd_same, hs] at hp ⊢
      cnt_norm at hp ⊢
      omega
    · intro hr'
      have hc := hI.counter_raw hr'
      simp only [cnt_split _ _ hw, cntEx_upd, upd_same, hs] at hc ⊢
      cnt_norm at hc ⊢
      omega
    · intro hr'
      have hc := hI.counter_res hr'
      simp only [cnt_split _ _ hw, cntEx_upd, upd_same, hs] at hc ⊢
      cnt_norm at hc ⊢
      omega

theorem inv_wake {s s' : State} {w : Nat} (hI : Inv s) (h : doWake s w = some s') : Inv s' := by
  obtain ⟨hw, j, hs, rfl⟩ := doWake_some h
  obtain ⟨w1, w2⟩ := waitInv_upd_other (x := .running j) hI (by rw [hs]; simp) (by simp)
  refine { wait_parked := w1, parked_wait := w2, wait_nodup := hI.wait_nodup,
           sendq_blocked := hI.sendq_blocked, sendq_nodup := hI.sendq_nodup,
           chan := hI.chan, place := ?_, started := ?_,
           counter_raw := ?_, counter_res := ?_, res_limit := hI.res_limit }
  · intro j'
    have hp := hI.place j'
    unfold holders at hp ⊢
    simp only [cnt_split _ _ hw, cntEx_upd, upd_same, hs] at hp ⊢
    cnt_norm at hp ⊢
    revert hp; ite_omega
  · intro j'
    have hp := hI.started j'
    unfold ranCount at hp ⊢
    simp only [cnt_split _ _ hw, cntEx_upd, upd_same, hs] at hp ⊢
    cnt_norm at hp ⊢
    revert hp; ite_omega
  · intro hr'
    have hc := hI.counter_raw hr'
    simp only [cnt_split _ _ hw, cntEx_upd, upd_same, hs] at hc ⊢
    cnt_norm at hc ⊢
    omega
  · intro hr'
    have hc := hI.counter_res hr'
    simp only [cnt_split _ _ hw, cntEx_upd, upd_same, hs] at hc ⊢
    cnt_norm at hc ⊢
    omega

theorem inv_timeout {s s' : State} {w : Nat} (hI : Inv s) (h : doTimeout s w = some s') : Inv s' := by
  obtain ⟨hw, hs, rfl⟩ := doTimeout_some h
  refine { wait_parked := ?_, parked_wait := ?_, wait_nodup := hI.wait_nodup.filter _,
           sendq_blocked := hI.sendq_blocked, sendq_nodup := hI.sendq_nodup,
           chan := ?_, place := ?_, started := ?_,
           counter_raw := ?_, counter_res := ?_, res_limit := hI.res_limit }
  · refine wait_parked_upd hI (fun w' hm => ?_)
    obtain ⟨h1, h2⟩ := List.mem_filter.mp hm
    exact ⟨h1, by simpa using h2⟩
  · intro w' hlt hp
    have hp' : upd s.wrk w .leaving w' = .parked := hp
    by_cases he : w' = w
    · subst he; rw [upd_same] at hp'; cases hp'
    · rw [upd_ne _ _ he] at hp'
      exact List.mem_filter.mpr ⟨hI.parked_wait w' hlt hp', by simpa using he⟩
  · intro hne
    apply hI.chan
    intro he
    apply hne
    show s.waiting.filter _ = []
    rw [he]; rfl
  · intro j'
    have hp := hI.place j'
    unfold holders at hp ⊢
    simp only [cnt_split _ _ hw, cntEx_upd, upd_same, hs] at hp ⊢
    cnt_norm at hp ⊢
    revert hp; ite_omega
  · intro j'
    have hp := hI.started j'
    unfold ranCount at hp ⊢
    simp only [cnt_split _ _ hw, cntEx_upd, upd_same, hs] at hp ⊢
    cnt_norm at hp ⊢
    omega
  · intro hr'
    have hc := hI.counter_raw hr'
    simp only [cnt_split _ _ hw, cntEx_upd, upd_same, hs] at hc ⊢
    cnt_norm at hc ⊢
    omega
  · intro hr'
    have hc := hI.counter_res hr'
    simp only [cnt_split _ _ hw, cntEx_upd, upd_same, hs] at hc ⊢
    cnt_norm at hc ⊢
    omega

theorem inv_finish {s s' : State} {w : Nat} (hI : Inv s) (h : doFinish s w = some s') : Inv s' := by
  obtain ⟨hw, j, hs, (⟨_, rfl⟩ | ⟨_, rfl⟩)⟩ := doFinish_some h
  · obtain ⟨w1, w2⟩ := waitInv_upd_other (x := .leaving) hI (by rw [hs]; simp) (by simp)
    refine { wait_parked := w1, parked_wait := w2, wait_nodup := hI.wait_nodup,
             sendq_blocked := hI.sendq_blocked, sendq_nodup := hI.sendq_nodup,
             chan := hI.chan, place := ?_, started := ?_,
             counter_raw := ?_, counter_res := ?_, res_limit := hI.res_limit }
    · intro j'
      have hp := hI.place j'
      unfold holders at hp ⊢
      simp only [cnt_split _ _ hw, cntEx_upd, upd_same, hs] at hp ⊢
      cnt_norm at hp ⊢
      revert hp; ite_omega
    · intro j'
      have hp := hI.started j'
      unfold ranCount at hp ⊢
      simp only [cnt_split _ _ hw, cntEx_upd, upd_same, hs] at hp ⊢
      cnt_norm at hp ⊢
      revert hp; ite_omega
    · intro hr'
      have hc := hI.counter_raw hr'
      simp only [cnt_split _ _ hw, cntEx_upd, upd_same, hs] at hc ⊢
      cnt_norm at hc ⊢
      omega
    · intro hr'
      have hc := hI.counter_res hr'
      simp only [cnt_split _ _ hw, cntEx_upd, upd_same, hs] at hc ⊢
      cnt_norm at hc ⊢
      omega
  · obtain ⟨w1, w2⟩ := waitInv_upd_other (x := .ready) hI (by rw [hs]; simp) (by simp)
    refine { wait_parked := w1, parked_wait := w2, wait_nodup := hI.wait_nodup,
             sendq_blocked := hI.sendq_blocked, sendq_nodup := hI.sendq_nodup,
             chan := hI.chan, place := ?_, started := ?_,
             counter_raw := ?_, counter_res := ?_, res_limit := hI.res_limit }
    · intro j'
      have hp := hI.place j'
      unfold holders at hp ⊢
      simp only [cnt_split _ _ hw, cntEx_upd, upd_same, hs] at hp ⊢
      cnt_norm at hp ⊢
      revert hp; ite_omega
    · intro j'
      have hp := hI.started j'
      unfold ranCount at hp ⊢
      simp only [cnt_split _ _ hw, cntEx_upd, upd_same, hs] at hp ⊢
      cnt_norm at hp ⊢
      revert hp; ite_omega
    · intro hr'
      have hc := hI.counter_raw hr'
      simp only [cnt_split _ _ hw, cntEx_upd, upd_same, hs] at hc ⊢
      cnt_norm at hc ⊢
      omega
    · intro hr'
      have hc := hI.counter_res hr'
      simp only [cnt_split _ _ hw, cntEx_upd, upd_same, hs] at hc ⊢
      cnt_norm at hc ⊢
      omega

theorem inv_exit {s s' : State} {w : Nat} (hI : Inv s) (h : doExit s w = some s') : Inv s' := by
  obtain ⟨hw, hs, rfl⟩ := doExit_some h
  obtain ⟨w1, w2⟩ := waitInv_upd_other (x := .exited) hI (by rw [hs]; simp) (by simp)
  refine { wait_parked := w1, parked_wait := w2, wait_nodup := hI.wait_nodup,
           sendq_blocked := hI.sendq_blocked, sendq_nodup := hI.sendq_nodup,
           chan := hI.chan, place := ?_, started := ?_,
           counter_raw := ?_, counter_res := ?_, res_limit := ?_ }
  · intro j'
    have hp := hI.place j'
    unfold holders at hp ⊢
    simp only [cnt_split _ _ hw, cntEx_upd, upd_same, hs] at hp ⊢
    cnt_norm at hp ⊢
    revert hp; ite_omega
  · intro j'
    have hp := hI.started j'
    unfold ranCount at hp ⊢
    simp only [cnt_split _ _ hw, cntEx_upd, upd_same, hs] at hp ⊢
    cnt_norm at hp ⊢
    omega
  · intro hr'
    have hc := hI.counter_raw hr'
    simp only [cnt_split _ _ hw, cntEx_upd, upd_same, hs] at hc ⊢
    cnt_norm at hc ⊢
    omega
  · intro hr'
    have hc := hI.counter_res hr'
    simp only [cnt_split _ _ hw, cntEx_upd, upd_same, hs] at hc ⊢
    cnt_norm at hc ⊢
    omega
  · intro hr'
    have := hI.res_limit hr'
    show s.counter - 1 ≤ s.limit
    omega

theorem inv_step {s s' : State} {e : Event} (hI : Inv s) (h : step? s e = some s') : Inv s' := by
  cases e with
  | submit d k => exact inv_submit hI h
  | trySend d => exact inv_trySend hI h
  | load d => exact inv_load hI h
  | spawn d => exact inv_spawn hI h
  | send d => exact inv_send hI h
  | retry d => exact inv_retry hI h
  | giveUp d => exact inv_giveUp hI h
  | reap d => exact inv_reap hI h
  | count w => exact inv_count hI h
  | recv w => exact inv_recv hI h
  | wake w => exact inv_wake hI h
  | timeout w => exact inv_timeout hI h
  | finish w => exact inv_finish hI h
  | exit w => exact inv_exit hI h

theorem inv_init (limit nd : Nat) (reserve : Bool) : Inv (init limit nd reserve) := by
  refine { wait_parked := (by intro w h; cases h), parked_wait := (by intro w h; exact absurd h (Nat.not_lt_zero _)),
           wait_nodup := List.nodup_nil, sendq_blocked := (by intro d j h; cases h), sendq_nodup := List.nodup_nil,
           chan := fun _ => rfl, place := ?_, started := ?_, counter_raw := fun _ => rfl,
           counter_res := ?_, res_limit := fun _ => Nat.zero_le _ }
  · intro j
    have : cnt (fun _ : Nat => DState.idle) (DState.holds j) nd = 0 := cnt_zero_of _ _ _ (fun _ _ => rfl)
    simp [holders, init, this, cnt]
  · intro j; simp [ranCount, init, cnt]
  · intro _
    have : cnt (fun _ : Nat => DState.idle) DState.isSpawning nd = 0 := cnt_zero_of _ _ _ (fun _ _ => rfl)
    simp [init, this, cnt]

theorem inv_run {s : State} (hI : Inv s) : ∀ {evs : List Event} {s' : State}, run? s evs = some s' → Inv s'
  | [], s', h => by simp [run?] at h; subst h; exact hI
  | e :: es, s', h => by
    unfold run? at h
    split at h
    · rename_i s1 h1
      exact inv_run (inv_step hI h1) h
    · cases h

end Compio.Asyncify
