-- Root of the Compio model library. Property modules are built individually by /verif/check.
import Compio.Model.Common
