/-
C20 driver: one scenario per line, the model's prediction of the canonical result line.

  run <drv> <route> <capin> <capout> <caperr> <plan> <wch> <rch> <stdin> <paylen> <payseed> <mode> <script> <opts>

  drv    uring | poll         (poll: `write(2)` on the blocking pipe runs on the runtime thread)
  route  pool | pidfd
  plan   conc | drainwait | waitdrain | seq | held | held-unfixed (the behaviour before the repair of F201)
         | outheld | errheld | allheld (stdout / stderr / everything piped but left inside the `Child`: the
         handle is dropped when the wait has completed; such a stream is printed as `-`)
  stdin  pipe | null
  mode   exact | loose        (loose: outcome is schedule dependent, only the monitors judge it)
  script `;`-separated: copy:<limit|*>:<blk>:<o|e|n>  emit:<o|e|n>:<byte>:<count>  nop  exit:<code>  kill:<sig>   (`-` = empty)
  opts   comma separated; `reaped` = the child is reaped by somebody else before compio waits (the wait
         fails with ECHILD: `st=lost`); everything else is harness-only

  pipe <drv> <out2in|in2out> <scriptA> <scriptB> <opts>
    a pipeline `A | B` (A's stdout is B's stdin, handed over through compio's `TryFrom<…> for Stdio`; the
    direction only says which handle was converted). Prediction = composition of the denotations:
    `ok out=<len>:<fnv64 of what B writes to stdout> a=<status of A> b=<status of B>`.

  mread <drv> <o|e> <hold> <len> <script> <opts>
    the child (stdin null) runs `script`; the parent reads stdout / stderr through `read_managed(len)` from the
    runtime's pool of 8 buffers, keeping up to `hold` of them (>= 8: until the pool reports exhaustion, then it
    consumes the batch and retries): `ok out=<len>:<fnv64> st=<status>` (`ChildCmd.mLoop`).

  reuse <drv> <seq> <script> <opts>
    `seq` = `.`-separated calls on ONE `Command`: `si=|so=|se=` `p|n`, `status`, `output`, `spawn`; every run call gets
    the configuration `ChildCmd.runSeq` computes from the GENERATED table of `self.0.stdin/stdout/stderr` calls:
    `ok [status st=..] [output out=.. err=.. st=..] [spawn out=..|- err=..|- st=..] …`.

Answer: `ok out=<len>:<fnv64> err=<len>:<fnv64> sunk=<n> w=<ok|epipe|racy> st=<code:N|sig:N>` | `deadlock` | `loose`.
-/
import Compio.Model.ChildIo
import Compio.Model.ChildCmd

open Compio Compio.ChildIo

namespace C20

def payloadOf (len seed : Nat) : Bytes :=
  (List.range len).map fun i => UInt8.ofNat ((seed * 7 + i * 31 + (i / 256) * 17) % 251)

def fnv (bs : Bytes) : UInt64 :=
  bs.foldl (fun h b => (h ^^^ b.toUInt64) * 0x100000001b3) 0xcbf29ce484222325

def showBytes (bs : Bytes) : String := s!"{bs.length}:{(fnv bs).toNat}"

def parseDst : String → Option Dst
  | "o" => some .out
  | "e" => some .err
  | "n" => some .null
  | _ => none

def parseAct (t : String) : Option CAct :=
  match t.splitOn ":" with
  | ["copy", lim, blk, d] =>
    match blk.toNat?, parseDst d with
    | some blk, some d =>
      if lim = "*" then some (.copy none blk d)
      else match lim.toNat? with
        | some n => some (.copy (some n) blk d)
        | none => none
    | _, _ => none
  | ["emit", d, b, n] =>
    match parseDst d, b.toNat?, n.toNat? with
    | some d, some b, some n => some (.emit d (List.replicate n (UInt8.ofNat b)))
    | _, _, _ => none
  | ["nop"] => some .nop
  | ["exit", n] => n.toNat?.map .exit
  | ["kill", n] => n.toNat?.map .kill
  | _ => none

def allSome {α} : List (Option α) → Option (List α)
  | [] => some []
  | none :: _ => none
  | some a :: r => (allSome r).map (a :: ·)

def parseScript (t : String) : Option (List CAct) :=
  if t = "-" then some [] else allSome ((t.splitOn ";").map parseAct)

def parsePlan : String → Option Plan
  | "conc" => some .conc
  | "drainwait" => some .drainWait
  | "waitdrain" => some .waitDrain
  | "seq" => some .seq
  | "held" => some .held
  | "held-unfixed" => some .heldUnfixed
  | "outheld" => some .outHeld
  | "errheld" => some .errHeld
  | "allheld" => some .allHeld
  | _ => none

def showStatus : Status → String
  | .exited c => s!"code:{c}"
  | .signaled g => s!"sig:{g}"

def answer (c : Cfg) (script : List CAct) (payload : Bytes) (stdinNull : Bool) (reaped : Bool) : String :=
  let s0 := init script payload stdinNull
  let s := runCanon c (mu s0) s0
  if !s.completed then "deadlock" else
  let d := denS script s0.wleft
  let w :=
    if d.got.length = s0.wleft.length then "ok"
    else if s0.wleft.length > d.got.length + c.capIn then "epipe"
    else "racy"
  let w' := if s.wepipe then "epipe" else "ok"
  let w := if w = "racy" then w else w'
  let st := match s.wt with
    | .done st => (match waitOutcome reaped st with | some st => showStatus st | none => "lost")
    | _ => "none"
  let outHeld := c.plan = .outHeld ∨ c.plan = .allHeld
  let errHeld := c.plan = .errHeld ∨ c.plan = .allHeld
  let o := if outHeld then "-" else showBytes s.rout
  let e := if errHeld then "-" else showBytes s.rerr
  s!"ok out={o} err={e} sunk={s.sunk} w={w} st={st}"

def parseBOp (t : String) : Option ChildCmd.BOp :=
  match t with
  | "status" => some (.run .status)
  | "output" => some (.run .output)
  | "spawn" => some (.run .spawn)
  | _ =>
    match t.splitOn "=" with
    | [s, v] =>
      let sd : Option ChildCmd.Sd := match v with | "p" => some .piped | "n" => some .null | _ => none
      let st : Option Gen.CommandShape.Stream :=
        match s with | "si" => some .stdin | "so" => some .stdout | "se" => some .stderr | _ => none
      match st, sd with
      | some st, some sd => some (.set st sd)
      | _, _ => none
    | _ => none

/-- the harness only runs sequences in which all three streams are configured before the first run -/
def reuseOk : List ChildCmd.BOp → Bool × Bool × Bool → Bool
  | [], _ => true
  | .set .stdin _ :: r, (_, b, c) => reuseOk r (true, b, c)
  | .set .stdout _ :: r, (a, _, c) => reuseOk r (a, true, c)
  | .set .stderr _ :: r, (a, b, _) => reuseOk r (a, b, true)
  | .run _ :: r, (a, b, c) => a && b && c && reuseOk r (a, b, c)

def step (_ : Unit) (line : String) : Unit × String :=
  if line.startsWith "#case" then ((), line.trimAscii.toString) else
  let out :=
    match words line with
    | ["run", drv, route, capin, capout, caperr, plan, wch, rch, stdin, paylen, payseed, mode, script, opts] =>
      match capin.toNat?, capout.toNat?, caperr.toNat?, parsePlan plan, wch.toNat?, rch.toNat?,
            paylen.toNat?, payseed.toNat?, parseScript script with
      | some capIn, some capOut, some capErr, some plan, some wchunk, some rchunk, some len, some seed, some script =>
        if (drv ≠ "uring" ∧ drv ≠ "poll") ∨ (route ≠ "pool" ∧ route ≠ "pidfd") ∨ (stdin ≠ "pipe" ∧ stdin ≠ "null")
            ∨ wchunk = 0 ∨ rchunk = 0 ∨ !wfScript script then "bad-op"
        else if mode = "loose" then "loose"
        else
          let c : Cfg := { capIn, capOut, capErr, wchunk, rchunk, blocking := drv = "poll",
                           pidfd := route = "pidfd", plan }
          answer c script (payloadOf len seed) (stdin = "null") ((opts.splitOn ",").contains "reaped")
      | _, _, _, _, _, _, _, _, _ => "bad-op"
    | ["pipe", drv, dir, sa, sb, _opts] =>
      match parseScript sa, parseScript sb with
      | some sa, some sb =>
        if (drv ≠ "uring" ∧ drv ≠ "poll") ∨ (dir ≠ "out2in" ∧ dir ≠ "in2out") ∨ !wfScript sa ∨ !wfScript sb then "bad-op"
        else
          let da := denS sa []
          let db := denS sb da.out
          s!"ok out={showBytes db.out} a={showStatus da.st} b={showStatus db.st}"
      | _, _ => "bad-op"
    | ["mread", drv, d, hold, len, script, _opts] =>
      match hold.toNat?, len.toNat?, parseScript script with
      | some hold, some len, some script =>
        if (drv ≠ "uring" ∧ drv ≠ "poll") ∨ (d ≠ "o" ∧ d ≠ "e") ∨ len = 0 ∨ len > 8192 ∨ !wfScript script
            ∨ script.any (fun a => match a with | .copy _ _ _ => true | _ => false) then "bad-op"
        else
          let dn := denS script []
          let src := if d = "o" then dn.out else dn.err
          let s := ChildCmd.mLoop 8 hold len (2 * src.length + 20) (ChildCmd.mInit 8 src)
          if s.done then s!"ok out={showBytes s.out} st={showStatus dn.st}" else "stuck"
      | _, _, _ => "bad-op"
    | ["reuse", drv, seq, script, _opts] =>
      match allSome ((seq.splitOn ".").map parseBOp), parseScript script with
      | some ops, some script =>
        if (drv ≠ "uring" ∧ drv ≠ "poll") ∨ !wfScript script ∨ !reuseOk ops ⟨false, false, false⟩
            ∨ script.any (fun a => match a with | .copy _ _ _ => true | _ => false)
            ∨ (denS script []).out.length + (denS script []).err.length > 3000 then "bad-op"
        else
          let dn := denS script []
          let parts := (ChildCmd.runSeq ChildCmd.BCfg.fresh ops).map fun (k, b) =>
            let o := ChildCmd.captured b.sout dn.out
            let e := ChildCmd.captured b.serr dn.err
            match k with
            | .status => s!"[status st={showStatus dn.st}]"
            | .output => s!"[output out={showBytes (o.getD [])} err={showBytes (e.getD [])} st={showStatus dn.st}]"
            | .spawn =>
              let sh := fun (x : Option Bytes) => match x with | some b => showBytes b | none => "-"
              s!"[spawn out={sh o} err={sh e} st={showStatus dn.st}]"
          " ".intercalate ("ok" :: parts)
      | _, _ => "bad-op"
    | _ => "bad-op"
  ((), out)

end C20

def main : IO Unit := Compio.stdinLoop C20.step ()
