/- line-protocol driver for the C19 models (same operations as harness/apps/src/bin/c19.rs) -/
import Compio.Model.Common
import Compio.Model.ActorWorld
import Compio.Model.History

open Compio Compio.Actor Compio.World

namespace C19

def kindOf (s : String) : Option Nat :=
  match s with
  | "n" => some 0 | "f" => some 1 | "s" => some 2 | "x" => some 3
  | "r" => some 4 | "i" => some 5 | "q" => some 6 | "d" => some 7
  | _ => none

def optNat (s : String) : Option (Option Nat) :=
  if s = "-" then some none else (s.toNat?).map some

def optName (s : String) : Option String := if s = "-" then none else some s

def hookBits (s : String) : Option (Bool × Bool × Bool × Bool) :=
  match s.toList with
  | [a, b, c, d] =>
    if [a, b, c, d].all (fun ch => ch == '+' || ch == '-') then
      some (a == '+', b == '+', c == '+', d == '+')
    else none
  | _ => none

def op (w : W) (ws : List String) : String × W :=
  match ws with
  | ["spawn", a, name, cap, sup, hooks] =>
    match a.toNat?, cap.toNat?, optNat sup, hookBits hooks with
    | some a, some cap, some sup, some (h0, h1, h2, h3) =>
      w.spawn a (optName name) cap sup (mkScript h0 h1 h2 h3) false
    | _, _, _, _ => ("bad-op", w)
  | ["spawnsup", a, name, cap] =>
    match a.toNat?, cap.toNat? with
    | some a, some cap => w.spawn a (optName name) cap none (mkScript true true true true) true
    | _, _ => ("bad-op", w)
  | ["spawnsup", a, name, cap, "keep"] =>
    match a.toNat?, cap.toNat? with
    | some a, some cap => w.spawn a (optName name) cap none (mkScript true true true true) true true
    | _, _ => ("bad-op", w)
  | ["drop", a] => match a.toNat? with | some a => w.dropMailbox a | none => ("bad-op", w)
  | ["await", a] => match a.toNat? with | some a => w.await a | none => ("bad-op", w)
  | ["dropfut", a] => match a.toNat? with | some a => w.dropFut a | none => ("bad-op", w)
  | ["send", a, id, k] =>
    match a.toNat?, id.toNat?, kindOf k with
    | some a, some id, some k => w.send a { id := id, call := false, kind := k }
    | _, _, _ => ("bad-op", w)
  | ["call", a, id, k] =>
    match a.toNat?, id.toNat?, kindOf k with
    | some a, some id, some k => w.send a { id := id, call := true, kind := k }
    | _, _, _ => ("bad-op", w)
  | ["poll", id] => match id.toNat? with | some id => (w.poll id, w) | none => ("bad-op", w)
  | ["stop", a] => match a.toNat? with | some a => w.stop a | none => ("bad-op", w)
  | ["isclosed", a] => match a.toNat? with | some a => (w.isClosed a, w) | none => ("bad-op", w)
  | ["lookup", n] => (w.lookup n, w)
  | ["exit", a] => match a.toNat? with | some a => (w.exit a, w) | none => ("bad-op", w)
  | ["run"] => w.run
  | ["gnew", g, t] =>
    match g.toNat? with
    | some g => if t = "c" then w.gnew g true else if t = "m" then w.gnew g false else ("bad-op", w)
    | none => ("bad-op", w)
  | ["gjoin", g, a] =>
    match g.toNat?, a.toNat? with | some g, some a => w.gjoin g a | _, _ => ("bad-op", w)
  | ["gleave", g, m] =>
    match g.toNat?, m.toNat? with | some g, some m => w.gleave g m | _, _ => ("bad-op", w)
  | ["glen", g] => match g.toNat? with | some g => (w.glen g, w) | none => ("bad-op", w)
  | ["gsend", g, id, k] =>
    match g.toNat?, id.toNat?, kindOf k with
    | some g, some id, some k => w.gsend g { id := id, call := false, kind := k }
    | _, _, _ => ("bad-op", w)
  | ["gcall", g, id, k] =>
    match g.toNat?, id.toNat?, kindOf k with
    | some g, some id, some k => w.gsend g { id := id, call := true, kind := k }
    | _, _, _ => ("bad-op", w)
  | ["conc", workers, seed, actors, senders, msgs, sup, churn] =>
    -- the scenario itself runs only on the implementation; its history follows in `hist` lines
    match workers.toNat?, seed.toNat?, actors.toNat?, senders.toNat?, msgs.toNat? with
    | some wk, some _, some a, some sd, some m =>
      if 1 ≤ wk && wk ≤ 8 && 1 ≤ a && a ≤ 16 && 1 ≤ sd && sd ≤ 8 && m ≤ 2000 &&
          (sup = "0" || sup = "1") && (churn = "0" || churn = "1") then ("ran", w) else ("bad-op", w)
    | _, _, _, _, _ => ("bad-op", w)
  | "hist" :: rest => (History.judgeLine rest, w)
  | "judge" :: rest => (History.judgeLine rest, w)
  | _ => ("bad-op", w)

def step (w : W) (line : String) : W × String :=
  if line.startsWith "#case" then ({}, line.trimAscii.toString) else
  let (out, w') := op w (words line)
  -- channels whose last sender just went away are freed
  let w' := w'.reap
  if w'.panicked then (w', "panic") else (w', out)

end C19

def main : IO Unit := Compio.stdinLoop C19.step {}
