/- line-protocol driver for the C10 models (same operations as harness/pure/src/bin/c10.rs) -/
import Compio.Model.View
import Compio.Model.ViewVec
import Compio.Model.ViewOps
import Compio.Model.ViewAppend

open Compio Compio.View

namespace C10

def parseKind : String → Option Kind
  | "vec" => some .vec
  | "bytesmut" => some .bytesmut
  | "arr" => some .arr
  | "boxed" => some .boxed
  | "arrayvec" => some .arrayvec
  | "smallvec" => some .smallvec
  | "pool" => some .pool
  -- wrappers that forward every call (`impl … for &'static mut B`, `Box<B>`)
  | "sref" => some .boxed      -- `&'static mut [u8]`
  | "refvec" => some .vec      -- `&'static mut Vec<u8>`
  | "boxvec" => some .vec      -- `Box<Vec<u8>>`
  | _ => none

def parseEnd (s : String) : Option (Option Nat) :=
  if s = "-" then some none else s.toNat?.map some

def showFault : Fault → String
  | .panic => "panic"
  | .ub => "ub"
  | .contract => "contract"

def showRange : Res (Nat × Nat) → String
  | .ok (o, l) => s!"{o}+{l}"
  | .error f => showFault f

def showRoot (r : Root) : String := s!"{r.len}:{hexOf r.mem}"

def showBuf (v : Buf) : String :=
  s!"i={showRange v.asInit} u={showRange v.asUninit} r={showRoot v.getRoot}"

/-- a root the real containers can have: fixed-size kinds are always full -/
def mkRoot (k : Kind) (len : Nat) (mem : Bytes) : Option Root :=
  if len ≤ mem.length ∧ ((k = .arr ∨ k = .boxed) → len = mem.length) ∧ (k = .smallvec → 8 ≤ mem.length)
  then some ⟨k, len, mem⟩ else none

inductive St where
  | none
  | buf (v : Buf) (reader : Bool)
  | vec (v : VBuf) (nest : Bool)
  | ro (v : Buf) (reader : Bool)
  | viter (it : VIter) (nest : Bool)
  | pool (p : Compio.Pool.PBuf)

/-- constructors consume the buffer: a panic leaves nothing; other faults leave the state as it was -/
def viewOp (v : Buf) (consuming : Bool) (r : Res Buf) : St × String :=
  match r with
  | .ok v' => (.buf v' false, showBuf v')
  | .error f => (if consuming then .none else .buf v false, showFault f)

def showNatR (r : Res (Nat × Nat)) (f : Nat × Nat → Nat) : String :=
  match r with
  | .ok p => toString (f p)
  | .error e => showFault e

def showBoolR : Res Bool → String
  | .ok b => if b then "1" else "0"
  | .error e => showFault e

/-- `buf_len`, `buf_capacity`, `is_empty`, `is_filled`, `buf_ptr`, `buf_mut_ptr`, `as_mut_slice` -/
def showQuery (v : Buf) : String :=
  let empty : Res Bool := match v.asInit with
    | .ok (_, l) => .ok (l == 0)
    | .error e => .error e
  s!"q len={showNatR v.asInit (·.2)} cap={showNatR v.asUninit (·.2)} empty={showBoolR empty} filled={showBoolR v.isFilled} ptr={showNatR v.asInit (·.1)} mptr={showNatR v.asUninit (·.1)} ms={showRange v.asMutSlice}"

def parseAns (s : String) : Option (Option Nat) := s.toNat?.map some

def reserveOp (v : Buf) (n : Nat) (exact : Bool) (ans : Option Nat) : St × String :=
  match v.reserveWith n exact ans with
  | .done v' .ok => (.buf v' false, "res:ok " ++ showBuf v')
  | .done v' (.mismatch r) => (.buf v' false, s!"res:mismatch:{r} " ++ showBuf v')
  | .notSupported => (.buf v false, "res:unsupported")
  | .failed => (.buf v false, "res:failed")
  | .needCap => (.buf v false, "res:need-cap")
  | .badCap => (.buf v false, "res:bad-cap")
  | .skip => (.buf v false, "res:skip")

def extendOp (v : Buf) (d : Bytes) (ans : Option Nat) : St × String :=
  match v.extendWith d ans with
  | .done v' => (.buf v' false, "ext:ok " ++ showBuf v')
  | .notSupported => (.buf v false, "ext:unsupported")
  | .grow => (.buf v false, "ext:grow")
  | .fault f =>
    -- the reserve step may already have grown the root before the fault
    let v' := match v.reserveWith d.length false ans with
      | .done v1 _ => v1
      | _ => v
    (.buf v' false, "ext:" ++ showFault f)

def bufOp (v : Buf) (w : List String) : St × String :=
  match w with
  | ["query"] => (.buf v false, showQuery v)
  | ["ensure"] =>
    match v.ensureInit with
    | .ok (v', p) => (.buf v' false, s!"ens:{showRange (.ok p)} " ++ showBuf v')
    | .error f => (.buf v false, showFault f)
  | ["copyw", a, b, c] =>
    match a.toNat?, b.toNat?, c.toNat? with
    | some a, some b, some c => viewOp v false (v.copyWithin a b c)
    | _, _, _ => (.buf v false, "bad-op")
  | ["reserve", n] =>
    match n.toNat? with
    | some n => reserveOp v n false none
    | none => (.buf v false, "bad-op")
  | ["reserve", n, c] =>
    match n.toNat?, parseAns c with
    | some n, some c => reserveOp v n false c
    | _, _ => (.buf v false, "bad-op")
  | ["reservex", n] =>
    match n.toNat? with
    | some n => reserveOp v n true none
    | none => (.buf v false, "bad-op")
  | ["reservex", n, c] =>
    match n.toNat?, parseAns c with
    | some n, some c => reserveOp v n true c
    | _, _ => (.buf v false, "bad-op")
  | ["extend", h, c] =>
    match parseHex h, parseAns c with
    | some d, some c => extendOp v d c
    | _, _ => (.buf v false, "bad-op")
  | ["wwrite", h, c] =>
    match parseHex h, parseAns c with
    | some d, some c => extendOp v d c
    | _, _ => (.buf v false, "bad-op")
  | ["slice", b, e] =>
    match b.toNat?, parseEnd e with
    | some b, some e => viewOp v true (v.step (.slice b e))
    | _, _ => (.buf v false, "bad-op")
  | ["uninit"] => viewOp v true (v.step .uninit)
  | ["flat", b1, e1, b2, e2] =>
    match b1.toNat?, parseEnd e1, b2.toNat?, parseEnd e2 with
    | some b1, some e1, some b2, some e2 => viewOp v true (v.step (.flat b1 e1 b2 e2))
    | _, _, _, _ => (.buf v false, "bad-op")
  | ["peel"] => viewOp v true (v.step .peel)
  | ["fill", h] =>
    match parseHex h with
    | some d => viewOp v false (v.step (.fill d))
    | none => (.buf v false, "bad-op")
  | ["fillapp", h] =>
    match parseHex h with
    | some d => viewOp v false (v.fillAdv d)
    | none => (.buf v false, "bad-op")
  | ["setlen", n] =>
    match n.toNat? with
    | some n => viewOp v false (v.step (.setLen n))
    | none => (.buf v false, "bad-op")
  | ["advto", n] =>
    match n.toNat? with
    | some n => viewOp v false (v.step (.advanceTo n))
    | none => (.buf v false, "bad-op")
  | ["adv", n] =>
    match n.toNat? with
    | some n => viewOp v false (v.step (.advance n))
    | none => (.buf v false, "bad-op")
  | ["clear"] => viewOp v false (v.step .clear)
  | [cmd, h] =>
    if cmd ≠ "extend" ∧ cmd ≠ "wwrite" then (.buf v false, "bad-op") else
    match parseHex h with
    | some d => extendOp v d none
    | none => (.buf v false, "bad-op")
  | ["reader"] =>
    match v.mkSlice 0 none with
    | .ok s => (.buf s true, showBuf s)
    | .error f => (.none, showFault f)
  | _ => (.buf v false, "bad-op")

def readerProgress : Buf → Nat
  | .slice _ b _ => b
  | _ => 0

def readerOp (v : Buf) (w : List String) : St × String :=
  match w with
  | ["read", n] =>
    match n.toNat? with
    | some n =>
      match readerRead v n with
      | .ok (d, v') =>
        (.buf v' true, s!"read:{hexOf d} p={readerProgress v'} i={showRange v'.asInit} r={showRoot v'.getRoot}")
      | .error f => (.buf v true, showFault f)
    | none => (.buf v true, "bad-op")
  | ["remaining"] => (.buf v false, showBuf v)
  | _ => (.buf v true, "bad-op")

/-! ### read-only roots (`IoBuf` only): `Rc<[u8]>`, `Arc<Vec<u8>>`, `String`, `&'static str`, `Bytes`, … -/

def roKinds : List String := ["rc", "arcvec", "rcbox", "bytes", "sslice", "string", "arcstring", "str"]

def mkRo (k : String) (mem : Bytes) : Option Buf :=
  if ¬ roKinds.contains k then none
  else if (k = "string" ∨ k = "arcstring" ∨ k = "str") ∧ mem.any (fun b => b.toNat ≥ 128) then none
  else some (.root ⟨.boxed, mem.length, mem⟩)

def contentOf (v : Buf) : String :=
  match v.asInit with
  | .ok (o, l) => hexOf ((v.getRoot.mem.drop o).take l)
  | .error f => showFault f

def showRo (v : Buf) : String := s!"i={showRange v.asInit} c={contentOf v}"

def roOp (v : Buf) (rd : Bool) (w : List String) : St × String :=
  if rd then
    match w with
    | ["read", n] =>
      match n.toNat? with
      | some n =>
        match readerRead v n with
        | .ok (d, v') => (.ro v' true, s!"read:{hexOf d} p={readerProgress v'} i={showRange v'.asInit}")
        | .error _ => (.ro v true, "panic")
      | none => (.ro v true, "bad-op")
    | ["remaining"] => (.ro v false, showRo v)
    | _ => (.ro v true, "bad-op")
  else
    match w with
    | ["slice", b, e] =>
      match b.toNat?, parseEnd e with
      | some b, some e =>
        match v.mkSlice b e with
        | .ok s => (.ro s false, showRo s)
        | .error f => (.none, showFault f)
      | _, _ => (.ro v false, "bad-op")
    | ["peel"] => (.ro v.peel false, showRo v.peel)
    | ["reader"] =>
      match v.mkSlice 0 none with
      | .ok s => (.ro s true, s!"reader p=0 i={showRange s.asInit}")
      | .error f => (.none, showFault f)
    | ["end"] => (.none, "root " ++ hexOf v.getRoot.mem)
    | _ => (.ro v false, "bad-op")

def peelAll : Nat → Buf → Buf
  | 0, v => v
  | n + 1, v => peelAll n v.peel

def Buf.depth : Buf → Nat
  | .root _ => 0
  | .slice i _ _ => Buf.depth i + 1
  | .uninit i _ => Buf.depth i + 1

def parseRootSpec (k len h : String) : Option Root :=
  match parseKind k, len.toNat?, parseHex h with
  | some k, some len, some mem => mkRoot k len mem
  | _, _, _ => none

/-- `sibling hcap tcap d1 d2`: two `Writer::write`s through `Uninit` over the head of one allocation of
`hcap + tcap` bytes; the model root is the *physical* allocation (so that a copy past the head's capacity
is visible instead of being refused), the preconditions keep the real `reserve` a no-op. -/
def siblingDemo (hcap tcap : Nat) (d1 d2 : Bytes) : String :=
  if hcap = 0 ∨ d1.length + d2.length > hcap ∨ 2 * d1.length + d2.length > hcap + tcap ∨ hcap + tcap > 64 then "bad-op"
  else
    let r : Root := ⟨.bytesmut, 0, List.replicate (hcap + tcap) 0xAA⟩
    match (Buf.root r).mkUninit with
    | .error f => showFault f
    | .ok u =>
      match u.extend d1 with
      | .done u1 =>
        match u1.extend d2 with
        | .done u2 => "root " ++ showRoot u2.getRoot
        | _ => "bad-op"
      | _ => "bad-op"

/-! ### vectored programs -/

def showItems (l : List Item) : String :=
  match l.findSome? (fun (_, r) => match r with | .error f => some f | .ok _ => none) with
  | some f => showFault f
  | none =>
    if l.isEmpty then "-" else
    ",".intercalate (l.map fun (j, r) => match r with
      | .ok (o, n) => s!"{j}:{o}+{n}"
      | .error f => showFault f)

def showRoots (ms : List Buf) : String :=
  if ms.isEmpty then "-" else "|".intercalate (ms.map fun m => showRoot m.getRoot)

def showNat : Res Nat → String
  | .ok n => toString n
  | .error f => showFault f

def showV (v : VBuf) : String :=
  s!"s={showItems v.iterSlice} u={showItems v.iterUninit} t={showNat v.totalLen}/{showNat v.totalCap} r={showRoots v.members}"

def showTriple : Res (Nat × Nat × Nat) → String
  | .ok (j, o, l) => s!"{j}:{o}+{l}"
  | .error f => showFault f

def showIt (it : VIter) : String :=
  s!"i={showTriple it.asInit} u={showTriple it.asUninit} r={showRoots it.buf.members}"

def parseView (v : Buf) (s : String) : Option (Res Buf) :=
  if s = "u" then some v.mkUninit
  else if s.startsWith "s" then
    match (s.drop 1).toString.splitOn "." with
    | [b, e] =>
      match b.toNat?, parseEnd e with
      | some b, some e => some (v.mkSlice b e)
      | _, _ => none
    | _ => none
  else none

def parseMember (s : String) : Option (Res Buf) :=
  match s.splitOn ":" with
  | [k, len, h] => (parseRootSpec k len h).map fun r => .ok (.root r)
  | [k, len, h, view] =>
    match parseRootSpec k len h with
    | some r => parseView (.root r) view
    | none => none
  | _ => none

def collectMembers : List (Option (Res Buf)) → Option (Res (List Buf))
  | [] => some (.ok [])
  | none :: _ => none
  | some r :: t =>
    match collectMembers t with
    | none => none
    | some rest =>
      match r, rest with
      | .ok m, .ok ms => some (.ok (m :: ms))
      | .error f, _ => some (.error f)
      | _, .error f => some (.error f)

/-- the container types (and arities) the harness instantiates -/
def parseVKind (s : String) (n : Nat) : Option VKind :=
  if s = "vec" ∨ s = "smallvec" ∨ s = "arrayvec" then (if n ≤ 4 then some .list else none)
  else if s = "arr" then (if n = 0 ∨ n = 2 ∨ n = 3 then some .list else none)
  else if s = "tuple1" then (if 1 ≤ n ∧ n ≤ 3 then some .tupleSingle else none)
  else if s = "tuple0" then (if n ≤ 2 then some .tupleUnit else none)
  else none

def VBuf.depth : VBuf → Nat
  | .base _ _ => 0
  | .vslice i _ _ _ => VBuf.depth i + 1

def parseVRoot (k ms : String) : Option (Res VBuf) :=
  let parts := if ms = "-" then [] else ms.splitOn ";"
  match collectMembers (parts.map parseMember) with
  | none => none
  | some r =>
    match parseVKind k parts.length with
    | none => none
    | some vk =>
      match r with
      | .ok l => some (.ok (.base vk l))
      | .error f => some (.error f)

def vres (nest : Bool) (r : Res VBuf) : St × String :=
  match r with
  | .ok v' => (.vec v' nest, showV v')
  | .error f => (.none, showFault f)

def beginSum : VBuf → Nat
  | .base _ _ => 0
  | .vslice i b _ _ => b + beginSum i

/-- total capacity of the base container; `none` if a member's `as_uninit` panics -/
def baseCap (ms : List Buf) : Option Nat :=
  match ms with
  | [] => some 0
  | m :: t =>
    match m.asUninit, baseCap t with
    | .ok (_, c), some s => some (c + s)
    | _, _ => none

/-- what the harness checks before it issues a recording call: the documented contract (`n ≤` the view's
total capacity), and — `IoVectoredBuf::slice` / `slice_mut` accept a `begin` beyond the end without
panicking — that the `begin`s do not push the length past the base capacity (that would be UB, see notes) -/
inductive Pre where
  | go
  | refuse (s : String)
  | fault (f : Fault)

def preCheck (c : Res Nat) (v : VBuf) (extra n : Nat) : Pre :=
  match c with
  | .error f => .fault f
  | .ok c =>
    if n > c then .refuse "contract"
    else match baseCap v.members with
      | none => .refuse "oob"
      | some bc => if beginSum v + extra + n > bc then .refuse "oob" else .go

def vRun (nest : Bool) (v : VBuf) (n : Nat) (k : Res VBuf) : St × String :=
  match preCheck v.totalCap v 0 n with
  | .fault f => (.none, showFault f)
  | .refuse s => (.vec v nest, s)
  | .go =>
    match k with
    | .ok v' => (.vec v' nest, showV v')
    | .error f => (.none, showFault f)

/-- refusals (`contract`) leave the state, real panics kill it -/
def vresKeep (nest : Bool) (v : VBuf) (r : Res VBuf) : St × String :=
  match r with
  | .ok v' => (.vec v' nest, showV v')
  | .error .contract => (.vec v nest, "contract")
  | .error f => (.none, showFault f)

/-- a second `VectoredSlice` layer is only instantiated by the harness for `Vec` and `(T, .. (T,))` containers -/
def canSlice (v : VBuf) (nest : Bool) : Bool := VBuf.depth v = 0 || (VBuf.depth v = 1 && nest)

def vecOp (v : VBuf) (nest : Bool) (w : List String) : St × String :=
  match w with
  | ["vfill", h] =>
    match parseHex h with
    | some d => vRun nest v d.length (v.fill d)
    | none => (.vec v nest, "bad-op")
  | ["vsetlen", n] =>
    match n.toNat? with
    | some n => vRun nest v n (v.setLen n)
    | none => (.vec v nest, "bad-op")
  | ["vadvto", n] =>
    match n.toNat? with
    | some n => vRun nest v n (v.advanceVecTo n)
    | none => (.vec v nest, "bad-op")
  | ["vslice", b] =>
    match b.toNat? with
    | some b => if canSlice v nest then vres nest (v.mkSlice b) else (.vec v nest, "bad-op")
    | none => (.vec v nest, "bad-op")
  | ["vslicemut", b] =>
    match b.toNat? with
    | some b => if canSlice v nest then vres nest (v.mkSliceMut b) else (.vec v nest, "bad-op")
    | none => (.vec v nest, "bad-op")
  | ["vpeel"] => vres nest (.ok v.peel)
  | ["viter"] =>
    match v.ownedIter with
    | .error f => (.none, showFault f)
    | .ok (.inl v') => (.vec v' nest, "empty " ++ showV v')
    | .ok (.inr it) => (.viter it nest, showIt it)
  | ["end"] => (.none, "roots " ++ showRoots v.members)
  | _ => (.vec v nest, "bad-op")

def itKeep (nest : Bool) (it : VIter) (r : Res VIter) : St × String :=
  match r with
  | .ok it' => (.viter it' nest, showIt it')
  | .error .contract => (.viter it nest, "contract")
  | .error f => (.none, showFault f)

/-- current capacities of the members the iterator has already passed (member indices `j - index .. j`,
where `j` is the current member) -/
def earlierCaps (it : VIter) : Nat :=
  match nthItem it.buf.iterUninit it.index with
  | .error _ => 0
  | .ok (j, _, _) =>
    (((it.buf.members.drop (j - it.index)).take it.index).map fun m =>
      match m.asUninit with
      | .ok (_, c) => c
      | .error _ => 0).sum

def itRun (nest : Bool) (it : VIter) (n : Nat) (k : Res VIter) : St × String :=
  let c : Res Nat := match it.asUninit with
    | .ok (_, _, c) => .ok c
    | .error f => .error f
  match preCheck c it.buf (earlierCaps it) n with
  | .fault f => (.none, showFault f)
  | .refuse s => (.viter it nest, s)
  | .go =>
    match k with
    | .ok it' => (.viter it' nest, showIt it')
    | .error f => (.none, showFault f)

def viterOp (it : VIter) (nest : Bool) (w : List String) : St × String :=
  match w with
  | ["ifill", h] =>
    match parseHex h with
    | some d => itRun nest it d.length (it.fill d)
    | none => (.viter it nest, "bad-op")
  | ["isetlen", n] =>
    match n.toNat? with
    | some n => itRun nest it n (it.setLen n)
    | none => (.viter it nest, "bad-op")
  | ["iadvto", n] =>
    match n.toNat? with
    | some n => itRun nest it n (it.advanceTo n)
    | none => (.viter it nest, "bad-op")
  | ["inext"] =>
    match it.next with
    | .inl v => (.vec v nest, "done " ++ showV v)
    | .inr it' => (.viter it' nest, showIt it')
  | ["iinner"] => (.vec it.buf nest, showV it.buf)
  | _ => (.viter it nest, "bad-op")

def showPool (p : Compio.Pool.PBuf) : String :=
  s!"i={p.asInit.1}+{p.asInit.2} u={p.asUninit.1}+{p.asUninit.2} m={hexOf p.mem}"

def poolRes (p : Compio.Pool.PBuf) (r : Res Compio.Pool.PBuf) : St × String :=
  match r with
  | .ok p' => (.pool p', showPool p')
  | .error f => (.pool p, showFault f)

/-- pool buffers (`BufferRef`): same op lines as harness/pure/src/bin/c10/pool.rs -/
def poolOp (p : Compio.Pool.PBuf) (w : List String) : St × String :=
  let natOp (n : String) (f : Nat → Compio.Pool.Op) : St × String :=
    match n.toNat? with
    | some n => poolRes p (p.step (f n))
    | none => (.pool p, "bad-op")
  match w with
  | ["psetlen", n] => natOp n .setLen
  | ["padvto", n] => natOp n .advanceTo
  | ["padv", n] => natOp n .advance
  | ["pclear"] => poolRes p (p.step .clear)
  | ["psetcap", c] => natOp c .setCap
  | ["pwithcap", c] => natOp c .setCap
  | ["pfill", h] =>
    match parseHex h with
    | some d => poolRes p (p.step (.fill d))
    | none => (.pool p, "bad-op")
  | _ => (.pool p, "bad-op")

def step (st : St) (line : String) : St × String :=
  if line.startsWith "#case" then (.none, line.trimAscii.toString) else
  let w := words line
  match w with
  | ["sibling", hc, tc, h1, h2] =>
    match hc.toNat?, tc.toNat?, parseHex h1, parseHex h2 with
    | some hc, some tc, some d1, some d2 => (st, siblingDemo hc tc d1 d2)
    | _, _, _, _ => (st, "bad-op")
  | ["roroot", k, h] =>
    match (parseHex h).bind (mkRo k) with
    | some v => (.ro v false, showRo v)
    | none => (.none, "bad-op")
  | ["slicebytes", h, b, e] =>
    match parseHex h, b.toNat?, parseEnd e with
    | some mem, some b, some e =>
      match (Buf.root ⟨.boxed, mem.length, mem⟩).mkSlice b e with
      | .ok s => (st, "sb " ++ contentOf s)
      | .error f => (st, showFault f)
    | _, _, _ => (st, "bad-op")
  | ["pool", full, h] =>
    match full.toNat?, parseHex h with
    | some full, some mem =>
      if full = 0 ∨ full > 4096 ∨ mem.length ≠ full then (.none, "bad-op")
      else (.pool ⟨0, full, mem⟩, showPool ⟨0, full, mem⟩)
    | _, _ => (.none, "bad-op")
  | ["root", k, len, h] =>
    match parseRootSpec k len h with
    | some r => (.buf (.root r) false, showBuf (.root r))
    | none => (.none, "bad-op")
  | ["vroot", k, ms] =>
    match parseVRoot k ms with
    | some r => vres (k = "vec" || k = "tuple1") r
    | none => (.none, "bad-op")
  | _ =>
    match st with
    | .none => (.none, "dead")
    | .buf v rd =>
      if rd then readerOp v w
      else if w = ["end"] then (.none, "root " ++ showRoot v.getRoot)
      else bufOp v w
    | .ro v rd => roOp v rd w
    | .vec v nest => vecOp v nest w
    | .viter it nest => viterOp it nest w
    | .pool p => poolOp p w

end C10

def main : IO Unit := Compio.stdinLoop C10.step C10.St.none
