/- line-protocol driver for the C02 models (same operations as harness/rt/src/bin/c02.rs) -/
import Compio.Model.Common
import Compio.Model.Completion
import Compio.Model.PollDriver
import Compio.Model.CompletionOs

open Compio Compio.Completion Compio.PollDriver Compio.Os

namespace C02

structure D where
  iour : Bool := false
  cap : Nat := 1024
  chans : List Nat := []
  files : List Nat := []
  ps : St Os := { world := {} }
  ring : Ring := {}
  os : Os := {}
  armed : List Id := []
  live : List Id := []
  lazy : List Id := []
  /-- future mode (`cfg … fut`): operations are `Submit` futures of compio-runtime, polled only when woken -/
  fut : Bool := false
  fst : Id → FutState := fun _ => .idle
  /-- wake count of the future's waker when it was last polled -/
  seen : Id → Nat := fun _ => 0
  /-- how many wakers operation `id` has been given so far (`waker k` lines); its current waker has the
      identity `id * 64 + wk id` -/
  wk : Id → Nat := fun _ => 0
  /-- epoll's ready list: registered descriptors that were found ready and not yet reported, in the order
      they were queued (wake-up order, resp. `epoll_ctl` order when ready at ADD / MOD time) -/
  rdl : List Nat := []
  /-- registered descriptors, most recently ADDed first = the order in which one file's wait queue wakes
      the epoll items of its descriptors -/
  wq : List Nat := []
  /-- the model hit a Rust panic / impossible event: every further line of the case reports it -/
  fault : Option String := none

instance : Inhabited D := ⟨{}⟩

def nextPow2 (n : Nat) : Nat :=
  let rec go (p fuel : Nat) : Nat := match fuel with
    | 0 => p
    | f + 1 => if p ≥ n then p else go (p * 2) f
  go 1 32

def D.getOs (d : D) : Os := if d.iour then d.os else d.ps.world
def D.setOs (d : D) (os : Os) : D := if d.iour then { d with os := os } else { d with ps := { d.ps with world := os } }
def D.keys (d : D) : Keys := if d.iour then d.ring.keys else d.ps.keys
def D.setKeys (d : D) (ks : Keys) : D :=
  if d.iour then { d with ring := { d.ring with keys := ks } } else { d with ps := { d.ps with keys := ks } }

def showRes : Res → String
  | .ok n => s!"ok:{n}"
  | .err c => s!"err:{c}"

def isReadKind : Option OpKind → Bool
  | some (.read ..) | some (.recv ..) | some (.readat ..) | some (.readf ..) | some (.rmulti ..) => true
  | _ => false

def D.showDone (d : D) (id : Id) (r : Res) : String :=
  let data := match r with
    | .ok _ => if isReadKind (d.getOs.ops id) then hexOf (d.getOs.got id) else "-"
    | .err _ => "-"
  s!"{showRes r}:{data}"

/-- `Proactor::pop_multishot` until empty; each item is reported as `k+ok:n:data` -/
def D.popItems (d : D) (id : Id) : Nat → List String → D × List String
  | 0, acc => (d, acc)
  | fuel + 1, acc =>
    match d.keys.popMulti id with
    | (_, none) => (d, acc)
    | (ks, some r) =>
      let os := d.getOs
      let data := (os.items id).headD []
      let d1 := (d.setKeys ks).setOs { os with items := upd os.items id ((os.items id).drop 1) }
      D.popItems d1 id fuel (s!"{id}+{showRes r}:{hexOf data}" :: acc)

/-- the harness pops every outstanding non-lazy key after each driver call -/
def D.scanKeys (d : D) : D × String :=
  let rec go (d : D) (ids : List Id) (keep : List Id) (acc : List String) : D × List String :=
    match ids with
    | [] => ({ d with live := keep.reverse }, acc.reverse)
    | id :: rest =>
      -- multishot items first (`pop_multishot`), oldest first
      let (d, acc) := D.popItems d id 64 acc
      match d.keys.pop id with
      | (ks, some r) =>
        let d1 := d.setKeys ks
        go d1 rest keep (s!"{id}={d1.showDone id r}:w{d1.keys.woken id + d1.keys.nudged id}" :: acc)
      | (_, none) => go d rest (id :: keep) acc
  let (d', items) := go d d.live [] []
  (d', if items.isEmpty then "-" else ",".intercalate items)

def parseKind : List String → Option OpKind
  | ["read", c, cap] => do some (.read (← c.toNat?) (← cap.toNat?))
  | ["recv", c, cap] => do some (.recv (← c.toNat?) (← cap.toNat?))
  | ["readf", c, cap] => do some (.readf (← c.toNat?) (← cap.toNat?))
  | ["write", c, h] => do some (.write (← c.toNat?) (← parseHex h))
  | ["send", c, h] => do some (.send (← c.toNat?) (← parseHex h))
  | ["ponce", c, "r"] => do some (.ponce (← c.toNat?) .read)
  | ["ponce", c, "w"] => do some (.ponce (← c.toNat?) .write)
  | ["job", "ok", n] => do some (.job (.ok (← n.toNat?)))
  | ["job", "err", n] => do some (.job (.err (← n.toNat?)))
  | ["readat", c, off, cap] => do some (.readat (← c.toNat?) (← off.toNat?) (← cap.toNat?))
  | ["splice", a, b, n] => do some (.splice (← a.toNat?) (← b.toNat?) (← n.toNat?))
  | ["rmulti", c] => do some (.rmulti (← c.toNat?))
  | _ => none

def showFault : Fault → String
  | .panic m => s!"panic:{m}"
  | .reject m => s!"reject:{m}"

def D.ops (d : D) : Ops Os := pollOpsFor d.files

/-- polling driver: queue the descriptors that are armed and ready but not yet on epoll's ready list,
    visiting them in the given order -/
def D.sweep (d : D) (order : List Nat) : D :=
  if d.iour then d else
  { d with rdl := order.foldl (fun rdl fd =>
      if (firedOf d.ps fd).isSome && !rdl.contains fd then rdl ++ [fd] else rdl) d.rdl }

/-- polling driver, after a driver call that touched the registrations of `touched` (in that order):
    EPOLL_CTL_DEL drops an item, EPOLL_CTL_ADD puts it in front of its file's wait queue, ADD / MOD of a
    ready descriptor queues it on the ready list -/
def D.syncEpoll (d : D) (before : Nat → Option Event) (touched : List Nat) : D :=
  if d.iour then d else
  let order := (touched ++ d.chans).eraseDups
  let gone := d.chans.filter fun fd => (before fd).isSome && (d.ps.epoll fd).isNone
  let added := order.filter fun fd => (before fd).isNone && (d.ps.epoll fd).isSome
  let wq := added.foldl (fun wq fd => fd :: wq.erase fd) (d.wq.filter (fun fd => !gone.contains fd))
  let d1 := { d with wq := wq, rdl := d.rdl.filter (fun fd => !gone.contains fd) }
  -- only the descriptors whose registration this call (re)wrote can newly enter the ready list
  d1.sweep touched

/-- `epoll_wait`: walk the ready list; an item that is still ready is reported (up to the buffer size) and
    leaves the list, one that is not ready any more just leaves it -/
def D.harvest (d : D) : List Nat → Nat → List Fired × List Nat
  | [], _ => ([], [])
  | fd :: rest, room =>
    match firedOf d.ps fd with
    | none => d.harvest rest room
    | some f =>
      if room = 0 then
        let (fs, keep) := d.harvest rest 0
        (fs, fd :: keep)
      else
        let (fs, keep) := d.harvest rest (room - 1)
        (f :: fs, keep)

/-- the kernel after the harness touched a channel: armed io_uring requests are retried -/
def D.kick (d : D) : D :=
  if !d.iour then d.sweep d.wq else
  let (os, armed, cs) := retry d.os d.armed
  { d with os := os, armed := armed, ring := d.ring.enter ⟨0, cs⟩ }

/-- one `io_uring_enter` that takes every staged SQE -/
def D.enterAll (d : D) (sq : List Sqe) : D × Enter :=
  let (os, armed, cs) := issue d.os d.armed sq
  ({ d with os := os, armed := armed }, ⟨sq.length, cs⟩)

def D.hasDup (d : D) : Bool := d.chans.any fun c => d.getOs.alias c != c

def D.pollSplit (d : D) (t : Bool) : List Fired → D × String
  | [] => (d, "ok")
  | f :: rest =>
    let before := d.ps.epoll
    match poll d.ops d.ps t [f] with
    | .error e => ({ d with fault := some (showFault e) }, "fault")
    | .ok (s, .err e) => (({ d with ps := s } : D).syncEpoll before [f.fd], s!"err:{e}")
    | .ok (s, _) => D.pollSplit (({ d with ps := s } : D).syncEpoll before [f.fd]) t rest

def D.pollOnce (d : D) (timeoutIsSome : Bool) : D × String :=
  if d.iour then
    let r0 := d.ring
    if !r0.chan.isEmpty then ({ d with ring := (r0.poll [] ⟨0, []⟩).1 }, "ok")
    else
      -- the notifier's `push_raw` overflows only when the staged queue is full
      let overflow := r0.needNotifier && r0.sq.length ≥ r0.sqCap
      let (d1, e1) := if overflow then d.enterAll r0.sq else (d, ⟨0, []⟩)
      let sqAtSubmit : List Sqe :=
        if r0.needNotifier then (if overflow then [.notifier] else r0.sq ++ [.notifier]) else r0.sq
      let (d2, e2) := d1.enterAll sqAtSubmit
      ({ d2 with ring := (r0.poll [e1] e2).1 }, "ok")
  else
    let (fired, keep) := d.harvest d.rdl d.cap
    let before := d.ps.epoll
    let touched := fired.map (·.fd)
    -- With several descriptors for one kernel object the readiness a descriptor has when `poll_one` re-arms
    -- it (EPOLL_CTL_MOD queues a ready item at once) can differ from its readiness at the end of the call:
    -- the events are then fed to the driver model one by one.
    if d.hasDup && fired.length > 1 then D.pollSplit { d with rdl := keep } timeoutIsSome fired else
    match poll d.ops d.ps timeoutIsSome fired with
    | .error f => ({ d with fault := some (showFault f) }, "fault")
    | .ok (s, .ok) => (({ d with ps := s, rdl := keep } : D).syncEpoll before touched, "ok")
    | .ok (s, .timedOut) => (({ d with ps := s, rdl := keep } : D).syncEpoll before touched, "timeout")
    | .ok (s, .err e) => (({ d with ps := s, rdl := keep } : D).syncEpoll before touched, s!"err:{e}")

def D.settle (d : D) : Nat → D
  | 0 => d
  | n + 1 =>
    if d.iour then (if n + 4 < 64 then d else (d.pollOnce true).1.settle n)
    else match d.pollOnce true with
      | (d', "timeout") => d'
      | (d', "fault") => d'
      | (d', _) => d'.settle n

/-- the driver's `push_with_extra` for operation `id` (its kind is registered in the OS model):
    `some r` = `PushEntry::Ready` -/
def D.pushRes (d : D) (id : Id) : D × Option Res :=
  if d.iour then
    match d.getOs.ops id with
    | some (.job _) => ({ d with ring := d.ring.pushBlocking id }, none)
    | _ =>
      let (d1, e1) := if d.ring.sq.length ≥ d.ring.sqCap then d.enterAll d.ring.sq else (d, ⟨0, []⟩)
      match d1.ring.pushOp id [e1] with
      | (r, .ok) => ({ d1 with ring := r }, none)
      | (r, .spin) => ({ d1 with ring := r, fault := some "spin" }, none)
  else
    let (dec, os') := decide d.ps.world id
    let ps := { d.ps with world := os' }
    let touched := match dec with
      | .wait args => args.map (·.1)
      | _ => []
    match PollDriver.push d.ops ps id dec with
    | (s, r) => (({ d with ps := s } : D).syncEpoll d.ps.epoll touched, r)

/-- `Submit::poll` of the future of operation `id` with its own waker -/
def D.futPoll (d : D) (id : Id) : D × PollOut :=
  match submitPoll D.pushRes D.keys D.setKeys d (d.fst id) id (id * 64 + d.wk id) with
  | (d', st', out) => ({ d' with fst := upd d'.fst id st', seen := upd d'.seen id (d'.keys.woken id) }, out)

/-- future mode: like an executor, poll exactly the futures whose waker was woken since their last poll -/
def D.scanFuts (d : D) : D × String :=
  let rec go (d : D) (ids : List Id) (keep : List Id) (acc : List String) : D × List String :=
    match ids with
    | [] => ({ d with live := keep.reverse }, acc.reverse)
    | id :: rest =>
      if d.keys.woken id > d.seen id then
        match d.futPoll id with
        | (d1, .ready r) => go d1 rest keep (s!"{id}={d1.showDone id r}:w{d1.keys.woken id + d1.keys.nudged id}" :: acc)
        | (d1, _) => go d1 rest (id :: keep) acc
      else go d rest (id :: keep) acc
  let (d', items) := go d d.live [] []
  (d', if items.isEmpty then "-" else ",".intercalate items)

def D.scan (d : D) : D × String := if d.fut then d.scanFuts else d.scanKeys

def D.push (d : D) (id : Id) (kind : OpKind) : D × String :=
  let os := { d.getOs with ops := upd d.getOs.ops id (some kind) }
  let d := d.setOs os
  if d.fut then
    match d.futPoll id with
    | (d', .ready r) => (d', s!"ready {d'.showDone id r}")
    | (d', _) => (d', "pending")
  else
    match d.pushRes id with
    | (d', none) => (d', "pending")
    | (d', some r) => (d', s!"ready {d'.showDone id r}")

/-- thread-pool jobs finish (gate opened / ReadAt on the polling driver) -/
def D.finishJob (d : D) (id : Id) : D :=
  let (r, os) := perform d.getOs id
  let d := d.setOs os
  let res := r.getD (.err 0)
  if d.iour then { d with ring := d.ring.jobDone id res } else { d with ps := jobDone d.ps id res }

def withScan (p : D × String) : D × String :=
  let (d, o) := p
  let (d', sc) := d.scan
  (d', s!"{o} | {sc}")

/-- `cancel_token`; `blocking`: when a cancellation was issued the submitter blocks in `poll(None)`, then the
    harness settles -/
def ctokenLine (d : D) (blocking : Bool) (id : Id) : D × String :=
  let after (p : D × Bool) : D × String :=
    let d1 := if blocking && p.2 then p.1.settle 64 else p.1
    withScan (d1, if p.2 then "true" else "false")
  if d.iour then
    match d.ring.keys.slot id with
    | .free => after (d, false)
    | sl => if sl.isReady then after (d, false)
            else after ({ d with ring := d.ring.cancel id }, true)
  else
    let (s, b) := cancelToken d.ps id
    after (({ d with ps := s } : D).syncEpoll d.ps.epoll ((d.ps.track id).map (·.fd)), b)

def toNats (l : List String) : Option (List Nat) := l.mapM (·.toNat?)

def stepLine (d : D) (w : List String) : D × String :=
  match w with
  | ["cfg", drv, cap] =>
    match cap.toNat? with
    | some c =>
      let iour := drv == "iour"
      ({ iour := iour, cap := c, ring := { sqCap := nextPow2 c }, os := { iour := iour } }, "cfg")
    | none => (d, "bad-op")
  | ["cfg", drv, cap, "fut"] =>
    match cap.toNat? with
    | some c =>
      let iour := drv == "iour"
      ({ iour := iour, cap := c, ring := { sqCap := nextPow2 c }, os := { iour := iour }, fut := true }, "cfg")
    | none => (d, "bad-op")
  | ["rpipe", c] => match c.toNat? with
    | some c => ((d.setOs (setChan d.getOs c { kind := .rpipe })) |> fun d => { d with chans := d.chans ++ [c] }, "ok")
    | none => (d, "bad-op")
  | ["wpipe", c] => match c.toNat? with
    | some c => ((d.setOs (setChan d.getOs c { kind := .wpipe })) |> fun d => { d with chans := d.chans ++ [c] }, "ok")
    | none => (d, "bad-op")
  | ["sock", c] => match c.toNat? with
    | some c => ((d.setOs (setChan d.getOs c { kind := .sock })) |> fun d => { d with chans := d.chans ++ [c] }, "ok")
    | none => (d, "bad-op")
  | ["dup", c, c2] => match c.toNat?, c2.toNat? with
    | some c, some c2 =>
      -- a second descriptor for the same kernel object (dup / try_clone)
      let os := d.getOs
      ((d.setOs { os with alias := upd os.alias c2 (os.alias c) }) |> fun d => { d with chans := d.chans ++ [c2] }, "ok")
    | _, _ => (d, "bad-op")
  | ["file", c, h] => match c.toNat?, parseHex h with
    | some c, some b =>
      ((d.setOs (setChan d.getOs c { kind := .file, rbuf := b })) |>
        fun d => { d with chans := d.chans ++ [c], files := c :: d.files }, "ok")
    | _, _ => (d, "bad-op")
  | ["feed", c, h] => match c.toNat?, parseHex h with
    | some c, some b =>
      let ch := d.getOs.chans c
      ((d.setOs (setChan d.getOs c { ch with rbuf := ch.rbuf ++ b })).kick, "ok")
    | _, _ => (d, "bad-op")
  | ["eof", c] => match c.toNat? with
    | some c => ((d.setOs (setChan d.getOs c { (d.getOs.chans c) with eof := true })).kick, "ok")
    | none => (d, "bad-op")
  | ["hup", c] => match c.toNat? with
    | some c => ((d.setOs (setChan d.getOs c { (d.getOs.chans c) with hup := true })).kick, "ok")
    | none => (d, "bad-op")
  | ["fill", c] => match c.toNat? with
    | some c => (d.setOs (setChan d.getOs c { (d.getOs.chans c) with filled := true }), "ok")
    | none => (d, "bad-op")
  | ["drain", c] => match c.toNat? with
    | some c =>
      -- the harness reads until EAGAIN; on io_uring an armed write/send is retried by the kernel as soon as
      -- room appears, i.e. during the drain, and what it writes is drained as well
      let ch := d.getOs.chans c
      let d1 := (d.setOs (setChan d.getOs c { ch with wbuf := [], filled := false })).kick
      let ch1 := d1.getOs.chans c
      let d2 := if d.iour then (d1.setOs (setChan d1.getOs c { ch1 with wbuf := [] })).kick else d1
      let extra := if d.iour then ch1.wbuf else []
      (d2, s!"data f={if ch.filled then 1 else 0} {hexOf (ch.wbuf ++ extra)}")
    | none => (d, "bad-op")
  | "push" :: k :: "lazy" :: rest => match k.toNat?, parseKind rest with
    | some id, some kind =>
      match d.push id kind with
      | (d', "pending") => withScan ({ d' with lazy := id :: d'.lazy }, "pending")
      | p => withScan p
    | _, _ => (d, "bad-op")
  | "push" :: k :: rest => match k.toNat?, parseKind rest with
    | some id, some kind =>
      match d.push id kind with
      | (d', "pending") =>
        let d' := { d' with live := d'.live ++ [id] }
        match kind with
        | .readat .. =>
          -- the harness waits for a file read (thread pool / io-wq) right away, then settles
          let d2 := if d'.iour then d' else d'.finishJob id
          withScan (d2.settle 64, "pending")
        | _ => withScan (d', "pending")
      | p => withScan p
    | _, _ => (d, "bad-op")
  | ["waker", k] => match k.toNat? with
    | some id =>
      -- every `waker k` line hands the operation a NEW waker (another task now owns it)
      let d := { d with wk := upd d.wk id (d.wk id + 1) }
      if d.fut then
        -- future mode: the future is polled again under the new waker (`Submit::poll` → `update_waker`)
        if !(d.live.contains id) then (d, "ok") else
        match d.futPoll id with
        | (d1, .ready r) =>
          ({ d1 with live := d1.live.erase id },
           s!"ok {id}={d1.showDone id r}:w{d1.keys.woken id + d1.keys.nudged id}")
        | (d1, _) => (d1, "ok")
      else (d.setKeys (d.keys.setWaker id (id * 64 + d.wk id)), "ok")
    | none => (d, "bad-op")
  | ["poll"] => withScan (d.pollOnce true)
  | ["settle"] => withScan (d.settle 64, "settled")
  | "release" :: ks => match toNats ks with
    | some ids => withScan ((ids.foldl D.finishJob d).settle 64, "released")
    | none => (d, "bad-op")
  | ["pop", k] => match k.toNat? with
    | some id =>
      if d.fut then
        if !(d.lazy.contains id) then (d, "none") else
        match d.futPoll id with
        | (d1, .ready r) => ({ d1 with lazy := d1.lazy.erase id }, s!"{id}={d1.showDone id r}:w{d1.keys.woken id + d1.keys.nudged id}")
        | (d1, _) => (d1, "none")
      else
      match d.keys.pop id with
      | (ks, some r) =>
        let d1 := d.setKeys ks
        ({ d1 with lazy := d1.lazy.erase id }, s!"{id}={d1.showDone id r}:w{d1.keys.woken id + d1.keys.nudged id}")
      | (_, none) => (d, "none")
    | none => (d, "bad-op")
  | ["flush"] =>
    -- `Proactor::flush`: io_uring submits the staged SQEs (the kernel issues them) without reaping
    if d.iour then
      let (d1, e) := d.enterAll d.ring.sq
      ({ d1 with ring := d1.ring.enter e }, "ok")
    else (d, "ok")
  | ["ctoken", k] => match k.toNat? with
    | some id => ctokenLine d false id
    | none => (d, "bad-op")
  | ["ctokenb", k] => match k.toNat? with
    | some id => ctokenLine d true id
    | none => (d, "bad-op")
  | ["cancel", k] => match k.toNat? with
    | some id =>
      -- only a key the user still holds can be passed to `Proactor::cancel`
      if !(d.live.contains id || d.lazy.contains id) then withScan (d, "none") else
      let d0 := { d with live := d.live.erase id, lazy := d.lazy.erase id }
      if d.iour then
        match d0.ring.keys.pop id with
        | (ks, some r) =>
          let d1 := d0.setKeys ks
          withScan (d1, if d.fut then "none" else s!"ready {d1.showDone id r}")
        | (_, none) => withScan ({ d0 with ring := d0.ring.cancel id }, "none")
      else
        match cancelDrop d0.ps id with
        | (s, some r) =>
          let d1 := { d0 with ps := s }
          withScan (d1, if d.fut then "none" else s!"ready {d1.showDone id r}")
        | (s, none) =>
          withScan (({ d0 with ps := s } : D).syncEpoll d0.ps.epoll ((d0.ps.track id).map (·.fd)), "none")
    | none => (d, "bad-op")
  | _ => (d, "bad-op")

def step (d : D) (line : String) : D × String :=
  if line.startsWith "#case" then ({}, line.trimAscii.toString) else
  match d.fault with
  | some f => (d, s!"fault {f}")
  | none =>
    let (d', o) := stepLine d (words line)
    match d'.fault with
    | some f => (d', s!"fault {f}")
    | none => (d', o)

end C02

def main : IO Unit := Compio.stdinLoop C02.step {}
