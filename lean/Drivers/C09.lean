/- line-protocol driver for the C09 timer model (same operations as harness/rt/src/bin/c09.rs) -/
import Compio.Model.Common
import Compio.Model.Timer
import Compio.Model.TimerSim

open Compio Compio.Timer

namespace C09

/-- Wheel-level lines use the harness' logical grid: deadline `d` is the real instant `B + d*G`, and
while the logical time is `t` the real clock is strictly inside the cell `(B + t*G, B + (t+1)*G)`.
In the model's units (half cells) deadline `d` is `2*d` and "now" is `2*t + 1`, so that, as in the
real run, `now` never coincides with a deadline. -/
structure St where
  world : World := ⟨1, Wheel.new⟩
  handles : Array Key := #[]

def nWakers : Nat := 4

def showEntry (e : Entry) : String :=
  let w := match e.2 with
    | none => "-"
    | some i => s!"w{i}"
  s!"{e.1.deadline / 2}:{e.1.gen}:{w}"

def joinOr (sep : String) (l : List String) : String := if l.isEmpty then "." else sep.intercalate l

def rcOf (es : List Entry) (i : Nat) : Nat := (es.filter (fun e => e.2 = some i)).length

def dump (w : Wheel) : String :=
  let rc := (List.range nWakers).map fun i => toString (rcOf w.entries i)
  s!"g={w.gen} {joinOr "," (w.entries.map showEntry)} rc={",".intercalate rc}"

def showIns : InsertRes → String
  | .none => "none"
  | .some k => s!"key {k.gen}"
  | .panic => "panic"

def wheelOp (st : St) (ws : List String) : St × String :=
  let s := st.world
  match ws with
  | ["wheel", t0] =>
    match t0.toNat? with
    | some t0 => ({ world := ⟨2 * t0 + 1, Wheel.new⟩, handles := #[] }, "ok")
    | none => (st, "bad-op")
  | ["adv", n] =>
    match n.toNat? with
    | some n => let (s', _) := step s (.advance (2 * n)); ({ st with world := s' }, s!"t={s'.now / 2}")
    | none => (st, "bad-op")
  | ["setgen", v] =>
    -- test-only: overwrite the generation counter (the harness pokes the private field)
    match v.toNat? with
    | some v => ({ st with world := ⟨s.now, { s.wheel with gen := v }⟩ }, "ok")
    | none => (st, "bad-op")
  | ["ins", d] =>
    match d.toNat? with
    | some d =>
      match step s (.insert (2 * d)) with
      | (s', .ins r) =>
        let hs := match r with
          | .some k => st.handles.push k
          | _ => st.handles
        ({ world := s', handles := hs }, s!"{showIns r} | {dump s'.wheel}")
      | _ => (st, "bad-op")
    | none => (st, "bad-op")
  | ["upd", h, wk] =>
    match h.toNat?, wk.toNat? with
    | some h, some wk =>
      match st.handles[h]? with
      | some k => let (s', _) := step s (.updateWaker k wk); ({ st with world := s' }, s!"ok | {dump s'.wheel}")
      | none => (st, "bad-op")
    | _, _ => (st, "bad-op")
  | ["can", h] =>
    match h.toNat? with
    | some h =>
      match st.handles[h]? with
      | some k => let (s', _) := step s (.cancel k); ({ st with world := s' }, s!"ok | {dump s'.wheel}")
      | none => (st, "bad-op")
    | none => (st, "bad-op")
  | ["wake"] =>
    match step s .wake with
    | (s', .fired ex) =>
      ({ st with world := s' }, s!"fired {joinOr "," ((woken ex).map toString)} | {dump s'.wheel}")
    | _ => (st, "bad-op")
  | ["mt"] =>
    match minTimeout s.wheel s.now with
    | none => (st, "mt none")
    | some t => (st, s!"mt {(t + 1) / 2}")      -- the harness reports ceil(timeout / G)
  | ["done", h] =>
    match h.toNat? with
    | some h =>
      match st.handles[h]? with
      | some k => (st, toString (isCompleted s.wheel k))
      | none => (st, "bad-op")
    | none => (st, "bad-op")
  | ["poll", h, wk] =>
    match h.toNat?, wk.toNat? with
    | some h, some wk =>
      match st.handles[h]? with
      | some k =>
        match step s (.pollTimer k wk) with
        | (s', .polled r) =>
          ({ st with world := s' }, s!"{if r then "ready" else "pending"} | {dump s'.wheel}")
        | _ => (st, "bad-op")
      | none => (st, "bad-op")
    | _, _ => (st, "bad-op")
  | "rt" :: _drv :: _loop :: [tasks] => (st, Sim.runLine tasks)
  | ["dur", _drv, secs] =>
    -- `sleep(Duration::from_secs(secs))`: deadline = now + duration, or the overflow panic
    match secs.toNat? with
    | some secs =>
      let now := 2 ^ 63 * 1000000000
      match deadlineAfter now (secs * 1000000000) with
      | none => (st, "panic")
      | some d =>
        match Sleep.new Wheel.new now d with
        | (w, some _) =>
          match minTimeout w now with
          | some t => (st, s!"after {(t + 500000000) / 1000000000}")
          | none => (st, "ready")
        | (_, none) => (st, "panic")
    | none => (st, "bad-op")
  | ["ivx", _drv, sAgo, period] =>
    -- extreme interval parameters (seconds): start = now - sAgo, second tick's deadline
    match sAgo.toNat?, period.toNat? with
    | some sAgo, some period =>
      let now := 2 ^ 63 * 1000000000          -- clock origin in the model's coordinates (uptime ~ 0)
      let start := now - sAgo * 1000000000
      match intervalAt start (period * 1000000000) with
      | none => (st, "panic")
      | some iv =>
        match iv.ticked.tickDeadline now with
        | .panic => (st, "panic")
        | .deadline d => (st, s!"next {(d - start + 500000000) / 1000000000}")
    | _, _ => (st, "bad-op")
  | _ => (st, "bad-op")

def step (st : St) (line : String) : St × String :=
  if line.startsWith "#case" then ({}, line.trimAscii.toString) else wheelOp st (words line)

end C09

def main : IO Unit := Compio.stdinLoop C09.step {}
