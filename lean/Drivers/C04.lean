/- line-protocol driver for the C04 executor model (same operations as harness/exec/src/bin/c04.rs) -/
import Compio.Model.Common
import Compio.Model.Executor

open Compio Compio.Executor

namespace C04

structure St where
  e : Exec
  n : Nat          -- max_interval

def parseScript (s : String) : Option (List Outcome) :=
  if s = "-" then some [] else
  s.toList.foldr (fun c acc =>
    match acc, c with
    | some l, 'p' => some (.pending :: l)
    | some l, 's' => some (.wakeSelf :: l)
    | some l, 'c' => some (.cloneWaker :: l)
    | some l, 'W' => some (.remoteWake :: l)
    | some l, 'R' => some (.wakeReady :: l)
    | some l, 'X' => some (.wakePanic :: l)
    | some l, 'C' => some (.cloneReady :: l)
    | some l, 'r' => some (.ready :: l)
    | some l, 'x' => some (.panic :: l)
    | _, _ => none) (some [])

def showList (l : List Nat) : String :=
  if l.isEmpty then "-" else ",".intercalate (l.map toString)

def showJoin : JoinResult → String
  | .pending => "pending" | .ok => "ok" | .panicked => "panicked" | .cancelled => "cancelled" | .invalid => "invalid"

def okOr (b : Bool) : String := if b then "ok" else "invalid"

def showResp : Resp → String
  | .invalid => "invalid"
  | .spawned id => s!"id {id}"
  | .polled log hot => s!"polled {showList log} hot={if hot then 1 else 0}"
  | .join r => showJoin r
  | .done b => okOr b
  | .cancel r =>
    match r with
    | .ok => "ok some" | .cancelled => "ok none" | .panicked => "ok none" | .pending => "ok pending" | .invalid => "invalid"
  | .full => "full"
  | .wokeB none => "ok"
  | .wokeB (some (log, hot)) => s!"ok polled {showList log} hot={if hot then 1 else 0}"

/-- text line → operation of the model (`tick` takes `max_interval` from the `new` line) -/
def parseOp (n : Nat) : List String → Option Op
  | ["spawn", sc] => (parseScript sc).map .spawn
  | ["tick"] => some (.tick n)
  | ["hpoll", id, w] => match id.toNat?, w.toNat? with
    | some id, some w => some (.hpoll id w)
    | _, _ => none
  | ["hdrop", id] => id.toNat?.map .hdrop
  | ["hdetach", id] => id.toNat?.map .hdetach
  | ["hcancel", id] => id.toNat?.map .hcancel
  | ["wake", id] => id.toNat?.map .wake
  | ["wdrop", id] => id.toNat?.map .wdrop
  | ["xdrop"] => some .xdrop
  | ["rhpoll", id, w] => match id.toNat?, w.toNat? with
    | some id, some w => some (.rhpoll id w)
    | _, _ => none
  | ["rhdrop", id] => id.toNat?.map .rhdrop
  | ["rhcancel", id] => id.toNat?.map .rhcancel
  | ["rwake", id] => id.toNat?.map .rwake
  | ["rwakeb", id] => id.toNat?.map (fun i => .rwakeb i n)
  | ["rwdrop", id] => id.toNat?.map .rwdrop
  | _ => none

def step (s : St) (line : String) : St × String :=
  if line.startsWith "#case" then (s, line.trimAscii.toString) else
  match words line with
  | ["new", n] => ({ e := Exec.init, n := n.toNat?.getD 61 }, "ok")
  | ["new", n, q] => ({ e := Exec.new (q.toNat?.getD 64), n := n.toNat?.getD 61 }, "ok")
  | ["stat", id] =>
    match id.toNat? with
    | some id =>
      match s.e.get? id with
      | some t => (s, s!"polls={t.polls} futDrops={t.futDrops} delivered={t.resTaken + t.resDrops}")
      | none => (s, "invalid")
    | none => (s, "bad-op")
  | ["woken"] => (s, s!"woken {showList s.e.woken}")
  | ["qdump"] =>
    -- the intrusive queue model (Model/QueueIntrusive.lean) replaying the queue calls of the executor model
    if !s.e.alive then (s, "q dead") else
    match Compio.QueueIntrusive.runOps Compio.QueueIntrusive.IQ.empty s.e.qlog with
    | none => (s, "q panic")
    | some c =>
      let a := Compio.QueueIntrusive.abs c
      let so := fun (o : Option Nat) => match o with | some k => toString k | none => "-"
      (s, s!"q hot={showList a.1} cold={showList a.2} ht={so c.hotTail} ct={so c.coldTail}")
  | ws =>
    match parseOp s.n ws with
    | some op => let r := applyR s.e op; ({ s with e := r.1 }, showResp r.2)
    | none => (s, "bad-op")

end C04

def main : IO Unit := Compio.stdinLoop C04.step { e := Compio.Executor.Exec.init, n := 61 }
