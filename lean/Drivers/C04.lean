/- line-protocol driver for the C04 executor model (same operations as harness/exec/src/bin/c04.rs) -/
import Compio.Model.Common
import Compio.Model.Executor

open Compio Compio.Executor

namespace C04

structure St where
  e : Exec
  n : Nat          -- max_interval

def parseScript (s : String) : Option (List Outcome) :=
  if s = "-" then some [] else
  s.toList.foldr (fun c acc =>
    match acc, c with
    | some l, 'p' => some (.pending :: l)
    | some l, 's' => some (.wakeSelf :: l)
    | some l, 'c' => some (.cloneWaker :: l)
    | some l, 'r' => some (.ready :: l)
    | some l, 'x' => some (.panic :: l)
    | _, _ => none) (some [])

def showList (l : List Nat) : String :=
  if l.isEmpty then "-" else ",".intercalate (l.map toString)

def showJoin : JoinResult → String
  | .pending => "pending" | .ok => "ok" | .panicked => "panicked" | .cancelled => "cancelled" | .invalid => "invalid"

def okOr (b : Bool) : String := if b then "ok" else "invalid"

def step (s : St) (line : String) : St × String :=
  if line.startsWith "#case" then (s, line.trimAscii.toString) else
  match words line with
  | ["new", n] => ({ e := Exec.init, n := n.toNat?.getD 61 }, "ok")
  | ["spawn", sc] =>
    if !s.e.alive then (s, "invalid") else
    match parseScript sc with
    | some script => let (e, id) := spawn s.e script; ({ s with e := e }, s!"id {id}")
    | none => (s, "bad-op")
  | ["tick"] =>
    if !s.e.alive then (s, "invalid") else
    let (e, log, hot) := tick s.e s.n
    ({ s with e := e }, s!"polled {showList log} hot={if hot then 1 else 0}")
  | ["hpoll", id, w] =>
    match id.toNat?, w.toNat? with
    | some id, some w => let (e, r) := handlePoll s.e id w; ({ s with e := e }, showJoin r)
    | _, _ => (s, "bad-op")
  | ["hdrop", id] =>
    match id.toNat? with
    | some id => let (e, b) := handleDrop s.e id; ({ s with e := e }, okOr b)
    | none => (s, "bad-op")
  | ["hdetach", id] =>
    match id.toNat? with
    | some id => let (e, b) := handleDetach s.e id; ({ s with e := e }, okOr b)
    | none => (s, "bad-op")
  | ["hcancel", id] =>
    match id.toNat? with
    | some id =>
      let (e, b) := handleCancel s.e id
      if !b then (s, "invalid") else
      -- `cancel().await`: the handle is polled right away (noop waker 999)
      let (e, r) := handlePoll e id 999
      ({ s with e := e }, match r with
        | .ok => "ok some" | .cancelled => "ok none" | .panicked => "ok none" | .pending => "ok pending" | .invalid => "invalid")
    | none => (s, "bad-op")
  | ["wake", id] =>
    match id.toNat? with
    | some id => let (e, b) := wakeLocal s.e id; ({ s with e := e }, okOr b)
    | none => (s, "bad-op")
  | ["wdrop", id] =>
    match id.toNat? with
    | some id => let (e, b) := wakerDrop s.e id; ({ s with e := e }, okOr b)
    | none => (s, "bad-op")
  | ["xdrop"] => if !s.e.alive then (s, "invalid") else ({ s with e := execDrop s.e }, "ok")
  | ["stat", id] =>
    match id.toNat? with
    | some id =>
      match s.e.get? id with
      | some t => (s, s!"polls={t.polls} futDrops={t.futDrops} delivered={t.resTaken + t.resDrops}")
      | none => (s, "invalid")
    | none => (s, "bad-op")
  | ["woken"] => (s, s!"woken {showList s.e.woken}")
  | _ => (s, "bad-op")

end C04

def main : IO Unit := Compio.stdinLoop C04.step { e := Compio.Executor.Exec.init, n := 61 }
