/- line-protocol driver for the C06 models (same operations as harness/rt/src/bin/c06.rs) -/
import Compio.Model.Common
import Compio.Model.SharedFd

open Compio

namespace C06
open Compio.SharedFd

/-! ### layer `sfd`: exact prediction of count / released / delivered / wakes / result per event -/

def showLog (l : List (Nat × Nat)) : String :=
  if l.isEmpty then "-" else ",".intercalate (l.map fun (c, w) => s!"{c}.{w}")

def showSt (s : St) (r : String) : String :=
  s!"ok c={s.count} rel={s.released} del={s.delivered} wk={s.wakes} wl={showLog s.wakeLog} r={r}"

def parseEv (w : List String) : Option Ev :=
  match w with
  | [k, n] =>
    (n.toNat?).bind fun i =>
      if k = "clone" then some (Ev.clone i)
      else if k = "op" then some (Ev.opStart i)
      else if k = "drop" then some (Ev.drop i)
      else if k = "unwrap" then some (Ev.tryUnwrap i)
      else if k = "take" then some (Ev.take i)
      else if k = "poll" then some (Ev.poll i)
      else if k = "dropfut" then some (Ev.dropFut i)
      else none
  | _ => none

def resultOf (s' : St) : Ev → String
  | .poll c =>
    match s'.role c with
    | some (Role.closer .doneSome) => "some"
    | some (Role.closer .doneNone) => "none"
    | some (Role.closer .parked) => "pending"
    | _ => "?"
  | .tryUnwrap h =>
    match s'.role h with
    | some Role.gone => "ok"
    | _ => "err"
  | _ => "-"

/-! ### layer `loom`: exhaustive exploration of the model's cross-thread schedules

Threads: the closer (actor 0) runs `take().await`: micro steps of a poll, re-polled only when its task has
been woken; dropper threads run `dropCheck x; dropDec x` for their clones. `lost` = some maximal schedule
ends with the closer parked and not woken. -/

def closerMove (s : St) : Option Ev :=
  match s.role 0 with
  | some (.closer .created) => some (.pSwap 0)
  | some (.closer .losing) => some (.pNone 0)
  | some (.closer .try1) => some (.pTry1 0)
  | some (.closer .reg) => some (.pReg 0)
  | some (.closer .try2) => some (.pTry2 0)
  | some (.closer .parked) => if s.woken.contains 0 then some (.pBegin 0) else none
  | _ => none

def closerStuck (s : St) : Bool :=
  match s.role 0 with
  | some (.closer .parked) => !s.woken.contains 0
  | _ => false

/-- all ways to take the head of one of the thread programs -/
def pickThread : List (List Ev) → List (Ev × List (List Ev))
  | [] => []
  | [] :: rest => (pickThread rest).map fun (e, ts) => (e, [] :: ts)
  | (e :: es) :: rest =>
    (e, es :: rest) :: (pickThread rest).map fun (e', ts) => (e', (e :: es) :: ts)

/-- does some maximal schedule end with the closer parked for ever; `closerOn` = the closer thread runs -/
def explore : Nat → St → List (List Ev) → Bool
  | 0, _, _ => false
  | fuel + 1, s, ths =>
    let moves := (pickThread ths).filterMap fun (e, ts) => (step s e).map fun s' => (s', ts)
    let cm := match closerMove s with
      | some e => match step s e with
        | some s' => [(s', ths)]
        | none => []
      | none => []
    let all := cm ++ moves
    if all.isEmpty then closerStuck s
    else all.any fun (s', ts) => explore fuel s' ts

def dropperProg (x : Nat) : List Ev := [.dropCheck x, .dropDec x]

def loomProg (mode : String) (n : Nat) : Option Bool :=
  -- actor 0 is the handle that becomes the closer, actors 1..n the clones
  let clones := (List.range n).map (· + 1)
  match run (init true) (clones.map fun _ => Ev.clone 0) with
  | none => none
  | some s0 =>
    match mode with
    | "par" => (step s0 (.take 0)).map fun s => explore 200 s (clones.map dropperProg)
    | "seq" => (step s0 (.take 0)).map fun s => explore 200 s [(clones.map dropperProg).flatten]
    | "joined" =>
      -- droppers finish first (any order gives the same state: whole drops), then the closer runs
      match run s0 ((clones.map dropperProg).flatten) with
      | none => none
      | some s1 => (step s1 (.take 0)).map fun s => explore 200 s []
    | _ => none

/-! ### layer `rt`: real File / UnixStream / TcpStream programs

`op h` = the harness' op future owns a helper clone of the handle (actor n) and the operation its own
clone (actor n+1); `fin`/`cancel` release both. -/

structure RtSt where
  s : St
  helpers : List Nat
  /-- kind `afd` (`AsyncFd`): "close" is `into_inner().take()` — model event `take` (future owns the raw `Shared`),
  not `File::close`'s ManuallyDrop wrapper -/
  bareTake : Bool := false

def showRt (s : St) (r : String) : String :=
  let pw := (List.range s.actors.length).filter fun i =>
    (s.role i == some (Role.closer .parked)) && s.wokenW.contains (i, wOf s.parkedW i)
  let pws := if pw.isEmpty then "-" else ",".intercalate (pw.map toString)
  s!"ok c={s.count} open={if s.released = 0 then 1 else 0} pw={pws} r={r}"

def isHandle (t : RtSt) (h : Nat) : Bool :=
  t.s.role h == some (Role.handle .live) && !t.helpers.contains h

def rtEvent (t : RtSt) (w : List String) : Option (RtSt × String) :=
  match w with
  | ["poll", c, wk] =>
    match c.toNat?, wk.toNat? with
    | some i, some wk =>
      (run t.s [.setWaker i wk, .poll i]).map fun s' =>
        let r := match s'.role i with
          | some (Role.closer .parked) => "pending"
          | _ => "ready"
        ({ t with s := s' }, showRt s' r)
    | _, _ => none
  | [k, n] =>
    (n.toNat?).bind fun i =>
      if k = "clone" then
        if isHandle t i then (step t.s (.clone i)).map fun s' => ({ t with s := s' }, showRt s' "-") else none
      else if k = "drop" then
        if isHandle t i then (step t.s (.drop i)).map fun s' => ({ t with s := s' }, showRt s' "-") else none
      else if k = "op" then
        if isHandle t i then
          (run t.s [.clone i, .opStart i]).map fun s' =>
            ({ t with s := s', helpers := t.s.actors.length :: t.helpers }, showRt s' "-")
        else none
      else if k = "fin" || k = "cancel" then
        if t.s.role i == some (Role.op .live) then
          (run t.s [.drop i, .drop (i - 1)]).map fun s' =>
            ({ t with s := s' }, showRt s' (if k = "fin" then "ok" else "-"))
        else none
      else if k = "close" then
        if isHandle t i then
          (step t.s (if t.bareTake then .take i else .close i)).map fun s' => ({ t with s := s' }, showRt s' "-")
        else none
      else if k = "poll" then
        (run t.s [.setWaker i 0, .poll i]).map fun s' =>
          let r := match s'.role i with
            | some (Role.closer .parked) => "pending"
            | _ => "ready"
          ({ t with s := s' }, showRt s' r)
      else if k = "dropfut" then
        (step t.s (.dropFut i)).map fun s' => ({ t with s := s' }, showRt s' "-")
      else none
  | _ => none

/-! ### layer `prod`: descriptor-producing operations -/

structure PrSt where
  p : Compio.Produced.St
  kind : String
  drv : String     -- "iour" | "poll" | "iour2" (io_uring with a 2-entry ring: completion queue overflow)
  conns : Nat      -- connections made by peers and not yet accepted
  peers : Nat
  submitted : Bool
  gone : Bool      -- the stream was dropped while it owned no op

def prUnit (t : PrSt) : Nat := if t.kind = "pipe" then 2 else 1

def showPr (t : PrSt) (r : String) (x : Option Nat) : String :=
  let xs := match x with
    | some n => toString n
    | none => "-"
  s!"ok r={r} taken={t.p.taken.length} x={xs}"

def prRun (t : PrSt) (evs : List Compio.Produced.Ev) : Option PrSt :=
  (Compio.Produced.run t.p evs).map fun p' => { t with p := p' }

def isBlockingKind (k : String) : Bool := k = "open" || k = "socket" || k = "pipe"

/-- every accept is a single-shot op whose success is terminal (polling driver) -/
def singleShot (t : PrSt) : Bool := t.kind = "accept" || (t.kind = "multi" && t.drv = "poll")

/-- what the driver does with the operation once the runtime is driven -/
def prSettle (t : PrSt) : Option PrSt :=
  if t.p.inDriver && t.p.result.isNone then
    if t.p.cancelled then
      prRun t [.complete (isBlockingKind t.kind)]
    else if singleShot t then
      if t.conns > 0 then prRun { t with conns := t.conns - 1 } [.complete true] else some t
    else if t.kind = "multi" then
      prRun { t with conns := 0 } (List.replicate t.conns .shot)
    else prRun t [.complete true]
  else some t

/-- first poll of a fresh op: the polling driver tries the accept at once -/
def prArm (t : PrSt) : Option (PrSt × String) :=
  if singleShot t && t.drv = "poll" && t.conns > 0 then
    (prRun { t with conns := t.conns - 1 } [.pollImm true]).map fun t' => (t', showPr t' "ready-ok" none)
  else (prRun t [.poll]).map fun t' => (t', showPr t' "pending" none)

def prEvent (t : PrSt) (w : List String) : Option (PrSt × String) :=
  match w with
  | ["submit"] =>
    if !t.submitted && t.p.fut = .idle then prArm { t with submitted := true } else none
  | ["connect"] =>
    if (t.kind = "accept" || t.kind = "multi") && t.peers < (if t.drv = "iour2" then 16 else 4) then
      let t' := { t with conns := t.conns + 1, peers := t.peers + 1 }
      some (t', showPr t' "-" none)
    else none
  | ["settle"] =>
    if t.drv = "iour2" then none else
    (prSettle t).map fun t' => (t', showPr t' "-" (some (t'.p.held.length * prUnit t')))
  | ["poll"] =>
    if t.drv = "iour2" || t.gone || !t.submitted then none
    else if t.kind = "multi" then
      if t.p.fut = .ready then (prRun t [.rearm]).bind prArm
      else if t.p.fut = .submitted then
        if t.p.result.isSome && t.p.held.length ≤ 1 then
          (prRun t [.poll]).map fun t' =>
            (t', showPr t' (if t.p.result = some true then "ready-ok" else "ready-err") none)
        else if t.p.held.isEmpty then some (t, showPr t "pending" none)
        else (prRun t [.popShot]).map fun t' => (t', showPr t' "ready-ok" none)
      else none
    else if t.p.fut = .submitted then
      match t.p.result with
      | none => some (t, showPr t "pending" none)
      | some ok => (prRun t [.poll]).map fun t' => (t', showPr t' (if ok then "ready-ok" else "ready-err") none)
    else none
  | ["drain"] =>
    -- io_uring with a tiny ring: every pending connection is accepted; the multishot op ends with a
    -- terminal success somewhere in the burst and is re-armed
    if t.drv = "iour2" && t.submitted && !t.gone && t.p.fut = .submitted && !t.p.cancelled then
      let k := t.conns
      let script : List Compio.Produced.Ev :=
        if k = 0 then []
        else List.replicate (k - 1) .shot ++ [.complete true] ++ List.replicate (k - 1) .popShot ++
          [.poll, .rearm, .poll]
      (prRun { t with conns := 0 } script).map fun t' =>
        (t', showPr t' "-" (some (t'.p.held.length * prUnit t')))
    else none
  | ["drop"] =>
    if t.gone || !t.submitted then none
    else if t.p.fut = .submitted then (prRun t [.dropFut]).map fun t' => (t', showPr t' "-" none)
    else if t.kind = "multi" && t.p.fut = .ready then
      let t' := { t with gone := true }
      some (t', showPr t' "-" none)
    else none
  | _ => none

def prEnd (t : PrSt) : String :=
  let t1 := if t.p.fut = .submitted || t.p.fut = .idle then (prRun t [.dropFut]).getD t else t
  let t2 := if t1.p.inDriver && t1.p.result.isNone then (prRun t1 [.complete (isBlockingKind t1.kind)]).getD t1 else t1
  s!"leak={t2.p.held.length * prUnit t2}"

/-! ### layer `splice`: one op holding clones of two shared descriptors, registered in two interest queues -/

structure SpSt where
  si : St
  so : St
  mw : Compio.MultiWait.St
  started : Bool
  inflight : Bool

def showSp (t : SpSt) (r : String) : String :=
  s!"ok ci={t.si.count} co={t.so.count} oi={if t.si.released = 0 then 1 else 0} oo={if t.so.released = 0 then 1 else 0} r={r}"

def closerResult (s : St) : String :=
  match s.role 0 with
  | some (Role.closer .parked) => "pending"
  | _ => "ready"

def spEvent (t : SpSt) (w : List String) : Option (SpSt × String) :=
  match w with
  | ["start"] =>
    if t.started then none else
    match step t.si (.opStart 0), step t.so (.opStart 0) with
    | some si, some so =>
      let t' := { t with si := si, so := so, started := true, inflight := true,
                         mw := Compio.MultiWait.push t.mw 7 [0, 1] }
      some (t', showSp t' "pending")
    | _, _ => none
  | ["cancel"] =>
    if !t.inflight then none else
    -- future dropped, Driver::cancel over every wait descriptor, cancelled entry reaped
    let mw := Compio.MultiWait.reap
      (Compio.MultiWait.cancel (Compio.MultiWait.dropFuture t.mw 7) 7 [0, 1]) 7
    if Compio.MultiWait.keyRefs mw 7 = 0 then
      match step t.si (.drop 1), step t.so (.drop 1) with
      | some si, some so =>
        let t' := { t with si := si, so := so, mw := mw, inflight := false }
        some (t', showSp t' "-")
      | _, _ => none
    else
      let t' := { t with mw := mw, inflight := false }
      some (t', showSp t' "-")
  | ["fin"] =>
    if !t.inflight then none else
    match step t.si (.drop 1), step t.so (.drop 1) with
    | some si, some so =>
      let t' := { t with si := si, so := so, inflight := false }
      some (t', showSp t' "ok")
    | _, _ => none
  | ["closein"] => (run t.si [.close 0, .poll 0]).map fun si => ({ t with si := si }, showSp { t with si := si } (closerResult si))
  | ["closeout"] => (run t.so [.close 0, .poll 0]).map fun so => ({ t with so := so }, showSp { t with so := so } (closerResult so))
  | ["pollin"] => (step t.si (.poll 0)).map fun si => ({ t with si := si }, showSp { t with si := si } (closerResult si))
  | ["pollout"] => (step t.so (.poll 0)).map fun so => ({ t with so := so }, showSp { t with so := so } (closerResult so))
  | ["dropin"] => (step t.si (.drop 0)).map fun si => ({ t with si := si }, showSp { t with si := si } "-")
  | ["dropout"] => (step t.so (.drop 0)).map fun so => ({ t with so := so }, showSp { t with so := so } "-")
  | _ => none

/-! ### line loop -/

inductive Mode where
  | none
  | sfd (s : St)
  | rt (t : RtSt)
  | pr (t : PrSt)
  | sp (t : SpSt)

def stepLine (m : Mode) (line : String) : Mode × String :=
  if line.startsWith "#case" then (.none, line.trimAscii.toString) else
  match m, words line with
  | .none, ["sfd", "unsync"] => let s := init false; (.sfd s, showSt s "-")
  | .none, ["sfd", "sync"] => let s := init true; (.sfd s, showSt s "-")
  | .none, ["loom", mode, n] =>
    match n.toNat? with
    | some n =>
      if n > 3 then (.none, "bad-op") else
      match loomProg mode n with
      | some true => (.none, "lost=yes")
      | some false => (.none, "lost=no")
      | none => (.none, "bad-op")
    | none => (.none, "bad-op")
  | .none, ["stress", _, _] => (.none, "done")
  | .none, ["fallback", kind] =>
    if kind = "socket" || kind = "accept" || kind = "open" then
      match Compio.Produced.run Compio.Produced.init [.poll, .completeFallback, .poll] with
      | some p => (.none, if p.taken.any (p.closed.contains ·) then "own=0" else "own=1")
      | none => (.none, "bad-op")
    else (.none, "bad-op")
  | .none, ["rt", d, kind] =>
    if (d = "iour" || d = "poll") && (kind = "file" || kind = "unix" || kind = "tcp" || kind = "afd") then
      let s := init false
      (.rt { s := s, helpers := [], bareTake := kind = "afd" }, showRt s "-")
    else (.none, "bad-op")
  | .none, "splice" :: d :: rest =>
    if (d = "iour" || d = "poll") && (rest = [] || rest = ["fed"]) then
      let t : SpSt := { si := init false, so := init false, mw := Compio.MultiWait.init, started := false,
                        inflight := false }
      (.sp t, showSp t "-")
    else (.none, "bad-op")
  | .sp t, w =>
    match spEvent t w with
    | some (t', o) => (.sp t', o)
    | none => (.sp t, "rej")
  | .none, ["prod", d, kind, "fd0"] =>
    if (d = "iour" || d = "poll") && (kind = "accept" || kind = "multi" || isBlockingKind kind) then
      (.pr { p := Compio.Produced.init, kind := kind, drv := d, conns := 0, peers := 0, submitted := false,
             gone := false }, "ok")
    else (.none, "bad-op")
  | .none, ["prod", d, kind] =>
    if ((d = "iour" || d = "poll") && (kind = "accept" || kind = "multi" || isBlockingKind kind)) ||
        (d = "iour2" && kind = "multi") then
      (.pr { p := Compio.Produced.init, kind := kind, drv := d, conns := 0, peers := 0, submitted := false,
             gone := false }, "ok")
    else (.none, "bad-op")
  | .rt t, w =>
    match rtEvent t w with
    | some (t', o) => (.rt t', o)
    | none => (.rt t, "rej")
  | .pr t, ["end"] => (.none, prEnd t)
  | .pr t, w =>
    match prEvent t w with
    | some (t', o) => (.pr t', o)
    | none => (.pr t, "rej")
  | .sfd s, ["poll", c, wk] =>
    match c.toNat?, wk.toNat? with
    | some c, some wk =>
      match run s [.setWaker c wk, .poll c] with
      | some s' => (.sfd s', showSt s' (resultOf s' (.poll c)))
      | none => (.sfd s, "rej")
    | _, _ => (.sfd s, "rej")
  | .sfd s, ["poll", c] =>
    match c.toNat? with
    | some c =>
      match run s [.setWaker c 0, .poll c] with
      | some s' => (.sfd s', showSt s' (resultOf s' (.poll c)))
      | none => (.sfd s, "rej")
    | none => (.sfd s, "rej")
  | .sfd s, w =>
    match parseEv w with
    | some e =>
      match step s e with
      | some s' => (.sfd s', showSt s' (resultOf s' e))
      | none => (.sfd s, "rej")
    | none => (.sfd s, "rej")
  | m, _ => (m, "bad-op")

end C06

def main : IO Unit := Compio.stdinLoop C06.stepLine C06.Mode.none
