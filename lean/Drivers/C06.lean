/- line-protocol driver for the C06 models (same operations as harness/rt/src/bin/c06.rs) -/
import Compio.Model.Common
import Compio.Model.SharedFd

open Compio

namespace C06
open Compio.SharedFd

/-! ### layer `sfd`: exact prediction of count / released / delivered / wakes / result per event -/

def showSt (s : St) (r : String) : String :=
  s!"ok c={s.count} rel={s.released} del={s.delivered} wk={s.wakes} r={r}"

def parseEv (w : List String) : Option Ev :=
  match w with
  | [k, n] =>
    (n.toNat?).bind fun i =>
      if k = "clone" then some (Ev.clone i)
      else if k = "op" then some (Ev.opStart i)
      else if k = "drop" then some (Ev.drop i)
      else if k = "unwrap" then some (Ev.tryUnwrap i)
      else if k = "take" then some (Ev.take i)
      else if k = "poll" then some (Ev.poll i)
      else if k = "dropfut" then some (Ev.dropFut i)
      else none
  | _ => none

def resultOf (s' : St) : Ev → String
  | .poll c =>
    match s'.role c with
    | some (Role.closer .doneSome) => "some"
    | some (Role.closer .doneNone) => "none"
    | some (Role.closer .parked) => "pending"
    | _ => "?"
  | .tryUnwrap h =>
    match s'.role h with
    | some Role.gone => "ok"
    | _ => "err"
  | _ => "-"

/-! ### layer `loom`: exhaustive exploration of the model's cross-thread schedules

Threads: the closer (actor 0) runs `take().await`: micro steps of a poll, re-polled only when its task has
been woken; dropper threads run `dropCheck x; dropDec x` for their clones. `lost` = some maximal schedule
ends with the closer parked and not woken. -/

def closerMove (s : St) : Option Ev :=
  match s.role 0 with
  | some (.closer .created) => some (.pSwap 0)
  | some (.closer .losing) => some (.pNone 0)
  | some (.closer .try1) => some (.pTry1 0)
  | some (.closer .reg) => some (.pReg 0)
  | some (.closer .try2) => some (.pTry2 0)
  | some (.closer .parked) => if s.woken.contains 0 then some (.pBegin 0) else none
  | _ => none

def closerStuck (s : St) : Bool :=
  match s.role 0 with
  | some (.closer .parked) => !s.woken.contains 0
  | _ => false

/-- all ways to take the head of one of the thread programs -/
def pickThread : List (List Ev) → List (Ev × List (List Ev))
  | [] => []
  | [] :: rest => (pickThread rest).map fun (e, ts) => (e, [] :: ts)
  | (e :: es) :: rest =>
    (e, es :: rest) :: (pickThread rest).map fun (e', ts) => (e', (e :: es) :: ts)

/-- does some maximal schedule end with the closer parked for ever; `closerOn` = the closer thread runs -/
def explore : Nat → St → List (List Ev) → Bool
  | 0, _, _ => false
  | fuel + 1, s, ths =>
    let moves := (pickThread ths).filterMap fun (e, ts) => (step s e).map fun s' => (s', ts)
    let cm := match closerMove s with
      | some e => match step s e with
        | some s' => [(s', ths)]
        | none => []
      | none => []
    let all := cm ++ moves
    if all.isEmpty then closerStuck s
    else all.any fun (s', ts) => explore fuel s' ts

def dropperProg (x : Nat) : List Ev := [.dropCheck x, .dropDec x]

def loomProg (mode : String) (n : Nat) : Option Bool :=
  -- actor 0 is the handle that becomes the closer, actors 1..n the clones
  let clones := (List.range n).map (· + 1)
  match run (init true) (clones.map fun _ => Ev.clone 0) with
  | none => none
  | some s0 =>
    match mode with
    | "par" => (step s0 (.take 0)).map fun s => explore 200 s (clones.map dropperProg)
    | "seq" => (step s0 (.take 0)).map fun s => explore 200 s [(clones.map dropperProg).flatten]
    | "joined" =>
      -- droppers finish first (any order gives the same state: whole drops), then the closer runs
      match run s0 ((clones.map dropperProg).flatten) with
      | none => none
      | some s1 => (step s1 (.take 0)).map fun s => explore 200 s []
    | _ => none

/-! ### line loop -/

inductive Mode where
  | none
  | sfd (s : St)

def stepLine (m : Mode) (line : String) : Mode × String :=
  if line.startsWith "#case" then (.none, line.trimAscii.toString) else
  match m, words line with
  | .none, ["sfd", "unsync"] => let s := init false; (.sfd s, showSt s "-")
  | .none, ["sfd", "sync"] => let s := init true; (.sfd s, showSt s "-")
  | .none, ["loom", mode, n] =>
    match n.toNat? with
    | some n =>
      if n > 3 then (.none, "bad-op") else
      match loomProg mode n with
      | some true => (.none, "lost=yes")
      | some false => (.none, "lost=no")
      | none => (.none, "bad-op")
    | none => (.none, "bad-op")
  | .sfd s, w =>
    match parseEv w with
    | some e =>
      match step s e with
      | some s' => (.sfd s', showSt s' (resultOf s' e))
      | none => (.sfd s, "rej")
    | none => (.sfd s, "rej")
  | m, _ => (m, "bad-op")

end C06

def main : IO Unit := Compio.stdinLoop C06.stepLine C06.Mode.none
