/- line-protocol driver for the C12 models (same operations as harness/pure/src/bin/c12.rs) -/
import Compio.Model.SyncStream
import Compio.Model.PollAdapter

open Compio Compio.SyncStream

namespace C12

/-- the stream under test; `rp`/`wp`: a call on that half panicked, the harness (and so the driver)
skips every later call on the half (a poisoned object is not used any more) -/
inductive Sut where
  | none
  | sync (s : SyncStream.State) (rp wp : Bool)
  | async (s : PollAdapter.State) (rp wp : Bool)

/-- 0 = read half, 1 = write half, 2 = neither -/
def syncHalf : SyncStream.Op → Nat
  | .read _ | .rbu _ | .fillbuf | .consume _ | .fill _ => 0
  | .write _ | .wflush _ => 1
  | _ => 2

def allSome {α} : List (Option α) → Option (List α)
  | [] => some []
  | none :: _ => none
  | some a :: r => (allSome r).map (a :: ·)

def listOf (s : String) : List String := if s = "." then [] else s.splitOn ","

def parseRItem (s : String) : Option RItem :=
  if s = "p" then some .p else if s = "e" then some .e else if s = "z" then some .z
  else if s.startsWith "d" then (parseHex (s.drop 1).toString).map .d
  else none

def parseWItem (s : String) : Option WItem :=
  if s = "p" then some .p else if s = "e" then some .e
  else if s.startsWith "w" then ((s.drop 1).toString.toNat?).map .w
  else none

def showErr : Err → String
  | .wb => "wb" | .oom => "oom" | .wz => "wz" | .other => "other"

def showIo : Io → String
  | .r sp n => s!"r{sp}:{n}" | .rP => "rP" | .rE => "rE"
  | .w l n => s!"w{l}:{n}" | .wP => "wP" | .wE => "wE"
  | .f => "f" | .fP => "fP" | .fE => "fE"
  | .s => "s" | .sP => "sP" | .sE => "sE"

def joinOr (l : List String) : String := if l.isEmpty then "-" else ",".intercalate l

def obs (log : List Io) (woken : List Nat) : String :=
  s!" io={joinOr (log.map showIo)} wk={joinOr (woken.map toString)}"

def b01 (b : Bool) : String := if b then "1" else "0"

def syncSt (s : SyncStream.State) : String :=
  if s.gone then ""
  else if s.r.buf.lent || s.w.buf.lent then " st=?"
  else s!" st={s.r.buf.data.length},{s.r.buf.pos},{b01 s.r.eof},{s.w.buf.data.length},{s.w.buf.pos}"

def showSyncOut : SyncStream.Out → String
  | .bytes b => s!"ok {hexOf b}"
  | .num n => s!"ok {n}"
  | .unit => "ok"
  | .err e => s!"err {showErr e}"
  | .panic => "panic"
  | .cancel => "cancel"
  | .st eof pw =>
    let p := match pw with | some b => b01 b | none => "panic"
    s!"eof={b01 eof} pw={p}"
  | .gone => "gone"

def parseSyncOp (w : List String) : Option SyncStream.Op :=
  match w with
  | ["read", n] => n.toNat?.map .read
  | ["rbu", n] => n.toNat?.map .rbu
  | ["fillbuf"] => some .fillbuf
  | ["consume", n] => n.toNat?.map .consume
  | ["write", h] => (parseHex h).map .write
  | ["flush"] => some .flush
  | ["fill", k] => k.toNat?.map .fill
  | ["wflush", k] => k.toNat?.map .wflush
  | ["st"] => some .st
  | ["parts"] => some .parts
  | _ => none

/-- `rewrap`: `into_parts`, then a new stream with the same limits over the same inner stream -/
def rewrap (s : SyncStream.State) : SyncStream.State × Bytes :=
  (SyncStream.State.new s.r.base s.r.max s.r.script s.w.script, s.r.intoParts)

def parseAsyncOp (w : List String) : Option PollAdapter.Op :=
  match w with
  | ["pr", t, n] => match t.toNat?, n.toNat? with | some t, some n => some (.pr (t % 4) n) | _, _ => none
  | ["pru", t, n] => match t.toNat?, n.toNat? with | some t, some n => some (.pru (t % 4) n) | _, _ => none
  | ["pfb", t] => t.toNat?.map fun t => .pfb (t % 4)
  | ["co", n] => n.toNat?.map .co
  | ["pw", t, h] => match t.toNat?, parseHex h with | some t, some b => some (.pw (t % 4) b) | _, _ => none
  | ["pfl", t] => t.toNat?.map fun t => .pfl (t % 4)
  | ["pcl", t] => t.toNat?.map fun t => .pcl (t % 4)
  | _ => none

def showAsyncOut (op : PollAdapter.Op) : PollAdapter.Out → String
  | .pending => "pending"
  | .bytes b => match op with | .co _ => s!"ok {hexOf b}" | _ => s!"ready ok {hexOf b}"
  | .num n => s!"ready ok {n}"
  | .unit => "ready ok"
  | .err e => s!"ready err {showErr e}"
  | .panic => "panic"
  | .hang => "hang"

def isReadOp : PollAdapter.Op → Bool
  | .pr .. | .pru .. | .pfb .. | .co .. => true
  | _ => false

def step (sut : Sut) (line : String) : Sut × String :=
  if line.startsWith "#case" then (.none, line.trimAscii.toString) else
  -- an optional 6th word `wake=<style>` selects how the harness' inner stream wakes its registered waker;
  -- in the model a wake of the `WakerArray` snapshot wakes every task in it whatever the style
  let ws0 := words line
  let ws5 := if ws0.length == 6 && ((ws0.getD 5 "").startsWith "wake=") then ws0.take 5 else ws0
  match ws5 with
  | [kind, base, max, rs, ws] =>
    match base.toNat?, max.toNat?, allSome ((listOf rs).map parseRItem), allSome ((listOf ws).map parseWItem) with
    | some base, some max, some rs, some ws =>
      if kind ∈ ["sync", "ssplit", "scap", "snew"] then
        let s := SyncStream.State.new base max rs ws
        (.sync s false false, "ok" ++ obs [] [] ++ syncSt s)
      else if kind ∈ ["async", "asplit", "acap", "anew", "arw", "arwnew"] then
        (.async (PollAdapter.State.new base max rs ws) false false, "ok" ++ obs [] [])
      else (sut, "bad-op")
    | _, _, _, _ => (sut, "bad-op")
  | w =>
    match sut with
    | .none => (sut, "bad-op")
    | .sync s rp wp =>
      if w = ["rewrap"] then
        if s.gone then (sut, "gone" ++ obs [] []) else
        let (s', rest) := rewrap s
        (.sync s' false false, s!"ok {hexOf rest}" ++ obs [] [] ++ syncSt s')
      else
      match parseSyncOp w with
      | none => (sut, "bad-op")
      | some op =>
        -- after a panic the calls go on: the sticky post-panic behaviour is part of the comparison
        let (s', o) := SyncStream.step s op
        (.sync s' rp wp,
         showSyncOut o ++ obs (s'.r.log ++ s'.w.log) (s'.r.woken ++ s'.w.woken) ++ syncSt s')
    | .async s rp wp =>
      match parseAsyncOp w with
      | none => (sut, "bad-op")
      | some op =>
        let rd := isReadOp op
        if (rd && rp) || (!rd && wp) then (sut, "skip") else
        let (s', o) := PollAdapter.step s op
        -- `hang`: the retry loop of the entry point never ends (the real call spins); the harness
        -- establishes that in a forked copy and does not use the half any more
        if o == .hang then (.async s (rp || rd) (wp || !rd), "spin") else
        let ob := if rd then obs s'.ar.r.log s'.ar.r.woken else obs s'.aw.w.log s'.aw.w.woken
        (.async s' rp wp, showAsyncOut op o ++ ob)

end C12

def main : IO Unit := Compio.stdinLoop C12.step .none
