/- line-protocol driver for the C07 model (same operations as harness/rt/src/bin/c07.rs) -/
import Compio.Model.Common
import Compio.Model.Pool

open Compio Compio.Pool

namespace C07

def showList (l : List Nat) : String :=
  if l.isEmpty then "-" else ",".intercalate (l.map toString)

def showSnap (w : World) : String :=
  let live := showList (sortNat w.handles)
  if w.pool.released then s!"released L={live}"
  else
    let slots := String.ofList (w.pool.slots.map fun s => if s.isSome then '1' else '0')
    match w.pool.kind with
    | .ring => s!"S={slots} T={w.pool.tail % 65536} H={w.pool.head % 65536} P={showList w.pool.window} L={live}"
    | .fb => s!"S={slots} Q={showList w.pool.queue} L={live}"

def tagOf (now : Bool) : String := if now then "now" else "ready"

def showOut : Out → String
  | .bad => "bad"
  | .dead => "dead"
  | .ok => "ok"
  | .started => "started"
  | .pending => "pending"
  | .fin => "end"
  | .some now id len => s!"{tagOf now} some {id}:{len}"
  | .none now => s!"{tagOf now} none"
  | .err now e => s!"{tagOf now} err {e}"
  | .item id len => s!"item {id}:{len}"
  | .ierr e => s!"err {e}"
  | .psome id => s!"some {id}:0"
  | .pnone => "none"
  | .perr e => s!"err {e}"
  | .ppanic e => s!"panic {e}"
  | .bool b => if b then "true" else "false"

def parseKind : String → Option SKind
  | "pipe" => some .pipe
  | "tcp" => some .sock
  | "unix" => some .sock
  | "udp" => some .dgram
  -- session 3 (seed C07-5b): a UDP socket whose multishot stream is `recv_from_multi` (io_uring multishot
  -- recvmsg, `RecvMsgMultiImpl`): same pool calls as `recv_multi` (push_multishot / BufferGuard / pop_multishot /
  -- take); the harness only sends datagrams that fit behind the recvmsg header, so no truncation differs
  | "udpf" => some .dgram
  | "file" => some .file
  | _ => none

def isFile (w : World) (i : Nat) : Bool :=
  match w.srcs[i]? with
  | some s => s.kind == .file
  | none => false

def parseEv (w : World) (ws : List String) : Option Ev :=
  match ws with
  | ["src", i, kind, size] =>
    match i.toNat?, parseKind kind, size.toNat? with
    | some i, some k, some sz => if i = w.srcs.length then some (.src k sz) else none
    | _, _, _ => none
  | ["alias", j, i] =>
    -- a second logical source on the SAME endpoint as source `i` (several concurrent reads on one fd);
    -- for the pool it is an independent source of the same kind
    match j.toNat?, i.toNat? with
    | some j, some i =>
      match w.srcs[i]? with
      | some s => if j = w.srcs.length && s.kind != .file then some (.src s.kind 0) else none
      | none => none
    | _, _ => none
  | ["tcancel", i] => i.toNat?.map .tcancel
  | ["write", i, k] =>
    match i.toNat?, k.toNat? with
    | some i, some k => some (.write i k)
    | _, _ => none
  | ["close", i] => i.toNat?.map .close
  | ["read", i, len] =>
    match i.toNat?, len.toNat? with
    | some i, some len => if isFile w i then none else some (.read i len 0)
    | _, _ => none
  | ["readat", i, len, pos] =>
    match i.toNat?, len.toNat?, pos.toNat? with
    | some i, some len, some pos =>
      if isFile w i || w.pool.released || w.srcs[i]?.isNone then some (.read i len pos) else none
    | _, _, _ => none
  | ["await", i] => i.toNat?.map .await
  | ["cancel", i] => i.toNat?.map .cancel
  | ["open", i, len] =>
    match i.toNat?, len.toNat? with
    | some i, some len => some (.open i len)
    | _, _ => none
  | ["next", i] => i.toNat?.map .next
  | ["nextw", i] => i.toNat?.map .nextw
  | ["dstream", i] => i.toNat?.map .dstream
  | ["drop", id] => id.toNat?.map .drop
  | ["dropn", k] => k.toNat?.map .dropn
  | ["pop"] => some .pop
  | ["take", id] => id.toNat?.map .take
  | ["reset", id] => id.toNat?.map .reset
  | ["release"] => some .release
  -- session 3 (seed C07-5a): the Proactor is dropped WITHOUT reaping the cancellations first; the ops the
  -- driver still owns drop their buffers after `BufferPoolRoot::release`.  Same abstract event: every buffer
  -- of an op ends up deallocated (`Pool.release_after_late_drop` shows the two orders free the same ids)
  | ["arelease"] => some .release
  | ["wcancel", i, k] =>
    match i.toNat?, k.toNat? with
    | some i, some k => some (.wcancel i k)
    | _, _ => none
  | ["wdstream", i, k] =>
    match i.toNat?, k.toNat? with
    | some i, some k => some (.wdstream i k)
    | _, _ => none
  | ["spin", i, k] =>
    match i.toNat?, k.toNat? with
    | some i, some k => some (.spin i k)
    | _, _ => none
  | _ => none

def stepLine (st : Option World) (line : String) : Option World × String :=
  let ws := words line
  if line.startsWith "#case" then (none, line.trimAscii.toString)
  else
    match st with
    | none =>
      match ws with
      | ["init", kind, n, len] =>
        match n.toNat?, len.toNat? with
        | some n, some len =>
          if n = 0 || 64 < n || len = 0 || 4096 < len then (none, "bad")
          else
            let k := if kind = "ring" then some PKind.ring else if kind = "fb" then some PKind.fb else none
            match k with
            | none => (none, "bad")
            | some k =>
              match World.init k n len with
              | some w => (some w, s!"ok n={w.pool.n} | {showSnap w}")
              | none => (none, "bad")
        | _, _ => (none, "bad")
      | _ => (none, "bad")
    | some w =>
      match parseEv w ws with
      | none => (some w, "bad")
      | some e =>
        let (w', o) := step w e
        if w'.dead && !w.dead then (some w', "panic in-use")
        else
          match o with
          | .bad => (some w', "bad")
          | .dead => (some w', "dead")
          | o => (some w', s!"{showOut o} | {showSnap w'}")

end C07

def main : IO Unit := stdinLoop C07.stepLine none
