/- line-protocol driver for the C11 models (same operations as harness/pure/src/bin/c11.rs) -/
import Compio.Model.IoLoops
import Compio.Model.SyncRead

open Compio Compio.Io

namespace C11

def listOf (sep : String) (s : String) : List String := if s = "." then [] else s.splitOn sep

def allSome {α} : List (Option α) → Option (List α)
  | [] => some []
  | none :: _ => none
  | some a :: r => (allSome r).map (a :: ·)

def parseOutcome (s : String) : Option Outcome :=
  if s = "i" then some .intr
  else if s = "z" then some .eof
  else if s.startsWith "e" then ((s.drop 1).toString.toNat?).map .err
  else (s.toNat?).map .ok

def parseScript (s : String) : Option (List Outcome) := allSome ((listOf "," s).map parseOutcome)

/-- reader spec: wrappers `take:<n>`, `buf:<cap>`, `half` (outermost first) around a base
`s:<stream>:<script>`, `m:<hex>`, `c:<hex>:<pos>`, separated by `/` -/
def parseRdBase (s : String) : Option Rd :=
  match s.splitOn ":" with
  | ["s", st, sc] =>
    match parseHex st, parseScript sc with
    | some st, some sc => some (.script st sc)
    | _, _ => none
  | ["m", d] => (parseHex d).map .mem
  | ["c", d, p] =>
    match parseHex d, p.toNat? with
    | some d, some p => some (.cursor d p)
    | _, _ => none
  | _ => none

def wrapRd (r : Rd) (w : String) : Option Rd :=
  match w.splitOn ":" with
  | ["take", n] => (n.toNat?).map (.take r)
  | ["buf", c] => (c.toNat?).map fun c => .buf r (Buffer.withCapacity c)
  | ["half"] => some r
  | _ => none

def parseRd (s : String) : Option Rd :=
  match (s.splitOn "/").reverse with
  | [] => none
  | base :: wrappers =>
    (parseRdBase base).bind fun b => wrappers.foldlM wrapRd b

def showRd : Rd → String
  | .script s sc => s!"s[{hexOf s};{sc.length}]"
  | .mem d => s!"m[{hexOf d}]"
  | .cursor _ p => s!"c[{p}]"
  | .take i l => s!"take({l})/{showRd i}"
  | .buf i b => s!"buf({b.data.length},{b.begin})/{showRd i}"

def showErr : IoErr → String
  | .interrupted => "intr"
  | .unexpectedEof => "eof"
  | .writeZero => "wz"
  | .other k => s!"e{k}"

/-- session 3: `ss` ops -/
def parseSyncOp (s : String) : Option SyncOp :=
  if s = "F" then some .fill
  else if s.startsWith "R" then ((s.drop 1).toString.toNat?).map .read
  else if s.startsWith "U" then ((s.drop 1).toString.toNat?).map .read
  else if s.startsWith "B" then ((s.drop 1).toString.toNat?).map .lend
  else none

def showSyncEv (op : SyncOp) (ev : SyncEv) : String :=
  match ev with
  | .wouldBlock => (match op with | .lend _ => "b:wb" | _ => "r:wb")
  | .got bs => s!"r:{hexOf bs}"
  | .lent av c => s!"b:{hexOf av}/{c}"
  | .filled n => s!"f:{n}"
  | .fillErr e => s!"f:{showErr e}"
  | .oom => "f:e?OutOfMemory"
  | .panic => "panic"


def showRes {α} (f : α → String) : Res α → String
  | .ok a => f a
  | .err e => showErr e
  | .panic => "panic"
  | .ub => "ub"
  | .fuel => "fuel"

/-- after a panic the objects are gone: the line is just `panic` -/
def fin {α} (r : Res α) (s : String) : String :=
  match r with
  | .panic => "panic"
  | _ => s

def showStrRes : StrRes → String
  | .ok n => s!"ok:{n}"
  | .invalidData => "inv"
  | .err e => showErr e
  | .panic => "panic"
  | .ub => "ub"
  | .fuel => "fuel"

def showUnit : Unit → String := fun _ => "ok"
def showN : Nat → String := fun n => s!"ok:{n}"

/-- destination `<hex>+<extra>` -/
def parseDst (s : String) : Option VBuf :=
  match s.splitOn "+" with
  | [h, e] =>
    match parseHex h, e.toNat? with
    | some d, some e => some ⟨d, d.length + e⟩
    | _, _ => none
  | _ => none

def showDst (b : VBuf) : String := s!"{hexOf b.data} {b.cap}"

def parseMembers (s : String) : Option (List MBuf) :=
  allSome ((listOf ";" s).map fun m => (parseDst m).map fun b => MBuf.ofData b.data b.cap)

def showMembers (l : List MBuf) : String :=
  if l.isEmpty then "." else ";".intercalate (l.map fun m => s!"{hexOf m.data}+{m.cap - m.len}")

def parseViews (s : String) : Option (List Bytes) := allSome ((listOf ";" s).map parseHex)

/-- writer spec: optional `buf:<cap>/`, `half/`, base `s:<script>`, `v:<hex>`, `sm:<hex>`,
`cv:<hex>:<pos>`, `ca:<hex>:<pos>` -/
def parseWrBase (s : String) : Option BaseWr :=
  match s.splitOn ":" with
  | ["s", sc] => (parseScript sc).map fun sc => .script [] sc 0 0
  | ["v", d] => (parseHex d).map .vec
  | ["sm", d] => (parseHex d).map fun d => .sliceMut ⟨[], d⟩
  | ["cv", d, p] =>
    match parseHex d, p.toNat? with
    | some d, some p => some (.cursorVec d p)
    | _, _ => none
  | ["ca", d, p] =>
    match parseHex d, p.toNat? with
    | some d, some p => some (.cursorArr d p)
    | _, _ => none
  | _ => none

def parseWr (s : String) : Option Wr :=
  match (s.splitOn "/").reverse with
  | [] => none
  | base :: wrappers =>
    (parseWrBase base).bind fun b =>
      match wrappers.filter (· ≠ "half") with
      | [] => some (.base b)
      | [w] =>
        match w.splitOn ":" with
        | ["buf", c] => (c.toNat?).map fun c => .buf b (Buffer.withCapacity c)
        | _ => none
      | _ => none

def showBaseWr : BaseWr → String
  | .script got sc f s => s!"s[{hexOf got};{sc.length};f{f};s{s}]"
  | .vec v => s!"v[{hexOf v}]"
  | .sliceMut s => s!"sm[{hexOf (s.done ++ s.rest)};{s.rest.length}]"
  | .cursorVec v p => s!"cv[{hexOf v};{p}]"
  | .cursorArr a p => s!"ca[{hexOf a};{p}]"

def showWr : Wr → String
  | .base w => showBaseWr w
  | .buf w b => s!"buf({b.data.length},{b.begin})/{showBaseWr w}"

def parseAtDst (k : String) (h : String) : Option AtDst :=
  match k, parseHex h with
  | "v", some d => some (.vec d)
  | "a", some d => some (.arr d)
  | _, _ => none

def rdBudget : Rd → Nat
  | .script s sc => s.length + sc.length
  | .mem d => d.length
  | .cursor d _ => d.length
  | .take i _ => rdBudget i
  | .buf i b => rdBudget i + b.data.length

def wrBudget : Wr → Nat
  | .base (.script _ sc _ _) => sc.length
  | .buf (.script _ sc _ _) _ => sc.length
  | _ => 0

/-- generous loop bound: every iteration consumes a script entry or transfers a byte -/
def fuelFor (r : Option Rd) (w : Option Wr) (bytes : Nat) : Nat :=
  2 * ((r.map rdBudget).getD 0 + (w.map wrBudget).getD 0 + bytes) + 16

/-- `bseq` steps: `f` fill_buf, `c<n>` consume, `r<cap>` read into a fresh `Vec::with_capacity(cap)` -/
def bseqStep (r : Rd) (op : String) : Option (String × Rd × Bool) :=
  if op = "f" then
    match r.fillBufOp with
    | some (res, r') => some (s!"f={showRes hexOf res}", r', match res with | .panic => true | _ => false)
    | none => none
  else if op.startsWith "c" then
    match (op.drop 1).toString.toNat? with
    | some n =>
      match r.consumeOp n with
      | some (some r') => some ("c=ok", r', false)
      | some none => some ("c=panic", r, true)
      | none => none
    | none => none
  else if op.startsWith "r" then
    match (op.drop 1).toString.toNat? with
    | some cap =>
      let (res, r') := r.read cap
      some (s!"r={showRes hexOf res}", r', match res with | .panic => true | _ => false)
    | none => none
  else none

/-- run the steps; after a panic the object is gone: remaining steps print `-` -/
def bseqRun : Rd → List String → Bool → Option (List String × Option Rd)
  | r, [], dead => some ([], if dead then none else some r)
  | r, op :: rest, dead =>
    if dead then (bseqRun r rest true).map fun (o, r') => ("-" :: o, r')
    else
      match bseqStep r op with
      | some (s, r', d) => (bseqRun r' rest d).map fun (o, r'') => (s :: o, r'')
      | none => none

def isDead {α} : Res α → Bool
  | .panic => true
  | .ub => true
  | .fuel => true
  | _ => false

/-- `wseq` steps: `w<hex>` write, `v<hex>+<hex>..` write_vectored, `a<hex>` write_all,
`x<hex>+..` write_vectored_all, `f` flush, `s` shutdown -/
def wseqStep (w : Wr) (op : String) : Option (String × Wr × Bool) :=
  if op = "f" then
    let (res, w') := w.flush
    some (s!"f={showRes showUnit res}", w', isDead res)
  else if op = "s" then
    let (res, w') := w.shutdown
    some (s!"s={showRes showUnit res}", w', isDead res)
  else if op.startsWith "w" then
    (parseHex (op.drop 1).toString).map fun d =>
      let (res, w') := w.write d
      (s!"w={showRes showN res}", w', isDead res)
  else if op.startsWith "a" then
    (parseHex (op.drop 1).toString).map fun d =>
      let (res, w') := writeAll (fuelFor none (some w) d.length) w d
      (s!"a={showRes showUnit res}", w', isDead res)
  else if op.startsWith "v" then
    (allSome ((listOf "+" (op.drop 1).toString).map parseHex)).map fun bufs =>
      let (res, w') := w.writeVectored (vslice bufs 0)
      (s!"v={showRes showN res}", w', isDead res)
  else if op.startsWith "x" then
    (allSome ((listOf "+" (op.drop 1).toString).map parseHex)).map fun bufs =>
      let (res, w') := writeVectoredAll (fuelFor none (some w) (sumNat (bufs.map List.length))) w bufs
      (s!"x={showRes showUnit res}", w', isDead res)
  else none

def wseqRun : Wr → List String → Bool → Option (List String × Option Wr)
  | w, [], dead => some ([], if dead then none else some w)
  | w, op :: rest, dead =>
    if dead then (wseqRun w rest true).map fun (o, w') => ("-" :: o, w')
    else
      match wseqStep w op with
      | some (s, w', d) => (wseqRun w' rest d).map fun (o, w'') => (s :: o, w'')
      | none => none

def step (_ : Unit) (line : String) : Unit × String :=
  if line.startsWith "#case" then ((), line.trimAscii.toString) else
  let out :=
    match words line with
    | ["rx", r, d] =>
      match parseRd r, parseDst d with
      | some r, some d =>
        let (res, r', d') := readExact (fuelFor (some r) none d.cap) r d
        fin res (s!"{showRes showUnit res} {showDst d'} | {showRd r'}")
      | _, _ => "bad-op"
    | ["re", r, d] =>
      match parseRd r, parseDst d with
      | some r, some d =>
        let (res, r', d') := readToEnd (fuelFor (some r) none d.cap) r d
        fin res (s!"{showRes showN res} {showDst d'} | {showRd r'}")
      | _, _ => "bad-op"
    | ["rs", r, d] =>
      match parseRd r, parseDst d with
      | some r, some d =>
        let (res, r', d') := readToString (fuelFor (some r) none d.cap) r d
        if res = .panic then "panic" else s!"{showStrRes res} {showDst d'} | {showRd r'}"
      | _, _ => "bad-op"
    | ["rsat", src, pos, d] =>
      match parseHex src, pos.toNat?, parseDst d with
      | some src, some pos, some d =>
        let (res, d') := readToStringAt src d pos
        if res = .panic then "panic" else s!"{showStrRes res} {showDst d'}"
      | _, _, _ => "bad-op"
    | ["ap", r, d] =>
      match parseRd r, parseDst d with
      | some r, some d =>
        let (res, r', d') := append r d
        fin res (s!"{showRes showN res} {showDst d'} | {showRd r'}")
      | _, _ => "bad-op"
    | ["rd", r, d] =>
      match parseRd r, parseDst d with
      | some r, some d =>
        let (res, r', d') := readOnce r d
        fin res (s!"{showRes showN res} {showDst d'} | {showRd r'}")
      | _, _ => "bad-op"
    | ["rv", r, m] =>
      match parseRd r, parseMembers m with
      | some r, some m =>
        let (res, r', vs) := r.readVectored (VS.plain m)
        fin res (s!"{showRes showN res} {showMembers vs.bufs} | {showRd r'}")
      | _, _ => "bad-op"
    | ["rvx", r, m] =>
      match parseRd r, parseMembers m with
      | some r, some m =>
        let (res, r', m') := readVectoredExact (fuelFor (some r) none (sumNat (viewCaps m 0))) r m
        fin res (s!"{showRes showUnit res} {showMembers m'} | {showRd r'}")
      | _, _ => "bad-op"
    | ["bseq", r, ops] =>
      match parseRd r with
      | some r =>
        match bseqRun r (listOf "," ops) false with
        | some (outs, r') =>
          s!"{if outs.isEmpty then "." else " ".intercalate outs} | {(r'.map showRd).getD "dead"}"
        | none => "bad-op"
      | none => "bad-op"
    | ["wa", w, d] =>
      match parseWr w, parseHex d with
      | some w, some d =>
        let (res, w') := writeAll (fuelFor none (some w) d.length) w d
        fin res (s!"{showRes showUnit res} | {showWr w'}")
      | _, _ => "bad-op"
    | ["wva", w, m] =>
      match parseWr w, parseViews m with
      | some w, some m =>
        let (res, w') := writeVectoredAll (fuelFor none (some w) (sumNat (m.map List.length))) w m
        fin res (s!"{showRes showUnit res} | {showWr w'}")
      | _, _ => "bad-op"
    | ["wseq", w, ops] =>
      match parseWr w with
      | some w =>
        match wseqRun w (listOf "," ops) false with
        | some (outs, w') =>
          s!"{if outs.isEmpty then "." else " ".intercalate outs} | {(w'.map showWr).getD "dead"}"
        | none => "bad-op"
      | none => "bad-op"
    | ["cp", r, w, size] =>
      match parseRd r, parseWr w, size.toNat? with
      | some r, some w, some size =>
        let (res, r', w') := copy (fuelFor (some r) (some w) size) r w size
        fin res (s!"{showRes showN res} | {showRd r'} | {showWr w'}")
      | _, _, _ => "bad-op"
    | ["rat", src, pos, d] =>
      match parseHex src, pos.toNat?, parseDst d with
      | some src, some pos, some d =>
        let bs := readAt src pos d.cap
        s!"ok:{bs.length} {showDst (d.place 0 bs)}"
      | _, _, _ => "bad-op"
    | ["rvat", src, pos, m] =>
      match parseHex src, pos.toNat?, parseMembers m with
      | some src, some pos, some m =>
        let (res, vs) := readVectoredAt src pos (VS.plain m)
        fin res (s!"{showRes showN res} {showMembers vs.bufs}")
      | _, _, _ => "bad-op"
    | ["rxat", src, pos, d] =>
      match parseHex src, pos.toNat?, parseDst d with
      | some src, some pos, some d =>
        let (res, d') := readExactAt src d pos
        fin res (s!"{showRes showUnit res} {showDst d'}")
      | _, _, _ => "bad-op"
    | ["reat", src, pos, d] =>
      match parseHex src, pos.toNat?, parseDst d with
      | some src, some pos, some d =>
        let (res, d') := readToEndAt src d pos
        fin res (s!"{showRes showN res} {showDst d'}")
      | _, _, _ => "bad-op"
    | ["rvxat", src, pos, m] =>
      match parseHex src, pos.toNat?, parseMembers m with
      | some src, some pos, some m =>
        let (res, m') := readVectoredExactAt src m pos
        fin res (s!"{showRes showUnit res} {showMembers m'}")
      | _, _, _ => "bad-op"
    | ["wat", k, dst, pos, data] =>
      match parseAtDst k dst, pos.toNat?, parseHex data with
      | some d, some pos, some data =>
        let (res, d') := d.writeAt pos data
        fin res (s!"{showRes showN res} {hexOf d'.bytes}")
      | _, _, _ => "bad-op"
    | ["wvat", k, dst, pos, m] =>
      match parseAtDst k dst, pos.toNat?, parseViews m with
      | some d, some pos, some m =>
        let (res, d') := d.writeVectoredAt pos (vslice m 0)
        fin res (s!"{showRes showN res} {hexOf d'.bytes}")
      | _, _, _ => "bad-op"
    | ["waat", k, dst, pos, data] =>
      match parseAtDst k dst, pos.toNat?, parseHex data with
      | some d, some pos, some data =>
        let (res, d') := writeAllAt d pos data
        fin res (s!"{showRes showUnit res} {hexOf d'.bytes}")
      | _, _, _ => "bad-op"
    | ["wvaat", k, dst, pos, m] =>
      match parseAtDst k dst, pos.toNat?, parseViews m with
      | some d, some pos, some m =>
        let (res, d') := writeVectoredAllAt d pos m
        fin res (s!"{showRes showUnit res} {hexOf d'.bytes}")
      | _, _, _ => "bad-op"
    | ["ss", base, mx, payload, sc, ops] =>
      match base.toNat?, mx.toNat?, parseHex payload, parseScript sc, allSome ((listOf "," ops).map parseSyncOp) with
      | some base, some mx, some payload, some sc, some ops =>
        let st : SyncSt := ⟨SyncRd.new base mx, payload, sc, []⟩
        let (evs, st') := st.run ops
        let toks := (ops.zip evs).map (fun (o, e) => showSyncEv o e)
        s!"{" ".intercalate toks} | eof={if st'.rd.eof then 1 else 0} rest={hexOf st'.rd.buf.pending} left={st'.stream.length}"
      | _, _, _, _, _ => "bad-op"
    | _ => "bad-op"
  ((), out)

end C11

def main : IO Unit := Compio.stdinLoop C11.step ()
