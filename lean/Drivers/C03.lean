/- line-protocol driver for the C03 wake-up model (same operations as harness/rt/src/bin/c03.rs).
   The deterministic operations are interpreted with the very `rtStep` / `wStep` of Compio.Model.Wake: an API call of
   the harness = the runtime thread (or a waker thread) run through the corresponding stretch of its program. -/
import Compio.Model.Common
import Compio.Model.Wake

open Compio Compio.Wake

namespace C03

structure St where
  s : Option State
  nextW : Nat

def kvNat (tok key : String) : Option Nat :=
  match tok.splitOn "=" with
  | [k, v] => if k = key then v.toNat? else none
  | _ => none

def parseDrv : String → Option Drv
  | "iour" => some .iour
  | "poll" => some .poll
  | _ => none

def showList (l : List Nat) : String :=
  if l.isEmpty then "-" else ",".intercalate (l.map toString)

/-- run waker thread w until its call returns or the fuel is used up; the flag says whether it returned -/
def wRun (w : Nat) : Nat → State → State × Bool
  | 0, s => (s, (s.wk w).pc = .idle)
  | n + 1, s => if (s.wk w).pc = .idle then (s, true) else
    match wStep s w with
    | some s' => wRun w n s'
    | none => (s, false)

/-- a waker call from the harness: fresh thread id, run to completion -/
def wakeCall (st : St) (s : State) (k : Kind) : St × String :=
  let w := st.nextW
  match step s (.wStart w k) with
  | none => (st, "bad-op")
  | some s1 =>
    let (s2, done) := wRun w 64 s1
    ({ s := some s2, nextW := w + 1 }, if done then "ok" else "blocked")

def rtCall (st : St) (s : State) (stop : RtPc) (out : State → String) : St × String :=
  match rtUntil stop 4096 s with
  | some s' => ({ st with s := some s' }, out s')
  | none => (st, "model-stuck")

def newRt (st : St) (d q iv cap : String) : St × String :=
  match parseDrv d, kvNat q "q", kvNat iv "iv", kvNat cap "cap" with
  | some d, some q, some iv, some cap =>
    if q = 0 || cap = 0 then (st, "bad-op") else
    ({ s := some (init { drv := d, loop := .ext, q := q, maxInt := iv, nw := 100000, flushArms := true, rewake := true,
                         sqcap := cap }),
       nextW := 0 }, "ok")
  | _, _, _, _ => (st, "bad-op")

/-- k operations are submitted (`Driver::push`) from inside a poll -/
def pushN : Nat → State → Option State
  | 0, s => some s
  | n + 1, s => match rtStep { s with rt := .poll .main } .push with
    | some s' => pushN n s'
    | none => none

/-- `poll_with(Some(t))`, t > 0: run `Driver::poll` up to its wait; it returns at once iff `reset` said notified or
the kernel object is signalled, otherwise after the timeout. The state afterwards is the same in this (external
loop) configuration; only the verdict differs. -/
def pollTimed (st : St) (s : State) : St × String :=
  match rtUntil .wait 64 { s with rt := .reset } with
  | none => (st, "model-stuck")
  | some s1 =>
    let woken := !s1.needWait || signal s1
    rtCall st s1 .mainStart (fun _ => if woken then "poll=woken" else "poll=timeout")

/-- a blocking `poll_with(Some(t))` during which another thread invokes the driver waker: `Driver::poll` up to its
wait, then the wake, then the verdict and the rest of `poll` -/
def pollWoken (st : St) (s : State) : St × String :=
  match rtUntil .wait 64 { s with rt := .reset } with
  | none => (st, "model-stuck")
  | some s1 =>
    let (st2, r) := wakeCall st s1 .main
    match st2.s with
    | none => (st, "model-stuck")
    | some s2 =>
      if r != "ok" then (st, "model-stuck") else
      let woken := !s2.needWait || signal s2
      rtCall st2 s2 .mainStart (fun _ => if woken then "poll=woken" else "poll=timeout")

def step (st : St) (line : String) : St × String :=
  if line.startsWith "#case" then ({ s := none, nextW := 0 }, line.trimAscii.toString) else
  match words line, st.s with
  | ["new", d, q, iv, _tasks], _ => newRt st d q iv "cap=16"
  | ["new", d, q, iv, _tasks, cap], _ => newRt st d q iv cap
  | ["new", d, q, iv, _tasks, cap, _cq], _ => newRt st d q iv cap
  | "stress" :: _, _ => (st, "round ok")
  | ["cancelprobe", _], _ => (st, "probe done")
  | ["turn", _, _], _ => (st, "turn ok")
  -- public Runtime methods that are not polls: no effect on the wake-up state, except `inline` = one pushed operation
  | ["api", "inline"], some s =>
    match pushN 1 s with
    | some s' => ({ st with s := some s' }, "ok")
    | none => (st, "model-stuck")
  | ["api", _], some _ => (st, "ok")
  | ["wake"], some s => wakeCall st s .main
  | ["wakex"], some s => wakeCall st s .main
  | ["twake", t], some s =>
    match t.toNat? with
    | some t => wakeCall st s (.task t)
    | none => (st, "bad-op")
  | ["lwake", t], some s =>
    match t.toNat? with
    | some t => rtCall st (startLocal { s with rt := .poll .main } t .main) (.poll .main) (fun _ => "ok")
    | none => (st, "bad-op")
  | ["flush"], some s =>
    rtCall st { s with rt := .xarm, zero := false } .xwait (fun s' => if s'.zero then "flush=notified" else "flush=idle")
  | ["poll0"], some s => rtCall st { s with rt := .reset } .mainStart (fun _ => "ok")
  | ["pollt", _ms], some s => pollTimed st s
  | ["pollw", _ms], some s => pollWoken st s
  | ["pushz", k], some s =>
    match k.toNat? with
    | some k => match pushN k s with
      | some s' => ({ st with s := some s' }, "ok")
      | none => (st, "model-stuck")
    | none => (st, "bad-op")
  | ["push", k], some s =>
    match k.toNat? with
    | some k => match pushN k s with
      | some s' => ({ st with s := some s' }, "ok")
      | none => (st, "model-stuck")
    | none => (st, "bad-op")
  | ["fd"], some s => (st, if fdReadable s then "fd=readable" else "fd=not")
  | ["ring"], some s => (st, if ringReadable s then "ring=readable" else "ring=not")
  | ["clear"], some s => rtCall st { s with rt := .xclear } .reset (fun _ => "ok")
  | ["run"], some s =>
    let n := s.log.length
    rtCall st { s with rt := .drainCheck .tick } .xarm
      (fun s' => s!"polled {showList (s'.log.drop n)} hot={if s'.zero then 1 else 0}")
  | _, _ => (st, "bad-op")

end C03

def main : IO Unit := Compio.stdinLoop C03.step { s := none, nextW := 0 }
