/- line-protocol driver for the C14 models (same operations as harness/rt/src/bin/c14.rs) -/
import Compio.Model.SockMap
import Compio.Model.RecvMsgOut
import Compio.Model.MultiStream

open Compio Compio.Sock

namespace C14

/-! ## parsing -/

def parseShape (s : String) : Option Buf :=
  if s.startsWith "v" then
    match (s.drop 1).toString.splitOn ":" with
    | [c, h] =>
      match c.toNat?, parseHex h with
      | some cap, some pre => some (Buf.vecOf pre cap)
      | _, _ => none
    | _ => none
  else if s.startsWith "a" then
    ((s.drop 1).toString.toNat?).map fun n => Buf.arrOf (List.replicate n 0xee)
  else none

def allSome {α} : List (Option α) → Option (List α)
  | [] => some []
  | none :: _ => none
  | some a :: r => (allSome r).map (a :: ·)

def parseShapes (s : String) : Option (List Buf) := allSome ((s.splitOn ";").map parseShape)

def parseChunks (s : String) : Option (List Bytes) := allSome ((s.splitOn ",").map parseHex)

def showBufs (bs : List Buf) : String := ",".intercalate (bs.map fun b => hexOf b.vis)

def parseDrv (s : String) : Drv := if s = "uring" then .uring else .poll

def flagStr (flags : Nat) : String :=
  let t := flags % 64 ≥ 32
  let c := flags % 16 ≥ 8
  if t ∧ c then "tc" else if t then "t" else if c then "c" else "-"

/-- `AncillaryBuf::<N>::new()`: zeroed, nothing recorded -/
def ctlBufN (n : Nat) : Buf := ⟨.vec, List.replicate n 0, 0, n⟩
def ctlBuf : Buf := ctlBufN 64

/-- kernel contract for the one control message of the `tos` cases (`IP_TOS`, `cmsg_len = 17`,
`CMSG_SPACE = 24`) delivered into `cap` bytes of control room: (`msg_controllen`, `MSG_CTRUNC`) -/
def cmsgInto (tos : Bool) (cap : Nat) : Nat × Bool :=
  if ¬ tos then (0, false)
  else if cap < 16 then (0, true)
  else (min 24 cap, decide (cap < 17))

/-! ## lockstep state: what is in flight per direction (the kernel's part of the contract) -/

structure LState where
  tp : String := ""
  drv : Drv := .uring
  nbufs : Nat := 0
  buflen : Nat := 0
  q0 : Bytes := []     -- a → b
  q1 : Bytes := []     -- b → a
  shut0 : Bool := false
  shut1 : Bool := false

def pidx (p : String) : Nat := if p = "a" then 0 else 1

def LState.q (s : LState) (d : Nat) : Bytes := if d = 0 then s.q0 else s.q1
def LState.shut (s : LState) (d : Nat) : Bool := if d = 0 then s.shut0 else s.shut1
def LState.setQ (s : LState) (d : Nat) (q : Bytes) : LState := if d = 0 then { s with q0 := q } else { s with q1 := q }
def LState.setShut (s : LState) (d : Nat) : LState := if d = 0 then { s with shut0 := true } else { s with shut1 := true }

def showRes {α} (f : α → String) : Res α → String
  | .ok a => f a
  | .panic => "panic"
  | .ub => "ub"

/-- capacity of a managed receive: `len = 0` means the whole pool buffer -/
def managedCap (buflen len : Nat) : Nat := if len = 0 then buflen else min len buflen

/-- the pool buffer a managed receive completes with (before `advance_to`) -/
def managedBuf (drv : Drv) (buflen len : Nat) (w : Bytes) : Buf :=
  match drv with
  | .uring => (Buf.poolOf buflen).write w
  | .poll => ((Buf.poolOf buflen).setCapacity len buflen).write w

/-- script of one `recv_multi` drain of `q` (kernel contract): io_uring posts one `more` completion
per chunk of at most `cap` bytes, then (after shutdown) the terminal 0; the polling fallback is one
single-shot submission per chunk -/
def chunksOf (cap : Nat) : Nat → Bytes → List Bytes
  | 0, _ => []
  | fuel + 1, q => if q.isEmpty ∨ cap = 0 then [] else q.take cap :: chunksOf cap fuel (q.drop cap)

open Compio.MultiStream in
def multiSubs (drv : Drv) (cap : Nat) (q : Bytes) (shut : Bool) : List Sub :=
  let cs := chunksOf cap (q.length + 1) q
  match drv with
  | .uring =>
    [.op (cs.map (fun c => (⟨.ok c.length, true, some c⟩ : Cqe))
      ++ (if shut then [⟨.ok 0, false, none⟩] else []))]
  | .poll =>
    cs.map (fun c => Sub.op [⟨.ok c.length, false, some c⟩])
      ++ (if shut then [Sub.op [⟨.ok 0, false, some []⟩]] else [])

open Compio.MultiStream in
/-- pull tokens until `want` bytes were collected or the stream ended -/
def drainMulti : Nat → Stream → Nat → Bytes → Bytes × Bool
  | 0, _, _, acc => (acc, false)
  | fuel + 1, s, want, acc =>
    if acc.length ≥ want ∧ want > 0 then (acc, false)
    else
      match s.next with
      | (.item b, s') => drainMulti fuel s' want (acc ++ b)
      | (.end_, _) => (acc, true)
      | (.err _, s') => drainMulti fuel s' want acc
      | (_, _) => (acc, false)

/-- the consumer of `read_multi_with_ancillary` stops at the first item without data (end of stream for
this flavour) or when it has everything that was in flight -/
def collectAnc (want : Nat) : List (Option Bytes) → Bytes → Bytes × Bool
  | [], acc => (acc, false)
  | some b :: r, acc =>
    if b.isEmpty then (acc, true)
    else if (acc ++ b).length ≥ want ∧ want > 0 then (acc ++ b, false) else collectAnc want r (acc ++ b)
  | none :: _, acc => (acc, false)

def lockStep (s : LState) (w : List String) : LState × String :=
  match w with
  | ["open", tp, drv, nb, bl] =>
    ({ tp := tp, drv := parseDrv drv, nbufs := nb.toNat?.getD 0, buflen := bl.toNat?.getD 0 }, "ok")
  | ["split", _] => (s, "ok")
  | ["send", p, _, ch] =>
    match parseChunks ch with
    | some cs =>
      let flat := cs.flatten
      (s.setQ (pidx p) (s.q (pidx p) ++ flat), s!"sent {flat.length}")
    | none => (s, "bad-op")
  | ["shutdown", p] => (s.setShut (pidx p), "ok")
  -- whole stream, borrowed write half, owned write half: refinements of the one write side
  | ["shutdown", p, _] => (s.setShut (pidx p), "ok")
  | ["recv", p, kind, shapes] =>
    let d := 1 - pidx p
    if (s.q d).isEmpty ∧ ¬ s.shut d then (s, "idle") else
    match parseShapes shapes with
    | none => (s, "bad-op")
    | some bufs =>
      let (wr, rest) := kStream (s.q d) (totalCap bufs)
      let n := wr.length
      let s' := s.setQ d rest
      if kind = "plain" ∨ kind = "half" then
        match bufs with
        | [b] => (s', showRes (fun (r : Nat × Buf) => s!"n={r.1} {showBufs [r.2]}") (mapRecv n (b.write wr)))
        | _ => (s, "bad-op")
      else if kind = "vec" then
        (s', showRes (fun (r : Nat × List Buf) => s!"n={r.1} {showBufs r.2}") (mapRecvVectored n (scatter bufs wr)))
      else if kind = "msg" ∨ kind = "msgvec" then
        let c : Comp := ⟨n, 0, [], 0, 0⟩
        (s', showRes (fun (r : (Nat × Nat × Option Bytes × Nat) × (List Buf × Buf)) =>
            s!"n={r.1.1} {showBufs r.2.1} ctl={r.1.2.1}:{r.2.2.vis.length} flags={flagStr r.1.2.2.2}")
          (mapRecvMsg c (scatter bufs wr) ctlBuf))
      else (s, "bad-op")
  | ["recvm", p, len] =>
    let d := 1 - pidx p
    if (s.q d).isEmpty ∧ ¬ s.shut d then (s, "idle") else
    let len := len.toNat?.getD 0
    let (wr, rest) := kStream (s.q d) (managedCap s.buflen len)
    let out := match takeBuffer wr.length (some (managedBuf s.drv s.buflen len wr)) with
      | .none => "none"
      | .some b => s!"some {hexOf b.vis}"
      | .noBuffer => "err:UnexpectedEof"
      | .bad .panic => "panic"
      | .bad _ => "ub"
    (s.setQ d rest, out)
  | ["mrecv", p, len] =>
    let d := 1 - pidx p
    if (s.q d).isEmpty ∧ ¬ s.shut d then (s, "idle") else
    let len := len.toNat?.getD 0
    let q := s.q d
    let st := Compio.MultiStream.Stream.new .bytes (multiSubs s.drv (managedCap s.buflen len) q (s.shut d))
    let (got, ended) := drainMulti (2 * q.length + 8) st q.length []
    (s.setQ d (q.drop got.length), hexOf got ++ (if ended then " eof" else ""))
  | ["mrecva", p, clen] =>
    let d := 1 - pidx p
    if (s.q d).isEmpty ∧ ¬ s.shut d then (s, "idle") else
    let clen := clen.toNat?.getD 0
    let q := s.q d
    let cap := payloadCap s.drv s.buflen clen
    let cs := chunksOf cap (q.length + 1) q
    -- what the kernel puts into the provided buffer / what the fallback op shows
    let bufOf (c : Bytes) : Bytes := match s.drv with
      | .uring => Compio.RecvMsgOut.layout [] [] c 0 clen
      | .poll => c
    let mk (c : Bytes) (more : Bool) : Compio.MultiStream.Cqe :=
      ⟨.ok (match s.drv with | .uring => (bufOf c).length | .poll => c.length), more, some (bufOf c)⟩
    let subs : List Compio.MultiStream.Sub := match s.drv with
      | .uring => [.op (cs.map (fun c => mk c true) ++ (if s.shut d then [mk [] false] else []))]
      | .poll => cs.map (fun c => .op [mk c false]) ++ (if s.shut d then [.op [mk [] false]] else [])
    let toks := (Compio.MultiStream.Stream.take (cs.length + 1) (Compio.MultiStream.Stream.new .msg subs)).1
    let datas : List (Option Bytes) := toks.filterMap fun t => match t with
      | .item b => match s.drv with
        | .uring => (match Compio.RecvMsgOut.new b clen with
            | .ok pr => (match pr.data with | .ok x => some (some x) | _ => some none)
            | _ => some none)
        | .poll => some (some b)
      | _ => none
    if datas.any (·.isNone) then (s, "panic") else
    let (got, ended) := collectAnc q.length datas []
    (s.setQ d (q.drop got.length), hexOf got ++ (if ended then " eof" else ""))
  | _ => (s, "bad-op")


/-! ## lockstep datagram state -/

structure GState where
  named : Bool := true      -- udp (source addresses) vs unnamed unix datagram pair
  tos : Bool := false       -- IP_RECVTOS enabled: every datagram carries one 24-byte control message
  drv : Drv := .uring
  buflen : Nat := 0
  d0 : List Bytes := []     -- datagrams sent by a, not yet received by b
  d1 : List Bytes := []

def GState.q (s : GState) (d : Nat) : List Bytes := if d = 0 then s.d0 else s.d1
def GState.setQ (s : GState) (d : Nat) (q : List Bytes) : GState := if d = 0 then { s with d0 := q } else { s with d1 := q }

/-- completion of one datagram receive (kernel contract): source label, control length, flags -/
def GState.comp (s : GState) (sender : Nat) (n : Nat) (trunc : Bool) (ctlCap : Nat := 64) : Comp :=
  { n := n, nameLen := if s.named then 1 else 0,
    name := (if sender = 0 then "a" else "b").toUTF8.toList,
    ctlLen := (cmsgInto s.tos ctlCap).1,
    flags := (if trunc then 0x20 else 0) + (if (cmsgInto s.tos ctlCap).2 then 8 else 0) }

def showFrom (a : Option Bytes) : String :=
  match a with
  | none => "-"
  | some bs => String.ofList (bs.map fun b => Char.ofNat b.toNat)

def msgTail (ctlLen visLen flags : Nat) : String :=
  s!" ctl={ctlLen}:{visLen} flags={flagStr flags}"

open Compio.MultiStream in
/-- the items of one multishot datagram drain, through the stream adapter and (io_uring) the
`io_uring_recvmsg_out` parser -/
def dmultiItems (s : GState) (sender : Nat) (kind : String) (clen : Nat) (ds : List Bytes) : List String :=
  let fl : Fl := if kind = "multi" then .bytes else .msg
  let cap := if kind = "multi" then s.buflen else payloadCap s.drv s.buflen clen
  -- what the kernel puts into the buffer for datagram `d`
  -- room for control data: io_uring registers `clen`; the fallback's `with_capacity(0)` keeps the whole buffer
  let ctlCap := match s.drv with
    | .uring => clen
    | .poll => if clen = 0 then s.buflen else min clen s.buflen
  let compOf (n : Nat) (tr : Bool) : Comp := s.comp sender n tr ctlCap
  let bufOf (d : Bytes) : Bytes × Nat :=
    let (w, tr) := kDgram d cap
    let c := compOf w.length tr
    if kind = "multi" then (w, w.length)
    else match s.drv with
      | .uring =>
        let name := if c.nameLen = 0 then [] else c.name.take c.nameLen
        let b := Compio.RecvMsgOut.layout name (List.replicate c.ctlLen 0) w c.flags clen
        (b, b.length)
      | .poll =>
        -- the fallback op records the result in `set_result` and advances to it in `take_buffer`
        match ((FallbackMulti.mk ((Buf.poolOf s.buflen).write w) 0).setResult w.length).takeBuffer with
        | .ok b => (b.vis, w.length)
        | _ => ([], w.length)
  let subs : List Sub := match s.drv with
    | .uring => [.op (ds.map fun d => (⟨.ok (bufOf d).2, true, some (bufOf d).1⟩ : Cqe))]
    | .poll => ds.map fun d => Sub.op [⟨.ok (bufOf d).2, false, some (bufOf d).1⟩]
  let toks := (Stream.take (2 * ds.length + 2) (Stream.new fl subs)).1
  -- `recv_multi` reports an empty datagram as the end of the stream (the caller starts over)
  let items := toks.filterMap fun t => match t with
    | .item b => some b
    | .end_ => if kind = "multi" then some [] else none
    | _ => none
  (items.zip ds).map fun (b, d) =>
    let (_, tr) := kDgram d cap
    let c := compOf 0 tr
    if kind = "multi" then hexOf b
    else match s.drv with
      | .uring =>
        match Compio.RecvMsgOut.new b clen with
        | .ok p =>
          let data := match p.data with | .ok x => hexOf x | _ => "panic"
          let addr := match p.addr with | .ok a => showFrom a | .panic => "panic" | .ub => "ub"
          let anc := match p.ancillary with | .ok a => toString a.length | _ => "panic"
          if kind = "frommulti" then s!"{data}/{addr}"
          else s!"{data}/{addr}/{flagStr p.flags}/ctl={anc}"
        | _ => "panic"
      | .poll =>
        if kind = "frommulti" then s!"{hexOf b}/{showFrom (intoAddr c)}"
        else s!"{hexOf b}/{showFrom (intoAddr c)}/{flagStr c.flags}/ctl={c.ctlLen}"

def dgramStep (s : GState) (w : List String) : GState × String :=
  match w with
  | "open" :: tp :: drv :: _ :: bl :: rest =>
    ({ named := tp = "udp", tos := rest = ["tos"], drv := parseDrv drv, buflen := bl.toNat?.getD 0 }, "ok")
  | ["dsend", p, _, ch] =>
    match parseChunks ch with
    | some cs => (s.setQ (pidx p) (s.q (pidx p) ++ [cs.flatten]), s!"sent {cs.flatten.length}")
    | none => (s, "bad-op")
  | [op, p, kind, arg] =>
    let d := 1 - pidx p
    match s.q d with
    | [] => (s, "idle")
    | dg :: rest =>
      if op = "drecv" then
        let (kind, ctlCap) : String × Nat := match kind.splitOn ":" with
          | [k, c] => (k, c.toNat?.getD 64)
          | _ => (kind, 64)
        match parseShapes arg with
        | none => (s, "bad-op")
        | some bufs =>
          let cap := totalCap bufs
          let (wr, tr) := kDgram dg cap
          let s' := s.setQ d rest
          let rop : ROp := if kind = "plain" then .recv else if kind = "vec" then .recvVectored
            else if kind = "from" then .recvFrom else if kind = "fromvec" then .recvFromVectored else .recvMsg
          let c := s.comp d (compLen rop s.drv wr.length cap) tr ctlCap
          if kind = "plain" then
            match bufs with
            | [b] => (s', showRes (fun (r : Nat × Buf) => s!"n={r.1} {showBufs [r.2]}") (mapRecv c.n (b.write wr)))
            | _ => (s, "bad-op")
          else if kind = "vec" then
            (s', showRes (fun (r : Nat × List Buf) => s!"n={r.1} {showBufs r.2}") (mapRecvVectored c.n (scatter bufs wr)))
          else if kind = "from" then
            match bufs with
            | [b] => (s', showRes (fun (r : (Nat × Option Bytes) × Buf) => s!"n={r.1.1} {showBufs [r.2]} from={showFrom r.1.2}")
                (mapRecvFrom c (b.write wr)))
            | _ => (s, "bad-op")
          else if kind = "fromvec" then
            (s', showRes (fun (r : (Nat × Option Bytes) × List Buf) => s!"n={r.1.1} {showBufs r.2} from={showFrom r.1.2}")
              (mapRecvFromVectored c (scatter bufs wr)))
          else
            (s', showRes (fun (r : (Nat × Nat × Option Bytes × Nat) × (List Buf × Buf)) =>
                s!"n={r.1.1} {showBufs r.2.1} from={showFrom r.1.2.2.1}" ++ msgTail r.1.2.1 r.2.2.vis.length r.1.2.2.2)
              (mapRecvMsg c (scatter bufs wr) (ctlBufN ctlCap)))
      else if op = "drecvm" then
        let len := arg.toNat?.getD 0
        let cap := managedCap s.buflen len
        let (wr, tr) := kDgram dg cap
        let c := s.comp d wr.length tr
        let buf := some (managedBuf s.drv s.buflen len wr)
        let s' := s.setQ d rest
        let bad (r : Res Unit) : String := match r with | .panic => "panic" | _ => "ub"
        if kind = "managed" then
          (s', match takeBuffer c.n buf with
            | .none => "none" | .some b => s!"some {hexOf b.vis}" | .noBuffer => "err:UnexpectedEof" | .bad r => bad r)
        else if kind = "frommanaged" then
          (s', match takeBufferFrom c buf with
            | .none => "none" | .some (b, a) => s!"some {hexOf b.vis} from={showFrom a}"
            | .noBuffer => "err:UnexpectedEof" | .bad r => bad r)
        else
          (s', match takeBufferMsg c buf ctlBuf with
            | .none => "none"
            | .some (b, ctl, a, f) => s!"some {hexOf b.vis} from={showFrom a} ctl={ctl.vis.length} flags={flagStr f}"
            | .noBuffer => "err:UnexpectedEof" | .bad r => bad r)
      else if op = "dmulti" then
        let clen := arg.toNat?.getD 0
        (s.setQ d [], ";".intercalate (dmultiItems s d kind clen (dg :: rest)))
      else (s, "bad-op")
  | _ => (s, "bad-op")


/-! ## concurrent stream cases: the receiver's stream is the concatenation of the sender's submissions -/

def genByte (seed d i : Nat) : UInt8 := UInt8.ofNat ((i * 31 + (i / 256) * 7 + seed + d * 101) % 256)

/-- FNV-1a over the `n` generated bytes from stream offset `i` on -/
def fnvGen (seed d : Nat) : Nat → Nat → UInt64 → UInt64
  | 0, _, h => h
  | n + 1, i, h => fnvGen seed d n (i + 1) ((h ^^^ (genByte seed d i).toUInt64) * 0x100000001b3)

def hex16 (v : UInt64) : String :=
  String.ofList ((List.range 16).map fun k => hexDigit ((v.toNat / 16 ^ (15 - k)) % 16))

/-- sizes of the chunks of a `kind:n+n,kind:n` specification, in submission order -/
def specSizes (s : String) : List Nat :=
  if s = "-" then [] else
  (s.splitOn ",").flatMap fun it =>
    match it.splitOn ":" with
    | [_, ns] => (ns.splitOn "+").map fun n => n.toNat?.getD 0
    | _ => []

/-- what the peer receives: every chunk appended to the stream in order, then end of stream -/
def concDir (name : String) (seed d : Nat) (sizes : List Nat) : String :=
  let (len, h) := sizes.foldl (fun (acc : Nat × UInt64) n => (acc.1 + n, fnvGen seed d n acc.1 acc.2)) (0, 0xcbf29ce484222325)
  s!"{name} {len} {hex16 h} eof"

def concLine (w : List String) : String :=
  match w with
  | "conc" :: _ :: _ :: _ :: _ :: seed :: _ :: rest =>
    let seed := seed.toNat?.getD 0
    let get (k : String) : String := ((rest.find? (·.startsWith k)).map fun x => (x.drop k.length).toString).getD "-"
    concDir "a>b" seed 0 (specSizes (get "SA=")) ++ " | " ++ concDir "b>a" seed 1 (specSizes (get "SB="))
  | _ => "bad-op"


/-! ## accept / incoming -/

def nextPow2' (n : Nat) : Nat := if n ≤ 1 then 1 else if n ≤ 2 then 2 else if n ≤ 4 then 4 else if n ≤ 8 then 8 else 16

/-- cut a list into pieces of `k` -/
def piecesOf {α} (k : Nat) : Nat → List α → List (List α)
  | 0, _ => []
  | fuel + 1, l => if l.isEmpty ∨ k = 0 then [] else l.take k :: piecesOf k fuel (l.drop k)

open Compio.MultiStream in
/-- `accept … burst n cap`: the first connection (tag 255) arms the accept, then `n` connections arrive
while nobody reaps completions.  io_uring: when the completion queue (2 × capacity entries) is full the
kernel ends the multishot accept with a final *successful* completion (descriptor, no `F_MORE`) and
compio re-submits; how many connections each submission takes is the kernel's business — the result
does not depend on it (`incoming_exactly_once_or_closed` is stated for every script). -/
def acceptBurst (drv : String) (n cap : Nat) : String :=
  let all := 255 :: List.range n
  let q := 2 * nextPow2' cap
  let subs : List (List ACqe) :=
    if drv = "uring" then
      (piecesOf q (all.length + 1) all).map fun piece =>
        if piece.length = q then
          (piece.dropLast.map fun i => (⟨.fd i, true⟩ : ACqe)) ++ (piece.getLast?.toList.map fun i => ⟨.fd i, false⟩)
        else piece.map fun i => ⟨.fd i, true⟩
    else all.map fun i => [⟨.fd i, false⟩]
  let s := (Inc.take all.length (Inc.new subs)).2.drop
  let ids := (s.yielded.filter (· != 255)).mergeSort (· ≤ ·)
  s!"ids={",".intercalate (ids.map toString)} closed={s.closed.length}"

open Compio.MultiStream in
def acceptLine (w : List String) : String :=
  match w with
  | ["accept", _, drv, "burst", n, cap] => acceptBurst drv (n.toNat?.getD 0) (cap.toNat?.getD 1)
  | ["accept", _, drv, mode, k, extra] =>
    let k := k.toNat?.getD 0
    let extra := extra.toNat?.getD 0
    let all := List.range (k + extra)
    -- io_uring multishot accept: one submission takes every queued connection; otherwise one
    -- single-shot accept per connection
    let subs : List (List ACqe) :=
      if drv = "uring" ∧ mode = "incoming" then [all.map fun i => ⟨.fd i, true⟩]
      else all.map fun i => [⟨.fd i, false⟩]
    let s := (Inc.take k (Inc.new subs)).2.drop
    s!"ids={",".intercalate (s.yielded.map toString)} closed={s.closed.length}"
  | _ => "bad-op"

/-! ## `io_uring_recvmsg_out` parser on crafted buffers -/

open Compio.RecvMsgOut in
def rmoLine (w : List String) : String :=
  match w with
  | ["rmopen", _] => "ok"
  | ["rmo", clen, h] =>
    match clen.toNat?, parseHex h with
    | some clen, some buf =>
      match RecvMsgOut.new buf clen with
      | .ok p =>
        let data := match p.data with | .ok d => hexOf d | _ => "panic"
        let anc := match p.ancillary with | .ok a => hexOf a | _ => "panic"
        let addr := match p.addr with
          | .ok none => "-" | .ok (some a) => hexOf a | .panic => "panic" | .ub => "ub"
        s!"data={data} anc={anc} addr={addr} flags={p.flags}"
      | _ => "new=panic"
    | _, _ => "bad-op"
  | _ => "bad-op"

/-! ## the stream adapter under kernel events: a small simulation of what the kernel posts -/

section Ms
open Compio.MultiStream

structure KS where
  drv : Drv
  chunk : Nat          -- bytes per completion: min(len or buffer size, buffer size)
  free : Nat           -- pool buffers not in use
  sockq : Bytes        -- bytes queued in the socket
  eof : Bool
  armed : Bool         -- an operation is in flight
  held : Nat
  hold : Bool

/-- what the kernel posts for the operation in flight (assumed kernel behaviour):
io_uring multishot recv fills one provided buffer per completion while data is queued, ends with
`-ENOBUFS` when the ring is empty and with 0 at end of stream; the polling fallback completes once -/
def kernelRun : Nat → KS → KS × List Cqe
  | 0, ks => (ks, [])
  | fuel + 1, ks =>
    if ¬ ks.armed then (ks, [])
    else if ¬ ks.sockq.isEmpty then
      let c := ks.sockq.take ks.chunk
      match ks.drv with
      | .uring =>
        if ks.free > 0 then
          let (ks', r) := kernelRun fuel { ks with free := ks.free - 1, sockq := ks.sockq.drop ks.chunk }
          (ks', ⟨.ok c.length, true, some c⟩ :: r)
        else ({ ks with armed := false }, [⟨.err .busy, false, none⟩])
      | .poll => ({ ks with armed := false, sockq := ks.sockq.drop ks.chunk }, [⟨.ok c.length, false, some c⟩])
    else if ks.eof then
      match ks.drv with
      -- a buffer is selected before the receive is attempted, also for the final 0-byte result
      | .uring =>
        if ks.free > 0 then ({ ks with armed := false }, [⟨.ok 0, false, none⟩])
        else ({ ks with armed := false }, [⟨.err .busy, false, none⟩])
      | .poll => ({ ks with armed := false }, [⟨.ok 0, false, some []⟩])
    else (ks, [])

def feed (s : Stream) (cq : List Cqe) : Stream :=
  match s.op with
  | some ⟨some rest⟩ => { s with op := some ⟨some (rest ++ cq)⟩ }
  | _ => s

def tokStr : Tok → String
  | .pending => "pending"
  | .item b => "item:" ++ hexOf b
  | .err .busy => "err:busy"
  | .err .cancelled => "err:cancelled"
  | .err (.factory _) => "err:busy"
  | .err (.os k) => s!"err:os{k}"
  | .err .noBufId => "err:nobuf"
  | .end_ => "end"
  | .fuel => "fuel"

def msNext (ks : KS) (s : Stream) : KS × Stream × Tok :=
  let idle := s.op = none ∨ s.op = some ⟨none⟩
  let fuel := ks.sockq.length + 4
  -- what a new submission would see
  let (ksSub, sub) : KS × Sub :=
    match ks.drv with
    | .uring =>
      let (k', cq) := kernelRun fuel { ks with armed := true }
      (k', .op cq)
    | .poll =>
      if ks.free = 0 then (ks, .fail 0)
      else
        let (k', cq) := kernelRun fuel { ks with armed := true, free := ks.free - 1 }
        (k', .op cq)
  let s1 := if idle then { s with subs := [sub] } else s
  let liveBefore := match s1.op with | some ⟨some (_ :: _)⟩ => true | _ => false
  let (tok, s2) := s1.next
  let submitted := decide (s2.nsub > s1.nsub)
  let ks1 := if submitted then ksSub else ks
  let consumed := tok != .pending && (liveBefore || submitted)
  let ks2 := match tok with
    | .item _ => if ks1.hold then { ks1 with held := ks1.held + 1 } else { ks1 with free := ks1.free + 1 }
    | .pending => ks1
    | _ => if ks1.drv = .poll ∧ consumed then { ks1 with free := ks1.free + 1 } else ks1
  (ks2, s2, tok)

def msEvents : List String → KS → Stream → List String → List String
  | [], _, _, acc => acc.reverse
  | ev :: rest, ks, s, acc =>
    if ev.startsWith "d" then
      let ks1 := { ks with sockq := ks.sockq ++ (parseHex (ev.drop 1).toString).getD [] }
      let (ks2, cq) := kernelRun (ks1.sockq.length + 4) ks1
      msEvents rest ks2 (feed s cq) acc
    else if ev = "s" then
      let (ks2, cq) := kernelRun (ks.sockq.length + 4) { ks with eof := true }
      msEvents rest ks2 (feed s cq) acc
    else if ev = "c" then
      if ks.armed then
        msEvents rest { ks with armed := false } (feed s.cancel [⟨.err .cancelled, false, none⟩]) acc
      else msEvents rest ks s.cancel acc
    else if ev = "z" then
      -- poll to the end of the stream, then read what is left in the socket
      let rec drain : Nat → KS → Stream → List String → KS × Stream × List String
        | 0, ks, s, acc => (ks, s, acc)
        | n + 1, ks, s, acc =>
          let (ks2, s2, tok) := msNext ks s
          if tok = .end_ ∨ tok = .pending then (ks2, s2, tokStr tok :: acc) else drain n ks2 s2 (tokStr tok :: acc)
      let (ks2, s2, acc2) := drain 64 ks s acc
      msEvents rest { ks2 with sockq := [] } s2 (("rest:" ++ hexOf ks2.sockq) :: acc2)
    else if ev = "h" then msEvents rest { ks with hold := true } s acc
    else if ev = "r" then msEvents rest { ks with hold := false, free := ks.free + ks.held, held := 0 } s acc
    else
      let (ks2, s2, tok) := msNext ks s
      msEvents rest ks2 s2 (tokStr tok :: acc)

/-- `num_of_bufs.next_power_of_two()` -/
def nextPow2 (n : Nat) : Nat := if n ≤ 1 then 1 else if n ≤ 2 then 2 else if n ≤ 4 then 4 else if n ≤ 8 then 8 else 16

def msLine (w : List String) : String :=
  match w with
  | ["ms", _, drv, nb, bl, len, evs] =>
    let buflen := bl.toNat?.getD 0
    let ks : KS := { drv := parseDrv drv, chunk := managedCap buflen (len.toNat?.getD 0),
                     free := nextPow2 (nb.toNat?.getD 1), sockq := [], eof := false, armed := false, held := 0, hold := false }
    " ".intercalate (msEvents (evs.splitOn ",") ks (Stream.new .bytes []) [])
  | _ => "bad-op"

end Ms

/-- `dpre p rkind shapes skind chunks`: the receive is submitted before the datagram is sent; the result
is that of sending and then receiving -/
def dgramStep' (s : GState) (w : List String) : GState × String :=
  match w with
  | ["dpre", p, rkind, shapes, skind, ch] =>
    let other := if p = "a" then "b" else "a"
    let (s1, o1) := dgramStep s ["dsend", other, skind, ch]
    let (s2, o2) := dgramStep s1 ["drecv", p, rkind, shapes]
    (s2, o1 ++ " | " ++ o2)
  | _ => dgramStep s w

/-! ## dispatch -/

structure DState where
  fam : String := ""
  lock : LState := {}
  dg : GState := {}

def step (st : DState) (line : String) : DState × String :=
  if line.startsWith "#case" then ({}, line.trimAscii.toString) else
  let w := words line
  match w with
  | "conc" :: _ => ({ fam := "conc" }, concLine w)
  | "accept" :: _ => ({ fam := "accept" }, acceptLine w)
  | "rmopen" :: _ => ({ fam := "rmo" }, rmoLine w)
  | "rmo" :: _ => (st, rmoLine w)
  | "ms" :: _ => ({ fam := "ms" }, msLine w)
  | "open" :: tp :: _ =>
    if tp = "udp" ∨ tp = "udg" then
      let (g, o) := dgramStep {} w
      ({ fam := "dgram", dg := g }, o)
    else
      let (l, o) := lockStep {} w
      ({ fam := "open", lock := l }, o)
  | _ =>
    if st.fam = "open" then
      let (l, o) := lockStep st.lock w
      ({ st with lock := l }, o)
    else if st.fam = "dgram" then
      let (g, o) := dgramStep' st.dg w
      ({ st with dg := g }, o)
    else (st, "bad-op")

end C14

def main : IO Unit := Compio.stdinLoop C14.step {}
