/- line-protocol driver for the C14 models (same operations as harness/rt/src/bin/c14.rs) -/
import Compio.Model.SockMap
import Compio.Model.RecvMsgOut
import Compio.Model.MultiStream

open Compio Compio.Sock

namespace C14

/-! ## parsing -/

def parseShape (s : String) : Option Buf :=
  if s.startsWith "v" then
    match (s.drop 1).toString.splitOn ":" with
    | [c, h] =>
      match c.toNat?, parseHex h with
      | some cap, some pre => some (Buf.vecOf pre cap)
      | _, _ => none
    | _ => none
  else if s.startsWith "a" then
    ((s.drop 1).toString.toNat?).map fun n => Buf.arrOf (List.replicate n 0xee)
  else none

def allSome {α} : List (Option α) → Option (List α)
  | [] => some []
  | none :: _ => none
  | some a :: r => (allSome r).map (a :: ·)

def parseShapes (s : String) : Option (List Buf) := allSome ((s.splitOn ";").map parseShape)

def parseChunks (s : String) : Option (List Bytes) := allSome ((s.splitOn ",").map parseHex)

def showBufs (bs : List Buf) : String := ",".intercalate (bs.map fun b => hexOf b.vis)

def parseDrv (s : String) : Drv := if s = "uring" then .uring else .poll

def flagStr (trunc : Bool) : String := if trunc then "t" else "-"

/-- `AncillaryBuf::<64>::new()`: zeroed, nothing recorded -/
def ctlBuf : Buf := ⟨.vec, List.replicate 64 0, 0, 64⟩

/-! ## lockstep state: what is in flight per direction (the kernel's part of the contract) -/

structure LState where
  tp : String := ""
  drv : Drv := .uring
  nbufs : Nat := 0
  buflen : Nat := 0
  q0 : Bytes := []     -- a → b
  q1 : Bytes := []     -- b → a
  shut0 : Bool := false
  shut1 : Bool := false

def pidx (p : String) : Nat := if p = "a" then 0 else 1

def LState.q (s : LState) (d : Nat) : Bytes := if d = 0 then s.q0 else s.q1
def LState.shut (s : LState) (d : Nat) : Bool := if d = 0 then s.shut0 else s.shut1
def LState.setQ (s : LState) (d : Nat) (q : Bytes) : LState := if d = 0 then { s with q0 := q } else { s with q1 := q }
def LState.setShut (s : LState) (d : Nat) : LState := if d = 0 then { s with shut0 := true } else { s with shut1 := true }

def showRes {α} (f : α → String) : Res α → String
  | .ok a => f a
  | .panic => "panic"
  | .ub => "ub"

/-- capacity of a managed receive: `len = 0` means the whole pool buffer -/
def managedCap (buflen len : Nat) : Nat := if len = 0 then buflen else min len buflen

/-- the pool buffer a managed receive completes with (before `advance_to`) -/
def managedBuf (drv : Drv) (buflen len : Nat) (w : Bytes) : Buf :=
  match drv with
  | .uring => (Buf.poolOf buflen).write w
  | .poll => ((Buf.poolOf buflen).setCapacity len buflen).write w

/-- script of one `recv_multi` drain of `q` (kernel contract): io_uring posts one `more` completion
per chunk of at most `cap` bytes, then (after shutdown) the terminal 0; the polling fallback is one
single-shot submission per chunk -/
def chunksOf (cap : Nat) : Nat → Bytes → List Bytes
  | 0, _ => []
  | fuel + 1, q => if q.isEmpty ∨ cap = 0 then [] else q.take cap :: chunksOf cap fuel (q.drop cap)

open Compio.MultiStream in
def multiSubs (drv : Drv) (cap : Nat) (q : Bytes) (shut : Bool) : List Sub :=
  let cs := chunksOf cap (q.length + 1) q
  match drv with
  | .uring =>
    [.op (cs.map (fun c => (⟨.ok c.length, true, some c⟩ : Cqe))
      ++ (if shut then [⟨.ok 0, false, none⟩] else []))]
  | .poll =>
    cs.map (fun c => Sub.op [⟨.ok c.length, false, some c⟩])
      ++ (if shut then [Sub.op [⟨.ok 0, false, some []⟩]] else [])

/-- pull tokens until `want` bytes were collected or the stream ended -/
open Compio.MultiStream in
def drainMulti : Nat → Stream → Nat → Bytes → Bytes × Bool
  | 0, _, _, acc => (acc, false)
  | fuel + 1, s, want, acc =>
    if acc.length ≥ want ∧ want > 0 then (acc, false)
    else
      match s.next with
      | (.item b, s') => drainMulti fuel s' want (acc ++ b)
      | (.end_, _) => (acc, true)
      | (.err _, s') => drainMulti fuel s' want acc
      | (_, _) => (acc, false)

def lockStep (s : LState) (w : List String) : LState × String :=
  match w with
  | ["open", tp, drv, nb, bl] =>
    ({ tp := tp, drv := parseDrv drv, nbufs := nb.toNat?.getD 0, buflen := bl.toNat?.getD 0 }, "ok")
  | ["split", _] => (s, "ok")
  | ["send", p, _, ch] =>
    match parseChunks ch with
    | some cs =>
      let flat := cs.flatten
      (s.setQ (pidx p) (s.q (pidx p) ++ flat), s!"sent {flat.length}")
    | none => (s, "bad-op")
  | ["shutdown", p] => (s.setShut (pidx p), "ok")
  | ["recv", p, kind, shapes] =>
    let d := 1 - pidx p
    if (s.q d).isEmpty ∧ ¬ s.shut d then (s, "idle") else
    match parseShapes shapes with
    | none => (s, "bad-op")
    | some bufs =>
      let (wr, rest) := kStream (s.q d) (totalCap bufs)
      let n := wr.length
      let s' := s.setQ d rest
      if kind = "plain" ∨ kind = "half" then
        match bufs with
        | [b] => (s', showRes (fun (r : Nat × Buf) => s!"n={r.1} {showBufs [r.2]}") (mapRecv n (b.write wr)))
        | _ => (s, "bad-op")
      else if kind = "vec" then
        (s', showRes (fun (r : Nat × List Buf) => s!"n={r.1} {showBufs r.2}") (mapRecvVectored n (scatter bufs wr)))
      else if kind = "msg" ∨ kind = "msgvec" then
        let c : Comp := ⟨n, 0, [], 0, 0⟩
        (s', showRes (fun (r : (Nat × Nat × Option Bytes × Nat) × (List Buf × Buf)) =>
            s!"n={r.1.1} {showBufs r.2.1} ctl={r.1.2.1}:{r.2.2.vis.length} flags={flagStr (r.1.2.2.2 != 0)}")
          (mapRecvMsg c (scatter bufs wr) ctlBuf))
      else (s, "bad-op")
  | ["recvm", p, len] =>
    let d := 1 - pidx p
    if (s.q d).isEmpty ∧ ¬ s.shut d then (s, "idle") else
    let len := len.toNat?.getD 0
    let (wr, rest) := kStream (s.q d) (managedCap s.buflen len)
    let out := match takeBuffer wr.length (some (managedBuf s.drv s.buflen len wr)) with
      | .none => "none"
      | .some b => s!"some {hexOf b.vis}"
      | .noBuffer => "err:UnexpectedEof"
      | .bad .panic => "panic"
      | .bad _ => "ub"
    (s.setQ d rest, out)
  | ["mrecv", p, len] =>
    let d := 1 - pidx p
    if (s.q d).isEmpty ∧ ¬ s.shut d then (s, "idle") else
    let len := len.toNat?.getD 0
    let q := s.q d
    let st := Compio.MultiStream.Stream.new .bytes (multiSubs s.drv (managedCap s.buflen len) q (s.shut d))
    let (got, ended) := drainMulti (2 * q.length + 8) st q.length []
    (s.setQ d (q.drop got.length), hexOf got ++ (if ended then " eof" else ""))
  | _ => (s, "bad-op")

/-! ## dispatch -/

structure DState where
  fam : String := ""
  lock : LState := {}

def step (st : DState) (line : String) : DState × String :=
  if line.startsWith "#case" then ({}, line.trimAscii.toString) else
  let w := words line
  match w with
  | "open" :: _ =>
    let (l, o) := lockStep {} w
    ({ fam := "open", lock := l }, o)
  | _ =>
    if st.fam = "open" then
      let (l, o) := lockStep st.lock w
      ({ st with lock := l }, o)
    else (st, "bad-op")

end C14

def main : IO Unit := Compio.stdinLoop C14.step {}
