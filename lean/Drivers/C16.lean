/- line-protocol driver for the C16 model (same operations as harness/apps/src/bin/c16.rs)

`T …` lines: the payload named by the line is pushed through the modelled write loop of the line's API
(`writeAll` / `writeAllChunks`, quinn-proto's answers drawn from a pseudo-random schedule) and the accepted bytes
through the modelled read loop (`Reader.run`, pseudo-random segmentation); the line printed is what the READER got.
By `Props/C16` the result does not depend on the schedules.

`C …` lines: two `World`s (client, server) plus one per extra connection attempt; `pend` = `World.step (.poll …)`,
`act` = the `quinn_proto::Event` the action produces at the peer (table below) followed by the re-polls of the woken
tasks, `close` = `.close` / `.endpointClose` here and `ConnectionLost(ApplicationClosed)` at the peer. -/
import Compio.Model.QuicWakers
import Compio.Model.QuicEndpoint

open Compio Compio.QuicWakers Compio.Gen.QuicWakers

namespace C16

/-! ### helpers -/

def kvOf (ws : List String) (key : String) : Option String :=
  ws.findSome? fun w =>
    match w.splitOn "=" with
    | [k, v] => if k == key then some v else none
    | _ => none

def kvNat (ws : List String) (key : String) (dflt : Nat) : Nat :=
  match kvOf ws key with
  | some v => v.toNat?.getD dflt
  | none => dflt

def payload (seed len : Nat) : Bytes :=
  (List.range len).map fun i =>
    let x : UInt32 := (UInt32.ofNat seed + UInt32.ofNat i) * 2654435761
    (x >>> 13).toUInt8

def fnv (data : Bytes) : UInt32 :=
  data.foldl (fun h b => (h ^^^ b.toUInt32) * 0x01000193) 0x811c9dc5

def hex8 (x : UInt32) : String :=
  String.ofList ((List.range 8).map fun i => hexDigit ((x.toNat >>> (4 * (7 - i))) % 16))

def lcg (x : Nat) : Nat := (x * 1103515245 + 12345) % 4294967296

/-- `n` pseudo-random numbers -/
def rnds : Nat → Nat → List Nat
  | 0, _ => []
  | n + 1, x => let y := lcg x; (y / 65536) :: rnds n y

def chunksOf (c : Nat) (fuel : Nat) (data : Bytes) : List Bytes :=
  match fuel with
  | 0 => []
  | fuel + 1 => if data.isEmpty then [] else data.take (max c 1) :: chunksOf c fuel (data.drop (max c 1))

def groupsOf {α : Type} (k : Nat) (fuel : Nat) (l : List α) : List (List α) :=
  match fuel with
  | 0 => []
  | fuel + 1 => if l.isEmpty then [] else l.take (max k 1) :: groupsOf k fuel (l.drop (max k 1))

/-- answers of quinn-proto for a write of `total` bytes: some partial limits and `Blocked`s, then enough -/
def wsched (seed total : Nat) : List WAns :=
  match rnds 3 seed with
  | [a, b, c] =>
    [.limit (1 + a % (total + 1)), .blocked, .limit (1 + b % (total + 1)), .blocked, .blocked,
     .limit (1 + c % (total + 1)), .limit (total + 1), .limit (total + 1)]
  | _ => [.limit (total + 1)]

/-- bytes accepted by the stream when `data` is written with the line's API, `none` if the modelled future
    did not complete with `Ok` -/
def simWrite (data : Bytes) (mode : String) (seed : Nat) : Option Bytes :=
  let parts := mode.splitOn ":"
  let c := ((parts.getD 1 "1000").toNat?.getD 1000)
  let k := ((parts.getD 2 "4").toNat?.getD 4)
  let pieces := chunksOf c (data.length + 1) data
  match parts.head? with
  | some "write" | some "all" | some "cwrite" | some "call" | some "fall" =>
    pieces.foldl (fun acc piece =>
      match acc with
      | none => none
      | some (out, sd) =>
        match writeAll piece 0 (wsched sd piece.length) with
        | (.ready (), a, _) => some (a :: out, lcg sd)
        | _ => none) (some ([], seed)) |>.map fun (out, _) => out.reverse.flatten
  | some "chunks" | some "wchunks" =>
    (groupsOf k (pieces.length + 1) pieces).foldl (fun acc group =>
      match acc with
      | none => none
      | some (out, sd) =>
        match writeAllChunks group 0 (wsched sd group.flatten.length) with
        | (.ready (), a, _) => some (a :: out, lcg sd)
        | _ => none) (some ([], seed)) |>.map fun (out, _) => out.reverse.flatten
  | _ => none

/-- cut `data` into segments of pseudo-random size -/
def segsOf (fuel seed : Nat) (data : Bytes) : List Bytes :=
  match fuel with
  | 0 => []
  | fuel + 1 =>
    if data.isEmpty then [] else
    let y := lcg seed
    let n := 1 + (y / 65536) % 3000
    data.take n :: segsOf fuel y (data.drop n)

/-- the poll a reader API makes: `read` with a `p`-byte buffer, `read_chunk(p, ..)`, `read_chunks` with `p` buffers,
    `read_to_end` = `read_chunk(usize::MAX, false)` -/
def readStep (api : String) (p : Nat) : RStep :=
  match api with
  | "read" | "cread" | "fread" | "cexact" => .read p   -- the compat wrappers poll `poll_read_impl` like `read`
  | "fend" => .read 1024                               -- futures' `read_to_end`: `poll_read` into spare capacity
  | "chunk" | "uchunk" => .readChunk p
  | "chunks" => .readChunks p
  | _ => .readChunk (2 ^ 64 - 1)

/-- keep polling (the API chosen by `pick` from what was returned so far) until a poll is `Pending` or reports
    end-of-stream -/
def drain : Nat → (Reader → RStep) → Reader → Reader
  | 0, _, r => r
  | f + 1, pick, r =>
    let r' := r.step (pick r)
    if r'.pendings > r.pendings || r'.eos > r.eos then r' else drain f pick r'

def partsLen (ps : List Bytes) : Nat := ps.foldl (fun n b => n + b.length) 0

/-- the shortest initial run of `parts` holding at least `n` bytes, and the rest -/
def splitPrefix : Nat → List Bytes → List Bytes × List Bytes
  | 0, ps => ([], ps)
  | _, [] => ([], [])
  | n + 1, b :: bs => let (a, c) := splitPrefix (n + 1 - b.length) bs; (b :: a, c)

def simRead (stream : Bytes) (mode pre : String) (seed : Nat) : String :=
  let parts := mode.splitOn ":"
  let p := max 1 ((parts.getD 1 "1000").toNat?.getD 1000)
  let main := readStep (parts.head?.getD "end") p
  let pp := pre.splitOn ":"
  let preApi := pp.head?.getD "none"
  let preStep := readStep preApi (max 1 ((pp.getD 1 "100").toNat?.getD 100))
  let preN := if preApi == "none" then 0 else (pp.getD 2 "0").toNat?.getD 0
  -- the prefix API is used while fewer than `preN` bytes were returned (few, short reads: cheap to recount)
  let pick : Reader → RStep := fun r => if preN > 0 && partsLen r.rparts < preN then preStep else main
  let segs := segsOf (stream.length + 1) seed stream
  let r := segs.foldl (fun r seg => drain (seg.length + 2) pick (r.step (.deliver seg))) Reader.init
  let r := drain (stream.length + 2) pick (r.step .finish)
  let r := r.step (.read 8)
  let got :=
    if parts.head? == some "end" then
      -- what the prefix reads returned, then `read_to_end`'s reassembly of the rest from absolute offsets
      let (a, c) := splitPrefix preN r.rparts.reverse
      a.flatten ++ assemble (withOffsets a.flatten.length c)
    else r.got
  s!"bytes={got.length} sum={hex8 (fnv got)} eos={if r.eos ≥ 1 then 1 else 0} post={if r.eos ≥ 2 then "eos" else "data"}"

def simStream (ws : List String) (pre : String) : String :=
  let len := kvNat ws (pre ++ "len") 0
  let seed := kvNat ws (pre ++ "seed") 0
  let w := (kvOf ws (pre ++ "w")).getD "all:1000"
  let r := (kvOf ws (pre ++ "r")).getD "read:1000"
  let prefixRead := (kvOf ws (pre ++ "pre")).getD "none"
  match simWrite (payload seed len) w seed with
  | none => "model-stall"
  | some stream => simRead stream r prefixRead (seed + 7) ++ " stopped=none"

/-! ### close / event cases -/

structure PendRec where
  line : Nat
  side : Nat
  kind : String
  sid : Nat
  world : Nat          -- index of the `World` the future belongs to
  done : Bool

structure DState where
  lineNo : Nat := 0
  worlds : Array World := #[World.init, World.init]
  pends : List PendRec := []
  -- abstract quinn-proto facts, per (side, stream / dir)
  stopped : List (Nat × Nat) := []
  reset : List (Nat × Nat) := []
  fin : List (Nat × Nat) := []
  data : List (Nat × Nat) := []
  writable : List (Nat × Nat) := []
  dgrams : List Nat := []          -- one entry (side) per buffered datagram
  incoming : List (Nat × Nat) := []  -- (side, dir) per un-accepted stream
  credit : List (Nat × Nat) := []    -- (side, dir) with stream credit
  epClosed : List Nat := []
  -- endpoint-level cases
  ep : Compio.QuicEndpoint.Ep := Compio.QuicEndpoint.Ep.init
  epends : List (Nat × Bool) := []   -- (line, done)
  econns : List Nat := []            -- lines of `accept_bi()` futures on connections accepted while open

def sideOf (s : String) : Option Nat :=
  if s == "c" then some 0 else if s == "s" then some 1 else none

/-- `Dir::Bi = 0`, `Dir::Uni = 1` -/
def dirOf (kind : String) : Nat := if kind.endsWith "bi" then 0 else 1

def regOf (kind : String) : Option Reg :=
  match kind with
  | "read" => some .recvStreamExecutePollRead
  | "reset" => some .recvStreamReceivedReset
  | "write" => some .sendStreamExecutePollWrite
  | "stopped" => some .sendStreamStopped
  | "open_uni" | "open_bi" => some .connectionPollOpenStream
  | "accept_uni" | "accept_bi" => some .connectionPollAcceptStream
  | "recv_dgram" => some .connectionPollRecvDatagram
  | "accepted_0rtt" => some .connectionAccepted0rtt
  | "connecting" => some .connectingPoll
  | "handshake_data" => some .connectingHandshakeData
  | _ => none

def keyOf (kind : String) (sid : Nat) : Nat :=
  match kind with
  | "open_uni" | "open_bi" | "accept_uni" | "accept_bi" => dirOf kind
  | _ => sid

def getW (d : DState) (i : Nat) : World := d.worlds.getD i World.init

def setW (d : DState) (i : Nat) (w : World) : DState := { d with worlds := d.worlds.setIfInBounds i w }

def removeOne {α : Type} [BEq α] (x : α) : List α → List α
  | [] => []
  | y :: ys => if y == x then ys else y :: removeOne x ys

/-- a woken task polls its future again: `some (result, state)` if it completes -/
def repoll (d : DState) (p : PendRec) : Option (String × DState) :=
  let k := (p.side, p.sid)
  match p.kind with
  | "read" =>
    if d.reset.contains k then some ("err:StreamReset", d)
    else if d.data.contains k then some ("ok:data", { d with data := removeOne k d.data })
    else if d.fin.contains k then some ("ok:eos", d)
    else none
  | "reset" => if d.reset.contains k then some ("ok:reset", d) else none
  | "write" =>
    if d.stopped.contains k then some ("err:Stopped", d)
    else if d.writable.contains k then some ("ok:written", { d with writable := removeOne k d.writable })
    else none
  | "stopped" => if d.stopped.contains k then some ("ok:stopped", d) else none
  | "recv_dgram" =>
    if d.dgrams.contains p.side then some ("ok:dgram", { d with dgrams := removeOne p.side d.dgrams }) else none
  | "accept_uni" | "accept_bi" =>
    let x := (p.side, dirOf p.kind)
    if d.incoming.contains x then some ("ok:stream", { d with incoming := removeOne x d.incoming }) else none
  | "open_uni" | "open_bi" =>
    if d.credit.contains (p.side, dirOf p.kind) then some ("ok:stream", d) else none
  | "accepted_0rtt" => if (getW d p.world).st.connected then some ("ok:connected", d) else none
  | _ => none

/-- apply `op` to world `wi`; every task it wakes polls again; returns the completions `(line, result)` -/
def stepAndRepoll (d : DState) (wi : Nat) (op : Op) : DState × List (Nat × String) :=
  let W := getW d wi
  let W' := (W.step op).1
  let woken := newlyWoken W.st W'.st
  let d := setW d wi W'
  woken.foldl (fun (acc : DState × List (Nat × String)) w =>
    let (d, outs) := acc
    match d.pends.find? (fun p => p.line == w && !p.done && p.world == wi) with
    | none => (d, outs)
    | some p =>
      let Wc := getW d wi
      match Wc.st.error, regOf p.kind with
      | some e, some r =>
        -- the stored error: the poll returns `Err` without registering
        match Wc.st.pollBlocked r (keyOf p.kind p.sid) w with
        | (_, .err e') =>
          ({ d with pends := d.pends.map fun q => if q.line == w then { q with done := true } else q },
           outs ++ [(w, s!"err:{e'.name}")])
        | _ => (d, outs ++ [(w, s!"err?:{e.name}")])
      | _, _ =>
        match repoll d p with
        | some (res, d') =>
          ({ d' with pends := d'.pends.map fun q => if q.line == w then { q with done := true } else q },
           outs ++ [(w, res)])
        | none =>
          match regOf p.kind with
          | some r => (setW d wi ((getW d wi).step (.poll r (keyOf p.kind p.sid) w)).1, outs)
          | none => (d, outs)) (d, [])

def showDone (star : Bool) (l : List (Nat × String)) : String :=
  let l := l.mergeSort (fun a b => a.1 ≤ b.1)
  "[" ++ ",".intercalate (l.map fun (n, r) => if star then s!"*:{r}" else s!"{n}:{r}") ++ "]"

def running (d : DState) (side : Nat) : Bool := (getW d side).worker == .running

def closeOp (ws : List String) (d : DState) : DState × String :=
  match ws with
  | [sd, how] =>
    match sideOf sd with
    | none => (d, "bad-op")
    | some side =>
      if how != "conn" && how != "endpoint" then (d, "bad-op") else
      let peer := 1 - side
      let alive := running d side
      -- the closing side
      let (d, o1) := stepAndRepoll d side (if how == "conn" then .close else .endpointClose)
      -- the peer learns it from the CONNECTION_CLOSE frame, which only a live worker transmits
      let (d, o2) := if alive then stepAndRepoll d peer (.event .connectionLost 0 false .applicationClosed) else (d, [])
      -- other connection attempts of a closed endpoint
      let (d, o3) :=
        if how == "endpoint" then
          (d.pends.filter (fun p => p.world ≥ 2 && p.side == side && !p.done)).foldl
            (fun (acc : DState × List (Nat × String)) p =>
              let (d, o) := stepAndRepoll acc.1 p.world .endpointClose
              (d, acc.2 ++ o)) (d, [])
        else (d, [])
      let d := if how == "endpoint" then { d with epClosed := side :: d.epClosed } else d
      -- `Endpoint::close` drains `incoming_wakers`; `poll_incoming` then yields `None`
      let o4 := (d.pends.filter (fun p => p.kind == "incoming" && !p.done && d.epClosed.contains p.side)).map
        fun p => (p.line, "ok:none")
      -- the workers run until drained, then the `closed()` futures complete
      let (d, o5) := [0, 1].foldl (fun (acc : DState × List (Nat × String)) wi =>
        let d := acc.1
        let W := getW d wi
        if W.worker == .running && W.st.error.isSome then
          let W1 := (W.step .drained).1
          match W1.closedOwner with
          | some w =>
            match W1.step (.closedPoll w) with
            | (W2, .err e) => (setW d wi W2, acc.2 ++ [(w, s!"err:{e.name}")])
            | (W2, .panic) => (setW d wi W2, acc.2 ++ [(w, "panic")])
            | (W2, _) => (setW d wi W2, acc.2)
          | none => (setW d wi W1, acc.2)
        else acc) (d, [])
      let outs := o1 ++ o2 ++ o3 ++ o4 ++ o5
      let doneLines := outs.map (·.1)
      let must := d.pends.filter fun p =>
        !p.done && !doneLines.contains p.line &&
          (match p.kind with
           | "connecting" | "handshake_data" | "incoming" => how == "endpoint" && p.side == side
           | _ => true)
      let d := { d with pends := d.pends.map fun q => if doneLines.contains q.line then { q with done := true } else q }
      let stranded := "[" ++ ",".intercalate (must.map fun p => toString p.line) ++ "]"
      (d, s!"closed={showDone false outs} stranded={stranded}")
  | _ => (d, "bad-op")

def pendOp (ws : List String) (d : DState) : DState × String :=
  match ws with
  | sd :: kind :: rest =>
    match sideOf sd with
    | none => (d, "bad-op")
    | some side =>
      let sid := (rest.head?.bind (·.toNat?)).getD 0
      let w := d.lineNo
      match kind with
      | "closed" =>
        let (W', res) := (getW d side).step (.closedPoll w)
        let d := setW d side W'
        match res with
        | .panic => ({ d with pends := d.pends ++ [⟨w, side, kind, sid, side, true⟩] }, "panic")
        | .err e => ({ d with pends := d.pends ++ [⟨w, side, kind, sid, side, true⟩] }, s!"ready:err:{e.name}")
        | _ => ({ d with pends := d.pends ++ [⟨w, side, kind, sid, side, false⟩] }, "pending")
      | "incoming" =>
        if d.epClosed.contains side then ({ d with pends := d.pends ++ [⟨w, side, kind, sid, side, true⟩] }, "ready:ok:none")
        else ({ d with pends := d.pends ++ [⟨w, side, kind, sid, side, false⟩] }, "pending")
      | _ =>
        match regOf kind with
        | none => (d, "bad-op")
        | some r =>
          -- a connection attempt to a silent peer is a connection of its own
          let (d, wi) :=
            if kind == "connecting" || kind == "handshake_data" then
              ({ d with worlds := d.worlds.push World.init }, d.worlds.size)
            else (d, side)
          let (W', res) := (getW d wi).step (.poll r (keyOf kind sid) w)
          let d := setW d wi W'
          match res with
          | .err e => ({ d with pends := d.pends ++ [⟨w, side, kind, sid, wi, true⟩] }, s!"ready:err:{e.name}")
          | _ => ({ d with pends := d.pends ++ [⟨w, side, kind, sid, wi, false⟩] }, "pending")
  | _ => (d, "bad-op")

def actOp (ws : List String) (d : DState) : DState × String :=
  match ws with
  | sd :: what :: rest =>
    match sideOf sd with
    | none => (d, "bad-op")
    | some side =>
      let peer := 1 - side
      let arg := rest.head?.getD ""
      let k := arg.toNat?.getD 0
      let alive := running d side
      -- the event quinn-proto emits at the peer, and the fact it reflects
      let ev (d : DState) (e : Ev) (key : Nat) (star : Bool) : DState × String :=
        if alive then
          let (d, outs) := stepAndRepoll d peer (.event e key false .applicationClosed)
          (d, s!"done={showDone star outs}")
        else (d, "done=[]")
      match what with
      | "stop" => ev { d with stopped := (peer, k) :: d.stopped } .stopped k false
      | "reset" => ev { d with reset := (peer, k) :: d.reset } .readable k false
      | "finish" => ev { d with fin := (peer, k) :: d.fin } .readable k false
      | "write" => ev { d with data := (peer, k) :: d.data } .readable k false
      | "drain" => ev { d with writable := (peer, k) :: d.writable } .writable k false
      | "dgram" => ev { d with dgrams := peer :: d.dgrams } .datagramReceived 0 true
      | "dgrams" =>
        -- `k` datagrams in one burst: quinn-proto raises `DatagramReceived` ONCE (buffer empty → non-empty)
        ev { d with dgrams := List.replicate k peer ++ d.dgrams } .datagramReceived 0 true
      | "drop" =>
        -- one half of a stream dropped by its owner: the `Drop` clean-up here, and at the peer the event of the
        -- implicit `stop(0)` (receive half) / `finish()` (send half)
        let send := (rest.getD 1 "") == "send"
        let d := setW d side ((getW d side).step (.dropStream send k)).1
        if send then ev { d with fin := (peer, k) :: d.fin } .readable k false
        else ev { d with stopped := (peer, k) :: d.stopped } .stopped k false
      | "open" => ev { d with incoming := (peer, dirOf arg) :: d.incoming } .opened (dirOf arg) true
      | "limit" => ev { d with credit := (peer, dirOf arg) :: d.credit } .available (dirOf arg) false
      | "handshake" =>
        -- the client's `Connecting` completes; the server's worker sees `Connected`
        let (d, outs) := stepAndRepoll d 1 (.event .connected 0 false .applicationClosed)
        let (d, _) := stepAndRepoll d 0 (.event .connected 0 false .applicationClosed)
        (d, s!"done={showDone false outs}")
      | "cancelclosed" =>
        let w := 1000000 + d.lineNo
        let W := getW d side
        let W1 := (W.step (.closedPoll w)).1
        let W2 := (W1.step (.closedDrop w)).1
        (setW d side W2, "done=[]")
      | _ => (d, "bad-op")
  | _ => (d, "bad-op")

/-- `n` blocked `send_datagram_wait` futures polled by hand with their own wakers, then `Connection::close`
    without yielding: wake counts per waker, then the re-polls -/
def syncCloseOp (ws : List String) (d : DState) : DState × String :=
  match ws with
  | [sd, n] =>
    match sideOf sd, n.toNat? with
    | some side, some n =>
      let ids := (List.range n).map (· + 900000)
      let (W, pend) := ids.foldl (fun (acc : World × Nat) w =>
        match acc.1.step (.poll .connectionTrySendDatagram 0 w) with
        | (W', .pending) => (W', acc.2 + 1)
        | (W', _) => (W', acc.2)) (getW d side, 0)
      let W' := (W.step .close).1
      let woken := ids.map fun w => toString ((newlyWoken W.st W'.st).count w)
      let (W'', results) := ids.foldl (fun (acc : World × List String) w =>
        match acc.1.step (.poll .connectionTrySendDatagram 0 w) with
        | (Wn, .err e) => (Wn, acc.2 ++ [s!"err:{e.name}"])
        | (Wn, _) => (Wn, acc.2 ++ ["pending"])) (W', [])
      (setW d side W'', s!"pending={pend} woken=[{",".intercalate woken}] results=[{",".intercalate results}]")
    | _, _ => (d, "bad-op")
  | _ => (d, "bad-op")

def connC (ws : List String) (d : DState) : DState × String :=
  if kvNat ws "zero" 0 == 1 then (d, "ok") else
  -- an established connection: both workers have seen `Connected`
  let d := setW d 0 ((getW d 0).step (.event .connected 0 false .applicationClosed)).1
  let d := setW d 1 ((getW d 1).step (.event .connected 0 false .applicationClosed)).1
  (d, "ok")

/-! ### endpoint cases -/

open Compio.QuicEndpoint in
/-- apply `op`; every newly woken task polls `wait_incoming` again; returns the completions -/
def epStepAndRepoll (d : DState) (op : EOp) : DState × List (Nat × String) :=
  let e := d.ep
  let e' := (e.step op).1
  let woken := e'.woken.drop e.woken.length
  woken.foldl (fun (acc : DState × List (Nat × String)) w =>
    let (d, outs) := acc
    if d.epends.any (fun p => p.1 == w && !p.2) then
      match d.ep.step (.poll w) with
      | (e2, some .incoming) =>
        ({ d with ep := e2, epends := d.epends.map fun p => if p.1 == w then (p.1, true) else p },
          outs ++ [(w, "ok:incoming")])
      | (e2, some .none) =>
        ({ d with ep := e2, epends := d.epends.map fun p => if p.1 == w then (p.1, true) else p },
          outs ++ [(w, "ok:none")])
      | (e2, _) => ({ d with ep := e2 }, outs)
    else (d, outs)) ({ d with ep := e' }, [])

open Compio.QuicEndpoint in
def endpointOp (ws : List String) (d : DState) : DState × String :=
  match ws with
  | "ep" :: _ => ({ d with ep := Ep.init, epends := [], econns := [] }, "ok")
  | ["take"] =>
    -- a connection attempt is queued and handed to the caller of `wait_incoming()`
    let e1 := (d.ep.step (.datagram true)).1
    match e1.step (.poll 999999) with
    | (e2, some .incoming) => ({ d with ep := e2 }, "ok")
    | (_, some .none) => (d, "error:closed")
    | (e2, _) => ({ d with ep := e2 }, "error:no incoming")
  | ["refuse"] | ["retry"] | ["ignore"] => (d, "ok")
  | ["accept"] =>
    -- `Incoming::accept` → `EndpointState::new_connection`
    let e1 := (d.ep.step .newConn).1
    if d.ep.closed then
      if e1.told > d.ep.told then ({ d with ep := e1 }, "accept=err:LocallyClosed")
      else ({ d with ep := e1 }, "accept=ok conn=stranded")
    else ({ d with ep := e1, econns := d.econns ++ [d.lineNo] }, "accept=ok")
  | ["pend"] =>
    let w := d.lineNo
    match d.ep.step (.poll w) with
    | (e', some .pending) => ({ d with ep := e', epends := d.epends ++ [(w, false)] }, "pending")
    | (e', some .incoming) => ({ d with ep := e', epends := d.epends ++ [(w, true)] }, "ready:ok:incoming")
    | (e', _) => ({ d with ep := e', epends := d.epends ++ [(w, true)] }, "ready:ok:none")
  | ["act", "connect"] =>
    let (d, outs) := epStepAndRepoll d (.datagram true)
    (d, s!"done={showDone true outs}")
  | ["close"] =>
    let untoldBefore := d.ep.untold
    let (d, outs) := epStepAndRepoll d .close
    -- the connections alive at the close were sent `ConnectionEvent::Close`: their futures fail
    let outs := if d.ep.untold == 0 && untoldBefore ≥ d.econns.length
      then outs ++ d.econns.map (fun l => (l, "err:LocallyClosed")) else outs
    let d := { d with econns := [] }
    let stranded := (d.epends.filter (fun p => !p.2)).map fun p => toString p.1
    (d, s!"closed={showDone false outs} stranded=[{",".intercalate stranded}]")
  | ["shutdown"] =>
    -- `shutdown` waits until every clone of the endpoint is dropped: the parked tasks hold one each
    (d, if d.epends.all (·.2) then "ok" else "timeout")
  | _ => (d, "bad-op")

def step (d : DState) (line : String) : DState × String :=
  if line.startsWith "#case" then ({}, line.trimAscii.toString) else
  let ws := words line
  let (d', out) : DState × String :=
    match ws with
    | "T" :: "conn" :: _ => (d, "ok")
    | "T" :: "end" :: _ => (d, "ok")
    | "T" :: "uni" :: rest => (d, simStream rest "")
    | "T" :: "bi" :: rest => (d, simStream rest "" ++ " | " ++ simStream rest "e")
    | "T" :: "dgram" :: _ => (d, "dgram ok")
    | "C" :: "conn" :: rest => connC rest d
    | "C" :: "stream" :: _ => (d, "ok")
    | "C" :: "pend" :: rest => pendOp rest d
    | "C" :: "act" :: rest => actOp rest d
    | "C" :: "close" :: rest => closeOp rest d
    | "C" :: "syncclose" :: rest => syncCloseOp rest d
    | "E" :: rest => endpointOp rest d
    | _ => (d, "bad-op")
  ({ d' with lineNo := d'.lineNo + 1 }, out)

end C16

def main : IO Unit := Compio.stdinLoop C16.step {}
