/- line-protocol driver for the C18 model (same operations as harness/rt/src/bin/c18.rs)

  cfg <W> <c|s> [harness-only builder options]      → ok
  d <t> <susp|-> <v<n>|p|n|b> [harness-only flags]  → acc | rej        (dispatch; b = bomb: kills its worker)
  b <t> <v<n>|p>                                    → acc               (dispatch_blocking)
  drop <t>                                          → ok                (drop the oneshot receiver)
  wait <t>                                          → val <v> | cancelled | pending
  g <t> v<n>                                        → acc               (dispatch_blocking, gated until `release`)
  release                                           → ok                (open the gate)
  join                                              → ok | panic <p>
  join f                                            → ok | panic <p>    (the pool is saturated: fallback thread)
  rx <t>                                            → val <v> | cancelled | pending      (after join)
  stat <t>                                          → started <n> on <workers> ended <n>
  order                                             → order <t>...      (start order; one worker only)
  alive                                             → alive <n>         (worker threads not finished)
  hist <W> <c|s> <tok>...                           → accept | reject <why>
-/
import Compio.Model.Common
import Compio.Model.Dispatcher
import Compio.Model.DispatcherTrace

open Compio Compio.Dispatcher

namespace C18

def parseOut (s : String) : Option (Out × Bool) :=
  match s.toList with
  | ['p'] => some (.panic, false)
  | ['n'] => some (.never, false)
  | ['z'] => some (.never, false)   -- yields for ever (never parks): for the model a body that never ends
  | ['b'] => some (.never, true)
  | 'v' :: r => (String.ofList r).toNat?.map fun v => (.ok v, false)
  | _ => none

/-- suspensions of a body text: `-` none; `y` yield, `s`/`t` timers: one each; `i` pipe I/O: three;
`r` woken twice from a helper thread (the second time during the poll the first wake caused), `R` the same
with two back-to-back wakes each time: two -/
def parseSusp (s : String) : Nat :=
  if s = "-" then 0 else (s.toList.map fun c => if c = 'i' then 3 else if c = 'r' || c = 'R' then 2 else 1).sum

def parseObs (tok : String) : Option Obs :=
  match tok.splitOn "." with
  | ["i", t, susp, out, _thread] =>
    match t.toNat?, parseOut out with
    | some t, some (o, bomb) => some (.intent t ⟨parseSusp susp, o⟩ bomb)
    | _, _ => none
  | ["I", t, out] =>
    match t.toNat?, parseOut out with
    | some t, some (o, _) => some (.bintent t ⟨0, o⟩)
    | _, _ => none
  | ["a", t] => t.toNat?.map .acc
  | ["r", t] => t.toNat?.map .rej
  | ["s", w, t] => match w.toNat?, t.toNat? with | some w, some t => some (.start w t) | _, _ => none
  | ["f", t] => t.toNat?.map .fin
  | ["B", t] => t.toNat?.map .brun
  | ["g", t, v] => match t.toNat?, v.toNat? with | some t, some v => some (.got t v) | _, _ => none
  | ["k", t] => t.toNat?.map .wake
  | ["c", t] => t.toNat?.map .canc
  | ["h", t] => t.toNat?.map .hang
  | ["x", w, p] => match w.toNat?, p.toNat? with | some w, some p => some (.die w p) | _, _ => none
  | ["L", n] => n.toNat?.map .alive
  | ["P", sig, _] => some (.problem sig)
  | ["Rhang"] => some (.problem "join-hang")
  | ["J"] => some (.joinCall false)
  | ["JF"] => some (.joinCall true)
  | ["R", "err"] => some .joinErr
  | ["R", "ok"] => some (.joinRet none)
  | ["R", p] => if p.startsWith "p" then ((p.drop 1).toString.toNat?).map fun p => .joinRet (some p) else none
  | _ => none

def parseAll : List String → Option (List Obs)
  | [] => some []
  | t :: r => match parseObs t, parseAll r with
    | some o, some os => some (o :: os)
    | _, _ => none

def histLine (ws : List String) : String :=
  match ws with
  | w :: m :: toks =>
    match w.toNat?, parseAll toks with
    | some w, some h =>
      if m = "c" then verdict w true h else if m = "s" then verdict w false h else "bad-op"
    | _, _ => "bad-op"
  | _ => "bad-op"

def showNats (l : List Nat) : String := " ".intercalate (l.map toString)

def op (d : Sched) (ws : List String) : String × Sched :=
  match ws with
  | "cfg" :: w :: m :: _ =>
    match w.toNat? with
    | some w => if d.cfgd then ("bad-op", d) else ("ok", { s := init w (m == "c"), cfgd := true })
    | none => ("bad-op", d)
  | "d" :: t :: susp :: out :: _ =>
    if !d.cfgd then ("no-dispatcher", d) else
    match t.toNat?, parseOut out with
    | some t, some (o, bomb) =>
      let d := d.fire (.dispatch 0 t ⟨parseSusp susp, o⟩)
      let d := if bomb && d.s.accepted.contains t then { d with bombs := d.bombs ++ [t] } else d
      (if d.s.accepted.contains t then "acc" else "rej", d)
    | _, _ => ("bad-op", d)
  | ["b", t, out] =>
    if !d.cfgd then ("no-dispatcher", d) else
    match t.toNat?, parseOut out with
    | some t, some (o, _) =>
      let d := d.fire (.dispatchBlocking 0 t ⟨0, o⟩ true)
      (if d.s.accepted.contains t then "acc" else "rej", d)
    | _, _ => ("bad-op", d)
  | ["drop", t] =>
    match t.toNat? with
    | some t =>
      if d.s.chan t == .none || d.s.chan t == .closed || d.taken.contains t then ("bad-op", d)
      else ("ok", { d.fire (.rxDrop t) with taken := t :: d.taken })
    | none => ("bad-op", d)
  | ["wait", t] =>
    match t.toNat? with
    | some t => let d := d.settleAll; (showChan (d.s.chan t), { d with taken := t :: d.taken })
    | none => ("bad-op", d)
  | ["join"] =>
    if !d.cfgd || !d.s.sender then ("no-dispatcher", d) else
    let d := d.joinAll; (showJoined d.s.joined, d)
  | ["join", "f"] =>
    if !d.cfgd || !d.s.sender then ("no-dispatcher", d) else
    let d := d.joinAll true; (showJoined d.s.joined, d)
  | ["g", t, out] =>
    -- a gated blocking closure: occupies a pool thread until `release`; for the model a blocking task
    if !d.cfgd then ("no-dispatcher", d) else
    match t.toNat?, parseOut out with
    | some t, some (o, _) =>
      let d := d.fire (.dispatchBlocking 0 t ⟨0, o⟩ true)
      (if d.s.accepted.contains t then "acc" else "rej", d)
    | _, _ => ("bad-op", d)
  | ["release"] => ("ok", d)
  | ["rx", t] =>
    match t.toNat? with
    | some t => let d := d.settleAll; (showChan (d.s.chan t), { d with taken := t :: d.taken })
    | none => ("bad-op", d)
  | ["stat", t] =>
    match t.toNat? with
    | some t =>
      let d := d.settleAll
      (s!"started {d.s.started t} on {(d.s.startedOn t).length} ended {d.s.ended t}", d)
    | none => ("bad-op", d)
  | ["order"] => (s!"order {showNats d.order}".trimAscii.toString, d)
  | ["alive"] => (s!"alive {aliveWorkers d.s}", d)
  | "hist" :: rest => (histLine rest, d)
  | _ => ("bad-op", d)

def step (d : Sched) (line : String) : Sched × String :=
  if line.startsWith "#case" then ({ s := init 0 true }, line.trimAscii.toString) else
  let (out, d') := op d (words line)
  if d'.bad then (d', "model-stuck") else (d', out)

end C18

def main : IO Unit := Compio.stdinLoop C18.step { s := Compio.Dispatcher.init 0 true }
