/- line-protocol driver for the C08 models (same operations as harness/rt/src/bin/c08.rs).
   Every line is executed for both drivers (`iour`, `poll`), each with its own state; the range kind an
   op hands to the OS is looked up in the GENERATED table `Compio.Gen.OpTable.rows`, the open flags in
   the generated `Compio.Gen.OpenFlags.openFlags`. -/
import Compio.Model.BufShape
import Compio.Model.FileRef
import Compio.Model.DirUtil

open Compio Compio.BufShape Compio.FileRef
open Compio.Gen.OpTable (Driver Kind rows)

namespace C08

def pattern (fill n : Nat) : Bytes := (List.range n).map fun j => UInt8.ofNat (fill + j)

def optNat (s : String) : Option (Option Nat) := if s = "-" then some none else s.toNat?.map some

/-- `cap:len:fill[:begin:end]` -/
def parseRBuf (s : String) : Option Buf :=
  match s.splitOn ":" with
  | [c, l, f] =>
    match c.toNat?, l.toNat?, f.toNat? with
    | some c, some l, some f => some ⟨⟨pattern f c, l⟩, 0, none⟩
    | _, _, _ => none
  | [c, l, f, b, e] =>
    match c.toNat?, l.toNat?, f.toNat?, b.toNat?, optNat e with
    | some c, some l, some f, some b, some e => some ⟨⟨pattern f c, l⟩, b, e⟩
    | _, _, _, _, _ => none
  | _ => none

/-- `hex:spare[:begin:end]`: a Vec holding `hex` with `spare` more bytes of capacity -/
def parseWBuf (s : String) : Option Buf :=
  match s.splitOn ":" with
  | [h, sp] =>
    match parseHex h, sp.toNat? with
    | some d, some sp => some ⟨⟨d ++ pattern 0xE0 sp, d.length⟩, 0, none⟩
    | _, _ => none
  | [h, sp, b, e] =>
    match parseHex h, sp.toNat?, b.toNat?, optNat e with
    | some d, some sp, some b, some e => some ⟨⟨d ++ pattern 0xE0 sp, d.length⟩, b, e⟩
    | _, _, _, _ => none
  | _ => none

def allSome {α} : List (Option α) → Option (List α)
  | [] => some []
  | none :: _ => none
  | some a :: r => (allSome r).map (a :: ·)

def listOf (s : String) : List String := if s = "." then [] else s.splitOn ","

def joinOr (l : List String) : String := if l.isEmpty then "." else ",".intercalate l

def showOut : Out → String
  | .ok => "ok"
  | .err e => s!"err {e}"

def showRead (n : Nat) (b : Buf) : String := s!"ok {n} {b.root.len} {hexOf b.root.mem}"

def showReadVec (n : Nat) (bs : List Buf) : String :=
  s!"ok {n} {joinOr (bs.map fun b => toString b.root.len)} {joinOr (bs.map fun b => hexOf b.root.mem)}"

def allWf (bs : List Buf) : Bool := bs.all fun b => decide b.wf

def writable (h : Handle) : Except Nat Nat :=
  if !h.w then .error EBADF else
  match h.ino with
  | none => .error EBADF
  | some i => .ok i

def parseEnd (t : String) : Option End :=
  match t.toList with
  | 'f' :: r => (String.ofList r).toNat?.map .file
  | 'p' :: r => (String.ofList r).toNat?.map .pipe
  | _ => none

def pipeLimit : Nat := 32768

def parseBits (s : String) : Option (Bool × Bool × Bool × Bool × Bool) :=
  match s.toList with
  | [r, w, t, c, n] =>
    if [r, w, t, c, n].all (fun x => x = '0' ∨ x = '1') then
      some (r = '1', w = '1', t = '1', c = '1', n = '1')
    else none
  | _ => none

/-- lines the harness does not execute: opening a FIFO through the plain file API would block -/
def fifoGuard (s : St) (w : List String) : Bool :=
  match w with
  | ["open", _, name, _] => s.isFifo name
  | ["openx", _, name, _, _, _] => s.isFifo name
  | ["fseqopen", _, name, _] => s.isFifo name
  | ["content", name] => s.isFifo name
  | ["readall", name] => s.isFifo name
  | ["writeall", name, _] => s.isFifo name
  | _ => false

def stepD (d : Driver) (s : St) (w : List String) : St × String :=
  if fifoGuard s w then (s, "unsupported") else
  match w with
  | ["fifo", p, name] =>
    match p.toNat? with
    | some p =>
      match s.resolve resolveFuel name with
      | .error e => (s, s!"err {e}")
      | .ok (_, none) => (s, s!"err {ENOENT}")
      | .ok (_, some .dir) => (s, s!"err {EISDIR}")
      | .ok (_, some (.fifo _)) => ({ s with pipes := insert s.pipes p ⟨[], true, true, true, 0, []⟩ }, "ok")
      -- a regular file opens, then `is_fifo` fails: InvalidInput "not a pipe"
      | .ok (_, some _) => (s, s!"err {EINVAL}")
    | none => (s, "bad-op")
  | ["writeall", name, h] =>
    match parseHex h with
    | some data =>
      -- `File::create` = write + create + truncate, then `write_all_at(buf, 0)`
      let (s', o) := s.openFile 1000000 name (Gen.OpenFlags.openFlags false true true true false)
      match o, lookup s'.handles 1000000 with
      | .ok, some ⟨some i, _, _, _⟩ =>
        ({ (s'.setContent i (pwrite (s'.content i) 0 data)) with handles := remove s'.handles 1000000 }, "ok")
      | .ok, _ => (s, "bad-op")
      | .err e, _ => (s, s!"err {e}")
    | none => (s, "bad-op")
  | ["open", h, name, bits] =>
    match h.toNat?, parseBits bits with
    | some h, some (r, wr, t, c, n) =>
      let (s', o) := s.openFile h name (Gen.OpenFlags.openFlags r wr t c n)
      (s', showOut o)
    | _, _ => (s, "bad-op")
  | ["openx", h, name, bits, custom, _mode] =>
    -- `custom_flags(custom).mode(mode)`; answers the access mode of the descriptor (F_GETFL & O_ACCMODE)
    match h.toNat?, parseBits bits, custom.toNat? with
    | some h, some (r, wr, t, c, n), some custom =>
      let fl := Gen.OpenFlags.openFlags r wr t c n
      let (s', o) := s.openFileX h name fl custom
      match o, fl with
      | .ok, some fl => (s', s!"ok {(flagWord fl (keepCustom Gen.OpenFlags.customMasks custom)) % 4}")
      | o, _ => (s', showOut o)
    | _, _, _ => (s, "bad-op")
  | ["hread", h, pos, cap] =>
    -- `read_at(Vec::with_capacity(cap), pos)` with a huge capacity: `ok N LEN HEX(first N bytes)`
    match h.toNat?, pos.toNat?, cap.toNat?, lenOf .ReadAt d with
    | some h, some pos, some cap, some lk =>
      match lookup s.handles h with
      | none => (s, "nohandle")
      | some hd =>
        match readView d s hd pos (lenHanded lk cap) false with
        | .error e => (s, s!"err {e}")
        | .ok (f, p, adv) =>
          let data := hugeRead lk cap (f.drop p)
          (advancePos s h hd adv data.length, s!"ok {data.length} {data.length} {hexOf (data.take 64)}")
    | _, _, _, _ => (s, "bad-op")
  | ["hpread", p, cap] =>
    match p.toNat?, cap.toNat?, lenOf .Read d with
    | some p, some cap, some lk =>
      match lookup s.pipes p with
      | none => (s, "nohandle")
      | some pp =>
        if !pp.rOpen then (s, "closed") else
        if pp.buf.isEmpty ∧ (pp.wOpen ∨ pp.fifo) then (s, "wouldblock") else
        let data := hugeRead lk cap (s.pipeBytes pp)
        ({ s with pipes := insert s.pipes p (pp.pop data.length) },
          s!"ok {data.length} {data.length} {hexOf (data.take 64)}")
    | _, _, _ => (s, "bad-op")
  | ["splice", a, b, len, oi, oo] =>
    match parseEnd a, parseEnd b, len.toNat?, optNat oi, optNat oo with
    | some a, some b, some len, some oi, some oo =>
      let (s', o) := s.splice d Gen.OpTable.spliceWaitPoll a b len oi oo
      (s', match o with
        | .ok n => s!"ok {n}"
        | .err e => s!"err {e}"
        | .answer t => t)
    | _, _, _, _, _ => (s, "bad-op")
  | ["close", h] =>
    match h.toNat? with
    | some h =>
      match lookup s.handles h with
      | some _ => ({ s with handles := remove s.handles h }, "ok")
      | none => (s, "nohandle")
    | none => (s, "bad-op")
  | ["readat", h, pos, buf] =>
    match h.toNat?, pos.toNat?, parseRBuf buf, kindOf .ReadAt d with
    | some h, some pos, some b, some k =>
      match lookup s.handles h with
      | none => (s, "nohandle")
      | some hd =>
        if !decide b.wf then (s, "panic") else
        match readView d s hd pos (b.offered k).2 false with
        | .error e => (s, s!"err {e}")
        | .ok (f, p, adv) => let (n, b') := readOp k b f p; (advancePos s h hd adv n, showRead n b')
    | _, _, _, _ => (s, "bad-op")
  | ["readv", h, pos, bufs] =>
    match h.toNat?, pos.toNat?, allSome ((listOf bufs).map parseRBuf), kindOf .ReadVectoredAt d with
    | some h, some pos, some bs, some k =>
      match lookup s.handles h with
      | none => (s, "nohandle")
      | some hd =>
        if !allWf bs then (s, "panic") else
        match readView d s hd pos (offeredLen k bs) true with
        | .error e => (s, s!"err {e}")
        | .ok (f, p, adv) => let (n, bs') := readVecOp k bs f p; (advancePos s h hd adv n, showReadVec n bs')
    | _, _, _, _ => (s, "bad-op")
  | ["writeat", h, pos, buf] =>
    match h.toNat?, pos.toNat?, parseWBuf buf, kindOf .WriteAt d with
    | some h, some pos, some b, some k =>
      match lookup s.handles h with
      | none => (s, "nohandle")
      | some hd =>
        if !decide b.wf then (s, "panic") else
        if pos > writeLimit ∧ pos ≠ minusOne then (s, "unsupported") else
        match writable hd with
        | .error e => (s, s!"err {e}")
        | .ok i => writeAtPos d s h hd i pos (b.offeredBytes k)
    | _, _, _, _ => (s, "bad-op")
  | ["writev", h, pos, bufs] =>
    match h.toNat?, pos.toNat?, allSome ((listOf bufs).map parseWBuf), kindOf .WriteVectoredAt d with
    | some h, some pos, some bs, some k =>
      match lookup s.handles h with
      | none => (s, "nohandle")
      | some hd =>
        if !allWf bs then (s, "panic") else
        if pos > writeLimit ∧ pos ≠ minusOne then (s, "unsupported") else
        match writable hd with
        | .error e => (s, s!"err {e}")
        | .ok i => writeAtPos d s h hd i pos (offeredBytesVec k bs)
    | _, _, _, _ => (s, "bad-op")
  | ["setlen", h, n] =>
    match h.toNat?, n.toNat? with
    | some h, some n =>
      match lookup s.handles h with
      | none => (s, "nohandle")
      | some hd =>
        if n > writeLimit then (s, "unsupported") else
        match hd.w, hd.ino with
        | true, some i => (s.setContent i (ftruncate (s.content i) n), "ok")
        | _, _ => (s, s!"err {EINVAL}")
    | _, _ => (s, "bad-op")
  | ["sync", h, _] =>
    match h.toNat? with
    | some h =>
      match lookup s.handles h with
      | none => (s, "nohandle")
      | some _ => (s, "ok")
    | none => (s, "bad-op")
  | ["meta", h] =>
    match h.toNat? with
    | some h =>
      match lookup s.handles h with
      | none => (s, "nohandle")
      | some hd =>
        match hd.ino with
        | none => (s, "ok dir")
        | some i => (s, s!"ok file {(s.content i).length}")
    | none => (s, "bad-op")
  | [st, name] =>
    if st = "stat" ∨ st = "lstat" then
      match s.stat name (st = "stat") with
      | .file n => (s, s!"ok file {n}")
      | .dir => (s, "ok dir")
      | .symlink => (s, "ok symlink")
      | .other => (s, "ok other")
      | .err e => (s, s!"err {e}")
    else if st = "mkdir" then let (s', o) := s.mkdir name; (s', showOut o)
    else if st = "rmdir" then let (s', o) := s.rmdir name; (s', showOut o)
    else if st = "unlink" then let (s', o) := s.unlink name; (s', showOut o)
    else if st = "mkfifo" then let (s', o) := s.mkfifo name; (s', showOut o)
    else if st = "content" ∨ st = "readall" then
      match s.resolve resolveFuel name with
      | .error e => (s, s!"err {e}")
      | .ok (_, some (.file i)) => (s, s!"ok {hexOf (s.content i)}")
      | .ok (_, some .dir) => (s, s!"err {EISDIR}")
      | .ok (_, _) => (s, s!"err {ENOENT}")
    else if st = "pipe" then
      match name.toNat? with
      | some p => ({ s with pipes := insert s.pipes p ⟨[], true, true, false, 0, []⟩ }, "ok")
      | none => (s, "bad-op")
    else (s, "bad-op")
  | ["rename", a, b] => let (s', o) := s.rename a b; (s', showOut o)
  | ["hardlink", a, b] => let (s', o) := s.hardlink a b; (s', showOut o)
  | ["symlink", t, n] => let (s', o) := s.symlink t n; (s', showOut o)
  | ["pclose", p, which] =>
    match p.toNat? with
    | some p =>
      match lookup s.pipes p with
      | none => (s, "nohandle")
      | some pp =>
        if which = "r" then ({ s with pipes := insert s.pipes p { pp with rOpen := false } }, "ok")
        else if which = "w" then ({ s with pipes := insert s.pipes p { pp with wOpen := false } }, "ok")
        else (s, "bad-op")
    | none => (s, "bad-op")
  | ["pwrite", p, buf] =>
    match p.toNat?, parseWBuf buf, kindOf .Write d with
    | some p, some b, some k =>
      match lookup s.pipes p with
      | none => (s, "nohandle")
      | some pp =>
        if !pp.wOpen then (s, "closed") else
        if !decide b.wf then (s, "panic") else
        let data := b.offeredBytes k
        if pp.slots ≥ slotLimit ∨ pp.buf.length + data.length > pipeLimit then (s, "full") else
        if data.isEmpty then (s, "ok 0") else
        if !pp.rOpen ∧ !pp.fifo then (s, s!"err {EPIPE}") else
        ({ s with pipes := insert s.pipes p (pp.push data) }, s!"ok {data.length}")
    | _, _, _ => (s, "bad-op")
  | ["pwritev", p, bufs] =>
    match p.toNat?, allSome ((listOf bufs).map parseWBuf), kindOf .WriteVectored d with
    | some p, some bs, some k =>
      match lookup s.pipes p with
      | none => (s, "nohandle")
      | some pp =>
        if !pp.wOpen then (s, "closed") else
        if !allWf bs then (s, "panic") else
        let data := offeredBytesVec k bs
        if pp.slots ≥ slotLimit ∨ pp.buf.length + data.length > pipeLimit then (s, "full") else
        if data.isEmpty then (s, "ok 0") else
        if !pp.rOpen ∧ !pp.fifo then (s, s!"err {EPIPE}") else
        ({ s with pipes := insert s.pipes p (pp.push data) }, s!"ok {data.length}")
    | _, _, _ => (s, "bad-op")
  | ["pread", p, buf] =>
    match p.toNat?, parseRBuf buf, kindOf .Read d with
    | some p, some b, some k =>
      match lookup s.pipes p with
      | none => (s, "nohandle")
      | some pp =>
        if !pp.rOpen then (s, "closed") else
        if !decide b.wf then (s, "panic") else
        if pp.buf.isEmpty ∧ (pp.wOpen ∨ pp.fifo) then (s, "wouldblock") else
        let (n, b') := readOp k b (s.pipeBytes pp) 0
        ({ s with pipes := insert s.pipes p (pp.pop n) }, showRead n b')
    | _, _, _ => (s, "bad-op")
  | ["preadv", p, bufs] =>
    match p.toNat?, allSome ((listOf bufs).map parseRBuf), kindOf .ReadVectored d with
    | some p, some bs, some k =>
      match lookup s.pipes p with
      | none => (s, "nohandle")
      | some pp =>
        if !pp.rOpen then (s, "closed") else
        if !allWf bs then (s, "panic") else
        if pp.buf.isEmpty ∧ (pp.wOpen ∨ pp.fifo) then (s, "wouldblock") else
        let (n, bs') := readVecOp k bs (s.pipeBytes pp) 0
        ({ s with pipes := insert s.pipes p (pp.pop n) }, showReadVec n bs')
    | _, _, _ => (s, "bad-op")
  -- sequential ops on a REGULAR file through `AsyncFd<std::fs::File>` (defect C08a): io_uring submits
  -- `Read`/`Write` with offset 0, the polling driver cannot register a regular file with epoll
  | ["fseqopen", h, name, rw] =>
    match h.toNat? with
    | some h =>
      match s.resolve resolveFuel name with
      | .ok (_, some (.file i)) =>
        ({ s with handles := insert s.handles h ⟨some i, rw = "r" ∨ rw = "rw", rw = "w" ∨ rw = "rw", 0⟩ }, "ok")
      | .ok (_, some .dir) => (s, s!"err {EISDIR}")
      | .ok (_, _) => (s, s!"err {ENOENT}")
      | .error e => (s, s!"err {e}")
    | none => (s, "bad-op")
  | ["fseqread", h, buf] =>
    match h.toNat?, parseRBuf buf, kindOf .Read d with
    | some h, some b, some k =>
      match lookup s.handles h with
      | none => (s, "nohandle")
      | some hd =>
        if !decide b.wf then (s, "panic") else
        match seqOffset d hd.pos with
        | .error e => (s, s!"err {e}")
        | .ok off =>
          match readView d s hd off (b.offered k).2 false with
          | .error e => (s, s!"err {e}")
          | .ok (f, _, _) => let (n, b') := readOp k b f off; (s, showRead n b')
    | _, _, _ => (s, "bad-op")
  | ["fseqwrite", h, buf] =>
    match h.toNat?, parseWBuf buf, kindOf .Write d with
    | some h, some b, some k =>
      match lookup s.handles h with
      | none => (s, "nohandle")
      | some hd =>
        if !decide b.wf then (s, "panic") else
        match seqOffset d hd.pos with
        | .error e => (s, s!"err {e}")
        | .ok off =>
          match writable hd with
          | .error e => (s, s!"err {e}")
          | .ok i =>
            let data := b.offeredBytes k
            (s.setContent i (pwrite (s.content i) off data), s!"ok {data.length}")
    | _, _, _ => (s, "bad-op")
  | _ => (s, "bad-op")

/-! ## directory utilities on the tree below `T/` (driver independent) -/

open Compio.DirUtil (Ns)

def parsePath (s : String) : DirUtil.Path := (s.splitOn "/").filter (· ≠ "")

def showUnit : Except Nat Unit → String
  | .ok _ => "ok"
  | .error e => s!"err {e}"

def showStat : DirUtil.StatOut → String
  | .file => "ok file"
  | .dir => "ok dir"
  | .link => "ok symlink"
  | .err e => s!"err {e}"

def stepT (t : Ns) (w : List String) : Option (Ns × String) :=
  match w with
  | ["dtouch", p] => let (t', r) := t.touch (parsePath p); some (t', showUnit r)
  | ["dmkdir", p] => let (t', r) := t.mkdir (parsePath p); some (t', showUnit r)
  | ["dmkdirall", p] => let (t', r) := t.createDirAll (parsePath p); some (t', showUnit r)
  | ["dbuild", rec, _mode, p] =>
    if rec = "1" then let (t', r) := t.createDirAll (parsePath p); some (t', showUnit r)
    else if rec = "0" then let (t', r) := t.mkdir (parsePath p); some (t', showUnit r)
    else some (t, "bad-op")
  | ["drmdir", p] => let (t', r) := t.rmdir (parsePath p); some (t', showUnit r)
  | ["drm", p] => let (t', r) := t.unlink (parsePath p); some (t', showUnit r)
  | ["drename", a, b] => let (t', r) := t.rename (parsePath a) (parsePath b); some (t', showUnit r)
  | ["dlink", a, b] => let (t', r) := t.hardlink (parsePath a) (parsePath b); some (t', showUnit r)
  | ["dsymlink", target, p] => let (t', r) := t.symlink (parsePath target) (parsePath p); some (t', showUnit r)
  | ["dstat", p] => some (t, showStat (t.stat true (parsePath p)))
  | ["dlstat", p] => some (t, showStat (t.stat false (parsePath p)))
  | ["dtree"] => some (t, s!"ok {joinOr t.listing}")
  | _ => none

structure State where
  iour : St := {}
  poll : St := {}
  tree : Ns := {}

def step (s : State) (line : String) : State × String :=
  if line.startsWith "#case" then ({}, line.trimAscii.toString) else
  let w := words line
  match stepT s.tree w with
  | some (t, o) => ({ s with tree := t }, o)
  | none =>
    let (s1, o1) := stepD .iour s.iour w
    let (s2, o2) := stepD .poll s.poll w
    ({ s with iour := s1, poll := s2 }, if o1 = o2 then o1 else s!"iour={o1} poll={o2}")

end C08

def main : IO Unit := Compio.stdinLoop C08.step ({} : C08.State)
