/- line-protocol driver for the C13 models (same operations as harness/pure/src/bin/c13.rs) -/
import Compio.Model.Frame
import Compio.Model.Cmsg
import Compio.Model.Sink

open Compio Compio.Frame

namespace C13

inductive FramerSpec where
  | ld (f : LD)
  | any (d : Bytes)
  | noop

def parseFramer (s : String) : Option FramerSpec :=
  match s.splitOn ":" with
  | ["ld", l, b] => (l.toNat?).map fun n => .ld ⟨n, b == "1"⟩
  | ["any", h] => (parseHex h).map .any
  | ["char", c] => (c.toNat?).map fun n => .any (String.singleton (Char.ofNat n)).toUTF8.toList
  -- the same framers constructed through `Default::default()` instead of `new()`
  | ["chard", c] => (c.toNat?).map fun n => .any (String.singleton (Char.ofNat n)).toUTF8.toList
  | ["ldd"] => some (.ld ⟨4, true⟩)
  | ["noop"] => some .noop
  | _ => none

def FramerSpec.extract : FramerSpec → Bytes → Extract
  | .ld f => f.extract
  | .any d => anyExtract d
  | .noop => noopExtract 4096

def FramerSpec.enclose : FramerSpec → Bytes → Bytes
  | .ld f => f.enclose
  | .any d => anyEnclose d
  | .noop => id

def showExtract : Extract → String
  | .none => "none"
  | .frame p l s => s!"frame {p} {l} {s}"
  | .err => "err"
  | .panic => "panic"

/-- the harness' read-side codec rejects a payload starting with 0xEE (decode error, stream goes on) -/
def showItem (b : Bytes) : String :=
  if b.head? = some 0xEE then "decerr " else s!"item:{hexOf b} "

def showOuts : List Out → String
  | [] => "fuel"
  | [.item b] => showItem b ++ "fuel"
  | .item b :: rest => showItem b ++ showOuts rest
  | .err :: _ => "err"
  | .done :: _ => "done"
  | .panic :: _ => "panic"

/-- `codec` operation (shipped codecs): every frame handed to the codec is shown with its payload,
whether the codec decodes or rejects it — the stream goes on in both cases -/
def showOutsAll : List Out → String
  | [] => "fuel"
  | [.item b] => s!"item:{hexOf b} fuel"
  | .item b :: rest => s!"item:{hexOf b} " ++ showOutsAll rest
  | .err :: _ => "err"
  | .done :: _ => "done"
  | .panic :: _ => "panic"

def listOf (s : String) : List String := if s = "." then [] else s.splitOn ","

partial def chunks16 (data : Bytes) : List Bytes :=
  if data.isEmpty then [] else data.take 16 :: chunks16 (data.drop 16)

def fragBySizes (data : Bytes) : List Nat → List Bytes
  | [] => chunks16 data
  | s :: rest =>
    if data.isEmpty then [] else data.take s :: fragBySizes (data.drop s) rest

def allSome {α} : List (Option α) → Option (List α)
  | [] => some []
  | none :: _ => none
  | some a :: r => (allSome r).map (a :: ·)

def parseFrag (s : String) : Option Frag :=
  if s = "E" then some .ioerr else if s = "Z" then some (.data [])
  else (parseHex s).map .data

/-- signed decimal of a little-endian 4-byte two's complement value -/
def showI32 (b : Bytes) : String :=
  let v := leVal b
  if v < 2 ^ 31 then toString v else "-" ++ toString (2 ^ 32 - v)

def parseI32 (s : String) : Option Bytes :=
  if s.startsWith "-" then ((s.drop 1).toString.toNat?).map fun n => leBytes 4 (2 ^ 32 - n)
  else (s.toNat?).map (leBytes 4)

/-- `level:type:hex` or `level:type:hex:R` (the payload encoder of this message refuses) -/
def parseMsg (s : String) : Option (Bool × Bytes × Bytes × Bytes) :=
  let mk (rf : Bool) (l t d : String) : Option (Bool × Bytes × Bytes × Bytes) :=
    match parseI32 l, parseI32 t, parseHex d with
    | some l, some t, some d => some (rf, l, t, d)
    | _, _, _ => none
  match s.splitOn ":" with
  | [l, t, d] => mk false l t d
  | [l, t, d, "R"] => mk true l t d
  | _ => none

def showDecoded : Cmsg.Decoded → String
  | .ok bs => s!"ok:{hexOf bs}"
  | .small => "small"

def joinOr (sep : String) (l : List String) : String := if l.isEmpty then "." else sep.intercalate l

def cmsgOp (w : List String) : String :=
  match w with
  | ["build", cap, msgs] =>
    match cap.toNat?, allSome ((listOf msgs).map parseMsg) with
    | some cap, some ms =>
      match Cmsg.Builder.new cap with
      | .panic => "panic"
      | .ok b =>
        let (b', rs) := b.pushAllR ms
        let bytes := b'.finish
        let items := match Cmsg.iter bytes with
          | .panic => []
          | .msgs l => l.map fun (off, h) =>
              s!"{showI32 h.level}:{showI32 h.ty}:{h.len}:{showDecoded (Cmsg.decodeData bytes off (h.len - 16))}"
        let rs := rs.map fun | .ok => "ok" | .small => "small" | .refused => "refused"
        s!"cm {joinOr "," rs} | {hexOf bytes} | {joinOr ";" items}"
    | _, _ => "bad-op"
  | ["iter", h] =>
    match parseHex h with
    | some buf =>
      match Cmsg.iter buf with
      | .panic => "panic"
      | .msgs l => "cm " ++ joinOr ";" (l.map fun (_, h) => s!"{showI32 h.level}:{showI32 h.ty}:{h.len}")
    | none => "bad-op"
  | ["decode", h, n] =>
    match parseHex h, n.toNat? with
    | some buf, some n =>
      match Cmsg.iter buf with
      | .panic => "panic"
      | .msgs l => "cm " ++ joinOr ";" (l.map fun (off, h) =>
          s!"{showI32 h.level}:{showI32 h.ty}:{h.len}:{showDecoded (Cmsg.decodeData buf off n)}")
    | _, _ => "bad-op"
  | _ => "bad-op"

/-- one call of a `sink` script: `r<d>` poll_ready, `s<hex>` start_send, `f<d>` poll_flush, `c<d>` poll_close -/
def parseCall (enclose : Bytes → Bytes) (s : String) : Option Sink.Call :=
  let rest := (s.drop 1).toString
  match s.toList.head? with
  | some 'r' => rest.toNat?.map .ready
  | some 's' => (parseHex rest).map fun p => .send (enclose p)
  | some 'e' => (parseHex rest).map fun _ => .sendFail
  | some 'f' => rest.toNat?.map .flush
  | some 'c' => rest.toNat?.map .close
  | _ => none

def showRes : Sink.Res → String
  | .ready => "R" | .pending => "P" | .panic => "X" | .err => "E"

def sinkOp (_f : FramerSpec) (calls : List Sink.Call) : String :=
  let (s, rs) := Sink.run Sink.step {} calls
  s!"{String.join (rs.map showRes)} | {hexOf s.io.delivered} {hexOf s.io.buffered} {s.io.flushes} {s.io.shutdowns}"

def step (_ : Unit) (line : String) : Unit × String :=
  if line.startsWith "#case" then ((), line.trimAscii.toString) else
  let out :=
    match words line with
    | ["enclose", f, p] =>
      match parseFramer f, parseHex p with
      | some f, some p => hexOf (f.enclose p)
      | _, _ => "bad-op"
    | ["extract", f, b] =>
      match parseFramer f, parseHex b with
      | some f, some b => showExtract (f.extract b)
      | _, _ => "bad-op"
    | ["rt", f, frames, sizes, _wmax, _wf] =>
      match parseFramer f, allSome ((listOf frames).map parseHex), allSome ((listOf sizes).map (·.toNat?)) with
      | some f, some frames, some sizes =>
        -- items starting 0xEF are refused by the harness' encoder: never transmitted
        let enc := encodeAll f.enclose (frames.filter fun p => p.head? != some 0xEF)
        let frags := (fragBySizes enc sizes).map Frag.data
        s!"{hexOf enc} | {showOuts (runAll f.extract (enc.length + 2) RState.init frags)}"
      | _, _, _ => "bad-op"
    | ["stream", f, frags] =>
      match parseFramer f, allSome ((listOf frags).map parseFrag) with
      | some f, some frags =>
        showOuts (runAll f.extract (fuelFor RState.init frags + 1) RState.init frags)
      | _, _ => "bad-op"
    | ["codec", _codec, f, frags] =>
      match parseFramer f, allSome ((listOf frags).map parseFrag) with
      | some f, some frags =>
        showOutsAll (runAll f.extract (fuelFor RState.init frags + 1) RState.init frags)
      | _, _ => "bad-op"
    | ["sink", f, script] =>
      match parseFramer f with
      | some f =>
        match allSome ((listOf script).map (parseCall f.enclose)) with
        | some calls => sinkOp f calls
        | none => "bad-op"
      | none => "bad-op"
    | "cmsg" :: rest => cmsgOp rest
    | _ => "bad-op"
  ((), out)

end C13

def main : IO Unit := Compio.stdinLoop C13.step ()
