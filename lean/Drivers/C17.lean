/- line-protocol driver for the C17 model (same operations as harness/drv/src/bin/c17.rs)

  single-dispatcher cases (the harness waits for quiescence after every operation, so the schedule is forced):
    pool <limit> <timeout_ms>     -> ok
    disp <v|p|r>                  -> ok j=<j> w=<w> live=<n> run=<n> | busy j=<j> live=<n> run=<n> | panic j=<j>
    fin <j>                       -> fin j=<j> out=<value|panic|crash> | bad
    idle                          -> idle live=<n> run=<n>
  recorded concurrent histories (trace acceptor = `Spec.step`):
    hist <limit>                  -> ok
    c|o|x|q <d> <j>, b|e <w> <j>  -> . | reject
    end                           -> accept maxrun=<n> ok=<n> | reject
  live concurrent run with the drivers' retry loop (any fair schedule gives the same totals):
    conc <limit> <timeout_ms> <script> ...      -> conc value=<a> panic=<b> crash=<c> dropped=<d>
    prx <limit> <timeout_ms> <u|p> <script> ...  (same, through Proactors sharing the pool)
    script = `.` | <v|p|r><microseconds>,...
    burst <limit> <timeout_ms> <u|p> <ring capacity> <jobs> <microseconds>  -> conc value=<jobs> panic=0 crash=0 dropped=0
      (one Proactor, small ring, all jobs pushed without polling; the completion channel is unbounded in the model)
    busyfd <limit> <timeout_ms> <u|p> <script>   results while an fd is ready on every poll -> conc totals
    collect <limit> <timeout_ms> <u|p> <pop|popx|cancel|submit|submitx|spawnb> <v|e|p> <tag>  -> got value | got error | got unwind c17-payload-<tag>
    cfg <new|lt|tl|reuse|forcelt|forcetl> <1|2|256|max> <0|1ns|1ms|1s|half|max> <u|p>  -> cfg ok jobs=<n> extra=<held|none>
    dsp <limit> <workers> <in|out>   Dispatcher + worker runtimes, one pool behind both entry points -> dsp ok jobs=<limit+1> extra=held
    rawp <limit> <timeout_ms> <panics>   uncaught panics through raw dispatch, then limit+1 jobs -> rawp crashed=<p> ran=<limit> extra=busy
    parked <limit> <timeout_ms> <u|p> <hold_ms> <poll_timeout_ms>   shared pool held by a foreign dispatcher -> conc value=<limit+1> ..
-/
import Compio.Model.Common
import Compio.Model.AsyncifyPool

open Compio Compio.Asyncify

namespace C17

inductive Mode where
  | none
  | det (s : State)
  | hist (t : Option Spec.SState)

def parseKind : String → Option Kind
  | "v" => some .value
  | "p" => some .caught
  | "r" => some .raw
  | _ => none

def stats (s : State) : String := s!"live={live s} run={running s}"

def settle (s : State) : State := (quiesce (quiesceFuel s) s).2

/-- worker that started job `j` (last start logged) -/
def workerOf (s : State) (j : Nat) : Option Nat :=
  (s.ran.reverse.find? (fun e => e.1 == j)).map (·.2)

def detDisp (s : State) (k : Kind) : State × String :=
  let j := s.njobs
  match run? s [.submit 0 k, .trySend 0] with
  | none => (s, "bad")
  | some s1 =>
    let s2 := match s1.disp 0 with
      | .full _ => (step? s1 (.load 0)).getD s1
      | _ => s1
    let s3 := match s2.disp 0 with
      | .spawning _ => (run? s2 [.spawn 0, .send 0]).getD s2
      | _ => s2
    let s4 := settle s3
    match s4.disp 0 with
    | .refused _ =>
      match step? s4 (.giveUp 0) with
      | some s5 => (s5, s!"busy j={j} {stats s5}")
      | none => (s4, "stuck")
    | .panicked _ =>
      match step? s4 (.giveUp 0) with
      | some s5 => (s5, s!"panic j={j}")
      | none => (s4, "stuck")
    | .idle =>
      match workerOf s4 j with
      | some w => (s4, s!"ok j={j} w={w} {stats s4}")
      | none => (s4, "stuck")
    | _ => (s4, "stuck")

def findRunning (s : State) (j : Nat) : Nat → Option Nat
  | 0 => none
  | n + 1 => if s.wrk n = .running j then some n else findRunning s j n

def showOut (k : Kind) : String :=
  match k with
  | .value => "value"
  | .caught => "panic"
  | .raw => "crash"

def detFin (s : State) (j : Nat) : State × String :=
  match findRunning s j s.nw with
  | none => (s, "bad")
  | some w =>
    match step? s (.finish w) with
    | none => (s, "bad")
    | some s1 =>
      -- the submitter pops its completion entry (nothing to pop after a crash)
      let s2 := (step? s1 (.reap (s.owner j))).getD s1
      (settle s2, s!"fin j={j} out={showOut (s.kind j)}")

def detIdle (s : State) : State × String :=
  let s1 := s.waiting.foldl (fun acc w => (step? acc (.timeout w)).getD acc) s
  let s2 := settle s1
  (s2, s!"idle {stats s2}")

/-! round-robin (fair) schedule for `conc`: dispatcher `d` works through `scripts[d]` with the retry loop -/

def dispNext (s : State) (scripts : List (List Kind)) (d : Nat) : Option (Event × List (List Kind)) :=
  match s.disp d with
  | .idle =>
    match scripts[d]? with
    | some (k :: rest) => some (.submit d k, scripts.set d rest)
    | _ => none
  | .trying _ => some (.trySend d, scripts)
  | .full _ => some (.load d, scripts)
  | .spawning _ => some (.spawn d, scripts)
  | .sending _ => some (.send d, scripts)
  | .refused _ => some (.retry d, scripts)
  | .panicked _ => some (.giveUp d, scripts)
  | .blocked => none

def wrkNext (s : State) (w : Nat) : Option Event :=
  match s.wrk w with
  | .running _ => some (.finish w)
  | _ => internalOf s w

/-- one round: every dispatcher and every worker gets one turn; returns whether anything moved -/
def round (s : State) (scripts : List (List Kind)) : State × List (List Kind) × Bool :=
  let (s, scripts, moved) := (List.range s.nd).foldl (fun (acc : State × List (List Kind) × Bool) d =>
    let (s, sc, m) := acc
    match dispNext s sc d with
    | some (e, sc') => match step? s e with
      | some s' => (s', sc', true)
      | none => (s, sc, m)
    | none => (s, sc, m)) (s, scripts, false)
  let (s, moved) := (List.range s.nw).foldl (fun (acc : State × Bool) w =>
    let (s, m) := acc
    match wrkNext s w with
    | some e => match step? s e with
      | some s' => (s', true)
      | none => (s, m)
    | none => (s, m)) (s, moved)
  let (s, moved) := (List.range s.nd).foldl (fun (acc : State × Bool) d =>
    let (s, m) := acc
    match step? s (.reap d) with
    | some s' => (s', true)
    | none => (s, m)) (s, moved)
  (s, scripts, moved)

def rounds : Nat → State → List (List Kind) → State
  | 0, s, _ => s
  | fuel + 1, s, sc =>
    let (s', sc', moved) := round s sc
    if moved then rounds fuel s' sc' else s'

def concOp (limit : Nat) (scripts : List (List Kind)) : String :=
  let total := (scripts.map List.length).foldl (· + ·) 0
  let s := rounds (20 * total + 50) (init limit scripts.length false) scripts
  let v := s.delivered.countP (fun e => e.out == .value)
  let p := s.delivered.countP (fun e => e.out == .panic)
  let pending := total - (v + p + s.crashed.length + s.dropped.length)
  if pending = 0 then s!"conc value={v} panic={p} crash={s.crashed.length} dropped={s.dropped.length}"
  else s!"conc pending={pending}"

def allSome {α} : List (Option α) → Option (List α)
  | [] => some []
  | none :: _ => none
  | some a :: r => (allSome r).map (a :: ·)

/-- a script is `.` or comma separated tokens `<v|p|r><microseconds>`; only the kind matters to the model -/
def parseScript (w : String) : Option (List Kind) :=
  if w = "." then some [] else allSome ((w.splitOn ",").map fun t => parseKind (t.take 1).toString)

def parseObs (c : String) (a b : Nat) : Option Spec.Obs :=
  match c with
  | "c" => some (.call a b)
  | "o" => some (.retOk a b)
  | "x" => some (.retBusy a b)
  | "q" => some (.retPanic a b)
  | "b" => some (.begin a b)
  | "e" => some (.fin a b)
  | _ => none

def step (m : Mode) (line : String) : Mode × String :=
  if line.startsWith "#case" then (.none, line.trimAscii.toString) else
  match words line, m with
  | ["pool", l, _t], _ =>
    match l.toNat? with
    | some l => (.det (init l 1 false), "ok")
    | none => (m, "bad-op")
  | ["disp", k], .det s =>
    match parseKind k with
    | some k => let (s', o) := detDisp s k; (.det s', o)
    | none => (m, "bad-op")
  | ["fin", j], .det s =>
    match j.toNat? with
    | some j => let (s', o) := detFin s j; (.det s', o)
    | none => (m, "bad-op")
  | ["idle"], .det s => let (s', o) := detIdle s; (.det s', o)
  | "conc" :: l :: _t :: scripts, _ =>
    match l.toNat?, allSome (scripts.map parseScript) with
    | some l, some sc => (m, concOp l sc)
    | _, _ => (m, "bad-op")
  | "prx" :: l :: _t :: _drv :: scripts, _ =>
    match l.toNat?, allSome (scripts.map parseScript) with
    | some l, some sc => (m, concOp l sc)
    | _, _ => (m, "bad-op")
  | ["burst", l, _t, _drv, _cap, n, _dur], _ =>
    -- the drivers' completion channel is unbounded in the model (`completed ++ [..]` never blocks a worker):
    -- a burst pushed without polling completes entirely
    match l.toNat?, n.toNat? with
    | some l, some n => (m, concOp l [List.replicate n Kind.value])
    | _, _ => (m, "bad-op")
  | ["busyfd", l, _t, _drv, script], _ =>
    -- `reap` is enabled whenever a completion entry exists, whatever else the driver has to do (fd events)
    match l.toNat?, parseScript script with
    | some l, some sc => (m, concOp l [sc])
    | _, _ => (m, "bad-op")
  | ["parked", l, _t, _drv, _hold, _pt], _ =>
    -- a foreign dispatcher fills the shared pool; the driver's refused submission is retried by the driver itself
    match l.toNat? with
    | some l => (m, concOp l [List.replicate l Kind.value, [Kind.value]])
    | none => (m, "bad-op")
  | ["collect", _l, _t, _drv, path, kind, tag], _ =>
    let path? : Option CollectPath := match path with
      | "pop" => some .pop | "popx" => some .popWithExtra | "cancel" => some .cancel
      | "submit" => some .submit | "submitx" => some .submitWithExtra | "spawnb" => some .spawnBlocking
      | _ => none
    match path?, tag.toNat? with
    | some path, some tag =>
      let job? : Option JobResult := match kind with
        | "v" => some (.ok (tag + 1000)) | "e" => some (.err 33) | "p" => some (.panicked tag) | _ => none
      match job? with
      | some job =>
        match collect path (catchUnwindIo job) with
        | .value _ => (m, "got value")
        | .error _ => (m, "got error")
        | .unwind p => (m, s!"got unwind c17-payload-{p}")
      | none => (m, "bad-op")
    | _, _ => (m, "bad-op")
  | ["cfg", _via, lim, tmo, _drv], _ =>
    let limit? : Option Nat := match lim with
      | "1" => some 1 | "2" => some 2 | "256" => some 256 | "max" => some (2 ^ 64 - 1) | _ => none
    let tmo? : Option Nat := match tmo with
      | "0" => some 0 | "1ns" => some 1 | "1ms" => some 1000000 | "1s" => some 1000000000
      | "half" => some ((2 ^ 64 - 1) / 2 * 1000000000) | "max" => some ((2 ^ 64 - 1) * 1000000000 + 999999999)
      | _ => none
    match limit?, tmo? with
    | some limit, some tmo =>
      -- the new worker reaches `recv` whatever the timeout is (checked deadline), so the forced schedule runs
      match workerPrologue 1000000000 tmo with
      | .panic => (m, "cfg ok jobs=0 extra=none")
      | .enterRecv _ =>
        let n := min limit 3
        let extra := decide (limit ≤ 2)
        -- n gated jobs are accepted one by one; the extra one is refused while they run
        let s0 := init limit 1 false
        let (s1, _) := (List.range n).foldl (fun (acc : State × Nat) _ => ((detDisp acc.1 .value).1, acc.2)) (s0, 0)
        let (s2, o) := if extra then detDisp s1 .value else (s1, "")
        let held := if extra then (if o.startsWith "busy" then "held" else "ran") else "none"
        let started := running s2
        let total := started + (if extra && held == "held" then 1 else 0)
        (m, s!"cfg ok jobs={total} extra={held}")
    | _, _ => (m, "bad-op")
  | ["dsp", lim, _workers, _dir], _ =>
    -- ONE pool behind `spawn_blocking` in the worker runtimes and `Dispatcher::dispatch_blocking`
    -- (`Props.C17.dispatcher_entry_points_share_one_pool`): `limit` gated jobs through one entry point, the extra
    -- one through the other is refused while they run, whichever dispatcher of the model submits it
    match lim.toNat? with
    | some limit =>
      let s0 := init limit 1 false
      let s1 := (List.range limit).foldl (fun (acc : State) _ => (detDisp acc .value).1) s0
      let (s2, o) := detDisp s1 .value
      let held := if o.startsWith "busy" then "held" else "ran"
      let total := running s2 + (if held == "held" then 1 else 0)
      (m, s!"dsp ok jobs={total} extra={held}")
    | none => (m, "bad-op")
  | ["rawp", lim, _t, panics], _ =>
    -- uncaught panics kill their thread; `exit` (the guard's `fetch_sub`) is taken on that path too, so afterwards
    -- `limit` jobs are accepted and one more is refused
    match lim.toNat?, panics.toNat? with
    | some limit, some panics =>
      let s0 := init limit 1 false
      let (s1, crashed) := (List.range panics).foldl (fun (acc : State × Nat) _ =>
        let (a, o) := detDisp acc.1 .raw
        let j := a.njobs - 1
        let (b, o2) := detFin a j
        (b, acc.2 + (if o.startsWith "ok" && o2.endsWith "crash" then 1 else 0))) (s0, 0)
      let base := running s1
      let s2 := (List.range limit).foldl (fun (acc : State) _ => (detDisp acc .value).1) s1
      let (_, o) := detDisp s2 .value
      (m, s!"rawp crashed={crashed} ran={running s2 - base} extra={if o.startsWith "busy" then "busy" else "other"}")
    | _, _ => (m, "bad-op")
  | ["hist", l], _ =>
    match l.toNat? with
    | some l => (.hist (some (Spec.sinit l)), "ok")
    | none => (m, "bad-op")
  | "bad" :: _, .hist _ => (m, "violation")   -- a monitor fired while the history was recorded (no model content)
  | ["end"], .hist t =>
    match t with
    | some t =>
      if Spec.allSettled t t.seen && t.inCalls == 0 then (.hist (some t), s!"accept maxrun={t.maxrun} ok={t.okCount}")
      else (.hist none, "reject unsettled")
    | none => (m, "reject")
  | [c, a, b], .hist t =>
    match t, a.toNat?, b.toNat? with
    | some t, some a, some b =>
      match parseObs c a b with
      | some o =>
        match Spec.step t o with
        | some t' => (.hist (some t'), ".")
        | none => (.hist none, "reject")
      | none => (m, "bad-op")
    | none, some _, some _ => (m, "reject")
    | _, _, _ => (m, "bad-op")
  | _, _ => (m, "bad-op")

end C17

def main : IO Unit := Compio.stdinLoop C17.step C17.Mode.none
