/- line-protocol driver for C01: the shared key life-cycle script (same lines as harness/drv/src/bin/c01.rs) -/
import Compio.Model.KeyLifeScript

def main : IO Unit :=
  Compio.stdinLoop Compio.KeyLife.Script.stepLine (Compio.KeyLife.Script.Sim.init .iour 1024)
