/- line-protocol driver for C01: the shared key life-cycle script (same lines as harness/drv/src/bin/c01.rs);
   a case that starts with `mfd <drv>` is a multi-descriptor case and runs on `Compio.MultiFd` -/
import Compio.Model.KeyLifeScript
import Compio.Model.MultiFd

structure C01St where
  k : Compio.KeyLife.Script.Sim
  m : Option Compio.MultiFd.Sim

def c01Step (s : C01St) (ln : String) : C01St × String :=
  if ln.startsWith "#case" then
    let (k, o) := Compio.KeyLife.Script.stepLine s.k ln
    (⟨k, none⟩, o)
  else
    match Compio.words ln with
    | ["mfd", d] => ({ s with m := some (Compio.MultiFd.Sim.init (if d = "poll" then .poll else .iour)) }, "ok | -")
    | w =>
      match s.m with
      | some m =>
        let (m', o) := Compio.MultiFd.exec m w
        ({ s with m := some m' }, o)
      | none =>
        let (k, o) := Compio.KeyLife.Script.stepLine s.k ln
        ({ s with k := k }, o)

def main : IO Unit :=
  Compio.stdinLoop c01Step ⟨Compio.KeyLife.Script.Sim.init .iour 1024, none⟩
