/- line-protocol driver for C05: the shared key life-cycle script (same lines as harness/drv/src/bin/c05.rs) plus the C05-only
   lines (submit flavours of the runtime cases, multi-descriptor world) -/
import Compio.Model.KeyLifeScript05

def main : IO Unit :=
  Compio.stdinLoop Compio.KeyLife.Script05.stepLine05 Compio.KeyLife.Script05.S05.init
