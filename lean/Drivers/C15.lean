/- line-protocol driver for the C15 models (same case lines as harness/apps/src/bin/c15.rs).

A case is run as a whole (the endpoint tasks of the harness are not synchronised between steps), so the
driver reads all of stdin, groups the lines by `#case`, and prints one output line per input line. -/
import Compio.Model.Common
import Compio.Model.TlsSys
import Compio.Model.WsShim

open Compio Compio.TlsNet Compio.TlsShim Compio.TlsSys Compio.WsShim

namespace C15

/-- SplitMix64 as in harness/common (`Rng::new(seed).next()`) -/
def smNext (s : UInt64) : UInt64 × UInt64 :=
  let s := s + 0x9E3779B97F4A7C15
  let z := s
  let z := (z ^^^ (z >>> 30)) * 0xBF58476D1CE4E5B9
  let z := (z ^^^ (z >>> 27)) * 0x94D049BB133111EB
  (s, z ^^^ (z >>> 31))

def leBytes (x : UInt64) (k : Nat) : List UInt8 :=
  (List.range k).map fun i => (x >>> (8 * i).toUInt64).toUInt8

/-- `payload(len, seed)` of the harness -/
def payloadAux : Nat → Nat → UInt64 → List UInt8 → List UInt8
  | 0, _, _, acc => acc.reverse
  | fuel + 1, len, s, acc =>
    if len = 0 then acc.reverse
    else
      let (s, x) := smNext s
      let k := min len 8
      payloadAux fuel (len - k) s ((leBytes x k).reverse ++ acc)

def payload (len : Nat) (seed : Nat) : List UInt8 :=
  payloadAux (len + 1) len ((seed.toUInt64 ^^^ 0xC15) ^^^ 0x9E3779B97F4A7C15) []

def kv (ws : List String) (k : String) : Option String :=
  ws.findSome? fun w => if w.startsWith (k ++ "=") then some (w.drop (k.length + 1)).toString else none

def kvNat (ws : List String) (k : String) : Option Nat := (kv ws k).bind String.toNat?

/-- the nominal handshakes of the abstract engine (a tenth of the real sizes). The outcome lines do not depend
on the sizes (`Props.C15.handshake_completes` holds for every tape), but the *shape* matters for who writes the
last handshake message:
* a rustls acceptor negotiates TLS 1.3: client hello, server flight, client finished (the CLIENT writes last);
  then `post13` cells of session tickets from the server;
* a native-tls acceptor negotiates at most TLS 1.2: client hello, server flight, client key exchange + finished,
  server finished (the SERVER writes last), no post-handshake cells. -/
def tape13 : List Side :=
  List.replicate 52 Side.client ++ List.replicate 150 Side.server ++ List.replicate 8 Side.client

def post13 : Nat := 50

def tape12 : List Side :=
  List.replicate 52 Side.client ++ List.replicate 150 Side.server ++ List.replicate 30 Side.client ++
  List.replicate 25 Side.server

def parseSteps : List String → Option (List (String × Step × Step))
  | [] => some []
  | l :: rest =>
    match words l, parseSteps rest with
    | ["xfer", dir, len, seed], some r =>
      match len.toNat?, seed.toNat? with
      | some len, some seed =>
        let d := payload len seed
        if dir = "c2s" then some (("xfer", .send d, .recv d) :: r)
        else if dir = "s2c" then some (("xfer", .recv d, .send d) :: r)
        else none
      | _, _ => none
    | ["close", who], some r =>
      if who = "c" then some (("close", .closeInit, .closeResp) :: r)
      else if who = "s" then some (("close", .closeResp, .closeInit) :: r)
      else none
    | _, _ => none

def resAt (l : List StepRes) (i : Nat) : StepRes := (l[i]?).getD .notReached

/-- the output lines of the harness (`exec_tls`) from the two result vectors -/
def outLines (words : List String) (rc rs : List StepRes) (endw : RunEnd) : List String :=
  let rec go (i : Nat) (ws : List String) (bad : Bool) : List String :=
    match ws with
    | [] => []
    | w :: rest =>
      let line :=
        match resAt rc i, resAt rs i with
        | .ok x, .ok y => if i = 0 then "hs ok" else if w = "xfer" then s!"xfer ok {max x y}" else "close ok"
        | a, b =>
          if a = .mismatch || b = .mismatch then s!"{w} mismatch"
          else if a = .err || b = .err then s!"{w} err"
          else if a = .notReached && b = .notReached && bad then s!"{w} skip"
          else if endw = .spin then s!"{w} spin" else s!"{w} stuck"
      let isOk := match resAt rc i, resAt rs i with | .ok _, .ok _ => true | _, _ => false
      line :: go (i + 1) rest (bad || !isOk)
  go 0 words false

def runTls (lines : List String) : List String :=
  match lines with
  | [] => []
  | l0 :: rest =>
    let ws := words l0
    match kv ws "be", kv ws "tr", kvNat ws "lim", kv ws "buf", kvNat ws "dr", kvNat ws "dw", kvNat ws "dfh",
          kvNat ws "df", parseSteps rest with
    | some be, some tr, some lim, some buf, some dr, some dw, some dfh, some df, some steps =>
      let astream := tr == "astream"
      let sc : Sched :=
        { lim, buffering := !astream && buf == "1", astream, dr, dw,
          dfh := if astream then 0 else dfh, df := if astream then 0 else df,
          fuel := 4611686018427387904 }
      let (bec, bes) := match be.splitOn "-" with
        | [a, b] => (a, b)
        | _ => (be, be)
      let (tape, post) := if bes == "rustls" then (tape13, post13) else (tape12, 0)
      let y := Sys.initX sc (bec == "rustls") (bes == "rustls") tape post (steps.map (·.2.1)) (steps.map (·.2.2))
      let (y, e) := run 100000000 y
      if y.panicked then lines.map fun _ => "panic"
      else outLines ("hs" :: steps.map (·.1)) y.c.res y.s.res e
    | _, _, _, _, _, _, _, _, _ => lines.map fun _ => "bad-op"

/-! ### WebSocket cases: the two `side` tasks of harness/apps/src/bin/c15/ws.rs meet at a barrier after every
step, so the steps are run one after the other -/

structure WSys where
  sc : WSched
  a : Ws            -- client
  b : Ws            -- server
  ta : List Frame × Nat × Nat     -- (tbuf, cw, cf) of the client's stream
  tb : List Frame × Nat × Nat
  ab : List Frame   -- frames in flight client → server
  ba : List Frame

def WSys.viewA (y : WSys) : WView := ⟨y.ta.1, y.ta.2.1, y.ta.2.2, y.ab, y.ba, false⟩
def WSys.viewB (y : WSys) : WView := ⟨y.tb.1, y.tb.2.1, y.tb.2.2, y.ba, y.ab, false⟩
def WSys.putA (y : WSys) (w : Ws) (v : WView) : WSys :=
  { y with a := w, ta := (v.tbuf, v.cw, v.cf), ab := v.tx, ba := v.rx }
def WSys.putB (y : WSys) (w : Ws) (v : WView) : WSys :=
  { y with b := w, tb := (v.tbuf, v.cw, v.cf), ba := v.tx, ab := v.rx }

/-- what one side does in a step: a script of sends and expected reads, run in order -/
inductive Act where
  | send (f : Frame) (queued : Bool)
  | expect (want : Frame)
  deriving Repr

/-- poll one side once: run its script until a `Pending` or the end; `ok` turns false on a wrong message -/
def pollScript (sc : WSched) : Nat → Ws → WView → List Act → Bool → Ws × WView × List Act × Bool
  | 0, w, v, acts, ok => (w, v, acts, ok)
  | fuel + 1, w, v, acts, ok =>
    match acts with
    | [] => (w, v, [], ok)
    | .send f queued :: rest =>
      match pollSend sc w v f queued with
      | (w, v, q, .pending _) => (w, v, .send f q :: rest, ok)
      | (w, v, _, .ready ()) => pollScript sc fuel w v rest ok
    | .expect want :: rest =>
      match pollNext sc w v with
      | (w, v, .pending _) => (w, v, .expect want :: rest, ok)
      | (w, v, .ready got) => pollScript sc fuel w v rest (ok && got == want)

def runStep : Nat → WSys → List Act × Bool → List Act × Bool → WSys × Option (Bool × Bool)
  | 0, y, _, _ => (y, none)
  | fuel + 1, y, (ja, oka), (jb, okb) =>
    match ja, jb with
    | [], [] => (y, some (oka, okb))
    | _, _ =>
      let (wa, va, ja, oka) := pollScript y.sc (ja.length + 1) y.a y.viewA ja oka
      let y := y.putA wa va
      let (wb, vb, jb, okb) := pollScript y.sc (jb.length + 1) y.b y.viewB jb okb
      runStep fuel (y.putB wb vb) (ja, oka) (jb, okb)

def wsBody (kind : String) (len seed : Nat) : List UInt8 :=
  let p := payload len seed
  if kind = "text" then p.map fun b => 97 + b % 26 else p

def kindOf (s : String) : Option Kind :=
  if s = "text" then some .text else if s = "bin" then some .bin else if s = "ping" then some .ping else none

/-- `burst_kind` of the harness -/
def burstKind (seed i : Nat) : String := if (seed + i) % 4 = 3 then "text" else "ping"

def burstFrame (len seed i : Nat) : Frame :=
  let k := burstKind seed i
  ⟨if k = "text" then .text else .ping, wsBody k len (seed + i)⟩

def runWsSteps (y : WSys) (bad : Bool) : List String → List String
  | [] => []
  | l :: rest =>
    let ws := words l
    let word := (ws.head?).getD "?"
    if bad then s!"{word} skip" :: runWsSteps y true rest
    else
      let jobs : Option (List Act × List Act × String) :=
        match ws with
        | ["msg", dir, kind, len, seed] =>
          match kindOf kind, len.toNat?, seed.toNat? with
          | some k, some len, some seed =>
            let f : Frame := ⟨k, wsBody kind len seed⟩
            let snd := [Act.send f false] ++ (if k = .ping then [Act.expect ⟨.pong, f.data⟩] else [])
            let rcv := [Act.expect f]
            if dir = "c2s" then some (snd, rcv, s!"msg ok {kind} {len}")
            else if dir = "s2c" then some (rcv, snd, s!"msg ok {kind} {len}") else none
          | _, _, _ => none
        | ["burst", dir, count, len, seed] =>
          match count.toNat?, len.toNat?, seed.toNat? with
          | some count, some len, some seed =>
            let fs := (List.range count).map (burstFrame len seed)
            let snd := fs.map (Act.send · false) ++
              (fs.filter (·.kind == .ping)).map fun f => Act.expect ⟨.pong, f.data⟩
            let rcv := fs.map Act.expect
            if dir = "c2s" then some (snd, rcv, s!"burst ok {count}")
            else if dir = "s2c" then some (rcv, snd, s!"burst ok {count}") else none
          | _, _, _ => none
        | ["wsclose", who] =>
          let f : Frame := ⟨.close, []⟩
          let ini := [Act.send f false, Act.expect f]
          let rsp := [Act.expect f]
          if who = "c" then some (ini, rsp, "wsclose ok") else if who = "s" then some (rsp, ini, "wsclose ok") else none
        | _ => none
      match jobs with
      | none => "bad-op" :: runWsSteps y true rest
      | some (ja, jb, okLine) =>
        match runStep (64 + 16 * (ja.length + jb.length)) y (ja, true) (jb, true) with
        | (y, some (true, true)) => okLine :: runWsSteps y false rest
        | (y, some _) => s!"{word} mismatch" :: runWsSteps y true rest
        | (y, none) => s!"{word} stuck" :: runWsSteps y true rest

def runWs (lines : List String) : List String :=
  match lines with
  | [] => []
  | l0 :: rest =>
    match kv (words l0) "tls" with
    | some tls =>
      -- a back-pressured endpoint (`sb`): the writes of the stream pend (here: once each), so that the flush
      -- `poll_next` performs before yielding returns `Pending` with the item parked
      let sb := (kv (words l0) "sb").getD "none"
      let sc : WSched := { buffering := tls != "none", dw := if sb = "none" then 0 else 1, df := 0 }
      "ws ok" :: runWsSteps ⟨sc, Ws.new, Ws.new, ([], 0, 0), ([], 0, 0), [], []⟩ false rest
    | none => lines.map fun _ => "bad-op"

def runCase (lines : List String) : List String :=
  match lines with
  | [] => []
  | l0 :: _ =>
    if l0.startsWith "tls " then runTls lines
    else if l0.startsWith "ws " then runWs lines
    else lines.map fun _ => "bad-op"

/-- split the input into cases; a `#case` line is answered by itself -/
def processAll (lines : List String) : List String :=
  let rec go (ls : List String) (cur : List String) (acc : List String) : List String :=
    match ls with
    | [] => (acc.reverse ++ runCase cur.reverse)
    | l :: rest =>
      if l.startsWith "#case" then go rest [] ((runCase cur.reverse).reverse ++ acc |> fun a => l :: a)
      else go rest (l :: cur) acc
  go lines [] []

end C15

partial def readAll (h : IO.FS.Stream) (acc : Array String) : IO (Array String) := do
  let line ← h.getLine
  if line.isEmpty then return acc
  readAll h (acc.push (line.trimAscii.toString))

def main : IO Unit := do
  let h ← IO.getStdin
  let out ← IO.getStdout
  let lines ← readAll h #[]
  for l in C15.processAll lines.toList do
    out.putStrLn l
  out.flush
