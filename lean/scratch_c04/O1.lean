import Compio.Lemmas.ExecutorTick
namespace Compio.Executor
open Compio.TaskWord Compio.Gen
set_option linter.unusedSimpArgs false
set_option linter.unusedVariables false

/-! ## more per-task facts -/

theorem dropRef_nc (t : TaskSt) : (dropRef t).word.notCancelled = t.word.notCancelled := by
  obtain ⟨⟨s, sg, nsw, hw, c, hr, nc, cnt⟩, st, slot, script, sh, hd, wk, polls, fd, rt, rd, ss, sd, de, uaf, bp⟩ := t
  cases hr <;> cases hw <;> simp [dropRef] <;> split <;> split <;> rfl

theorem dropRef_sched (t : TaskSt) : (dropRef t).word.scheduled = t.word.scheduled := by
  obtain ⟨⟨s, sg, nsw, hw, c, hr, nc, cnt⟩, st, slot, script, sh, hd, wk, polls, fd, rt, rd, ss, sd, de, uaf, bp⟩ := t
  cases hr <;> cases hw <;> simp [dropRef] <;> split <;> split <;> rfl

theorem pollTask_nc (t : TaskSt) (w : Nat) : (pollTask t w).1.word.notCancelled = t.word.notCancelled := by
  obtain ⟨⟨s, sg, nsw, hw, c, hr, nc, cnt⟩, st, slot, script, sh, hd, wk, polls, fd, rt, rd, ss, sd, de, uaf, bp⟩ := t
  cases hr <;> cases nc <;> cases c <;> cases hw <;> simp [pollTask, dropRef_nc] <;> split <;> rfl

theorem pollTask_sched (t : TaskSt) (w : Nat) : (pollTask t w).1.word.scheduled = t.word.scheduled := by
  obtain ⟨⟨s, sg, nsw, hw, c, hr, nc, cnt⟩, st, slot, script, sh, hd, wk, polls, fd, rt, rd, ss, sd, de, uaf, bp⟩ := t
  cases hr <;> cases nc <;> cases c <;> cases hw <;> simp [pollTask, dropRef_sched] <;> split <;> rfl

theorem pollTask_polls (t : TaskSt) (w : Nat) : (pollTask t w).1.polls = t.polls := by
  obtain ⟨⟨s, sg, nsw, hw, c, hr, nc, cnt⟩, st, slot, script, sh, hd, wk, polls, fd, rt, rd, ss, sd, de, uaf, bp⟩ := t
  cases hr <;> cases nc <;> cases c <;> cases hw <;> simp [pollTask, dropRef_polls] <;> split <;> rfl

/-- `unreachable!("Task is completed but has no result")` in `Local::poll` is unreachable -/
theorem pollTask_valid (q : Bool) (t : TaskSt) (w : Nat) (h : TInv q t) (hh : t.handle = true) :
    (pollTask t w).2 ≠ .invalid := by
  have := h.hd hh
  obtain ⟨⟨s, sg, nsw, hw, c, hr, nc, cnt⟩, st, slot, script, sh, hd, wk, polls, fd, rt, rd, ss, sd, de, uaf, bp⟩ := t
  cases hr <;> cases nc <;> cases c <;> cases hw <;> simp [pollTask] at this ⊢ <;> split <;> simp

/-- a cancelled task's handle never returns Pending (`JoinHandle::cancel` completes at once) -/
theorem pollTask_cancelled (t : TaskSt) (w : Nat) (hc : t.word.notCancelled = false) :
    (pollTask t w).2 = .ok ∨ (pollTask t w).2 = .panicked ∨ (pollTask t w).2 = .cancelled := by
  obtain ⟨⟨s, sg, nsw, hw, c, hr, nc, cnt⟩, st, slot, script, sh, hd, wk, polls, fd, rt, rd, ss, sd, de, uaf, bp⟩ := t
  simp at hc; subst hc
  cases hr <;> simp [pollTask]
  split <;> simp_all

theorem remotePollTask_nc (t : TaskSt) (w : Nat) : (remotePollTask t w).1.word.notCancelled = t.word.notCancelled := by
  obtain ⟨⟨s, sg, nsw, hw, c, hr, nc, cnt⟩, st, slot, script, sh, hd, wk, polls, fd, rt, rd, ss, sd, de, uaf, bp⟩ := t
  cases hr <;> cases nc <;> cases c <;> cases hw <;> simp [remotePollTask, dropRef_nc] <;> split <;> rfl

theorem remotePollTask_sched (t : TaskSt) (w : Nat) : (remotePollTask t w).1.word.scheduled = t.word.scheduled := by
  obtain ⟨⟨s, sg, nsw, hw, c, hr, nc, cnt⟩, st, slot, script, sh, hd, wk, polls, fd, rt, rd, ss, sd, de, uaf, bp⟩ := t
  cases hr <;> cases nc <;> cases c <;> cases hw <;> simp [remotePollTask, dropRef_sched] <;> split <;> rfl

theorem remotePollTask_polls (t : TaskSt) (w : Nat) : (remotePollTask t w).1.polls = t.polls := by
  obtain ⟨⟨s, sg, nsw, hw, c, hr, nc, cnt⟩, st, slot, script, sh, hd, wk, polls, fd, rt, rd, ss, sd, de, uaf, bp⟩ := t
  cases hr <;> cases nc <;> cases c <;> cases hw <;> simp [remotePollTask, dropRef_polls] <;> split <;> rfl

/-- `Remote::poll` never spins on "completed without result" -/
theorem remotePollTask_valid (q : Bool) (t : TaskSt) (w : Nat) (h : TInv q t) (hh : t.handle = true) :
    (remotePollTask t w).2 ≠ .invalid := by
  have := h.hd hh
  obtain ⟨⟨s, sg, nsw, hw, c, hr, nc, cnt⟩, st, slot, script, sh, hd, wk, polls, fd, rt, rd, ss, sd, de, uaf, bp⟩ := t
  cases hr <;> cases nc <;> cases c <;> cases hw <;> simp [remotePollTask] at this ⊢ <;> split <;> simp

theorem remotePollTask_cancelled (t : TaskSt) (w : Nat) (hc : t.word.notCancelled = false) :
    (remotePollTask t w).2 = .ok ∨ (remotePollTask t w).2 = .panicked ∨ (remotePollTask t w).2 = .cancelled := by
  obtain ⟨⟨s, sg, nsw, hw, c, hr, nc, cnt⟩, st, slot, script, sh, hd, wk, polls, fd, rt, rd, ss, sd, de, uaf, bp⟩ := t
  simp at hc; subst hc
  cases hr <;> simp [remotePollTask]
  split <;> simp_all

/-- on a sequential schedule `Remote::poll` and `Local::poll` do the same to the task and return the same -/
theorem remotePollTask_eq_pollTask (t : TaskSt) (w : Nat) (hn : t.word.notSettingWaker = true)
    (hv : (pollTask t w).2 ≠ .invalid) : remotePollTask t w = pollTask t w := by
  obtain ⟨⟨s, sg, nsw, hw, c, hr, nc, cnt⟩, st, slot, script, sh, hd, wk, polls, fd, rt, rd, ss, sd, de, uaf, bp⟩ := t
  simp at hn; subst hn
  cases hr <;> cases nc <;> cases c <;> cases hw <;> simp [remotePollTask, pollTask] at hv ⊢ <;> split <;> simp_all

theorem cancelWord_handle (t : TaskSt) (b : Bool) : (cancelWord t b).handle = t.handle := by
  unfold cancelWord; simp only; split <;> rfl

theorem cancelWord_polls (t : TaskSt) (b : Bool) : (cancelWord t b).polls = t.polls := by
  unfold cancelWord; simp only; split <;> rfl

theorem cancelWord_nc (t : TaskSt) (b : Bool) : (cancelWord t b).word.notCancelled = false := by
  unfold cancelWord; simp only; split <;> rfl

theorem cancelWord_sched (t : TaskSt) (b : Bool) : (cancelWord t b).word.scheduled = t.word.scheduled := by
  unfold cancelWord; simp only; split <;> rfl

/-! ## rewriting one task -/

theorem Inv.setTask {e : Exec} (h : Inv e) {id : Nat} {t t' : TaskSt} (hg : e.get? id = some t)
    (ht : TInv (inMap e id) t')
    (hn : t'.word.notCancelled = false → id ∈ e.cold → id ∈ e.sync ∨ e.inflight = some id)
    (hs : t'.word.scheduled = true → id ∈ e.cold → id ∈ e.sync ∨ e.inflight = some id) :
    Inv (e.setTask id t') :=
  h.update hg (QStep.refl h.q id) (inMap e id) (by rw [inMap_iff]) ht _ rfl rfl rfl rfl hn hs
    (fun _ _ _ hx => hx) h.p

/-- an operation that only rewrites task `id` and keeps its cancellation and SCHEDULED flags -/
theorem Inv.update_task {e : Exec} (h : Inv e) {id : Nat} {t t' : TaskSt} (hg : e.get? id = some t)
    (ht : TInv (inMap e id) t') (hn : t'.word.notCancelled = t.word.notCancelled)
    (hs : t'.word.scheduled = t.word.scheduled) : Inv (e.setTask id t') :=
  h.setTask hg ht (fun hc hcold => h.c id t hg (by rw [← hn]; exact hc) hcold)
    (fun hc hcold => h.s id t hg (by rw [← hs]; exact hc) hcold)

/-- an operation that calls `Local::schedule` and then rewrites task `id` -/
theorem Inv.update_sched {e : Exec} (h : Inv e) {id : Nat} {t t' : TaskSt} (hg : e.get? id = some t)
    (ht : TInv (inMap e id) t') : Inv ((scheduleLocal e id).setTask id t') := by
  have hg1 : (scheduleLocal e id).get? id = some t := by rw [scheduleLocal_get? h]; exact hg
  refine (scheduleLocal_inv h id).setTask hg1 (by rw [scheduleLocal_inMap h]; exact ht) ?_ ?_
  · intro _ hc; exact absurd hc (fun hc => scheduleLocal_not_cold h hg hc)
  · intro _ hc; exact absurd hc (fun hc => scheduleLocal_not_cold h hg hc)

/-- after `Remote::schedule` a task that is still queued and cold waits in the sync queue -/
theorem remoteSchedule_reach {e : Exec} (h : Inv e) {id : Nat} {t : TaskSt} (hg : e.get? id = some t)
    (hc : id ∈ (remoteSchedule e id).cold) :
    id ∈ (remoteSchedule e id).sync ∨ (remoteSchedule e id).inflight = some id :=
  (remoteSchedule_inv h id).s id _ (remoteSchedule_get?_self hg) rfl hc

/-- an operation that calls `Remote::schedule` and then rewrites task `id` -/
theorem Inv.update_rsched {e : Exec} (h : Inv e) {id : Nat} {t t' : TaskSt} (hg : e.get? id = some t)
    (ht : TInv (inMap e id) t') : Inv ((remoteSchedule e id).setTask id t') := by
  have f := remoteSchedule_fields e id
  have hm : inMap (remoteSchedule e id) id = inMap e id := by
    apply inMap_eq_of_iff; rw [f.1, f.2.1]
  exact (remoteSchedule_inv h id).setTask (remoteSchedule_get?_self hg) (by rw [hm]; exact ht)
    (fun _ hc => remoteSchedule_reach h hg hc) (fun _ hc => remoteSchedule_reach h hg hc)

end Compio.Executor
