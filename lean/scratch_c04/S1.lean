import Compio.Lemmas.Executor
namespace Compio.Executor
open Compio.TaskWord Compio.Gen
set_option linter.unusedSimpArgs false
set_option linter.unusedVariables false

/-! ## `make_hot`, `Local::schedule`, `Remote::schedule` -/

theorem makeHot_get? (e : Exec) (id x : Nat) : (makeHot e id).get? x = e.get? x := by
  simp [Exec.get?, (makeHot_fields e id).1]

theorem makeHot_cases (e : Exec) (id : Nat) :
    (id ∉ e.cold ∧ makeHot e id = e) ∨
    (id ∈ e.cold ∧ makeHot e id = { e with cold := e.cold.erase id, hot := e.hot ++ [id] }) := by
  by_cases hc : id ∈ e.cold
  · exact Or.inr ⟨hc, by simp [makeHot, hc]⟩
  · exact Or.inl ⟨hc, by simp [makeHot, hc]⟩

theorem makeHot_inv {e : Exec} (h : Inv e) (id : Nat) : Inv (makeHot e id) := by
  rcases makeHot_cases e id with ⟨_, he⟩ | ⟨hc, he⟩
  · rw [he]; exact h
  · obtain ⟨t, hg, _⟩ := h.get_of_mem (id := id) (Or.inr hc)
    rw [he]
    refine h.requeue hg (QStep.makeHot h.q hc) ?_ _ rfl rfl rfl rfl rfl rfl rfl ?_
    · simp [hc]
    · intro hx; exact List.mem_of_mem_erase hx

theorem makeHot_mem (e : Exec) (id x : Nat) :
    (x ∈ (makeHot e id).hot ∨ x ∈ (makeHot e id).cold) ↔ (x ∈ e.hot ∨ x ∈ e.cold) := by
  rcases makeHot_cases e id with ⟨_, he⟩ | ⟨hc, he⟩ <;> rw [he]
  simp only [List.mem_append, List.mem_singleton]
  by_cases hx : x = id
  · subst hx; simp [hc]
  · simp [List.mem_erase_of_ne hx, hx]

theorem makeHot_hot (e : Exec) (id : Nat) : ∃ w, (makeHot e id).hot = e.hot ++ w := by
  rcases makeHot_cases e id with ⟨_, he⟩ | ⟨hc, he⟩ <;> rw [he]
  · exact ⟨[], by simp⟩
  · exact ⟨[id], rfl⟩

theorem makeHot_not_cold {e : Exec} (hn : e.cold.Nodup) (id : Nat) : id ∉ (makeHot e id).cold := by
  rcases makeHot_cases e id with ⟨hc, he⟩ | ⟨hc, he⟩ <;> rw [he]
  · exact hc
  · intro hx; exact ((hn.mem_erase_iff).mp hx).1 rfl

theorem makeHot_cold_sub (e : Exec) (id x : Nat) (hx : x ∈ (makeHot e id).cold) : x ∈ e.cold := by
  rcases makeHot_cases e id with ⟨hc, he⟩ | ⟨hc, he⟩ <;> rw [he] at hx
  · exact hx
  · exact List.mem_of_mem_erase hx

theorem scheduleLocal_cases (e : Exec) (id : Nat) :
    scheduleLocal e id = e ∨ scheduleLocal e id = makeHot (drainSync e) id := by
  unfold scheduleLocal
  cases e.get? id with
  | none => exact Or.inl rfl
  | some t => simp only; cases t.shared <;> simp

theorem scheduleLocal_inv {e : Exec} (h : Inv e) (id : Nat) : Inv (scheduleLocal e id) := by
  rcases scheduleLocal_cases e id with he | he <;> rw [he]
  · exact h
  · exact makeHot_inv (drainSync_inv h) id

theorem scheduleLocal_get? {e : Exec} (h : Inv e) (id x : Nat) : (scheduleLocal e id).get? x = e.get? x := by
  rcases scheduleLocal_cases e id with he | he <;> rw [he]
  rw [makeHot_get?, drainSync_get? h]

theorem scheduleLocal_fields {e : Exec} (h : Inv e) (id : Nat) :
    (scheduleLocal e id).tasks = e.tasks ∧ (scheduleLocal e id).woken = e.woken ∧
    (scheduleLocal e id).alive = e.alive ∧ (scheduleLocal e id).cap = e.cap ∧
    (scheduleLocal e id).outstanding = e.outstanding ∧ (scheduleLocal e id).inflight = e.inflight := by
  rcases scheduleLocal_cases e id with he | he <;> rw [he]
  · exact ⟨rfl, rfl, rfl, rfl, rfl, rfl⟩
  · have f := makeHot_fields (drainSync e) id
    have d := drainSync_facts h
    exact ⟨f.1.trans d.tasks, f.2.1.trans d.woken, f.2.2.1.trans d.alive, f.2.2.2.2.2.1.trans d.cap,
      f.2.2.2.2.2.2.1.trans d.outstanding, f.2.2.2.2.2.2.2.trans d.inflight⟩

theorem scheduleLocal_mem {e : Exec} (h : Inv e) (id x : Nat) :
    (x ∈ (scheduleLocal e id).hot ∨ x ∈ (scheduleLocal e id).cold) ↔ (x ∈ e.hot ∨ x ∈ e.cold) := by
  rcases scheduleLocal_cases e id with he | he <;> rw [he]
  rw [makeHot_mem, (drainSync_facts h).mem]

theorem scheduleLocal_inMap {e : Exec} (h : Inv e) (id x : Nat) : inMap (scheduleLocal e id) x = inMap e x :=
  inMap_eq_of_iff _ _ _ _ (scheduleLocal_mem h id x)

theorem scheduleLocal_hot {e : Exec} (h : Inv e) (id : Nat) : ∃ w, (scheduleLocal e id).hot = e.hot ++ w := by
  rcases scheduleLocal_cases e id with he | he <;> rw [he]
  · exact ⟨[], by simp⟩
  · obtain ⟨w1, h1⟩ := makeHot_hot (drainSync e) id
    obtain ⟨w2, h2, _⟩ := (drainSync_facts h).hot
    exact ⟨w2 ++ w1, by rw [h1, h2]; simp⟩

theorem scheduleLocal_cold_sub {e : Exec} (h : Inv e) (id x : Nat) (hx : x ∈ (scheduleLocal e id).cold) :
    x ∈ e.cold := by
  rcases scheduleLocal_cases e id with he | he <;> rw [he] at hx
  · exact hx
  · exact (((drainSync_facts h).cold x).mp (makeHot_cold_sub _ _ _ hx)).1

/-- after `schedule()` a task that is in the queue (hence has a valid `shared`) is hot -/
theorem scheduleLocal_not_cold {e : Exec} (h : Inv e) {id : Nat} {t : TaskSt} (hg : e.get? id = some t) :
    id ∈ (scheduleLocal e id).cold → False := by
  intro hc
  have hcold := scheduleLocal_cold_sub h id id hc
  have ht := h.t id t hg
  rw [(inMap_iff e id).mpr (Or.inr hcold)] at ht
  unfold scheduleLocal at hc
  rw [hg] at hc
  simp only [ht.inq_sh rfl, if_true] at hc
  exact makeHot_not_cold (drainSync_inv h).q.cnd id hc

/-- `Remote::schedule` run to completion, in closed form -/
theorem remoteSchedule_cases {e : Exec} {id : Nat} {t : TaskSt} (hg : e.get? id = some t) :
    ((t.word.scheduled = true ∨ t.word.completed = true ∨ t.word.notCancelled = false ∨ t.shared = false) ∧
      remoteSchedule e id = e.setTask id { t with word := { t.word with scheduled := true, scheduling := false } }) ∨
    (t.word.scheduled = false ∧ t.word.completed = false ∧ t.word.notCancelled = true ∧ t.shared = true ∧
      remoteSchedule e id =
        { e.setTask id { t with word := { t.word with scheduled := true, scheduling := false } } with
            pending := e.pending + 1, sync := e.sync ++ [id] }) := by
  unfold remoteSchedule remoteSchedTask
  rw [hg]
  cases h1 : t.word.scheduled <;> cases h2 : t.word.completed <;> cases h3 : t.word.notCancelled <;>
    cases h4 : t.shared <;> simp [h1, h2, h3, h4]

theorem remoteSchedule_none {e : Exec} {id : Nat} (hg : e.get? id = none) : remoteSchedule e id = e := by
  simp [remoteSchedule, hg]

theorem remoteSchedule_inv {e : Exec} (h : Inv e) (id : Nat) : Inv (remoteSchedule e id) := by
  cases hg : e.get? id with
  | none => rw [remoteSchedule_none hg]; exact h
  | some t =>
    have ht := h.t id t hg
    have ht' := sched_bits_inv _ t true false ht
    rcases remoteSchedule_cases hg with ⟨hearly, he⟩ | ⟨h1, h2, h3, h4, he⟩ <;> rw [he]
    · refine h.update hg (QStep.refl h.q id) (inMap e id) (by rw [inMap_iff]) ht' _ rfl rfl rfl rfl
        ?_ ?_ (fun x _ _ hx => hx) h.p
      · intro hn hc; exact h.c id t hg hn hc
      · intro _ hc
        have hin := (inMap_iff e id).mpr (Or.inr hc)
        rw [hin] at ht
        rcases hearly with h1 | h1 | h1 | h1
        · exact h.s id t hg h1 hc
        · rw [ht.inq_c rfl] at h1; cases h1
        · exact h.c id t hg h1 hc
        · rw [ht.inq_sh rfl] at h1; cases h1
    · refine h.update hg (QStep.refl h.q id) (inMap e id) (by rw [inMap_iff]) ht' _ rfl rfl rfl rfl
        ?_ ?_ ?_ ?_
      · intro _ _; exact Or.inl (by simp)
      · intro _ _; exact Or.inl (by simp)
      · intro x _ _ hx
        rcases hx with hx | hx
        · exact Or.inl (by simp [hx])
        · exact Or.inr hx
      · simp; have := h.p; omega

theorem remoteScheduleGuarded_cases (e : Exec) (id : Nat) :
    remoteScheduleGuarded e id = e ∨
    remoteScheduleGuarded e id = remoteSchedule { e with outstanding := e.outstanding + 1 } id := by
  unfold remoteScheduleGuarded; split
  · exact Or.inr rfl
  · exact Or.inl rfl

theorem Inv.outstanding {e : Exec} (h : Inv e) (k : Nat) : Inv { e with outstanding := k } :=
  ⟨⟨h.q.hnd, h.q.cnd, h.q.disj, h.q.hval, h.q.cval⟩, h.t, h.c, h.s, h.dead, h.p⟩

theorem remoteScheduleGuarded_inv {e : Exec} (h : Inv e) (id : Nat) : Inv (remoteScheduleGuarded e id) := by
  rcases remoteScheduleGuarded_cases e id with he | he <;> rw [he]
  · exact h
  · exact remoteSchedule_inv (h.outstanding _) id

/-- what `Remote::schedule` leaves unchanged -/
theorem remoteSchedule_fields (e : Exec) (id : Nat) :
    (remoteSchedule e id).hot = e.hot ∧ (remoteSchedule e id).cold = e.cold ∧
    (remoteSchedule e id).woken = e.woken ∧ (remoteSchedule e id).alive = e.alive ∧
    (remoteSchedule e id).cap = e.cap ∧ (remoteSchedule e id).outstanding = e.outstanding ∧
    (remoteSchedule e id).inflight = e.inflight ∧ (remoteSchedule e id).tasks.length = e.tasks.length := by
  cases hg : e.get? id with
  | none => rw [remoteSchedule_none hg]; simp
  | some t =>
    rcases remoteSchedule_cases hg with ⟨_, he⟩ | ⟨_, _, _, _, he⟩ <;> rw [he] <;> simp [Exec.setTask]

theorem remoteSchedule_get?_ne (e : Exec) {id x : Nat} (hx : x ≠ id) :
    (remoteSchedule e id).get? x = e.get? x := by
  cases hg : e.get? id with
  | none => rw [remoteSchedule_none hg]
  | some t =>
    rcases remoteSchedule_cases hg with ⟨_, he⟩ | ⟨_, _, _, _, he⟩ <;> rw [he] <;>
      simp [Exec.get?, Exec.setTask, List.getElem?_set_ne (Ne.symm hx)]

theorem remoteSchedule_get?_self {e : Exec} {id : Nat} {t : TaskSt} (hg : e.get? id = some t) :
    (remoteSchedule e id).get? id = some { t with word := { t.word with scheduled := true, scheduling := false } } := by
  rcases remoteSchedule_cases hg with ⟨_, he⟩ | ⟨_, _, _, _, he⟩ <;> rw [he] <;>
    simp [Exec.get?, Exec.setTask, List.getElem?_set_self (get?_lt hg)]

end Compio.Executor
