import Compio.Lemmas.ExecutorSteps
namespace Compio.Executor
open Compio.TaskWord Compio.Gen
set_option linter.unusedSimpArgs false
set_option linter.unusedVariables false

theorem remoteWakeB_steps {e : Exec} (h : Inv e) (hi : e.inflight = none) (id n : Nat) {x : Nat} {t : TaskSt}
    (hx : e.get? x = some t) (hw : hasWakerClone e id = true) :
    ∃ t', (remoteWakeB e id n).1.get? x = some t' ∧ TaskSteps true t t' := by
  obtain ⟨t0, hg, hw0⟩ := (hasWakerClone_iff e id).mp hw
  have hl0 : x = id → Live t := by
    intro hxi; subst hxi; rw [hx] at hg; cases hg; exact Or.inr (Or.inl hw0)
  by_cases he : t0.word.scheduled = true ∨ t0.word.completed = true ∨ t0.word.notCancelled = false ∨ t0.shared = false
  · rw [remoteWakeB_early n hg he]
    exact remoteSchedule_steps true id hx hl0
  · have h1 : t0.word.scheduled = false := by cases hx : t0.word.scheduled <;> simp_all
    have h2 : t0.word.completed = false := by cases hx : t0.word.completed <;> simp_all
    have h3 : t0.word.notCancelled = true := by cases hx : t0.word.notCancelled <;> simp_all
    have h4 : t0.shared = true := by cases hx : t0.shared <;> simp_all
    -- the task in the state the tick starts from
    have start : ∀ (eA : Exec), eA.tasks = e.tasks.set id { t0 with word := { t0.word with scheduled := true, scheduling := true } } →
        ∃ t1, eA.get? x = some t1 ∧ TaskSteps true t t1 ∧ (x = id → t1.wakers ≠ 0) := by
      intro eA hA
      by_cases hxi : x = id
      · subst hxi; rw [hx] at hg; cases hg
        exact ⟨_, by simp [Exec.get?, hA, List.getElem?_set_self (get?_lt hx)],
          .single (.sched t true true (hl0 rfl)), fun _ => hw0⟩
      · exact ⟨t, by simp [Exec.get?, hA, List.getElem?_set_ne (Ne.symm hxi)]; exact hx, .refl t,
          fun h => absurd h hxi⟩
    have finish : ∀ (eA : Exec), Inv eA → ∀ t1, eA.get? x = some t1 → (x = id → t1.wakers ≠ 0) →
        ∀ (eC : Exec), (∀ y, eC.get? y = (tickFrom eA n).1.get? y) →
        ∃ t', (finishSched eC id).get? x = some t' ∧ TaskSteps true t1 t' := by
      intro eA hA t1 hg1 hw1 eC hC
      obtain ⟨t2, hg2, hs2⟩ := tickFrom_steps hA n hg1
      obtain ⟨t2', hg2', hw2⟩ := tickLoop_wakers n (drainSync eA) (drainSync_inv hA) x t1
        (by rw [drainSync_get? hA]; exact hg1)
      have : t2' = t2 := by
        have h' : (tickFrom eA n).1.get? x = some t2' := hg2'
        rw [hg2] at h'; cases h'; rfl
      subst this
      obtain ⟨t3, hg3, hs3⟩ := finishSched_steps (e := eC) true id (by rw [hC]; exact hg2)
        (fun hxi => Or.inr (Or.inl (by have := hw1 hxi; omega)))
      exact ⟨t3, hg3, hs2.trans hs3⟩
    rcases remoteWakeB_push n hg h1 h2 h3 h4 with ⟨_, hr⟩ | ⟨_, hr⟩ <;> rw [hr]
    · obtain ⟨t1, hg1, hs1, hw1⟩ := start
        ({ e.setTask id { t0 with word := { t0.word with scheduled := true, scheduling := true } } with
            pending := e.pending + 1, sync := e.sync ++ [id], outstanding := 1 } : Exec) rfl
      obtain ⟨t', hg', hs'⟩ := finish _ (push_inv h hg true 1) t1 hg1 hw1 _ (fun _ => rfl)
      exact ⟨t', hg', hs1.trans hs'⟩
    · obtain ⟨t1, hg1, hs1, hw1⟩ := start
        ({ e.setTask id { t0 with word := { t0.word with scheduled := true, scheduling := true } } with
            pending := e.pending + 1, outstanding := 1, inflight := some id } : Exec) rfl
      obtain ⟨t', hg', hs'⟩ := finish _ (reserve_inv h hi hg) t1 hg1 hw1
        ({ (tickFrom ({ e.setTask id { t0 with word := { t0.word with scheduled := true, scheduling := true } } with
            pending := e.pending + 1, outstanding := 1, inflight := some id } : Exec) n).1 with
              sync := (tickFrom ({ e.setTask id { t0 with word := { t0.word with scheduled := true, scheduling := true } } with
                pending := e.pending + 1, outstanding := 1, inflight := some id } : Exec) n).1.sync ++ [id],
              inflight := none } : Exec) (fun _ => rfl)
      exact ⟨t', hg', hs1.trans hs'⟩

/-- every operation changes every task only by primitive steps; `Task::run` steps only in a tick -/
theorem apply_steps {e : Exec} (h : InvB e) (op : Op) {id : Nat} {t : TaskSt} (hg : e.get? id = some t) :
    ∃ t', (apply e op).get? id = some t' ∧ TaskSteps op.ticks t t' := by
  obtain ⟨h, hi⟩ := h
  have hfd : ∀ x tx, e.get? x = some tx → inMap e x = true → tx.futDrops = 0 := by
    intro x tx hx hin
    have := h.t x tx hx; rw [hin] at this; exact this.inq_fd rfl
  cases op with
  | spawn sc =>
    cases ha : e.alive
    · exact ⟨t, by simp [apply, applyR, ha, hg], .refl t⟩
    · refine ⟨t, ?_, .refl t⟩
      simp [apply, applyR, ha, spawn, Exec.get?, List.getElem?_append_left (get?_lt hg)]
      exact hg
  | tick n =>
    cases ha : e.alive
    · exact ⟨t, by simp [apply, applyR, ha, hg], .refl t⟩
    · simp only [apply, applyR, ha]
      exact tickFrom_steps (h.outstanding 0) n hg
  | xdrop =>
    cases ha : e.alive
    · exact ⟨t, by simp [apply, applyR, ha, hg], .refl t⟩
    · simp only [apply, applyR, ha]
      have hnd : (e.hot ++ e.cold).Nodup := by
        rw [List.nodup_append]
        refine ⟨h.q.hnd, h.q.cnd, ?_⟩
        intro a ha b hb hab; subst hab; exact h.q.disj a ha hb
      have := (foldl_clearTask (e.hot ++ e.cold) e hnd).1 id
      by_cases hm : id ∈ e.hot ++ e.cold
      · rw [if_pos hm, hg] at this
        exact ⟨clearedTask t, this, .single (.clear t (hfd id t hg ((inMap_iff e id).mpr (by simpa using hm))))⟩
      · rw [if_neg hm, hg] at this
        exact ⟨t, this, .refl t⟩
  | hpoll id' w =>
    rcases handle_dead_or_live e id' with hd | ⟨t1, hg1, hh⟩
    · exact ⟨t, by simp [apply, applyR, handlePoll_dead w hd, hg], .refl t⟩
    · simp only [apply, applyR, handlePoll_live w hg1 hh]
      by_cases hx : id = id'
      · subst hx; rw [hg] at hg1; cases hg1
        exact ⟨_, get?_setTask_self _ hg, .single (.poll t w hh)⟩
      · exact ⟨t, by rw [get?_setTask_ne _ _ hx]; exact hg, .refl t⟩
  | hdrop id' =>
    rcases handle_dead_or_live e id' with hd | ⟨t1, hg1, hh⟩
    · exact ⟨t, by simp [apply, applyR, handleDrop_dead hd, hg], .refl t⟩
    · simp only [apply, applyR, handleDrop_live hg1 hh]
      by_cases hx : id = id'
      · subst hx; rw [hg] at hg1; cases hg1
        exact ⟨_, get?_setTask_self _ (by rw [scheduleLocal_get? h]; exact hg), .single (.hdrop t hh)⟩
      · exact ⟨t, by rw [get?_setTask_ne _ _ hx, scheduleLocal_get? h]; exact hg, .refl t⟩
  | hdetach id' =>
    rcases handle_dead_or_live e id' with hd | ⟨t1, hg1, hh⟩
    · exact ⟨t, by simp [apply, applyR, handleDetach_dead hd, hg], .refl t⟩
    · simp only [apply, applyR, handleDetach_live hg1 hh]
      by_cases hx : id = id'
      · subst hx; rw [hg] at hg1; cases hg1
        exact ⟨_, get?_setTask_self _ hg, .single (.detach t hh)⟩
      · exact ⟨t, by rw [get?_setTask_ne _ _ hx]; exact hg, .refl t⟩
  | hcancel id' =>
    rcases handle_dead_or_live e id' with hd | ⟨t1, hg1, hh⟩
    · exact ⟨t, by simp [apply, hcancel_dead hd, hg], .refl t⟩
    · simp only [apply, hcancel_live h hg1 hh]
      by_cases hx : id = id'
      · subst hx; rw [hg] at hg1; cases hg1
        refine ⟨_, get?_setTask_self _ (by rw [scheduleLocal_get? h]; exact hg), ?_⟩
        exact (TaskSteps.single (.cancel t hh)).tail (.poll _ _ (by rw [cancelWord_handle]; exact hh))
      · exact ⟨t, by rw [get?_setTask_ne _ _ hx, scheduleLocal_get? h]; exact hg, .refl t⟩
  | wake id' =>
    rcases wakers_dead_or_live e id' with hd | ⟨t1, hg1, hw⟩
    · exact ⟨t, by simp [apply, applyR, wakeLocal_dead hd, hg], .refl t⟩
    · exact ⟨t, by simp [apply, applyR, wakeLocal_live hg1 hw, scheduleLocal_get? h, hg], .refl t⟩
  | wdrop id' =>
    rcases wakers_dead_or_live e id' with hd | ⟨t1, hg1, hw⟩
    · exact ⟨t, by simp [apply, applyR, wakerDrop_dead hd, hg], .refl t⟩
    · simp only [apply, applyR, wakerDrop_live hg1 hw]
      by_cases hx : id = id'
      · subst hx; rw [hg] at hg1; cases hg1
        exact ⟨_, get?_setTask_self _ hg, .single (.wdrop t hw)⟩
      · exact ⟨t, by rw [get?_setTask_ne _ _ hx]; exact hg, .refl t⟩
  | rwdrop id' =>
    rcases wakers_dead_or_live e id' with hd | ⟨t1, hg1, hw⟩
    · exact ⟨t, by simp [apply, applyR, wakerDrop_dead hd, hg], .refl t⟩
    · simp only [apply, applyR, wakerDrop_live hg1 hw]
      by_cases hx : id = id'
      · subst hx; rw [hg] at hg1; cases hg1
        exact ⟨_, get?_setTask_self _ hg, .single (.wdrop t hw)⟩
      · exact ⟨t, by rw [get?_setTask_ne _ _ hx]; exact hg, .refl t⟩
  | rhpoll id' w =>
    simp only [apply, applyR, remoteHandlePoll]
    cases hg1 : e.get? id' with
    | none => exact ⟨t, hg, .refl t⟩
    | some t1 =>
      simp only
      cases hh : t1.handle
      · exact ⟨t, by simpa using hg, .refl t⟩
      · simp only [Bool.not_true, Bool.false_eq_true, if_false]
        by_cases hx : id = id'
        · subst hx; rw [hg] at hg1; cases hg1
          exact ⟨_, get?_setTask_self _ hg, .single (.rpoll t w hh)⟩
        · exact ⟨t, by rw [get?_setTask_ne _ _ hx]; exact hg, .refl t⟩
  | rhdrop id' =>
    simp only [apply, applyR]
    cases hh : hasHandle e id'
    · exact ⟨t, by simpa using hg, .refl t⟩
    · simp only [Bool.not_true, Bool.false_eq_true, if_false]
      split
      · exact ⟨t, hg, .refl t⟩
      · obtain ⟨t1, hg1, hh1⟩ := (hasHandle_iff e id').mp hh
        have hg1' : (admit e).get? id' = some t1 := hg1
        simp only [remoteHandleDrop, remoteSchedule_get?_self hg1']
        by_cases hx : id = id'
        · subst hx; rw [hg] at hg1; cases hg1
          refine ⟨_, get?_setTask_self _ (remoteSchedule_get?_self hg1'), ?_⟩
          exact (TaskSteps.single (.sched t true false (Or.inl hh1))).tail (.hdrop _ hh1)
        · exact ⟨t, by rw [get?_setTask_ne _ _ hx, remoteSchedule_get?_ne _ hx]; exact hg, .refl t⟩
  | rhcancel id' =>
    simp only [apply, applyR]
    cases hh : hasHandle e id'
    · exact ⟨t, by simpa using hg, .refl t⟩
    · simp only [Bool.not_true, Bool.false_eq_true, if_false]
      split
      · exact ⟨t, hg, .refl t⟩
      · obtain ⟨t1, hg1, hh1⟩ := (hasHandle_iff e id').mp hh
        have hg1' : (admit e).get? id' = some t1 := hg1
        simp only [remoteHandleCancel, remoteSchedule_get?_self hg1']
        by_cases hx : id = id'
        · subst hx; rw [hg] at hg1; cases hg1
          refine ⟨_, get?_setTask_self _ (remoteSchedule_get?_self hg1'), ?_⟩
          exact ((TaskSteps.single (.sched t true false (Or.inl hh1))).tail (.cancel _ hh1)).tail
            (.rpoll _ _ (by rw [cancelWord_handle]; exact hh1))
        · exact ⟨t, by rw [get?_setTask_ne _ _ hx, remoteSchedule_get?_ne _ hx]; exact hg, .refl t⟩
  | rwake id' =>
    simp only [apply, applyR]
    cases hh : hasWakerClone e id'
    · exact ⟨t, by simpa using hg, .refl t⟩
    · simp only [Bool.not_true, Bool.false_eq_true, if_false]
      split
      · exact ⟨t, hg, .refl t⟩
      · obtain ⟨t1, hg1, hw1⟩ := (hasWakerClone_iff e id').mp hh
        exact remoteSchedule_steps (e := admit e) false id' hg (fun hx => by
          subst hx; rw [hg] at hg1; cases hg1; exact Or.inr (Or.inl hw1))
  | rwakeb id' n =>
    simp only [apply, applyR]
    cases hh : hasWakerClone e id'
    · exact ⟨t, by simpa using hg, .refl t⟩
    · simp only [Bool.not_true, Bool.false_eq_true, if_false]
      exact remoteWakeB_steps h hi id' n hg hh

/-- along any continuation of a program every task evolves only by primitive steps -/
theorem foldl_steps (ops : List Op) : ∀ {e : Exec}, InvB e → ∀ {id : Nat} {t : TaskSt}, e.get? id = some t →
    ∃ t', (ops.foldl apply e).get? id = some t' ∧ TaskSteps true t t' := by
  induction ops with
  | nil => intro e _ id t hg; exact ⟨t, hg, .refl t⟩
  | cons op ops ih =>
    intro e h id t hg
    obtain ⟨t1, hg1, hs1⟩ := apply_steps h op hg
    obtain ⟨t2, hg2, hs2⟩ := ih (apply_invB h op) hg1
    exact ⟨t2, hg2, hs1.weaken.trans hs2⟩

end Compio.Executor
