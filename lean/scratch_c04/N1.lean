import Compio.Lemmas.ExecutorSteps
namespace Compio.Executor
open Compio.TaskWord Compio.Gen
set_option linter.unusedSimpArgs false
set_option linter.unusedVariables false

/-! ## one whole tick: `drain_sync`, then the loop -/

theorem liveIn_congr {e e' : Exec} (h : ∀ x, e'.get? x = e.get? x) (x : Nat) :
    (liveIn e' x ↔ liveIn e x) ∧ (cancelledIn e' x ↔ cancelledIn e x) := by
  simp [liveIn, cancelledIn, h x]

/-- the hot queue the loop of a `tick` line starts from: the old hot queue, then the drained ids -/
def tickStart (e : Exec) : Exec := drainSync { e with outstanding := 0 }

theorem tick_eq (e : Exec) (n : Nat) :
    tick e n = ((tickLoop n (tickStart e).hot.head? (tickStart e) []).1,
                (tickLoop n (tickStart e).hot.head? (tickStart e) []).2,
                !(tickLoop n (tickStart e).hot.head? (tickStart e) []).1.hot.isEmpty) := rfl

structure StartFacts (e : Exec) : Prop where
  inv : Inv (tickStart e)
  get : ∀ x, (tickStart e).get? x = e.get? x
  inMap : ∀ x, inMap (tickStart e) x = inMap e x
  hot : ∃ w, (tickStart e).hot = e.hot ++ w ∧ w.length ≤ e.sync.length ∧ ∀ x, x ∈ w → x ∈ e.cold ∧ x ∈ e.sync
  cold : ∀ x, x ∈ (tickStart e).cold ↔ (x ∈ e.cold ∧ x ∉ e.sync)
  inflight : (tickStart e).inflight = e.inflight

theorem tickStart_facts {e : Exec} (h : Inv e) : StartFacts e := by
  have h0 := h.outstanding 0
  have d := drainSync_facts h0
  exact ⟨d.inv, fun x => drainSync_get? h0 x, fun x => drainSync_inMap h0 x, d.hot, d.cold, d.inflight⟩

theorem tickStart_hot_get {e : Exec} (h : Inv e) {p x : Nat} (hx : e.hot[p]? = some x) :
    (tickStart e).hot[p]? = some x := by
  obtain ⟨w, hw, _⟩ := (tickStart_facts h).hot
  rw [hw, List.getElem?_append_left (List.getElem?_eq_some_iff.mp hx).1]; exact hx

/-- a cancelled task that is still queued is in the hot queue the next tick starts from -/
theorem cancelled_in_tickStart {e : Exec} (h : InvB e) {x : Nat} (hc : cancelledIn e x) (hq : inMap e x = true) :
    x ∈ (tickStart e).hot := by
  have sf := tickStart_facts h.inv
  obtain ⟨t, hg, hn⟩ := hc
  have hq' : x ∈ (tickStart e).hot ∨ x ∈ (tickStart e).cold := by rw [← inMap_iff, sf.inMap]; exact hq
  rcases hq' with h1 | h1
  · exact h1
  · have := (sf.cold x).mp h1
    rcases h.inv.c x t hg hn this.1 with h2 | h2
    · exact absurd h2 this.2
    · rw [h.idle] at h2; cases h2

/-- a queued task with a cross-thread wake-up accepted (SCHEDULED) is in the hot queue the next tick starts from -/
theorem scheduled_in_tickStart {e : Exec} (h : InvB e) {x : Nat} {t : TaskSt} (hg : e.get? x = some t)
    (hs : t.word.scheduled = true) (hq : inMap e x = true) : x ∈ (tickStart e).hot := by
  have sf := tickStart_facts h.inv
  have hq' : x ∈ (tickStart e).hot ∨ x ∈ (tickStart e).cold := by rw [← inMap_iff, sf.inMap]; exact hq
  rcases hq' with h1 | h1
  · exact h1
  · have := (sf.cold x).mp h1
    rcases h.inv.s x t hg hs this.1 with h2 | h2
    · exact absurd h2 this.2
    · rw [h.idle] at h2; cases h2

theorem tick_inflight {e : Exec} (h : Inv e) (n : Nat) : (tick e n).1.inflight = e.inflight :=
  (tickFrom_fields (h.outstanding 0) n).2.1

theorem tick_invB {e : Exec} (h : InvB e) (n : Nat) : InvB (tick e n).1 :=
  ⟨tick_inv h.inv n, by rw [tick_inflight h.inv]; exact h.idle⟩

/-! ## several ticks in a row -/

/-- `k` consecutive ticks with `max_interval = n`; the concatenated poll logs -/
def tickN (e : Exec) (n : Nat) : Nat → Exec × List Nat
  | 0 => (e, [])
  | k + 1 => ((tickN (tick e n).1 n k).1, (tick e n).2.1 ++ (tickN (tick e n).1 n k).2)

theorem tickN_invB {e : Exec} (h : InvB e) (n k : Nat) : InvB (tickN e n k).1 := by
  induction k generalizing e with
  | zero => exact h
  | succ k ih => exact ih (tick_invB h n)

theorem tickN_sub {e : Exec} (h : Inv e) (n : Nat) : ∀ (k : Nat) (e : Exec), Inv e →
    ∀ y, inMap (tickN e n k).1 y = true → inMap e y = true := by
  intro k
  induction k with
  | zero => intro e _ y hy; exact hy
  | succ k ihk =>
    intro e he y hy
    have := (tickLoop_sub n (tickStart e) (tickStart_facts he).inv).1 y (ihk _ (tick_inv he n) y hy)
    rw [(tickStart_facts he).inMap] at this; exact this

/-- a live task at position `p` of the hot queue the first tick starts from is polled within `k` ticks
when `k * n > p` -/
theorem tickN_polls_live_start {e : Exec} (h : Inv e) (n : Nat) (hn : 0 < n) (k : Nat) :
    ∀ p x, (tickStart e).hot[p]? = some x → liveIn e x → p < k * n → x ∈ (tickN e n k).2 := by
  induction k generalizing e with
  | zero => intro p x _ _ hp; omega
  | succ k ih =>
    intro p x hx hl hp
    have sf := tickStart_facts h
    have hl0 : liveIn (tickStart e) x := (liveIn_congr sf.get x).1.mpr hl
    simp only [tickN]
    by_cases hpn : p < n
    · exact List.mem_append_left _ ((tickLoop_visit n _ sf.inv p x hx hpn).2 hl0)
    · have hs := tickLoop_shift n _ sf.inv p x hx (by omega)
      have hin : inMap (tick e n).1 x = true := (inMap_iff _ _).mpr (Or.inl (List.mem_of_getElem? hs))
      have hl' : liveIn (tick e n).1 x := (tickLoop_sub n _ sf.inv).2 x hl0 hin
      exact List.mem_append_right _ (ih (tick_inv h n) (p - n) x (tickStart_hot_get (tick_inv h n) hs) hl' (by
        have : (k + 1) * n = k * n + n := Nat.succ_mul k n
        omega))

/-- a cancelled task at position `p` of the hot queue the first tick starts from is dropped and removed
within `k` ticks when `k * n > p`, never polled -/
theorem tickN_drops_cancelled_start {e : Exec} (h : Inv e) (n : Nat) (hn : 0 < n) (k : Nat) :
    ∀ p x, (tickStart e).hot[p]? = some x → cancelledIn e x → p < k * n → inMap (tickN e n k).1 x = false := by
  induction k generalizing e with
  | zero => intro p x _ _ hp; omega
  | succ k ih =>
    intro p x hx hc hp
    have sf := tickStart_facts h
    have hc0 : cancelledIn (tickStart e) x := (liveIn_congr sf.get x).2.mpr hc
    simp only [tickN]
    by_cases hpn : p < n
    · have hgone := (tickLoop_visit n _ sf.inv p x hx hpn).1 hc0
      cases hin : inMap (tickN (tick e n).1 n k).1 x
      · rfl
      · have := tickN_sub h n k _ (tick_inv h n) x hin
        rw [tick_eq] at this; simp only at this
        rw [hgone] at this; cases this
    · have hs := tickLoop_shift n _ sf.inv p x hx (by omega)
      obtain ⟨t, hg, hnc⟩ := hc0
      obtain ⟨t', hg', hst⟩ := tickLoop_steps n _ sf.inv x t hg
      have hc' : cancelledIn (tick e n).1 x := by
        refine ⟨t', hg', ?_⟩
        cases hn' : t'.word.notCancelled
        · rfl
        · rw [(taskSteps_mono hst).nc hn'] at hnc; cases hnc
      exact ih (tick_inv h n) (p - n) x (tickStart_hot_get (tick_inv h n) hs) hc' (by
        have : (k + 1) * n = k * n + n := Nat.succ_mul k n
        omega)

theorem tickN_polls_live {e : Exec} (h : Inv e) (n : Nat) (hn : 0 < n) (k : Nat) :
    ∀ p x, e.hot[p]? = some x → liveIn e x → p < k * n → x ∈ (tickN e n k).2 :=
  fun p x hx => tickN_polls_live_start h n hn k p x (tickStart_hot_get h hx)

theorem tickN_drops_cancelled {e : Exec} (h : Inv e) (n : Nat) (hn : 0 < n) (k : Nat) :
    ∀ p x, e.hot[p]? = some x → cancelledIn e x → p < k * n → inMap (tickN e n k).1 x = false :=
  fun p x hx => tickN_drops_cancelled_start h n hn k p x (tickStart_hot_get h hx)

theorem mem_getElem? {l : List Nat} {x : Nat} (h : x ∈ l) : ∃ p, p < l.length ∧ l[p]? = some x := by
  obtain ⟨p, hp, he⟩ := List.getElem_of_mem h
  exact ⟨p, hp, by simp [hp, he]⟩

theorem tickStart_hot_length {e : Exec} (h : Inv e) : (tickStart e).hot.length ≤ e.hot.length + e.sync.length := by
  obtain ⟨w, hw, hl, _⟩ := (tickStart_facts h).hot
  rw [hw]; simp; omega

/-- dropping the handle cancels, wherever the handle lives: a cancelled task that is still queued is
reaped (future dropped unpolled, task removed) within `k` ticks as soon as `k * n ≥ |hot| + |sync|` -/
theorem tickN_reaps_cancelled {e : Exec} (h : InvB e) (n : Nat) (hn : 0 < n) (k : Nat) {x : Nat}
    (hc : cancelledIn e x) (hk : e.hot.length + e.sync.length ≤ k * n) : inMap (tickN e n k).1 x = false := by
  cases hq : inMap e x
  · cases hin : inMap (tickN e n k).1 x
    · rfl
    · rw [tickN_sub h.inv n k e h.inv x hin] at hq; cases hq
  · obtain ⟨p, hp, hx⟩ := mem_getElem? (cancelled_in_tickStart h hc hq)
    have := tickStart_hot_length h.inv
    exact tickN_drops_cancelled_start h.inv n hn k p x hx hc (by omega)

/-- a cross-thread wake-up is not lost: a live queued task whose SCHEDULED bit is set is polled within
`k` ticks as soon as `k * n ≥ |hot| + |sync|` -/
theorem tickN_polls_scheduled {e : Exec} (h : InvB e) (n : Nat) (hn : 0 < n) (k : Nat) {x : Nat} {t : TaskSt}
    (hg : e.get? x = some t) (hs : t.word.scheduled = true) (hl : t.word.notCancelled = true)
    (hq : inMap e x = true) (hk : e.hot.length + e.sync.length ≤ k * n) : x ∈ (tickN e n k).2 := by
  obtain ⟨p, hp, hx⟩ := mem_getElem? (scheduled_in_tickStart h hg hs hq)
  have := tickStart_hot_length h.inv
  exact tickN_polls_live_start h.inv n hn k p x hx ⟨t, hg, hl⟩ (by omega)

end Compio.Executor
