import Compio.Lemmas.Executor
namespace Compio.Executor
open Compio.TaskWord Compio.Gen
set_option linter.unusedSimpArgs false
set_option linter.unusedVariables false

/-! ## One loop body of `tick` -/

theorem dropRef_polls (t : TaskSt) : (dropRef t).polls = t.polls := by
  obtain ⟨⟨s, sg, nsw, hw, c, hr, nc, cnt⟩, st, slot, script, sh, hd, wk, polls, fd, rt, rd, ss, sd, de, uaf, bp⟩ := t
  cases hr <;> cases hw <;> simp [dropRef] <;> split <;> split <;> rfl

theorem taskDropByExecutor_polls (t : TaskSt) : (taskDropByExecutor t).polls = t.polls := by
  obtain ⟨⟨s, sg, nsw, hw, c, hr, nc, cnt⟩, st, slot, script, sh, hd, wk, polls, fd, rt, rd, ss, sd, de, uaf, bp⟩ := t
  cases c <;> cases hw <;> cases nsw <;> simp [taskDropByExecutor]

/-- the things `Task::run` can do to a queued task -/
theorem runTask_cases (t : TaskSt) (hb : t.word.completed = false) :
    (t.word.notCancelled = false ∧ runTask t = (droppedTask t, .dropped, none)) ∨
    (t.word.notCancelled = true ∧
      (runTask t = (polledTask t, .pending, none) ∨ runTask t = (polledTask t, .wokeSelf, none) ∨
       runTask t = (polledTask t, .remoteWoke, none) ∨
       runTask t = (clonedTask t, .pending, none) ∨
       ∃ o, (o = .ready ∨ o = .panic) ∧ t.script.head? = some o ∧ runTask t = (finishedTask t o, .finished,
          if t.word.hasWaker && t.word.notSettingWaker then t.slot else none))) := by
  cases hc : t.word.notCancelled
  · exact Or.inl ⟨rfl, runTask_cancelled t hc⟩
  · refine Or.inr ⟨rfl, ?_⟩
    rcases hs : t.script with _ | ⟨o, r⟩
    · exact Or.inl (runTask_pending t hc hb (Or.inl hs))
    · cases o
      · exact Or.inl (runTask_pending t hc hb (Or.inr ⟨r, hs⟩))
      · exact Or.inr (Or.inl (runTask_wakeSelf t hc hb r hs))
      · exact Or.inr (Or.inr (Or.inr (Or.inl (runTask_clone t hc hb r hs))))
      · exact Or.inr (Or.inr (Or.inl (runTask_remote t hc hb r hs)))
      · exact Or.inr (Or.inr (Or.inr (Or.inr ⟨.ready, Or.inl rfl, by simp, runTask_ready t hc hb _ r hs (Or.inl rfl)⟩)))
      · exact Or.inr (Or.inr (Or.inr (Or.inr ⟨.panic, Or.inr rfl, by simp, runTask_ready t hc hb _ r hs (Or.inr rfl)⟩)))

/-- `a` is `b` up to the SCHEDULED / SCHEDULING bits -/
def SameUpToSched (a b : TaskSt) : Prop :=
  ∃ x y, a = { b with word := { b.word with scheduled := x, scheduling := y } }

theorem SameUpToSched.refl (t : TaskSt) : SameUpToSched t t := ⟨t.word.scheduled, t.word.scheduling, rfl⟩

/-- facts about one loop body on the head of the hot list -/
structure StepFacts (e : Exec) (id : Nat) (rest : List Nat) (t : TaskSt) (s : Exec × Bool) : Prop where
  inv : Inv s.1
  hot : ∃ w, s.1.hot = rest ++ w
  frame : ∀ x, x ≠ id → s.1.get? x = e.get? x
  polled : s.2 = t.word.notCancelled
  gone : s.2 = false → inMap s.1 id = false
  taskEq : ∃ t', s.1.get? id = some t' ∧ SameUpToSched t' (runTask t).1
  polls : (runTask t).1.polls = t.polls + (if s.2 then 1 else 0)
  live : inMap s.1 id = true → (runTask t).1.word.notCancelled = true
  sub : ∀ x, inMap s.1 x = true → inMap e x = true
  keep : ∀ x, x ≠ id → inMap e x = true → inMap s.1 x = true
  fields : s.1.alive = e.alive ∧ s.1.inflight = e.inflight ∧ s.1.cap = e.cap

theorem StepFacts.task {e : Exec} {id : Nat} {rest : List Nat} {t : TaskSt} {s : Exec × Bool}
    (sf : StepFacts e id rest t s) :
    ∃ t', s.1.get? id = some t' ∧ t'.polls = t.polls + (if s.2 then 1 else 0) ∧
      (inMap s.1 id = true → t'.word.notCancelled = true) := by
  obtain ⟨t', hg, x, y, he⟩ := sf.taskEq
  refine ⟨t', hg, ?_, ?_⟩
  · rw [he]; exact sf.polls
  · intro hi; rw [he]; exact sf.live hi

/-- the state after `make_cold(id)` and a poll of `id` that returned Pending -/
theorem pend_facts {e : Exec} (h : Inv e) {id : Nat} {rest : List Nat} (hh : e.hot = id :: rest)
    {t : TaskSt} (hg : e.get? id = some t) (t' : TaskSt) (ht' : TInv true t')
    (hn : t'.word.notCancelled = true) (hs : t'.word.scheduled = false) :
    Inv ((makeCold e id).setTask id t') ∧ ((makeCold e id).setTask id t').hot = rest ∧
    ((makeCold e id).setTask id t').get? id = some t' ∧
    (∀ x, x ≠ id → ((makeCold e id).setTask id t').get? x = e.get? x) ∧
    (∀ x, inMap ((makeCold e id).setTask id t') x = inMap e x) ∧
    (((makeCold e id).setTask id t').alive = e.alive ∧ ((makeCold e id).setTask id t').inflight = e.inflight ∧
      ((makeCold e id).setTask id t').cap = e.cap) := by
  have hnd := h.q.hnd
  rw [hh, List.nodup_cons] at hnd
  have hmc : makeCold e id = { e with hot := rest, cold := e.cold ++ [id] } := by simp [makeCold, hh]
  rw [hmc]
  refine ⟨?_, rfl, by simp [Exec.get?, Exec.setTask, List.getElem?_set_self (get?_lt hg)], ?_, ?_, ⟨rfl, rfl, rfl⟩⟩
  · refine h.update hg (QStep.tick h.q hh false true (by simp)) true (by simp) ht' _ rfl
      (by simp [Exec.setTask]) (by simp [Exec.setTask]) rfl ?_ ?_ (fun x _ _ hx => hx) h.p
    · intro hc; rw [hn] at hc; cases hc
    · intro hc; rw [hs] at hc; cases hc
  · intro x hx; simp [Exec.get?, Exec.setTask, List.getElem?_set_ne (Ne.symm hx)]
  · intro x
    apply inMap_eq_of_iff
    simp only [Exec.setTask, hh, List.mem_append, List.mem_cons, List.mem_singleton, List.not_mem_nil, or_false]
    constructor
    · rintro (h1 | h1 | h1)
      · exact Or.inl (Or.inr h1)
      · exact Or.inr h1
      · exact Or.inl (Or.inl h1)
    · rintro ((h1 | h1) | h1)
      · exact Or.inr (Or.inr h1)
      · exact Or.inl h1
      · exact Or.inr (Or.inl h1)

/-- the state after `make_cold(id)`, `Task::run` = Ready, `Task::drop`, `queue.remove(id)` -/
theorem removed_facts {e : Exec} (h : Inv e) {id : Nat} {rest : List Nat} (hh : e.hot = id :: rest)
    {t : TaskSt} (hg : e.get? id = some t) (t' : TaskSt) (ht' : TInv false t') (wk : List Nat) :
    ({ removeTask ((makeCold e id).setTask id t') id with woken := wk } : Exec) =
      { e with tasks := e.tasks.set id t', hot := rest, woken := wk } ∧
    Inv ({ e with tasks := e.tasks.set id t', hot := rest, woken := wk } : Exec) := by
  have hnd := h.q.hnd
  rw [hh, List.nodup_cons] at hnd
  have hnc : id ∉ e.cold := fun hc => h.q.disj id (by simp [hh]) hc
  have hmc : makeCold e id = { e with hot := rest, cold := e.cold ++ [id] } := by simp [makeCold, hh]
  refine ⟨by simp [hmc, removeTask, Exec.setTask, hnd.1, hnc, List.erase_append_right], ?_⟩
  refine h.update hg (QStep.tick h.q hh false false (by simp)) false (by simp [hnd.1, hnc]) ht' _ rfl (by simp)
    (by simp) rfl ?_ ?_ (fun x _ _ hx => hx) h.p
  · intro _ hc; simp at hc; exact absurd hc hnc
  · intro _ hc; simp at hc; exact absurd hc hnc

/-- what `Task::run` guarantees about a queued task, by kind of outcome -/
theorem runTask_spec (t : TaskSt) (ht : TInv true t) :
    (((runTask t).2.1 = .dropped ∨ (runTask t).2.1 = .finished) → TInv false (runTask t).1) ∧
    (((runTask t).2.1 = .pending ∨ (runTask t).2.1 = .wokeSelf ∨ (runTask t).2.1 = .remoteWoke) →
        TInv true (runTask t).1 ∧ (runTask t).1.word.notCancelled = true ∧
        (runTask t).1.word.scheduled = false) ∧
    ((runTask t).2.1 = .dropped ↔ t.word.notCancelled = false) ∧
    ((runTask t).2.1 ≠ .dropped → (runTask t).1.polls = t.polls + 1) ∧
    ((runTask t).2.1 = .dropped → (runTask t).1.polls = t.polls) := by
  rcases runTask_cases t (ht.inq_c rfl) with ⟨hc, hr⟩ | ⟨hc, hr | hr | hr | hr | ⟨o, _, _, hr⟩⟩ <;> rw [hr] <;> simp [hc]
  · exact ⟨droppedTask_inv t ht, by simp [droppedTask, dropRef_polls, taskDropByExecutor_polls]⟩
  · exact ⟨⟨polledTask_inv t ht, by simp [polledTask, hc], by simp [polledTask]⟩, by simp [polledTask]⟩
  · exact ⟨⟨polledTask_inv t ht, by simp [polledTask, hc], by simp [polledTask]⟩, by simp [polledTask]⟩
  · exact ⟨⟨polledTask_inv t ht, by simp [polledTask, hc], by simp [polledTask]⟩, by simp [polledTask]⟩
  · exact ⟨⟨clonedTask_inv t ht, by simp [clonedTask, polledTask, hc], by simp [clonedTask, polledTask]⟩,
      by simp [clonedTask, polledTask]⟩
  · exact ⟨finishedTask_inv t o ht, by simp [finishedTask, dropRef_polls, taskDropByExecutor_polls]⟩

/-- facts of a loop body whose poll returned Pending, possibly followed by a (local or remote) schedule -/
theorem StepFacts.ofPend {e : Exec} (h : Inv e) {id : Nat} {rest : List Nat} (hh : e.hot = id :: rest)
    {t : TaskSt} (hg : e.get? id = some t) (ht : TInv true t)
    (hk : (runTask t).2.1 = .pending ∨ (runTask t).2.1 = .wokeSelf ∨ (runTask t).2.1 = .remoteWoke)
    (e2 : Exec) (hinv : Inv e2)
    (hhot : ∃ w, e2.hot = ((makeCold e id).setTask id (runTask t).1).hot ++ w)
    (hfr : ∀ x, x ≠ id → e2.get? x = ((makeCold e id).setTask id (runTask t).1).get? x)
    (hid : ∃ t', e2.get? id = some t' ∧ SameUpToSched t' (runTask t).1)
    (hmap : ∀ x, inMap e2 x = inMap ((makeCold e id).setTask id (runTask t).1) x)
    (hf : e2.alive = ((makeCold e id).setTask id (runTask t).1).alive ∧
          e2.inflight = ((makeCold e id).setTask id (runTask t).1).inflight ∧
          e2.cap = ((makeCold e id).setTask id (runTask t).1).cap) :
    StepFacts e id rest t (e2, true) := by
  obtain ⟨s1, s2, s3, s4, s5⟩ := runTask_spec t ht
  obtain ⟨st, sn, ss⟩ := s2 hk
  obtain ⟨p1, p2, p3, p4, p5, p6⟩ := pend_facts h hh hg (runTask t).1 st sn ss
  have hnd : (runTask t).2.1 ≠ .dropped := by
    rcases hk with hk | hk | hk <;> rw [hk] <;> simp
  have hnc : t.word.notCancelled = true := by
    cases hn : t.word.notCancelled
    · exact absurd (s3.mpr hn) hnd
    · rfl
  refine ⟨hinv, ?_, ?_, ?_, ?_, hid, ?_, ?_, ?_, ?_, ?_⟩
  · obtain ⟨w, hw⟩ := hhot; exact ⟨w, by rw [hw, p2]⟩
  · intro x hx; rw [hfr x hx, p4 x hx]
  · simp [hnc]
  · intro hf'; cases hf'
  · simp [s4 hnd]
  · intro _; exact sn
  · intro x hx; rw [hmap x, p5 x] at hx; exact hx
  · intro x _ hx; rw [hmap x, p5 x]; exact hx
  · exact ⟨hf.1.trans p6.1, hf.2.1.trans p6.2.1, hf.2.2.trans p6.2.2⟩

/-- facts of a loop body that removed the task (cancelled, or the future finished) -/
theorem StepFacts.ofRemoved {e : Exec} (h : Inv e) {id : Nat} {rest : List Nat} (hh : e.hot = id :: rest)
    {t : TaskSt} (hg : e.get? id = some t) (ht : TInv true t)
    (hk : (runTask t).2.1 = .dropped ∨ (runTask t).2.1 = .finished) (wk : List Nat) :
    StepFacts e id rest t
      (({ e with tasks := e.tasks.set id (runTask t).1, hot := rest, woken := wk } : Exec),
        decide ((runTask t).2.1 ≠ .dropped)) := by
  obtain ⟨s1, s2, s3, s4, s5⟩ := runTask_spec t ht
  have hinv := (removed_facts h hh hg (runTask t).1 (s1 hk) wk).2
  have hnd := h.q.hnd
  rw [hh, List.nodup_cons] at hnd
  have hnc : id ∉ e.cold := fun hc => h.q.disj id (by simp [hh]) hc
  have hout : inMap ({ e with tasks := e.tasks.set id (runTask t).1, hot := rest, woken := wk } : Exec) id = false := by
    rw [inMap_false_iff]; simp [hnd.1, hnc]
  refine ⟨hinv, ⟨[], by simp⟩, ?_, ?_, fun _ => hout, ⟨_, ?_, SameUpToSched.refl _⟩, ?_, ?_, ?_, ?_, ⟨rfl, rfl, rfl⟩⟩
  · intro x hx; simp [Exec.get?, List.getElem?_set_ne (Ne.symm hx)]
  · cases hn : t.word.notCancelled
    · simp [s3.mpr hn]
    · have : (runTask t).2.1 ≠ .dropped := fun hd => by rw [s3.mp hd] at hn; cases hn
      simp [this]
  · simp [Exec.get?, List.getElem?_set_self (get?_lt hg)]
  · by_cases hd : (runTask t).2.1 = .dropped
    · simp [hd, s5 hd]
    · simp [hd, s4 hd]
  · intro hi; rw [hout] at hi; cases hi
  · intro x hx
    rw [inMap_iff] at hx ⊢
    simp only at hx
    rw [hh]
    rcases hx with hx | hx
    · exact Or.inl (by simp [hx])
    · exact Or.inr hx
  · intro x hne hx
    rw [inMap_iff] at hx ⊢
    simp only
    rw [hh] at hx
    rcases hx with hx | hx
    · simp at hx
      rcases hx with hx | hx
      · exact absurd hx hne
      · exact Or.inl hx
    · exact Or.inr hx

theorem tickStep_facts {e : Exec} (h : Inv e) {id : Nat} {rest : List Nat} (hh : e.hot = id :: rest) :
    ∃ t, e.get? id = some t ∧ TInv true t ∧ StepFacts e id rest t (tickStep e id) := by
  obtain ⟨t, hg, ht⟩ := h.get_of_mem (id := id) (Or.inl (by simp [hh]))
  refine ⟨t, hg, ht, ?_⟩
  have hmc : makeCold e id = { e with hot := rest, cold := e.cold ++ [id] } := by simp [makeCold, hh]
  have hg' : (makeCold e id).get? id = some t := by rw [hmc]; exact hg
  obtain ⟨s1, s2, s3, s4, s5⟩ := runTask_spec t ht
  simp only [tickStep, runOne, hg']
  rcases hr : runTask t with ⟨t', k, w⟩
  have hr1 : (runTask t).1 = t' := by rw [hr]
  have hr2 : (runTask t).2.1 = k := by rw [hr]
  cases k <;> simp only
  · -- dropped
    have hk : (runTask t).2.1 = .dropped ∨ (runTask t).2.1 = .finished := Or.inl hr2
    have := StepFacts.ofRemoved h hh hg ht hk e.woken
    have heq := (removed_facts h hh hg t' (hr1 ▸ s1 hk) e.woken).1
    rw [hr1, hr2] at this
    have he : removeTask ((makeCold e id).setTask id t') id =
        ({ e with tasks := e.tasks.set id t', hot := rest, woken := e.woken } : Exec) := by
      rw [← heq]; simp [hmc, removeTask, Exec.setTask]
    rw [he]; simpa using this
  · -- pending
    have hk : (runTask t).2.1 = .pending ∨ (runTask t).2.1 = .wokeSelf ∨ (runTask t).2.1 = .remoteWoke :=
      Or.inl hr2
    obtain ⟨st, sn, ss⟩ := s2 hk
    have pf := pend_facts h hh hg (runTask t).1 st sn ss
    have := StepFacts.ofPend h hh hg ht hk _ pf.1 ⟨[], by simp⟩ (fun _ _ => rfl)
      ⟨_, pf.2.2.1, SameUpToSched.refl _⟩ (fun _ => rfl) ⟨rfl, rfl, rfl⟩
    rw [hr1] at this; exact this
  · -- wokeSelf
    have hk : (runTask t).2.1 = .pending ∨ (runTask t).2.1 = .wokeSelf ∨ (runTask t).2.1 = .remoteWoke :=
      Or.inr (Or.inl hr2)
    obtain ⟨st, sn, ss⟩ := s2 hk
    have pf := pend_facts h hh hg (runTask t).1 st sn ss
    have f := scheduleLocal_fields pf.1 id
    have := StepFacts.ofPend h hh hg ht hk (scheduleLocal ((makeCold e id).setTask id (runTask t).1) id)
      (scheduleLocal_inv pf.1 id) (scheduleLocal_hot pf.1 id) (fun x _ => scheduleLocal_get? pf.1 id x)
      ⟨_, by rw [scheduleLocal_get? pf.1 id id]; exact pf.2.2.1, SameUpToSched.refl _⟩
      (fun x => scheduleLocal_inMap pf.1 id x) ⟨f.2.2.1, f.2.2.2.2.2, f.2.2.2.1⟩
    rw [hr1] at this; exact this
  · -- remoteWoke
    have hk : (runTask t).2.1 = .pending ∨ (runTask t).2.1 = .wokeSelf ∨ (runTask t).2.1 = .remoteWoke :=
      Or.inr (Or.inr hr2)
    obtain ⟨st, sn, ss⟩ := s2 hk
    have pf := pend_facts h hh hg (runTask t).1 st sn ss
    have hfin : StepFacts e id rest t (remoteScheduleGuarded ((makeCold e id).setTask id (runTask t).1) id, true) := by
      rcases remoteScheduleGuarded_cases ((makeCold e id).setTask id (runTask t).1) id with he | he
      · rw [he]
        exact StepFacts.ofPend h hh hg ht hk _ pf.1 ⟨[], by simp⟩ (fun _ _ => rfl)
          ⟨_, pf.2.2.1, SameUpToSched.refl _⟩ (fun _ => rfl) ⟨rfl, rfl, rfl⟩
      · have hinv := remoteScheduleGuarded_inv pf.1 id
        rw [he] at hinv ⊢
        have f := remoteSchedule_fields
          ({ (makeCold e id).setTask id (runTask t).1 with
              outstanding := ((makeCold e id).setTask id (runTask t).1).outstanding + 1 } : Exec) id
        have hgp : ({ (makeCold e id).setTask id (runTask t).1 with
              outstanding := ((makeCold e id).setTask id (runTask t).1).outstanding + 1 } : Exec).get? id
              = some (runTask t).1 := pf.2.2.1
        refine StepFacts.ofPend h hh hg ht hk _ hinv ⟨[], by rw [f.1]; simp⟩
          (fun x hx => by rw [remoteSchedule_get?_ne _ hx]; rfl)
          ⟨_, remoteSchedule_get?_self hgp, ⟨true, false, rfl⟩⟩ ?_ ⟨f.2.2.2.1, f.2.2.2.2.2.2.1, f.2.2.2.2.1⟩
        intro x
        apply inMap_eq_of_iff
        rw [f.1, f.2.1]
    rw [hr1] at hfin; exact hfin
  · -- finished
    have hk : (runTask t).2.1 = .dropped ∨ (runTask t).2.1 = .finished := Or.inr hr2
    have := StepFacts.ofRemoved h hh hg ht hk ((makeCold e id).woken ++ w.toList)
    have heq := (removed_facts h hh hg t' (hr1 ▸ s1 hk) ((makeCold e id).woken ++ w.toList)).1
    rw [hr1, hr2] at this
    rw [heq]; simpa using this

theorem tickStep_inv {e : Exec} (h : Inv e) {id : Nat} {rest : List Nat} (hh : e.hot = id :: rest) :
    Inv (tickStep e id).1 := by
  obtain ⟨t, _, _, sf⟩ := tickStep_facts h hh
  exact sf.inv

end Compio.Executor
