import Compio.Lemmas.ExecutorSteps
namespace Compio.Executor
open Compio.TaskWord Compio.Gen
set_option linter.unusedSimpArgs false
set_option linter.unusedVariables false

/-- `k` consecutive ticks with `max_interval = n`; the concatenated poll logs -/
def tickN (e : Exec) (n : Nat) : Nat → Exec × List Nat
  | 0 => (e, [])
  | k + 1 => ((tickN (tick e n).1 n k).1, (tick e n).2.1 ++ (tickN (tick e n).1 n k).2)

theorem tickN_inv {e : Exec} (h : Inv e) (n k : Nat) : Inv (tickN e n k).1 := by
  induction k generalizing e with
  | zero => exact h
  | succ k ih => exact ih (tick_inv h n)

/-- no starvation: a live hot task at position `p` is polled within ⌈(p+1)/n⌉ ticks -/
theorem tickN_polls_live {e : Exec} (h : Inv e) (n : Nat) (hn : 0 < n) (k : Nat) :
    ∀ p x, e.hot[p]? = some x → liveIn e x → p < k * n → x ∈ (tickN e n k).2 := by
  induction k generalizing e with
  | zero => intro p x _ _ hp; omega
  | succ k ih =>
    intro p x hx hl hp
    simp only [tickN]
    by_cases hpn : p < n
    · exact List.mem_append_left _ ((tickLoop_visit n e h p x hx hpn).2 hl)
    · have hs := tickLoop_shift n e h p x hx (by omega)
      have hin : inMap (tick e n).1 x = true := (inMap_iff _ _).mpr (Or.inl (List.mem_of_getElem? hs))
      have hl' := (tickLoop_sub n e h).2 x hl hin
      exact List.mem_append_right _ (ih (tick_inv h n) (p - n) x hs hl' (by
        have : (k + 1) * n = k * n + n := Nat.succ_mul k n
        omega))

/-- a cancelled hot task at position `p` is dropped and removed within ⌈(p+1)/n⌉ ticks, never polled -/
theorem tickN_drops_cancelled {e : Exec} (h : Inv e) (n : Nat) (hn : 0 < n) (k : Nat) :
    ∀ p x, e.hot[p]? = some x → cancelledIn e x → p < k * n → inMap (tickN e n k).1 x = false := by
  induction k generalizing e with
  | zero => intro p x _ _ hp; omega
  | succ k ih =>
    intro p x hx hc hp
    simp only [tickN]
    have hsubN : ∀ (k : Nat) (e : Exec), Inv e → ∀ y, inMap (tickN e n k).1 y = true → inMap e y = true := by
      intro k
      induction k with
      | zero => intro e _ y hy; exact hy
      | succ k ihk =>
        intro e he y hy
        exact (tickLoop_sub n e he).1 y (ihk _ (tick_inv he n) y hy)
    by_cases hpn : p < n
    · have hgone := (tickLoop_visit n e h p x hx hpn).1 hc
      cases hin : inMap (tickN (tick e n).1 n k).1 x
      · rfl
      · have := hsubN k _ (tick_inv h n) x hin
        rw [show (tick e n).1 = (tickLoop n e.hot.head? e []).1 from rfl, hgone] at this; cases this
    · have hs := tickLoop_shift n e h p x hx (by omega)
      obtain ⟨t, hg, hnc⟩ := hc
      obtain ⟨t', hg', hst⟩ := tickLoop_steps n e h x t hg
      have hc' : cancelledIn (tick e n).1 x := by
        refine ⟨t', hg', ?_⟩
        cases hn' : t'.word.notCancelled
        · rfl
        · rw [(taskSteps_mono hst).nc hn'] at hnc; cases hnc
      exact ih (tick_inv h n) (p - n) x hs hc' (by
        have : (k + 1) * n = k * n + n := Nat.succ_mul k n
        omega)

end Compio.Executor
