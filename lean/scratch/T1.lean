import Compio.Model.Executor
namespace Compio.Executor
open Compio.TaskWord Compio.Gen

def holders (inQ : Bool) (t : TaskSt) : Nat :=
  (if inQ then 1 else 0) + (if t.handle then 1 else 0) + t.wakers

def isRes : Storage → Bool
  | .resultOk | .resultPanic => true
  | _ => false

structure TInv (inQ : Bool) (t : TaskSt) : Prop where
  rc : t.deallocs = 0 → t.word.count = holders inQ t
  dl : t.deallocs = (if holders inQ t = 0 then 1 else 0)
  uaf : t.uaf = 0
  inq : inQ = true → t.storage = .future ∧ t.futDrops = 0 ∧ t.word.completed = false ∧ t.shared = true
  outq : inQ = false → t.futDrops = 1 ∧ t.shared = false ∧ t.word.notCancelled = false ∧ t.slot = none
          ∧ t.storage = (if t.word.hasResult && t.deallocs == 0 then t.storage else .empty) ∧ t.storage ≠ .future
  bp : t.badPolls = 0
  nsw : t.word.notSettingWaker = true
  res : t.deallocs = 0 → t.word.hasResult = isRes t.storage
  resc : t.word.hasResult = true → t.word.completed = true
  cnt : t.resTaken + t.resDrops = (if t.word.completed && (!t.word.hasResult || t.deallocs == 1) then 1 else 0)
  wk : t.word.hasWaker = t.slot.isSome
  sl : t.slotSets = t.slotDrops + (if t.slot.isSome then 1 else 0)
  hd : t.handle = true → t.word.completed = true → t.word.hasResult = true

@[simp] theorem g_unschedule (w : Word) : TaskState.unschedule w = { w with scheduled := false } := rfl
@[simp] theorem g_setDropped (w : Word) : TaskState.setDropped w = { w with hasWaker := false, notCancelled := false } := rfl
@[simp] theorem g_dec (w : Word) : TaskState.dec w = { w with count := w.count - 1 } := rfl
@[simp] theorem g_isCancelled (w : Word) : TaskState.isCancelled w = !w.notCancelled := rfl
@[simp] theorem g_isCompleted (w : Word) : TaskState.isCompleted w = w.completed := rfl
@[simp] theorem g_isSettingWaker (w : Word) : TaskState.isSettingWaker w = !w.notSettingWaker := rfl
@[simp] theorem g_hasWaker (w : Word) : TaskState.hasWaker w = w.hasWaker := rfl
@[simp] theorem g_hasResult (w : Word) : TaskState.hasResult w = w.hasResult := rfl
@[simp] theorem g_count (w : Word) : TaskState.count w = w.count := rfl

theorem run_dropped (t : TaskSt) (h : TInv true t) (hc : t.word.notCancelled = false) :
    TInv false (dropRef (taskDropByExecutor { t with word := TaskState.unschedule t.word })) := by
  obtain ⟨⟨s, sg, nsw, hw, c, hr, nc, cnt⟩, st, slot, script, sh, hd, wk, polls, fd, rt, rd, ss, sd, de, uaf, bp⟩ := t
  obtain ⟨h1, h2, h3, h4, h5, h6, h7, h8, h9, h10, h11, h12, h13⟩ := h
  cases nsw <;> cases c <;> cases hr <;> cases hw <;> cases hd <;> simp [holders, isRes] at * <;>
    subst_vars <;> constructor <;> simp [dropRef, taskDropByExecutor, holders, isRes] <;> (try split) <;> (try simp_all) <;> (try omega)
end Compio.Executor
