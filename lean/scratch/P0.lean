import Compio.Lemmas.ExecutorOps
namespace Compio.Executor
open Compio.TaskWord Compio.Gen
set_option linter.unusedSimpArgs false
set_option linter.unusedVariables false

/-! ## closed forms of the handle / waker operations -/

theorem handlePoll_live {e : Exec} {id : Nat} {t : TaskSt} (w : Nat) (hg : e.get? id = some t)
    (hh : t.handle = true) : handlePoll e id w = (e.setTask id (pollTask t w).1, (pollTask t w).2) := by
  simp [handlePoll, hg, hh]

theorem handlePoll_dead {e : Exec} {id : Nat} (w : Nat) (hd : ∀ t, e.get? id = some t → t.handle = false) :
    handlePoll e id w = (e, .invalid) := by
  unfold handlePoll
  cases hg : e.get? id with
  | none => rfl
  | some t => simp [hd t hg]

theorem handleDrop_live {e : Exec} {id : Nat} {t : TaskSt} (hg : e.get? id = some t) (hh : t.handle = true) :
    handleDrop e id = ((scheduleLocal e id).setTask id (dropRef { cancelWord t true with handle := false }), true) := by
  simp [handleDrop, hg, hh]

theorem handleDrop_dead {e : Exec} {id : Nat} (hd : ∀ t, e.get? id = some t → t.handle = false) :
    handleDrop e id = (e, false) := by
  unfold handleDrop
  cases hg : e.get? id with
  | none => rfl
  | some t => simp [hd t hg]

theorem handleDetach_live {e : Exec} {id : Nat} {t : TaskSt} (hg : e.get? id = some t) (hh : t.handle = true) :
    handleDetach e id = (e.setTask id (dropRef { t with handle := false }), true) := by
  simp [handleDetach, hg, hh]

theorem handleDetach_dead {e : Exec} {id : Nat} (hd : ∀ t, e.get? id = some t → t.handle = false) :
    handleDetach e id = (e, false) := by
  unfold handleDetach
  cases hg : e.get? id with
  | none => rfl
  | some t => simp [hd t hg]

theorem handleCancel_live {e : Exec} {id : Nat} {t : TaskSt} (hg : e.get? id = some t) (hh : t.handle = true) :
    handleCancel e id = ((scheduleLocal e id).setTask id (cancelWord t false), true) := by
  simp [handleCancel, cancelTask, hg, hh]

theorem handleCancel_dead {e : Exec} {id : Nat} (hd : ∀ t, e.get? id = some t → t.handle = false) :
    handleCancel e id = (e, false) := by
  unfold handleCancel
  cases hg : e.get? id with
  | none => rfl
  | some t => simp [hd t hg]

theorem cancelWord_handle (t : TaskSt) (b : Bool) : (cancelWord t b).handle = t.handle := by
  unfold cancelWord; simp only; split <;> rfl

theorem cancelWord_polls (t : TaskSt) (b : Bool) : (cancelWord t b).polls = t.polls := by
  unfold cancelWord; simp only; split <;> rfl

theorem cancelWord_nc (t : TaskSt) (b : Bool) : (cancelWord t b).word.notCancelled = false := by
  unfold cancelWord; simp only; split <;> rfl

theorem setTask_setTask (e : Exec) (id : Nat) (t t' : TaskSt) : (e.setTask id t).setTask id t' = e.setTask id t' := by
  simp [Exec.setTask]

/-- `JoinHandle::cancel(self).await` on a live handle: cancel, then the first poll -/
theorem hcancel_live {e : Exec} {id : Nat} {t : TaskSt} (hg : e.get? id = some t) (hh : t.handle = true) :
    applyR e (.hcancel id) =
      ((scheduleLocal e id).setTask id (pollTask (cancelWord t false) noopWaker).1,
       .cancel (pollTask (cancelWord t false) noopWaker).2) := by
  have hg2 : ((scheduleLocal e id).setTask id (cancelWord t false)).get? id = some (cancelWord t false) :=
    get?_setTask_self _ (by rw [scheduleLocal_get?]; exact hg)
  simp only [applyR, handleCancel_live hg hh]
  rw [handlePoll_live _ hg2 (by rw [cancelWord_handle]; exact hh)]
  simp [setTask_setTask]

theorem hcancel_dead {e : Exec} {id : Nat} (hd : ∀ t, e.get? id = some t → t.handle = false) :
    applyR e (.hcancel id) = (e, .invalid) := by
  simp [applyR, handleCancel_dead hd]

theorem wakeLocal_live {e : Exec} {id : Nat} {t : TaskSt} (hg : e.get? id = some t) (hw : t.wakers ≠ 0) :
    wakeLocal e id = (scheduleLocal e id, true) := by
  simp [wakeLocal, hg, hw]

theorem wakeLocal_dead {e : Exec} {id : Nat} (hd : ∀ t, e.get? id = some t → t.wakers = 0) :
    wakeLocal e id = (e, false) := by
  unfold wakeLocal
  cases hg : e.get? id with
  | none => rfl
  | some t => simp [hd t hg]

theorem wakerDrop_live {e : Exec} {id : Nat} {t : TaskSt} (hg : e.get? id = some t) (hw : t.wakers ≠ 0) :
    wakerDrop e id = (e.setTask id (dropRef { t with wakers := t.wakers - 1 }), true) := by
  simp [wakerDrop, hg, hw]

theorem wakerDrop_dead {e : Exec} {id : Nat} (hd : ∀ t, e.get? id = some t → t.wakers = 0) :
    wakerDrop e id = (e, false) := by
  unfold wakerDrop
  cases hg : e.get? id with
  | none => rfl
  | some t => simp [hd t hg]

theorem handle_dead_or_live (e : Exec) (id : Nat) :
    (∀ t, e.get? id = some t → t.handle = false) ∨ ∃ t, e.get? id = some t ∧ t.handle = true := by
  cases hg : e.get? id with
  | none => exact Or.inl (by simp)
  | some t =>
    cases hh : t.handle
    · exact Or.inl (by intro t' ht'; cases ht'; exact hh)
    · exact Or.inr ⟨t, rfl, hh⟩

theorem wakers_dead_or_live (e : Exec) (id : Nat) :
    (∀ t, e.get? id = some t → t.wakers = 0) ∨ ∃ t, e.get? id = some t ∧ t.wakers ≠ 0 := by
  cases hg : e.get? id with
  | none => exact Or.inl (by simp)
  | some t =>
    by_cases hh : t.wakers = 0
    · exact Or.inl (by intro t' ht'; cases ht'; exact hh)
    · exact Or.inr ⟨t, rfl, hh⟩

/-- what an operation other than spawn / tick / executor drop can do: nothing, or rewrite ONE task that
still has a live holder (its handle or a waker clone), without polling it, possibly after `schedule()` -/
theorem apply_cases (e : Exec) (op : Op) :
    apply e op = e ∨
    (∃ id t t', e.get? id = some t ∧ (t.handle = true ∨ t.wakers ≠ 0) ∧ t'.polls = t.polls ∧
        (apply e op = e.setTask id t' ∨ apply e op = (scheduleLocal e id).setTask id t')) ∨
    (e.alive = true ∧ ((∃ sc, op = .spawn sc) ∨ (∃ n, op = .tick n) ∨ op = .xdrop)) := by
  cases op with
  | spawn sc =>
    cases ha : e.alive
    · exact Or.inl (by simp [apply, applyR, ha])
    · exact Or.inr (Or.inr ⟨rfl, Or.inl ⟨sc, rfl⟩⟩)
  | tick n =>
    cases ha : e.alive
    · exact Or.inl (by simp [apply, applyR, ha])
    · exact Or.inr (Or.inr ⟨rfl, Or.inr (Or.inl ⟨n, rfl⟩)⟩)
  | xdrop =>
    cases ha : e.alive
    · exact Or.inl (by simp [apply, applyR, ha])
    · exact Or.inr (Or.inr ⟨rfl, Or.inr (Or.inr rfl)⟩)
  | hpoll id w =>
    rcases handle_dead_or_live e id with hd | ⟨t, hg, hh⟩
    · exact Or.inl (by simp [apply, applyR, handlePoll_dead w hd])
    · exact Or.inr (Or.inl ⟨id, t, (pollTask t w).1, hg, Or.inl hh, pollTask_polls t w,
        Or.inl (by simp [apply, applyR, handlePoll_live w hg hh])⟩)
  | hdrop id =>
    rcases handle_dead_or_live e id with hd | ⟨t, hg, hh⟩
    · exact Or.inl (by simp [apply, applyR, handleDrop_dead hd])
    · exact Or.inr (Or.inl ⟨id, t, dropRef { cancelWord t true with handle := false }, hg, Or.inl hh,
        by rw [dropRef_polls]; exact cancelWord_polls t true,
        Or.inr (by simp [apply, applyR, handleDrop_live hg hh])⟩)
  | hdetach id =>
    rcases handle_dead_or_live e id with hd | ⟨t, hg, hh⟩
    · exact Or.inl (by simp [apply, applyR, handleDetach_dead hd])
    · exact Or.inr (Or.inl ⟨id, t, dropRef { t with handle := false }, hg, Or.inl hh, by rw [dropRef_polls],
        Or.inl (by simp [apply, applyR, handleDetach_live hg hh])⟩)
  | hcancel id =>
    rcases handle_dead_or_live e id with hd | ⟨t, hg, hh⟩
    · exact Or.inl (by simp [apply, hcancel_dead hd])
    · exact Or.inr (Or.inl ⟨id, t, (pollTask (cancelWord t false) noopWaker).1, hg, Or.inl hh,
        by rw [pollTask_polls]; exact cancelWord_polls t false,
        Or.inr (by simp [apply, hcancel_live hg hh])⟩)
  | wake id =>
    rcases wakers_dead_or_live e id with hd | ⟨t, hg, hw⟩
    · exact Or.inl (by simp [apply, applyR, wakeLocal_dead hd])
    · refine Or.inr (Or.inl ⟨id, t, t, hg, Or.inr hw, rfl, Or.inr ?_⟩)
      have : (scheduleLocal e id).setTask id t = scheduleLocal e id := by
        have : (scheduleLocal e id).tasks.set id t = (scheduleLocal e id).tasks := by
          rw [scheduleLocal_tasks]
          apply List.ext_getElem?
          intro i
          by_cases hi : id = i
          · subst hi; rw [List.getElem?_set_self (get?_lt hg)]; exact hg.symm
          · rw [List.getElem?_set_ne hi]
        simp [Exec.setTask, this]
      simp [apply, applyR, wakeLocal_live hg hw, this]
  | wdrop id =>
    rcases wakers_dead_or_live e id with hd | ⟨t, hg, hw⟩
    · exact Or.inl (by simp [apply, applyR, wakerDrop_dead hd])
    · exact Or.inr (Or.inl ⟨id, t, dropRef { t with wakers := t.wakers - 1 }, hg, Or.inr hw, by rw [dropRef_polls],
        Or.inl (by simp [apply, applyR, wakerDrop_live hg hw])⟩)

end Compio.Executor
