import Compio.Lemmas.Executor
namespace Compio.Executor
open Compio.TaskWord Compio.Gen

theorem dropRef_polls (t : TaskSt) : (dropRef t).polls = t.polls := by
  obtain ⟨⟨s, sg, nsw, hw, c, hr, nc, cnt⟩, st, slot, script, sh, hd, wk, polls, fd, rt, rd, ss, sd, de, uaf, bp⟩ := t
  cases hr <;> cases hw <;> simp [dropRef] <;> split <;> split <;> rfl

theorem taskDropByExecutor_polls (t : TaskSt) : (taskDropByExecutor t).polls = t.polls := by
  obtain ⟨⟨s, sg, nsw, hw, c, hr, nc, cnt⟩, st, slot, script, sh, hd, wk, polls, fd, rt, rd, ss, sd, de, uaf, bp⟩ := t
  cases c <;> cases hw <;> cases nsw <;> simp [taskDropByExecutor]
end Compio.Executor
