import Compio.Lemmas.ExecutorSteps
namespace Compio.Executor
open Compio.TaskWord Compio.Gen
set_option linter.unusedSimpArgs false
set_option linter.unusedVariables false

/-- facts that only ever go one way along the life of a task -/
structure Mono (a b : TaskSt) : Prop where
  /-- cancellation is never undone -/
  nc : b.word.notCancelled = true → a.word.notCancelled = true
  /-- a consumed handle never comes back, and then nobody takes the result -/
  hdl : a.handle = false → b.handle = false ∧ b.resTaken = a.resTaken
  polls : a.polls ≤ b.polls
  /-- a cancelled task is never polled again -/
  cpolls : a.word.notCancelled = false → b.polls = a.polls
  comp : a.word.completed = true → b.word.completed = true

theorem Mono.refl (t : TaskSt) : Mono t t := ⟨id, fun h => ⟨h, rfl⟩, Nat.le_refl _, fun _ => rfl, id⟩

theorem Mono.trans {a b c : TaskSt} (h1 : Mono a b) (h2 : Mono b c) : Mono a c := by
  refine ⟨fun h => h1.nc (h2.nc h), ?_, Nat.le_trans h1.polls h2.polls, ?_, fun h => h2.comp (h1.comp h)⟩
  · intro h
    obtain ⟨hb, hr⟩ := h1.hdl h
    obtain ⟨hc, hr'⟩ := h2.hdl hb
    exact ⟨hc, by rw [hr', hr]⟩
  · intro h
    have hb : b.word.notCancelled = false := by
      cases hbn : b.word.notCancelled
      · rfl
      · rw [h1.nc hbn] at h; cases h
    rw [h2.cpolls hb, h1.cpolls h]

theorem dropRef_mono (t : TaskSt) : Mono t (dropRef t) := by
  obtain ⟨⟨s, sg, nsw, hw, c, hr, nc, cnt⟩, st, slot, script, sh, hd, wk, polls, fd, rt, rd, ss, sd, de, uaf, bp⟩ := t
  cases hr <;> cases hw <;> constructor <;> simp [dropRef] <;> (repeat' split) <;> simp_all

theorem taskDropByExecutor_mono (t : TaskSt) : Mono t (taskDropByExecutor t) := by
  obtain ⟨⟨s, sg, nsw, hw, c, hr, nc, cnt⟩, st, slot, script, sh, hd, wk, polls, fd, rt, rd, ss, sd, de, uaf, bp⟩ := t
  cases c <;> cases hw <;> cases nsw <;> constructor <;> simp [taskDropByExecutor]

theorem runTask_mono (t : TaskSt) : Mono t (runTask t).1 := by
  cases hn : t.word.notCancelled
  · rw [runTask_cancelled t hn]
    refine Mono.trans (b := { t with word := TaskState.unschedule t.word }) ?_
      (Mono.trans (taskDropByExecutor_mono _) (dropRef_mono _))
    constructor <;> simp
  · rcases hs : t.script with _ | ⟨o, r⟩
    · constructor <;> simp [runTask, hn, hs]
    · cases o
      · constructor <;> simp [runTask, hn, hs]
      · constructor <;> simp [runTask, hn, hs]
      · constructor <;> simp [runTask, hn, hs]
      all_goals
        simp only [runTask, hn, hs, g_isCancelled, Bool.not_true, Bool.false_eq_true, if_false]
        refine Mono.trans ?_ (Mono.trans (taskDropByExecutor_mono _) (dropRef_mono _))
        constructor <;> simp [hn]

theorem taskStep_mono {t b : TaskSt} (h : TaskStep t b) : Mono t b := by
  cases h with
  | poll w hh =>
    obtain ⟨⟨s, sg, nsw, hw, c, hr, nc, cnt⟩, st, slot, script, sh, hd, wk, polls, fd, rt, rd, ss, sd, de, uaf, bp⟩ := t
    simp at hh; subst hh
    cases hr <;> cases nc <;> cases c <;> cases hw <;> constructor <;>
      simp [pollTask, dropRef_nc, dropRef_polls, (dropRef_mono _).comp] <;> (repeat' split) <;> simp_all
  | hdrop hh =>
    refine Mono.trans (b := { cancelWord t true with handle := false }) ?_ (dropRef_mono _)
    obtain ⟨⟨s, sg, nsw, hw, c, hr, nc, cnt⟩, st, slot, script, sh, hd, wk, polls, fd, rt, rd, ss, sd, de, uaf, bp⟩ := t
    simp at hh; subst hh
    cases hr <;> constructor <;> simp [cancelWord]
  | detach hh =>
    refine Mono.trans (b := { t with handle := false }) ?_ (dropRef_mono _)
    constructor <;> simp [hh]
  | cancel hh =>
    obtain ⟨⟨s, sg, nsw, hw, c, hr, nc, cnt⟩, st, slot, script, sh, hd, wk, polls, fd, rt, rd, ss, sd, de, uaf, bp⟩ := t
    cases hr <;> constructor <;> simp [cancelWord]
  | wdrop hw =>
    refine Mono.trans (b := { t with wakers := t.wakers - 1 }) ?_ (dropRef_mono _)
    constructor <;> simp
  | run => exact runTask_mono t
  | clear => exact Mono.trans (taskDropByExecutor_mono _) (dropRef_mono _)

end Compio.Executor
