import Compio.Lemmas.ExecutorSteps
namespace Compio.Executor
open Compio.TaskWord Compio.Gen

example : (applyR (run [.spawn [.wakeSelf, .ready], .spawn [.pending]]) (.tick 61)).2 = .polled [0, 1, 0] false := by
  decide

example : ((run [.spawn [.pending, .ready], .tick 61, .hdrop 0, .tick 61]).get? 0).map
    (fun t => (t.polls, t.futDrops, t.deallocs, t.resTaken + t.resDrops)) = some (1, 1, 1, 0) := by decide

example : (run [.spawn [.ready], .hpoll 0 7, .tick 61]).woken = [7] := by decide
