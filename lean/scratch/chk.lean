import Compio.Lemmas.PollAdapter
open Compio.PollAdapter
#print axioms Clean.run
#print axioms AInv.run
#check @AWrite.pollClose_clean
