import Compio.Lemmas.ExecutorOps
namespace Compio.Executor
open Compio.TaskWord Compio.Gen
set_option linter.unusedSimpArgs false
set_option linter.unusedVariables false

theorem spawn_inv {e : Exec} (h : Inv e) (ha : e.alive = true) (sc : List Outcome) : Inv (spawn e sc).1 := by
  have hnh : e.tasks.length ∉ e.hot := fun hm => Nat.lt_irrefl _ (h.q.hval _ hm)
  have hnc : e.tasks.length ∉ e.cold := fun hm => Nat.lt_irrefl _ (h.q.cval _ hm)
  refine ⟨⟨?_, h.q.cnd, ?_, ?_, ?_⟩, ?_, ?_, ?_⟩
  · simp only [spawn]
    rw [List.nodup_append]
    refine ⟨h.q.hnd, by simp, ?_⟩
    intro a ha b hb
    simp at hb; subst hb
    intro hab; subst hab; exact hnh ha
  · intro x hx hx'
    simp [spawn] at hx hx'
    rcases hx with hx | hx
    · exact h.q.disj x hx hx'
    · subst hx; exact hnc hx'
  · intro x hx
    simp [spawn] at hx ⊢
    rcases hx with hx | hx
    · have := h.q.hval x hx; omega
    · omega
  · intro x hx
    simp [spawn] at hx ⊢
    have := h.q.cval x hx; omega
  · intro x t hx
    simp only [spawn, Exec.get?] at hx
    by_cases hl : x < e.tasks.length
    · rw [List.getElem?_append_left hl] at hx
      have hne : x ≠ e.tasks.length := by omega
      have : inMap (spawn e sc).1 x = inMap e x := by
        apply inMap_eq_of_iff
        simp [spawn, hne]
      rw [this]; exact h.t x t hx
    · rw [List.getElem?_append_right (by omega)] at hx
      have hxe : x = e.tasks.length := by
        rcases Nat.lt_or_ge (x - e.tasks.length) 1 with h1 | h1
        · omega
        · rw [List.getElem?_eq_none (by simpa using h1)] at hx; cases hx
      subst hxe
      simp at hx; subst hx
      have : inMap (spawn e sc).1 e.tasks.length = true := by
        rw [inMap_iff]; simp [spawn]
      rw [this]; exact spawnedTask_inv sc
  · intro x t hx hc hcold
    simp only [spawn, Exec.get?] at hx hcold
    by_cases hl : x < e.tasks.length
    · rw [List.getElem?_append_left hl] at hx
      exact h.c x t hx hc hcold
    · exact hl (h.q.cval x hcold)
  · intro hd
    simp [spawn, ha] at hd

/-! ## `Executor::clear` -/

/-- what `Executor::clear` does to a task that is still in the map -/
def clearedTask (t : TaskSt) : TaskSt := dropRef (taskDropByExecutor t)

theorem clearTask_get? (e : Exec) (id x : Nat) :
    (clearTask e id).get? x = if x = id then (e.get? id).map clearedTask else e.get? x := by
  unfold clearTask
  cases hg : e.get? id with
  | none =>
    by_cases hx : x = id
    · subst hx; simp [hg]
    · simp [hx]
  | some t =>
    by_cases hx : x = id
    · subst hx; simp [get?_setTask_self _ hg, clearedTask]
    · simp [hx, get?_setTask_ne e _ hx]

theorem clearTask_fields (e : Exec) (id : Nat) :
    (clearTask e id).hot = e.hot ∧ (clearTask e id).cold = e.cold ∧ (clearTask e id).woken = e.woken ∧
    (clearTask e id).alive = e.alive := by
  unfold clearTask
  cases e.get? id <;> simp [Exec.setTask]

theorem foldl_clearTask (l : List Nat) : ∀ (e : Exec), l.Nodup →
    (∀ x, (l.foldl clearTask e).get? x = if x ∈ l then (e.get? x).map clearedTask else e.get? x) ∧
    (l.foldl clearTask e).woken = e.woken := by
  induction l with
  | nil => intro e _; simp
  | cons a l ih =>
    intro e hnd
    rw [List.nodup_cons] at hnd
    obtain ⟨ih1, ih2⟩ := ih (clearTask e a) hnd.2
    refine ⟨?_, by simp [List.foldl_cons, ih2, (clearTask_fields e a).2.2.1]⟩
    intro x
    rw [List.foldl_cons, ih1, clearTask_get?]
    by_cases hxa : x = a
    · subst hxa; simp [hnd.1]
    · simp [hxa]

theorem execDrop_inv {e : Exec} (h : Inv e) : Inv (execDrop e) := by
  have hnd : (e.hot ++ e.cold).Nodup := by
    rw [List.nodup_append]
    refine ⟨h.q.hnd, h.q.cnd, ?_⟩
    intro a ha b hb hab; subst hab; exact h.q.disj a ha hb
  obtain ⟨f1, f2⟩ := foldl_clearTask (e.hot ++ e.cold) e hnd
  have hin : ∀ x, inMap (execDrop e) x = false := by
    intro x; rw [inMap_false_iff]; simp [execDrop, clearAll]
  refine ⟨⟨by simp [execDrop, clearAll], by simp [execDrop, clearAll], by simp [execDrop, clearAll],
    by simp [execDrop, clearAll], by simp [execDrop, clearAll]⟩, ?_, by simp [execDrop, clearAll], by simp [execDrop, clearAll]⟩
  intro x t hx
  rw [hin x]
  have hx' : ((e.hot ++ e.cold).foldl clearTask e).get? x = some t := hx
  rw [f1] at hx'
  by_cases hm : x ∈ e.hot ++ e.cold
  · rw [if_pos hm] at hx'
    obtain ⟨t0, hg0, ht0⟩ := h.get_of_mem (id := x) (by simpa using hm)
    rw [hg0] at hx'
    simp at hx'; subst hx'
    exact clearedTask_inv t0 ht0
  · rw [if_neg hm] at hx'
    have := h.t x t hx'
    rwa [(inMap_false_iff e x).mpr (by simpa using hm)] at this

theorem tick_inv {e : Exec} (h : Inv e) (n : Nat) : Inv (tick e n).1 := tickLoop_inv n e h

theorem apply_inv {e : Exec} (h : Inv e) (op : Op) : Inv (apply e op) := by
  unfold apply applyR
  cases op with
  | spawn sc => cases ha : e.alive <;> simp [ha]; exact h; exact spawn_inv h ha sc
  | tick n => cases ha : e.alive <;> simp [ha]; exact h; exact tick_inv h n
  | hpoll id w => exact handlePoll_inv h id w
  | hdrop id => exact handleDrop_inv h id
  | hdetach id => exact handleDetach_inv h id
  | hcancel id =>
    simp only
    cases hb : (handleCancel e id).2
    · exact h
    · exact handlePoll_inv (handleCancel_inv h id) id noopWaker
  | wake id => exact wakeLocal_inv h id
  | wdrop id => exact wakerDrop_inv h id
  | xdrop => cases ha : e.alive <;> simp [ha]; exact h; exact execDrop_inv h

theorem init_inv : Inv Exec.init := by
  refine ⟨⟨by simp [Exec.init], by simp [Exec.init], by simp [Exec.init], by simp [Exec.init],
    by simp [Exec.init]⟩, ?_, by simp [Exec.init], by simp [Exec.init]⟩
  intro x t hx; simp [Exec.init, Exec.get?] at hx

theorem run_append (ops : List Op) (op : Op) : run (ops ++ [op]) = apply (run ops) op := by
  simp [run, List.foldl_append]

/-- the invariant holds after every program -/
theorem run_inv (ops : List Op) : Inv (run ops) := by
  have : ∀ (e : Exec), Inv e → Inv (ops.foldl apply e) := by
    induction ops with
    | nil => intro e h; exact h
    | cons op ops ih => intro e h; exact ih _ (apply_inv h op)
  exact this _ init_inv

end Compio.Executor
