import Compio.Lemmas.Executor
namespace Compio.Executor
open Compio.TaskWord Compio.Gen
set_option linter.unusedSimpArgs false
set_option linter.unusedVariables false

set_option hygiene false in
/-- split task `t` and invariant `h` into explicit fields, decide the flags, finish by `simp`/`omega` -/
macro "task_tac" "[" defs:Lean.Parser.Tactic.simpLemma,* "]" : tactic => `(tactic| (
  obtain ⟨⟨s, sg, nsw, hw, c, hr, nc, cnt⟩, st, slot, script, sh, hd, wk, polls, fd, rt, rd, ss, sd, de, uaf, bp⟩ := t
  obtain ⟨h1, h2, h3, h4a, h4b, h4c, h4d, h5a, h5b, h5c, h5d, h5e, h5f, h6, h7, h8, h9, h10, h11, h12, h13⟩ := h
  cases nsw <;> cases c <;> cases hr <;> cases hw <;> cases hd <;> simp [holders] at * <;>
    subst_vars <;> simp [isRes] at * <;> constructor <;>
    simp [$defs,*, dropRef, taskDropByExecutor, holders, isRes] <;> (try split) <;> (try simp_all) <;> (try omega)))

theorem cancelWord_inv (q : Bool) (t : TaskSt) (h : TInv q t) :
    TInv q (cancelWord t false) := by
  have e : cancelWord t false = { t with word := { t.word with notCancelled := false } } := by
    simp [cancelWord]
  rw [e]
  cases q <;> task_tac [cancelWord]

end Compio.Executor
