import Compio.Lemmas.Executor
namespace Compio.Executor
open Compio.TaskWord Compio.Gen
set_option linter.unusedSimpArgs false
set_option linter.unusedVariables false

/-! ## The loop of `tick` -/

theorem tickLoop_zero (c : Option Nat) (e : Exec) (log : List Nat) : tickLoop 0 c e log = (e, log) := by
  simp [tickLoop]

theorem tickLoop_none (n : Nat) (e : Exec) (log : List Nat) : tickLoop n none e log = (e, log) := by
  cases n <;> simp [tickLoop]

theorem tickLoop_succ (n id : Nat) (e : Exec) (log : List Nat) :
    tickLoop (n + 1) (some id) e log =
      tickLoop n (nextHot e.hot id) (tickStep e id).1 (if (tickStep e id).2 then log ++ [id] else log) := by
  simp [tickLoop]

/-- the log is only appended to -/
theorem tickLoop_log (n : Nat) : ∀ (c : Option Nat) (e : Exec) (log : List Nat),
    tickLoop n c e log = ((tickLoop n c e []).1, log ++ (tickLoop n c e []).2) := by
  induction n with
  | zero => intro c e log; simp [tickLoop_zero]
  | succ n ih =>
    intro c e log
    cases c with
    | none => simp [tickLoop_none]
    | some id =>
      rw [tickLoop_succ, tickLoop_succ, ih _ _ (if (tickStep e id).2 then log ++ [id] else log),
        ih _ _ (if (tickStep e id).2 then [] ++ [id] else [])]
      cases (tickStep e id).2 <;> simp

theorem nextHot_head (id : Nat) (rest : List Nat) : nextHot (id :: rest) id = rest.head? := by
  simp [nextHot]

/-- facts about one loop body on the head of the hot list -/
structure StepFacts (e : Exec) (id : Nat) (rest : List Nat) (t : TaskSt) (s : Exec × Bool) : Prop where
  inv : Inv s.1
  hot : s.1.hot = rest ∨ (s.1.hot = rest ++ [id] ∧ s.2 = true)
  frame : ∀ x, x ≠ id → s.1.get? x = e.get? x
  polled : s.2 = t.word.notCancelled
  gone : s.2 = false → inMap s.1 id = false
  task : ∃ t', s.1.get? id = some t' ∧ t'.polls = t.polls + (if s.2 then 1 else 0) ∧
          (inMap s.1 id = true → t'.word.notCancelled = true)
  sub : ∀ x, inMap s.1 x = true → inMap e x = true
  keep : ∀ x, x ≠ id → inMap e x = true → inMap s.1 x = true

theorem tickStep_facts {e : Exec} (h : Inv e) {id : Nat} {rest : List Nat} (hh : e.hot = id :: rest) :
    ∃ t, e.get? id = some t ∧ StepFacts e id rest t (tickStep e id) := by
  have hinv := tickStep_inv h hh
  obtain ⟨t, hg, ht, heq⟩ := tickStep_head h hh
  obtain ⟨s1, s2, s3, s4, s5⟩ := runTask_spec t ht
  have hnd := h.q.hnd
  rw [hh, List.nodup_cons] at hnd
  have hnc : id ∉ e.cold := fun hc => h.q.disj id (by simp [hh]) hc
  have hl := get?_lt hg
  refine ⟨t, hg, hinv, ?_, ?_, ?_, ?_, ?_, ?_, ?_⟩
  · rw [heq]; cases hk : (runTask t).2.1 <;> simp [hk]
  · intro x hx
    rw [heq]; simp [Exec.get?, List.getElem?_set_ne (Ne.symm hx)]
  · rw [heq]
    cases hn : t.word.notCancelled
    · simp [s3.mpr hn]
    · have : (runTask t).2.1 ≠ .dropped := fun hd => by rw [s3.mp hd] at hn; cases hn
      simp [this]
  · rw [heq]; intro hp
    simp at hp
    simp [inMap_false_iff, hp, hnd.1, hnc]
  · rw [heq]
    refine ⟨(runTask t).1, by simp [Exec.get?, List.getElem?_set_self hl], ?_, ?_⟩
    · by_cases hd : (runTask t).2.1 = .dropped
      · simp [hd, s5 hd]
      · simp [hd, s4 hd]
    · intro hin
      rw [inMap_iff] at hin
      cases hk : (runTask t).2.1 <;> simp [hk, hnd.1, hnc] at hin
      · exact (s2 (Or.inl hk)).2
      · exact (s2 (Or.inr hk)).2
  · intro x hx
    rw [heq, inMap_iff] at hx
    rw [inMap_iff, hh]
    simp only [List.mem_append, List.mem_cons] at hx ⊢
    rcases hx with (hx | hx) | (hx | hx)
    · exact Or.inl (Or.inr hx)
    · split at hx <;> simp at hx; exact Or.inl (Or.inl hx)
    · exact Or.inr hx
    · split at hx <;> simp at hx; exact Or.inl (Or.inl hx)
  · intro x hne hx
    rw [inMap_iff, hh] at hx
    rw [heq, inMap_iff]
    simp only [List.mem_append, List.mem_cons] at hx ⊢
    rcases hx with (hx | hx) | hx
    · exact absurd hx hne
    · exact Or.inl (Or.inl hx)
    · exact Or.inr (Or.inl hx)

/-- induction principle for the loop of `tick` started at the head of the hot list: the cursor always is
the head of the current hot list (the prefetched successor), and the loop ends early only when the list
had a single element left -/
theorem tickLoop_induct (P : Nat → Exec → Exec × List Nat → Prop)
    (h0 : ∀ e, Inv e → P 0 e (e, []))
    (hnil : ∀ n e, Inv e → e.hot = [] → P n e (e, []))
    (hlast : ∀ n e id t, Inv e → e.hot = [id] → e.get? id = some t → StepFacts e id [] t (tickStep e id) →
        P (n + 1) e ((tickStep e id).1, if (tickStep e id).2 then [id] else []))
    (hstep : ∀ n e id rest t r, Inv e → e.hot = id :: rest → rest ≠ [] → e.get? id = some t →
        StepFacts e id rest t (tickStep e id) →
        r = tickLoop n (tickStep e id).1.hot.head? (tickStep e id).1 [] → P n (tickStep e id).1 r →
        P (n + 1) e (r.1, (if (tickStep e id).2 then [id] else []) ++ r.2)) :
    ∀ n e, Inv e → P n e (tickLoop n e.hot.head? e []) := by
  intro n
  induction n with
  | zero => intro e h; rw [tickLoop_zero]; exact h0 e h
  | succ n ih =>
    intro e h
    rcases hh : e.hot with _ | ⟨id, rest⟩
    · simp only [List.head?_nil, tickLoop_none]; exact hnil _ e h hh
    · obtain ⟨t, hg, sf⟩ := tickStep_facts h hh
      simp only [List.head?_cons]
      rw [tickLoop_succ, hh, nextHot_head]
      rcases rest with _ | ⟨y, ys⟩
      · simp only [List.head?_nil, tickLoop_none, List.nil_append]
        exact hlast n e id t h hh hg sf
      · have hhd : (y :: ys).head? = (tickStep e id).1.hot.head? := by
          rcases sf.hot with h1 | ⟨h1, _⟩ <;> rw [h1] <;> simp
        rw [hhd, tickLoop_log]
        have := hstep n e id (y :: ys) t _ h hh (by simp) hg sf rfl (ih _ sf.inv)
        simpa using this

theorem tickLoop_inv (n : Nat) (e : Exec) (h : Inv e) : Inv (tickLoop n e.hot.head? e []).1 := by
  refine tickLoop_induct (fun _ _ r => Inv r.1) ?_ ?_ ?_ ?_ n e h
  · intro e h; exact h
  · intro _ e h _; exact h
  · intro _ e id t h hh hg sf; exact sf.inv
  · intro _ e id rest t r h hh hne hg sf _ hr; exact hr

/-- task `x` exists and is not cancelled -/
def liveIn (e : Exec) (x : Nat) : Prop := ∃ t, e.get? x = some t ∧ t.word.notCancelled = true
/-- task `x` exists and is cancelled (handle dropped / `cancel` called / dropped by the executor) -/
def cancelledIn (e : Exec) (x : Nat) : Prop := ∃ t, e.get? x = some t ∧ t.word.notCancelled = false

theorem StepFacts.live_frame {e : Exec} {id : Nat} {rest : List Nat} {t : TaskSt} {s : Exec × Bool}
    (sf : StepFacts e id rest t s) {x : Nat} (hx : x ≠ id) : (liveIn s.1 x ↔ liveIn e x) ∧ (cancelledIn s.1 x ↔ cancelledIn e x) := by
  simp [liveIn, cancelledIn, sf.frame x hx]

/-- the loop never adds a task to the queue, and a live task that stays queued stays live -/
theorem tickLoop_sub (n : Nat) (e : Exec) (h : Inv e) :
    (∀ x, inMap (tickLoop n e.hot.head? e []).1 x = true → inMap e x = true) ∧
    (∀ x, liveIn e x → inMap (tickLoop n e.hot.head? e []).1 x = true → liveIn (tickLoop n e.hot.head? e []).1 x) := by
  refine tickLoop_induct (fun _ e r => (∀ x, inMap r.1 x = true → inMap e x = true) ∧
      (∀ x, liveIn e x → inMap r.1 x = true → liveIn r.1 x)) ?_ ?_ ?_ ?_ n e h
  · intro e h; exact ⟨fun _ hx => hx, fun _ hx _ => hx⟩
  · intro _ e h _; exact ⟨fun _ hx => hx, fun _ hx _ => hx⟩
  · intro _ e id t h hh hg sf
    refine ⟨sf.sub, ?_⟩
    intro x hl hin
    by_cases hx : x = id
    · subst hx
      obtain ⟨t', hg', _, hn⟩ := sf.task
      exact ⟨t', hg', hn hin⟩
    · exact (sf.live_frame hx).1.mpr hl
  · intro _ e id rest t r h hh hne hg sf _ ⟨hr1, hr2⟩
    refine ⟨fun x hx => sf.sub x (hr1 x hx), ?_⟩
    intro x hl hin
    apply hr2 x _ hin
    by_cases hx : x = id
    · subst hx
      obtain ⟨t', hg', _, hn⟩ := sf.task
      exact ⟨t', hg', hn (hr1 x hin)⟩
    · exact (sf.live_frame hx).1.mpr hl

theorem StepFacts.hot_get {e : Exec} {id : Nat} {rest : List Nat} {t : TaskSt} {s : Exec × Bool}
    (sf : StepFacts e id rest t s) {p x : Nat} (hp : rest[p]? = some x) : s.1.hot[p]? = some x := by
  have hl : p < rest.length := (List.getElem?_eq_some_iff.mp hp).1
  rcases sf.hot with h1 | ⟨h1, _⟩ <;> rw [h1]
  · exact hp
  · rw [List.getElem?_append_left hl]; exact hp

/-- every task among the first `n` of the hot list is visited by `tick`: polled if live, dropped and
removed if cancelled -/
theorem tickLoop_visit (n : Nat) (e : Exec) (h : Inv e) :
    ∀ p x, e.hot[p]? = some x → p < n →
      (cancelledIn e x → inMap (tickLoop n e.hot.head? e []).1 x = false) ∧
      (liveIn e x → x ∈ (tickLoop n e.hot.head? e []).2) := by
  refine tickLoop_induct (fun n e r => ∀ p x, e.hot[p]? = some x → p < n →
      (cancelledIn e x → inMap r.1 x = false) ∧ (liveIn e x → x ∈ r.2)) ?_ ?_ ?_ ?_ n e h
  · intro e h p x _ hp; omega
  · intro _ e h hh p x hx; simp [hh] at hx
  · intro _ e id t h hh hg sf p x hx _
    rw [hh] at hx
    have hp0 : p = 0 := by
      rcases p with _ | p
      · rfl
      · simp at hx
    subst hp0
    simp at hx; subst hx
    constructor
    · rintro ⟨t', hg', hc⟩
      rw [hg] at hg'; cases hg'
      exact sf.gone (by rw [sf.polled, hc])
    · rintro ⟨t', hg', hc⟩
      rw [hg] at hg'; cases hg'
      rw [sf.polled, hc]; simp
  · intro n e id rest t r h hh hne hg sf hr0 hr p x hx hp
    have hsub := (tickLoop_sub n _ sf.inv).1
    rw [← hr0] at hsub
    rw [hh] at hx
    rcases p with _ | p
    · simp at hx; subst hx
      constructor
      · rintro ⟨t', hg', hc⟩
        rw [hg] at hg'; cases hg'
        have hgone := sf.gone (by rw [sf.polled, hc])
        show inMap r.1 id = false
        cases hin : inMap r.1 id
        · rfl
        · rw [hsub id hin] at hgone; cases hgone
      · rintro ⟨t', hg', hc⟩
        rw [hg] at hg'; cases hg'
        rw [sf.polled, hc]; simp
    · simp at hx
      have hne' : x ≠ id := by
        have hnd := h.q.hnd
        rw [hh, List.nodup_cons] at hnd
        intro hxe; subst hxe
        exact hnd.1 (List.mem_of_getElem? hx)
      have := hr p x (sf.hot_get hx) (by omega)
      rw [(sf.live_frame hne').1, (sf.live_frame hne').2] at this
      exact ⟨this.1, fun hl => List.mem_append_right _ (this.2 hl)⟩

/-- a hot task behind the first `n` moves up by exactly `n` positions -/
theorem tickLoop_shift (n : Nat) (e : Exec) (h : Inv e) :
    ∀ p x, e.hot[p]? = some x → n ≤ p → (tickLoop n e.hot.head? e []).1.hot[p - n]? = some x := by
  refine tickLoop_induct (fun n e r => ∀ p x, e.hot[p]? = some x → n ≤ p → r.1.hot[p - n]? = some x)
    ?_ ?_ ?_ ?_ n e h
  · intro e h p x hx _; simpa using hx
  · intro _ e h hh p x hx; simp [hh] at hx
  · intro n e id t h hh hg sf p x hx hp
    rw [hh] at hx
    rcases p with _ | p
    · omega
    · simp at hx
  · intro n e id rest t r h hh hne hg sf _ hr p x hx hp
    rw [hh] at hx
    rcases p with _ | p
    · omega
    · simp at hx
      have := hr p x (sf.hot_get hx) (by omega)
      simpa using this

/-- `tick` polls in hot-queue order: the poll log starts with the first `n` hot tasks (when they are live) -/
theorem tickLoop_order (n : Nat) (e : Exec) (h : Inv e) :
    (∀ x, x ∈ e.hot.take n → liveIn e x) →
      ∃ extra, (tickLoop n e.hot.head? e []).2 = e.hot.take n ++ extra := by
  refine tickLoop_induct (fun n e r => (∀ x, x ∈ e.hot.take n → liveIn e x) → ∃ extra, r.2 = e.hot.take n ++ extra)
    ?_ ?_ ?_ ?_ n e h
  · intro e h _; exact ⟨[], by simp⟩
  · intro _ e h hh _; exact ⟨[], by simp [hh]⟩
  · intro n e id t h hh hg sf hl
    obtain ⟨t', hg', hc⟩ := hl id (by simp [hh])
    rw [hg] at hg'; cases hg'
    exact ⟨[], by simp [hh, sf.polled, hc]⟩
  · intro n e id rest t r h hh hne hg sf _ hr hl
    obtain ⟨t', hg', hc⟩ := hl id (by simp [hh])
    rw [hg] at hg'; cases hg'
    have hnd := h.q.hnd
    rw [hh, List.nodup_cons] at hnd
    have hl' : ∀ x, x ∈ (tickStep e id).1.hot.take n → liveIn (tickStep e id).1 x := by
      intro x hx
      have hrest : x ∈ rest.take n → liveIn (tickStep e id).1 x := by
        intro hxr
        have hne' : x ≠ id := by
          intro hxe; rw [hxe] at hxr; exact hnd.1 (List.mem_of_mem_take hxr)
        exact (sf.live_frame hne').1.mpr (hl x (by simp [hh, hxr]))
      rcases sf.hot with h1 | ⟨h1, _⟩
      · rw [h1] at hx; exact hrest hx
      · rw [h1, List.take_append] at hx
        rcases List.mem_append.mp hx with hx | hx
        · exact hrest hx
        · have hxi : x = id := by simpa using List.mem_of_mem_take hx
          subst hxi
          obtain ⟨t', hg', _, hn⟩ := sf.task
          exact ⟨t', hg', hn ((inMap_iff _ _).mpr (Or.inl (by simp [h1])))⟩
    obtain ⟨extra, he⟩ := hr hl'
    rcases sf.hot with h1 | ⟨h1, _⟩
    · exact ⟨extra, by simp [hh, sf.polled, hc, he, h1]⟩
    · exact ⟨List.take (n - rest.length) [id] ++ extra, by simp [hh, sf.polled, hc, he, h1, List.take_append]⟩

/-- polls happen exactly as logged: the poll counter of every task grows by its number of occurrences in
the log, nothing else polls -/
theorem tickLoop_polls (n : Nat) (e : Exec) (h : Inv e) :
    ∀ x t, e.get? x = some t →
      ∃ t', (tickLoop n e.hot.head? e []).1.get? x = some t' ∧
        t'.polls = t.polls + (tickLoop n e.hot.head? e []).2.count x := by
  refine tickLoop_induct (fun n e r => ∀ x t, e.get? x = some t →
      ∃ t', r.1.get? x = some t' ∧ t'.polls = t.polls + r.2.count x) ?_ ?_ ?_ ?_ n e h
  · intro e h x t hx; exact ⟨t, hx, by simp⟩
  · intro _ e h hh x t hx; exact ⟨t, hx, by simp⟩
  · intro n e id t h hh hg sf x tx hx
    by_cases hxi : x = id
    · subst hxi
      rw [hg] at hx; cases hx
      obtain ⟨t', hg', hp, _⟩ := sf.task
      refine ⟨t', hg', ?_⟩
      rw [hp]; cases (tickStep e x).2 <;> simp
    · refine ⟨tx, by rw [sf.frame x hxi]; exact hx, ?_⟩
      cases (tickStep e id).2 <;> simp [List.count_cons, Ne.symm hxi]
  · intro n e id rest t r h hh hne hg sf _ hr x tx hx
    by_cases hxi : x = id
    · subst hxi
      rw [hg] at hx; cases hx
      obtain ⟨t', hg', hp, _⟩ := sf.task
      obtain ⟨t'', hg'', hp'⟩ := hr x t' hg'
      refine ⟨t'', hg'', ?_⟩
      rw [hp', hp]; cases (tickStep e x).2 <;> simp [List.count_cons] <;> omega
    · obtain ⟨t'', hg'', hp'⟩ := hr x tx (by rw [sf.frame x hxi]; exact hx)
      refine ⟨t'', hg'', ?_⟩
      rw [hp']; cases (tickStep e id).2 <;> simp [List.count_cons, Ne.symm hxi]

end Compio.Executor
