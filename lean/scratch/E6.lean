import Compio.Lemmas.ExecutorOps
namespace Compio.Executor
open Compio.TaskWord Compio.Gen
set_option linter.unusedSimpArgs false
set_option linter.unusedVariables false

/-! ## the operations -/

theorem handlePoll_inv {e : Exec} (h : Inv e) (id w : Nat) : Inv (handlePoll e id w).1 := by
  unfold handlePoll
  cases hg : e.get? id with
  | none => exact h
  | some t =>
    simp only
    cases hh : t.handle
    · exact h
    · exact h.update_task hg (pollTask_inv _ t w (h.t id t hg) hh) (pollTask_nc t w)

theorem handleDetach_inv {e : Exec} (h : Inv e) (id : Nat) : Inv (handleDetach e id).1 := by
  unfold handleDetach
  cases hg : e.get? id with
  | none => exact h
  | some t =>
    simp only
    cases hh : t.handle
    · exact h
    · exact h.update_task hg (detachedTask_inv _ t (h.t id t hg) hh) (by rw [dropRef_nc])

theorem handleDrop_inv {e : Exec} (h : Inv e) (id : Nat) : Inv (handleDrop e id).1 := by
  unfold handleDrop
  cases hg : e.get? id with
  | none => exact h
  | some t =>
    simp only
    cases hh : t.handle
    · exact h
    · exact h.update_sched hg (handleDropTask_inv _ t (h.t id t hg) hh)

theorem cancelTask_inv {e : Exec} (h : Inv e) (id : Nat) : Inv (cancelTask e id false) := by
  unfold cancelTask
  cases hg : e.get? id with
  | none => exact h
  | some t => exact h.update_sched hg (cancelWord_inv _ t (h.t id t hg))

theorem handleCancel_inv {e : Exec} (h : Inv e) (id : Nat) : Inv (handleCancel e id).1 := by
  unfold handleCancel
  cases hg : e.get? id with
  | none => exact h
  | some t =>
    simp only
    cases hh : t.handle
    · exact h
    · exact cancelTask_inv h id

theorem wakerDrop_inv {e : Exec} (h : Inv e) (id : Nat) : Inv (wakerDrop e id).1 := by
  unfold wakerDrop
  cases hg : e.get? id with
  | none => exact h
  | some t =>
    simp only
    by_cases hw : t.wakers = 0
    · simp [hw]; exact h
    · simp only [hw, if_false]
      exact h.update_task hg (wakerDropTask_inv _ t (h.t id t hg) hw) (by rw [dropRef_nc])

theorem scheduleLocal_inv {e : Exec} (h : Inv e) (id : Nat) : Inv (scheduleLocal e id) := by
  cases hg : e.get? id with
  | none => simp [scheduleLocal, hg]; exact h
  | some t =>
    have := h.update_sched hg (t' := t) (h.t id t hg)
    have he : (scheduleLocal e id).setTask id t = scheduleLocal e id := by
      have : (scheduleLocal e id).tasks.set id t = (scheduleLocal e id).tasks := by
        rw [scheduleLocal_tasks]
        apply List.ext_getElem?
        intro i
        by_cases hi : id = i
        · subst hi; rw [List.getElem?_set_self (get?_lt hg)]; exact hg.symm
        · rw [List.getElem?_set_ne hi]
      simp [Exec.setTask, this]
    rwa [he] at this

theorem wakeLocal_inv {e : Exec} (h : Inv e) (id : Nat) : Inv (wakeLocal e id).1 := by
  unfold wakeLocal
  cases hg : e.get? id with
  | none => exact h
  | some t =>
    simp only
    by_cases hw : t.wakers = 0
    · simp [hw]; exact h
    · simp only [hw, if_false]
      exact scheduleLocal_inv h id

end Compio.Executor
