import Compio.Lemmas.Executor
namespace Compio.Executor
open Compio.TaskWord Compio.Gen
set_option linter.unusedSimpArgs false
set_option linter.unusedVariables false

/-- the task after a poll that returned Pending -/
def polledTask (t : TaskSt) : TaskSt :=
  { t with word := TaskState.unschedule t.word, polls := t.polls + 1, script := t.script.drop 1 }

/-- the task after a poll that cloned the task waker and returned Pending -/
def clonedTask (t : TaskSt) : TaskSt :=
  { polledTask t with word := TaskState.inc (TaskState.unschedule t.word), wakers := t.wakers + 1 }

/-- the task after its future returned Ready / panicked: result published, `Task::drop`, reference released -/
def finishedTask (t : TaskSt) (o : Outcome) : TaskSt :=
  dropRef (taskDropByExecutor
    { t with word := TaskState.finishRunning (TaskState.unschedule t.word), polls := t.polls + 1,
             script := t.script.drop 1, futDrops := t.futDrops + 1,
             storage := if o = .panic then .resultPanic else .resultOk })

/-- the task after `Task::run` found it cancelled: `Task::drop`, reference released -/
def droppedTask (t : TaskSt) : TaskSt :=
  dropRef (taskDropByExecutor { t with word := TaskState.unschedule t.word })

theorem runTask_cancelled (t : TaskSt) (hc : t.word.notCancelled = false) :
    runTask t = (droppedTask t, .dropped, none) := by
  simp [runTask, hc, droppedTask]

theorem runTask_pending (t : TaskSt) (hc : t.word.notCancelled = true) (hb : t.word.completed = false)
    (hs : t.script = [] ∨ ∃ r, t.script = .pending :: r) :
    runTask t = (polledTask t, .pending, none) := by
  rcases hs with hs | ⟨r, hs⟩ <;> simp [runTask, hc, hb, hs, polledTask]

theorem runTask_wakeSelf (t : TaskSt) (hc : t.word.notCancelled = true) (hb : t.word.completed = false)
    (r : List Outcome) (hs : t.script = .wakeSelf :: r) :
    runTask t = (polledTask t, .wokeSelf, none) := by
  simp [runTask, hc, hb, hs, polledTask]

theorem runTask_clone (t : TaskSt) (hc : t.word.notCancelled = true) (hb : t.word.completed = false)
    (r : List Outcome) (hs : t.script = .cloneWaker :: r) :
    runTask t = (clonedTask t, .pending, none) := by
  simp [runTask, hc, hb, hs, polledTask, clonedTask]

theorem runTask_ready (t : TaskSt) (hc : t.word.notCancelled = true) (hb : t.word.completed = false)
    (o : Outcome) (r : List Outcome) (hs : t.script = o :: r) (ho : o = .ready ∨ o = .panic) :
    runTask t = (finishedTask t o, .finished,
                 if t.word.hasWaker && t.word.notSettingWaker then t.slot else none) := by
  rcases ho with ho | ho <;> subst ho <;> simp [runTask, hc, hb, hs, finishedTask]

set_option hygiene false in
/-- split task `t` and invariant `h` into explicit fields, decide the flags, finish by `simp`/`omega` -/
macro "task_tac" "[" defs:Lean.Parser.Tactic.simpLemma,* "]" : tactic => `(tactic| (
  obtain ⟨⟨s, sg, nsw, hw, c, hr, nc, cnt⟩, st, slot, script, sh, hd, wk, polls, fd, rt, rd, ss, sd, de, uaf, bp⟩ := t
  obtain ⟨h1, h2, h3, h4a, h4b, h4c, h4d, h5a, h5b, h5c, h5d, h5e, h5f, h6, h7, h8, h9, h10, h11, h12, h13⟩ := h
  cases nsw <;> cases c <;> cases hr <;> cases hw <;> cases hd <;> simp [holders] at * <;>
    subst_vars <;> simp [isRes] at * <;> constructor <;>
    simp [$defs,*, dropRef, taskDropByExecutor, holders, isRes] <;> (try split) <;> (try simp_all) <;> (try omega)))

theorem polledTask_inv (t : TaskSt) (h : TInv true t) : TInv true (polledTask t) := by
  task_tac [polledTask]

theorem clonedTask_inv (t : TaskSt) (h : TInv true t) : TInv true (clonedTask t) := by
  task_tac [polledTask, clonedTask]

theorem finishedTask_inv (t : TaskSt) (o : Outcome) (h : TInv true t) : TInv false (finishedTask t o) := by
  by_cases ho : o = .panic
  · subst ho
    task_tac [finishedTask]
  · have e : finishedTask t o = finishedTask t .ready := by simp [finishedTask, ho]
    rw [e]
    task_tac [finishedTask]

theorem droppedTask_inv (t : TaskSt) (h : TInv true t) : TInv false (droppedTask t) := by
  task_tac [droppedTask]

theorem clearedTask_inv (t : TaskSt) (h : TInv true t) : TInv false (dropRef (taskDropByExecutor t)) := by
  task_tac [dropRef]

theorem spawnedTask_inv (sc : List Outcome) :
    TInv true { word := TaskState.new 2, storage := .future, slot := none, script := sc,
                shared := true, handle := true, wakers := 0, polls := 0, futDrops := 0,
                resTaken := 0, resDrops := 0, slotSets := 0, slotDrops := 0, deallocs := 0, uaf := 0,
                badPolls := 0 } := by
  constructor <;> simp [holders, isRes]

end Compio.Executor
