import Compio.Lemmas.Executor
namespace Compio.Executor
open Compio.TaskWord Compio.Gen
set_option linter.unusedSimpArgs false
set_option linter.unusedVariables false

theorem dropRef_nc (t : TaskSt) : (dropRef t).word.notCancelled = t.word.notCancelled := by
  obtain ⟨⟨s, sg, nsw, hw, c, hr, nc, cnt⟩, st, slot, script, sh, hd, wk, polls, fd, rt, rd, ss, sd, de, uaf, bp⟩ := t
  cases hr <;> cases hw <;> simp [dropRef] <;> split <;> split <;> rfl

theorem pollTask_nc (t : TaskSt) (w : Nat) : (pollTask t w).1.word.notCancelled = t.word.notCancelled := by
  obtain ⟨⟨s, sg, nsw, hw, c, hr, nc, cnt⟩, st, slot, script, sh, hd, wk, polls, fd, rt, rd, ss, sd, de, uaf, bp⟩ := t
  cases hr <;> cases nc <;> cases c <;> cases hw <;> simp [pollTask, dropRef_nc] <;> split <;> rfl

theorem pollTask_polls (t : TaskSt) (w : Nat) : (pollTask t w).1.polls = t.polls := by
  obtain ⟨⟨s, sg, nsw, hw, c, hr, nc, cnt⟩, st, slot, script, sh, hd, wk, polls, fd, rt, rd, ss, sd, de, uaf, bp⟩ := t
  cases hr <;> cases nc <;> cases c <;> cases hw <;> simp [pollTask, dropRef_polls] <;> split <;> rfl

/-- `unreachable!("Task is completed but has no result")` in `Local::poll` is unreachable -/
theorem pollTask_valid (q : Bool) (t : TaskSt) (w : Nat) (h : TInv q t) (hh : t.handle = true) :
    (pollTask t w).2 ≠ .invalid := by
  have := h.hd hh
  obtain ⟨⟨s, sg, nsw, hw, c, hr, nc, cnt⟩, st, slot, script, sh, hd, wk, polls, fd, rt, rd, ss, sd, de, uaf, bp⟩ := t
  cases hr <;> cases nc <;> cases c <;> cases hw <;> simp [pollTask] at this ⊢ <;> split <;> simp

/-- a cancelled task's handle never returns Pending (`JoinHandle::cancel` completes at once) -/
theorem pollTask_cancelled (t : TaskSt) (w : Nat) (hc : t.word.notCancelled = false) :
    (pollTask t w).2 = .ok ∨ (pollTask t w).2 = .panicked ∨ (pollTask t w).2 = .cancelled := by
  obtain ⟨⟨s, sg, nsw, hw, c, hr, nc, cnt⟩, st, slot, script, sh, hd, wk, polls, fd, rt, rd, ss, sd, de, uaf, bp⟩ := t
  simp at hc; subst hc
  cases hr <;> simp [pollTask]
  split <;> simp_all

end Compio.Executor
