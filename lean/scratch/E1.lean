import Compio.Lemmas.Executor
namespace Compio.Executor
open Compio.TaskWord Compio.Gen
set_option linter.unusedSimpArgs false
set_option linter.unusedVariables false

theorem dropRef_polls (t : TaskSt) : (dropRef t).polls = t.polls := by
  obtain ⟨⟨s, sg, nsw, hw, c, hr, nc, cnt⟩, st, slot, script, sh, hd, wk, polls, fd, rt, rd, ss, sd, de, uaf, bp⟩ := t
  cases hr <;> cases hw <;> simp [dropRef] <;> split <;> split <;> rfl

theorem taskDropByExecutor_polls (t : TaskSt) : (taskDropByExecutor t).polls = t.polls := by
  obtain ⟨⟨s, sg, nsw, hw, c, hr, nc, cnt⟩, st, slot, script, sh, hd, wk, polls, fd, rt, rd, ss, sd, de, uaf, bp⟩ := t
  cases c <;> cases hw <;> cases nsw <;> simp [taskDropByExecutor]

/-- the five things `Task::run` can do to a queued task -/
theorem runTask_cases (t : TaskSt) (hb : t.word.completed = false) :
    (t.word.notCancelled = false ∧ runTask t = (droppedTask t, .dropped, none)) ∨
    (t.word.notCancelled = true ∧
      (runTask t = (polledTask t, .pending, none) ∨ runTask t = (polledTask t, .wokeSelf, none) ∨
       runTask t = (clonedTask t, .pending, none) ∨
       ∃ o, (o = .ready ∨ o = .panic) ∧ t.script.head? = some o ∧ runTask t = (finishedTask t o, .finished,
          if t.word.hasWaker && t.word.notSettingWaker then t.slot else none))) := by
  cases hc : t.word.notCancelled
  · exact Or.inl ⟨rfl, runTask_cancelled t hc⟩
  · refine Or.inr ⟨rfl, ?_⟩
    rcases hs : t.script with _ | ⟨o, r⟩
    · exact Or.inl (runTask_pending t hc hb (Or.inl hs))
    · cases o
      · exact Or.inl (runTask_pending t hc hb (Or.inr ⟨r, hs⟩))
      · exact Or.inr (Or.inl (runTask_wakeSelf t hc hb r hs))
      · exact Or.inr (Or.inr (Or.inl (runTask_clone t hc hb r hs)))
      · exact Or.inr (Or.inr (Or.inr ⟨.ready, Or.inl rfl, by simp, runTask_ready t hc hb _ r hs (Or.inl rfl)⟩))
      · exact Or.inr (Or.inr (Or.inr ⟨.panic, Or.inr rfl, by simp, runTask_ready t hc hb _ r hs (Or.inr rfl)⟩))

theorem get?_setTask_self {e : Exec} {id : Nat} {t : TaskSt} (t' : TaskSt) (h : e.get? id = some t) :
    (e.setTask id t').get? id = some t' := by
  simp [Exec.get?, Exec.setTask, List.getElem?_set_self (get?_lt h)]

theorem get?_setTask_ne (e : Exec) {id x : Nat} (t' : TaskSt) (h : x ≠ id) :
    (e.setTask id t').get? x = e.get? x := by
  simp [Exec.get?, Exec.setTask, List.getElem?_set_ne (Ne.symm h)]

/-- one loop body of `tick` on the head `id` of the hot list, in closed form -/
theorem tickStep_head {e : Exec} (h : Inv e) {id : Nat} {rest : List Nat} (hh : e.hot = id :: rest) :
    ∃ t, e.get? id = some t ∧ TInv true t ∧
      tickStep e id =
        ({ tasks := e.tasks.set id (runTask t).1,
           hot := rest ++ (if (runTask t).2.1 = .wokeSelf then [id] else []),
           cold := e.cold ++ (if (runTask t).2.1 = .pending then [id] else []),
           woken := e.woken ++ (if (runTask t).2.1 = .finished then (runTask t).2.2.toList else []),
           alive := e.alive }, decide ((runTask t).2.1 ≠ .dropped)) := by
  obtain ⟨t, hg, ht⟩ := h.get_of_mem (id := id) (Or.inl (by simp [hh]))
  refine ⟨t, hg, ht, ?_⟩
  have hnd := h.q.hnd
  rw [hh, List.nodup_cons] at hnd
  have hnc : id ∉ e.cold := fun hc => h.q.disj id (by simp [hh]) hc
  have hmc : makeCold e id = { e with hot := rest, cold := e.cold ++ [id] } := by
    simp [makeCold, hh]
  have hg' : (makeCold e id).get? id = some t := by rw [hmc]; exact hg
  have hsh : (polledTask t).shared = true := by simp [polledTask, ht.inq_sh rfl]
  simp only [tickStep, runOne, hg']
  rcases runTask_cases t (ht.inq_c rfl) with ⟨_, hr⟩ | ⟨_, hr | hr | hr | ⟨o, _, _, hr⟩⟩ <;> rw [hr] <;>
    simp [hmc, removeTask, Exec.setTask, hnd.1, hnc, List.erase_append_right, scheduleLocal, Exec.get?,
      List.getElem?_set_self (get?_lt hg), hsh, makeHot]

/-- what `Task::run` guarantees about a queued task, by kind of outcome -/
theorem runTask_spec (t : TaskSt) (ht : TInv true t) :
    (((runTask t).2.1 = .dropped ∨ (runTask t).2.1 = .finished) → TInv false (runTask t).1) ∧
    (((runTask t).2.1 = .pending ∨ (runTask t).2.1 = .wokeSelf) →
        TInv true (runTask t).1 ∧ (runTask t).1.word.notCancelled = true) ∧
    ((runTask t).2.1 = .dropped ↔ t.word.notCancelled = false) ∧
    ((runTask t).2.1 ≠ .dropped → (runTask t).1.polls = t.polls + 1) ∧
    ((runTask t).2.1 = .dropped → (runTask t).1.polls = t.polls) := by
  rcases runTask_cases t (ht.inq_c rfl) with ⟨hc, hr⟩ | ⟨hc, hr | hr | hr | ⟨o, _, _, hr⟩⟩ <;> rw [hr] <;> simp [hc]
  · exact ⟨droppedTask_inv t ht, by simp [droppedTask, dropRef_polls, taskDropByExecutor_polls]⟩
  · exact ⟨⟨polledTask_inv t ht, by simp [polledTask, hc]⟩, by simp [polledTask]⟩
  · exact ⟨⟨polledTask_inv t ht, by simp [polledTask, hc]⟩, by simp [polledTask]⟩
  · exact ⟨⟨clonedTask_inv t ht, by simp [clonedTask, polledTask, hc]⟩, by simp [clonedTask, polledTask]⟩
  · exact ⟨finishedTask_inv t o ht, by simp [finishedTask, dropRef_polls, taskDropByExecutor_polls]⟩

theorem tickStep_inv {e : Exec} (h : Inv e) {id : Nat} {rest : List Nat} (hh : e.hot = id :: rest) :
    Inv (tickStep e id).1 := by
  obtain ⟨t, hg, ht, heq⟩ := tickStep_head h hh
  obtain ⟨s1, s2, s3, s4, s5⟩ := runTask_spec t ht
  have hnd := h.q.hnd
  rw [hh, List.nodup_cons] at hnd
  have hnc : id ∉ e.cold := fun hc => h.q.disj id (by simp [hh]) hc
  rw [heq]
  cases hk : (runTask t).2.1 <;> rw [hk] at s1 s2 <;> simp only [hk]
  · exact h.update hg (QStep.tick h.q hh false false (by simp)) false (by simp [hnd.1, hnc]) (s1 (Or.inl rfl))
      (by simp [hnc]) _ rfl (by simp) (by simp) rfl
  · exact h.update hg (QStep.tick h.q hh false true (by simp)) true (by simp) (s2 (Or.inl rfl)).1
      (by simp [(s2 (Or.inl rfl)).2]) _ rfl (by simp) (by simp) rfl
  · exact h.update hg (QStep.tick h.q hh true false (by simp)) true (by simp) (s2 (Or.inr rfl)).1
      (by simp [(s2 (Or.inr rfl)).2]) _ rfl (by simp) (by simp) rfl
  · exact h.update hg (QStep.tick h.q hh false false (by simp)) false (by simp [hnd.1, hnc]) (s1 (Or.inr rfl))
      (by simp [hnc]) _ rfl (by simp) (by simp) rfl

end Compio.Executor
