import Compio.Lemmas.ExecutorOps
namespace Compio.Executor
open Compio.TaskWord Compio.Gen
set_option linter.unusedSimpArgs false
set_option linter.unusedVariables false

/-- tasks outside the queue are not touched by the loop of `tick` -/
theorem tickLoop_frame (n : Nat) (e : Exec) (h : Inv e) :
    ∀ x, inMap e x = false → (tickLoop n e.hot.head? e []).1.get? x = e.get? x := by
  refine tickLoop_induct (fun _ e r => ∀ x, inMap e x = false → r.1.get? x = e.get? x) ?_ ?_ ?_ ?_ n e h
  · intro e h x _; rfl
  · intro _ e h _ x _; rfl
  · intro _ e id t h hh hg sf x hx
    have hne : x ≠ id := by
      intro hxe; subst hxe
      rw [inMap_false_iff] at hx; exact hx (Or.inl (by simp [hh]))
    exact sf.frame x hne
  · intro _ e id rest t r h hh hne hg sf _ hr x hx
    have hne : x ≠ id := by
      intro hxe; subst hxe
      rw [inMap_false_iff] at hx; exact hx (Or.inl (by simp [hh]))
    have : inMap (tickStep e id).1 x = false := by
      cases hin : inMap (tickStep e id).1 x
      · rfl
      · rw [sf.sub x hin] at hx; cases hx
    show r.1.get? x = e.get? x
    rw [hr x this, sf.frame x hne]

/-- (D) once the allocation of a task was freed, no operation touches it any more -/
theorem frozen_after_free {e : Exec} (h : Inv e) {id : Nat} {t : TaskSt} (hg : e.get? id = some t)
    (hd : t.deallocs = 1) (op : Op) : (apply e op).get? id = some t := by
  have ht := h.t id t hg
  have hhold : holders (inMap e id) t = 0 := by
    have := ht.dl; rw [hd] at this
    by_cases hz : holders (inMap e id) t = 0
    · exact hz
    · simp [hz] at this
  have hin : inMap e id = false := by
    cases hi : inMap e id
    · rfl
    · simp [holders, hi] at hhold
  have hh : t.handle = false := by
    cases hi : t.handle
    · rfl
    · simp [holders, hi] at hhold
  have hw : t.wakers = 0 := by simp [holders] at hhold; omega
  have hnd : (e.hot ++ e.cold).Nodup := by
    rw [List.nodup_append]
    refine ⟨h.q.hnd, h.q.cnd, ?_⟩
    intro a ha b hb hab; subst hab; exact h.q.disj a ha hb
  rcases apply_cases e op with h0 | ⟨id', t1, t', hg', hlive, _, h1 | h1⟩ | ⟨ha, ⟨sc, rfl⟩ | ⟨n, rfl⟩ | rfl⟩
  · rw [h0]; exact hg
  · have hx : id ≠ id' := by
      intro hx; subst hx; rw [hg] at hg'; cases hg'
      rcases hlive with h2 | h2
      · rw [hh] at h2; cases h2
      · exact h2 hw
    rw [h1, get?_setTask_ne _ _ hx]; exact hg
  · have hx : id ≠ id' := by
      intro hx; subst hx; rw [hg] at hg'; cases hg'
      rcases hlive with h2 | h2
      · rw [hh] at h2; cases h2
      · exact h2 hw
    rw [h1, get?_setTask_ne _ _ hx, scheduleLocal_get?]; exact hg
  · simp [apply, applyR, ha, spawn, Exec.get?, List.getElem?_append_left (get?_lt hg)]
    exact hg
  · simp only [apply, applyR, ha]
    show (tickLoop n e.hot.head? e []).1.get? id = some t
    rw [tickLoop_frame n e h id hin, hg]
  · simp only [apply, applyR, ha]
    have := (foldl_clearTask (e.hot ++ e.cold) e hnd).1 id
    rw [inMap_false_iff] at hin
    rw [if_neg (by simpa using hin)] at this
    show ((e.hot ++ e.cold).foldl clearTask e).get? id = some t
    rw [this, hg]

end Compio.Executor
