import Compio.Lemmas.Executor
namespace Compio.Executor
open Compio.TaskWord Compio.Gen

set_option linter.unusedSimpArgs false
set_option linter.unusedVariables false

theorem run_dropped (t : TaskSt) (h : TInv true t) (hc : t.word.notCancelled = false) :
    TInv false (runTask t).1 ∧ (runTask t).2.1 = .dropped ∧ (runTask t).1.polls = t.polls := by
  obtain ⟨⟨s, sg, nsw, hw, c, hr, nc, cnt⟩, st, slot, script, sh, hd, wk, polls, fd, rt, rd, ss, sd, de, uaf, bp⟩ := t
  obtain ⟨h1, h2, h3, h4, h5, h6, h7, h8, h9, h10, h11, h12, h13⟩ := h
  cases nsw <;> cases c <;> cases hr <;> cases hw <;> cases hd <;> simp [holders, isRes] at * <;>
    subst_vars <;> refine ⟨?_, ?_, ?_⟩ <;> (try constructor) <;>
    simp [runTask, dropRef, taskDropByExecutor, holders, isRes] <;> (try split) <;> (try simp_all) <;> (try omega)

theorem clear_task (t : TaskSt) (h : TInv true t) :
    TInv false (dropRef (taskDropByExecutor t)) := by
  obtain ⟨⟨s, sg, nsw, hw, c, hr, nc, cnt⟩, st, slot, script, sh, hd, wk, polls, fd, rt, rd, ss, sd, de, uaf, bp⟩ := t
  obtain ⟨h1, h2, h3, h4, h5, h6, h7, h8, h9, h10, h11, h12, h13⟩ := h
  cases nsw <;> cases c <;> cases hr <;> cases hw <;> cases hd <;> simp [holders, isRes] at * <;>
    subst_vars <;> constructor <;>
    simp [dropRef, taskDropByExecutor, holders, isRes] <;> (try split) <;> (try simp_all) <;> (try omega)

end Compio.Executor
