import Compio.Lemmas.Executor
namespace Compio.Executor
open Compio.TaskWord Compio.Gen
set_option linter.unusedSimpArgs false
set_option linter.unusedVariables false

/-! ## `Local::schedule` -/

theorem scheduleLocal_cases (e : Exec) (id : Nat) :
    scheduleLocal e id = e ∨
    (id ∈ e.cold ∧ scheduleLocal e id = { e with cold := e.cold.erase id, hot := e.hot ++ [id] }) := by
  unfold scheduleLocal
  cases hg : e.get? id with
  | none => exact Or.inl rfl
  | some t =>
    simp only
    cases t.shared
    · exact Or.inl (by simp)
    · simp only [if_true, makeHot]
      by_cases hc : id ∈ e.cold
      · exact Or.inr ⟨hc, by simp [hc]⟩
      · exact Or.inl (by simp [hc])

theorem scheduleLocal_tasks (e : Exec) (id : Nat) : (scheduleLocal e id).tasks = e.tasks := by
  rcases scheduleLocal_cases e id with h | ⟨_, h⟩ <;> rw [h]

theorem scheduleLocal_alive (e : Exec) (id : Nat) : (scheduleLocal e id).alive = e.alive := by
  rcases scheduleLocal_cases e id with h | ⟨_, h⟩ <;> rw [h]

theorem scheduleLocal_woken (e : Exec) (id : Nat) : (scheduleLocal e id).woken = e.woken := by
  rcases scheduleLocal_cases e id with h | ⟨_, h⟩ <;> rw [h]

theorem scheduleLocal_get? (e : Exec) (id x : Nat) : (scheduleLocal e id).get? x = e.get? x := by
  simp [Exec.get?, scheduleLocal_tasks]

theorem scheduleLocal_qstep {e : Exec} (q : QWf e) (id : Nat) :
    QStep e.hot e.cold id (scheduleLocal e id).hot (scheduleLocal e id).cold := by
  rcases scheduleLocal_cases e id with h | ⟨hc, h⟩ <;> rw [h]
  · exact QStep.refl q id
  · exact QStep.makeHot q hc

theorem scheduleLocal_mem {e : Exec} (q : QWf e) (id : Nat) :
    (id ∈ (scheduleLocal e id).hot ∨ id ∈ (scheduleLocal e id).cold) ↔ (id ∈ e.hot ∨ id ∈ e.cold) := by
  rcases scheduleLocal_cases e id with h | ⟨hc, h⟩ <;> rw [h]
  simp [hc]

/-- after `schedule()` a task that is in the queue (hence has a valid `shared`) is hot -/
theorem scheduleLocal_not_cold {e : Exec} (h : Inv e) {id : Nat} {t : TaskSt} (hg : e.get? id = some t) :
    id ∈ (scheduleLocal e id).cold → False := by
  intro hc
  unfold scheduleLocal at hc
  rw [hg] at hc
  simp only at hc
  by_cases hcold : id ∈ e.cold
  · have ht := h.t id t hg
    rw [(inMap_iff e id).mpr (Or.inr hcold)] at ht
    rw [ht.inq_sh rfl] at hc
    simp [makeHot, hcold] at hc
    exact ((h.q.cnd.mem_erase_iff).mp hc).1 rfl
  · cases hs : t.shared <;> rw [hs] at hc <;> simp [makeHot, hcold] at hc

/-- invariant after an operation that calls `schedule()` (or not) and then rewrites task `id` -/
theorem Inv.update_sched {e : Exec} (h : Inv e) {id : Nat} {t t' : TaskSt} (hg : e.get? id = some t)
    (ht : TInv (inMap e id) t') : Inv ((scheduleLocal e id).setTask id t') := by
  refine h.update hg (scheduleLocal_qstep h.q id) (inMap e id) ?_ ht (fun _ => scheduleLocal_not_cold h hg) _
    (by simp [Exec.setTask, scheduleLocal_tasks]) rfl rfl (by simp [Exec.setTask, scheduleLocal_alive])
  rw [scheduleLocal_mem h.q, inMap_iff]

/-- invariant after an operation that only rewrites task `id` and keeps its cancellation flag -/
theorem Inv.update_task {e : Exec} (h : Inv e) {id : Nat} {t t' : TaskSt} (hg : e.get? id = some t)
    (ht : TInv (inMap e id) t') (hn : t'.word.notCancelled = t.word.notCancelled) : Inv (e.setTask id t') := by
  refine h.update hg (QStep.refl h.q id) (inMap e id) (by rw [inMap_iff]) ht ?_ _ rfl rfl rfl rfl
  intro hc hcold
  exact h.c id t hg (by rw [← hn]; exact hc) hcold

end Compio.Executor
