/-
C14 — machine-checked witnesses of defects and of points excluded from the positive theorems.
-/
import Compio.Lemmas.SockMap
import Compio.Model.RecvMsgOut
import Compio.Model.MultiStream

namespace Compio.C14.Cex

open Compio Compio.Sock

/-- F141 (socket flavour of F19): `recv_vectored` into `[Vec::with_capacity(4), [0xee; 4]]` with 3
bytes received: `advance_vec_to(3)` compares with the sum of the current lengths (4), finds nothing
to do, and the caller sees no received byte at all although `Ok(3)` is returned. -/
theorem f141_recv_vectored_counterexample :
    let bs := [Buf.vecOf [] 4, Buf.arrOf [0xee, 0xee, 0xee, 0xee]]
    ∃ bs', mapRecvVectored 3 (scatter bs [1, 2, 3]) = .ok (3, bs') ∧
      seen bs' 3 = [] ∧ bs'.map (·.vis) = [[], [0xee, 0xee, 0xee, 0xee]] ∧
      ¬ (3 > totalLen bs ∨ covers bs 3 = true) := by
  refine ⟨_, rfl, rfl, rfl, ?_⟩
  decide

/-- F141, second face: a member that already has content and spare room is cut back —
`[Vec "ab" cap 4, Vec "xyz" cap 4]`, 6 bytes received: the second member's length goes from 3 to 2. -/
theorem f141_prefilled_counterexample :
    let bs := [Buf.vecOf [0x61, 0x62] 4, Buf.vecOf [0x78, 0x79, 0x7a] 4]
    ∃ bs', mapRecvVectored 6 (scatter bs [1, 2, 3, 4, 5, 6]) = .ok (6, bs') ∧
      bs'.map (·.vis) = [[1, 2, 3, 4], [5, 6]] := ⟨_, rfl, rfl⟩

/-- F140 (repaired in /repo 9127ff7; this is the behaviour *before* the repair, `setResultUnfixed`): in the
fusion build the polling fallback of `RecvFromMulti` / `RecvMsgMulti` never learned the result
(`set_result` was not forwarded), `take_buffer` advanced to 0: every datagram arrived empty. -/
theorem f140_fusion_poll_counterexample (cap : Nat) (w : Bytes) :
    ∃ b, ((FallbackMulti.mk ((Buf.poolOf cap).write w) 0).setResultUnfixed w.length).takeBuffer = .ok b ∧
      b.vis = [] := by
  refine ⟨(Buf.poolOf cap).write w, ?_, ?_⟩
  · simp [FallbackMulti.setResultUnfixed, FallbackMulti.takeBuffer, advanceTo, Buf.write, Buf.poolOf]
  · simp [Buf.vis, Buf.write, Buf.poolOf]

/-- excluded point of `compLen_exact`: a receive call that reports more than the capacity (only with
`MSG_TRUNC` among the *receive* flags) on a flavour that does not clamp makes `Vec::set_len` exceed
the capacity -/
theorem unclamped_trunc_counterexample :
    compLen .recv .poll 10 4 = 10 ∧
      mapRecv (compLen .recv .poll 10 4) ((Buf.vecOf [] 4).write [1, 2, 3, 4]) = .ub := by
  constructor <;> rfl


/-! ## `io_uring_recvmsg_out` parsing: what the two `assert!`s do not cover -/

def bufNamelen129 : Bytes :=
  RecvMsgOut.leBytes4 129 ++ RecvMsgOut.leBytes4 0 ++ RecvMsgOut.leBytes4 0 ++ RecvMsgOut.leBytes4 0
    ++ List.replicate 140 0

set_option maxRecDepth 100000 in
/-- excluded point of `addr_in_bounds`: a header with `namelen = 129` passes both `assert!`s of `new`
(they only look at `payloadlen`), and `addr()` then copies 129 bytes into the 128-byte
`SockAddrStorage` without a check.  Not reachable with a kernel-written buffer (no address family is
longer than `sockaddr_storage`); reachable through the public `unsafe fn RecvMsgMultiResult::new`. -/
theorem namelen_unchecked_counterexample :
    RecvMsgOut.new bufNamelen129 0 = .ok ⟨bufNamelen129, 0⟩ ∧
      (RecvMsgOut.Parsed.mk bufNamelen129 0).addr = .ub := by
  constructor <;> rfl

def bufCtl3 : Bytes :=
  RecvMsgOut.leBytes4 0 ++ RecvMsgOut.leBytes4 3 ++ RecvMsgOut.leBytes4 4 ++ RecvMsgOut.leBytes4 0
    ++ List.replicate 128 0 ++ [7, 7, 7, 7]

set_option maxRecDepth 100000 in
/-- `ancillary()` trusts `controllen`: a header claiming more control bytes than the registered area
(`clen = 0`) yields a slice that runs into the payload (inside the buffer, so no panic) -/
theorem controllen_overlaps_payload_counterexample :
    RecvMsgOut.new bufCtl3 0 = .ok ⟨bufCtl3, 0⟩ ∧
      (RecvMsgOut.Parsed.mk bufCtl3 0).ancillary = .ok [7, 7, 7] ∧
      (RecvMsgOut.Parsed.mk bufCtl3 0).data = .ok [7, 7, 7, 7] := by
  refine ⟨rfl, rfl, rfl⟩

def bufTrunc : Bytes :=
  RecvMsgOut.leBytes4 0 ++ RecvMsgOut.leBytes4 0 ++ RecvMsgOut.leBytes4 1000 ++ RecvMsgOut.leBytes4 0x20
    ++ List.replicate 128 0 ++ [1, 2, 3]

set_option maxRecDepth 100000 in
/-- with `MSG_TRUNC` among the *receive* flags the kernel reports the full datagram length in
`payloadlen`; the second `assert!` then fires (a panic, not an out-of-bounds read) -/
theorem payloadlen_beyond_buffer_panics : RecvMsgOut.new bufTrunc 0 = .panic := rfl

def bufClen16 : Bytes := RecvMsgOut.layout [] [] [0x68, 0x69] 0 16

set_option maxRecDepth 100000 in
/-- the op (which tells the kernel the size of the control area) and the result parser must use the
SAME control length: a buffer laid out for 16 control bytes parsed with `clen = 13` yields the payload
with 3 stale control-area bytes in front (seeded change C14-a rounded the op's value up to the `cmsghdr`
alignment while the stream adapter kept parsing with the caller's value) -/
theorem clen_mismatch_counterexample :
    (RecvMsgOut.Parsed.mk bufClen16 13).data = .ok [0, 0, 0, 0x68, 0x69] ∧
      (RecvMsgOut.Parsed.mk bufClen16 16).data = .ok [0x68, 0x69] := by
  constructor <;> rfl

/-! ## stream adapter: what "ends" means -/

open Compio.MultiStream in
/-- an error does not end the stream: it is yielded once and the next poll re-submits
(`ENOBUFS`, then data again) -/
theorem error_does_not_end_stream :
    (Stream.take 3 (Stream.new .bytes
      [.op [⟨.err .busy, false, none⟩], .op [⟨.ok 2, true, some [5, 6]⟩, ⟨.ok 0, false, none⟩]])).1
      = [.err .busy, .item [5, 6], .end_] := by decide

open Compio.MultiStream in
/-- the datagram flavours (`recv_from_multi`, `recv_msg_multi`, `read_multi_with_ancillary`) have no
end-of-stream token: a terminal 0-byte completion with a buffer is an item with empty data, and the
stream re-submits -/
theorem msg_flavour_never_ends :
    (Stream.take 2 (Stream.new .msg [.op [⟨.ok 0, false, some []⟩], .op [⟨.ok 0, false, some []⟩]])).1
      = [.item [], .item []] := by decide

open Compio.MultiStream in
/-- `Ready(None)` is not sticky: polled again after the end, an un-cancelled stream submits again -/
theorem end_is_not_fused :
    (Stream.take 2 (Stream.new .bytes [.op [⟨.ok 0, false, none⟩], .op [⟨.ok 1, false, some [4]⟩]])).1
      = [.end_, .item [4]] := by decide

end Compio.C14.Cex
