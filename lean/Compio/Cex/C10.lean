/-
C10 — machine-checked witnesses of the defects found on the pinned tree (finding F6 and its
consequences). All of them come from one inconsistency in compio-buf/src/uninit.rs: `Uninit::as_uninit`
skips the `buf_len()` bytes already recorded through the view, while `Uninit::set_len` / `as_init`
still count from the view's original `begin`.
-/
import Compio.Model.View
import Compio.Model.ViewVec
import Compio.Model.ViewOps

namespace Compio.Cex.C10
open Compio Compio.View

/-- ten bytes of capacity, nothing initialised: `Vec::with_capacity(10)` -/
def emptyVec10 : Buf := .root ⟨.vec, 0, List.replicate 10 0⟩

def abc : Bytes := [0x61, 0x62, 0x63]
def defgh : Bytes := [0x64, 0x65, 0x66, 0x67, 0x68]

/-- the program of finding F6: `Vec::with_capacity(10).uninit()`, fill "abc", fill "defgh" -/
def f6Program : List Op := [.uninit, .fill abc, .fill defgh]

/-- F6: the second fill is written at 3..8 (`defgh` is in memory) but recorded as `set_len(0 + 5)`:
the root ends up as `abcde` — `fgh` was written and is lost. -/
theorem f6_uninit_second_fill_counterexample :
    (emptyVec10.run f6Program).toOption.map (fun v => (v.getRoot.len, v.getRoot.mem.take 8))
      = some (5, abc ++ defgh) := by decide

/-- the same program recorded correctly would have made all 8 bytes visible: after the *first* fill the
view reports initialised bytes `0..3` but a writable region starting at `3` — not a prefix -/
theorem f6_reused_uninit_not_prefix_counterexample :
    (emptyVec10.run [.uninit, .fill abc]).toOption.map (fun v => (v.asInit.toOption, v.asUninit.toOption))
      = some (some (0, 3), some (3, 7)) := by decide

/-- a `Slice` taken in range (`5 ≤ buf_len() = 6`) over a re-used `Uninit` panics in `as_uninit`: its
capacity range `5 .. 4` is computed from the writable region the `Uninit` has shortened to `10 - 6 = 4` -/
theorem f6_slice_over_reused_uninit_panics_counterexample :
    ((emptyVec10.run [.uninit, .fill (List.replicate 6 1), .slice 5 none]).toOption.map
      (fun v => (v.asInit.toOption, v.asUninit.toOption))) = some (some (5, 1), none) := by decide

/-- F6 through `Writer` / `extend_from_slice` (safe API): `Vec::with_capacity(8).uninit().into_writer()`,
`write(b"abcd")`, `write(b"efgh")`: the second copy is aimed at `buf_mut_ptr() + buf_len() = 4 + 4 = 8`,
i.e. 4 bytes *past the 8-byte allocation*, although `reserve(4)` succeeded. -/
theorem f6_writer_second_write_out_of_bounds_counterexample :
    (match (Buf.root ⟨.vec, 0, List.replicate 8 0⟩).mkUninit with
      | .ok u => match u.extend [1, 2, 3, 4] with
        | .done u1 => (match u1.extend [5, 6, 7, 8] with
          | .fault .ub => true
          | _ => false)
        | _ => false
      | _ => false) = true := by decide

/-- F6 through `as_mut_slice` (safe API): `Vec::with_capacity(1).uninit()`, one byte recorded: `as_mut_slice()` is
`from_raw_parts_mut(buf_mut_ptr() = base + 1, buf_len() = 1)`, a slice that lies entirely behind the 1-byte allocation -/
theorem f6_as_mut_slice_outside_allocation_counterexample :
    ((Buf.root ⟨.vec, 0, [0]⟩).run [.uninit, .fill [7]]).toOption.map
      (fun v => (v.asInit.toOption, v.asMutSlice.toOption)) = some (some (0, 1), none) := by decide

/-- F6 through `ensure_init` (safe API): after 6 of 10 bytes have been recorded through an `Uninit`, `ensure_init`
indexes `slice[6..]` of the 4-byte region `as_uninit` has shrunk to, and panics -/
theorem f6_ensure_init_panics_counterexample :
    (emptyVec10.run [.uninit, .fill (List.replicate 6 1)]).toOption.map (fun v => v.ensureInit.toOption.isSome)
      = some false := by decide

/-! ## vectored buffers -/

def rootsOf (v : VBuf) : List (Nat × Bytes) := v.members.map fun m => (m.getRoot.len, m.getRoot.mem)

/-- V3: `[Vec::with_capacity(2), vec![0x20]]` (not packed), one byte read: it is written to member 0, but
`advance_vec_to(1)` compares with `total_len() = 1` and records nothing — the byte is lost -/
theorem v3_unpacked_fill_lost_counterexample :
    ((VBuf.base .list [.root ⟨.vec, 0, [0x10, 0x11]⟩, .root ⟨.vec, 1, [0x20]⟩]).fill [0xEE]).toOption.map rootsOf
      = some [(0, [0xEE, 0x11]), (1, [0x20])] := by decide

/-- V3: the doc example of `IoVectoredBuf::slice` (two 10-byte buffers holding 5 bytes each, `slice(6)`) used
for a 6-byte read: `begin` counts initialised bytes, `set_len(begin + 6)` capacity: member 0 is declared fully
initialised (5 never-written bytes exposed), member 1 is cut to 2 bytes -/
theorem v3_slice_counts_initialised_bytes_counterexample :
    (match (VBuf.base .list [.root ⟨.vec, 5, List.replicate 10 0⟩, .root ⟨.vec, 5, List.replicate 10 0⟩]).mkSlice 6 with
      | .ok s => (s.fill [1, 2, 3, 4, 5, 6]).toOption.map fun v => (rootsOf v).map Prod.fst
      | .error _ => none) = some [10, 2] := by decide

/-- V2: `[b"hello world".slice(0..5), Vec::with_capacity(5)]` filled with 7 bytes: `default_set_len` calls
`set_len(5)` on the (full) first member, which truncates its root from 11 to 5 bytes -/
theorem v2_bounded_member_truncated_counterexample :
    ((VBuf.base .list [.slice (.root ⟨.vec, 11, List.replicate 11 7⟩) 0 (some 5),
        .root ⟨.vec, 0, List.replicate 5 0⟩]).fill (List.replicate 7 1)).toOption.map
      (fun v => (rootsOf v).map Prod.fst) = some [5, 2] := by decide

/-- V1: `[Vec::with_capacity(5); 2].owned_iter()`: fill 3 bytes, `next()`, fill 2 bytes: the container is told
`set_len(3 + 2)`, which member 0 swallows (2 never-written bytes exposed), member 1 stays empty -/
theorem v1_viter_partial_then_next_counterexample :
    (match (VBuf.base .list [.root ⟨.vec, 0, List.replicate 5 0⟩, .root ⟨.vec, 0, List.replicate 5 0⟩]).ownedIter with
      | .ok (.inr it) =>
        match it.fill [1, 2, 3] with
        | .ok it1 =>
          match it1.next with
          | .inr it2 => (it2.fill [4, 5]).toOption.map fun it3 => (rootsOf it3.buf).map Prod.fst
          | .inl _ => none
        | .error _ => none
      | _ => none) = some [5, 0] := by decide

end Compio.Cex.C10
