/-
C10 — machine-checked witnesses of the defects found on the pinned tree (finding F6 and its
consequences). All of them come from one inconsistency in compio-buf/src/uninit.rs: `Uninit::as_uninit`
skips the `buf_len()` bytes already recorded through the view, while `Uninit::set_len` / `as_init`
still count from the view's original `begin`.
-/
import Compio.Model.View

namespace Compio.Cex.C10
open Compio Compio.View

/-- ten bytes of capacity, nothing initialised: `Vec::with_capacity(10)` -/
def emptyVec10 : Buf := .root ⟨.vec, 0, List.replicate 10 0⟩

def abc : Bytes := [0x61, 0x62, 0x63]
def defgh : Bytes := [0x64, 0x65, 0x66, 0x67, 0x68]

/-- the program of finding F6: `Vec::with_capacity(10).uninit()`, fill "abc", fill "defgh" -/
def f6Program : List Op := [.uninit, .fill abc, .fill defgh]

/-- F6: the second fill is written at 3..8 (`defgh` is in memory) but recorded as `set_len(0 + 5)`:
the root ends up as `abcde` — `fgh` was written and is lost. -/
theorem f6_uninit_second_fill_counterexample :
    (emptyVec10.run f6Program).toOption.map (fun v => (v.getRoot.len, v.getRoot.mem.take 8))
      = some (5, abc ++ defgh) := by decide

/-- the same program recorded correctly would have made all 8 bytes visible: after the *first* fill the
view reports initialised bytes `0..3` but a writable region starting at `3` — not a prefix -/
theorem f6_reused_uninit_not_prefix_counterexample :
    (emptyVec10.run [.uninit, .fill abc]).toOption.map (fun v => (v.asInit.toOption, v.asUninit.toOption))
      = some (some (0, 3), some (3, 7)) := by decide

/-- a `Slice` taken in range (`5 ≤ buf_len() = 6`) over a re-used `Uninit` panics in `as_uninit`: its
capacity range `5 .. 4` is computed from the writable region the `Uninit` has shortened to `10 - 6 = 4` -/
theorem f6_slice_over_reused_uninit_panics_counterexample :
    ((emptyVec10.run [.uninit, .fill (List.replicate 6 1), .slice 5 none]).toOption.map
      (fun v => (v.asInit.toOption, v.asUninit.toOption))) = some (some (5, 1), none) := by decide

/-- F6 through `Writer` / `extend_from_slice` (safe API): `Vec::with_capacity(8).uninit().into_writer()`,
`write(b"abcd")`, `write(b"efgh")`: the second copy is aimed at `buf_mut_ptr() + buf_len() = 4 + 4 = 8`,
i.e. 4 bytes *past the 8-byte allocation*, although `reserve(4)` succeeded. -/
theorem f6_writer_second_write_out_of_bounds_counterexample :
    (match (Buf.root ⟨.vec, 0, List.replicate 8 0⟩).mkUninit with
      | .ok u => match u.extend [1, 2, 3, 4] with
        | .done u1 => (match u1.extend [5, 6, 7, 8] with
          | .fault .ub => true
          | _ => false)
        | _ => false
      | _ => false) = true := by decide

end Compio.Cex.C10
