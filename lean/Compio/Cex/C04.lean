/- C04 — machine-checked witnesses (work in progress) -/
import Compio.Model.Executor

namespace Compio.Cex.C04
end Compio.Cex.C04
