/-
C04 — machine-checked witnesses on the remote-join LTS (Compio.Model.RemoteJoin).

  * `delivery_counterexample_unfixed`  the lost wake-up of the code BEFORE the re-check after
    `finish_setting_waker::<true>()` (finding F1, repaired): handle parked, task completed, executor
    done, nobody woken.
  * `waker_leak_counterexample`        CURRENT code (finding F040): a join waker is still in the slot
    when the allocation is freed — it is never dropped.
  * `executor_drop_does_not_wake`      observation on the current code: dropping the executor while the
    handle is parked drops the waker without waking it.
-/
import Compio.Lemmas.RemoteJoinTie
import Compio.Lemmas.ExecutorSteps

namespace Compio.Cex.C04
open Compio.RemoteJoin Compio.TaskWord Compio.Gen

/-- handle: load, start_setting_waker; executor: unschedule, poll Ready, finish_running (sees
SETTING_WAKER ⇒ no wake), Task::drop, release; handle: write waker 7, finish_setting_waker::<true>,
returns Pending (old program: no re-check) -/
def lostWakeTrace : List Label :=
  [.hPoll 7, .hStartSetting, .eUnschedule, .ePollReady, .eFinishRunning, .eSetDropped, .eClearShared,
   .eDec, .hWrite, .hFinishTrue]

theorem lost_wake_run_unfixed :
    ∃ s : RState, Trace false init lostWakeTrace s ∧ Reachable false s ∧
      s.parked = some 7 ∧ s.hpc = .idle ∧ TaskState.isCompleted s.word = true ∧ ePastWake s = true ∧
      s.epc = .done ∧ s.woken = [] := by
  obtain ⟨s, ht, hr, hp⟩ := run_witness (fixed := false) (ls := lostWakeTrace)
    (p := fun s => decide (s.parked = some 7 ∧ s.hpc = .idle ∧ TaskState.isCompleted s.word = true ∧
      ePastWake s = true ∧ s.epc = .done ∧ s.woken = [])) (by decide)
  exact ⟨s, ht, hr, of_decide_eq_true hp⟩

/-- the delivery statement fails for the program before the fix -/
theorem delivery_counterexample_unfixed : ¬ (∀ s : RState, Reachable false s → deliveryStatement s) := by
  intro h
  obtain ⟨s, _, hr, hp, _, hc, he, _, hw⟩ := lost_wake_run_unfixed
  have := h s hr 7 hp hc he
  simp [hw] at this

/-- whenever the extracted `Remote::poll` does NOT re-check at every `finish_setting_waker::<true>()` site,
delivery fails for the code as extracted -/
theorem delivery_needs_recheck (h : pollRechecks = false) :
    ¬ (∀ s : RState, Reachable pollRechecks s → deliveryStatement s) := by
  rw [h]; exact delivery_counterexample_unfixed

/-- the same interleaving on the CURRENT program: `finish_setting_waker::<true>` returns a completed
snapshot, the handle reloads, takes the result and, as last holder, drops the waker and frees the task -/
example : ∃ s : RState, Trace true init
      (lostWakeTrace ++ [.hReload, .hClearResult, .hTakeResult, .hDec, .hLast]) s ∧
      s.hret = some true ∧ s.resTaken = 1 ∧ s.resDrops = 0 ∧ s.futDrops = 1 ∧ s.deallocs = 1 ∧
      s.slot = none ∧ s.slotSets = 1 ∧ s.slotDrops = 1 ∧ s.uaf = 0 ∧ s.bad = 0 := by
  obtain ⟨s, ht, _, hp⟩ := run_witness (fixed := true)
    (ls := lostWakeTrace ++ [.hReload, .hClearResult, .hTakeResult, .hDec, .hLast])
    (p := fun s => decide (s.hret = some true ∧ s.resTaken = 1 ∧ s.resDrops = 0 ∧ s.futDrops = 1 ∧
      s.deallocs = 1 ∧ s.slot = none ∧ s.slotSets = 1 ∧ s.slotDrops = 1 ∧ s.uaf = 0 ∧ s.bad = 0)) (by decide)
  exact ⟨s, ht, of_decide_eq_true hp⟩

/-- a run where the executor wakes the parked handle: park with 3, complete, `wake_by_ref(3)` -/
example : ∃ s : RState, Trace true init
      [.hPoll 3, .hStartSetting, .hWrite, .hFinishTrue, .eUnschedule, .ePollPending, .eUnschedule,
       .ePollReady, .eFinishRunning, .eWake] s ∧
      s.parked = some 3 ∧ s.woken = [3] ∧ s.polls = 2 ∧ deliveryStatement s := by
  obtain ⟨s, ht, hr, hp⟩ := run_witness (fixed := true)
    (ls := [.hPoll 3, .hStartSetting, .hWrite, .hFinishTrue, .eUnschedule, .ePollPending, .eUnschedule,
       .ePollReady, .eFinishRunning, .eWake])
    (p := fun s => decide (s.parked = some 3 ∧ s.woken = [3] ∧ s.polls = 2)) (by decide)
  obtain ⟨h1, h2, h3⟩ := of_decide_eq_true hp
  exact ⟨s, ht, h1, h2, h3, delivery hr⟩

/-- ... and the woken handle polls again with another waker after the executor is gone: result taken,
old waker dropped by `Task::drop`, nothing leaked -/
example : ∃ s : RState, Trace true init
      [.hPoll 3, .hStartSetting, .hWrite, .hFinishTrue, .eUnschedule, .ePollReady, .eFinishRunning,
       .eWake, .eSetDropped, .eClearShared, .eDropSlot, .eDec, .hPoll 4, .hClearResult, .hTakeResult,
       .hDec, .hLast] s ∧
      s.woken = [3] ∧ s.hret = some true ∧ s.deallocs = 1 ∧ s.slot = none ∧ s.slotSets = 1 ∧ s.slotDrops = 1 := by
  obtain ⟨s, ht, _, hp⟩ := run_witness (fixed := true)
    (ls := [.hPoll 3, .hStartSetting, .hWrite, .hFinishTrue, .eUnschedule, .ePollReady, .eFinishRunning,
       .eWake, .eSetDropped, .eClearShared, .eDropSlot, .eDec, .hPoll 4, .hClearResult, .hTakeResult,
       .hDec, .hLast])
    (p := fun s => decide (s.woken = [3] ∧ s.hret = some true ∧ s.deallocs = 1 ∧ s.slot = none ∧
      s.slotSets = 1 ∧ s.slotDrops = 1)) (by decide)
  exact ⟨s, ht, of_decide_eq_true hp⟩

/-- handle dropped while the task is running: cancelled, the executor drops the future, no output -/
example : ∃ s : RState, Trace true init
      [.eUnschedule, .ePollPending, .hCancel true, .hSchedShared, .hSchedFinish, .hSetCancelled, .hDec,
       .eUnschedule, .eSetDropped, .eClearShared, .eDropFuture, .eDec, .eLast] s ∧
      s.eroute = .sawCancelled ∧ s.futDrops = 1 ∧ s.resTaken + s.resDrops = 0 ∧ s.deallocs = 1 ∧ s.polls = 1 := by
  obtain ⟨s, ht, _, hp⟩ := run_witness (fixed := true)
    (ls := [.eUnschedule, .ePollPending, .hCancel true, .hSchedShared, .hSchedFinish, .hSetCancelled, .hDec,
       .eUnschedule, .eSetDropped, .eClearShared, .eDropFuture, .eDec, .eLast])
    (p := fun s => decide (s.eroute = .sawCancelled ∧ s.futDrops = 1 ∧ s.resTaken + s.resDrops = 0 ∧
      s.deallocs = 1 ∧ s.polls = 1)) (by decide)
  exact ⟨s, ht, of_decide_eq_true hp⟩

/-- OBSERVATION (current code, not a violation of the property text): the handle parks with waker 5,
then the executor is dropped (`Executor::clear` ⇒ `Task::drop` without running): the waker is dropped
from the slot WITHOUT being woken; the parked handle learns about the cancellation only if it is polled
again for another reason. -/
theorem executor_drop_does_not_wake :
    ∃ s : RState, Trace true init
      [.hPoll 5, .hStartSetting, .hWrite, .hFinishTrue, .eClear, .eSetDropped, .eClearShared,
       .eDropFuture, .eDropSlot, .eDec] s ∧ Reachable true s ∧
      s.parked = some 5 ∧ s.hpc = .idle ∧ s.woken = [] ∧ s.slot = none ∧ s.slotDrops = 1 ∧
      s.eroute = .cleared ∧ s.epc = .done ∧ TaskState.isCancelled s.word = true ∧
      TaskState.isCompleted s.word = false ∧ s.futDrops = 1 := by
  obtain ⟨s, ht, hr, hp⟩ := run_witness (fixed := true)
    (ls := [.hPoll 5, .hStartSetting, .hWrite, .hFinishTrue, .eClear, .eSetDropped, .eClearShared,
       .eDropFuture, .eDropSlot, .eDec])
    (p := fun s => decide (s.parked = some 5 ∧ s.hpc = .idle ∧ s.woken = [] ∧ s.slot = none ∧ s.slotDrops = 1 ∧
      s.eroute = .cleared ∧ s.epc = .done ∧ TaskState.isCancelled s.word = true ∧
      TaskState.isCompleted s.word = false ∧ s.futDrops = 1)) (by decide)
  exact ⟨s, ht, hr, of_decide_eq_true hp⟩

/-- F040, current code: the handle parks with waker 9 and is polled a second time (with the same waker)
while the task completes. Its `load` is before `finish_running`, its `start_setting_waker` after: the
snapshot has HAS_RESULT, so the section is left through `finish_setting_waker::<false>`. In between the
executor runs `Task::drop`: `set_dropped` clears HAS_WAKER and, seeing SETTING_WAKER, leaves the waker
to the handle — which never looks at it again. The last holder's `dec` snapshot has no HAS_WAKER. -/
def wakerLeakTrace : List Label :=
  [.eUnschedule, .ePollReady, .hPoll 9, .hStartSetting, .hWrite, .hFinishTrue, .hPoll 9,
   .eFinishRunning, .eWake, .hStartSetting, .eSetDropped, .eClearShared, .eDec, .hFinishFalse,
   .hClearResult, .hTakeResult, .hDec, .hLast]

theorem waker_leak_run :
    ∃ s : RState, Trace true init wakerLeakTrace s ∧ Reachable true s ∧
      s.deallocs = 1 ∧ s.epc = .done ∧ s.hpc = .done ∧ s.slot = some 9 ∧ s.slotSets = 1 ∧ s.slotDrops = 0 ∧
      s.woken = [9] ∧ s.hret = some true := by
  obtain ⟨s, ht, hr, hp⟩ := run_witness (fixed := true) (ls := wakerLeakTrace)
    (p := fun s => decide (s.deallocs = 1 ∧ s.epc = .done ∧ s.hpc = .done ∧ s.slot = some 9 ∧ s.slotSets = 1 ∧
      s.slotDrops = 0 ∧ s.woken = [9] ∧ s.hret = some true)) (by decide)
  exact ⟨s, ht, hr, of_decide_eq_true hp⟩

/-- "every waker written into the slot has been dropped when the task is deallocated" is false for the current code -/
theorem waker_leak_counterexample :
    ¬ (∀ s : RState, Reachable true s → s.deallocs = 1 → s.slot = none ∧ s.slotSets = s.slotDrops) := by
  intro h
  obtain ⟨s, _, hr, hd, _, _, hs, _⟩ := waker_leak_run
  have := (h s hr hd).1
  simp [hs] at this

/-- the word can be in SETTING_WAKER while the executor is about to read the slot: H's section then
started after `finish_running` and leaves through `finish<false>` without touching the slot -/
example : ∃ s : RState, Trace true init
      [.hPoll 1, .hStartSetting, .hWrite, .hFinishTrue, .hPoll 1, .eUnschedule, .ePollReady,
       .eFinishRunning, .hStartSetting] s ∧
      s.epc = .wake ∧ eAccessesSlot s = true ∧ TaskState.isSettingWaker s.word = true ∧
      s.hpc = .finishFalse ∧ hAccessesSlot s = false := by
  obtain ⟨s, ht, _, hp⟩ := run_witness (fixed := true)
    (ls := [.hPoll 1, .hStartSetting, .hWrite, .hFinishTrue, .hPoll 1, .eUnschedule, .ePollReady,
       .eFinishRunning, .hStartSetting])
    (p := fun s => decide (s.epc = .wake ∧ eAccessesSlot s = true ∧ TaskState.isSettingWaker s.word = true ∧
      s.hpc = .finishFalse ∧ hAccessesSlot s = false)) (by decide)
  exact ⟨s, ht, of_decide_eq_true hp⟩

/-! ## Observation F031 (found by the C03 builder) in terms of the C04 home-thread model

The queue clause of the invariant (`Compio.Executor.Inv.c`: a cancelled task that is still queued is hot or in
the sync queue) is an invariant of SEQUENTIAL cross-thread use only. With THREE threads it can be broken:
a remote waker of task 1 is blocked on a full sync queue (reserved, spinning); meanwhile the JoinHandle of
task 1 is dropped on another thread (`Remote::schedule` coalesces on SCHEDULED, then `set_cancelled`); the
spinning pusher then sees `is_cancelled()`, releases its reservation and returns WITHOUT pushing. Task 1 is
cancelled, SCHEDULED, cold, in no queue: no tick reaps it; its future is dropped only by `Executor::drop`.
Not a violation of "dropped exactly once" (it is dropped at teardown), hence an observation. -/

open Compio.Executor in
/-- the bail-out branch of the push loop of `Remote::schedule` (`is_cancelled()` ⇒ `pending.fetch_sub(1)`,
`finish_scheduling`, return) — the only branch the sequential model never takes -/
def pusherBailsOut (e : Exec) (id : Nat) : Exec :=
  finishSched { e with pending := e.pending - 1, inflight := none } id

open Compio.Executor in
/-- the state in which a remote waker of task 1 has reserved its slot and spins on the full queue -/
def blockedPusherState : Exec :=
  let e := run 1 [.spawn [.cloneWaker, .pending], .spawn [.cloneWaker, .pending], .tick 61, .rwake 0]
  match e.get? 1 with
  | some t =>
    { e.setTask 1 { t with word := Compio.Gen.TaskState.startScheduling t.word } with
        pending := e.pending + 1, inflight := some 1 }
  | none => e

open Compio.Executor in
theorem stranded_cancelled_task_witness :
    let e := pusherBailsOut (remoteHandleDrop blockedPusherState 1) 1
    -- cancelled, SCHEDULED, still in the executor's map (cold), in neither the hot nor the sync queue
    (e.get? 1).map (fun t => (t.word.notCancelled, t.word.scheduled, t.futDrops)) = some (false, true, 0) ∧
    e.cold = [0, 1] ∧ e.hot = [] ∧ e.sync = [0] ∧ e.inflight = none ∧
    -- ticks never reach it ...
    ((tickN e 61 5).1.get? 1).map (fun t => t.futDrops) = some 0 ∧ inMap (tickN e 61 5).1 1 = true ∧
    -- ... not even after further remote wake-ups (they coalesce on SCHEDULED); only the teardown drops the future
    ((tickN (remoteSchedule e 1) 61 5).1.get? 1).map (fun t => t.futDrops) = some 0 ∧
    ((execDrop (tickN e 61 5).1).get? 1).map (fun t => (t.futDrops, t.polls)) = some (1, 1) := by decide

end Compio.Cex.C04
