/-
C06 — machine-checked witnesses of the defects of `compio-driver/src/fd.rs` (model level).
-/
import Compio.Lemmas.SharedFd

namespace Compio.Cex.C06
open Compio.SharedFd

/-- the closer `c` is parked, owns the only reference, and nobody has woken it: `close().await` hangs -/
def Stuck (s : St) (c : Nat) : Prop :=
  s.actors[c]? = some (.closer .parked) ∧ s.count = 1 ∧ c ∉ s.woken ∧ refs s.actors = 1

instance (s : St) (c : Nat) : Decidable (Stuck s c) := by unfold Stuck; infer_instance

/-- `Stuck` really is for ever, in every reachable state of either build: no actor other than the
closer itself can take a step any more (nobody else owns a reference), so nothing will ever wake it;
the only enabled events are a poll of the closer — which nothing triggers — or dropping its future. -/
theorem stuck_is_forever (b : Bool) (evs : List Ev) (s s' : St) (c : Nat) (e : Ev)
    (h : run (init b) evs = some s) (hst : Stuck s c) (hs : step s e = some s') : e.target = c :=
  stuck_forever (inv_run (inv_init b) h) hst.1 hst.2.1 hs

/-- F8, first shape (`sync` build): the dropper's wake is issued BEFORE its decrement; the woken closer
re-polls in between, still sees 2, parks again; the decrement follows and nobody wakes the closer. -/
theorem sync_wake_before_decrement_counterexample :
    ∃ s, run (init true)
      [.clone 0, .take 0, .poll 0,          -- closer parked, count 2
       .dropCheck 1,                        -- other thread: count == 2 && waits → wake
       .pBegin 0, .pTry1 0, .pReg 0, .pTry2 0,  -- woken closer polls: 2, register, 2 → Pending
       .dropDec 1]                          -- other thread: decrement → 1
      = some s ∧ Stuck s 0 := ⟨_, rfl, by decide⟩

/-- F8, second shape: two droppers on two threads both read `strong_count == 3`: neither wakes. -/
theorem sync_two_droppers_counterexample :
    ∃ s, run (init true)
      [.clone 0, .clone 0, .take 0, .poll 0, .dropCheck 1, .dropCheck 2, .dropDec 1, .dropDec 2]
      = some s ∧ Stuck s 0 ∧ s.wakes = 0 := ⟨_, rfl, by decide⟩

/-- F8b (both builds, single thread): a second `take()`/`close()` on another clone finds `waits` set,
returns `None` and drops its raw `Shared` without the wake test. -/
theorem second_closer_lost_wake_counterexample :
    ∃ s, run (init false) [.clone 0, .take 0, .poll 0, .take 1, .poll 1] = some s ∧
      Stuck s 0 ∧ s.wakes = 0 ∧ s.actors[1]? = some (.closer .doneNone) := ⟨_, rfl, by decide⟩

/-- F8b, second shape: a `take()` future dropped before its first poll drops the raw `Shared` too. -/
theorem unpolled_take_dropped_lost_wake_counterexample :
    ∃ s, run (init false) [.clone 0, .take 0, .poll 0, .take 1, .dropFut 1] = some s ∧
      Stuck s 0 ∧ s.wakes = 0 := ⟨_, rfl, by decide⟩

/-- F8c: `File::close` / `Socket::close` future dropped before its first poll: the handle sits in a
`ManuallyDrop` inside the never-started `async` block, its reference is never released, the
descriptor is never closed although no usable value is left. -/
theorem close_unpolled_leak_counterexample :
    ∃ s, run (init false) [.close 0, .dropFut 0] = some s ∧
      s.released = 0 ∧ s.count = 1 ∧ s.actors = [.closer .leaked] ∧
      ∀ e, step s e = none := by
  refine ⟨_, rfl, by decide, by decide, by decide, ?_⟩
  intro e
  cases e with
  | clone n | opStart n | drop n | dropCheck n | dropDec n | tryUnwrap n | take n | close n | poll n
  | pSwap n | pNone n | pTry1 n | pReg n | pTry2 n | pBegin n | dropFut n =>
    cases n with
    | zero => rfl
    | succ n => rfl
  | setWaker n w =>
    cases n with
    | zero => rfl
    | succ n => rfl

/-- F8d: io_uring driver on a kernel without the opcode (`IORING_OP_SOCKET` < 5.19): the blocking
fallback adopts the created descriptor twice; the caller receives a descriptor that has already been
closed (and will close the number again). -/
theorem iour_blocking_fallback_counterexample :
    ∃ s, Compio.Produced.run Compio.Produced.init [.poll, .completeFallback, .poll] = some s ∧
      s.finished ∧ 0 ∈ s.taken ∧ 0 ∈ s.closed := by
  refine ⟨_, rfl, ?_⟩
  unfold Compio.Produced.St.finished
  decide

/-- seed C06-4a as a model: a `cancel` that stops after the first descriptor whose interest it removed.
For a two-descriptor op (`Splice`) one interest — and with it one key clone — survives: the op is never
dropped, its clones of both pipe ends are never released. -/
def cancelFirstOnly (s : Compio.MultiWait.St) (key : Nat) : List Nat → Compio.MultiWait.St
  | [] => s
  | fd :: rest =>
    if s.reg.any (fun e => e == (fd, key)) then
      { s with reg := s.reg.filter (fun e => !(e == (fd, key))), completed := key :: s.completed }
    else cancelFirstOnly s key rest

theorem cancel_first_only_counterexample :
    Compio.MultiWait.keyRefs
      (Compio.MultiWait.reap
        (cancelFirstOnly (Compio.MultiWait.dropFuture (Compio.MultiWait.push Compio.MultiWait.init 7 [3, 4]) 7) 7 [3, 4]) 7) 7
      = 1 := by decide

end Compio.Cex.C06
