/-
C19 — machine-checked witness of finding F14: a call whose envelope is still queued when the actor exits is
never completed (the code as it is: `finish` drops the flume receiver, flume keeps queued items until the last
sender is gone, and the caller's own `Mailbox` is a sender).
Replayed on the real code by corpus/C19/f14-call-stranded.case (monitor `F14:call-stranded-at-exit`).
-/
import Compio.Props.C19

namespace Compio.Cex.C19
set_option linter.unusedSimpArgs false
open Compio Compio.Actor Compio.Props.C19

/-- capacity 4: message 1 is being handled when call 2 is accepted; the handler stops the actor; the next
`recv` prefers the stop request; `finish` runs; call 2 stays queued in the dead channel -/
def strandedSchedule : List Ev :=
  [ .preStart true, .signalStarted, .postStart true,
    .sendCheck ⟨1, false, 2⟩, .sendPush ⟨1, false, 2⟩, .pollStop, .pollMsg,
    .sendCheck ⟨2, true, 4⟩, .sendPush ⟨2, true, 4⟩,
    .stopSwap, .stopPush, .handlerEnd true, .pollStop,
    .beginStop, .preStop true, .dropRx, .postStop true, .release, .notifyExit ]

/-- the actor is gone, nobody is in the middle of a send, one call was issued and none was ever answered -/
theorem call_stranded_counterexample :
    ∃ s, run (St.init 4 false) strandedSchedule = some s ∧
      s.pc = .exited .stopped ∧ s.inflight = [] ∧ s.issued = 1 ∧ s.resolved = [] ∧
      s.queue = [⟨2, true, 4⟩] ∧ s.callResult 2 = none := by
  refine ⟨_, rfl, ?_⟩
  decide

/-- hence the unguarded statement of `calls_over_after_exit_partial` is false -/
theorem calls_over_after_exit_counterexample :
    ¬ (∀ (cap : Nat) (named : Bool) (s : St), Reached cap named s →
        ∀ e, s.pc = .exited e → s.inflight = [] → s.issued = s.resolved.length) := by
  intro h
  obtain ⟨s, hr, hp, hin, his, hres, _⟩ := call_stranded_counterexample
  have := h 4 false s ⟨strandedSchedule, hr⟩ _ hp hin
  rw [his, hres] at this
  simp at this

/-- and the call stays pending for good: after the exit nothing dequeues any more, and as long as a `Mailbox`
handle exists (no `dropSenders`) the only calls that get an answer are new ones, rejected with `Closed` -/
theorem stranded_forever {cap named} (s s' : St) (hreach : Reached cap named s) (e : Ev) (x : Exit)
    (hp : s.pc = .exited x) (hs : step s e = some s') (hne : e ≠ .dropSenders) :
    s'.pc = .exited x ∧ s'.queue = s.queue ∧ s'.handled = s.handled ∧
    (∀ c r, (c, r) ∈ s'.resolved → (c, r) ∈ s.resolved ∨
      (r = .closed ∨ r = .full) ∧ ∃ it, it.id = c ∧ (e = .sendCheck it ∨ e = .sendPush it)) := by
  have hrx : s.rxAlive = false := by
    obtain ⟨evs, hr⟩ := hreach
    have hR : InvR s := run_induct (invR_init cap named) invR_step hr
    simp [hR.rx, hp, Pc.rxDropped]
  cases e <;> simp only [step] at hs <;> step_cases hs <;>
    simp_all [St.obs, resolve_resolved, St.pushRes] <;> (try split) <;> (try simp_all) <;> (try grind)

end Compio.Cex.C19
