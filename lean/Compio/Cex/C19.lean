import Compio.Model.ActorWorld
namespace Compio.Cex.C19
end Compio.Cex.C19
