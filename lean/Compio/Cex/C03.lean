/-
Machine-checked witnesses for property C03 (wake-ups are never lost): the two defects found in the wake-up
protocol, as concrete interleavings of the model (Compio.Model.Wake) that end in a state where a wake() call
has RETURNED, its target was not polled since, the runtime thread is blocked in its wait, and no other
thread is inside a call (nothing can ever unblock it).

* F16 (repaired in /repo by b814cbc): `iour::Driver::flush` did not arm the notifier's poll; model switch
  `flushArms := false` = `flushUnfixed`.
* F030 (repaired in /repo by e1c512a): `Remote::schedule` did not wake the driver after a push that followed a
  full-queue spin; model switch `rewake := false` = `scheduleUnfixed`.
-/
import Compio.Model.Wake

namespace Compio.Cex.C03
open Compio.Wake

/-- no waker thread is inside a call -/
def allIdle (s : State) : Bool := (List.range s.cfg.nw).all (fun w => (s.wk w).pc == .idle)

/-- the runtime thread cannot move -/
def rtStuck (s : State) : Bool := (rtStep s .go).isNone

def check (r : Option State) (p : State → Bool) : Bool :=
  match r with
  | some s => p s
  | none => false

/-! ### F16: external loop, io_uring, `flush` before the fix -/

def cfgF16 : Cfg := { drv := .iour, loop := .ext, q := 64, maxInt := 61, nw := 1, flushArms := false, rewake := true }

/-- first iteration of compio-compat's loop on a fresh runtime (poll main, tick, flush, wait on the fd), then a
thread invokes the waker of the main future: flag IDLE → NOTIFIED, eventfd written, but no poll is armed on it -/
def traceF16 : List Event :=
  [.rt .go, .rt .go, .rt .go, .rt .go,        -- mainStart, poll main, drainCheck (nothing pending), end of tick
   .rt .go, .rt .go, .rt .go,                  -- flushUnfixed: (no arm), submit, reset -> idle; now waiting on the fd
   .wStart 0 .main, .w 0, .w 0]                -- wake(): fetch_or, write(eventfd); returns

theorem f16_flush_unfixed_counterexample :
    check (run (init cfgF16) traceF16)
      (fun s => s.mainWoken && (s.rt == .xwait) && rtStuck s && allIdle s && !fdReadable s && !s.zero) = true := by
  decide

/-- the same interleaving under the repaired `flush`: the descriptor is readable, the wait returns -/
theorem f16_fixed_same_trace :
    check (run (init { cfgF16 with flushArms := true }) traceF16)
      (fun s => s.mainWoken && (s.rt == .xwait) && !rtStuck s && fdReadable s) = true := by
  decide

/-! ### F030: full sync queue, `Remote::schedule` before the fix -/

def cfgF030 : Cfg := { drv := .iour, loop := .own, q := 1, maxInt := 61, nw := 2, flushArms := true, rewake := false }

def traceF030 : List Event :=
  [-- the runtime polls its main future, ticks (nothing to do) and goes to sleep in the kernel
   .rt .go, .rt .go, .rt .go, .rt .go, .rt .go, .rt .go, .rt .go,
   -- thread 0 wakes task 0: SCHEDULED, reserve, push (queue now full), wake the driver (eventfd), finish
   .wStart 0 (.task 0), .w 0, .w 0, .w 0, .w 0, .w 0, .w 0, .w 0,
   -- thread 1 wakes task 1: SCHEDULED, reserve, push fails (full) -> wakes the driver (already notified), spins
   .wStart 1 (.task 1), .w 1, .w 1, .w 1, .w 1, .w 1, .w 1,
   -- the runtime wakes up, polls main, drains task 0 out of the queue, starts polling it
   .rt .go, .rt .go, .rt .go, .rt .go, .rt .go, .rt .go, .rt .go, .rt .go, .rt .go, .rt .go, .rt .go,
   -- thread 1 finds room, pushes task 1 and, having "already notified", returns WITHOUT waking the driver
   .w 1, .w 1, .w 1,
   -- the runtime finishes the tick, resets the flag (not notified) and blocks
   .rt .go, .rt .go, .rt .go, .rt .go, .rt .go]

theorem f030_schedule_unfixed_counterexample :
    check (run (init cfgF030) traceF030)
      (fun s => s.woken 1 && s.sync.contains 1 && !s.dropped 1 && (s.rt == .wait) && rtStuck s && allIdle s) = true := by
  decide

/-- the same interleaving under the repaired `Remote::schedule` (thread 1's third step is now the wake-up after
the push; one more step to finish the call): the flag is NOTIFIED, `reset` reports it, the runtime thread is not stuck -/
theorem f030_fixed_same_trace :
    check (run (init { cfgF030 with rewake := true }) (traceF030 ++ [.w 1]))
      (fun s => s.woken 1 && s.sync.contains 1 && (s.rt == .wait) && !rtStuck s && allIdle s) = true := by
  decide

/-! ### side observation (task life cycle, C04/C05 territory): a cancelled task stranded outside every queue

Code as it is now (both repairs in). Queue of capacity 1, full. Thread 1 wakes task 1: it sets SCHEDULED, reserves,
finds the queue full, wakes the driver and spins. Thread 2 runs a remote `cancel()` of task 1 (`Task::cancel` =
`schedule()` then `set_cancelled`): its `schedule()` sees SCHEDULED and returns at once (coalesced), then the
CANCELLED bit is set. Thread 1 now sees `is_cancelled()` in its spin loop, releases its reservation and returns
WITHOUT pushing. Task 1 is cancelled, SCHEDULED, not dropped, and in no queue; every later wake is coalesced
(SCHEDULED stays set), so `tick` never runs it and its future is dropped only by `Executor::clear` (executor drop).
Not a lost wake in the sense of C03 (the statement excludes cancelled tasks), recorded as an observation. -/

def cfgStrand : Cfg := { drv := .iour, loop := .own, q := 1, maxInt := 61, nw := 3, flushArms := true, rewake := true }

def traceStrand : List Event :=
  [.wStart 0 (.task 0), .w 0, .w 0, .w 0, .w 0, .w 0, .w 0, .w 0,      -- task 0 queued: the queue is full
   .wStart 1 (.task 1), .w 1, .w 1, .w 1, .w 1, .w 1, .w 1,            -- thread 1: SCHEDULED, reserve, full, wake, spin
   .wStart 2 (.task 1), .w 2, .w 2,                                     -- cancel()'s own schedule(): coalesced
   .cancel 1,                                                           -- set_cancelled
   .w 1, .w 1]                                                          -- thread 1 bails out: fetch_sub, finish

theorem cancelled_task_stranded_witness :
    check (run (init cfgStrand) traceStrand)
      (fun s => Compio.Gen.TaskState.isScheduled (s.word 1) && Compio.Gen.TaskState.isCancelled (s.word 1) &&
        !s.dropped 1 && !s.sync.contains 1 && !s.hot.contains 1 && allIdle s && (s.pending == 1) && !s.uflow) = true := by
  decide

end Compio.Cex.C03
