import Compio.Model.Wake

namespace Compio.Cex.C03
open Compio.Wake

end Compio.Cex.C03
