/-
C01 — machine-checked witnesses.

* F13 (repaired in /repo by 4ea6d14): before the repair `impl Drop for iour::Driver` turned EVERY CQE of the drained
  completion queue back into a key, also the ones flagged `more`. The model with `drainChecksMore := false` (what
  the extractor read from the pre-fix source) reaches states that violate the C01 statements; with the repaired
  loop (`drainChecksMore := true`, what it reads now) the same event lists are harmless.
* the order of the statements of that `Drop` matters: with "free in-flight keys" before "close ring" an
  operation is freed while the kernel still has it in flight and the ring is open.
-/
import Compio.Model.KeyLife
import Compio.Model.MultiFd

namespace Compio.Cex.C01

open Compio Compio.KeyLife Compio.PollQueues

/-- the configuration of the source BEFORE commits 4ea6d14 (F13) and 0f15c6d (F9), spelled out: the witnesses below
document the defect that was repaired; `Props/C01.lean` is about `Cfg.gen`, the code as it is now -/
def pinned : Cfg := ⟨[.drainCq, .closeRing, .freeInFlight], false, false⟩

def repaired : Cfg := ⟨[.drainCq, .closeRing, .freeInFlight], true, true⟩

/-- zero-copy send, submitted (`flush`), both CQEs (send result flagged `more`, notification) unseen, the caller
still holds its key, the proactor is dropped -/
def zcHeld : List Event :=
  [.pushSq .zc 6 .wr, .submit, .kPost 0 true (.ok 5), .kPost 0 false (.ok 0), .dropBegin, .dropStep]

/-- **F13, caller still holds the key**: after the drain statement of `Drop` the operation is freed
(`freed = 1`, strong count 0) although the caller owns a handle (`user = 1`): refcount ≠ holders, the
caller's key dangles. -/
theorem F13_freed_under_the_caller_counterexample :
    (run pinned (init .iour 4) zcHeld).map
      (fun s => (s.hazard, s.ring, s.ops.map fun o => (o.user, o.rc, o.freed)))
    = some (true, true, [(1, 0, 1)]) := by rfl

/-- the same, the caller having dropped its future before: the second CQE re-materialises a reference that no
longer exists — use after free / double free (`uaf`) -/
theorem F13_double_release_counterexample :
    (run pinned (init .iour 4)
        [.pushSq .zc 6 .wr, .submit, .userCancel 0 [], .kPost 0 true (.ok 5), .kPost 0 false (.ok 0),
          .dropBegin, .dropStep]).map
      (fun s => s.ops.map fun o => (o.user, o.freed, o.uaf))
    = some [(0, 1, true)] := by rfl

/-- one unseen `more` CQE of a multishot accept whose future was dropped: the operation is freed by the drain
statement while the kernel still has it armed and the ring is still open -/
theorem F13_freed_before_ring_close_counterexample :
    (run pinned (init .iour 4)
        [.pushSq .multi 4 .rd, .submit, .userDrop 0, .kPost 0 true (.ok 1), .dropBegin, .dropStep]).map
      (fun s => (s.ring, s.ops.map fun o => (o.kstat, o.freed)))
    = some (true, [(.inflight, 1)]) := by rfl

/-- with the drain loop skipping `more` CQEs the same runs are fine: the key stays in `in_flight` and is freed
once, after the ring is closed -/
theorem generated_cfg_is_repaired : Cfg.gen.drainChecksMore = true ∧ Cfg.gen.cancelPushRaw = true := ⟨rfl, rfl⟩

theorem F13_repaired_ok :
    (run repaired (init .iour 4) (zcHeld ++ [.dropStep, .dropStep, .dropStep, .userDrop 0])).map
      (fun s => (s.hazard, s.ops.map fun o => (o.user, o.rc, o.freed, o.uaf)))
    = some (false, [(0, 0, 1, false)]) := by rfl

/-- **drop order**: if `Drop` freed the in-flight keys BEFORE closing the ring, a pending receive whose future
was dropped would be freed while the kernel still owns its buffer and the ring is open (the next event could be
the kernel writing into it: `kPost` is still accepted). -/
theorem free_before_close_counterexample :
    (run ⟨[.drainCq, .freeInFlight, .closeRing], true, true⟩ (init .iour 4)
        [.pushSq .single 0 .rd, .submit, .userCancel 0 [], .dropBegin, .dropStep, .dropStep]).map
      (fun s => (s.ring, s.ops.map fun o => (o.kstat, o.freed)))
    = some (true, [(.inflight, 1)]) := by rfl

/-- … and the kernel's completion is indeed still accepted in that state -/
theorem free_before_close_kernel_still_writes :
    ((run ⟨[.drainCq, .freeInFlight, .closeRing], true, true⟩ (init .iour 4)
        [.pushSq .single 0 .rd, .submit, .userCancel 0 [], .dropBegin, .dropStep, .dropStep,
          .kPost 0 false (.ok 4)]).isSome) = true := by rfl

/-- seeded change C01-4a (`break` after the first cancelled descriptor in `poll::Driver::cancel`): with a loop that leaves
early a two-descriptor operation stays in the write queue of its second descriptor after the cancel was reported, and is
still alive (count 1, not freed) after the poll that reaps the cancellation, although the caller holds nothing -/
theorem early_break_leaves_key_registered :
    (MultiFd.run true (MultiFd.init .poll) [.push [(0, .rd), (1, .wr)], .cancel 0, .poll]).map
      (fun s => (s.reg 0, s.reg 1, s.ops.map fun o => (o.user, o.rc, o.freed, o.result)))
    = some (⟨[], []⟩, ⟨[], [0]⟩, [(0, 1, 0, some 125)]) := by rfl

end Compio.Cex.C01
