/-
C05 — machine-checked witness of finding F9 (repaired in /repo by commit 0f15c6d).

BEFORE the repair `iour::Driver::cancel` pushed the AsyncCancel SQE with a bare `squeue.push(..)` and only logged a
warning when the submission queue was full, while `Proactor::cancel_token` still returned `true`
(`iourCancelUnfixed`, selected by `cancelPushRaw := false`). With capacity 2 and two receives pushed (both SQ slots
taken, nothing submitted yet) the cancel of the first one was lost: the kernel never heard about it, and on a
never-ready descriptor the operation stayed pending for ever. `F9_repaired_ok` runs the same events on the code as it
is now (`Cfg.gen`): the cancel submits the queue, is queued itself and reaches the kernel.
-/
import Compio.Lemmas.KeyLifeCancel
import Compio.Model.PollQueuesMulti05

namespace Compio.Cex.C05

open Compio Compio.KeyLife Compio.PollQueues

/-- the configuration of the source before the repairs of F13 and F9 -/
def pinned : Cfg := ⟨[.drainCq, .closeRing, .freeInFlight], false, false⟩

/-- capacity 2: push, push, register a token for op 0, `cancel_token` -/
def full : List Event :=
  [.pushSq .single 0 .rd, .pushSq .single 1 .rd, .tokenRegister 0, .tokenCancel 0 []]

/-- `cancel_token` reports that a cancellation was issued … -/
theorem F9_cancel_token_says_true :
    ((run pinned (init .iour 2) [.pushSq .single 0 .rd, .pushSq .single 1 .rd, .tokenRegister 0]).bind
      fun s => (s.ops[0]?).map cancelTokRet) = some true := by rfl

/-- **F9**: … but the SQE was dropped (`cancelDropped = 1`, nothing queued for the op), so after the submit the
kernel knows of no cancel (`kcancel = false`) for the in-flight receive -/
theorem F9_cancel_dropped_counterexample :
    (run pinned (init .iour 2) (full ++ [.submit])).map
      (fun s => s.ops.map fun o => (o.cancelled, o.cancelSq, o.cancelDropped, o.kcancel, o.kstat, o.result))
    = some [(true, 0, 1, false, .inflight, none), (false, 0, 0, false, .inflight, none)] := by rfl

/-- one round of `poll` (submit, look at the completion queue) on that state changes nothing about the op: by
induction it is pending after any number of polls as long as the descriptor stays unready (the kernel has no
reason to post a CQE; `kPost` is an environment event that needs readiness or a cancel request) -/
def pollRound : List Event := [.submit, .pollEntries]

theorem F9_never_finishes (n : Nat) :
    ∀ s : State, s.alive = true → s.drv = .iour →
      (∀ o, o ∈ s.ops → o.pendMore = [] ∧ o.pendFinal = none ∧ o.cancelSq = 0 ∧ o.kstat ≠ .queued) →
      ∃ s', run Cfg.gen s ((List.replicate n pollRound).flatten) = some s' ∧ s'.ops = s.ops ∧ s'.alive = true ∧
        s'.drv = .iour := by
  induction n with
  | zero => intro s ha hd _; exact ⟨s, rfl, rfl, ha, hd⟩
  | succ n ih =>
    intro s ha hd hq
    have hsub : s.ops.map Op.submit = s.ops := by
      apply map_fix
      intro o ho
      obtain ⟨_, _, h3, h4⟩ := hq o ho
      cases o
      simp_all [Op.submit]
    have hdr : s.ops.map Op.drainCq = s.ops := by
      apply map_fix
      intro o ho
      obtain ⟨h1, h2, _, _⟩ := hq o ho
      cases o
      simp_all [Op.drainCq]
    have hstep : run Cfg.gen s pollRound = some { s with sqLen := 0 } := by
      simp [run, pollRound, step, ha, hd, hsub, hdr]
    obtain ⟨s', h1, h2, h3, h4⟩ := ih { s with sqLen := 0 } ha hd hq
    refine ⟨s', ?_, h2, h3, h4⟩
    simp only [List.replicate_succ, List.flatten_cons]
    rw [run_append _ _ _ _ _ hstep]; exact h1

/-- the state after the lost cancel and the first submit satisfies the hypothesis of `F9_never_finishes`, and
op 0 has no result in it -/
theorem F9_state_is_stuck :
    (run pinned (init .iour 2) (full ++ [.submit])).map
      (fun s => (s.alive, decide (s.drv = .iour),
        s.ops.map fun o => (o.pendMore, o.pendFinal, o.cancelSq, decide (o.kstat ≠ .queued), o.result)))
    = some (true, true, [([], none, 0, true, none), ([], none, 0, true, none)]) := by rfl

/-- with room in the queue (a poll happened before the cancel) the same cancel did reach the kernel -/
theorem F9_room_is_fine :
    (run pinned (init .iour 2)
        [.pushSq .single 0 .rd, .pushSq .single 1 .rd, .submit, .tokenRegister 0, .tokenCancel 0 [], .submit]).map
      (fun s => s.ops.map fun o => (o.cancelled, o.cancelDropped, o.kcancel))
    = some [(true, 0, true), (false, 0, false)] := by rfl

/-- the repaired code on the very same events: the cancel finds the queue full, submits both receives (`push_raw`),
queues its SQE (`cancelSq = 1`, nothing dropped), and the next submit hands it to the kernel -/
theorem F9_repaired_ok :
    (run Cfg.gen (init .iour 2) full).map
        (fun s => (s.sqLen, s.ops.map fun o => (o.cancelled, o.cancelSq, o.cancelDropped, o.kstat)))
      = some (1, [(true, 1, 0, .inflight), (false, 0, 0, .inflight)]) ∧
    (run Cfg.gen (init .iour 2) (full ++ [.submit])).map
        (fun s => s.ops.map fun o => (o.cancelDropped, o.kcancel, o.kstat))
      = some [(0, true, .inflight), (0, false, .inflight)] := ⟨by rfl, by rfl⟩

/-- seeded/C05-4a (`Driver::cancel` stops after the first descriptor): the cancelled splice (key 0) is still at the head of the
output descriptor's write queue, in front of its neighbour — the next writability event runs it -/
theorem seed4a_leaves_key_queued :
    let reg := Multi05.pushQueues (Multi05.pushQueues PollQueues.Reg.empty [(0, .rd), (1, .wr)] 0) [(0, .rd), (1, .wr)] 1
    (Multi05.cancelQueuesFirstOnly reg [0, 1] 0 1).wq = [0, 1] ∧ (Multi05.cancelQueues reg [0, 1] 0 1).wq = [1] := by decide

end Compio.Cex.C05
