/-
C02 — machine-checked witness of finding C02a (polling driver, operations that wait for TWO descriptors:
`Splice`).

`polling::Event` carries only the key that was registered, not the descriptor that fired.  `Driver::poll`
therefore recovers the descriptor with `PollExtra::next_fd()` = "the first descriptor of this operation that
is not ready yet".  When the descriptor that fired is NOT that first one, `poll_one` looks at the wrong
descriptor's queues, records nothing, re-arms the wrong descriptor — and the descriptor that really fired stays
disarmed (one-shot) although the operation is still queued on it.  If the output side of a `Splice` becomes
writable before its input side becomes readable the operation is never run again:
it is "left waiting once everything the operation waits for is ready".

Reproduced on the real code by harness/rt/src/bin/c02.rs (cases `splice*-1`, monitor `C02a:multi-fd-stranded`).
-/
import Compio.Model.PollDriver

namespace Compio.Cex.C02
open Compio.Completion Compio.PollDriver

/-- every system call would succeed with 5 bytes the moment it is tried -/
def ops : Ops Unit := { operate := fun w _ => (some (.ok 5), w), addFails := fun _ => none }

def init : St Unit := { world := () }

/-- Splice(fd_in = 10, fd_out = 11); the OUTPUT becomes writable first, then the INPUT becomes readable -/
def outputFirst : List Step :=
  [ .push 0 (.wait [(10, .read), (11, .write)]),
    .poll true [⟨11, false, true⟩],
    .poll true [⟨10, true, false⟩] ]

/-- the same operation with the input becoming readable first -/
def inputFirst : List Step :=
  [ .push 0 (.wait [(10, .read), (11, .write)]),
    .poll true [⟨10, true, false⟩],
    .poll true [⟨11, false, true⟩] ]

/-- the state the `outputFirst` run ends in -/
def stranded : St Unit :=
  match run ops init outputFirst with
  | .ok s => s
  | .error _ => init

/-- Both descriptors have been reported ready, every `operate` would succeed, and yet: the operation has
    not been run (no result), it is still queued on the output descriptor, the output descriptor is
    registered but DISARMED (both interest flags off), the input descriptor is not registered at all. -/
theorem splice_stranded_counterexample :
    (match run ops init outputFirst with
     | .ok s => s.keys.slot 0 == .pending none && s.keys.fin 0 == [] && s.queue 11 .write == [0] &&
                s.epoll 11 == some ⟨0, false, false⟩ && (s.reg 10).isNone && (s.epoll 10).isNone
     | .error _ => false) = true := by decide

/-- so the arming invariant (Props/C02 `arming_invariant`) is false for this reachable state:
    the registry holds a non-empty write queue for descriptor 11 but the poller is not armed for it -/
theorem arming_invariant_fails_counterexample :
    ¬ (∀ q, stranded.reg 11 = some q → stranded.epoll 11 = some q.event) := by
  intro h
  have h1 : stranded.reg 11 = some { readQ := [], writeQ := [0] } := by decide
  have h2 := h _ h1
  revert h2
  decide

/-- the kernel can report neither descriptor again (11 is disarmed, 10 is not registered), and a poll
    without events leaves the operation pending: without a further submission on descriptor 11 it is stuck -/
theorem stranded_stays_stranded_counterexample :
    (match poll ops stranded true [⟨11, false, true⟩] with | .error (.reject _) => true | _ => false) = true ∧
    (match poll ops stranded true [⟨10, true, false⟩] with | .error (.reject _) => true | _ => false) = true ∧
    (match poll ops stranded true [] with
     | .ok (s, r) => s.keys.slot 0 == .pending none && r == .timedOut
     | .error _ => false) = true := by decide

/-- the opposite order works: the result of the operation's own system call is stored -/
theorem input_first_completes :
    (match run ops init inputFirst with
     | .ok s => s.keys.slot 0 == .ready (.ok 5) && s.keys.fin 0 == [.ok 5] && (s.reg 10).isNone && (s.reg 11).isNone
     | .error _ => false) = true := by decide

end Compio.Cex.C02
