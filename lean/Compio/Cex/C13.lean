/-
C13 — machine-checked witnesses of the two defects found on the pinned tree (both repaired by
`fix:` commits in /repo; the positive theorems in Props/C13 are about the repaired functions).
-/
import Compio.Model.Frame
import Compio.Model.Cmsg
import Compio.Model.Sink

namespace Compio.Cex.C13
open Compio Compio.Frame Compio.Cmsg

/-- F7a: an 8-byte length field of all ones made `LengthDelimited::extract` overflow (`lfl + len`) -/
theorem f7a_unfixed_panics :
    LD.extractUnfixed ⟨8, true⟩ [255, 255, 255, 255, 255, 255, 255, 255, 0] = .panic := by decide

/-- ... and the repaired function answers with an error for every such buffer -/
theorem f7a_fixed_never_panics (f : LD) (b : Bytes) : f.extract b ≠ .panic := by
  unfold LD.extract
  split
  · simp
  · simp only
    split
    · simp
    · split <;> simp

/-- F7b: a message carrying 2 payload bytes (`cmsg_len = 18`), placed last in its buffer, decoded as
a 4-byte value: the pinned code read 2 bytes of whatever memory follows the buffer (`0xEE` here). -/
theorem f7b_unfixed_reads_past_buffer :
    decodeDataUnfixed
      ([18, 0, 0, 0, 0, 0, 0, 0, 1, 0, 0, 0, 2, 0, 0, 0] ++ [7, 9]) [0xEE, 0xEE, 0xEE] 0 4
      = .ok [7, 9, 0xEE, 0xEE] := by decide

theorem f7b_fixed_reports_small :
    decodeData ([18, 0, 0, 0, 0, 0, 0, 0, 1, 0, 0, 0, 2, 0, 0, 0] ++ [7, 9]) 0 4 = .small := by decide

/-- F130: as found, `poll_flush` on a sink whose write is in flight (`SinkExt::send` = `feed` + `flush`)
answered `Ready` as soon as the write completed, without ever flushing the writer: the frame stays in
the writer's buffer although the sink reported it flushed. -/
theorem f130_unfixed_flush_skips_writer_flush :
    let r := Sink.run Sink.stepUnfixed {} [.ready 0, .send [0, 0, 0, 1, 7], .flush 0]
    r.2 = [.ready, .ready, .ready] ∧ r.1.io.flushes = 0 ∧ r.1.io.delivered = [] ∧
      r.1.io.buffered = [0, 0, 0, 1, 7] := by decide

/-- F130: as found, `poll_close` after `feed` answered `Ready` without shutting the writer down -/
theorem f130_unfixed_close_skips_shutdown :
    let r := Sink.run Sink.stepUnfixed {} [.ready 0, .send [0, 0, 0, 1, 7], .close 0]
    r.2 = [.ready, .ready, .ready] ∧ r.1.io.shutdowns = 0 ∧ r.1.io.delivered = [] := by decide

/-- ... and the repaired entry points deliver on the same scripts -/
theorem f130_fixed_delivers :
    (Sink.run Sink.step {} [.ready 0, .send [0, 0, 0, 1, 7], .flush 0]).1.io.delivered = [0, 0, 0, 1, 7] ∧
    (Sink.run Sink.step {} [.ready 0, .send [0, 0, 0, 1, 7], .close 0]).1.io.shutdowns = 1 := by decide

end Compio.Cex.C13
