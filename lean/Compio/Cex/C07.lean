/-
C07 — machine-checked witnesses: what goes wrong outside the guards of the positive theorems.
-/
import Compio.Model.Pool

namespace Compio.Cex.C07
open Compio Compio.Pool

/-- without rounding the ring length to a power of two the index jumps when the `u16` tail wraps:
    with 3 entries the provide at tail 65535 and the next one (tail 65536 = 0 as u16) hit the same entry -/
theorem ring_index_not_wraparound_safe_len3_counterexample :
    ringIdx (65535 % 65536) 0 3 = ringIdx (65536 % 65536) 0 3 := by decide

end Compio.Cex.C07
