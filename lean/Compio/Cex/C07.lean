/-
C07 — machine-checked witnesses: what goes wrong outside the guards of the positive theorems.

Observation C07a (outside the programs C07 quantifies over): `BufferPool::take(id)` / `BufferPool::reset(id)` are safe public functions that only look
at the slot table. Called with an id that no completion reported, they hand out (or re-queue) a buffer the
pool / the kernel still owns. Each witness below is a concrete program executed by the same `run` / `step`
the driver uses (reproducible on the real code with `./check C07 --replay`, see notes/C07.md).
-/
import Compio.Props.C07

namespace Compio.Cex.C07
open Compio Compio.Pool Compio.Props.C07

/-- io_uring ring, `take(0)` right after the pool was created: buffer 0 is in user hands AND still
    provided to the kernel — two owners -/
theorem raw_take_ring_two_owners_counterexample :
    ((World.init .ring 2 8).map fun w => owners (run w [.take 0]) 0) = some 2 := by decide

/-- … and the kernel uses it: the next managed read selects buffer 0, `set_result` finds the slot
    empty and panics (`Buffer should not be in use`) inside `Proactor::poll` -/
theorem raw_take_ring_kernel_reuses_held_buffer_counterexample :
    ((World.init .ring 2 8).map fun w =>
      (run w [.src .pipe 0, .take 0, .write 0 4, .read 0 0 0]).dead) = some true := by decide

/-- dropping that handle provides id 0 a second time: 3 provided entries in a ring of 2
    (`tail - head > len`), so a live ring entry is overwritten -/
theorem raw_take_ring_overflows_ring_counterexample :
    ((World.init .ring 2 8).map fun w =>
      let w' := run w [.take 0, .drop 0]
      (w'.pool.tail - w'.pool.head, w'.pool.n, w'.pool.window)) = some (3, 2, [0, 1, 0]) := by decide

/-- `reset(id)` of a provided id does the same without any handle: the ring of 2 now holds 3 provided
    entries, the entry of buffer 0 was overwritten — buffer 1 is provided three times, buffer 0 is lost -/
theorem raw_reset_ring_duplicates_counterexample :
    ((World.init .ring 2 8).map fun w =>
      (owners (run w [.reset 1]) 1, owners (run w [.reset 1]) 0, (run w [.reset 1]).pool.window)) =
      some (3, 0, [1, 1, 1]) := by decide

/-- fallback pool: `take(0)` leaves 0 in the free queue, the drop queues it again (0 is in the queue
    twice); after the two buffers were popped the stale entry makes the next `pop` panic
    (`Buffer should be available`) instead of reporting `ResourceBusy` -/
theorem raw_take_fallback_pop_panics_counterexample :
    ((World.init .fb 2 8).map fun w =>
      ((run w [.take 0, .drop 0]).pool.queue, (step (run w [.take 0, .drop 0, .pop, .pop]) .pop).2)) =
      some ([0, 1, 0], .ppanic "unavailable") := by decide

/-- without rounding the ring length to a power of two the index jumps when the `u16` tail wraps:
    with 3 entries the provide at tail 65535 and the next one (tail 65536 = 0 as u16) hit the same entry,
    although only one buffer is outstanding -/
theorem ring_index_not_wraparound_safe_len3_counterexample :
    ringIdx (65535 % 65536) 0 3 = ringIdx (65536 % 65536) 0 3 ∧ ¬ (3 ∣ 65536) := by decide

end Compio.Cex.C07
