/-
C20 — machine-checked witnesses of the two defects found on the unchanged tree.

F200: polling driver + blocking pipe descriptors: a `write` on the child's stdin occupies the runtime
      thread until the whole chunk is in the pipe; with an echoing child and more bytes in one write
      than stdin pipe + child buffer + stdout pipe hold, the reader of stdout can never run: deadlock.
      (Props.concurrent_complete is the same scenario with `blocking = false`: always finishes.)
F201 (REPAIRED in /repo 61828f8; the witnesses are about the behaviour before the repair, plan
      `heldUnfixed`): `Child::wait(self)` / `wait_with_output(self)` closed a still-contained `stdin` only
      when they returned; a child that reads to end of file never exits, the wait never returns.
      The repaired code drops stdin first, like `std::process` (plan `held`): Props.wait_closes_stdin_first.
-/
import Compio.Lemmas.ChildIo

namespace Compio.ChildIo

/-- F200, all sizes: polling driver (`blocking`), the whole payload offered in one `write`
(`payload.length ≤ wchunk`), echoing child, payload larger than both pipes and the child's buffer:
no schedule at all reaches the end — although reader and writer are concurrent tasks. -/
theorem F200_counterexample {c : Cfg} {blk : Nat} {tail : List CAct} {payload : Bytes} {es : List Ev} {s : St}
    (hq : quiet tail = true) (hb : c.blocking = true) (hch : payload.length ≤ c.wchunk)
    (hbig : c.capIn + blk + c.capOut < payload.length)
    (hr : run c (init (.copy none blk .out :: tail) payload false) es = some s) :
    s.completed = false ∧ s.wclosed = false ∧ s.rout = [] := by
  have hk : WriterStuck blk (init (.copy none blk .out :: tail) payload false) :=
    ⟨rfl, rfl, rfl, tail, rfl⟩
  have := oneWrite_never_run (inv_init c _ payload false) (catInv_init blk tail hq payload false) hk
    (Or.inl ⟨rfl, rfl⟩) (by simpa [init] using hbig) hb (by simpa [init] using hch) hr
  exact ⟨writerStuck_not_completed this, this.open_, this.noRead⟩

/-- F200, concrete (`f200Cfg`: polling driver, 1-byte pipes, a 1-byte `cat`, 4 bytes in one `write`,
everything concurrent): the canonical schedule ends stuck with nothing finished: one byte in each pipe, one in
the child's buffer, one still in the `write` call that occupies the runtime thread. -/
theorem F200_witness :
    let s := runCanon f200Cfg 100 (init [.copy none 1 .out, .exit 0] [1, 2, 3, 4] false)
    (next f200Cfg s).isNone = true ∧ s.completed = false ∧ s.wblock = 1 ∧ s.wleft = [4] ∧ s.pin = [3] ∧
      s.pend = [2] ∧ s.pout = [1] ∧ s.rout = [] := by
  decide

/-- the same scenario on io_uring (`blocking = false`) finishes with the four bytes echoed -/
theorem F200_witness_uring :
    let s := runCanon { f200Cfg with blocking := false } 100 (init [.copy none 1 .out, .exit 0] [1, 2, 3, 4] false)
    s.completed = true ∧ s.rout = [1, 2, 3, 4] ∧ s.wt = .done (.exited 0) := by
  decide

/-- F201 (before the repair), all sizes: the writer's close waits for the wait (`stdin` is still inside the
`Child`; `Plan.heldUnfixed` is such a plan), the child reads to end of file: no schedule finishes, the wait
never completes, the child never exits. -/
theorem F201_counterexample {c : Cfg} {blk : Nat} {dst : Dst} {tail : List CAct} {payload : Bytes} {es : List Ev}
    {s : St} (hheld : c.plan.deps .W .Wt = true)
    (hr : run c (init (.copy none blk dst :: tail) payload false) es = some s) :
    s.completed = false ∧ s.wt.isDone = false ∧ s.status = none := by
  have hk : HeldStuck (init (.copy none blk dst :: tail) payload false) :=
    ⟨rfl, rfl, rfl, blk, dst, tail, rfl⟩
  have := heldStuck_run hk hheld hr
  exact ⟨by simp [St.completed, this.open_], this.notWaited, this.alive⟩

/-- `Plan.heldUnfixed` satisfies the hypothesis of `F201_counterexample` -/
theorem F201_unfixed_plan : Plan.heldUnfixed.deps .W .Wt = true := rfl

/-- F201 (before the repair), concrete: `cat` with `child.wait().await` and nothing else: stuck after the
wait has started -/
theorem F201_witness :
    let c : Cfg := { exCfg with plan := .heldUnfixed, pidfd := false }
    let s := runCanon c 100 (init [.copy none 4 .out, .exit 0] [] false)
    (next c s).isNone = true ∧ s.completed = false ∧ s.wt = .started ∧ s.wclosed = false ∧ s.status = none := by
  decide

/-- what `std::process::Child::wait` does, and compio since the repair — close stdin first — finishes -/
theorem F201_witness_repaired :
    let c : Cfg := { exCfg with plan := .held, pidfd := false }
    let s := runCanon c 100 (init [.copy none 4 .out, .exit 0] [] false)
    s.completed = true ∧ s.wt = .done (.exited 0) := by
  decide

end Compio.ChildIo
