import Compio.Model.ChildIo

namespace Compio.ChildIo

end Compio.ChildIo
