/-
C18: machine-checked witnesses of the points excluded by the guards of Props/C18.lean -- behaviours of the
code as it is (each one reproduced on the real dispatcher, see notes/C18.md).
-/
import Compio.Lemmas.Dispatcher

namespace Compio.Dispatcher

/-- Concurrent mode: `join` right after `dispatch` may drop an accepted task that was never started (the
worker spawns it, leaves its loop and drops its runtime; the real `block_on` polls at most 61 spawned tasks
once before that).  The receiver is cancelled -- it does not hang -- but "every accepted task finishes before
`join` returns" (`sequential_all_finished_at_join`) holds in sequential mode only. -/
def cexDrop : List Event :=
  [.dispatch 0 1 ⟨0, .ok 7⟩, .joinStart, .joinPool, .recv 0 1, .exitLoop 0, .teardown 0, .joinReturn]

theorem concurrent_join_drops_unstarted_counterexample :
    ∃ s, Reachable 1 true s ∧ s.joined = some none ∧ 1 ∈ s.accepted ∧ s.started 1 = 0 ∧
      s.chan 1 = .cancelled := by
  have h : (run? (init 1 true) cexDrop).isSome = true := by decide
  obtain ⟨s, hs⟩ := Option.isSome_iff_exists.mp h
  refine ⟨s, ⟨cexDrop, hs⟩, ?_, ?_, ?_, ?_⟩
  · have : (run? (init 1 true) cexDrop).map (·.joined) = some (some none) := by decide
    rw [hs] at this; exact Option.some.inj this
  · have : (run? (init 1 true) cexDrop).map (·.accepted) = some [1] := by decide
    rw [hs] at this
    have h2 : s.accepted = _ := Option.some.inj this
    rw [h2]; simp
  · have : (run? (init 1 true) cexDrop).map (·.started 1) = some 0 := by decide
    rw [hs] at this; exact Option.some.inj this
  · have : (run? (init 1 true) cexDrop).map (·.chan 1) = some .cancelled := by decide
    rw [hs] at this; exact Option.some.inj this

/-- All workers have panicked while the dispatcher is still alive: an item that was accepted before stays in
the flume channel (the `Sender` keeps it alive), its receiver stays pending until `join` is called -- only
"joined first ⇒ cancellation" is guaranteed (`no_receiver_pending_after_join`), not resolution before `join`. -/
def cexStranded : List Event :=
  [.dispatch 0 1 ⟨0, .never⟩, .dispatch 0 2 ⟨0, .ok 5⟩, .recv 0 1, .poll 0 1, .die 0 9, .reap 0]

theorem stranded_until_join_counterexample :
    ∃ s, Reachable 1 false s ∧ s.sender = true ∧ s.main 0 = .dead 9 ∧ 2 ∈ s.accepted ∧ s.queue = [2] ∧
      s.chan 2 = .pending := by
  have h : (run? (init 1 false) cexStranded).isSome = true := by decide
  obtain ⟨s, hs⟩ := Option.isSome_iff_exists.mp h
  refine ⟨s, ⟨cexStranded, hs⟩, ?_, ?_, ?_, ?_, ?_⟩
  · have : (run? (init 1 false) cexStranded).map (·.sender) = some true := by decide
    rw [hs] at this; exact Option.some.inj this
  · have : (run? (init 1 false) cexStranded).map (·.main 0) = some (.dead 9) := by decide
    rw [hs] at this; exact Option.some.inj this
  · have : (run? (init 1 false) cexStranded).map (·.accepted) = some [1, 2] := by decide
    rw [hs] at this
    have h2 : s.accepted = _ := Option.some.inj this
    rw [h2]; simp
  · have : (run? (init 1 false) cexStranded).map (·.queue) = some [2] := by decide
    rw [hs] at this; exact Option.some.inj this
  · have : (run? (init 1 false) cexStranded).map (·.chan 2) = some .pending := by decide
    rw [hs] at this; exact Option.some.inj this

/-- A panic of a task *body* is contained in the task: the worker goes on, `join` returns `Ok`; only a panic
of the worker thread itself is re-raised (`join_reraises_worker_panic`). -/
def cexTaskPanic : List Event :=
  [.dispatch 0 1 ⟨0, .panic⟩, .recv 0 1, .poll 0 1, .poll 0 1, .joinStart, .joinPool, .exitLoop 0, .teardown 0, .joinReturn]

theorem task_panic_not_reraised_counterexample :
    ∃ s, Reachable 1 false s ∧ s.joined = some none ∧ s.ended 1 = 1 ∧ s.chan 1 = .cancelled := by
  have h : (run? (init 1 false) cexTaskPanic).isSome = true := by decide
  obtain ⟨s, hs⟩ := Option.isSome_iff_exists.mp h
  refine ⟨s, ⟨cexTaskPanic, hs⟩, ?_, ?_, ?_⟩
  · have : (run? (init 1 false) cexTaskPanic).map (·.joined) = some (some none) := by decide
    rw [hs] at this; exact Option.some.inj this
  · have : (run? (init 1 false) cexTaskPanic).map (·.ended 1) = some 1 := by decide
    rw [hs] at this; exact Option.some.inj this
  · have : (run? (init 1 false) cexTaskPanic).map (·.chan 1) = some .cancelled := by decide
    rw [hs] at this; exact Option.some.inj this

end Compio.Dispatcher
