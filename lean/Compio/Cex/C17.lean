/-
C17 — machine-checked witnesses of the two defects of `AsyncifyPool::dispatch` (code as it is,
`reserve = false`), as concrete schedules of the model the driver executes.

F10  `counter` is incremented by the worker after it has started but read by the dispatcher before it
     spawns: more than `thread_limit` pool threads, and then more than `thread_limit` jobs at once.
F170 the freshly spawned worker may reach `recv_timeout`, time out and exit before the dispatcher
     reaches `sender.send(f)`: the rendezvous `send` then blocks with no worker left.
-/
import Compio.Lemmas.AsyncifyPool

namespace Compio.Cex.C17
open Compio Compio.Asyncify

/-- two dispatchers (e.g. two runtimes sharing the pool), `thread_limit = 1`: both read `counter = 0` -/
def twoDispatchers : List Event :=
  [.submit 0 .value, .submit 1 .value, .trySend 0, .trySend 1, .load 0, .load 1,
   .spawn 0, .spawn 1, .send 0, .send 1, .count 0, .count 1, .recv 0, .recv 1]

/-- **F10**: two jobs run at once although the limit is 1 -/
theorem overshoot_two_dispatchers_counterexample :
    ∃ s, run? (init 1 2 false) twoDispatchers = some s ∧ s.limit = 1 ∧ running s = 2 ∧ live s = 2 ∧ s.counter = 2 := by
  refine ⟨_, rfl, ?_⟩; decide

/-- the same schedule is impossible once the slot is reserved with the limit check:
the second `load` refuses, so its `spawn` is not enabled -/
theorem overshoot_excluded_by_reservation : run? (init 1 2 true) twoDispatchers = none := by decide

/-- one dispatcher, `thread_limit = 2`: the blocking `send` of job 1 is served by the older worker 0
while the new thread 1 has not counted itself yet, so job 2 spawns a third thread -/
def oneDispatcher : List Event :=
  [.submit 0 .value, .trySend 0, .load 0, .spawn 0, .send 0, .count 0, .recv 0,
   .submit 0 .value, .trySend 0, .load 0, .spawn 0, .send 0, .finish 0, .recv 0,
   .submit 0 .value, .trySend 0, .load 0, .spawn 0, .send 0, .count 1, .recv 1, .count 2, .recv 2,
   .submit 0 .value, .trySend 0, .wake 2]

/-- **F10**, single dispatcher: three threads, three jobs at once, limit 2 -/
theorem overshoot_single_dispatcher_counterexample :
    ∃ s, run? (init 2 1 false) oneDispatcher = some s ∧ s.limit = 2 ∧ running s = 3 ∧ live s = 3 := by
  refine ⟨_, rfl, ?_⟩; decide

/-- the new worker retires (idle timeout) between `thread::spawn` and `sender.send` -/
def strand : List Event :=
  [.submit 0 .value, .trySend 0, .load 0, .spawn 0, .count 0, .recv 0, .timeout 0, .exit 0, .send 0]

/-- **F170**: the dispatcher is blocked inside `dispatch`, its job sits in the channel, no pool thread is
left, the job was never started, and *no* event is enabled any more: with a single runtime the thread
is stuck in `push_blocking` for good. -/
theorem stranded_dispatch_counterexample :
    ∃ s, run? (init 1 1 false) strand = some s ∧ s.disp 0 = .blocked ∧ s.sendq = [(0, 0)] ∧ live s = 0
      ∧ ranCount s 0 = 0 ∧ ∀ e, step? s e = none := by
  refine ⟨_, rfl, by decide, by decide, by decide, by decide, ?_⟩
  intro e
  have one : ∀ d : Nat, d < 1 → d = 0 := by omega
  cases e with
  | submit d k =>
    simp only [step?, doSubmit]
    split
    · rename_i h; cases one d h; rfl
    · rfl
  | trySend d =>
    simp only [step?, doTrySend]
    split
    · rename_i h; cases one d h; rfl
    · rfl
  | load d =>
    simp only [step?, doLoad]
    split
    · rename_i h; cases one d h; rfl
    · rfl
  | spawn d =>
    simp only [step?, doSpawn]
    split
    · rename_i h; cases one d h; rfl
    · rfl
  | send d =>
    simp only [step?, doSend]
    split
    · rename_i h; cases one d h; rfl
    · rfl
  | retry d =>
    simp only [step?, doRetry]
    split
    · rename_i h; cases one d h; rfl
    · rfl
  | giveUp d =>
    simp only [step?, doGiveUp]
    split
    · rename_i h; cases one d h; rfl
    · rfl
  | reap d => rfl
  | count w =>
    simp only [step?, doCount]
    split
    · rename_i h; cases one w h; rfl
    · rfl
  | recv w =>
    simp only [step?, doRecv]
    split
    · rename_i h; cases one w h; rfl
    · rfl
  | wake w =>
    simp only [step?, doWake]
    split
    · rename_i h; cases one w h; rfl
    · rfl
  | timeout w =>
    simp only [step?, doTimeout]
    split
    · rename_i h; cases one w h; rfl
    · rfl
  | finish w =>
    simp only [step?, doFinish]
    split
    · rename_i h; cases one w h; rfl
    · rfl
  | exit w =>
    simp only [step?, doExit]
    split
    · rename_i h; cases one w h; rfl
    · rfl

/-- the window also opens without any timer when the parked new worker is taken by another
dispatcher's `try_send` and that job's uncaught panic kills it (raw `dispatch` users only) -/
def strandByCrash : List Event :=
  [.submit 0 .value, .trySend 0, .load 0, .spawn 0, .count 0, .recv 0,
   .submit 1 .raw, .trySend 1, .send 0, .wake 0, .finish 0, .exit 0]

theorem stranded_by_crash_counterexample :
    ∃ s, run? (init 2 2 false) strandByCrash = some s ∧ s.disp 0 = .blocked ∧ s.sendq = [(0, 0)] ∧ live s = 0
      ∧ s.crashed = [1] := by
  refine ⟨_, rfl, ?_⟩; decide

/-- `thread_limit = 0`: `dispatch` panics and the closure is dropped unrun -/
theorem limit_zero_drops_counterexample :
    ∃ s, run? (init 0 1 false) [.submit 0 .value, .trySend 0, .load 0, .giveUp 0] = some s
      ∧ s.dropped = [0] ∧ ranCount s 0 = 0 := by
  refine ⟨_, rfl, ?_⟩; decide

end Compio.Cex.C17
