/-
C09 — machine-checked witnesses of the two points excluded by the guards of Props/C09.lean.

1. `Interval::tick` truncates the remainder `(now - start).as_nanos() % period.as_nanos()` (a
   `u128`) with `as _` to the `u64` taken by `Duration::from_nanos`. For a period above 2^64 ns
   (~584.5 years) and a start more than 2^64 ns before `now` the truncation drops multiples of
   2^64 ns and the tick is no longer `start + k * period`. Reproduced on the real code by the
   harness (`ivx` lines, monitor `C09a:interval-u64-truncation`, known finding C09a).
2. `TimerRuntime::insert` puts the entry into the map before `generation.checked_add(1).expect(..)`
   panics; the entry left behind has generation `u64::MAX`, the one key that `wake` (which splits at
   `(now, u64::MAX)`) does not expire at the very instant of its deadline. Reproduced on the real
   code up to the panic and the stranded entry (harness `setgen` cases); the exact-instant
   coincidence `deadline == now` cannot be arranged with a real clock. Needs 2^64 timers: of no
   practical consequence, recorded because the guard `WF` of `wake_fires_all_due` is not vacuous.
-/
import Compio.Model.Timer

namespace Compio.Cex.C09
open Compio Compio.Timer

/-- period 3·2^64 ns, start 0, called at 2·2^64 + 5: the remainder 2·2^64 + 5 is truncated to 5,
the tick lands on 5·2^64, which is not a multiple of the period after `start`. -/
theorem interval_truncation_counterexample :
    let iv : Interval := ⟨true, 0, 3 * 2 ^ 64⟩
    let now := 2 * 2 ^ 64 + 5
    iv.tickDeadline now = .deadline (5 * 2 ^ 64) ∧
      (5 * 2 ^ 64 - iv.start) % iv.period ≠ 0 ∧
      -- the aligned instant would have been
      iv.start + ((now - iv.start) / iv.period + 1) * iv.period = 3 * 2 ^ 64 := by
  decide

/-- the counter is exhausted: the insert panics but leaves its entry behind, and a `wake` exactly
at that entry's deadline does not expire it although `deadline ≤ now` -/
theorem generation_overflow_counterexample :
    let w0 : Wheel := ⟨u64Max, []⟩
    let r := insert w0 5 10
    r.2 = .panic ∧ keys r.1.entries = [⟨10, u64Max⟩] ∧
      keys (wake r.1 10).1.entries = [⟨10, u64Max⟩] ∧ (wake r.1 10).2 = [] ∧
      -- one instant later it does expire
      keys (wake r.1 11).1.entries = [] := by
  decide

end Compio.Cex.C09
