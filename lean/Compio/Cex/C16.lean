import Compio.Model.QuicWakers

namespace Compio.Cex.C16
open Compio.QuicWakers Compio.Gen.QuicWakers

theorem closed_takes_worker_handle : closedTakesWorkerHandle = true := by decide

end Compio.Cex.C16
