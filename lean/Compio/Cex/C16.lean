/-
C16 — machine-checked witnesses of the three defects found in compio-quic's own logic, on the model the driver
runs (the behaviour is reproduced on the real code by harness/apps/src/bin/c16.rs, cases `f160-two-waiters`,
`f161-cancelled-closed`, `f162-closed-twice`).

F160  `on_connected` is one `Option<Waker>`, `Connection::accepted_0rtt(&self)` can be awaited by several tasks:
      the second registration drops the first task's waker; no event and no close ever wakes the first task.
F161  a dropped `Connection::closed()` future drops the worker's `JoinHandle`, which cancels the worker: no event
      and no `Endpoint::close` is processed any more, every pending future hangs.
F162  a second `closed()` finds `worker = None` and panics in `try_state().unwrap_err()` on an open connection.
-/
import Compio.Lemmas.QuicWakers

namespace Compio.Cex.C16
open Compio.QuicWakers Compio.Gen.QuicWakers

/-- what the environment can do without the help of the stranded task -/
def isEnv : Op → Bool
  | .event _ _ _ _ => true
  | .close => true
  | .endpointClose => true
  | .drained => true
  | _ => false

theorem phi_zero_not_woken {s : St} {w : Nat} (h : phi s w = 0) : w ∉ s.woken := by
  intro hm
  have := List.count_pos_iff.mpr hm
  unfold phi at h; omega

theorem newly_subset {s s' : St} {w : Nat} (h : w ∈ newlyWoken s s') : w ∈ s'.woken :=
  List.mem_of_mem_drop h

theorem setSt_keeps {W : World} {s' : St} {x : Waiter} (hx : x ∈ W.owed) (hphi : phi s' x.w = 0) :
    x ∈ (W.setSt s').owed := by
  simp only [World.setSt]
  rw [mem_discharge]
  exact ⟨hx, fun h => phi_zero_not_woken hphi (newly_subset h)⟩

/-- a waiter whose waker is in no table and was never woken stays owed for ever, whatever the environment does -/
theorem env_never_wakes (x : Waiter) : ∀ (ops : List Op) (W : World), ops.all isEnv = true →
    x ∈ W.owed → phi W.st x.w = 0 → x ∈ (W.run ops).owed ∧ x.w ∉ (W.run ops).st.woken := by
  intro ops
  induction ops with
  | nil => intro W _ hx hp; exact ⟨hx, phi_zero_not_woken hp⟩
  | cons o os ih =>
    intro W hall hx hp
    simp only [List.all_cons, Bool.and_eq_true] at hall
    have key : x ∈ (W.step o).1.owed ∧ phi (W.step o).1.st x.w = 0 := by
      cases o with
      | event ev key zr e =>
        simp only [World.step]
        split
        · have hp' : phi (W.st.onEvent ev key zr e) x.w = 0 := by rw [phi_onEvent]; exact hp
          exact ⟨setSt_keeps hx hp', hp'⟩
        · exact ⟨hx, hp⟩
      | close =>
        have hp' : phi W.st.close x.w = 0 := by unfold St.close; rw [terminate_phi]; exact hp
        exact ⟨setSt_keeps hx hp', hp'⟩
      | endpointClose =>
        simp only [World.step]
        split
        · have hp' : phi W.st.close x.w = 0 := by unfold St.close; rw [terminate_phi]; exact hp
          exact ⟨setSt_keeps hx hp', hp'⟩
        · exact ⟨hx, hp⟩
      | drained => exact ⟨hx, hp⟩
      | poll r k w => simp [isEnv] at hall
      | cancel r k w => simp [isEnv] at hall
      | dropStream s i => simp [isEnv] at hall
      | closedPoll w => simp [isEnv] at hall
      | closedDrop w => simp [isEnv] at hall
    exact ih _ hall.2 key.1 key.2

/-! ## F160 -/

/-- two tasks (1 and 2) await `accepted_0rtt()` on clones of one connection -/
def f160World : World :=
  World.init.run [.poll .connectionAccepted0rtt 0 1, .poll .connectionAccepted0rtt 0 2]

/-- the second registration is exactly what the one-task-per-slot discipline forbids, and it breaks the
    "owed ⇒ registered" invariant: task 1 is owed a wake-up, but the slot holds only task 2's waker -/
theorem f160_counterexample :
    admissible (World.init.step (.poll .connectionAccepted0rtt 0 1)).1 (.poll .connectionAccepted0rtt 0 2) = false ∧
    (⟨.connectionAccepted0rtt, 0, 1⟩ : Waiter) ∈ f160World.owed ∧
    f160World.st.tabs .onConnected = [(0, 2)] ∧
    ¬ Inv f160World := by
  refine ⟨by decide, by decide, by decide, ?_⟩
  intro h
  have := h ⟨.connectionAccepted0rtt, 0, 1⟩ (by decide)
  revert this; decide

/-- `Connected` wakes task 2 only; a later close wakes nobody: task 1 is stranded -/
theorem f160_connected_then_close_wakes_only_the_last :
    (f160World.run [.event .connected 0 false .reset, .close]).st.woken = [2] ∧
    (⟨.connectionAccepted0rtt, 0, 1⟩ : Waiter) ∈ (f160World.run [.event .connected 0 false .reset, .close]).owed := by
  decide

/-- … and nothing the environment can do (any events, close, endpoint close) ever wakes task 1 -/
theorem f160_stranded_forever (ops : List Op) (h : ops.all isEnv = true) :
    (⟨.connectionAccepted0rtt, 0, 1⟩ : Waiter) ∈ (f160World.run ops).owed ∧ 1 ∉ (f160World.run ops).st.woken :=
  env_never_wakes ⟨.connectionAccepted0rtt, 0, 1⟩ ops f160World h (by decide) (by decide)

/-! ## F161 -/

/-- task 9 starts `closed()` and drops it (timeout / select); task 1 then blocks in a stream read -/
def f161World : World :=
  World.init.run [.closedPoll 9, .closedDrop 9, .poll .recvStreamExecutePollRead 4 1]

theorem f161_counterexample :
    closedTakesWorkerHandle = true ∧ f161World.worker = .cancelled ∧
    (⟨.recvStreamExecutePollRead, 4, 1⟩ : Waiter) ∈ f161World.owed := by decide

/-- what reaches the connection through its worker -/
def isNet : Op → Bool
  | .event _ _ _ _ => true
  | .endpointClose => true
  | .drained => true
  | _ => false

theorem cancelled_worker_is_deaf : ∀ (ops : List Op) (W : World), W.worker = .cancelled → ops.all isNet = true →
    (W.run ops).st = W.st ∧ (W.run ops).owed = W.owed ∧ (W.run ops).worker = .cancelled := by
  intro ops
  induction ops with
  | nil => intro W hw _; exact ⟨rfl, rfl, hw⟩
  | cons o os ih =>
    intro W hw hall
    simp only [List.all_cons, Bool.and_eq_true] at hall
    have key : (W.step o).1.st = W.st ∧ (W.step o).1.owed = W.owed ∧ (W.step o).1.worker = .cancelled := by
      cases o with
      | event ev key zr e => simp [World.step, hw]
      | endpointClose => simp [World.step, hw]
      | drained => simp [World.step, hw]
      | close => simp [isNet] at hall
      | poll r k w => simp [isNet] at hall
      | cancel r k w => simp [isNet] at hall
      | dropStream s i => simp [isNet] at hall
      | closedPoll w => simp [isNet] at hall
      | closedDrop w => simp [isNet] at hall
    obtain ⟨i1, i2, i3⟩ := ih _ key.2.2 hall.2
    exact ⟨by rw [show (W.run (o :: os)) = ((W.step o).1).run os from rfl, i1, key.1],
           by rw [show (W.run (o :: os)) = ((W.step o).1).run os from rfl, i2, key.2.1], i3⟩

/-- no event from the peer (data, reset, connection lost, idle timeout) and no `Endpoint::close` ever completes
    the read: the worker that would process them is gone -/
theorem f161_stranded_forever (ops : List Op) (h : ops.all isNet = true) :
    (⟨.recvStreamExecutePollRead, 4, 1⟩ : Waiter) ∈ (f161World.run ops).owed ∧ (f161World.run ops).st.woken = [] := by
  obtain ⟨h1, h2, _⟩ := cancelled_worker_is_deaf ops f161World (by decide) h
  rw [h1, h2]; decide

/-! ## F162 -/

/-- a second `closed()` while the first one waits, or after the first one was dropped, on an OPEN connection -/
theorem f162_counterexample :
    ((World.init.step (.closedPoll 1)).1.step (.closedPoll 2)).2 = .panic ∧
    (((World.init.step (.closedPoll 1)).1.step (.closedDrop 1)).1.step (.closedPoll 2)).2 = .panic := by
  decide

/-- on a closed connection the second call returns the error (no panic) -/
theorem f162_no_panic_once_closed :
    (((World.init.step (.closedPoll 1)).1.step .close).1.step (.closedPoll 2)).2 = .err .locallyClosed := by
  decide

end Compio.Cex.C16
