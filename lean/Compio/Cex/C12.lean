import Compio.Model.SyncStream
import Compio.Model.PollAdapter
namespace Compio.Cex.C12
end Compio.Cex.C12
