/-
C12 — machine-checked witnesses of the defects found in the adapters (the model is the code as it
is; each witness is replayed on the real code by harness/pure/src/bin/c12.rs, see notes/C12.md).
-/
import Compio.Lemmas.SyncStream
import Compio.Lemmas.PollAdapter

namespace Compio.Cex.C12
open Compio Compio.SyncStream

/-- 32 bytes `1..32` -/
def src32 : Bytes := (List.range 32).map fun i => UInt8.ofNat (i + 1)

/-- **F11a** `SyncStream::with_limits(8, 10, ..)`: two `fill_read_buf` calls buffer 16 bytes although
`max_buffer_size = 10` (the limit test is `len >= max` *before* growing by `base_capacity`); only
the third call reports `OutOfMemory`. -/
theorem sync_read_limit_exceeded_counterexample :
    let res := run (State.new 8 10 [.d src32] []) [.fill 9, .fill 9, .fill 9]
    res.2 = [.num 8, .num 8, .err .oom] ∧ res.1.r.buf.data.length = 16 ∧ 10 < res.1.r.buf.data.length := by
  decide

/-- **F11b** `base_capacity = 0`: the first `fill_read_buf` offers the inner stream a zero-length
buffer, takes the resulting `Ok(0)` for end of file and sets `eof`; `read` then reports EOF although
the inner stream still holds all its data and never signalled its end — silent data loss. -/
theorem sync_base0_spurious_eof_counterexample :
    let res := run (State.new 0 64 [.d [1, 2, 3]] []) [.read 3, .fill 9, .read 3, .fillbuf]
    res.2 = [.err .wb, .num 0, .bytes [], .bytes []] ∧
    res.1.r.eof = true ∧ res.1.r.innerEof = false ∧ res.1.r.delivered = [] ∧ content res.1.r.script = [1, 2, 3] := by
  decide

/-- **F11c** after a flush that failed half-way the write buffer's `Vec` keeps the bytes already
sent (`pos = 3`), and `write` tests only the unsent part against the limit: the `Vec` grows to 7
bytes with `max_buffer_size = 4`. (The unsent part, 4 bytes, respects the limit.) -/
theorem sync_write_vec_exceeds_limit_counterexample :
    let res := run (State.new 16 4 [] [.w 3, .e]) [.write [1, 2, 3, 4], .wflush 9, .write [5, 6, 7]]
    res.2 = [.num 4, .err .other, .num 3] ∧ res.1.w.buf.data.length = 7 ∧ res.1.w.buf.pos = 3 ∧
    res.1.w.max < res.1.w.buf.data.length := by
  decide

section Async
open Compio.PollAdapter

/-- **F15** stale flush future, single task, no cancellation. The boxed `flush_write_buf()` future
gives the buffer back before it awaits the inner `flush()`. While it is suspended there a
`poll_write` is accepted into the (empty) buffer without polling the future; the following
`poll_flush` merely resumes the stale future and returns `Ready(Ok(()))` with the byte `0x85`
still buffered: "flushed" data that never reached the inner stream. -/
theorem async_stale_flush_counterexample :
    let res := PollAdapter.run (PollAdapter.State.new 4 64 [] [.p, .w 100, .p, .w 100, .w 100])
      [.pw 0 [0x81, 0x82, 0x83, 0x84], .pw 0 [0x85], .pw 0 [0x85], .pw 0 [0x85], .pfl 0]
    res.2 = [.num 4, .pending, .pending, .num 1, .unit] ∧
    res.1.aw.w.sent = [0x81, 0x82, 0x83, 0x84] ∧ res.1.aw.w.accepted = [0x81, 0x82, 0x83, 0x84, 0x85] ∧
    res.1.aw.w.buf.avail = [0x85] := by
  decide

/-- **F15, close variant**: `poll_close` sees `write_future.is_some()`, resumes the stale future
and then shuts the inner stream down (`Io.s`) while two accepted bytes are still in the buffer. -/
theorem async_stale_close_counterexample :
    let res := PollAdapter.run (PollAdapter.State.new 8 64 [] [.w 100, .p, .w 100])
      [.pw 0 [0x81, 0x82, 0x83], .pfl 0, .pw 1 [0x84, 0x85], .pcl 0]
    res.2 = [.num 3, .pending, .num 2, .unit] ∧ res.1.aw.w.log = [.f, .s] ∧ res.1.aw.closed = true ∧
    res.1.aw.w.sent = [0x81, 0x82, 0x83] ∧ res.1.aw.w.buf.avail = [0x84, 0x85] := by
  decide

/-- **F15, consequence**: with the shutdown future then parked while bytes are buffered, the next
`poll_close` trips the code's own `debug_assert!(self.shutdown_future.is_none())` (a panic in debug
builds; in release builds a flush would run concurrently with the in-flight shutdown). -/
theorem async_stale_close_debug_assert_counterexample :
    (PollAdapter.run (PollAdapter.State.new 8 64 [] [.w 100, .p, .w 1, .p])
      [.pw 0 [0x81, 0x82, 0x83], .pfl 0, .pw 1 [0x84, 0x85], .pcl 0, .pcl 0]).2 =
    [.num 3, .pending, .num 2, .pending, .panic] := by
  decide

/-- **F121** `AsyncStream::with_limits(4, 0, ..)`: `poll_write` of one byte never returns (the model's
loop runs out of fuel; `Props.C12.async_max0_poll_write_spins` shows it for every fuel), while
`poll_write` of an empty buffer, `poll_flush` and `poll_close` are fine. -/
theorem async_max0_write_spins_counterexample :
    (PollAdapter.run (PollAdapter.State.new 4 0 [] []) [.pw 0 [], .pfl 0, .pw 0 [0x81]]).2 =
    [.num 0, .unit, .hang] := by
  decide

/-- the run of F15 is exactly what `GuardedRun` excludes -/
theorem async_stale_flush_unguarded :
    ¬ GuardedRun (PollAdapter.State.new 4 64 [] [.p, .w 100, .p, .w 100, .w 100])
      [.pw 0 [0x81, 0x82, 0x83, 0x84], .pw 0 [0x85], .pw 0 [0x85], .pw 0 [0x85], .pfl 0] := by
  decide

end Async

end Compio.Cex.C12
