/-
C15 — machine-checked witnesses of the defects found with the harness (both reproduced on the real code,
see notes/C15.md and known-findings.json F150 / F151) and of one latent defect of the model level.
All runs are the functions the driver executes (`TlsSys.run` over `Sys.init`).
-/
import Compio.Model.TlsSys
import Compio.Lemmas.WsShim

namespace Compio.Cex.C15
open Compio.TlsNet Compio.TlsShim Compio.TlsSys

/-- a three-flight handshake (client hello, server flight, client finished) -/
def tape3 : List Side := [.client, .client, .server, .server, .server, .client]

def sched (buffering astream : Bool) (dw dfh df : Nat) : Sched :=
  { lim := 4, buffering, astream, dr := 0, dw, dfh, df, fuel := 400 }

def hasAlert (l : List Cell) : Bool := l.any (· == Cell.alert)

/-! ### F150: native-tls back-end, `poll_close` over a buffering transport whose flush pends once -/

def f150 : Sys := (run 200 (Sys.init (sched true false 0 0 1) false tape3 2 [.closeInit] [.closeResp])).1

/-- the handshake completes, the client's `close()` returns `Ok` (step result `running 1` = past the close,
inside the read), and then nobody can run any more -/
theorem f150_close_stuck :
    (run 200 (Sys.init (sched true false 0 0 1) false tape3 2 [.closeInit] [.closeResp])).2 = .stuck
    ∧ f150.c.res = [.ok 0, .running 1] ∧ f150.s.res = [.ok 0, .running 0] := by decide

/-- ... because the close_notify is still in the client's transport buffer: the `Pending` of the flush that
`SSL_shutdown` issues was ignored, and `poll_close` neither retries it nor closes the transport -/
theorem f150_alert_stranded :
    hasAlert f150.tpC.wbuf.toList = true ∧ hasAlert f150.c2s.q.toList = false ∧ f150.c2s.closed = false
    ∧ f150.tpC.cf = 1 := by decide

/-- the same transport with a flush that never pends: clean close -/
theorem f150_guard_flush_ready :
    let r := run 200 (Sys.init (sched true false 0 0 0) false tape3 2 [.closeInit] [.closeResp])
    r.2 = .done ∧ r.1.c.res = [.ok 0, .ok 0] ∧ r.1.s.res = [.ok 0, .ok 0] := by decide

/-- the same defect over compio's `AsyncStream` (always buffering) when the inner write pends once -/
theorem f150_astream :
    let r := run 200 (Sys.init (sched false true 1 0 0) false tape3 2 [.closeInit] [.closeResp])
    r.2 = .stuck ∧ r.1.c.res = [.ok 0, .running 1] ∧ hasAlert r.1.tpC.wbuf.toList = true
    ∧ r.1.tpC.flushing = true := by decide

/-! ### F151: rustls back-end (futures-rustls `Stream::handshake`), a `Pending` flush is dropped -/

def f151 : Sys := (run 200 (Sys.init (sched true false 0 1 0) true tape3 2 [] [])).1

theorem f151_handshake_stuck :
    (run 200 (Sys.init (sched true false 0 1 0) true tape3 2 [] [])).2 = .stuck
    ∧ f151.c.res = [.running 0] ∧ f151.s.res = [.running 0] := by decide

/-- the client hello sits in the client's transport buffer behind the one flush call that returned `Pending` -/
theorem f151_hello_stranded :
    f151.tpC.wbuf.toList = [Cell.hs, Cell.hs] ∧ f151.c2s.q.toList = [] ∧ f151.tpC.cf = 1 := by decide

theorem f151_guard_flush_ready :
    let r := run 200 (Sys.init (sched true false 0 0 0) true tape3 2 [] [])
    r.2 = .done ∧ r.1.c.res = [.ok 0] ∧ r.1.s.res = [.ok 0] := by decide

/-! ### latent (model level only, not reachable with a real TLS handshake polled in lockstep):
`handshake()` returns `StartedHandshake::Done` without `finish_handshake()` and without the flush when the
engine finishes inside the first poll. With a two-flight "handshake" the server's flight is never flushed
and `handshaken` stays false, so every later `poll_flush` is a no-op. -/

def tape2 : List Side := [.client, .server]

theorem done_path_unflushed :
    let r := run 200 (Sys.init (sched true false 0 0 0) false tape2 0 [] [])
    r.2 = .stuck ∧ r.1.s.res = [.ok 0] ∧ r.1.c.res = [.running 0]
    ∧ r.1.tpS.wbuf.toList = [Cell.hs] ∧ r.1.s2c.q.toList = [] := by decide

/-! ### latent (model level only): the double flush of compio-ws restarts the protocol flush on every poll

`WebSocketStream::poll_flush` is `ready!(inner.poll_flush(cx))` followed by `ready!(stream.poll_flush(cx))`,
and the first of the two is started afresh on every poll. Over a transport on which *every* flush call returns
`Pending` at least once before it is performed (`df ≥ 1`), the two can never be `Ready` within the same poll:
the flush never completes although every `Pending` has its wake-up - a spin. The transports compio-ws admits
(`PollFd`, `TlsStream<PollFd>`) complete a flush with nothing to write immediately (`df = 0`), so this cannot
be reproduced on the real code; the positive theorems of `Props/C15` are conditional on `Ready` and hold for
every schedule. -/

open Compio.WsShim in
theorem ws_flush_never_ready_of_flush_delay (sc : WSched) (w : Ws) (v : WView) (hdf : 1 ≤ sc.df) :
    (WsShim.pollFlush sc w v).2.2 ≠ .ready () := by
  intro h
  unfold WsShim.pollFlush at h
  cases he : engFlush sc w.e v with
  | mk e1 x =>
    obtain ⟨v1, r1⟩ := x
    rw [he] at h
    cases r1 with
    | pending p => simp at h
    | ready u =>
      cases u
      simp only at h
      -- the flush inside the protocol flush has just been performed: its counter is back at 0
      have hcf : v1.cf = 0 := by
        unfold engFlush at he
        simp only at he
        cases hw : writeOut sc w.e.queueReply.out v with
        | mk rest y =>
          obtain ⟨v0, r0⟩ := y
          rw [hw] at he
          cases r0 with
          | pending p => simp at he
          | ready u =>
            cases u
            simp only at he
            cases hf : sFlush sc v0 with
            | mk v2 r2 =>
              rw [hf] at he
              cases r2 with
              | pending p => simp at he
              | ready u =>
                simp only [Prod.mk.injEq] at he
                rw [← he.2.1]
                unfold sFlush at hf
                split at hf
                · simp at hf
                · simp only [Prod.mk.injEq] at hf
                  rw [← hf.1]
      unfold sFlush at h
      simp [hcf, show 0 < sc.df by omega] at h

end Compio.Cex.C15
