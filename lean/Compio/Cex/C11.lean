/-
C11 — machine-checked witnesses of the defects found on the pinned tree (all reproduced on the real
code by harness/pure/src/bin/c11.rs; recorded in known-findings.json, not repaired). Each witness
runs the very functions the model driver runs; the positive theorems in Props/C11 carry the
corresponding explicit guard.
-/
import Compio.Lemmas.IoLoops

namespace Compio.Cex.C11
open Compio Compio.Io

/-- "hello" -/
def hello : Bytes := [104, 101, 108, 108, 111]

/-- an honest script: five positive transfers and one to spare -/
def honest6 : List Outcome := [.ok 100, .ok 100, .ok 100, .ok 100, .ok 100, .ok 100]

/-! ## F12 — `BufReader::with_capacity(0)`: silent truncation -/

/-- the scripted reader is live: it never reports a premature end -/
theorem f12_inner_is_live : (Rd.script hello honest6).Live := by
  refine ⟨?_, by decide⟩
  intro o ho
  simp [honest6] at ho
  exact Or.inr ⟨100, by omega, ho⟩

/-- through a zero-capacity `BufReader`, `read_to_end` answers `Ok(0)` and delivers nothing,
although the inner reader still holds all five bytes -/
theorem f12_bufreader_cap0_counterexample :
    readToEnd 40 (.buf (.script hello honest6) (Buffer.withCapacity 0)) ⟨[], 0⟩ =
      (.ok 0, .buf (.script hello (honest6.drop 1)) (Buffer.withCapacity 0), ⟨[], 32⟩) := by decide

/-- `read_exact` through it reports `UnexpectedEof` with the data still there -/
theorem f12_read_exact_counterexample :
    (readExact 40 (.buf (.script hello honest6) (Buffer.withCapacity 0)) ⟨[], 5⟩).1 = .err .unexpectedEof := by
  decide

/-- with capacity 1 the same call delivers everything -/
theorem f12_cap1_delivers :
    (readToEnd 40 (.buf (.script hello honest6) (Buffer.withCapacity 1)) ⟨[], 0⟩).1 = .ok 5 ∧
    (readToEnd 40 (.buf (.script hello honest6) (Buffer.withCapacity 1)) ⟨[], 0⟩).2.2.data = hello := by
  decide

/-! ## F17 — `BufWriter::write` reports an error after it has taken the bytes -/

/-- "abcdefgh" -/
def abc8 : Bytes := [97, 98, 99, 100, 101, 102, 103, 104]

/-- one `write` on a `BufWriter` of capacity 4 over a writer that answers `Interrupted` once:
the call returns `Interrupted`, yet four bytes sit in the buffer -/
theorem f17_write_err_after_buffering :
    bufWrite (.script [] [.intr, .ok 100] 0 0) (Buffer.withCapacity 4) abc8 =
      (.err .interrupted, .script [] [.ok 100] 0 0, ⟨[97, 98, 99, 100], 4, 0⟩) := by decide

/-- `write_all` retries on `Interrupted` with the same data: "abcd" reaches the inner writer twice -/
theorem f17_bufwriter_duplicates_counterexample :
    writeAll 40 (.buf (.script [] [.intr, .ok 100, .ok 100, .ok 100, .ok 100] 0 0) (Buffer.withCapacity 4)) abc8 =
      (.ok (), .buf (.script ([97, 98, 99, 100] ++ abc8) [.ok 100] 0 0) ⟨[], 4, 0⟩) := by decide

/-- without the interruption the same call delivers the data once -/
theorem f17_without_interruption :
    writeAll 40 (.buf (.script [] [.ok 100, .ok 100, .ok 100, .ok 100] 0 0) (Buffer.withCapacity 4)) abc8 =
      (.ok (), .buf (.script abc8 [.ok 100, .ok 100] 0 0) ⟨[], 4, 0⟩) := by decide

/-! ## F18 — `copy_with_size(.., 0)` copies nothing -/

theorem f18_copy_size0_counterexample :
    copy 40 (.script hello honest6) (.base (.script [] honest6 0 0)) 0 =
      (.ok 0, .script hello (honest6.drop 1), .base (.script [] honest6 1 1)) := by decide

theorem f18_copy_size1_delivers :
    (copy 40 (.script hello honest6) (.base (.script [] honest6 0 0)) 1).1 = .ok 5 := by decide

/-! ## F19 — in-memory vectored read into a buffer whose initialised part is not a prefix -/

/-- `[Vec::with_capacity(4), vec![1,2,3,4]]`, reading "abc": `Ok(3)`, but the first member stays empty -/
theorem f19_vectored_read_lost_counterexample :
    memReadVectored [97, 98, 99] (VS.plain [MBuf.ofData [] 4, MBuf.ofData [1, 2, 3, 4] 4]) =
      (.ok 3, VS.plain [⟨[97, 98, 99], 0, 4⟩, MBuf.ofData [1, 2, 3, 4] 4]) := by decide

/-- ... and the visible content of that member is empty -/
theorem f19_first_member_empty : (⟨[97, 98, 99], 0, 4⟩ : MBuf).data = [] := by decide

/-- `read_vectored_exact` from a cursor over "ab" into the same shape panics (slice index in
`VectoredSlice::iter_slice`) instead of reporting `UnexpectedEof` -/
theorem f19_read_vectored_exact_panics :
    (readVectoredExact 40 (.cursor [97, 98] 0) [MBuf.ofData [] 4, MBuf.ofData [1, 2, 3, 4] 4]).1 = .panic := by
  decide

/-! ## F20 — `copy` does not retry `Interrupted` on its final flush -/

theorem f20_copy_flush_interrupted_counterexample :
    (copy 40 (.mem [180]) (.buf (.script [] [.intr, .ok 2, .ok 3] 0 0) (Buffer.withCapacity 2)) 1).1 =
      .err .interrupted := by decide

theorem f20_without_interruption :
    (copy 40 (.mem [180]) (.buf (.script [] [.ok 2, .ok 3] 0 0) (Buffer.withCapacity 2)) 1).1 = .ok 1 := by
  decide

end Compio.Cex.C11
