/- C08 — machine-checked witnesses of defects / excluded points -/
import Compio.Lemmas.BufShape
import Compio.Model.DirUtil

namespace Compio.Cex.C08

open Compio Compio.BufShape Compio.FileRef

def fresh5 : Buf := Buf.ofRoot ⟨[0, 1, 2, 3, 4], 0⟩

/-- "hello world!" -/
def hello : Bytes := [104, 101, 108, 108, 111, 32, 119, 111, 114, 108, 100, 33]

/-- F2 (repaired in /repo e6d0541): had the vectored read handed the *initialised* ranges (`sys_slices()`)
to the OS, two `Vec::with_capacity(5)` on a 12-byte file would read 0 bytes; with the writable ranges 10. -/
theorem f2_init_kind_reads_nothing_counterexample :
    (readVecOp .init [fresh5, fresh5] hello 0).1 = 0 ∧ (readVecOp .writable [fresh5, fresh5] hello 0).1 = 10 := by
  decide

/-- F15 reached through file reads (known finding): `advance_vec_to(n)` is a no-op when `n` does not exceed
the members' current total length. Reading 2 bytes into [empty Vec with capacity 3, full 2-byte Vec]: the
OS stores both bytes in the first member, nothing is recorded, and the visible content is the stale second
member — the data read is not a prefix of what the caller sees. The positive theorem
(`read_vectored_law`, visible content = data) is therefore stated for fresh members. -/
theorem f15_vectored_read_not_recorded_counterexample :
    let bs := [Buf.ofRoot ⟨[0, 0, 0], 0⟩, Buf.ofRoot ⟨[7, 8], 2⟩]
    let res := readVecOp .writable bs [1, 2] 0
    res.1 = 2 ∧ windowVec res.2 = [1, 2, 0, 7, 8] ∧ visibleVec res.2 = [7, 8] ∧
      res.2.map (·.root.len) = [0, 2] := by
  decide

/-- the vectored mapping can also SHRINK a member (the single-buffer `advance_to` never does): 4 bytes into
[capacity 3 holding 1 byte, capacity 3 holding 2 bytes] records lengths 3 and 1 -/
theorem vectored_set_len_shrinks_member_counterexample :
    let bs := [Buf.ofRoot ⟨[5, 0, 0], 1⟩, Buf.ofRoot ⟨[7, 8, 0], 2⟩]
    (readVecOp .writable bs [1, 2, 3, 4] 0).2.map (·.root.len) = [3, 1] := by
  decide

/-- C08a (known finding): sequential reads through `AsyncFd` on a regular file. The io_uring entry carries
offset 0 whatever the file position is, so the second 5-byte read of "hello world!" returns "hello" again,
where `read(2)` continues at position 5; the polling driver fails with `EPERM`. -/
theorem c08a_seq_read_restarts_at_zero_counterexample :
    seqOffset .iour 5 = .ok 0 ∧ seqOffset .poll 5 = .error EPERM ∧
    (readOp .writable fresh5 hello 0).2.visible = [104, 101, 108, 108, 111] ∧
    pread hello 5 5 = [32, 119, 111, 114, 108] := by
  refine ⟨rfl, rfl, by decide, by decide⟩

def h0 : Handle := ⟨some 0, true, true, 0⟩
def s0 : St := { inodes := [(0, hello)] }

/-- C08c (known finding): position `u64::MAX` is `-1`; `pread`/`pwrite` (and the polling driver) answer
`EINVAL`, io_uring reads/writes at the file position and advances it -/
theorem c08c_offset_minus_one_counterexample :
    readView .poll s0 h0 minusOne 4 false = .error EINVAL ∧
    readView .iour s0 h0 minusOne 4 false = .ok (hello, 0, true) ∧
    (writeAtPos .poll s0 1 h0 0 minusOne [1]).2 = "err 22" ∧
    (writeAtPos .iour s0 1 h0 0 minusOne [1]).2 = "ok 1" := by
  refine ⟨by rfl, by rfl, by rfl, by rfl⟩

/-- C08b (known finding): a single 0-byte read of a directory handle: `EISDIR` from `pread` and the polling
driver, 0 from io_uring -/
theorem c08b_zero_read_of_directory_counterexample :
    readView .poll s0 ⟨none, true, false, 0⟩ 0 0 false = .error EISDIR ∧
    readView .iour s0 ⟨none, true, false, 0⟩ 0 0 false = .ok ([], 0, false) := by
  refine ⟨by rfl, by rfl⟩

/-- seed C08-b (why `custom_flags` must mask): without the `.difference(OFlags::ACCMODE)` (mask list `[]`),
`read(true).custom_flags(O_WRONLY|O_NOFOLLOW)` opens write-only and `write(true).custom_flags(O_RDWR|O_NOFOLLOW)`
yields access mode 3 -/
theorem unmasked_custom_flags_change_access_mode_counterexample :
    flagWord [.CLOEXEC, .RDONLY] (keepCustom [] (0o400000 + 1)) % 4 = 1 ∧
    flagWord [.CLOEXEC, .WRONLY] (keepCustom [] (0o400000 + 2)) % 4 = 3 := by
  decide

/-- seed C08-2b (why the length derivation is in the table): with a plain cast a fresh buffer of capacity 2^32
asks the OS for 0 bytes — a false end of file with 14 bytes pending — and capacity 2^32+5 for at most 5 -/
theorem cast_length_false_eof_counterexample :
    hugeRead .cast (2 ^ 32) hello = [] ∧ (hugeRead .cast (2 ^ 32 + 5) hello).length = 5 ∧
    hugeRead .saturating (2 ^ 32) hello = hello := by
  decide

/-- seed C08-3a (why the arms of `create_dir_all` are regenerated): with the re-check arm replaced by
`Err(e) if e.kind() == AlreadyExists => return Ok(())`, `create_dir_all` answers `Ok` for an existing regular
file and for a dangling symlink — nothing is a directory afterwards -/
theorem already_exists_is_not_is_dir_counterexample :
    let seeded : List Gen.DirBuilder.Arm :=
      [⟨true, .always, .retOk⟩, ⟨false, .kindEq 2, .fall⟩, ⟨false, .kindEq 17, .retOk⟩, ⟨false, .always, .retErr⟩]
    let ns : DirUtil.Ns := { ents := [(["f"], .file 0), (["dang"], .link 1 ["nowhere"])], nextIno := 2 }
    (DirUtil.cda DirUtil.Ns.ops seeded Gen.DirBuilder.secondAttempt 2 ns ["f"]).2 = .ok () ∧
    DirUtil.Ns.isDir ns ["f"] = false ∧
    (DirUtil.cda DirUtil.Ns.ops seeded Gen.DirBuilder.secondAttempt 2 ns ["dang"]).2 = .ok () ∧
    (DirUtil.cda DirUtil.Ns.ops Gen.DirBuilder.firstAttempt Gen.DirBuilder.secondAttempt 2 ns ["f"]).2
      = .error FileRef.EEXIST := by
  refine ⟨by rfl, by rfl, by rfl, by rfl⟩

/-- F080 (known finding): the polling driver registers both ends of a splice with epoll, which refuses regular
files: every splice from or to a regular file fails with `EPERM` there, while io_uring (and `splice(2)`) move
the bytes -/
theorem f080_poll_splice_regular_file_counterexample :
    let s : St := { inodes := [(0, hello)], handles := [(1, ⟨some 0, true, true, 0⟩)],
                    pipes := [(1, ⟨[], true, true, false, 0, []⟩)] }
    (St.splice .poll .bothEnds s (.file 1) (.pipe 1) 5 none none).2 = .err EPERM ∧
    (St.splice .iour .bothEnds s (.file 1) (.pipe 1) 5 none none).2 = .ok 5 ∧
    (St.splice .poll .pollableEnds s (.file 1) (.pipe 1) 5 none none).2 = .ok 5 := by
  refine ⟨by rfl, by rfl, by rfl⟩

end Compio.Cex.C08
