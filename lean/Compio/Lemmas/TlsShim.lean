/-
Invariants and the progress measure of the native-tls shim model (`Model/TlsShim.lean`) over the plain
scheduled transport, up to the specification of one engine call `sslDoHandshake`.
-/
import Compio.Lemmas.TlsAlign

namespace Compio.TlsShim
open Compio.TlsNet

/-- what does not change while `me` is being polled -/
structure Peer where
  tape : List Side
  /-- cells the peer has written but not flushed yet (they follow `rx.q`) -/
  held : List Cell

/-- facts about the polled endpoint alone -/
structure Local (sc : Sched) (o : Ossl) (v : View) : Prop where
  lim : 1 ≤ sc.lim
  direct : sc.astream = false
  ctrok : CtrOk sc v.tp
  open_tx : v.tx.closed = false
  open_rx : v.rx.closed = false
  clean : o.out = [] ∧ o.close = .none ∧ o.rcvdClose = false
  nobuf : sc.buffering = false → v.tp.wbuf.toList = []

/-- the shim invariant during the handshake: nothing written is unflushed unless `written` says so -/
structure Hs (o : Ossl) (v : View) : Prop where
  nohs : o.handshaken = false
  early : v.tp.hsDone = false
  flushed : o.written = false → v.tp.wbuf.toList = []

/-- the cells in flight in both directions and the two tapes -/
structure Link (o : Ossl) (v : View) (p : Peer) (a b a' b' : Nat) : Prop where
  tx : v.txs = hsN a ++ postN b
  txp : o.tape ≠ [] → b = 0
  rx : v.rxs ++ p.held = hsN a' ++ postN b'
  rxp : p.tape ≠ [] → b' = 0
  align : Align o.me o.tape p.tape a a'

def b2n (b : Bool) : Nat := if b then 1 else 0

/-- the part of the progress measure that lives in the engine and the endpoint (see `Props/C15.lean`) -/
def mainPot (o : Ossl) (v : View) : Nat :=
  3 * (o.tape.length + o.post) + v.tp.wbuf.length + b2n o.written

def S0 (sc : Sched) (o : Ossl) (v : View) : Nat :=
  2 * K sc * mainPot o v + ctr sc v.tp + K sc * b2n v.wake

theorem K_pos (sc : Sched) : 1 ≤ K sc := by unfold K; omega
theorem dr_lt_K (sc : Sched) : sc.dr < K sc := by unfold K; omega
theorem dw_lt_K (sc : Sched) : sc.dw < K sc := by unfold K; omega

theorem b2n_le (b : Bool) : b2n b ≤ 1 := by cases b <;> simp [b2n]

/-- how the peer's registration evolves while `me` runs: a wake-up is never taken back, and as long as the
peer has not been woken a registered reader stays registered and sees no new cells -/
def WakeRel (v v' : View) : Prop :=
  (v.wake = true → v'.wake = true) ∧
  (v'.wake = false → v.tx.rwait = true → v'.tx.q.toList = v.tx.q.toList ∧ v'.tx.rwait = true)

theorem WakeRel.refl (v : View) : WakeRel v v := ⟨id, fun _ h => ⟨rfl, h⟩⟩

theorem WakeRel.trans {a b c : View} (h1 : WakeRel a b) (h2 : WakeRel b c) : WakeRel a c := by
  refine ⟨fun h => h2.1 (h1.1 h), fun hc ha => ?_⟩
  have hb : b.wake = false := by
    cases hbw : b.wake with
    | false => rfl
    | true => have := h2.1 hbw; simp [this] at hc
  obtain ⟨e1, r1⟩ := h1.2 hb ha
  obtain ⟨e2, r2⟩ := h2.2 hc r1
  exact ⟨e2.trans e1, r2⟩

/-- an operation that touches neither the tx pipe nor the wake flag -/
theorem WakeRel.of_eq {v v' : View} (h1 : v'.tx = v.tx) (h2 : v'.wake = v.wake) : WakeRel v v' := by
  refine ⟨fun h => by rw [h2]; exact h, fun _ h => ?_⟩
  rw [h1]; exact ⟨rfl, h⟩

theorem WakeRel.pushTx (v : View) (cs : List Cell) : WakeRel v (pushTx v cs) := by
  rcases pushTx_wake v cs with ⟨_, h⟩ | ⟨_, h1, h2⟩
  · rw [h]; exact WakeRel.refl v
  · refine ⟨fun h => by rw [h2, h]; rfl, fun hw hr => ?_⟩
    rw [h2, hr] at hw; simp at hw

/-! ### the three BIO callbacks during the handshake -/

/-- outcome of `bioWrite` of `n ≥ 1` equal cells during the handshake -/
theorem bioWrite_hs (sc : Sched) (o : Ossl) (v : View) (c : Cell) (n : Nat)
    (hl : Local sc o v) (hctx : o.ctx = true) (hn : 1 ≤ n) :
    -- delayed
    (v.tp.cw < sc.dw ∧ bioWrite sc o v (List.replicate n c) =
      (o, { v with tp := { v.tp with cw := v.tp.cw + 1 }, own := true }, .wouldBlock .self)) ∨
    -- performed
    (∃ j v', 1 ≤ j ∧ j ≤ n ∧ j ≤ sc.lim ∧ (j = n ∨ j = sc.lim) ∧
      bioWrite sc o v (List.replicate n c) = ({ o with written := true }, v', .ok j) ∧
      v'.txs = v.txs ++ List.replicate j c ∧ v'.rx = v.rx ∧ v'.own = v.own ∧ v'.tx.closed = false ∧
      v'.tp.cr = v.tp.cr ∧ v'.tp.cf = v.tp.cf ∧ v'.tp.cw = 0 ∧ v'.tp.hsDone = v.tp.hsDone ∧
      v.tp.cw = sc.dw ∧
      v'.tp.wbuf.length ≤ v.tp.wbuf.length + j ∧
      (sc.buffering = false → v'.tp.wbuf.toList = []) ∧
      WakeRel v v') := by
  have hd := hl.direct
  have ⟨_, hcw, _⟩ := hl.ctrok
  unfold bioWrite ioWrite tWrite
  simp only [hctx, hd, Bool.not_true, Bool.false_eq_true, if_false]
  by_cases hlt : v.tp.cw < sc.dw
  · left; simp [hlt]
  · right
    have hcw' : v.tp.cw = sc.dw := by omega
    have hne : (List.replicate n c).isEmpty = false := by
      cases n with
      | zero => omega
      | succ k => simp [List.replicate]
    have htake : (List.replicate n c).take sc.lim = List.replicate (min sc.lim n) c := by
      simp [List.take_replicate]
    have hlim := hl.lim
    refine ⟨min sc.lim n, ?_⟩
    simp only [hlt, if_false, hne, hl.open_tx, htake, List.length_replicate]
    by_cases hb : sc.buffering = true
    · simp only [hb, if_true]
      refine ⟨_, by omega, by omega, by omega, by omega, rfl, ?_⟩
      simp [View.txs, Q.length_eq, hcw', hl.open_tx]
      exact WakeRel.of_eq rfl rfl
    · have hb' : sc.buffering = false := by simpa using hb
      simp only [hb', Bool.false_eq_true, if_false]
      refine ⟨_, by omega, by omega, by omega, by omega, rfl, ?_⟩
      have h1 := pushTx_txs { v with tp := { v.tp with cw := 0 } } (List.replicate (min sc.lim n) c)
      have h2 := pushTx_other { v with tp := { v.tp with cw := 0 } } (List.replicate (min sc.lim n) c)
      have hnb := hl.nobuf hb'
      simp only at h1 h2
      obtain ⟨h2a, h2b, h2c, h2d⟩ := h2
      refine ⟨?_, h2b, h2c, ?_, ?_, ?_, ?_, ?_, hcw', ?_, ?_, ?_⟩
      · simp [View.txs, h1, h2a, hnb]
      · rw [h2d]; exact hl.open_tx
      · rw [h2a]
      · rw [h2a]
      · rw [h2a]
      · rw [h2a]
      · rw [h2a]; simp
      · intro _; rw [h2a]; exact hnb
      · exact WakeRel.trans (b := { v with tp := { v.tp with cw := 0 } }) (WakeRel.of_eq rfl rfl) (WakeRel.pushTx _ _)

/-- the transport flush during the handshake (`dfh` applies) -/
theorem ioFlush_hs (sc : Sched) (o : Ossl) (v : View) (hl : Local sc o v) (he : v.tp.hsDone = false) :
    (v.tp.cf < sc.dfh ∧ ioFlush sc v =
      ({ v with tp := { v.tp with cf := v.tp.cf + 1 }, own := true }, .pending .self)) ∨
    (∃ v', ioFlush sc v = (v', .ready ()) ∧ v.tp.cf = sc.dfh ∧
      v'.txs = v.txs ∧ v'.tp.wbuf.toList = [] ∧ v'.tp.wbuf.length = 0 ∧ v'.rx = v.rx ∧ v'.own = v.own ∧
      v'.tx.closed = v.tx.closed ∧
      v'.tp.cr = v.tp.cr ∧ v'.tp.cw = v.tp.cw ∧ v'.tp.cf = 0 ∧ v'.tp.hsDone = v.tp.hsDone ∧ WakeRel v v') := by
  have hd := hl.direct
  have ⟨_, _, hcf⟩ := hl.ctrok
  have hfd : flushDelay sc v.tp = sc.dfh := by simp [flushDelay, he]
  rw [hfd] at hcf
  unfold ioFlush tFlush
  simp only [hd, Bool.false_eq_true, if_false, hfd]
  by_cases hlt : v.tp.cf < sc.dfh
  · left; simp [hlt]
  · right
    simp only [hlt, if_false]
    refine ⟨_, rfl, by omega, ?_⟩
    unfold drain
    by_cases hw : v.tp.wbuf.isEmpty = true
    · have hw' := (Q.isEmpty_iff _).1 hw
      simp only [hw, if_true]
      refine ⟨by simp [View.txs], hw', by simp [Q.length_eq, hw'], ?_⟩
      simp only [true_and]
      exact WakeRel.of_eq rfl rfl
    · simp only [hw, Bool.false_eq_true, if_false]
      have h1 := pushTx_txs { v with tp := { v.tp with cf := 0, wbuf := Q.empty } } v.tp.wbuf.toList
      have h2 := pushTx_other { v with tp := { v.tp with cf := 0, wbuf := Q.empty } } v.tp.wbuf.toList
      simp only at h1 h2
      obtain ⟨h2a, h2b, h2c, h2d⟩ := h2
      refine ⟨?_, ?_, ?_, h2b, h2c, h2d, ?_, ?_, ?_, ?_, ?_⟩
      · simp [View.txs, h1, h2a]
      · rw [h2a]; simp
      · rw [h2a]; simp [Q.length_eq]
      · rw [h2a]
      · rw [h2a]
      · rw [h2a]
      · rw [h2a]
      · exact WakeRel.trans (b := { v with tp := { v.tp with cf := 0, wbuf := Q.empty } })
          (WakeRel.of_eq rfl rfl) (WakeRel.pushTx _ _)

/-- the transport read -/
theorem ioRead_spec (sc : Sched) (o : Ossl) (v : View) (n : Nat) (hl : Local sc o v) (hn : 1 ≤ n) :
    (v.tp.cr < sc.dr ∧ ioRead sc v n =
      ({ v with tp := { v.tp with cr := v.tp.cr + 1 }, own := true }, .pending .self)) ∨
    (v.tp.cr = sc.dr ∧ v.rx.q.toList = [] ∧ ioRead sc v n =
      ({ v with tp := { v.tp with cr := 0 }, rx := { v.rx with rwait := true } }, .pending .reg)) ∨
    (∃ v' cs, v.tp.cr = sc.dr ∧ ioRead sc v n = (v', .ready cs) ∧ cs ≠ [] ∧
      cs = v.rx.q.toList.take (min sc.lim n) ∧ v'.rx.q.toList = v.rx.q.toList.drop (min sc.lim n) ∧
      v'.rx.closed = v.rx.closed ∧ v'.tx = v.tx ∧ v'.wake = v.wake ∧ v'.own = v.own ∧
      v'.tp = { v.tp with cr := 0 }) := by
  have ⟨hcr, _, _⟩ := hl.ctrok
  unfold ioRead tRead
  by_cases hlt : v.tp.cr < sc.dr
  · left; simp [hlt]
  · right
    have hcr' : v.tp.cr = sc.dr := by omega
    simp only [hlt, if_false]
    by_cases he : v.rx.q.isEmpty = true
    · left
      have he' := (Q.isEmpty_iff _).1 he
      have hn0 : (n == 0) = false := by simp; omega
      simp [he, hl.open_rx, hn0, hcr', he']
    · right
      have he' : v.rx.q.toList ≠ [] := (Q.isEmpty_false_iff _).1 (by simpa using he)
      simp only [he, Bool.false_eq_true, if_false]
      have hlim := hl.lim
      refine ⟨_, _, hcr', rfl, ?_, ?_, ?_, rfl, rfl, rfl, rfl, rfl⟩
      · rw [Q.pop_fst]
        intro h
        have hm : 1 ≤ min sc.lim n := by omega
        cases hq : v.rx.q.toList with
        | nil => exact he' hq
        | cons x xs =>
          rw [hq] at h
          cases hmm : min sc.lim n with
          | zero => omega
          | succ k => rw [hmm] at h; simp at h
      · rw [Q.pop_fst]
      · simp [Q.pop_snd]

/-! ### one engine call -/

theorem pot_step (k m m' c c' w w' d : Nat) (hm : m' + 1 ≤ m) (hc : c' ≤ c + d) (hd : d < k)
    (hw : w' ≤ 1) : 2 * k * m' + c' + k * w' + 1 ≤ 2 * k * m + c + k * w := by
  have h1 : 2 * k * (m' + 1) ≤ 2 * k * m := Nat.mul_le_mul_left _ hm
  have h2 : k * w' ≤ k := by
    have := Nat.mul_le_mul_left k hw; simpa using this
  rw [Nat.mul_add] at h1
  omega

/-- the state in which `sslDoHandshake` runs (and which it maintains): `b'` post-handshake cells of the
peer are in flight towards `me` -/
structure Good (sc : Sched) (p : Peer) (b' : Nat) (o : Ossl) (v : View) : Prop where
  loc : Local sc o v
  hs : Hs o v
  ctx : o.ctx = true
  link : ∃ a b a', Link o v p a b a' b'

theorem bioFlush_hs_noop (sc : Sched) (o : Ossl) (v : View) (hc : o.ctx = true) (hh : o.handshaken = false) :
    bioFlush sc o v = (o, v, .ok ()) := by
  simp [bioFlush, hc, hh]

/-- `own` only ever goes from false to true, and `wake` likewise (inside `WakeRel`) -/
def Mono (v v' : View) : Prop := WakeRel v v' ∧ (v.own = true → v'.own = true)

theorem Mono.refl (v : View) : Mono v v := ⟨WakeRel.refl v, id⟩
theorem Mono.trans {a b c : View} (h1 : Mono a b) (h2 : Mono b c) : Mono a c :=
  ⟨h1.1.trans h2.1, fun h => h2.2 (h1.2 h)⟩

/-- what a call of the engine's handshake function leaves behind -/
structure HsPost (sc : Sched) (p : Peer) (b' : Nat) (o : Ossl) (v : View) (o' : Ossl) (v' : View)
    (r : BioR Unit) : Prop where
  good : Good sc p b' o' v'
  me : o'.me = o.me
  mono : Mono v v'
  meas : o'.tape.length + o'.post ≤ o.tape.length + o.post
  res : match r with
    | .ok () => o'.tape = [] ∧ o'.post = 0 ∧ S0 sc o' v' ≤ S0 sc o v ∧ v'.own = v.own
    | .wouldBlock .self => S0 sc o' v' + 1 ≤ S0 sc o v ∧ v'.own = true
    | .wouldBlock .reg => S0 sc o' v' ≤ S0 sc o v + sc.dr ∧ v'.own = v.own ∧ v'.rx.q.toList = [] ∧
        v'.rx.rwait = true ∧ v'.tp.wbuf.toList = [] ∧ ∃ t, o'.tape = o.me.other :: t
    | .err => False
    | .panic => False

/-- one iteration of the engine's loop, `f` being (the rest of) the loop body: it ends the call, or it
continues from a state that is strictly closer to the end -/
inductive IterF (sc : Sched) (p : Peer) (b' : Nat) (fuel : Nat) (o : Ossl) (v : View)
    (f : Ossl × View × BioR Unit) : Prop where
  | stop (o' : Ossl) (v' : View) (r : BioR Unit)
      (eq : f = (o', v', r)) (post : HsPost sc p b' o v o' v' r)
  | next (o1 : Ossl) (v1 : View)
      (eq : f = sslDoHandshake sc fuel o1 v1)
      (good : Good sc p b' o1 v1) (me : o1.me = o.me) (mono : Mono v v1) (own : v1.own = v.own)
      (dec : S0 sc o1 v1 + 1 ≤ S0 sc o v)
      (meas : o1.tape.length + o1.post < o.tape.length + o.post)

abbrev Iter (sc : Sched) (p : Peer) (b' : Nat) (fuel : Nat) (o : Ossl) (v : View) : Prop :=
  IterF sc p b' fuel o v (sslDoHandshake sc (fuel + 1) o v)

theorem HsPost.after_step {sc : Sched} {p : Peer} {b' : Nat} {o o1 o' : Ossl} {v v1 v' : View} {r : BioR Unit}
    (h : HsPost sc p b' o1 v1 o' v' r) (me : o1.me = o.me) (mono : Mono v v1) (own : v1.own = v.own)
    (dec : S0 sc o1 v1 + 1 ≤ S0 sc o v) (meas : o1.tape.length + o1.post ≤ o.tape.length + o.post) :
    HsPost sc p b' o v o' v' r := by
  refine ⟨h.good, h.me.trans me, mono.trans h.mono, Nat.le_trans h.meas meas, ?_⟩
  have hr := h.res
  cases r with
  | ok u => cases u; simp only at hr ⊢; exact ⟨hr.1, hr.2.1, by omega, hr.2.2.2.trans own⟩
  | wouldBlock pd =>
    cases pd with
    | self => simp only at hr ⊢; exact ⟨by omega, hr.2⟩
    | reg =>
      simp only at hr ⊢
      obtain ⟨h1, h2, h3, h4, h5, t, h6⟩ := hr
      exact ⟨by omega, h2.trans own, h3, h4, h5, t, by rw [← me]; exact h6⟩
  | err => exact hr
  | panic => exact hr

/-- the delayed write: nothing moves, one `Pending` of the budget is used up -/
theorem tick_cw {sc : Sched} {p : Peer} {b' : Nat} {o : Ossl} {v : View} (g : Good sc p b' o v)
    (hlt : v.tp.cw < sc.dw) :
    HsPost sc p b' o v o { v with tp := { v.tp with cw := v.tp.cw + 1 }, own := true } (.wouldBlock .self) := by
  obtain ⟨hl, hh, hc, a, b, a', hk⟩ := g
  refine ⟨⟨⟨hl.lim, hl.direct, ?_, hl.open_tx, hl.open_rx, hl.clean, hl.nobuf⟩, ⟨hh.nohs, hh.early, hh.flushed⟩, hc,
    a, b, a', ⟨hk.tx, hk.txp, hk.rx, hk.rxp, hk.align⟩⟩, rfl, ⟨WakeRel.of_eq rfl rfl, fun _ => rfl⟩, Nat.le_refl _, ?_⟩
  · obtain ⟨h1, h2, h3⟩ := hl.ctrok
    exact ⟨h1, by simp; omega, h3⟩
  · simp only [and_true]
    have ⟨_, h2, _⟩ := hl.ctrok
    simp only [S0, mainPot, ctr, flushDelay]
    omega

theorem length_hsN_postN (a b : Nat) : (hsN a ++ postN b).length = a + b := by simp [hsN, postN]

/-- tape finished, post-handshake cells (session tickets) still to be written -/
theorem iter_post {sc : Sched} {p : Peer} {b' : Nat} (fuel : Nat) {o : Ossl} {v : View} (g : Good sc p b' o v)
    (ht : o.tape = []) (hp : o.post ≠ 0) : Iter sc p b' fuel o v := by
  obtain ⟨hl, hh, hc, a, b, a', hk⟩ := g
  rcases bioWrite_hs sc o v Cell.post o.post hl hc (by omega) with ⟨hlt, heq⟩ | ⟨j, v', hj1, hjn, _, _, heq, htx, hrx, hown, hclosed, hcr, hcf, hcw, hhd, hcwd, hwl, hnb, hwr⟩
  · -- delayed
    refine .stop _ _ _ ?_ (tick_cw ⟨hl, hh, hc, a, b, a', hk⟩ hlt)
    rw [sslDoHandshake]
    simp [ht, hp, heq]
  · -- performed: `j` cells written
    have hgood : Good sc p b' { o with written := true, post := o.post - j } v' := by
      refine ⟨⟨hl.lim, hl.direct, ?_, hclosed, by rw [hrx]; exact hl.open_rx, hl.clean, hnb⟩,
        ⟨hh.nohs, by rw [hhd]; exact hh.early, by simp⟩, hc, a, b + j, a', ⟨?_, by simp [ht], ?_, hk.rxp, hk.align⟩⟩
      · obtain ⟨h1, h2, h3⟩ := hl.ctrok
        refine ⟨by rw [hcr]; exact h1, by rw [hcw]; omega, ?_⟩
        simp only [flushDelay, hhd, hcf] at h3 ⊢; exact h3
      · rw [htx, hk.tx]; simp [hsN, postN, List.append_assoc]
      · simp only [View.rxs, hrx]; exact hk.rx
    have hdec : S0 sc { o with written := true, post := o.post - j } v' + 1 ≤ S0 sc o v := by
      simp only [S0]
      refine pot_step (d := sc.dw) _ _ _ _ _ _ _ ?_ ?_ (dw_lt_K sc) (b2n_le _)
      · simp only [mainPot, ht, List.length_nil, b2n]
        have := b2n_le o.written
        simp only [b2n] at this
        split at this <;> simp <;> omega
      · obtain ⟨h1, h2, h3⟩ := hl.ctrok
        simp only [ctr, flushDelay, hhd, hcr, hcf, hcw, hcwd]
        omega
    refine .next { o with written := true, post := o.post - j } v' ?_ hgood rfl ⟨hwr, fun h => by rw [hown]; exact h⟩ hown hdec ?_
    · have hj0 : j ≠ 0 := by omega
      rw [sslDoHandshake]
      simp only [ht, hp, heq, hj0, if_false]
      by_cases hz : o.post - j = 0
      · simp only [hz, if_true]
        rw [bioFlush_hs_noop sc _ v' (by simpa using hc) (by simpa using hh.nohs)]
      · simp only [hz, if_false]
    · simp only [ht, List.length_nil]; omega

/-- it is my turn on the tape: write (part of) my run -/
theorem iter_write {sc : Sched} {p : Peer} {b' : Nat} (fuel : Nat) {o : Ossl} {v : View} (g : Good sc p b' o v)
    {t : List Side} (ht : o.tape = o.me :: t) : Iter sc p b' fuel o v := by
  obtain ⟨hl, hh, hc, a, b, a', hk⟩ := g
  have hrun : 1 ≤ leadRun o.me o.tape := leadRun_pos t ht
  have hne : o.tape ≠ [] := by rw [ht]; simp
  have hb0 : b = 0 := hk.txp hne
  rcases bioWrite_hs sc o v Cell.hs (leadRun o.me o.tape) hl hc hrun with
    ⟨hlt, heq⟩ | ⟨j, v', hj1, hjn, _, _, heq, htx, hrx, hown, hclosed, hcr, hcf, hcw, hhd, hcwd, hwl, hnb, hwr⟩
  · refine .stop _ _ _ ?_ (tick_cw ⟨hl, hh, hc, a, b, a', hk⟩ hlt)
    rw [sslDoHandshake]
    simp [ht] at heq ⊢
    simp [heq]
  · have hlen := leadRun_le o.me o.tape
    have hgood : Good sc p b' { o with written := true, tape := o.tape.drop j } v' := by
      refine ⟨⟨hl.lim, hl.direct, ?_, hclosed, by rw [hrx]; exact hl.open_rx, hl.clean, hnb⟩,
        ⟨hh.nohs, by rw [hhd]; exact hh.early, by simp⟩, hc, a + j, 0, a',
        ⟨?_, fun _ => rfl, ?_, hk.rxp, hk.align.write hjn hrun⟩⟩
      · obtain ⟨h1, h2, h3⟩ := hl.ctrok
        refine ⟨by rw [hcr]; exact h1, by rw [hcw]; omega, ?_⟩
        simp only [flushDelay, hhd, hcf] at h3 ⊢; exact h3
      · rw [htx, hk.tx, hb0]; simp [hsN, postN]
      · simp only [View.rxs, hrx]; exact hk.rx
    have hdec : S0 sc { o with written := true, tape := o.tape.drop j } v' + 1 ≤ S0 sc o v := by
      simp only [S0]
      refine pot_step (d := sc.dw) _ _ _ _ _ _ _ ?_ ?_ (dw_lt_K sc) (b2n_le _)
      · simp only [mainPot, List.length_drop, b2n]
        have := b2n_le o.written
        simp only [b2n] at this
        split at this <;> simp <;> omega
      · obtain ⟨h1, h2, h3⟩ := hl.ctrok
        simp only [ctr, flushDelay, hhd, hcr, hcf, hcw, hcwd]
        omega
    refine .next { o with written := true, tape := o.tape.drop j } v' ?_ hgood rfl
      ⟨hwr, fun h => by rw [hown]; exact h⟩ hown hdec ?_
    · have hj0 : j ≠ 0 := by omega
      rw [sslDoHandshake]
      simp only [ht] at heq ⊢
      simp only [if_true, heq, hj0, if_false]
      split
      · rw [bioFlush_hs_noop sc _ v' (by simpa using hc) (by simpa using hh.nohs)]
      · rfl
    · simp only [List.length_drop]; omega

/-- an iteration that starts after a preparatory step `(o, v) → (o1, v1)` -/
theorem IterF.after_step {sc : Sched} {p : Peer} {b' fuel : Nat} {o o1 : Ossl} {v v1 : View}
    {f : Ossl × View × BioR Unit} (h : IterF sc p b' fuel o1 v1 f) (me : o1.me = o.me) (mono : Mono v v1)
    (own : v1.own = v.own) (dec : S0 sc o1 v1 + 1 ≤ S0 sc o v)
    (meas : o1.tape.length + o1.post ≤ o.tape.length + o.post) : IterF sc p b' fuel o v f := by
  cases h with
  | stop o' v' r eq post => exact .stop o' v' r eq (post.after_step me mono own dec meas)
  | next o2 v2 eq good me2 mono2 own2 dec2 meas2 =>
    exact .next o2 v2 eq good (me2.trans me) (mono.trans mono2) (own2.trans own) (by omega) (by omega)

/-- the loop body when it is the peer's turn on the tape -/
def readBody (sc : Sched) (fuel : Nat) (o : Ossl) (v : View) : Ossl × View × BioR Unit :=
  match bioRead sc o v (leadRun o.me.other o.tape) with
  | (o, v, .ok cs) =>
    if cs.isEmpty || cs.any (· != Cell.hs) then (o, v, .err)
    else sslDoHandshake sc fuel { o with tape := o.tape.drop cs.length } v
  | (o, v, .wouldBlock p) => (o, v, .wouldBlock p)
  | (o, v, .err) => (o, v, .err)
  | (o, v, .panic) => (o, v, .panic)

theorem sslDoHandshake_read (sc : Sched) (fuel : Nat) (o : Ossl) (v : View) {d : Side} {t : List Side}
    (ht : o.tape = d :: t) (hd : d ≠ o.me) : sslDoHandshake sc (fuel + 1) o v = readBody sc fuel o v := by
  rw [sslDoHandshake, readBody]
  simp [ht, hd] <;> rfl

theorem take_hsN_postN {a b j : Nat} (h : j ≤ a) : (hsN a ++ postN b).take j = hsN j := by
  simp [hsN, postN, List.take_append_of_le_length, h, Nat.min_eq_left h]

theorem drop_hsN_postN {a b j : Nat} (h : j ≤ a) : (hsN a ++ postN b).drop j = hsN (a - j) ++ postN b := by
  simp [hsN, postN, List.drop_append_of_le_length, h]

theorem hsN_any (j : Nat) : (hsN j).any (· != Cell.hs) = false := by
  simp [hsN]

/-- the delayed read -/
theorem tick_cr {sc : Sched} {p : Peer} {b' : Nat} {o : Ossl} {v : View} (g : Good sc p b' o v)
    (hlt : v.tp.cr < sc.dr) :
    HsPost sc p b' o v o { v with tp := { v.tp with cr := v.tp.cr + 1 }, own := true } (.wouldBlock .self) := by
  obtain ⟨hl, hh, hc, a, b, a', hk⟩ := g
  refine ⟨⟨⟨hl.lim, hl.direct, ?_, hl.open_tx, hl.open_rx, hl.clean, hl.nobuf⟩, ⟨hh.nohs, hh.early, hh.flushed⟩, hc,
    a, b, a', ⟨hk.tx, hk.txp, hk.rx, hk.rxp, hk.align⟩⟩, rfl, ⟨WakeRel.of_eq rfl rfl, fun _ => rfl⟩, Nat.le_refl _, ?_⟩
  · obtain ⟨h1, h2, h3⟩ := hl.ctrok
    exact ⟨by simp; omega, h2, h3⟩
  · simp only [and_true]
    have ⟨h1, _, _⟩ := hl.ctrok
    simp only [S0, mainPot, ctr, flushDelay]
    omega

/-- the delayed flush -/
theorem tick_cf {sc : Sched} {p : Peer} {b' : Nat} {o : Ossl} {v : View} (g : Good sc p b' o v)
    (hlt : v.tp.cf < sc.dfh) :
    HsPost sc p b' o v o { v with tp := { v.tp with cf := v.tp.cf + 1 }, own := true } (.wouldBlock .self) := by
  obtain ⟨hl, hh, hc, a, b, a', hk⟩ := g
  have he := hh.early
  refine ⟨⟨⟨hl.lim, hl.direct, ?_, hl.open_tx, hl.open_rx, hl.clean, hl.nobuf⟩, ⟨hh.nohs, hh.early, hh.flushed⟩, hc,
    a, b, a', ⟨hk.tx, hk.txp, hk.rx, hk.rxp, hk.align⟩⟩, rfl, ⟨WakeRel.of_eq rfl rfl, fun _ => rfl⟩, Nat.le_refl _, ?_⟩
  · obtain ⟨h1, h2, h3⟩ := hl.ctrok
    refine ⟨h1, h2, ?_⟩
    simp only [flushDelay, he] at h3 ⊢; simp; omega
  · simp only [and_true]
    have ⟨_, _, h3⟩ := hl.ctrok
    simp only [flushDelay, he] at h3
    simp only [S0, mainPot, ctr, flushDelay, he]
    simp
    omega

/-- it is the peer's turn and nothing of mine is unflushed: the read proper -/
theorem iter_read_inner {sc : Sched} {p : Peer} {b' : Nat} (fuel : Nat) {o : Ossl} {v : View}
    (g : Good sc p b' o v) {t : List Side} (ht : o.tape = o.me.other :: t) (hw : o.written = false) :
    IterF sc p b' fuel o v (readBody sc fuel o v) := by
  obtain ⟨hl, hh, hc, a, b, a', hk⟩ := g
  have hneed : 1 ≤ leadRun o.me.other o.tape := leadRun_pos t ht
  have hne : o.tape ≠ [] := by rw [ht]; simp
  have hbr : bioRead sc o v (leadRun o.me.other o.tape) =
      (match ioRead sc v (leadRun o.me.other o.tape) with
        | (v, .ready cs) => (o, v, .ok cs)
        | (v, .pending p) => (o, v, .wouldBlock p)
        | (v, .err) => (o, v, .err)) := by
    simp [bioRead, hc, hw] <;> rfl
  rcases ioRead_spec sc o v (leadRun o.me.other o.tape) hl hneed with
    ⟨hlt, heq⟩ | ⟨hcr, hemp, heq⟩ | ⟨v', cs, hcr, heq, hcs, hcsdef, hrxq, hrxc, htxe, hwake, hown, htp⟩
  · refine .stop _ _ _ ?_ (tick_cr ⟨hl, hh, hc, a, b, a', hk⟩ hlt)
    simp [readBody, hbr, heq]
  · -- nothing there: the waker is registered
    refine .stop o { v with tp := { v.tp with cr := 0 }, rx := { v.rx with rwait := true } } (.wouldBlock .reg) ?_ ?_
    · simp [readBody, hbr, heq]
    · refine ⟨⟨⟨hl.lim, hl.direct, ?_, hl.open_tx, hl.open_rx, hl.clean, hl.nobuf⟩, ⟨hh.nohs, hh.early, hh.flushed⟩, hc,
        a, b, a', ⟨hk.tx, hk.txp, hk.rx, hk.rxp, hk.align⟩⟩, rfl, ⟨WakeRel.of_eq rfl rfl, fun h => h⟩, Nat.le_refl _, ?_⟩
      · obtain ⟨h1, h2, h3⟩ := hl.ctrok
        exact ⟨by simp, h2, h3⟩
      · refine ⟨?_, rfl, hemp, rfl, hh.flushed hw, t, ht⟩
        simp only [S0, mainPot, ctr, flushDelay]
        omega
  · -- cells arrived
    have hL := hk.rx
    simp only [View.rxs] at hL
    have hj1 : 1 ≤ cs.length := by
      cases cs with
      | nil => exact absurd rfl hcs
      | cons _ _ => simp
    have hlenle := leadRun_le o.me.other o.tape
    have hjm : cs.length ≤ min sc.lim (leadRun o.me.other o.tape) := by
      rw [hcsdef, List.length_take]; omega
    have hjL : cs.length ≤ v.rx.q.toList.length := by
      rw [hcsdef, List.length_take]; omega
    have hja : cs.length ≤ a' := by
      by_cases hb' : b' = 0
      · have := congrArg List.length hL
        rw [length_hsN_postN] at this
        simp at this; omega
      · have hp : p.tape = [] := by
          cases hpt : p.tape with
          | nil => rfl
          | cons x xs => exact absurd (hk.rxp (by simp [hpt])) hb'
        have := hk.align
        rw [hp] at this
        have := this.need_le
        omega
    have hcs' : cs = hsN cs.length := by
      have h1 : cs = v.rx.q.toList.take cs.length := by
        conv => lhs; rw [hcsdef]
        rw [hcsdef, List.length_take, List.take_eq_take_iff]
        omega
      have h2 : v.rx.q.toList.take cs.length = (v.rx.q.toList ++ p.held).take cs.length := by
        rw [List.take_append_of_le_length hjL]
      rw [h2, hL, take_hsN_postN hja] at h1
      exact h1
    have hdrop : v'.rx.q.toList ++ p.held = hsN (a' - cs.length) ++ postN b' := by
      have h1 : v.rx.q.toList.drop (min sc.lim (leadRun o.me.other o.tape)) = v.rx.q.toList.drop cs.length := by
        rw [hcsdef, List.length_take]
        by_cases hmm : min sc.lim (leadRun o.me.other o.tape) ≤ v.rx.q.toList.length
        · rw [Nat.min_eq_left hmm]
        · have hmm' : v.rx.q.toList.length ≤ min sc.lim (leadRun o.me.other o.tape) := by omega
          rw [Nat.min_eq_right hmm', List.drop_of_length_le hmm', List.drop_of_length_le (Nat.le_refl _)]
      rw [hrxq, h1, ← List.drop_append_of_le_length hjL, hL, drop_hsN_postN hja]
    have hgood : Good sc p b' { o with tape := o.tape.drop cs.length } v' := by
      refine ⟨⟨hl.lim, hl.direct, ?_, by rw [htxe]; exact hl.open_tx, by rw [hrxc]; exact hl.open_rx, hl.clean, ?_⟩,
        ⟨hh.nohs, by rw [htp]; exact hh.early, ?_⟩, hc, a, b, a' - cs.length,
        ⟨?_, fun _ => hk.txp hne, hdrop, hk.rxp, hk.align.read hja hj1⟩⟩
      · obtain ⟨h1, h2, h3⟩ := hl.ctrok
        rw [htp]; exact ⟨by simp, h2, h3⟩
      · intro hb; rw [htp]; exact hl.nobuf hb
      · intro hw'; rw [htp]; exact hh.flushed hw
      · simp only [View.txs, htxe, htp]; exact hk.tx
    have hdec : S0 sc { o with tape := o.tape.drop cs.length } v' + 1 ≤ S0 sc o v := by
      simp only [S0, hwake]
      refine pot_step (d := sc.dr) _ _ _ _ _ _ _ ?_ ?_ (dr_lt_K sc) (b2n_le _)
      · simp only [mainPot, List.length_drop, htp]; omega
      · simp only [ctr, flushDelay, htp, hcr]; omega
    refine .next { o with tape := o.tape.drop cs.length } v' ?_ hgood rfl
      ⟨WakeRel.of_eq htxe hwake, fun h => by rw [hown]; exact h⟩ hown hdec ?_
    · have hemp : cs.isEmpty = false := by
        cases cs with
        | nil => exact absurd rfl hcs
        | cons _ _ => rfl
      have hany : cs.any (· != Cell.hs) = false := by rw [hcs']; exact hsN_any _
      simp [readBody, hbr, heq, hemp, hany]
    · simp only [List.length_drop]; omega

/-- it is the peer's turn: `OpensslInner::poll_read` first flushes what was written -/
theorem iter_read {sc : Sched} {p : Peer} {b' : Nat} (fuel : Nat) {o : Ossl} {v : View} (g : Good sc p b' o v)
    {t : List Side} (ht : o.tape = o.me.other :: t) : Iter sc p b' fuel o v := by
  have hd : o.me.other ≠ o.me := Side.other_ne o.me
  show IterF sc p b' fuel o v (sslDoHandshake sc (fuel + 1) o v)
  rw [sslDoHandshake_read sc fuel o v ht hd]
  cases hw : o.written with
  | false => exact iter_read_inner fuel g ht hw
  | true =>
    obtain ⟨hl, hh, hc, a, b, a', hk⟩ := g
    rcases ioFlush_hs sc o v hl hh.early with
      ⟨hlt, heq⟩ | ⟨v1, heq, hcfd, htx, hwb, hwbl, hrx, hown, hclosed, hcr, hcw, hcf, hhd, hwr⟩
    · refine .stop _ _ _ ?_ (tick_cf ⟨hl, hh, hc, a, b, a', hk⟩ hlt)
      simp [readBody, bioRead, hc, hw, hh.nohs, heq]
    · -- the flush is performed; the read proper follows on the flushed state
      have hg1 : Good sc p b' { o with written := false } v1 := by
        refine ⟨⟨hl.lim, hl.direct, ?_, by rw [hclosed]; exact hl.open_tx, by rw [hrx]; exact hl.open_rx, hl.clean,
          fun _ => hwb⟩, ⟨hh.nohs, by rw [hhd]; exact hh.early, fun _ => hwb⟩, hc, a, b, a',
          ⟨by rw [htx]; exact hk.tx, hk.txp, by simp only [View.rxs, hrx]; exact hk.rx, hk.rxp, hk.align⟩⟩
        obtain ⟨h1, h2, h3⟩ := hl.ctrok
        refine ⟨by rw [hcr]; exact h1, by rw [hcw]; exact h2, by rw [hcf]; omega⟩
      have hdec : S0 sc { o with written := false } v1 + 1 ≤ S0 sc o v := by
        simp only [S0]
        refine pot_step (d := sc.dfh) _ _ _ _ _ _ _ ?_ ?_ ?_ (b2n_le _)
        · simp only [mainPot, hw, hwbl, b2n]; simp
        · have he := hh.early
          simp only [ctr, flushDelay, hhd, he, hcr, hcw, hcf, hcfd]; simp
        · unfold K; omega
      have hbody : readBody sc fuel o v = readBody sc fuel { o with written := false } v1 := by
        simp [readBody, bioRead, hc, hw, hh.nohs, heq]
      rw [hbody]
      exact (iter_read_inner fuel hg1 (by simpa using ht) rfl).after_step rfl
        ⟨hwr, fun h => by rw [hown]; exact h⟩ hown hdec (by simp)

/-- **Specification of one engine call during the handshake.** From a `Good` state the call ends in a `Good`
state, never with an error or a failed context assertion; `Ok` means the tape and the post-handshake cells are
used up; `WouldBlock` comes with the wake-up arranged (`own`, or the waker registered on an empty pipe with
nothing of ours unflushed); the progress measure `S0` pays for every step. -/
theorem doHs_spec (sc : Sched) (p : Peer) (b' : Nat) :
    ∀ (fuel : Nat) (o : Ossl) (v : View), Good sc p b' o v → o.tape.length + o.post < fuel →
      HsPost sc p b' o v (sslDoHandshake sc fuel o v).1 (sslDoHandshake sc fuel o v).2.1
        (sslDoHandshake sc fuel o v).2.2 := by
  intro fuel
  induction fuel with
  | zero => intro o v _ h; omega
  | succ fuel ih =>
    intro o v g hfuel
    have hit : Iter sc p b' fuel o v := by
      cases ht : o.tape with
      | nil =>
        by_cases hp : o.post = 0
        · refine .stop o v (.ok ()) ?_ ⟨g, rfl, Mono.refl v, Nat.le_refl _, ?_⟩
          · rw [sslDoHandshake]; simp [ht, hp]
          · exact ⟨ht, hp, Nat.le_refl _, rfl⟩
        · exact iter_post fuel g ht hp
      | cons d t =>
        rcases Side.eq_or_other o.me d with hd | hd
        · exact iter_write fuel g (by rw [ht, hd])
        · exact iter_read fuel g (by rw [ht, hd])
    cases hit with
    | stop o' v' r eq post => rw [eq]; exact post
    | next o1 v1 eq good me mono own dec meas =>
      rw [eq]
      exact (ih o1 v1 good (by omega)).after_step me mono own dec (by omega)

end Compio.TlsShim
