/-
What the cancel routes do to the state: single-step facts used by the C05 theorems
(idempotence, locality, promptness, token exactness).
-/
import Compio.Lemmas.KeyLifeMain

namespace Compio.KeyLife

open Compio.PollQueues

theorem modAt_get {f : Op → Op} {l : List Op} {id : Nat} {o : Op} (ho : l[id]? = some o) :
    (modAt f l id)[id]? = some (f o) := by
  simp only [getElem?_modAt_self, ho, Option.map_some]

theorem map_get {f : Op → Op} {l : List Op} {id : Nat} {o : Op} (ho : l[id]? = some o) :
    (l.map f)[id]? = some (f o) := by
  simp only [List.getElem?_map, ho, Option.map_some]

/-! ### only the addressed op is touched -/

theorem driverCancel_frame (s : State) (id : Nat) (o : Op) {j : Nat} (hj : j ≠ id) :
    (driverCancel s id o).ops[j]? = s.ops[j]? := by
  unfold driverCancel iourCancel pollCancel
  split
  · split <;> exact getElem?_modAt_ne _ _ (Ne.symm hj)
  · split
    · rfl
    · exact getElem?_modAt_ne _ _ (Ne.symm hj)

theorem cancelIssue_frame (s : State) (id : Nat) (o : Op) {j : Nat} (hj : j ≠ id) :
    (cancelIssue s id o).ops[j]? = s.ops[j]? := by
  unfold cancelIssue
  simp only [getElem?_modAt_ne _ _ (Ne.symm hj), driverCancel_frame _ _ _ hj]

theorem cancelKey_frame (s : State) (id : Nat) (o : Op) {j : Nat} (hj : j ≠ id) :
    (cancelKey s id o).ops[j]? = s.ops[j]? := by
  unfold cancelKey
  split
  · exact getElem?_modAt_ne _ _ (Ne.symm hj)
  · split
    · exact getElem?_modAt_ne _ _ (Ne.symm hj)
    · exact cancelIssue_frame s id o hj

theorem cancelTok_frame (s : State) (id : Nat) (o : Op) {j : Nat} (hj : j ≠ id) :
    (cancelTok s id o).ops[j]? = s.ops[j]? := by
  unfold cancelTok
  split
  · simp only [getElem?_modAt_ne _ _ (Ne.symm hj)]
  · rw [cancelIssue_frame _ _ _ hj]; simp only [getElem?_modAt_ne _ _ (Ne.symm hj)]

/-! ### what happens to the addressed op -/

/-- the op after `Driver::cancel`: some update that leaves flag, handles, result and kernel status alone -/
theorem driverCancel_op (s : State) (id : Nat) (o : Op) :
    ∃ g : Op → Op, (∀ x, (g x).cancelled = x.cancelled ∧ (g x).user = x.user ∧ (g x).result = x.result ∧
        (g x).kstat = x.kstat) ∧ (driverCancel s id o).ops[id]? = (s.ops[id]?).map g := by
  unfold driverCancel iourCancel pollCancel
  split
  · split
    · refine ⟨_, ?_, getElem?_modAt_self _ _ _⟩
      exact fun _ => ⟨rfl, rfl, rfl, rfl⟩
    · refine ⟨_, ?_, getElem?_modAt_self _ _ _⟩
      exact fun _ => ⟨rfl, rfl, rfl, rfl⟩
  · split
    · exact ⟨fun x => x, fun _ => ⟨rfl, rfl, rfl, rfl⟩, by simp⟩
    · refine ⟨_, ?_, getElem?_modAt_self _ _ _⟩
      exact fun _ => ⟨rfl, rfl, rfl, rfl⟩

theorem cancelIssue_cancelled (s : State) (id : Nat) (o : Op) {x : Op} (hx : s.ops[id]? = some x) :
    ∃ x', (cancelIssue s id o).ops[id]? = some x' ∧ x'.cancelled = true ∧ x'.result = x.result := by
  unfold cancelIssue
  obtain ⟨g, hg, h2⟩ := driverCancel_op { s with ops := modAt (fun o => { o with cancelled := true }) s.ops id } id o
  refine ⟨(Op.dropRef { (g { x with cancelled := true }) with user := (g { x with cancelled := true }).user - 1 }), ?_, ?_, ?_⟩
  · simp only [getElem?_modAt_self, h2, hx, Option.map_some]
  · simp only [Op.dropRef, Op.dropRefs]; exact (hg _).1
  · simp only [Op.dropRef, Op.dropRefs]; exact (hg _).2.2.1

/-- `cancel_token` on a live op leaves the flag set -/
theorem cancelTok_cancelled (s : State) (id : Nat) {o : Op} (ho : s.ops[id]? = some o) :
    ∃ x', (cancelTok s id o).ops[id]? = some x' ∧ x'.cancelled = true := by
  unfold cancelTok
  have h0 : ({ s with ops := modAt (fun o => ({ o.cloneRef with user := o.user + 1 } : Op)) s.ops id } : State).ops[id]?
      = some { o.cloneRef with user := o.user + 1 } := by
    simp only [getElem?_modAt_self, ho, Option.map_some]
  split
  · refine ⟨(Op.dropRef { ({ o.cloneRef with user := o.user + 1 } : Op) with cancelled := true, user := o.user + 1 - 1 }), ?_, rfl⟩
    simp only [getElem?_modAt_self, ho, Option.map_some]
  · obtain ⟨x', h1, h2, _⟩ := cancelIssue_cancelled _ id _ h0
    exact ⟨x', h1, h2⟩

/-! ### single events seen from one op -/

/-- one `cancel_token` touches only its own operation, and a live one ends up flagged -/
theorem tokenCancel_effect {c : Cfg} {s s' : State} {id : Nat} (h : step c s (.tokenCancel id) = some s') :
    (∀ j, j ≠ id → s'.ops[j]? = s.ops[j]?) ∧
      (∀ o, s.ops[id]? = some o → 0 < o.rc → ∃ x, s'.ops[id]? = some x ∧ x.cancelled = true) := by
  simp only [step] at h
  split at h
  · rename_i o ho
    split at h
    · split at h
      · rename_i hrc
        obtain rfl := Option.some.inj h
        exact ⟨fun _ _ => rfl, fun o' ho' hp => by
          rw [ho] at ho'; obtain rfl := Option.some.inj ho'; omega⟩
      · obtain rfl := Option.some.inj h
        exact ⟨fun j hj => cancelTok_frame s id o hj, fun o' ho' _ => by
          rw [ho] at ho'; obtain rfl := Option.some.inj ho'; exact cancelTok_cancelled s id ho⟩
    · cases h
  · cases h

theorem tokenDrop_effect {c : Cfg} {s s' : State} {id : Nat} (h : step c s (.tokenDrop id) = some s') :
    (∀ j, j ≠ id → s'.ops[j]? = s.ops[j]?) ∧
      (∀ o, s.ops[id]? = some o → ∃ x, s'.ops[id]? = some x ∧ x.cancelled = o.cancelled ∧ x.rc = o.rc) := by
  simp only [step] at h
  split at h
  · rename_i o ho
    split at h
    · obtain rfl := Option.some.inj h
      exact ⟨fun j hj => getElem?_modAt_ne _ _ (Ne.symm hj), fun o' ho' => ⟨_, modAt_get ho', rfl, rfl⟩⟩
    · cases h
  · cases h

theorem submit_op {c : Cfg} {s s' : State} (h : step c s .submit = some s') {id : Nat} {x : Op}
    (hx : s.ops[id]? = some x) : s'.ops[id]? = some x.submit := by
  simp only [step] at h
  split at h
  · obtain rfl := Option.some.inj h; exact map_get hx
  · cases h

theorem kPost_final_op {c : Cfg} {s s' : State} {id : Nat} {r : Res} (h : step c s (.kPost id false r) = some s')
    {x : Op} (hx : s.ops[id]? = some x) :
    s'.ops[id]? = some { x with pendFinal := some r, kstat := .done, produced := x.produced ++ [r] } := by
  simp only [step, hx] at h
  split at h
  · simp only [Bool.false_eq_true, if_false] at h
    obtain rfl := Option.some.inj h; exact modAt_get hx
  · cases h

theorem pollEntries_op {c : Cfg} {s s' : State} (h : step c s .pollEntries = some s') {id : Nat} {x : Op}
    (hx : s.ops[id]? = some x) : s'.ops[id]? = some x.drainCq := by
  simp only [step] at h
  split at h
  · obtain rfl := Option.some.inj h; exact map_get hx
  · cases h


theorem map_fix {f : Op → Op} : ∀ l : List Op, (∀ o, o ∈ l → f o = o) → l.map f = l := by
  intro l
  induction l with
  | nil => intro _; rfl
  | cons x xs ih =>
    intro h
    simp only [List.map_cons, h x List.mem_cons_self, ih (fun o ho => h o (List.mem_cons_of_mem _ ho))]

theorem run_append (c : Cfg) : ∀ (a b : List Event) (s1 s2 : State), run c s1 a = some s2 →
    run c s1 (a ++ b) = run c s2 b := by
  intro a
  induction a with
  | nil => intro b s1 s2 h; simp [run] at h; subst h; rfl
  | cons e es ihh =>
    intro b s1 s2 h
    simp only [run, List.cons_append] at h ⊢
    cases hsx : step c s1 e with
    | none => rw [hsx] at h; cases h
    | some sx => rw [hsx] at h; exact ihh b sx s2 h

end Compio.KeyLife
