/-
What the cancel routes do to the state: single-step facts used by the C05 theorems
(idempotence, locality, promptness, token exactness).
-/
import Compio.Lemmas.KeyLifeMain

namespace Compio.KeyLife

open Compio.PollQueues

theorem modAt_get {f : Op → Op} {l : List Op} {id : Nat} {o : Op} (ho : l[id]? = some o) :
    (modAt f l id)[id]? = some (f o) := by
  simp only [getElem?_modAt_self, ho, Option.map_some]

theorem map_get {f : Op → Op} {l : List Op} {id : Nat} {o : Op} (ho : l[id]? = some o) :
    (l.map f)[id]? = some (f o) := by
  simp only [List.getElem?_map, ho, Option.map_some]

/-! ### what a cancel does to the OTHER ops

On the polling driver nothing at all. On io_uring a cancel whose SQE overflows the submission queue runs one
`push_raw` round (submit, drain), which lets other ops progress — but never touches their handles, flags or
identity, and resurrects nothing (`Same`). -/

theorem driverCancel_frame_poll (c : Cfg) (s : State) (id : Nat) (o : Op) (posts : List (Nat × Bool × Res))
    (hd : s.drv = .poll) {j : Nat} (hj : j ≠ id) : (driverCancel c s id o posts).ops[j]? = s.ops[j]? := by
  unfold driverCancel pollCancel
  simp only [hd]
  split
  · rfl
  · exact getElem?_modAt_ne _ _ (Ne.symm hj)

theorem driverCancel_same (c : Cfg) (s : State) (id : Nat) (o : Op) (posts : List (Nat × Bool × Res))
    {j : Nat} (hj : j ≠ id) {x : Op} (hx : s.ops[j]? = some x) :
    ∃ x', (driverCancel c s id o posts).ops[j]? = some x' ∧ Same x x' := by
  unfold driverCancel
  split
  · exact (iourCancel_same c s id posts).get hx
  · unfold pollCancel
    split
    · exact ⟨x, hx, Same.rfl' x⟩
    · exact ⟨x, by rw [getElem?_modAt_ne _ _ (Ne.symm hj)]; exact hx, Same.rfl' x⟩

theorem cancelIssue_frame_poll (c : Cfg) (s : State) (id : Nat) (o : Op) (posts : List (Nat × Bool × Res))
    (hd : s.drv = .poll) {j : Nat} (hj : j ≠ id) : (cancelIssue c s id o posts).ops[j]? = s.ops[j]? := by
  unfold cancelIssue
  simp only [getElem?_modAt_ne _ _ (Ne.symm hj)]
  rw [driverCancel_frame_poll c { s with ops := modAt (fun o => { o with cancelled := true }) s.ops id } id o posts hd hj]
  exact getElem?_modAt_ne _ _ (Ne.symm hj)

theorem cancelIssue_same (c : Cfg) (s : State) (id : Nat) (o : Op) (posts : List (Nat × Bool × Res))
    {j : Nat} (hj : j ≠ id) {x : Op} (hx : s.ops[j]? = some x) :
    ∃ x', (cancelIssue c s id o posts).ops[j]? = some x' ∧ Same x x' := by
  unfold cancelIssue
  have h1 : ({ s with ops := modAt (fun o => { o with cancelled := true }) s.ops id } : State).ops[j]? = some x := by
    show (modAt _ s.ops id)[j]? = some x
    rw [getElem?_modAt_ne _ _ (Ne.symm hj)]; exact hx
  obtain ⟨x', h2, hs⟩ := driverCancel_same c _ id o posts hj h1
  exact ⟨x', by simp only [getElem?_modAt_ne _ _ (Ne.symm hj)]; exact h2, hs⟩

theorem cancelKey_same (c : Cfg) (s : State) (id : Nat) (o : Op) (posts : List (Nat × Bool × Res))
    {j : Nat} (hj : j ≠ id) {x : Op} (hx : s.ops[j]? = some x) :
    ∃ x', (cancelKey c s id o posts).ops[j]? = some x' ∧ Same x x' := by
  unfold cancelKey
  split
  · exact ⟨x, by show (modAt _ s.ops id)[j]? = some x; rw [getElem?_modAt_ne _ _ (Ne.symm hj)]; exact hx, Same.rfl' x⟩
  · split
    · exact ⟨x, by show (modAt _ s.ops id)[j]? = some x; rw [getElem?_modAt_ne _ _ (Ne.symm hj)]; exact hx, Same.rfl' x⟩
    · exact cancelIssue_same c s id o posts hj hx

theorem cancelTok_same (c : Cfg) (s : State) (id : Nat) (o : Op) (posts : List (Nat × Bool × Res))
    {j : Nat} (hj : j ≠ id) {x : Op} (hx : s.ops[j]? = some x) :
    ∃ x', (cancelTok c s id o posts).ops[j]? = some x' ∧ Same x x' := by
  unfold cancelTok
  have h0 : ({ s with ops := modAt (fun o => ({ o.cloneRef with user := o.user + 1 } : Op)) s.ops id } : State).ops[j]?
      = some x := by
    show (modAt _ s.ops id)[j]? = some x
    rw [getElem?_modAt_ne _ _ (Ne.symm hj)]; exact hx
  split
  · exact ⟨x, by simp only [getElem?_modAt_ne _ _ (Ne.symm hj)]; exact hx, Same.rfl' x⟩
  · exact cancelIssue_same c _ id _ posts hj h0

/-- submit, CQE posts and drains never touch the counter of dropped cancel SQEs -/
theorem overflowDrain_cancelDropped (s : State) (posts : List (Nat × Bool × Res)) {i : Nat} {x y : Op}
    (hx : s.ops[i]? = some x) (hy : (overflowDrain s posts).ops[i]? = some y) :
    y.cancelDropped = x.cancelDropped := by
  -- position-wise: every stage is a `map` or a `modAt` with a function that keeps the field
  have stage : ∀ (l : List Op) (f : Op → Op), (∀ o, (f o).cancelDropped = o.cancelDropped) →
      ∀ (j : Nat) (a b : Op), l[j]? = some a → (l.map f)[j]? = some b → b.cancelDropped = a.cancelDropped := by
    intro l f hf j a b ha hb
    rw [List.getElem?_map, ha] at hb
    obtain rfl := Option.some.inj hb; exact hf a
  have post : ∀ (t t' : State) (id : Nat) (more : Bool) (r : Res), kPostStep t id more r = some t' →
      ∀ (j : Nat) (a b : Op), t.ops[j]? = some a → t'.ops[j]? = some b → b.cancelDropped = a.cancelDropped := by
    intro t t' id more r hk j a b ha hb
    unfold kPostStep at hk
    split at hk
    · split at hk
      · split at hk
        all_goals
          obtain rfl := Option.some.inj hk
          rcases modAt_cases hb with ⟨_, z, hz, rfl⟩ | ⟨_, hz⟩
          · rw [ha] at hz; obtain rfl := Option.some.inj hz; rfl
          · rw [ha] at hz; obtain rfl := Option.some.inj hz; rfl
      · cases hk
    · cases hk
  have fold : ∀ (ps : List (Nat × Bool × Res)) (t : State) (j : Nat) (a b : Op), t.ops[j]? = some a →
      (ps.foldl (fun s p => (kPostStep s p.1 p.2.1 p.2.2).getD s) t).ops[j]? = some b →
      b.cancelDropped = a.cancelDropped := by
    intro ps
    induction ps with
    | nil =>
      intro t j a b ha hb
      simp only [List.foldl_nil] at hb
      rw [ha] at hb; obtain rfl := Option.some.inj hb; rfl
    | cons p ps ih =>
      intro t j a b ha hb
      simp only [List.foldl_cons] at hb
      cases hk : kPostStep t p.1 p.2.1 p.2.2 with
      | none => rw [hk] at hb; exact ih t j a b ha (by simpa using hb)
      | some t' =>
        rw [hk] at hb
        obtain ⟨m, hm, _⟩ := (kPostStep_same hk).get ha
        exact (ih t' j m b hm (by simpa using hb)).trans (post t t' _ _ _ hk j a m ha hm)
  unfold overflowDrain drainAll at hy
  obtain ⟨x1, hx1, _⟩ := (OpsRel.map same_submit s.ops).get hx
  have e1 : x1.cancelDropped = x.cancelDropped := stage s.ops Op.submit (fun _ => rfl) i x x1 hx hx1
  have hsub : (submitAll s).ops[i]? = some x1 := hx1
  obtain ⟨x2, hx2, _⟩ := (overflowDrain_same s posts).get hx
  -- the folded state at position i
  have hlen := (OpsRel.map same_submit s.ops).1
  cases hmid : (posts.foldl (fun s p => (kPostStep s p.1 p.2.1 p.2.2).getD s) (submitAll s)).ops[i]? with
  | none => rw [List.getElem?_map, hmid] at hy; cases hy
  | some m =>
    have e2 := fold posts (submitAll s) i x1 m hsub hmid
    have e3 : y.cancelDropped = m.cancelDropped := by
      refine stage _ Op.drainCq ?_ i m y hmid hy
      intro o; unfold Op.drainCq; split <;> rfl
    rw [e3, e2, e1]

theorem driverCancel_iour (c : Cfg) (s : State) (id : Nat) (o : Op) (posts : List (Nat × Bool × Res))
    (hd : s.drv = .iour) : driverCancel c s id o posts = iourCancel c s id posts := by
  unfold driverCancel; rw [hd]

/-- repaired `Driver::cancel` (io_uring): the SQE is always queued, never dropped -/
theorem iourCancel_at (c : Cfg) (hc : c.cancelPushRaw = true) (s : State) (id : Nat) (posts : List (Nat × Bool × Res))
    {x : Op} (hx : s.ops[id]? = some x) :
    0 < (iourCancel c s id posts).sqLen ∧
      ∃ z, (iourCancel c s id posts).ops[id]? = some z ∧ 0 < z.cancelSq ∧ z.cancelDropped = x.cancelDropped ∧
        z.cancelled = x.cancelled := by
  unfold iourCancel
  simp only [hc, if_true]
  split
  · exact ⟨by simp [queueCancel], _, modAt_get hx, by simp, rfl, rfl⟩
  · obtain ⟨y, hy, hs⟩ := (overflowDrain_same s posts).get hx
    have hcd := overflowDrain_cancelDropped s posts hx hy
    exact ⟨by simp [queueCancel], _, modAt_get hy, by simp, hcd, hs.cancelled⟩

/-! ### what happens to the addressed op -/

/-- the op after `Driver::cancel`: still there, same flag and handles -/
theorem driverCancel_at (c : Cfg) (s : State) (id : Nat) (o : Op) (posts : List (Nat × Bool × Res)) {x : Op}
    (hx : s.ops[id]? = some x) :
    ∃ x', (driverCancel c s id o posts).ops[id]? = some x' ∧ x'.cancelled = x.cancelled ∧ x'.user = x.user := by
  unfold driverCancel
  split
  · obtain ⟨x', h1, hs⟩ := (iourCancel_same c s id posts).get hx
    exact ⟨x', h1, hs.cancelled, hs.user⟩
  · unfold pollCancel
    split
    · exact ⟨x, hx, rfl, rfl⟩
    · exact ⟨_, modAt_get hx, rfl, rfl⟩

theorem cancelIssue_cancelled (c : Cfg) (s : State) (id : Nat) (o : Op) (posts : List (Nat × Bool × Res)) {x : Op}
    (hx : s.ops[id]? = some x) :
    ∃ x', (cancelIssue c s id o posts).ops[id]? = some x' ∧ x'.cancelled = true := by
  unfold cancelIssue
  have h1 : ({ s with ops := modAt (fun o => { o with cancelled := true }) s.ops id } : State).ops[id]?
      = some { x with cancelled := true } := modAt_get hx
  obtain ⟨x2, h2, hc, _⟩ := driverCancel_at c _ id o posts h1
  exact ⟨_, modAt_get h2, by simp only [Op.dropRef, Op.dropRefs]; exact hc⟩

/-- `cancel_token` on a live op leaves the flag set -/
theorem cancelTok_cancelled (c : Cfg) (s : State) (id : Nat) {o : Op} (posts : List (Nat × Bool × Res))
    (ho : s.ops[id]? = some o) : ∃ x', (cancelTok c s id o posts).ops[id]? = some x' ∧ x'.cancelled = true := by
  unfold cancelTok
  have h0 : ({ s with ops := modAt (fun o => ({ o.cloneRef with user := o.user + 1 } : Op)) s.ops id } : State).ops[id]?
      = some { o.cloneRef with user := o.user + 1 } := modAt_get ho
  split
  · exact ⟨_, modAt_get h0, rfl⟩
  · exact cancelIssue_cancelled c _ id _ posts h0

/-! ### single events seen from one op -/

/-- one `cancel_token` never touches handles, flags or identity of the OTHER ops (and nothing of them on the polling
driver), and a live target ends up flagged -/
theorem tokenCancel_effect {c : Cfg} {s s' : State} {id : Nat} {posts : List (Nat × Bool × Res)}
    (h : step c s (.tokenCancel id posts) = some s') :
    (∀ j x, j ≠ id → s.ops[j]? = some x → ∃ x', s'.ops[j]? = some x' ∧ Same x x') ∧
      (∀ o, s.ops[id]? = some o → 0 < o.rc → ∃ x, s'.ops[id]? = some x ∧ x.cancelled = true) ∧
      (∀ o, s.ops[id]? = some o → o.rc = 0 → s' = s) := by
  simp only [step] at h
  split at h
  · rename_i o ho
    split at h
    · split at h
      · rename_i hrc
        obtain rfl := Option.some.inj h
        exact ⟨fun j x _ hx => ⟨x, hx, Same.rfl' x⟩, fun o' ho' hp => by
          rw [ho] at ho'; obtain rfl := Option.some.inj ho'; omega, fun _ _ _ => rfl⟩
      · rename_i hrc
        obtain rfl := Option.some.inj h
        exact ⟨fun j x hj hx => cancelTok_same c s id o posts hj hx, fun o' ho' _ => by
          rw [ho] at ho'; obtain rfl := Option.some.inj ho'; exact cancelTok_cancelled c s id posts ho,
          fun o' ho' h0 => by rw [ho] at ho'; obtain rfl := Option.some.inj ho'; exact absurd h0 hrc⟩
    · cases h
  · cases h

theorem tokenDrop_effect {c : Cfg} {s s' : State} {id : Nat} (h : step c s (.tokenDrop id) = some s') :
    (∀ j, j ≠ id → s'.ops[j]? = s.ops[j]?) ∧
      (∀ o, s.ops[id]? = some o → ∃ x, s'.ops[id]? = some x ∧ x.cancelled = o.cancelled ∧ x.rc = o.rc) := by
  simp only [step] at h
  split at h
  · rename_i o ho
    split at h
    · obtain rfl := Option.some.inj h
      exact ⟨fun j hj => getElem?_modAt_ne _ _ (Ne.symm hj), fun o' ho' => ⟨_, modAt_get ho', rfl, rfl⟩⟩
    · cases h
  · cases h

theorem submit_op {c : Cfg} {s s' : State} (h : step c s .submit = some s') {id : Nat} {x : Op}
    (hx : s.ops[id]? = some x) : s'.ops[id]? = some x.submit := by
  simp only [step] at h
  split at h
  · obtain rfl := Option.some.inj h; exact map_get hx
  · cases h

theorem kPost_final_op {c : Cfg} {s s' : State} {id : Nat} {r : Res} (h : step c s (.kPost id false r) = some s')
    {x : Op} (hx : s.ops[id]? = some x) :
    s'.ops[id]? = some { x with pendFinal := some r, kstat := .done, produced := x.produced ++ [r] } := by
  simp only [step, hx] at h
  split at h
  · simp only [Bool.false_eq_true, if_false] at h
    obtain rfl := Option.some.inj h; exact modAt_get hx
  · cases h

theorem pollEntries_op {c : Cfg} {s s' : State} (h : step c s .pollEntries = some s') {id : Nat} {x : Op}
    (hx : s.ops[id]? = some x) : s'.ops[id]? = some x.drainCq := by
  simp only [step] at h
  split at h
  · obtain rfl := Option.some.inj h; exact map_get hx
  · cases h


theorem map_fix {f : Op → Op} : ∀ l : List Op, (∀ o, o ∈ l → f o = o) → l.map f = l := by
  intro l
  induction l with
  | nil => intro _; rfl
  | cons x xs ih =>
    intro h
    simp only [List.map_cons, h x List.mem_cons_self, ih (fun o ho => h o (List.mem_cons_of_mem _ ho))]

theorem run_append (c : Cfg) : ∀ (a b : List Event) (s1 s2 : State), run c s1 a = some s2 →
    run c s1 (a ++ b) = run c s2 b := by
  intro a
  induction a with
  | nil => intro b s1 s2 h; simp [run] at h; subst h; rfl
  | cons e es ihh =>
    intro b s1 s2 h
    simp only [run, List.cons_append] at h ⊢
    cases hsx : step c s1 e with
    | none => rw [hsx] at h; cases h
    | some sx => rw [hsx] at h; exact ihh b sx s2 h

end Compio.KeyLife
