/-
What the cancel routes do to the state: single-step facts used by the C05 theorems
(idempotence, locality, promptness, token exactness).
-/
import Compio.Lemmas.KeyLifeMain

namespace Compio.KeyLife

open Compio.PollQueues

/-! ### only the addressed op is touched -/

theorem driverCancel_frame (s : State) (id : Nat) (o : Op) {j : Nat} (hj : j ≠ id) :
    (driverCancel s id o).ops[j]? = s.ops[j]? := by
  unfold driverCancel iourCancel pollCancel
  split
  · split <;> exact getElem?_modAt_ne _ _ (Ne.symm hj)
  · split
    · rfl
    · exact getElem?_modAt_ne _ _ (Ne.symm hj)

theorem cancelIssue_frame (s : State) (id : Nat) (o : Op) {j : Nat} (hj : j ≠ id) :
    (cancelIssue s id o).ops[j]? = s.ops[j]? := by
  unfold cancelIssue
  simp only [getElem?_modAt_ne _ _ (Ne.symm hj), driverCancel_frame _ _ _ hj]

theorem cancelKey_frame (s : State) (id : Nat) (o : Op) {j : Nat} (hj : j ≠ id) :
    (cancelKey s id o).ops[j]? = s.ops[j]? := by
  unfold cancelKey
  split
  · exact getElem?_modAt_ne _ _ (Ne.symm hj)
  · split
    · exact getElem?_modAt_ne _ _ (Ne.symm hj)
    · exact cancelIssue_frame s id o hj

theorem cancelTok_frame (s : State) (id : Nat) (o : Op) {j : Nat} (hj : j ≠ id) :
    (cancelTok s id o).ops[j]? = s.ops[j]? := by
  unfold cancelTok
  split
  · simp only [getElem?_modAt_ne _ _ (Ne.symm hj)]
  · rw [cancelIssue_frame _ _ _ hj]; simp only [getElem?_modAt_ne _ _ (Ne.symm hj)]

/-! ### what happens to the addressed op -/

/-- the op after `Driver::cancel`: some update that leaves flag, handles, result and kernel status alone -/
theorem driverCancel_op (s : State) (id : Nat) (o : Op) :
    ∃ g : Op → Op, (∀ x, (g x).cancelled = x.cancelled ∧ (g x).user = x.user ∧ (g x).result = x.result ∧
        (g x).kstat = x.kstat) ∧ (driverCancel s id o).ops[id]? = (s.ops[id]?).map g := by
  unfold driverCancel iourCancel pollCancel
  split
  · split
    · exact ⟨_, fun _ => ⟨rfl, rfl, rfl, rfl⟩, getElem?_modAt_self _ _ _⟩
    · exact ⟨_, fun _ => ⟨rfl, rfl, rfl, rfl⟩, getElem?_modAt_self _ _ _⟩
  · split
    · exact ⟨id, fun _ => ⟨rfl, rfl, rfl, rfl⟩, by simp⟩
    · exact ⟨_, fun _ => ⟨rfl, rfl, rfl, rfl⟩, getElem?_modAt_self _ _ _⟩

theorem cancelIssue_cancelled (s : State) (id : Nat) (o : Op) {x : Op} (hx : s.ops[id]? = some x) :
    ∃ x', (cancelIssue s id o).ops[id]? = some x' ∧ x'.cancelled = true ∧ x'.result = x.result := by
  unfold cancelIssue
  obtain ⟨g, hg, h2⟩ := driverCancel_op { s with ops := modAt (fun o => { o with cancelled := true }) s.ops id } id o
  refine ⟨(Op.dropRef { (g { x with cancelled := true }) with user := (g { x with cancelled := true }).user - 1 }), ?_, ?_, ?_⟩
  · simp only [getElem?_modAt_self, h2, hx, Option.map_some]
  · simp only [Op.dropRef, Op.dropRefs]; exact (hg _).1
  · simp only [Op.dropRef, Op.dropRefs]; exact (hg _).2.2.1

/-- `cancel_token` on a live op leaves the flag set -/
theorem cancelTok_cancelled (s : State) (id : Nat) {o : Op} (ho : s.ops[id]? = some o) :
    ∃ x', (cancelTok s id o).ops[id]? = some x' ∧ x'.cancelled = true := by
  unfold cancelTok
  have h0 : ({ s with ops := modAt (fun o => ({ o.cloneRef with user := o.user + 1 } : Op)) s.ops id } : State).ops[id]?
      = some { o.cloneRef with user := o.user + 1 } := by
    simp only [getElem?_modAt_self, ho, Option.map_some]
  split
  · refine ⟨(Op.dropRef { ({ o.cloneRef with user := o.user + 1 } : Op) with cancelled := true, user := o.user + 1 - 1 }), ?_, rfl⟩
    simp only [getElem?_modAt_self, ho, Option.map_some]
  · obtain ⟨x', h1, h2, _⟩ := cancelIssue_cancelled _ id _ h0
    exact ⟨x', h1, h2⟩

end Compio.KeyLife
