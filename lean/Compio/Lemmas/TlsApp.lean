/-
The native-tls shim after the handshake: application writes, reads and `poll_close`, over the plain scheduled
transport.
-/
import Compio.Lemmas.TlsShim

namespace Compio.TlsShim
open Compio.TlsNet

/-- a transport write of a non-empty cell list over the plain transport -/
theorem ioWrite_direct (sc : Sched) (v : View) (cs : List Cell) (hd : sc.astream = false) (hlim : 1 ≤ sc.lim)
    (hopen : v.tx.closed = false) (hnb : sc.buffering = false → v.tp.wbuf.toList = []) (hne : cs ≠ []) :
    (∃ v', ioWrite sc v cs = (v', .pending .self) ∧ v'.txs = v.txs ∧ v'.rx = v.rx ∧ v'.tx.closed = false ∧
      v'.own = true ∧ v'.tp.hsDone = v.tp.hsDone ∧ v'.tp.wbuf = v.tp.wbuf ∧ v'.tp.cr = v.tp.cr ∧
      v'.tp.cf = v.tp.cf) ∨
    (∃ v' j, ioWrite sc v cs = (v', .ready j) ∧ 1 ≤ j ∧ j ≤ cs.length ∧ j = (cs.take sc.lim).length ∧
      v'.txs = v.txs ++ cs.take sc.lim ∧ v'.rx = v.rx ∧ v'.tx.closed = false ∧ v'.own = v.own ∧
      v'.tp.hsDone = v.tp.hsDone ∧ (sc.buffering = false → v'.tp.wbuf.toList = []) ∧ v'.tp.cr = v.tp.cr ∧
      v'.tp.cf = v.tp.cf) := by
  unfold ioWrite tWrite
  simp only [hd, Bool.false_eq_true, if_false]
  by_cases hlt : v.tp.cw < sc.dw
  · left; simp [hlt, View.txs, hopen]
  · right
    have hemp : cs.isEmpty = false := by cases cs with | nil => exact absurd rfl hne | cons _ _ => rfl
    have hlen : 1 ≤ (cs.take sc.lim).length := by
      cases cs with
      | nil => exact absurd rfl hne
      | cons _ _ => simp [List.length_take]; omega
    have hle : (cs.take sc.lim).length ≤ cs.length := by simp [List.length_take]; omega
    simp only [hlt, if_false, hemp, hopen]
    by_cases hb : sc.buffering = true
    · simp only [hb, if_true]
      exact ⟨_, _, rfl, hlen, hle, rfl, by simp [View.txs, List.append_assoc], rfl, hopen, rfl, rfl,
        fun h => by simp at h, rfl, rfl⟩
    · simp only [hb, Bool.false_eq_true, if_false]
      have h1 := pushTx_txs { v with tp := { v.tp with cw := 0 } } (cs.take sc.lim)
      obtain ⟨h2a, h2b, h2c, h2d⟩ := pushTx_other { v with tp := { v.tp with cw := 0 } } (cs.take sc.lim)
      have hb' : sc.buffering = false := by simpa using hb
      refine ⟨_, _, rfl, hlen, hle, rfl, ?_, h2b, by rw [h2d]; exact hopen, h2c, by rw [h2a],
        fun _ => by rw [h2a]; exact hnb hb', by rw [h2a], by rw [h2a]⟩
      simp only [View.txs, h1, h2a, hnb hb']
      simp

/-- the endpoint of an established stream over the plain transport -/
structure App (sc : Sched) (v : View) : Prop where
  direct : sc.astream = false
  lim : 1 ≤ sc.lim
  open_tx : v.tx.closed = false
  nobuf : sc.buffering = false → v.tp.wbuf.toList = []

/-- everything but the pending record and the `written` flag is the same -/
def SameBut (o o' : Ossl) : Prop :=
  o'.me = o.me ∧ o'.tape = o.tape ∧ o'.post = o.post ∧ o'.outPlain = o.outPlain ∧ o'.close = o.close ∧
  o'.rcvdClose = o.rcvdClose ∧ o'.handshaken = o.handshaken ∧ o'.ctx = o.ctx

theorem SameBut.refl (o : Ossl) : SameBut o o := ⟨rfl, rfl, rfl, rfl, rfl, rfl, rfl, rfl⟩

theorem SameBut.trans {a b c : Ossl} (h1 : SameBut a b) (h2 : SameBut b c) : SameBut a c := by
  obtain ⟨a1, a2, a3, a4, a5, a6, a7, a8⟩ := h1
  obtain ⟨b1, b2, b3, b4, b5, b6, b7, b8⟩ := h2
  exact ⟨b1.trans a1, b2.trans a2, b3.trans a3, b4.trans a4, b5.trans a5, b6.trans a6, b7.trans a7, b8.trans a8⟩

/-- what `pushOut` leaves behind -/
structure PushPost (sc : Sched) (o : Ossl) (v : View) (o' : Ossl) (v' : View) (r : BioR Unit) : Prop where
  app : App sc v'
  same : SameBut o o'
  rx : v'.rx = v.rx
  hsd : v'.tp.hsDone = v.tp.hsDone
  cr : v'.tp.cr = v.tp.cr
  cf : v'.tp.cf = v.tp.cf
  res : match r with
    | .ok () => o'.out = [] ∧ v'.txs = v.txs ++ o.out
    | .wouldBlock p => p = .self ∧ v'.own = true ∧ v'.txs ++ o'.out = v.txs ++ o.out
    | .err => False
    | .panic => False

/-- `pushOut`: the pending record goes to the transport in order; `WouldBlock` keeps the rest -/
theorem pushOut_spec (sc : Sched) : ∀ (fuel : Nat) (o : Ossl) (v : View), App sc v → o.ctx = true →
    o.out.length < fuel →
    PushPost sc o v (pushOut sc fuel o v).1 (pushOut sc fuel o v).2.1 (pushOut sc fuel o v).2.2 := by
  intro fuel
  induction fuel with
  | zero => intro o v _ _ h; omega
  | succ fuel ih =>
    intro o v ha hc hf
    rw [pushOut]
    by_cases he : o.out.isEmpty = true
    · have he' : o.out = [] := List.isEmpty_iff.1 he
      simp only [he, if_true]
      exact ⟨ha, SameBut.refl o, rfl, rfl, rfl, rfl, ⟨he', by simp [he']⟩⟩
    · have hne : o.out ≠ [] := by intro h; simp [h] at he
      simp only [he, Bool.false_eq_true, if_false, bioWrite, hc, Bool.not_true]
      rcases ioWrite_direct sc v o.out ha.direct ha.lim ha.open_tx ha.nobuf hne with
        ⟨v1, heq, h1, h2, h3, h4, h5, h6, h7, h8⟩ | ⟨v1, j, heq, hj1, hj2, hj3, h1, h2, h3, h4, h5, h6, h7, h8⟩
      · simp only [heq]
        exact ⟨⟨ha.direct, ha.lim, h3, fun hb => by rw [h6]; exact ha.nobuf hb⟩, SameBut.refl o, h2, h5, h7, h8,
          ⟨rfl, h4, by rw [h1]⟩⟩
      · simp only [heq]
        have hj0 : j ≠ 0 := by omega
        simp only [hj0, if_false]
        have ha1 : App sc v1 := ⟨ha.direct, ha.lim, h3, h6⟩
        have hlen : ({ o with written := true, out := o.out.drop j, ctx := true } : Ossl).out.length < fuel := by
          simp only [List.length_drop]; omega
        have hih := ih { o with written := true, out := o.out.drop j, ctx := true } v1 ha1 rfl hlen
        have hdrop : o.out.take sc.lim ++ o.out.drop j = o.out := by
          have : o.out.take sc.lim = o.out.take j := by
            rw [hj3, List.take_eq_take_iff, List.length_take]; omega
          rw [this, List.take_append_drop]
        generalize pushOut sc fuel { o with written := true, out := o.out.drop j, ctx := true } v1 = res at hih ⊢
        obtain ⟨o2, v2, r2⟩ := res
        obtain ⟨g1, g2, g3, g4, g5, g6, g7⟩ := hih
        simp only at g1 g2 g3 g4 g5 g6 g7 ⊢
        refine ⟨g1, ?_, by rw [g3, h2], by rw [g4, h5], by rw [g5, h7], by rw [g6, h8], ?_⟩
        · refine SameBut.trans ?_ g2
          simp [SameBut, hc]
        · cases r2 with
          | ok u =>
            cases u
            exact ⟨g7.1, by rw [g7.2, h1, List.append_assoc, hdrop]⟩
          | wouldBlock p =>
            exact ⟨g7.1, g7.2.1, by rw [g7.2.2, h1, List.append_assoc, hdrop]⟩
          | err => exact g7
          | panic => exact g7

/-! ### plaintext of a cell sequence -/

theorem plainOf_append_of_false : ∀ (a b : List Cell), (plainOf a).2 = false →
    plainOf (a ++ b) = ((plainOf a).1 ++ (plainOf b).1, (plainOf b).2)
  | [], b, _ => by simp [plainOf]
  | c :: cs, b, h => by
    cases c with
    | alert => simp [plainOf] at h
    | app x =>
      have h' : (plainOf cs).2 = false := by simpa [plainOf] using h
      simp [plainOf, plainOf_append_of_false cs b h']
    | hs =>
      have h' : (plainOf cs).2 = false := by simpa [plainOf] using h
      simp [plainOf, plainOf_append_of_false cs b h']
    | post =>
      have h' : (plainOf cs).2 = false := by simpa [plainOf] using h
      simp [plainOf, plainOf_append_of_false cs b h']
    | pad =>
      have h' : (plainOf cs).2 = false := by simpa [plainOf] using h
      simp [plainOf, plainOf_append_of_false cs b h']

theorem plainOf_append_of_true : ∀ (a b : List Cell), (plainOf a).2 = true → plainOf (a ++ b) = plainOf a
  | [], b, h => by simp [plainOf] at h
  | c :: cs, b, h => by
    cases c with
    | alert => simp [plainOf]
    | app x =>
      have h' : (plainOf cs).2 = true := by simpa [plainOf] using h
      simp [plainOf, plainOf_append_of_true cs b h']
    | hs =>
      have h' : (plainOf cs).2 = true := by simpa [plainOf] using h
      simp [plainOf, plainOf_append_of_true cs b h']
    | post =>
      have h' : (plainOf cs).2 = true := by simpa [plainOf] using h
      simp [plainOf, plainOf_append_of_true cs b h']
    | pad =>
      have h' : (plainOf cs).2 = true := by simpa [plainOf] using h
      simp [plainOf, plainOf_append_of_true cs b h']

theorem plainOf_pad (n : Nat) : plainOf (List.replicate n Cell.pad) = ([], false) := by
  induction n with
  | zero => simp [plainOf]
  | succ n ih => simp [List.replicate, plainOf, ih]

theorem plainOf_apps (p : List UInt8) : plainOf (p.map Cell.app) = (p, false) := by
  induction p with
  | nil => simp [plainOf]
  | cons x xs ih => simp [plainOf, ih]

/-- a record carries exactly its plaintext -/
theorem plainOf_record (p : List UInt8) : plainOf (record p) = (p, false) := by
  unfold record
  rw [plainOf_append_of_false _ _ (by rw [plainOf_append_of_false _ _ (by rw [plainOf_pad])]; rw [plainOf_apps])]
  rw [plainOf_append_of_false _ _ (by rw [plainOf_pad]), plainOf_pad, plainOf_apps, plainOf_pad]
  simp

theorem plainOf_alertRecord : plainOf alertRecord = ([], true) := by
  unfold alertRecord
  rw [plainOf_append_of_true]
  · rw [plainOf_append_of_false _ _ (by rw [plainOf_pad]), plainOf_pad]; simp [plainOf]
  · rw [plainOf_append_of_false _ _ (by rw [plainOf_pad])]; simp [plainOf]

/-! ### `poll_write` -/

/-- the cells committed towards the peer: in the pipe, in the endpoint buffer, in the pending record -/
def committed (o : Ossl) (v : View) : List Cell := v.txs ++ o.out

/-- **`TlsStream::poll_write`** (native-tls back-end) over any schedule: the plaintext accepted is turned into
one record (at most `recordMax` bytes, on the first attempt only), the record reaches the transport in order and
exactly once; `Ready(n)` is returned when the whole record has been handed over, `Pending` keeps the rest and
has the transport's wake-up; never an error, never a failed context assertion. -/
theorem pollWrite_spec (sc : Sched) (o : Ossl) (v : View) (buf : List UInt8) (ha : App sc v)
    (hcl : o.close = .none) (hfuel : o.out.length < sc.fuel ∧ recordMax + 22 < sc.fuel) (hbuf : buf ≠ []) :
    let r := pollWrite sc o v buf
    App sc r.2.1 ∧ r.1.ctx = false ∧ r.1.close = .none ∧ r.2.1.rx = v.rx ∧
    committed r.1 r.2.1 = committed o v ++ (if o.out = [] then record (buf.take recordMax) else []) ∧
    (match r.2.2 with
      | .ready n => r.1.out = [] ∧ n = (if o.out = [] then (buf.take recordMax).length else o.outPlain)
      | .pending p => p = .self ∧ r.2.1.own = true
      | .err => False
      | .panic => False) := by
  intro r
  have hchunk : buf.take recordMax ≠ [] := by
    cases buf with
    | nil => exact absurd rfl hbuf
    | cons _ _ => simp [recordMax]
  have hcl' : (o.close != CloseState.none) = false := by simp [hcl]
  -- the state `pushOut` starts from
  let o1 : Ossl :=
    if o.out.isEmpty then
      { o with ctx := true, out := record (buf.take recordMax), outPlain := (buf.take recordMax).length }
    else { o with ctx := true }
  have ho1 : pollWrite sc o v buf =
      (match pushOut sc sc.fuel o1 v with
        | (o, v, .ok ()) => ({ o with ctx := false }, v, .ready o.outPlain)
        | (o, v, .wouldBlock p) => ({ o with ctx := false }, v, .pending p)
        | (o, v, .err) => ({ o with ctx := false }, v, .err)
        | (o, v, .panic) => ({ o with ctx := false }, v, .panic)) := by
    simp only [pollWrite, withContext, sslWrite, hcl', Bool.false_eq_true, if_false, o1]
    have hc : ((buf.take recordMax).isEmpty) = false := by
      cases h : buf.take recordMax with
      | nil => exact absurd h hchunk
      | cons _ _ => rfl
    by_cases he : o.out.isEmpty = true
    · simp only [he, if_true, hc, Bool.false_eq_true, if_false]
      generalize pushOut sc sc.fuel _ v = res
      obtain ⟨o2, v2, r2⟩ := res
      cases r2 <;> rfl
    · simp only [he, Bool.false_eq_true, if_false]
      generalize pushOut sc sc.fuel _ v = res
      obtain ⟨o2, v2, r2⟩ := res
      cases r2 <;> rfl
  have hctx1 : o1.ctx = true := by simp only [o1]; split <;> rfl
  have hlen1 : o1.out.length < sc.fuel := by
    simp only [o1]; split
    · simp [record, List.length_take, recordMax] at *; omega
    · exact hfuel.1
  have hout1 : o1.out = o.out ++ (if o.out = [] then record (buf.take recordMax) else []) := by
    simp only [o1]
    by_cases he : o.out.isEmpty = true
    · have := List.isEmpty_iff.1 he; simp [he, this]
    · have : o.out ≠ [] := by intro h; simp [h] at he
      simp [he, this]
  have hplain1 : o1.outPlain = (if o.out = [] then (buf.take recordMax).length else o.outPlain) := by
    simp only [o1]
    by_cases he : o.out.isEmpty = true
    · have := List.isEmpty_iff.1 he; simp [he, this]
    · have : o.out ≠ [] := by intro h; simp [h] at he
      simp [he, this]
  have hclose1 : o1.close = .none := by simp only [o1]; split <;> exact hcl
  have hp := pushOut_spec sc sc.fuel o1 v ha hctx1 hlen1
  show App sc r.2.1 ∧ _
  simp only [r, ho1]
  generalize pushOut sc sc.fuel o1 v = res at hp
  obtain ⟨o2, v2, r2⟩ := res
  obtain ⟨g1, g2, g3, _, _, _, g5⟩ := hp
  simp only at g1 g2 g3 g5
  obtain ⟨_, _, _, s4, s5, _, _, _⟩ := g2
  cases r2 with
  | ok u =>
    cases u
    simp only at g5 ⊢
    refine ⟨g1, trivial, by rw [s5, hclose1], g3, ?_, g5.1, by rw [s4, hplain1]⟩
    simp only [committed, g5.1, g5.2, List.append_nil, hout1, List.append_assoc]
  | wouldBlock p =>
    simp only at g5 ⊢
    refine ⟨g1, trivial, by rw [s5, hclose1], g3, ?_, g5.1, g5.2.1⟩
    simp only [committed, g5.2.2, hout1, List.append_assoc]
  | err => exact absurd g5 id
  | panic => exact absurd g5 id

/-! ### `poll_close` -/

/-- a transport flush over the plain transport -/
theorem ioFlush_direct (sc : Sched) (v : View) (hd : sc.astream = false) :
    (v.tp.cf < flushDelay sc v.tp ∧ ∃ v', ioFlush sc v = (v', .pending .self) ∧ v'.txs = v.txs ∧ v'.rx = v.rx ∧
      v'.tp.wbuf = v.tp.wbuf ∧ v'.tx = v.tx) ∨
    (¬ v.tp.cf < flushDelay sc v.tp ∧ ∃ v', ioFlush sc v = (v', .ready ()) ∧ v'.txs = v.txs ∧ v'.rx = v.rx ∧
      v'.tp.wbuf.toList = [] ∧ v'.tx.closed = v.tx.closed) := by
  unfold ioFlush tFlush
  simp only [hd, Bool.false_eq_true, if_false]
  by_cases hlt : v.tp.cf < flushDelay sc v.tp
  · left; simp [hlt, View.txs]
  · right
    simp only [hlt, if_false]
    refine ⟨not_false, _, rfl, ?_⟩
    unfold drain
    by_cases hw : v.tp.wbuf.isEmpty = true
    · have hw' := (Q.isEmpty_iff _).1 hw
      simp [hw, View.txs, hw']
    · simp only [hw, Bool.false_eq_true, if_false]
      have h1 := pushTx_txs { v with tp := { v.tp with cf := 0, wbuf := Q.empty } } v.tp.wbuf.toList
      obtain ⟨h2a, h2b, _, h2d⟩ := pushTx_other { v with tp := { v.tp with cf := 0, wbuf := Q.empty } } v.tp.wbuf.toList
      refine ⟨?_, h2b, by rw [h2a]; simp, h2d⟩
      simp [View.txs, h1, h2a]

/-- **`TlsStream::poll_close`** (native-tls back-end): `Ready` means the close_notify record has been handed to
the transport, after everything written before. Whether it has *left the endpoint* depends on the transport:
it has when the flush that `SSL_shutdown` issues is not delayed (`flushDelay = 0`: the guard that separates
F150, `Cex.C15.f150_alert_stranded`); `poll_close` neither retries a `Pending` flush nor closes the transport. -/
theorem pollClose_spec (sc : Sched) (o : Ossl) (v : View) (ha : App sc v) (hout : o.out = [])
    (hcl : o.close = .none) (hhs : o.handshaken = true) (hfuel : 24 < sc.fuel) :
    let r := pollClose sc o v
    App sc r.2.1 ∧ r.1.ctx = false ∧ r.2.1.tx.closed = false ∧
    (match r.2.2 with
      | .ready () => r.1.close = .sent ∧ r.1.out = [] ∧ r.2.1.txs = v.txs ++ alertRecord ∧
          (flushDelay sc v.tp = 0 → r.2.1.tp.wbuf.toList = [] ∧ r.2.1.tx.q.toList = v.txs ++ alertRecord)
      | .pending p => p = .self ∧ r.2.1.own = true ∧ r.1.close = .queued ∧
          committed r.1 r.2.1 = v.txs ++ alertRecord
      | .err => False
      | .panic => False) := by
  intro r
  have hsent : (o.close = CloseState.sent) = False := by simp [hcl]
  let o1 : Ossl := { o with ctx := true, out := o.out ++ alertRecord, close := .queued }
  have hlen1 : o1.out.length < sc.fuel := by simp [o1, hout, alertRecord]; omega
  have hp := pushOut_spec sc sc.fuel o1 v ha rfl hlen1
  have hr : r = (match pushOut sc sc.fuel o1 v with
      | (o, v, .ok ()) =>
        let o := { o with close := .sent }
        let x := bioFlush sc o v
        ({ x.1 with ctx := false }, x.2.1, .ready ())
      | (o, v, .wouldBlock p) => ({ o with ctx := false }, v, .pending p)
      | (o, v, .err) => ({ o with ctx := false }, v, .err)
      | (o, v, .panic) => ({ o with ctx := false }, v, .panic)) := by
    simp only [r, pollClose, withContext, sslShutdown, hcl, o1]
    simp only [show (CloseState.none = CloseState.sent) = False by simp, if_false, if_true]
    generalize pushOut sc sc.fuel _ v = res
    obtain ⟨o2, v2, r2⟩ := res
    cases r2 <;> rfl
  rw [hr]
  generalize pushOut sc sc.fuel o1 v = res at hp
  obtain ⟨o2, v2, r2⟩ := res
  obtain ⟨g1, g2, g3, g4, g5c, g6c, g5⟩ := hp
  simp only at g1 g2 g3 g4 g5 g5c g6c
  obtain ⟨_, _, _, _, s5, _, s7, s8⟩ := g2
  cases r2 with
  | err => exact absurd g5 id
  | panic => exact absurd g5 id
  | wouldBlock p =>
    simp only at g5 ⊢
    refine ⟨g1, trivial, g1.open_tx, g5.1, g5.2.1, by rw [s5], ?_⟩
    simp only [committed, g5.2.2, o1, hout, List.nil_append]
  | ok u =>
    cases u
    simp only at g5 ⊢
    have hctx2 : o2.ctx = true := s8
    have hhs2 : o2.handshaken = true := by rw [s7]; exact hhs
    have htxs2 : v2.txs = v.txs ++ alertRecord := by rw [g5.2]; simp [o1, hout]
    have hfd : flushDelay sc v2.tp = flushDelay sc v.tp := by simp only [flushDelay, g4]
    -- the ignored flush
    rcases ioFlush_direct sc v2 ha.direct with ⟨hlt, v3, heq, f1, f2, f3, f4⟩ | ⟨hge, v3, heq, f1, f2, f3, f4⟩
    · have hb : bioFlush sc { o2 with close := .sent } v2 = ({ o2 with close := .sent }, v3, .wouldBlock .self) := by
        simp [bioFlush, hctx2, hhs2, heq]
      simp only [hb]
      refine ⟨⟨ha.direct, ha.lim, by rw [f4]; exact g1.open_tx, fun hb => by rw [f3]; exact g1.nobuf hb⟩, trivial,
        by rw [f4]; exact g1.open_tx, trivial, g5.1, by rw [f1, htxs2], ?_⟩
      intro h0
      rw [hfd, h0] at hlt
      omega
    · have hb : bioFlush sc { o2 with close := .sent } v2 = ({ o2 with close := .sent }, v3, .ok ()) := by
        simp [bioFlush, hctx2, hhs2, heq]
      simp only [hb]
      refine ⟨⟨ha.direct, ha.lim, by rw [f4]; exact g1.open_tx, fun _ => f3⟩, trivial,
        by rw [f4]; exact g1.open_tx, trivial, g5.1, by rw [f1, htxs2], ?_⟩
      intro _
      refine ⟨f3, ?_⟩
      have := f1
      simp only [View.txs, f3, List.append_nil] at this
      rw [this]; exact htxs2

/-! ### `poll_read` -/

/-- a transport read, whatever the state: it takes a prefix of the pipe -/
theorem ioRead_any (sc : Sched) (v : View) (n : Nat) :
    (∃ v', ioRead sc v n = (v', .pending .self) ∧ v'.rxs = v.rxs ∧ v'.own = true ∧ v'.tx = v.tx ∧
      v'.tp.wbuf = v.tp.wbuf) ∨
    (∃ v', ioRead sc v n = (v', .pending .reg) ∧ v'.rxs = v.rxs ∧ v.rxs = [] ∧ v'.rx.rwait = true ∧ v'.tx = v.tx ∧
      v'.tp.wbuf = v.tp.wbuf ∧ v'.own = v.own) ∨
    (∃ v' cs, ioRead sc v n = (v', .ready cs) ∧ v.rxs = cs ++ v'.rxs ∧ cs.length ≤ n ∧ v'.tx = v.tx ∧
      v'.tp.wbuf = v.tp.wbuf ∧ v'.own = v.own) := by
  unfold ioRead tRead
  by_cases hlt : v.tp.cr < sc.dr
  · left; simp [hlt, View.rxs]
  · right
    simp only [hlt, if_false]
    by_cases he : v.rx.q.isEmpty = true
    · have he' := (Q.isEmpty_iff _).1 he
      simp only [he, if_true]
      by_cases hc : (v.rx.closed || n == 0) = true
      · right; simp only [hc, if_true]; exact ⟨_, _, rfl, by simp [View.rxs], by simp, rfl, rfl, rfl⟩
      · left; simp only [hc, Bool.false_eq_true, if_false]
        exact ⟨_, rfl, by simp [View.rxs], by simp [View.rxs, he'], rfl, rfl, rfl, rfl⟩
    · right
      simp only [he, Bool.false_eq_true, if_false]
      refine ⟨_, _, rfl, ?_, ?_, rfl, rfl, rfl⟩
      · simp only [View.rxs, Q.pop_fst, Q.pop_snd, List.take_append_drop]
      · simp only [Q.pop_fst, List.length_take]; omega

theorem plainOf_length_le : ∀ l : List Cell, (plainOf l).1.length ≤ l.length
  | [] => by simp [plainOf]
  | c :: cs => by
    have := plainOf_length_le cs
    cases c <;> simp [plainOf] <;> omega

/-- what `SSL_read` through the shim does to the incoming cells -/
structure ReadPost (n : Nat) (o : Ossl) (v : View) (o' : Ossl) (v' : View) (r : BioR (List UInt8)) : Prop where
  tx : v'.tx = v.tx
  wbuf : v'.tp.wbuf = v.tp.wbuf
  consumed : ∃ C, v.rxs = C ++ v'.rxs ∧
    match r with
    | .ok bs => plainOf C = (bs, o'.rcvdClose) ∧ bs.length ≤ n ∧ (bs = [] → o'.rcvdClose = true)
    | .wouldBlock p => plainOf C = ([], false) ∧ o'.rcvdClose = false ∧
        (p = .self → v'.own = true) ∧ (p = .reg → v'.rx.rwait = true ∧ v'.rxs = [])
    | .err => True
    | .panic => False

theorem sslRead_spec (sc : Sched) (n : Nat) (hn : n ≠ 0) : ∀ (fuel : Nat) (o : Ossl) (v : View),
    o.ctx = true → o.handshaken = true → o.rcvdClose = false →
    ReadPost n o v (sslRead sc n fuel o v).1 (sslRead sc n fuel o v).2.1 (sslRead sc n fuel o v).2.2 := by
  intro fuel
  induction fuel with
  | zero => intro o v _ _ _; exact ⟨rfl, rfl, [], by simp [sslRead]⟩
  | succ fuel ih =>
    intro o v hc hh hrc
    rw [sslRead]
    have hcond : (o.rcvdClose || decide (n = 0)) = false := by simp [hrc, hn]
    simp only [hcond, Bool.false_eq_true, if_false, bioRead, hc, hh, Bool.not_true, Bool.false_and]
    rcases ioRead_any sc v n with ⟨v1, heq, h1, h2, h3, h4⟩ | ⟨v1, heq, h1, h2, h3, h4, h5, h6⟩ |
      ⟨v1, cs, heq, h1, h2, h3, h4, h5⟩
    · simp only [heq]
      exact ⟨h3, h4, [], by simp [h1], by simp [plainOf], hrc, fun _ => h2, fun h => by simp at h⟩
    · simp only [heq]
      exact ⟨h4, h5, [], by simp [h1], by simp [plainOf], hrc, fun h => by simp at h, fun _ => ⟨h3, by rw [h1, h2]⟩⟩
    · simp only [heq]
      by_cases hemp : cs.isEmpty = true
      · simp only [hemp, if_true]
        exact ⟨h3, h4, cs, h1, trivial⟩
      · simp only [hemp, Bool.false_eq_true, if_false]
        cases hp : plainOf cs with
        | mk pl al =>
          simp only
          by_cases hpe : pl.isEmpty = true
          · have hpl : pl = [] := List.isEmpty_iff.1 hpe
            simp only [hpe, Bool.not_true, Bool.false_eq_true, if_false]
            by_cases hal : al = true
            · simp only [hal, if_true]
              refine ⟨h3, h4, cs, h1, ?_, by simp [hpl], fun _ => rfl⟩
              rw [hp, hpl, hal]
            · have hal' : al = false := by simpa using hal
              simp only [hal', Bool.false_eq_true, if_false]
              -- only overhead so far: read on
              have hih := ih o v1 hc hh hrc
              generalize sslRead sc n fuel o v1 = res at hih ⊢
              obtain ⟨o2, v2, r2⟩ := res
              obtain ⟨g1, g2, C, g3, g4⟩ := hih
              simp only at g1 g2 g3 g4 ⊢
              refine ⟨by rw [g1, h3], by rw [g2, h4], cs ++ C, by rw [h1, g3, List.append_assoc], ?_⟩
              have hcat : plainOf (cs ++ C) = plainOf C := by
                rw [plainOf_append_of_false cs C (by rw [hp, hal']), hp, hpl]
                simp
              cases r2 with
              | ok bs => simp only at g4 ⊢; rw [hcat]; exact g4
              | wouldBlock p => simp only at g4 ⊢; rw [hcat]; exact g4
              | err => trivial
              | panic => exact g4
          · simp only [hpe, Bool.not_false, if_true]
            refine ⟨h3, h4, cs, h1, by rw [hp], ?_, fun h => by simp [h] at hpe⟩
            have := plainOf_length_le cs
            rw [hp] at this
            simp only at this; omega

/-- **`TlsStream::poll_read`** (native-tls back-end, established stream): the call consumes a prefix `C` of the
incoming cells; `Ready(bs)` returns exactly the plaintext of `C` (at most `n` bytes; empty only for a
close_notify), `Pending` has consumed overhead / post-handshake cells only and has the transport's wake-up
(`own`, or the waker registered on the empty pipe); the context pointer is cleared again. -/
theorem pollRead_spec (sc : Sched) (o : Ossl) (v : View) (n : Nat) (hn : n ≠ 0) (hh : o.handshaken = true)
    (hrc : o.rcvdClose = false) :
    let r := pollRead sc o v n
    r.1.ctx = false ∧ r.2.1.tx = v.tx ∧ r.2.1.tp.wbuf = v.tp.wbuf ∧
    ∃ C, v.rxs = C ++ r.2.1.rxs ∧
      (match r.2.2 with
        | .ready bs => plainOf C = (bs, r.1.rcvdClose) ∧ bs.length ≤ n ∧ (bs = [] → r.1.rcvdClose = true)
        | .pending p => plainOf C = ([], false) ∧ (p = .self → r.2.1.own = true) ∧
            (p = .reg → r.2.1.rx.rwait = true ∧ r.2.1.rxs = [])
        | .err => True
        | .panic => False) := by
  intro r
  have hs := sslRead_spec sc n hn sc.fuel { o with ctx := true } v rfl hh hrc
  have hr : r = (match sslRead sc n sc.fuel { o with ctx := true } v with
      | (o, v, .ok a) => ({ o with ctx := false }, v, .ready a)
      | (o, v, .wouldBlock p) => ({ o with ctx := false }, v, .pending p)
      | (o, v, .err) => ({ o with ctx := false }, v, .err)
      | (o, v, .panic) => ({ o with ctx := false }, v, .panic)) := by
    simp only [r, pollRead, withContext]
    generalize sslRead sc n sc.fuel _ v = res
    obtain ⟨o2, v2, r2⟩ := res
    cases r2 <;> rfl
  rw [hr]
  generalize sslRead sc n sc.fuel { o with ctx := true } v = res at hs
  obtain ⟨o2, v2, r2⟩ := res
  obtain ⟨g1, g2, C, g3, g4⟩ := hs
  simp only at g1 g2 g3 g4
  cases r2 with
  | ok bs => exact ⟨rfl, g1, g2, C, g3, g4⟩
  | wouldBlock p => exact ⟨rfl, g1, g2, C, g3, g4.1, g4.2.2⟩
  | err => exact ⟨rfl, g1, g2, C, g3, trivial⟩
  | panic => exact absurd g4 id

/-- **in order, exactly once**: the plaintext of a sequence of records followed by anything is the
concatenation of the records' plaintexts followed by the plaintext of the rest -/
theorem plainOf_records : ∀ (ps : List (List UInt8)) (rest : List Cell),
    plainOf ((ps.map record).flatten ++ rest) = (ps.flatten ++ (plainOf rest).1, (plainOf rest).2)
  | [], rest => by simp
  | p :: ps, rest => by
    have ih := plainOf_records ps rest
    simp only [List.map_cons, List.flatten_cons, List.append_assoc]
    rw [plainOf_append_of_false _ _ (by rw [plainOf_record]), plainOf_record, ih]

end Compio.TlsShim
