/-
The native-tls shim after the handshake: application writes, reads and `poll_close`, over the plain scheduled
transport.
-/
import Compio.Lemmas.TlsShim

namespace Compio.TlsShim
open Compio.TlsNet

/-- a transport write of a non-empty cell list over the plain transport -/
theorem ioWrite_direct (sc : Sched) (v : View) (cs : List Cell) (hd : sc.astream = false) (hlim : 1 ≤ sc.lim)
    (hopen : v.tx.closed = false) (hnb : sc.buffering = false → v.tp.wbuf.toList = []) (hne : cs ≠ []) :
    (∃ v', ioWrite sc v cs = (v', .pending .self) ∧ v'.txs = v.txs ∧ v'.rx = v.rx ∧ v'.tx.closed = false ∧
      v'.own = true ∧ v'.tp.hsDone = v.tp.hsDone ∧ v'.tp.wbuf = v.tp.wbuf ∧ v'.tp.cr = v.tp.cr ∧
      v'.tp.cf = v.tp.cf) ∨
    (∃ v' j, ioWrite sc v cs = (v', .ready j) ∧ 1 ≤ j ∧ j ≤ cs.length ∧ j = (cs.take sc.lim).length ∧
      v'.txs = v.txs ++ cs.take sc.lim ∧ v'.rx = v.rx ∧ v'.tx.closed = false ∧ v'.own = v.own ∧
      v'.tp.hsDone = v.tp.hsDone ∧ (sc.buffering = false → v'.tp.wbuf.toList = []) ∧ v'.tp.cr = v.tp.cr ∧
      v'.tp.cf = v.tp.cf) := by
  unfold ioWrite tWrite
  simp only [hd, Bool.false_eq_true, if_false]
  by_cases hlt : v.tp.cw < sc.dw
  · left; simp [hlt, View.txs, hopen]
  · right
    have hemp : cs.isEmpty = false := by cases cs with | nil => exact absurd rfl hne | cons _ _ => rfl
    have hlen : 1 ≤ (cs.take sc.lim).length := by
      cases cs with
      | nil => exact absurd rfl hne
      | cons _ _ => simp [List.length_take]; omega
    have hle : (cs.take sc.lim).length ≤ cs.length := by simp [List.length_take]; omega
    simp only [hlt, if_false, hemp, hopen]
    by_cases hb : sc.buffering = true
    · simp only [hb, if_true]
      exact ⟨_, _, rfl, hlen, hle, rfl, by simp [View.txs, List.append_assoc], rfl, hopen, rfl, rfl,
        fun h => by simp at h, rfl, rfl⟩
    · simp only [hb, Bool.false_eq_true, if_false]
      have h1 := pushTx_txs { v with tp := { v.tp with cw := 0 } } (cs.take sc.lim)
      obtain ⟨h2a, h2b, h2c, h2d⟩ := pushTx_other { v with tp := { v.tp with cw := 0 } } (cs.take sc.lim)
      have hb' : sc.buffering = false := by simpa using hb
      refine ⟨_, _, rfl, hlen, hle, rfl, ?_, h2b, by rw [h2d]; exact hopen, h2c, by rw [h2a],
        fun _ => by rw [h2a]; exact hnb hb', by rw [h2a], by rw [h2a]⟩
      simp only [View.txs, h1, h2a, hnb hb']
      simp

/-- the endpoint of an established stream over the plain transport -/
structure App (sc : Sched) (v : View) : Prop where
  direct : sc.astream = false
  lim : 1 ≤ sc.lim
  open_tx : v.tx.closed = false
  nobuf : sc.buffering = false → v.tp.wbuf.toList = []

/-- everything but the pending record and the `written` flag is the same -/
def SameBut (o o' : Ossl) : Prop :=
  o'.me = o.me ∧ o'.tape = o.tape ∧ o'.post = o.post ∧ o'.outPlain = o.outPlain ∧ o'.close = o.close ∧
  o'.rcvdClose = o.rcvdClose ∧ o'.handshaken = o.handshaken ∧ o'.ctx = o.ctx

theorem SameBut.refl (o : Ossl) : SameBut o o := ⟨rfl, rfl, rfl, rfl, rfl, rfl, rfl, rfl⟩

theorem SameBut.trans {a b c : Ossl} (h1 : SameBut a b) (h2 : SameBut b c) : SameBut a c := by
  obtain ⟨a1, a2, a3, a4, a5, a6, a7, a8⟩ := h1
  obtain ⟨b1, b2, b3, b4, b5, b6, b7, b8⟩ := h2
  exact ⟨b1.trans a1, b2.trans a2, b3.trans a3, b4.trans a4, b5.trans a5, b6.trans a6, b7.trans a7, b8.trans a8⟩

/-- what `pushOut` leaves behind -/
structure PushPost (sc : Sched) (o : Ossl) (v : View) (o' : Ossl) (v' : View) (r : BioR Unit) : Prop where
  app : App sc v'
  same : SameBut o o'
  rx : v'.rx = v.rx
  hsd : v'.tp.hsDone = v.tp.hsDone
  cr : v'.tp.cr = v.tp.cr
  cf : v'.tp.cf = v.tp.cf
  res : match r with
    | .ok () => o'.out = [] ∧ v'.txs = v.txs ++ o.out
    | .wouldBlock p => p = .self ∧ v'.own = true ∧ v'.txs ++ o'.out = v.txs ++ o.out
    | .err => False
    | .panic => False

/-- `pushOut`: the pending record goes to the transport in order; `WouldBlock` keeps the rest -/
theorem pushOut_spec (sc : Sched) : ∀ (fuel : Nat) (o : Ossl) (v : View), App sc v → o.ctx = true →
    o.out.length < fuel →
    PushPost sc o v (pushOut sc fuel o v).1 (pushOut sc fuel o v).2.1 (pushOut sc fuel o v).2.2 := by
  intro fuel
  induction fuel with
  | zero => intro o v _ _ h; omega
  | succ fuel ih =>
    intro o v ha hc hf
    rw [pushOut]
    by_cases he : o.out.isEmpty = true
    · have he' : o.out = [] := List.isEmpty_iff.1 he
      simp only [he, if_true]
      exact ⟨ha, SameBut.refl o, rfl, rfl, rfl, rfl, ⟨he', by simp [he']⟩⟩
    · have hne : o.out ≠ [] := by intro h; simp [h] at he
      simp only [he, Bool.false_eq_true, if_false, bioWrite, hc, Bool.not_true]
      rcases ioWrite_direct sc v o.out ha.direct ha.lim ha.open_tx ha.nobuf hne with
        ⟨v1, heq, h1, h2, h3, h4, h5, h6, h7, h8⟩ | ⟨v1, j, heq, hj1, hj2, hj3, h1, h2, h3, h4, h5, h6, h7, h8⟩
      · simp only [heq]
        exact ⟨⟨ha.direct, ha.lim, h3, fun hb => by rw [h6]; exact ha.nobuf hb⟩, SameBut.refl o, h2, h5, h7, h8,
          ⟨rfl, h4, by rw [h1]⟩⟩
      · simp only [heq]
        have hj0 : j ≠ 0 := by omega
        simp only [hj0, if_false]
        have ha1 : App sc v1 := ⟨ha.direct, ha.lim, h3, h6⟩
        have hlen : ({ o with written := true, out := o.out.drop j, ctx := true } : Ossl).out.length < fuel := by
          simp only [List.length_drop]; omega
        have hih := ih { o with written := true, out := o.out.drop j, ctx := true } v1 ha1 rfl hlen
        have hdrop : o.out.take sc.lim ++ o.out.drop j = o.out := by
          have : o.out.take sc.lim = o.out.take j := by
            rw [hj3, List.take_eq_take_iff, List.length_take]; omega
          rw [this, List.take_append_drop]
        generalize pushOut sc fuel { o with written := true, out := o.out.drop j, ctx := true } v1 = res at hih ⊢
        obtain ⟨o2, v2, r2⟩ := res
        obtain ⟨g1, g2, g3, g4, g5, g6, g7⟩ := hih
        simp only at g1 g2 g3 g4 g5 g6 g7 ⊢
        refine ⟨g1, ?_, by rw [g3, h2], by rw [g4, h5], by rw [g5, h7], by rw [g6, h8], ?_⟩
        · refine SameBut.trans ?_ g2
          simp [SameBut, hc]
        · cases r2 with
          | ok u =>
            cases u
            exact ⟨g7.1, by rw [g7.2, h1, List.append_assoc, hdrop]⟩
          | wouldBlock p =>
            exact ⟨g7.1, g7.2.1, by rw [g7.2.2, h1, List.append_assoc, hdrop]⟩
          | err => exact g7
          | panic => exact g7

/-! ### plaintext of a cell sequence -/

theorem plainOf_append_of_false : ∀ (a b : List Cell), (plainOf a).2 = false →
    plainOf (a ++ b) = ((plainOf a).1 ++ (plainOf b).1, (plainOf b).2)
  | [], b, _ => by simp [plainOf]
  | c :: cs, b, h => by
    cases c with
    | alert => simp [plainOf] at h
    | app x =>
      have h' : (plainOf cs).2 = false := by simpa [plainOf] using h
      simp [plainOf, plainOf_append_of_false cs b h']
    | hs =>
      have h' : (plainOf cs).2 = false := by simpa [plainOf] using h
      simp [plainOf, plainOf_append_of_false cs b h']
    | post =>
      have h' : (plainOf cs).2 = false := by simpa [plainOf] using h
      simp [plainOf, plainOf_append_of_false cs b h']
    | pad =>
      have h' : (plainOf cs).2 = false := by simpa [plainOf] using h
      simp [plainOf, plainOf_append_of_false cs b h']

theorem plainOf_append_of_true : ∀ (a b : List Cell), (plainOf a).2 = true → plainOf (a ++ b) = plainOf a
  | [], b, h => by simp [plainOf] at h
  | c :: cs, b, h => by
    cases c with
    | alert => simp [plainOf]
    | app x =>
      have h' : (plainOf cs).2 = true := by simpa [plainOf] using h
      simp [plainOf, plainOf_append_of_true cs b h']
    | hs =>
      have h' : (plainOf cs).2 = true := by simpa [plainOf] using h
      simp [plainOf, plainOf_append_of_true cs b h']
    | post =>
      have h' : (plainOf cs).2 = true := by simpa [plainOf] using h
      simp [plainOf, plainOf_append_of_true cs b h']
    | pad =>
      have h' : (plainOf cs).2 = true := by simpa [plainOf] using h
      simp [plainOf, plainOf_append_of_true cs b h']

theorem plainOf_pad (n : Nat) : plainOf (List.replicate n Cell.pad) = ([], false) := by
  induction n with
  | zero => simp [plainOf]
  | succ n ih => simp [List.replicate, plainOf, ih]

theorem plainOf_apps (p : List UInt8) : plainOf (p.map Cell.app) = (p, false) := by
  induction p with
  | nil => simp [plainOf]
  | cons x xs ih => simp [plainOf, ih]

/-- a record carries exactly its plaintext -/
theorem plainOf_record (p : List UInt8) : plainOf (record p) = (p, false) := by
  unfold record
  rw [plainOf_append_of_false _ _ (by rw [plainOf_append_of_false _ _ (by rw [plainOf_pad])]; rw [plainOf_apps])]
  rw [plainOf_append_of_false _ _ (by rw [plainOf_pad]), plainOf_pad, plainOf_apps, plainOf_pad]
  simp

theorem plainOf_alertRecord : plainOf alertRecord = ([], true) := by
  unfold alertRecord
  rw [plainOf_append_of_true]
  · rw [plainOf_append_of_false _ _ (by rw [plainOf_pad]), plainOf_pad]; simp [plainOf]
  · rw [plainOf_append_of_false _ _ (by rw [plainOf_pad])]; simp [plainOf]

/-! ### `poll_write` -/

/-- the cells committed towards the peer: in the pipe, in the endpoint buffer, in the pending record -/
def committed (o : Ossl) (v : View) : List Cell := v.txs ++ o.out

/-- **`TlsStream::poll_write`** (native-tls back-end) over any schedule: the plaintext accepted is turned into
one record (at most `recordMax` bytes, on the first attempt only), the record reaches the transport in order and
exactly once; `Ready(n)` is returned when the whole record has been handed over, `Pending` keeps the rest and
has the transport's wake-up; never an error, never a failed context assertion. -/
theorem pollWrite_spec (sc : Sched) (o : Ossl) (v : View) (buf : List UInt8) (ha : App sc v)
    (hcl : o.close = .none) (hfuel : o.out.length < sc.fuel ∧ recordMax + 22 < sc.fuel) (hbuf : buf ≠ []) :
    let r := pollWrite sc o v buf
    App sc r.2.1 ∧ r.1.ctx = false ∧ r.1.close = .none ∧ r.2.1.rx = v.rx ∧
    committed r.1 r.2.1 = committed o v ++ (if o.out = [] then record (buf.take recordMax) else []) ∧
    (match r.2.2 with
      | .ready n => r.1.out = [] ∧ n = (if o.out = [] then (buf.take recordMax).length else o.outPlain)
      | .pending p => p = .self ∧ r.2.1.own = true
      | .err => False
      | .panic => False) := by
  intro r
  have hchunk : buf.take recordMax ≠ [] := by
    cases buf with
    | nil => exact absurd rfl hbuf
    | cons _ _ => simp [recordMax]
  have hcl' : (o.close != CloseState.none) = false := by simp [hcl]
  -- the state `pushOut` starts from
  let o1 : Ossl :=
    if o.out.isEmpty then
      { o with ctx := true, out := record (buf.take recordMax), outPlain := (buf.take recordMax).length }
    else { o with ctx := true }
  have ho1 : pollWrite sc o v buf =
      (match pushOut sc sc.fuel o1 v with
        | (o, v, .ok ()) => ({ o with ctx := false }, v, .ready o.outPlain)
        | (o, v, .wouldBlock p) => ({ o with ctx := false }, v, .pending p)
        | (o, v, .err) => ({ o with ctx := false }, v, .err)
        | (o, v, .panic) => ({ o with ctx := false }, v, .panic)) := by
    simp only [pollWrite, withContext, sslWrite, hcl', Bool.false_eq_true, if_false, o1]
    have hc : ((buf.take recordMax).isEmpty) = false := by
      cases h : buf.take recordMax with
      | nil => exact absurd h hchunk
      | cons _ _ => rfl
    by_cases he : o.out.isEmpty = true
    · simp only [he, if_true, hc, Bool.false_eq_true, if_false]
      generalize pushOut sc sc.fuel _ v = res
      obtain ⟨o2, v2, r2⟩ := res
      cases r2 <;> rfl
    · simp only [he, Bool.false_eq_true, if_false]
      generalize pushOut sc sc.fuel _ v = res
      obtain ⟨o2, v2, r2⟩ := res
      cases r2 <;> rfl
  have hctx1 : o1.ctx = true := by simp only [o1]; split <;> rfl
  have hlen1 : o1.out.length < sc.fuel := by
    simp only [o1]; split
    · simp [record, List.length_take, recordMax] at *; omega
    · exact hfuel.1
  have hout1 : o1.out = o.out ++ (if o.out = [] then record (buf.take recordMax) else []) := by
    simp only [o1]
    by_cases he : o.out.isEmpty = true
    · have := List.isEmpty_iff.1 he; simp [he, this]
    · have : o.out ≠ [] := by intro h; simp [h] at he
      simp [he, this]
  have hplain1 : o1.outPlain = (if o.out = [] then (buf.take recordMax).length else o.outPlain) := by
    simp only [o1]
    by_cases he : o.out.isEmpty = true
    · have := List.isEmpty_iff.1 he; simp [he, this]
    · have : o.out ≠ [] := by intro h; simp [h] at he
      simp [he, this]
  have hclose1 : o1.close = .none := by simp only [o1]; split <;> exact hcl
  have hp := pushOut_spec sc sc.fuel o1 v ha hctx1 hlen1
  show App sc r.2.1 ∧ _
  simp only [r, ho1]
  generalize pushOut sc sc.fuel o1 v = res at hp
  obtain ⟨o2, v2, r2⟩ := res
  obtain ⟨g1, g2, g3, _, _, _, g5⟩ := hp
  simp only at g1 g2 g3 g5
  obtain ⟨_, _, _, s4, s5, _, _, _⟩ := g2
  cases r2 with
  | ok u =>
    cases u
    simp only at g5 ⊢
    refine ⟨g1, trivial, by rw [s5, hclose1], g3, ?_, g5.1, by rw [s4, hplain1]⟩
    simp only [committed, g5.1, g5.2, List.append_nil, hout1, List.append_assoc]
  | wouldBlock p =>
    simp only at g5 ⊢
    refine ⟨g1, trivial, by rw [s5, hclose1], g3, ?_, g5.1, g5.2.1⟩
    simp only [committed, g5.2.2, hout1, List.append_assoc]
  | err => exact absurd g5 id
  | panic => exact absurd g5 id

end Compio.TlsShim
