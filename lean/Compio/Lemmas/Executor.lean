/-
Whole-state lemmas for the home-thread executor model: queue well-formedness, the invariant `Inv`
(every task satisfies `TInv`, cancelled queued tasks are hot, a dropped executor has empty queues) and
its preservation by every operation of Compio/Model/Executor.lean.
-/
import Compio.Lemmas.ExecutorTask

namespace Compio.Executor
open Compio.TaskWord Compio.Gen
set_option linter.unusedSimpArgs false
set_option linter.unusedVariables false

/-! ## Queue well-formedness and the invariant -/

/-- (Q) hot and cold are duplicate-free, disjoint and contain only valid ids -/
structure QWf (e : Exec) : Prop where
  hnd : e.hot.Nodup
  cnd : e.cold.Nodup
  disj : ∀ x, x ∈ e.hot → x ∈ e.cold → False
  hval : ∀ x, x ∈ e.hot → x < e.tasks.length
  cval : ∀ x, x ∈ e.cold → x < e.tasks.length

structure Inv (e : Exec) : Prop where
  q : QWf e
  t : ∀ id t, e.get? id = some t → TInv (inMap e id) t
  /-- a cancelled task that is still in the queue is hot (it was scheduled by `Task::cancel`) -/
  c : ∀ id t, e.get? id = some t → t.word.notCancelled = false → id ∈ e.cold → False
  /-- after `Executor::drop` the queues are empty -/
  dead : e.alive = false → e.hot = [] ∧ e.cold = []

theorem inMap_iff (e : Exec) (id : Nat) : inMap e id = true ↔ id ∈ e.hot ∨ id ∈ e.cold := by
  simp [inMap]

theorem inMap_false_iff (e : Exec) (id : Nat) : inMap e id = false ↔ ¬ (id ∈ e.hot ∨ id ∈ e.cold) := by
  rw [← inMap_iff]; simp

theorem inMap_eq_of_iff (e e' : Exec) (id id' : Nat)
    (h : (id ∈ e.hot ∨ id ∈ e.cold) ↔ (id' ∈ e'.hot ∨ id' ∈ e'.cold)) : inMap e id = inMap e' id' := by
  cases h1 : inMap e id <;> cases h2 : inMap e' id' <;> simp_all [inMap_iff, inMap_false_iff]

theorem get?_lt {e : Exec} {id : Nat} {t : TaskSt} (h : e.get? id = some t) : id < e.tasks.length := by
  unfold Exec.get? at h
  exact (List.getElem?_eq_some_iff.mp h).1

theorem Inv.get_of_mem {e : Exec} (h : Inv e) {id : Nat} (hm : id ∈ e.hot ∨ id ∈ e.cold) :
    ∃ t, e.get? id = some t ∧ TInv true t := by
  have hl : id < e.tasks.length := hm.elim (h.q.hval id) (h.q.cval id)
  refine ⟨e.tasks[id], ?_, ?_⟩
  · simp [Exec.get?, hl]
  · have := h.t id e.tasks[id] (by simp [Exec.get?, hl])
    rwa [(inMap_iff e id).mpr hm] at this

/-- relation between the queues before and after a step that concerns task `id` only -/
structure QStep (hot cold : List Nat) (id : Nat) (hot' cold' : List Nat) : Prop where
  hnd : hot'.Nodup
  cnd : cold'.Nodup
  disj : ∀ x, x ∈ hot' → x ∈ cold' → False
  sub : ∀ x, x ∈ hot' ∨ x ∈ cold' → x ∈ hot ∨ x ∈ cold
  keep : ∀ x, x ≠ id → (x ∈ hot ∨ x ∈ cold) → x ∈ hot' ∨ x ∈ cold'
  coldsub : ∀ x, x ≠ id → x ∈ cold' → x ∈ cold

theorem QStep.refl {e : Exec} (q : QWf e) (id : Nat) : QStep e.hot e.cold id e.hot e.cold :=
  ⟨q.hnd, q.cnd, q.disj, fun _ h => h, fun _ _ h => h, fun _ _ h => h⟩

theorem QStep.makeHot {e : Exec} (q : QWf e) {id : Nat} (hc : id ∈ e.cold) :
    QStep e.hot e.cold id (e.hot ++ [id]) (e.cold.erase id) := by
  have hnh : id ∉ e.hot := fun hh => q.disj id hh hc
  refine ⟨?_, q.cnd.erase id, ?_, ?_, ?_, ?_⟩
  · rw [List.nodup_append]
    refine ⟨q.hnd, by simp, ?_⟩
    intro a ha b hb
    simp at hb; subst hb
    intro hab; subst hab; exact hnh ha
  · intro x hx hx'
    rw [q.cnd.mem_erase_iff] at hx'
    simp at hx
    rcases hx with hx | hx
    · exact q.disj x hx hx'.2
    · exact hx'.1 hx
  · intro x hx
    simp at hx
    rcases hx with (hx | hx) | hx
    · exact Or.inl hx
    · subst hx; exact Or.inr hc
    · exact Or.inr (List.mem_of_mem_erase hx)
  · intro x hne hx
    rcases hx with hx | hx
    · exact Or.inl (by simp [hx])
    · exact Or.inr ((List.mem_erase_of_ne hne).mpr hx)
  · intro x hne hx
    exact List.mem_of_mem_erase hx

theorem QStep.remove {e : Exec} (q : QWf e) (id : Nat) :
    QStep e.hot e.cold id (e.hot.erase id) (e.cold.erase id) := by
  refine ⟨q.hnd.erase id, q.cnd.erase id, ?_, ?_, ?_, ?_⟩
  · intro x hx hx'
    exact q.disj x (List.mem_of_mem_erase hx) (List.mem_of_mem_erase hx')
  · intro x hx
    exact hx.elim (fun h => Or.inl (List.mem_of_mem_erase h)) (fun h => Or.inr (List.mem_of_mem_erase h))
  · intro x hne hx
    exact hx.elim (fun h => Or.inl ((List.mem_erase_of_ne hne).mpr h)) (fun h => Or.inr ((List.mem_erase_of_ne hne).mpr h))
  · intro x hne hx
    exact List.mem_of_mem_erase hx

/-- the three possible queue effects of one loop body of `tick` on the head `id` of the hot list -/
theorem QStep.tick {e : Exec} (q : QWf e) {id : Nat} {rest : List Nat} (hh : e.hot = id :: rest)
    (toHot toCold : Bool) (hx : ¬ (toHot = true ∧ toCold = true)) :
    QStep e.hot e.cold id (rest ++ (if toHot then [id] else [])) (e.cold ++ (if toCold then [id] else [])) := by
  have hnd := q.hnd
  rw [hh, List.nodup_cons] at hnd
  have hnc : id ∉ e.cold := fun hc => q.disj id (by simp [hh]) hc
  have hdisj : ∀ x, x ∈ rest → x ∈ e.cold → False := fun x hx => q.disj x (by simp [hh, hx])
  refine ⟨?_, ?_, ?_, ?_, ?_, ?_⟩
  · cases toHot <;> simp
    · exact hnd.2
    · rw [List.nodup_append]
      refine ⟨hnd.2, by simp, ?_⟩
      intro a ha b hb
      simp at hb; subst hb
      intro hab; subst hab; exact hnd.1 ha
  · cases toCold <;> simp
    · exact q.cnd
    · rw [List.nodup_append]
      refine ⟨q.cnd, by simp, ?_⟩
      intro a ha b hb
      simp at hb; subst hb
      intro hab; subst hab; exact hnc ha
  · intro x h1 h2
    cases toHot <;> cases toCold <;> simp at h1 h2 hx
    · exact hdisj x h1 h2
    · rcases h2 with h2 | h2
      · exact hdisj x h1 h2
      · subst h2; exact hnd.1 h1
    · rcases h1 with h1 | h1
      · exact hdisj x h1 h2
      · subst h1; exact hnc h2
  · intro x h1
    rw [hh]
    simp only [List.mem_append, List.mem_cons] at h1 ⊢
    rcases h1 with (h1 | h1) | (h1 | h1)
    · exact Or.inl (Or.inr h1)
    · cases toHot <;> simp at h1
      exact Or.inl (Or.inl h1)
    · exact Or.inr h1
    · cases toCold <;> simp at h1
      exact Or.inl (Or.inl h1)
  · intro x hne h1
    rw [hh] at h1
    simp at h1
    rcases h1 with (h1 | h1) | h1
    · exact absurd h1 hne
    · exact Or.inl (by simp [h1])
    · exact Or.inr (by simp [h1])
  · intro x hne h1
    cases toCold <;> simp at h1
    · exact h1
    · exact h1.resolve_right hne

theorem Inv.update {e : Exec} (h : Inv e) {id : Nat} {t t' : TaskSt} {hot' cold' : List Nat}
    (hg : e.get? id = some t) (qs : QStep e.hot e.cold id hot' cold') (b : Bool)
    (hb : (id ∈ hot' ∨ id ∈ cold') ↔ b = true) (ht : TInv b t')
    (hc : t'.word.notCancelled = false → id ∈ cold' → False)
    (e' : Exec) (e1 : e'.tasks = e.tasks.set id t') (e2 : e'.hot = hot') (e3 : e'.cold = cold')
    (e4 : e'.alive = e.alive) : Inv e' := by
  have hl := get?_lt hg
  have hlen : e'.tasks.length = e.tasks.length := by simp [e1]
  refine ⟨⟨?_, ?_, ?_, ?_, ?_⟩, ?_, ?_, ?_⟩
  · rw [e2]; exact qs.hnd
  · rw [e3]; exact qs.cnd
  · rw [e2, e3]; exact qs.disj
  · intro x hx
    rw [e2] at hx; rw [hlen]
    exact (qs.sub x (Or.inl hx)).elim (h.q.hval x) (h.q.cval x)
  · intro x hx
    rw [e3] at hx; rw [hlen]
    exact (qs.sub x (Or.inr hx)).elim (h.q.hval x) (h.q.cval x)
  · intro x tx hx
    unfold Exec.get? at hx
    rw [e1] at hx
    by_cases hxi : x = id
    · subst hxi
      rw [List.getElem?_set_self hl] at hx
      cases hx
      have : inMap e' x = b := by
        cases b
        · rw [inMap_false_iff, e2, e3]; simpa using hb
        · rw [inMap_iff, e2, e3]; simpa using hb
      rw [this]; exact ht
    · rw [List.getElem?_set_ne (Ne.symm hxi)] at hx
      have hm : inMap e' x = inMap e x := by
        apply inMap_eq_of_iff
        rw [e2, e3]
        exact ⟨qs.sub x, qs.keep x hxi⟩
      rw [hm]
      exact h.t x tx hx
  · intro x tx hx hnc hcold
    unfold Exec.get? at hx
    rw [e1] at hx
    rw [e3] at hcold
    by_cases hxi : x = id
    · subst hxi
      rw [List.getElem?_set_self hl] at hx
      cases hx
      exact hc hnc hcold
    · rw [List.getElem?_set_ne (Ne.symm hxi)] at hx
      exact h.c x tx hx hnc (qs.coldsub x hxi hcold)
  · intro ha
    rw [e4] at ha
    obtain ⟨d1, d2⟩ := h.dead ha
    rw [e2, e3]
    constructor
    · apply List.eq_nil_iff_forall_not_mem.mpr
      intro x hx
      have := qs.sub x (Or.inl hx)
      simp [d1, d2] at this
    · apply List.eq_nil_iff_forall_not_mem.mpr
      intro x hx
      have := qs.sub x (Or.inr hx)
      simp [d1, d2] at this

/-! ## One loop body of `tick` -/

theorem dropRef_polls (t : TaskSt) : (dropRef t).polls = t.polls := by
  obtain ⟨⟨s, sg, nsw, hw, c, hr, nc, cnt⟩, st, slot, script, sh, hd, wk, polls, fd, rt, rd, ss, sd, de, uaf, bp⟩ := t
  cases hr <;> cases hw <;> simp [dropRef] <;> split <;> split <;> rfl

theorem taskDropByExecutor_polls (t : TaskSt) : (taskDropByExecutor t).polls = t.polls := by
  obtain ⟨⟨s, sg, nsw, hw, c, hr, nc, cnt⟩, st, slot, script, sh, hd, wk, polls, fd, rt, rd, ss, sd, de, uaf, bp⟩ := t
  cases c <;> cases hw <;> cases nsw <;> simp [taskDropByExecutor]

/-- the five things `Task::run` can do to a queued task -/
theorem runTask_cases (t : TaskSt) (hb : t.word.completed = false) :
    (t.word.notCancelled = false ∧ runTask t = (droppedTask t, .dropped, none)) ∨
    (t.word.notCancelled = true ∧
      (runTask t = (polledTask t, .pending, none) ∨ runTask t = (polledTask t, .wokeSelf, none) ∨
       runTask t = (clonedTask t, .pending, none) ∨
       ∃ o, (o = .ready ∨ o = .panic) ∧ t.script.head? = some o ∧ runTask t = (finishedTask t o, .finished,
          if t.word.hasWaker && t.word.notSettingWaker then t.slot else none))) := by
  cases hc : t.word.notCancelled
  · exact Or.inl ⟨rfl, runTask_cancelled t hc⟩
  · refine Or.inr ⟨rfl, ?_⟩
    rcases hs : t.script with _ | ⟨o, r⟩
    · exact Or.inl (runTask_pending t hc hb (Or.inl hs))
    · cases o
      · exact Or.inl (runTask_pending t hc hb (Or.inr ⟨r, hs⟩))
      · exact Or.inr (Or.inl (runTask_wakeSelf t hc hb r hs))
      · exact Or.inr (Or.inr (Or.inl (runTask_clone t hc hb r hs)))
      · exact Or.inr (Or.inr (Or.inr ⟨.ready, Or.inl rfl, by simp, runTask_ready t hc hb _ r hs (Or.inl rfl)⟩))
      · exact Or.inr (Or.inr (Or.inr ⟨.panic, Or.inr rfl, by simp, runTask_ready t hc hb _ r hs (Or.inr rfl)⟩))

theorem get?_setTask_self {e : Exec} {id : Nat} {t : TaskSt} (t' : TaskSt) (h : e.get? id = some t) :
    (e.setTask id t').get? id = some t' := by
  simp [Exec.get?, Exec.setTask, List.getElem?_set_self (get?_lt h)]

theorem get?_setTask_ne (e : Exec) {id x : Nat} (t' : TaskSt) (h : x ≠ id) :
    (e.setTask id t').get? x = e.get? x := by
  simp [Exec.get?, Exec.setTask, List.getElem?_set_ne (Ne.symm h)]

/-- one loop body of `tick` on the head `id` of the hot list, in closed form -/
theorem tickStep_head {e : Exec} (h : Inv e) {id : Nat} {rest : List Nat} (hh : e.hot = id :: rest) :
    ∃ t, e.get? id = some t ∧ TInv true t ∧
      tickStep e id =
        ({ tasks := e.tasks.set id (runTask t).1,
           hot := rest ++ (if (runTask t).2.1 = .wokeSelf then [id] else []),
           cold := e.cold ++ (if (runTask t).2.1 = .pending then [id] else []),
           woken := e.woken ++ (if (runTask t).2.1 = .finished then (runTask t).2.2.toList else []),
           alive := e.alive }, decide ((runTask t).2.1 ≠ .dropped)) := by
  obtain ⟨t, hg, ht⟩ := h.get_of_mem (id := id) (Or.inl (by simp [hh]))
  refine ⟨t, hg, ht, ?_⟩
  have hnd := h.q.hnd
  rw [hh, List.nodup_cons] at hnd
  have hnc : id ∉ e.cold := fun hc => h.q.disj id (by simp [hh]) hc
  have hmc : makeCold e id = { e with hot := rest, cold := e.cold ++ [id] } := by
    simp [makeCold, hh]
  have hg' : (makeCold e id).get? id = some t := by rw [hmc]; exact hg
  have hsh : (polledTask t).shared = true := by simp [polledTask, ht.inq_sh rfl]
  simp only [tickStep, runOne, hg']
  rcases runTask_cases t (ht.inq_c rfl) with ⟨_, hr⟩ | ⟨_, hr | hr | hr | ⟨o, _, _, hr⟩⟩ <;> rw [hr] <;>
    simp [hmc, removeTask, Exec.setTask, hnd.1, hnc, List.erase_append_right, scheduleLocal, Exec.get?,
      List.getElem?_set_self (get?_lt hg), hsh, makeHot]

/-- what `Task::run` guarantees about a queued task, by kind of outcome -/
theorem runTask_spec (t : TaskSt) (ht : TInv true t) :
    (((runTask t).2.1 = .dropped ∨ (runTask t).2.1 = .finished) → TInv false (runTask t).1) ∧
    (((runTask t).2.1 = .pending ∨ (runTask t).2.1 = .wokeSelf) →
        TInv true (runTask t).1 ∧ (runTask t).1.word.notCancelled = true) ∧
    ((runTask t).2.1 = .dropped ↔ t.word.notCancelled = false) ∧
    ((runTask t).2.1 ≠ .dropped → (runTask t).1.polls = t.polls + 1) ∧
    ((runTask t).2.1 = .dropped → (runTask t).1.polls = t.polls) := by
  rcases runTask_cases t (ht.inq_c rfl) with ⟨hc, hr⟩ | ⟨hc, hr | hr | hr | ⟨o, _, _, hr⟩⟩ <;> rw [hr] <;> simp [hc]
  · exact ⟨droppedTask_inv t ht, by simp [droppedTask, dropRef_polls, taskDropByExecutor_polls]⟩
  · exact ⟨⟨polledTask_inv t ht, by simp [polledTask, hc]⟩, by simp [polledTask]⟩
  · exact ⟨⟨polledTask_inv t ht, by simp [polledTask, hc]⟩, by simp [polledTask]⟩
  · exact ⟨⟨clonedTask_inv t ht, by simp [clonedTask, polledTask, hc]⟩, by simp [clonedTask, polledTask]⟩
  · exact ⟨finishedTask_inv t o ht, by simp [finishedTask, dropRef_polls, taskDropByExecutor_polls]⟩

theorem tickStep_inv {e : Exec} (h : Inv e) {id : Nat} {rest : List Nat} (hh : e.hot = id :: rest) :
    Inv (tickStep e id).1 := by
  obtain ⟨t, hg, ht, heq⟩ := tickStep_head h hh
  obtain ⟨s1, s2, s3, s4, s5⟩ := runTask_spec t ht
  have hnd := h.q.hnd
  rw [hh, List.nodup_cons] at hnd
  have hnc : id ∉ e.cold := fun hc => h.q.disj id (by simp [hh]) hc
  rw [heq]
  cases hk : (runTask t).2.1 <;> rw [hk] at s1 s2 <;> simp only [hk]
  · exact h.update hg (QStep.tick h.q hh false false (by simp)) false (by simp [hnd.1, hnc]) (s1 (Or.inl rfl))
      (by simp [hnc]) _ rfl (by simp) (by simp) rfl
  · exact h.update hg (QStep.tick h.q hh false true (by simp)) true (by simp) (s2 (Or.inl rfl)).1
      (by simp [(s2 (Or.inl rfl)).2]) _ rfl (by simp) (by simp) rfl
  · exact h.update hg (QStep.tick h.q hh true false (by simp)) true (by simp) (s2 (Or.inr rfl)).1
      (by simp [(s2 (Or.inr rfl)).2]) _ rfl (by simp) (by simp) rfl
  · exact h.update hg (QStep.tick h.q hh false false (by simp)) false (by simp [hnd.1, hnc]) (s1 (Or.inr rfl))
      (by simp [hnc]) _ rfl (by simp) (by simp) rfl

end Compio.Executor
