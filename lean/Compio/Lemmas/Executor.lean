/-
Helper lemmas for the home-thread executor model (Compio/Model/Executor.lean): what every function
regenerated from task/state.rs does to the explicit fields of the word, the per-task lifecycle invariant
`TInv` and its preservation by every per-task step, the queue well-formedness and the whole-state
invariant `Inv` with its preservation by every operation.
-/
import Compio.Model.Executor

namespace Compio.Executor
open Compio.TaskWord Compio.Gen

/-! ## The generated word operations on explicit fields
(these `rfl` lemmas break when task/state.rs changes a mask — intended) -/

@[simp] theorem g_new (n : Nat) : TaskState.new n =
    ⟨false, false, true, false, false, false, true, n⟩ := rfl
@[simp] theorem g_unschedule (w : Word) : TaskState.unschedule w = { w with scheduled := false } := rfl
@[simp] theorem g_setDropped (w : Word) :
    TaskState.setDropped w = { w with hasWaker := false, notCancelled := false } := rfl
@[simp] theorem g_setCancelled (w : Word) : TaskState.setCancelled w = { w with notCancelled := false } := rfl
@[simp] theorem g_finishRunning (w : Word) :
    TaskState.finishRunning w = { w with completed := true, hasResult := true } := rfl
@[simp] theorem g_setHasResultFalse (w : Word) : TaskState.setHasResultFalse w = { w with hasResult := false } := rfl
@[simp] theorem g_setHasWakerTrue (w : Word) : TaskState.setHasWakerTrue w = { w with hasWaker := true } := rfl
@[simp] theorem g_inc (w : Word) : TaskState.inc w = { w with count := w.count + 1 } := rfl
@[simp] theorem g_dec (w : Word) : TaskState.dec w = { w with count := w.count - 1 } := rfl
@[simp] theorem g_load (w : Word) : TaskState.load w = w := rfl
@[simp] theorem g_isCancelled (w : Word) : TaskState.isCancelled w = !w.notCancelled := rfl
@[simp] theorem g_isCompleted (w : Word) : TaskState.isCompleted w = w.completed := rfl
@[simp] theorem g_isSettingWaker (w : Word) : TaskState.isSettingWaker w = !w.notSettingWaker := rfl
@[simp] theorem g_hasWaker (w : Word) : TaskState.hasWaker w = w.hasWaker := rfl
@[simp] theorem g_hasResult (w : Word) : TaskState.hasResult w = w.hasResult := rfl
@[simp] theorem g_count (w : Word) : TaskState.count w = w.count := rfl

/-! ## Per-task invariant -/

/-- number of `Task` references that exist: the executor's (while the task is in the queue), the
join handle's, and one per live waker clone -/
def holders (inQ : Bool) (t : TaskSt) : Nat :=
  (if inQ then 1 else 0) + (if t.handle then 1 else 0) + t.wakers

def isRes : Storage → Bool
  | .resultOk | .resultPanic => true
  | _ => false

/-- lifecycle invariant of one task; `inQ` = the task is still in the executor's map (hot or cold) -/
structure TInv (inQ : Bool) (t : TaskSt) : Prop where
  /-- (R) reference count = number of holders, while allocated -/
  rc : t.deallocs = 0 → t.word.count = holders inQ t
  /-- (D) freed exactly when there is no holder left, at most once -/
  dl : t.deallocs = (if holders inQ t = 0 then 1 else 0)
  /-- (D) nothing touches the allocation after it was freed -/
  uaf : t.uaf = 0
  /-- (F) in the queue: the future is there, not dropped, not completed, `shared` valid -/
  inq_st : inQ = true → t.storage = .future
  inq_fd : inQ = true → t.futDrops = 0
  inq_c : inQ = true → t.word.completed = false
  inq_sh : inQ = true → t.shared = true
  /-- (F) out of the queue: the future was dropped exactly once, `Task::drop` ran -/
  outq_fd : inQ = false → t.futDrops = 1
  outq_sh : inQ = false → t.shared = false
  outq_nc : inQ = false → t.word.notCancelled = false
  outq_slot : inQ = false → t.slot = none
  outq_st : inQ = false → t.storage ≠ .future
  outq_empty : inQ = false → t.word.hasResult = false ∨ t.deallocs = 1 → t.storage = .empty
  /-- (P) never polled after completion -/
  bp : t.badPolls = 0
  /-- the home thread never leaves the SETTING_WAKER section open -/
  nsw : t.word.notSettingWaker = true
  /-- (S) HAS_RESULT ⇔ the storage holds a result, while allocated -/
  res : t.deallocs = 0 → t.word.hasResult = isRes t.storage
  resc : t.word.hasResult = true → t.word.completed = true
  /-- (S) the result is taken or dropped exactly once after it left the storage -/
  cnt : t.resTaken + t.resDrops = (if t.word.completed && (!t.word.hasResult || t.deallocs == 1) then 1 else 0)
  /-- (W) HAS_WAKER ⇔ the slot is occupied -/
  wk : t.word.hasWaker = t.slot.isSome
  /-- (W) every join waker written is dropped once, except the one still in the slot -/
  sl : t.slotSets = t.slotDrops + (if t.slot.isSome then 1 else 0)
  /-- a live handle on a completed task finds the result (`unreachable!` in `Local::poll`) -/
  hd : t.handle = true → t.word.completed = true → t.word.hasResult = true

end Compio.Executor
