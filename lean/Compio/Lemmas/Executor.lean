/-
Whole-state lemmas for the home-thread executor model: queue well-formedness, the invariant `Inv`
(every task satisfies `TInv`, cancelled queued tasks are hot, a dropped executor has empty queues) and
its preservation by every operation of Compio/Model/Executor.lean.
-/
import Compio.Lemmas.ExecutorTask

namespace Compio.Executor
open Compio.TaskWord Compio.Gen
set_option linter.unusedSimpArgs false
set_option linter.unusedVariables false

/-! ## Queue well-formedness and the invariant -/

/-- (Q) hot and cold are duplicate-free, disjoint and contain only valid ids -/
structure QWf (e : Exec) : Prop where
  hnd : e.hot.Nodup
  cnd : e.cold.Nodup
  disj : ∀ x, x ∈ e.hot → x ∈ e.cold → False
  hval : ∀ x, x ∈ e.hot → x < e.tasks.length
  cval : ∀ x, x ∈ e.cold → x < e.tasks.length

structure Inv (e : Exec) : Prop where
  q : QWf e
  t : ∀ id t, e.get? id = some t → TInv (inMap e id) t
  /-- a cancelled task that is still in the queue is hot or waits in the sync queue (it was scheduled by
  `Task::cancel`): the next tick reaches it -/
  c : ∀ id t, e.get? id = some t → t.word.notCancelled = false → id ∈ e.cold → id ∈ e.sync ∨ e.inflight = some id
  /-- a queued task whose SCHEDULED bit is set (a cross-thread wake was accepted) is hot, or waits in the
  sync queue, or is the id a blocked `Remote::schedule` is about to push -/
  s : ∀ id t, e.get? id = some t → t.word.scheduled = true → id ∈ e.cold → id ∈ e.sync ∨ e.inflight = some id
  /-- after `Executor::drop` the queues are empty -/
  dead : e.alive = false → e.hot = [] ∧ e.cold = []
  /-- `pending` is an upper bound of the ids in (or about to enter) the sync queue: the fast path of
  `drain_sync` never skips one, and a reservation survives a drain -/
  p : e.sync.length + (if e.inflight.isSome then 1 else 0) ≤ e.pending

theorem inMap_iff (e : Exec) (id : Nat) : inMap e id = true ↔ id ∈ e.hot ∨ id ∈ e.cold := by
  simp [inMap]

theorem inMap_false_iff (e : Exec) (id : Nat) : inMap e id = false ↔ ¬ (id ∈ e.hot ∨ id ∈ e.cold) := by
  rw [← inMap_iff]; simp

theorem inMap_eq_of_iff (e e' : Exec) (id id' : Nat)
    (h : (id ∈ e.hot ∨ id ∈ e.cold) ↔ (id' ∈ e'.hot ∨ id' ∈ e'.cold)) : inMap e id = inMap e' id' := by
  cases h1 : inMap e id <;> cases h2 : inMap e' id' <;> simp_all [inMap_iff, inMap_false_iff]

theorem get?_lt {e : Exec} {id : Nat} {t : TaskSt} (h : e.get? id = some t) : id < e.tasks.length := by
  unfold Exec.get? at h
  exact (List.getElem?_eq_some_iff.mp h).1

theorem Inv.get_of_mem {e : Exec} (h : Inv e) {id : Nat} (hm : id ∈ e.hot ∨ id ∈ e.cold) :
    ∃ t, e.get? id = some t ∧ TInv true t := by
  have hl : id < e.tasks.length := hm.elim (h.q.hval id) (h.q.cval id)
  refine ⟨e.tasks[id], ?_, ?_⟩
  · simp [Exec.get?, hl]
  · have := h.t id e.tasks[id] (by simp [Exec.get?, hl])
    rwa [(inMap_iff e id).mpr hm] at this

/-- relation between the queues before and after a step that concerns task `id` only -/
structure QStep (hot cold : List Nat) (id : Nat) (hot' cold' : List Nat) : Prop where
  hnd : hot'.Nodup
  cnd : cold'.Nodup
  disj : ∀ x, x ∈ hot' → x ∈ cold' → False
  sub : ∀ x, x ∈ hot' ∨ x ∈ cold' → x ∈ hot ∨ x ∈ cold
  keep : ∀ x, x ≠ id → (x ∈ hot ∨ x ∈ cold) → x ∈ hot' ∨ x ∈ cold'
  coldsub : ∀ x, x ≠ id → x ∈ cold' → x ∈ cold

theorem QStep.refl {e : Exec} (q : QWf e) (id : Nat) : QStep e.hot e.cold id e.hot e.cold :=
  ⟨q.hnd, q.cnd, q.disj, fun _ h => h, fun _ _ h => h, fun _ _ h => h⟩

theorem QStep.makeHot {e : Exec} (q : QWf e) {id : Nat} (hc : id ∈ e.cold) :
    QStep e.hot e.cold id (e.hot ++ [id]) (e.cold.erase id) := by
  have hnh : id ∉ e.hot := fun hh => q.disj id hh hc
  refine ⟨?_, q.cnd.erase id, ?_, ?_, ?_, ?_⟩
  · rw [List.nodup_append]
    refine ⟨q.hnd, by simp, ?_⟩
    intro a ha b hb
    simp at hb; subst hb
    intro hab; subst hab; exact hnh ha
  · intro x hx hx'
    rw [q.cnd.mem_erase_iff] at hx'
    simp at hx
    rcases hx with hx | hx
    · exact q.disj x hx hx'.2
    · exact hx'.1 hx
  · intro x hx
    simp at hx
    rcases hx with (hx | hx) | hx
    · exact Or.inl hx
    · subst hx; exact Or.inr hc
    · exact Or.inr (List.mem_of_mem_erase hx)
  · intro x hne hx
    rcases hx with hx | hx
    · exact Or.inl (by simp [hx])
    · exact Or.inr ((List.mem_erase_of_ne hne).mpr hx)
  · intro x hne hx
    exact List.mem_of_mem_erase hx

theorem QStep.remove {e : Exec} (q : QWf e) (id : Nat) :
    QStep e.hot e.cold id (e.hot.erase id) (e.cold.erase id) := by
  refine ⟨q.hnd.erase id, q.cnd.erase id, ?_, ?_, ?_, ?_⟩
  · intro x hx hx'
    exact q.disj x (List.mem_of_mem_erase hx) (List.mem_of_mem_erase hx')
  · intro x hx
    exact hx.elim (fun h => Or.inl (List.mem_of_mem_erase h)) (fun h => Or.inr (List.mem_of_mem_erase h))
  · intro x hne hx
    exact hx.elim (fun h => Or.inl ((List.mem_erase_of_ne hne).mpr h)) (fun h => Or.inr ((List.mem_erase_of_ne hne).mpr h))
  · intro x hne hx
    exact List.mem_of_mem_erase hx

/-- the three possible queue effects of one loop body of `tick` on the head `id` of the hot list -/
theorem QStep.tick {e : Exec} (q : QWf e) {id : Nat} {rest : List Nat} (hh : e.hot = id :: rest)
    (toHot toCold : Bool) (hx : ¬ (toHot = true ∧ toCold = true)) :
    QStep e.hot e.cold id (rest ++ (if toHot then [id] else [])) (e.cold ++ (if toCold then [id] else [])) := by
  have hnd := q.hnd
  rw [hh, List.nodup_cons] at hnd
  have hnc : id ∉ e.cold := fun hc => q.disj id (by simp [hh]) hc
  have hdisj : ∀ x, x ∈ rest → x ∈ e.cold → False := fun x hx => q.disj x (by simp [hh, hx])
  refine ⟨?_, ?_, ?_, ?_, ?_, ?_⟩
  · cases toHot <;> simp
    · exact hnd.2
    · rw [List.nodup_append]
      refine ⟨hnd.2, by simp, ?_⟩
      intro a ha b hb
      simp at hb; subst hb
      intro hab; subst hab; exact hnd.1 ha
  · cases toCold <;> simp
    · exact q.cnd
    · rw [List.nodup_append]
      refine ⟨q.cnd, by simp, ?_⟩
      intro a ha b hb
      simp at hb; subst hb
      intro hab; subst hab; exact hnc ha
  · intro x h1 h2
    cases toHot <;> cases toCold <;> simp at h1 h2 hx
    · exact hdisj x h1 h2
    · rcases h2 with h2 | h2
      · exact hdisj x h1 h2
      · subst h2; exact hnd.1 h1
    · rcases h1 with h1 | h1
      · exact hdisj x h1 h2
      · subst h1; exact hnc h2
  · intro x h1
    rw [hh]
    simp only [List.mem_append, List.mem_cons] at h1 ⊢
    rcases h1 with (h1 | h1) | (h1 | h1)
    · exact Or.inl (Or.inr h1)
    · cases toHot <;> simp at h1
      exact Or.inl (Or.inl h1)
    · exact Or.inr h1
    · cases toCold <;> simp at h1
      exact Or.inl (Or.inl h1)
  · intro x hne h1
    rw [hh] at h1
    simp at h1
    rcases h1 with (h1 | h1) | h1
    · exact absurd h1 hne
    · exact Or.inl (by simp [h1])
    · exact Or.inr (by simp [h1])
  · intro x hne h1
    cases toCold <;> simp at h1
    · exact h1
    · exact h1.resolve_right hne

theorem Inv.update {e : Exec} (h : Inv e) {id : Nat} {t t' : TaskSt} {hot' cold' : List Nat}
    (hg : e.get? id = some t) (qs : QStep e.hot e.cold id hot' cold') (b : Bool)
    (hb : (id ∈ hot' ∨ id ∈ cold') ↔ b = true) (ht : TInv b t')
    (e' : Exec) (e1 : e'.tasks = e.tasks.set id t') (e2 : e'.hot = hot') (e3 : e'.cold = cold')
    (e4 : e'.alive = e.alive)
    (hc : t'.word.notCancelled = false → id ∈ cold' → id ∈ e'.sync ∨ e'.inflight = some id)
    (hs : t'.word.scheduled = true → id ∈ cold' → id ∈ e'.sync ∨ e'.inflight = some id)
    (hsyn : ∀ x, x ≠ id → x ∈ cold' → (x ∈ e.sync ∨ e.inflight = some x) → (x ∈ e'.sync ∨ e'.inflight = some x))
    (hp : e'.sync.length + (if e'.inflight.isSome then 1 else 0) ≤ e'.pending) : Inv e' := by
  have hl := get?_lt hg
  have hlen : e'.tasks.length = e.tasks.length := by simp [e1]
  refine ⟨⟨?_, ?_, ?_, ?_, ?_⟩, ?_, ?_, ?_, ?_, hp⟩
  · rw [e2]; exact qs.hnd
  · rw [e3]; exact qs.cnd
  · rw [e2, e3]; exact qs.disj
  · intro x hx
    rw [e2] at hx; rw [hlen]
    exact (qs.sub x (Or.inl hx)).elim (h.q.hval x) (h.q.cval x)
  · intro x hx
    rw [e3] at hx; rw [hlen]
    exact (qs.sub x (Or.inr hx)).elim (h.q.hval x) (h.q.cval x)
  · intro x tx hx
    unfold Exec.get? at hx
    rw [e1] at hx
    by_cases hxi : x = id
    · subst hxi
      rw [List.getElem?_set_self hl] at hx
      cases hx
      have : inMap e' x = b := by
        cases b
        · rw [inMap_false_iff, e2, e3]; simpa using hb
        · rw [inMap_iff, e2, e3]; simpa using hb
      rw [this]; exact ht
    · rw [List.getElem?_set_ne (Ne.symm hxi)] at hx
      have hm : inMap e' x = inMap e x := by
        apply inMap_eq_of_iff
        rw [e2, e3]
        exact ⟨qs.sub x, qs.keep x hxi⟩
      rw [hm]
      exact h.t x tx hx
  · intro x tx hx hnc hcold
    unfold Exec.get? at hx
    rw [e1] at hx
    rw [e3] at hcold
    by_cases hxi : x = id
    · subst hxi
      rw [List.getElem?_set_self hl] at hx
      cases hx
      exact hc hnc hcold
    · rw [List.getElem?_set_ne (Ne.symm hxi)] at hx
      exact hsyn x hxi hcold (h.c x tx hx hnc (qs.coldsub x hxi hcold))
  · intro x tx hx hsc hcold
    unfold Exec.get? at hx
    rw [e1] at hx
    rw [e3] at hcold
    by_cases hxi : x = id
    · subst hxi
      rw [List.getElem?_set_self hl] at hx
      cases hx
      exact hs hsc hcold
    · rw [List.getElem?_set_ne (Ne.symm hxi)] at hx
      exact hsyn x hxi hcold (h.s x tx hx hsc (qs.coldsub x hxi hcold))
  · intro ha
    rw [e4] at ha
    obtain ⟨d1, d2⟩ := h.dead ha
    rw [e2, e3]
    constructor
    · apply List.eq_nil_iff_forall_not_mem.mpr
      intro x hx
      have := qs.sub x (Or.inl hx)
      simp [d1, d2] at this
    · apply List.eq_nil_iff_forall_not_mem.mpr
      intro x hx
      have := qs.sub x (Or.inr hx)
      simp [d1, d2] at this

theorem get?_setTask_self {e : Exec} {id : Nat} {t : TaskSt} (t' : TaskSt) (h : e.get? id = some t) :
    (e.setTask id t').get? id = some t' := by
  simp [Exec.get?, Exec.setTask, List.getElem?_set_self (get?_lt h)]

theorem get?_setTask_ne (e : Exec) {id x : Nat} (t' : TaskSt) (h : x ≠ id) :
    (e.setTask id t').get? x = e.get? x := by
  simp [Exec.get?, Exec.setTask, List.getElem?_set_ne (Ne.symm h)]

theorem tasks_set_same {e : Exec} {id : Nat} {t : TaskSt} (hg : e.get? id = some t) : e.tasks.set id t = e.tasks := by
  apply List.ext_getElem?
  intro i
  by_cases hi : id = i
  · subst hi; rw [List.getElem?_set_self (get?_lt hg)]; exact hg.symm
  · rw [List.getElem?_set_ne hi]

/-- a step that moves task `id` between the queues without touching any task -/
theorem Inv.requeue {e : Exec} (h : Inv e) {id : Nat} {t : TaskSt} {hot' cold' : List Nat}
    (hg : e.get? id = some t) (qs : QStep e.hot e.cold id hot' cold')
    (hb : (id ∈ hot' ∨ id ∈ cold') ↔ (id ∈ e.hot ∨ id ∈ e.cold))
    (e' : Exec) (e1 : e'.tasks = e.tasks) (e2 : e'.hot = hot') (e3 : e'.cold = cold')
    (e4 : e'.alive = e.alive) (e5 : e'.sync = e.sync) (e6 : e'.pending = e.pending)
    (e7 : e'.inflight = e.inflight) (hc : id ∈ cold' → id ∈ e.cold) : Inv e' := by
  refine h.update hg qs (inMap e id) (by rw [hb, inMap_iff]) (h.t id t hg) e'
    (by rw [e1, tasks_set_same hg]) e2 e3 e4 ?_ ?_ ?_ (by rw [e5, e6, e7]; exact h.p)
  · intro hn hcold; rw [e5, e7]; exact h.c id t hg hn (hc hcold)
  · intro h1 hcold; rw [e5, e7]; exact h.s id t hg h1 (hc hcold)
  · intro x _ _ hx; rw [e5, e7]; exact hx

/-! ## `Shared::drain_sync` -/

theorem makeHot_fields (e : Exec) (id : Nat) :
    (makeHot e id).tasks = e.tasks ∧ (makeHot e id).woken = e.woken ∧ (makeHot e id).alive = e.alive ∧
    (makeHot e id).sync = e.sync ∧ (makeHot e id).pending = e.pending ∧ (makeHot e id).cap = e.cap ∧
    (makeHot e id).outstanding = e.outstanding ∧ (makeHot e id).inflight = e.inflight := by
  unfold makeHot; split <;> simp

/-- what a run of `make_hot` over a list of ids does to the queues -/
theorem foldl_makeHot (l : List Nat) : ∀ (e : Exec), e.hot.Nodup → e.cold.Nodup →
    (∀ x, x ∈ e.hot → x ∈ e.cold → False) →
    ((l.foldl makeHot e).tasks = e.tasks ∧ (l.foldl makeHot e).woken = e.woken ∧
      (l.foldl makeHot e).alive = e.alive ∧ (l.foldl makeHot e).sync = e.sync ∧
      (l.foldl makeHot e).pending = e.pending ∧ (l.foldl makeHot e).cap = e.cap ∧
      (l.foldl makeHot e).outstanding = e.outstanding ∧ (l.foldl makeHot e).inflight = e.inflight) ∧
    (l.foldl makeHot e).hot.Nodup ∧ (l.foldl makeHot e).cold.Nodup ∧
    (∀ x, x ∈ (l.foldl makeHot e).hot → x ∈ (l.foldl makeHot e).cold → False) ∧
    (∃ w, (l.foldl makeHot e).hot = e.hot ++ w ∧ w.length ≤ l.length ∧ ∀ x, x ∈ w → x ∈ e.cold ∧ x ∈ l) ∧
    (∀ x, x ∈ (l.foldl makeHot e).cold ↔ (x ∈ e.cold ∧ x ∉ l)) ∧
    (∀ x, (x ∈ (l.foldl makeHot e).hot ∨ x ∈ (l.foldl makeHot e).cold) ↔ (x ∈ e.hot ∨ x ∈ e.cold)) := by
  induction l with
  | nil =>
    intro e hh hc hd
    exact ⟨⟨rfl, rfl, rfl, rfl, rfl, rfl, rfl, rfl⟩, hh, hc, hd, ⟨[], by simp, by simp, by simp⟩, by simp, by simp⟩
  | cons a l ih =>
    intro e hh hc hd
    have hf := makeHot_fields e a
    by_cases ha : a ∈ e.cold
    · have hm : makeHot e a = { e with cold := e.cold.erase a, hot := e.hot ++ [a], qlog := e.qlog ++ [.makeHot a] } := by
        simp [makeHot, ha]
      have hnh : a ∉ e.hot := fun h1 => hd a h1 ha
      have hh' : (makeHot e a).hot.Nodup := by
        rw [hm]; simp only
        rw [List.nodup_append]
        refine ⟨hh, by simp, ?_⟩
        intro x hx b hb
        simp at hb; subst hb
        intro hxb; subst hxb; exact hnh hx
      have hc' : (makeHot e a).cold.Nodup := by rw [hm]; exact hc.erase a
      have hd' : ∀ x, x ∈ (makeHot e a).hot → x ∈ (makeHot e a).cold → False := by
        rw [hm]; simp only
        intro x hx hx'
        rw [hc.mem_erase_iff] at hx'
        simp at hx
        rcases hx with hx | hx
        · exact hd x hx hx'.2
        · exact hx'.1 hx
      obtain ⟨f, i1, i2, i3, ⟨w, iw, iwl, iw'⟩, i5, i6⟩ := ih (makeHot e a) hh' hc' hd'
      simp only [List.foldl_cons]
      refine ⟨?_, i1, i2, i3, ?_, ?_, ?_⟩
      · obtain ⟨f1, f2, f3, f4, f5, f6, f7, f8⟩ := f
        obtain ⟨g1, g2, g3, g4, g5, g6, g7, g8⟩ := hf
        exact ⟨f1.trans g1, f2.trans g2, f3.trans g3, f4.trans g4, f5.trans g5, f6.trans g6, f7.trans g7, f8.trans g8⟩
      · refine ⟨a :: w, by rw [iw, hm]; simp, by simp; omega, ?_⟩
        intro x hx
        simp at hx
        rcases hx with hx | hx
        · subst hx; exact ⟨ha, by simp⟩
        · have := iw' x hx
          rw [hm] at this
          exact ⟨List.mem_of_mem_erase this.1, by simp [this.2]⟩
      · intro x
        rw [i5 x, hm]; simp only
        rw [hc.mem_erase_iff]
        simp
        constructor
        · rintro ⟨⟨h1, h2⟩, h3⟩; exact ⟨h2, h1, h3⟩
        · rintro ⟨h1, h2, h3⟩; exact ⟨⟨h2, h1⟩, h3⟩
      · intro x
        rw [i6 x, hm]; simp only
        by_cases hxa : x = a
        · subst hxa; simp [ha]
        · simp [List.mem_erase_of_ne hxa, hxa]
    · have hm : makeHot e a = e := by simp [makeHot, ha]
      have := ih e hh hc hd
      simp only [List.foldl_cons, hm]
      obtain ⟨f, i1, i2, i3, ⟨w, iw, iwl, iw'⟩, i5, i6⟩ := this
      refine ⟨f, i1, i2, i3, ⟨w, iw, by simp; omega, fun x hx => ⟨(iw' x hx).1, by simp [(iw' x hx).2]⟩⟩, ?_, i6⟩
      intro x
      rw [i5 x]
      constructor
      · rintro ⟨h1, h2⟩
        refine ⟨h1, ?_⟩
        simp
        exact ⟨fun hxa => ha (hxa ▸ h1), h2⟩
      · rintro ⟨h1, h2⟩
        simp at h2
        exact ⟨h1, h2.2⟩

/-- facts about `drain_sync` in a state satisfying the invariant -/
structure DrainFacts (e e' : Exec) : Prop where
  tasks : e'.tasks = e.tasks
  woken : e'.woken = e.woken
  alive : e'.alive = e.alive
  cap : e'.cap = e.cap
  outstanding : e'.outstanding = e.outstanding
  inflight : e'.inflight = e.inflight
  sync : e'.sync = []
  hot : ∃ w, e'.hot = e.hot ++ w ∧ w.length ≤ e.sync.length ∧ ∀ x, x ∈ w → x ∈ e.cold ∧ x ∈ e.sync
  cold : ∀ x, x ∈ e'.cold ↔ (x ∈ e.cold ∧ x ∉ e.sync)
  mem : ∀ x, (x ∈ e'.hot ∨ x ∈ e'.cold) ↔ (x ∈ e.hot ∨ x ∈ e.cold)
  inv : Inv e'

theorem drainSync_facts {e : Exec} (h : Inv e) : DrainFacts e (drainSync e) := by
  by_cases hp : e.pending = 0
  · have hs : e.sync = [] := by
      have := h.p; rw [hp] at this
      exact List.eq_nil_of_length_eq_zero (by omega)
    have he : drainSync e = e := by simp [drainSync, hp]
    rw [he]
    exact ⟨rfl, rfl, rfl, rfl, rfl, rfl, hs, ⟨[], by simp, by simp, by simp⟩, by simp [hs], by simp, h⟩
  · obtain ⟨⟨f1, f2, f3, f4, f5, f6, f7, f8⟩, i1, i2, i3, ⟨w, iw, iwl, iw'⟩, i5, i6⟩ :=
      foldl_makeHot e.sync { e with sync := [] } h.q.hnd h.q.cnd h.q.disj
    simp only at f1 f2 f3 f4 f5 f6 f7 f8 iw iw' i5 i6
    have hfields : ∀ e'' : Exec, e'' = e.sync.foldl makeHot { e with sync := [] } →
        ∀ pd : Nat, (if e.inflight.isSome then 1 else 0) ≤ pd → DrainFacts e { e'' with pending := pd } := by
      intro e'' he'' pd hpd
      subst he''
      refine ⟨f1, f2, f3, f6, f7, f8, f4, ⟨w, iw, iwl, iw'⟩, i5, i6, ?_⟩
      refine ⟨⟨i1, i2, i3, ?_, ?_⟩, ?_, ?_, ?_, ?_, ?_⟩
      · intro x hx
        show x < (e.sync.foldl makeHot { e with sync := [] }).tasks.length
        rw [f1]
        exact ((i6 x).mp (Or.inl hx)).elim (h.q.hval x) (h.q.cval x)
      · intro x hx
        show x < (e.sync.foldl makeHot { e with sync := [] }).tasks.length
        rw [f1]
        exact ((i6 x).mp (Or.inr hx)).elim (h.q.hval x) (h.q.cval x)
      · intro x t hx
        have hx' : e.get? x = some t := by
          unfold Exec.get? at hx ⊢; simp only at hx; rw [f1] at hx; exact hx
        have hm : inMap ({ e.sync.foldl makeHot { e with sync := [] } with pending := pd } : Exec) x = inMap e x := by
          apply inMap_eq_of_iff; exact i6 x
        rw [hm]; exact h.t x t hx'
      · intro x t hx hn hc
        have hx' : e.get? x = some t := by
          unfold Exec.get? at hx ⊢; simp only at hx; rw [f1] at hx; exact hx
        have := (i5 x).mp hc
        rcases h.c x t hx' hn this.1 with h3 | h3
        · exact absurd h3 this.2
        · exact Or.inr (by show (e.sync.foldl makeHot { e with sync := [] }).inflight = some x; rw [f8]; exact h3)
      · intro x t hx h1 hc
        have hx' : e.get? x = some t := by
          unfold Exec.get? at hx ⊢; simp only at hx; rw [f1] at hx; exact hx
        have := (i5 x).mp hc
        rcases h.s x t hx' h1 this.1 with h3 | h3
        · exact absurd h3 this.2
        · exact Or.inr (by show (e.sync.foldl makeHot { e with sync := [] }).inflight = some x; rw [f8]; exact h3)
      · intro ha
        have ha' : e.alive = false := by simp only at ha; rw [f3] at ha; exact ha
        obtain ⟨d1, d2⟩ := h.dead ha'
        constructor
        · show (e.sync.foldl makeHot { e with sync := [] }).hot = []
          rw [iw, d1]
          cases w with
          | nil => rfl
          | cons a w => have := (iw' a (by simp)).1; rw [d2] at this; cases this
        · apply List.eq_nil_iff_forall_not_mem.mpr
          intro x hx
          have := ((i5 x).mp hx).1
          rw [d2] at this; cases this
      · show (e.sync.foldl makeHot { e with sync := [] }).sync.length +
            (if (e.sync.foldl makeHot { e with sync := [] }).inflight.isSome then 1 else 0) ≤ pd
        rw [f4, f8]; simpa using hpd
    unfold drainSync
    simp only [hp, if_false]
    by_cases hl : e.sync.length = 0
    · simp only [hl, if_true]
      have hpp := h.p
      have := hfields _ rfl (e.sync.foldl makeHot { e with sync := [] }).pending (by rw [f5]; show (if e.inflight.isSome then 1 else 0) ≤ e.pending; omega)
      simpa using this
    · simp only [hl, if_false]
      have hpp := h.p
      exact hfields _ rfl _ (by rw [f5]; show (if e.inflight.isSome then 1 else 0) ≤ e.pending - e.sync.length; omega)

theorem drainSync_inv {e : Exec} (h : Inv e) : Inv (drainSync e) := (drainSync_facts h).inv

theorem drainSync_get? {e : Exec} (h : Inv e) (x : Nat) : (drainSync e).get? x = e.get? x := by
  simp [Exec.get?, (drainSync_facts h).tasks]

theorem drainSync_inMap {e : Exec} (h : Inv e) (x : Nat) : inMap (drainSync e) x = inMap e x :=
  inMap_eq_of_iff _ _ _ _ ((drainSync_facts h).mem x)

/-! ## `make_hot`, `Local::schedule`, `Remote::schedule` -/

theorem makeHot_get? (e : Exec) (id x : Nat) : (makeHot e id).get? x = e.get? x := by
  simp [Exec.get?, (makeHot_fields e id).1]

theorem makeHot_cases (e : Exec) (id : Nat) :
    (id ∉ e.cold ∧ makeHot e id = e) ∨
    (id ∈ e.cold ∧ makeHot e id =
      { e with cold := e.cold.erase id, hot := e.hot ++ [id], qlog := e.qlog ++ [.makeHot id] }) := by
  by_cases hc : id ∈ e.cold
  · exact Or.inr ⟨hc, by simp [makeHot, hc]⟩
  · exact Or.inl ⟨hc, by simp [makeHot, hc]⟩

theorem makeHot_inv {e : Exec} (h : Inv e) (id : Nat) : Inv (makeHot e id) := by
  rcases makeHot_cases e id with ⟨_, he⟩ | ⟨hc, he⟩
  · rw [he]; exact h
  · obtain ⟨t, hg, _⟩ := h.get_of_mem (id := id) (Or.inr hc)
    rw [he]
    refine h.requeue hg (QStep.makeHot h.q hc) ?_ _ rfl rfl rfl rfl rfl rfl rfl ?_
    · simp [hc]
    · intro hx; exact List.mem_of_mem_erase hx

theorem makeHot_mem (e : Exec) (id x : Nat) :
    (x ∈ (makeHot e id).hot ∨ x ∈ (makeHot e id).cold) ↔ (x ∈ e.hot ∨ x ∈ e.cold) := by
  rcases makeHot_cases e id with ⟨_, he⟩ | ⟨hc, he⟩ <;> rw [he]
  simp only [List.mem_append, List.mem_singleton]
  by_cases hx : x = id
  · subst hx; simp [hc]
  · simp [List.mem_erase_of_ne hx, hx]

theorem makeHot_hot (e : Exec) (id : Nat) : ∃ w, (makeHot e id).hot = e.hot ++ w := by
  rcases makeHot_cases e id with ⟨_, he⟩ | ⟨hc, he⟩ <;> rw [he]
  · exact ⟨[], by simp⟩
  · exact ⟨[id], rfl⟩

theorem makeHot_not_cold {e : Exec} (hn : e.cold.Nodup) (id : Nat) : id ∉ (makeHot e id).cold := by
  rcases makeHot_cases e id with ⟨hc, he⟩ | ⟨hc, he⟩ <;> rw [he]
  · exact hc
  · intro hx; exact ((hn.mem_erase_iff).mp hx).1 rfl

theorem makeHot_cold_sub (e : Exec) (id x : Nat) (hx : x ∈ (makeHot e id).cold) : x ∈ e.cold := by
  rcases makeHot_cases e id with ⟨hc, he⟩ | ⟨hc, he⟩ <;> rw [he] at hx
  · exact hx
  · exact List.mem_of_mem_erase hx

theorem scheduleLocal_cases (e : Exec) (id : Nat) :
    scheduleLocal e id = e ∨ scheduleLocal e id = makeHot (drainSync e) id := by
  unfold scheduleLocal
  cases e.get? id with
  | none => exact Or.inl rfl
  | some t => simp only; cases t.shared <;> simp

theorem scheduleLocal_inv {e : Exec} (h : Inv e) (id : Nat) : Inv (scheduleLocal e id) := by
  rcases scheduleLocal_cases e id with he | he <;> rw [he]
  · exact h
  · exact makeHot_inv (drainSync_inv h) id

theorem scheduleLocal_get? {e : Exec} (h : Inv e) (id x : Nat) : (scheduleLocal e id).get? x = e.get? x := by
  rcases scheduleLocal_cases e id with he | he <;> rw [he]
  rw [makeHot_get?, drainSync_get? h]

theorem scheduleLocal_fields {e : Exec} (h : Inv e) (id : Nat) :
    (scheduleLocal e id).tasks = e.tasks ∧ (scheduleLocal e id).woken = e.woken ∧
    (scheduleLocal e id).alive = e.alive ∧ (scheduleLocal e id).cap = e.cap ∧
    (scheduleLocal e id).outstanding = e.outstanding ∧ (scheduleLocal e id).inflight = e.inflight := by
  rcases scheduleLocal_cases e id with he | he <;> rw [he]
  · exact ⟨rfl, rfl, rfl, rfl, rfl, rfl⟩
  · have f := makeHot_fields (drainSync e) id
    have d := drainSync_facts h
    exact ⟨f.1.trans d.tasks, f.2.1.trans d.woken, f.2.2.1.trans d.alive, f.2.2.2.2.2.1.trans d.cap,
      f.2.2.2.2.2.2.1.trans d.outstanding, f.2.2.2.2.2.2.2.trans d.inflight⟩

theorem scheduleLocal_mem {e : Exec} (h : Inv e) (id x : Nat) :
    (x ∈ (scheduleLocal e id).hot ∨ x ∈ (scheduleLocal e id).cold) ↔ (x ∈ e.hot ∨ x ∈ e.cold) := by
  rcases scheduleLocal_cases e id with he | he <;> rw [he]
  rw [makeHot_mem, (drainSync_facts h).mem]

theorem scheduleLocal_inMap {e : Exec} (h : Inv e) (id x : Nat) : inMap (scheduleLocal e id) x = inMap e x :=
  inMap_eq_of_iff _ _ _ _ (scheduleLocal_mem h id x)

theorem scheduleLocal_hot {e : Exec} (h : Inv e) (id : Nat) : ∃ w, (scheduleLocal e id).hot = e.hot ++ w := by
  rcases scheduleLocal_cases e id with he | he <;> rw [he]
  · exact ⟨[], by simp⟩
  · obtain ⟨w1, h1⟩ := makeHot_hot (drainSync e) id
    obtain ⟨w2, h2, _, _⟩ := (drainSync_facts h).hot
    exact ⟨w2 ++ w1, by rw [h1, h2]; simp⟩

theorem scheduleLocal_cold_sub {e : Exec} (h : Inv e) (id x : Nat) (hx : x ∈ (scheduleLocal e id).cold) :
    x ∈ e.cold := by
  rcases scheduleLocal_cases e id with he | he <;> rw [he] at hx
  · exact hx
  · exact (((drainSync_facts h).cold x).mp (makeHot_cold_sub _ _ _ hx)).1

/-- after `schedule()` a task that is in the queue (hence has a valid `shared`) is hot -/
theorem scheduleLocal_not_cold {e : Exec} (h : Inv e) {id : Nat} {t : TaskSt} (hg : e.get? id = some t) :
    id ∈ (scheduleLocal e id).cold → False := by
  intro hc
  have hcold := scheduleLocal_cold_sub h id id hc
  have ht := h.t id t hg
  rw [(inMap_iff e id).mpr (Or.inr hcold)] at ht
  unfold scheduleLocal at hc
  rw [hg] at hc
  simp only [ht.inq_sh rfl, if_true] at hc
  exact makeHot_not_cold (drainSync_inv h).q.cnd id hc

/-- `Remote::schedule` run to completion, in closed form -/
theorem remoteSchedule_cases {e : Exec} {id : Nat} {t : TaskSt} (hg : e.get? id = some t) :
    ((t.word.scheduled = true ∨ t.word.completed = true ∨ t.word.notCancelled = false ∨ t.shared = false) ∧
      remoteSchedule e id = e.setTask id { t with word := { t.word with scheduled := true, scheduling := false } }) ∨
    (t.word.scheduled = false ∧ t.word.completed = false ∧ t.word.notCancelled = true ∧ t.shared = true ∧
      remoteSchedule e id =
        { e.setTask id { t with word := { t.word with scheduled := true, scheduling := false } } with
            pending := e.pending + 1, sync := e.sync ++ [id] }) := by
  unfold remoteSchedule remoteSchedTask
  rw [hg]
  cases h1 : t.word.scheduled <;> cases h2 : t.word.completed <;> cases h3 : t.word.notCancelled <;>
    cases h4 : t.shared <;> simp [h1, h2, h3, h4]

theorem remoteSchedule_none {e : Exec} {id : Nat} (hg : e.get? id = none) : remoteSchedule e id = e := by
  simp [remoteSchedule, hg]

theorem remoteSchedule_inv {e : Exec} (h : Inv e) (id : Nat) : Inv (remoteSchedule e id) := by
  cases hg : e.get? id with
  | none => rw [remoteSchedule_none hg]; exact h
  | some t =>
    have ht := h.t id t hg
    have ht' := sched_bits_inv _ t true false ht
    rcases remoteSchedule_cases hg with ⟨hearly, he⟩ | ⟨h1, h2, h3, h4, he⟩ <;> rw [he]
    · refine h.update hg (QStep.refl h.q id) (inMap e id) (by rw [inMap_iff]) ht' _ rfl rfl rfl rfl
        ?_ ?_ (fun x _ _ hx => hx) h.p
      · intro hn hc; exact h.c id t hg hn hc
      · intro _ hc
        have hin := (inMap_iff e id).mpr (Or.inr hc)
        rw [hin] at ht
        rcases hearly with h1 | h1 | h1 | h1
        · exact h.s id t hg h1 hc
        · rw [ht.inq_c rfl] at h1; cases h1
        · exact h.c id t hg h1 hc
        · rw [ht.inq_sh rfl] at h1; cases h1
    · refine h.update hg (QStep.refl h.q id) (inMap e id) (by rw [inMap_iff]) ht' _ rfl rfl rfl rfl
        ?_ ?_ ?_ ?_
      · intro _ _; exact Or.inl (by simp)
      · intro _ _; exact Or.inl (by simp)
      · intro x _ _ hx
        rcases hx with hx | hx
        · exact Or.inl (by simp [hx])
        · exact Or.inr hx
      · have := h.p
        cases hi : e.inflight <;> simp [Exec.setTask, hi] at this ⊢ <;> omega

theorem remoteScheduleGuarded_cases (e : Exec) (id : Nat) :
    remoteScheduleGuarded e id = e ∨
    remoteScheduleGuarded e id = remoteSchedule { e with outstanding := e.outstanding + 1 } id := by
  unfold remoteScheduleGuarded; split
  · exact Or.inr rfl
  · exact Or.inl rfl

theorem Inv.outstanding {e : Exec} (h : Inv e) (k : Nat) : Inv { e with outstanding := k } :=
  ⟨⟨h.q.hnd, h.q.cnd, h.q.disj, h.q.hval, h.q.cval⟩, h.t, h.c, h.s, h.dead, h.p⟩

theorem remoteScheduleGuarded_inv {e : Exec} (h : Inv e) (id : Nat) : Inv (remoteScheduleGuarded e id) := by
  rcases remoteScheduleGuarded_cases e id with he | he <;> rw [he]
  · exact h
  · exact remoteSchedule_inv (h.outstanding _) id

/-- what `Remote::schedule` leaves unchanged -/
theorem remoteSchedule_fields (e : Exec) (id : Nat) :
    (remoteSchedule e id).hot = e.hot ∧ (remoteSchedule e id).cold = e.cold ∧
    (remoteSchedule e id).woken = e.woken ∧ (remoteSchedule e id).alive = e.alive ∧
    (remoteSchedule e id).cap = e.cap ∧ (remoteSchedule e id).outstanding = e.outstanding ∧
    (remoteSchedule e id).inflight = e.inflight ∧ (remoteSchedule e id).tasks.length = e.tasks.length := by
  cases hg : e.get? id with
  | none => rw [remoteSchedule_none hg]; simp
  | some t =>
    rcases remoteSchedule_cases hg with ⟨_, he⟩ | ⟨_, _, _, _, he⟩ <;> rw [he] <;> simp [Exec.setTask]

theorem remoteSchedule_get?_ne (e : Exec) {id x : Nat} (hx : x ≠ id) :
    (remoteSchedule e id).get? x = e.get? x := by
  cases hg : e.get? id with
  | none => rw [remoteSchedule_none hg]
  | some t =>
    rcases remoteSchedule_cases hg with ⟨_, he⟩ | ⟨_, _, _, _, he⟩ <;> rw [he] <;>
      simp [Exec.get?, Exec.setTask, List.getElem?_set_ne (Ne.symm hx)]

theorem remoteSchedule_get?_self {e : Exec} {id : Nat} {t : TaskSt} (hg : e.get? id = some t) :
    (remoteSchedule e id).get? id = some { t with word := { t.word with scheduled := true, scheduling := false } } := by
  rcases remoteSchedule_cases hg with ⟨_, he⟩ | ⟨_, _, _, _, he⟩ <;> rw [he] <;>
    simp [Exec.get?, Exec.setTask, List.getElem?_set_self (get?_lt hg)]

/-! ## One loop body of `tick` -/

theorem dropRef_polls (t : TaskSt) : (dropRef t).polls = t.polls := by
  obtain ⟨⟨s, sg, nsw, hw, c, hr, nc, cnt⟩, st, slot, script, sh, hd, wk, polls, fd, rt, rd, ss, sd, de, uaf, bp⟩ := t
  cases hr <;> cases hw <;> simp [dropRef] <;> split <;> split <;> rfl

theorem taskDropByExecutor_polls (t : TaskSt) : (taskDropByExecutor t).polls = t.polls := by
  obtain ⟨⟨s, sg, nsw, hw, c, hr, nc, cnt⟩, st, slot, script, sh, hd, wk, polls, fd, rt, rd, ss, sd, de, uaf, bp⟩ := t
  cases c <;> cases hw <;> cases nsw <;> simp [taskDropByExecutor]

/-- the things `Task::run` can do to a queued task -/
theorem runTask_cases (t : TaskSt) (hb : t.word.completed = false) :
    (t.word.notCancelled = false ∧ runTask t = (droppedTask t, .dropped, none)) ∨
    (t.word.notCancelled = true ∧
      (runTask t = (polledTask t, .pending, none) ∨ runTask t = (polledTask t, .wokeSelf, none) ∨
       runTask t = (polledTask t, .remoteWoke, none) ∨
       runTask t = (clonedTask t, .pending, none) ∨
       ∃ tb o k, (tb = t ∨ tb = cloneInc t) ∧ (k = .finished ∨ k = .finishedWoke) ∧
          runTask t = (finishedTask tb o, k,
            if t.word.hasWaker && t.word.notSettingWaker then t.slot else none))) := by
  cases hc : t.word.notCancelled
  · exact Or.inl ⟨rfl, runTask_cancelled t hc⟩
  · refine Or.inr ⟨rfl, ?_⟩
    rcases hs : t.script with _ | ⟨o, r⟩
    · exact Or.inl (runTask_pending t hc hb (Or.inl hs))
    · cases o
      · exact Or.inl (runTask_pending t hc hb (Or.inr ⟨r, hs⟩))
      · exact Or.inr (Or.inl (runTask_wakeSelf t hc hb r hs))
      · exact Or.inr (Or.inr (Or.inr (Or.inl (runTask_clone t hc hb r hs))))
      · exact Or.inr (Or.inr (Or.inl (runTask_remote t hc hb r hs)))
      · exact Or.inr (Or.inr (Or.inr (Or.inr ⟨t, .wakeReady, .finishedWoke, Or.inl rfl, Or.inr rfl,
          runTask_wakeReady t hc hb _ r hs (Or.inl rfl)⟩)))
      · exact Or.inr (Or.inr (Or.inr (Or.inr ⟨t, .wakePanic, .finishedWoke, Or.inl rfl, Or.inr rfl,
          runTask_wakeReady t hc hb _ r hs (Or.inr rfl)⟩)))
      · exact Or.inr (Or.inr (Or.inr (Or.inr ⟨cloneInc t, .cloneReady, .finished, Or.inr rfl, Or.inl rfl,
          runTask_cloneReady t hc hb r hs⟩)))
      · exact Or.inr (Or.inr (Or.inr (Or.inr ⟨t, .ready, .finished, Or.inl rfl, Or.inl rfl,
          runTask_ready t hc hb _ r hs (Or.inl rfl)⟩)))
      · exact Or.inr (Or.inr (Or.inr (Or.inr ⟨t, .panic, .finished, Or.inl rfl, Or.inl rfl,
          runTask_ready t hc hb _ r hs (Or.inr rfl)⟩)))

/-- `a` is `b` up to the SCHEDULED / SCHEDULING bits -/
def SameUpToSched (a b : TaskSt) : Prop :=
  ∃ x y, a = { b with word := { b.word with scheduled := x, scheduling := y } }

theorem SameUpToSched.refl (t : TaskSt) : SameUpToSched t t := ⟨t.word.scheduled, t.word.scheduling, rfl⟩

/-- facts about one loop body on the head of the hot list -/
structure StepFacts (e : Exec) (id : Nat) (rest : List Nat) (t : TaskSt) (s : Exec × Bool) : Prop where
  inv : Inv s.1
  hot : ∃ w, s.1.hot = rest ++ w
  frame : ∀ x, x ≠ id → s.1.get? x = e.get? x
  polled : s.2 = t.word.notCancelled
  gone : s.2 = false → inMap s.1 id = false
  taskEq : ∃ t', s.1.get? id = some t' ∧
    (t' = (runTask t).1 ∨ ((runTask t).2.1 = .remoteWoke ∧ SameUpToSched t' (runTask t).1))
  polls : (runTask t).1.polls = t.polls + (if s.2 then 1 else 0)
  live : inMap s.1 id = true → (runTask t).1.word.notCancelled = true
  sub : ∀ x, inMap s.1 x = true → inMap e x = true
  keep : ∀ x, x ≠ id → inMap e x = true → inMap s.1 x = true
  fields : s.1.alive = e.alive ∧ s.1.inflight = e.inflight ∧ s.1.cap = e.cap

theorem StepFacts.task {e : Exec} {id : Nat} {rest : List Nat} {t : TaskSt} {s : Exec × Bool}
    (sf : StepFacts e id rest t s) :
    ∃ t', s.1.get? id = some t' ∧ t'.polls = t.polls + (if s.2 then 1 else 0) ∧
      (inMap s.1 id = true → t'.word.notCancelled = true) := by
  obtain ⟨t', hg, he | ⟨_, x, y, he⟩⟩ := sf.taskEq
  · exact ⟨t', hg, by rw [he]; exact sf.polls, fun hi => by rw [he]; exact sf.live hi⟩
  · exact ⟨t', hg, by rw [he]; exact sf.polls, fun hi => by rw [he]; exact sf.live hi⟩

/-- the state after `make_cold(id)` and a poll of `id` that returned Pending -/
theorem pend_facts {e : Exec} (h : Inv e) {id : Nat} {rest : List Nat} (hh : e.hot = id :: rest)
    {t : TaskSt} (hg : e.get? id = some t) (t' : TaskSt) (ht' : TInv true t')
    (hn : t'.word.notCancelled = true) (hs : t'.word.scheduled = false) :
    Inv ((makeCold e id).setTask id t') ∧ ((makeCold e id).setTask id t').hot = rest ∧
    ((makeCold e id).setTask id t').get? id = some t' ∧
    (∀ x, x ≠ id → ((makeCold e id).setTask id t').get? x = e.get? x) ∧
    (∀ x, inMap ((makeCold e id).setTask id t') x = inMap e x) ∧
    (((makeCold e id).setTask id t').alive = e.alive ∧ ((makeCold e id).setTask id t').inflight = e.inflight ∧
      ((makeCold e id).setTask id t').cap = e.cap) := by
  have hnd := h.q.hnd
  rw [hh, List.nodup_cons] at hnd
  have hmc : makeCold e id = { e with hot := rest, cold := e.cold ++ [id], qlog := e.qlog ++ [.makeCold id] } := by
    simp [makeCold, hh]
  rw [hmc]
  refine ⟨?_, rfl, by simp [Exec.get?, Exec.setTask, List.getElem?_set_self (get?_lt hg)], ?_, ?_, ⟨rfl, rfl, rfl⟩⟩
  · refine h.update hg (QStep.tick h.q hh false true (by simp)) true (by simp) ht' _ rfl
      (by simp [Exec.setTask]) (by simp [Exec.setTask]) rfl ?_ ?_ (fun x _ _ hx => hx) h.p
    · intro hc; rw [hn] at hc; cases hc
    · intro hc; rw [hs] at hc; cases hc
  · intro x hx; simp [Exec.get?, Exec.setTask, List.getElem?_set_ne (Ne.symm hx)]
  · intro x
    apply inMap_eq_of_iff
    simp only [Exec.setTask, hh, List.mem_append, List.mem_cons, List.mem_singleton, List.not_mem_nil, or_false]
    constructor
    · rintro (h1 | h1 | h1)
      · exact Or.inl (Or.inr h1)
      · exact Or.inr h1
      · exact Or.inl (Or.inl h1)
    · rintro ((h1 | h1) | h1)
      · exact Or.inr (Or.inr h1)
      · exact Or.inl h1
      · exact Or.inr (Or.inl h1)

/-- the state after `make_cold(id)`, `Task::run` = Ready, `Task::drop`, `queue.remove(id)` -/
theorem removed_facts {e : Exec} (h : Inv e) {id : Nat} {rest : List Nat} (hh : e.hot = id :: rest)
    {t : TaskSt} (hg : e.get? id = some t) (t' : TaskSt) (ht' : TInv false t') (wk : List Nat) :
    ({ removeTask ((makeCold e id).setTask id t') id with woken := wk } : Exec) =
      { e with tasks := e.tasks.set id t', hot := rest, woken := wk, qlog := e.qlog ++ [.makeCold id] ++ [.remove id] } ∧
    Inv ({ e with tasks := e.tasks.set id t', hot := rest, woken := wk, qlog := e.qlog ++ [.makeCold id] ++ [.remove id] } : Exec) := by
  have hnd := h.q.hnd
  rw [hh, List.nodup_cons] at hnd
  have hnc : id ∉ e.cold := fun hc => h.q.disj id (by simp [hh]) hc
  have hmc : makeCold e id = { e with hot := rest, cold := e.cold ++ [id], qlog := e.qlog ++ [.makeCold id] } := by
    simp [makeCold, hh]
  refine ⟨by simp [hmc, removeTask, Exec.setTask, hnd.1, hnc, List.erase_append_right], ?_⟩
  refine h.update hg (QStep.tick h.q hh false false (by simp)) false (by simp [hnd.1, hnc]) ht' _ rfl (by simp)
    (by simp) rfl ?_ ?_ (fun x _ _ hx => hx) h.p
  · intro _ hc; simp at hc; exact absurd hc hnc
  · intro _ hc; simp at hc; exact absurd hc hnc

/-- what `Task::run` guarantees about a queued task, by kind of outcome -/
theorem runTask_spec (t : TaskSt) (ht : TInv true t) :
    (((runTask t).2.1 = .dropped ∨ (runTask t).2.1 = .finished ∨ (runTask t).2.1 = .finishedWoke) →
        TInv false (runTask t).1) ∧
    (((runTask t).2.1 = .pending ∨ (runTask t).2.1 = .wokeSelf ∨ (runTask t).2.1 = .remoteWoke) →
        TInv true (runTask t).1 ∧ (runTask t).1.word.notCancelled = true ∧
        (runTask t).1.word.scheduled = false) ∧
    ((runTask t).2.1 = .dropped ↔ t.word.notCancelled = false) ∧
    ((runTask t).2.1 ≠ .dropped → (runTask t).1.polls = t.polls + 1) ∧
    ((runTask t).2.1 = .dropped → (runTask t).1.polls = t.polls) := by
  rcases runTask_cases t (ht.inq_c rfl) with ⟨hc, hr⟩ | ⟨hc, hr | hr | hr | hr | ⟨tb, o, k, htb, hk, hr⟩⟩ <;>
    rw [hr] <;> simp [hc]
  · exact ⟨droppedTask_inv t ht, by simp [droppedTask, dropRef_polls, taskDropByExecutor_polls]⟩
  · exact ⟨⟨polledTask_inv t ht, by simp [polledTask, hc], by simp [polledTask]⟩, by simp [polledTask]⟩
  · exact ⟨⟨polledTask_inv t ht, by simp [polledTask, hc], by simp [polledTask]⟩, by simp [polledTask]⟩
  · exact ⟨⟨polledTask_inv t ht, by simp [polledTask, hc], by simp [polledTask]⟩, by simp [polledTask]⟩
  · exact ⟨⟨clonedTask_inv t ht, by simp [clonedTask, polledTask, hc], by simp [clonedTask, polledTask]⟩,
      by simp [clonedTask, polledTask]⟩
  · have htb' : TInv true tb := by
      rcases htb with rfl | rfl
      · exact ht
      · exact cloneInc_inv t ht
    have hp : tb.polls = t.polls := by rcases htb with rfl | rfl <;> simp [cloneInc]
    have hfi := finishedTask_inv tb o htb'
    have hfp : (finishedTask tb o).polls = t.polls + 1 := by
      simp [finishedTask, dropRef_polls, taskDropByExecutor_polls, hp]
    rcases hk with rfl | rfl <;> simp [hfi, hfp]

/-- facts of a loop body whose poll returned Pending, possibly followed by a (local or remote) schedule -/
theorem StepFacts.ofPend {e : Exec} (h : Inv e) {id : Nat} {rest : List Nat} (hh : e.hot = id :: rest)
    {t : TaskSt} (hg : e.get? id = some t) (ht : TInv true t)
    (hk : (runTask t).2.1 = .pending ∨ (runTask t).2.1 = .wokeSelf ∨ (runTask t).2.1 = .remoteWoke)
    (e2 : Exec) (hinv : Inv e2)
    (hhot : ∃ w, e2.hot = ((makeCold e id).setTask id (runTask t).1).hot ++ w)
    (hfr : ∀ x, x ≠ id → e2.get? x = ((makeCold e id).setTask id (runTask t).1).get? x)
    (hid : ∃ t', e2.get? id = some t' ∧
      (t' = (runTask t).1 ∨ ((runTask t).2.1 = .remoteWoke ∧ SameUpToSched t' (runTask t).1)))
    (hmap : ∀ x, inMap e2 x = inMap ((makeCold e id).setTask id (runTask t).1) x)
    (hf : e2.alive = ((makeCold e id).setTask id (runTask t).1).alive ∧
          e2.inflight = ((makeCold e id).setTask id (runTask t).1).inflight ∧
          e2.cap = ((makeCold e id).setTask id (runTask t).1).cap) :
    StepFacts e id rest t (e2, true) := by
  obtain ⟨s1, s2, s3, s4, s5⟩ := runTask_spec t ht
  obtain ⟨st, sn, ss⟩ := s2 hk
  obtain ⟨p1, p2, p3, p4, p5, p6⟩ := pend_facts h hh hg (runTask t).1 st sn ss
  have hnd : (runTask t).2.1 ≠ .dropped := by
    rcases hk with hk | hk | hk <;> rw [hk] <;> simp
  have hnc : t.word.notCancelled = true := by
    cases hn : t.word.notCancelled
    · exact absurd (s3.mpr hn) hnd
    · rfl
  refine ⟨hinv, ?_, ?_, ?_, ?_, hid, ?_, ?_, ?_, ?_, ?_⟩
  · obtain ⟨w, hw⟩ := hhot; exact ⟨w, by rw [hw, p2]⟩
  · intro x hx; rw [hfr x hx, p4 x hx]
  · simp [hnc]
  · intro hf'; cases hf'
  · simp [s4 hnd]
  · intro _; exact sn
  · intro x hx; rw [hmap x, p5 x] at hx; exact hx
  · intro x _ hx; rw [hmap x, p5 x]; exact hx
  · exact ⟨hf.1.trans p6.1, hf.2.1.trans p6.2.1, hf.2.2.trans p6.2.2⟩

/-- facts of a loop body that removed the task (cancelled, or the future finished) -/
theorem StepFacts.ofRemoved {e : Exec} (h : Inv e) {id : Nat} {rest : List Nat} (hh : e.hot = id :: rest)
    {t : TaskSt} (hg : e.get? id = some t) (ht : TInv true t)
    (hk : (runTask t).2.1 = .dropped ∨ (runTask t).2.1 = .finished) (wk : List Nat) :
    StepFacts e id rest t
      (({ e with tasks := e.tasks.set id (runTask t).1, hot := rest, woken := wk, qlog := e.qlog ++ [.makeCold id] ++ [.remove id] } : Exec),
        decide ((runTask t).2.1 ≠ .dropped)) := by
  obtain ⟨s1, s2, s3, s4, s5⟩ := runTask_spec t ht
  have hinv := (removed_facts h hh hg (runTask t).1 (s1 (hk.elim Or.inl (fun h' => Or.inr (Or.inl h')))) wk).2
  have hnd := h.q.hnd
  rw [hh, List.nodup_cons] at hnd
  have hnc : id ∉ e.cold := fun hc => h.q.disj id (by simp [hh]) hc
  have hout : inMap ({ e with tasks := e.tasks.set id (runTask t).1, hot := rest, woken := wk, qlog := e.qlog ++ [.makeCold id] ++ [.remove id] } : Exec) id = false := by
    rw [inMap_false_iff]; simp [hnd.1, hnc]
  refine ⟨hinv, ⟨[], by simp⟩, ?_, ?_, fun _ => hout, ⟨_, ?_, Or.inl rfl⟩, ?_, ?_, ?_, ?_, ⟨rfl, rfl, rfl⟩⟩
  · intro x hx; simp [Exec.get?, List.getElem?_set_ne (Ne.symm hx)]
  · cases hn : t.word.notCancelled
    · simp [s3.mpr hn]
    · have : (runTask t).2.1 ≠ .dropped := fun hd => by rw [s3.mp hd] at hn; cases hn
      simp [this]
  · simp [Exec.get?, List.getElem?_set_self (get?_lt hg)]
  · by_cases hd : (runTask t).2.1 = .dropped
    · simp [hd, s5 hd]
    · simp [hd, s4 hd]
  · intro hi; rw [hout] at hi; cases hi
  · intro x hx
    rw [inMap_iff] at hx ⊢
    simp only at hx
    rw [hh]
    rcases hx with hx | hx
    · exact Or.inl (by simp [hx])
    · exact Or.inr hx
  · intro x hne hx
    rw [inMap_iff] at hx ⊢
    simp only
    rw [hh] at hx
    rcases hx with hx | hx
    · simp at hx
      rcases hx with hx | hx
      · exact absurd hx hne
      · exact Or.inl hx
    · exact Or.inr hx

theorem tickStep_facts {e : Exec} (h : Inv e) {id : Nat} {rest : List Nat} (hh : e.hot = id :: rest) :
    ∃ t, e.get? id = some t ∧ TInv true t ∧ StepFacts e id rest t (tickStep e id) := by
  obtain ⟨t, hg, ht⟩ := h.get_of_mem (id := id) (Or.inl (by simp [hh]))
  refine ⟨t, hg, ht, ?_⟩
  have hmc : makeCold e id = { e with hot := rest, cold := e.cold ++ [id], qlog := e.qlog ++ [.makeCold id] } := by
    simp [makeCold, hh]
  have hg' : (makeCold e id).get? id = some t := by rw [hmc]; exact hg
  obtain ⟨s1, s2, s3, s4, s5⟩ := runTask_spec t ht
  simp only [tickStep, runOne, hg']
  rcases hr : runTask t with ⟨t', k, w⟩
  have hr1 : (runTask t).1 = t' := by rw [hr]
  have hr2 : (runTask t).2.1 = k := by rw [hr]
  cases k <;> simp only
  · -- dropped
    have hk : (runTask t).2.1 = .dropped ∨ (runTask t).2.1 = .finished := Or.inl hr2
    have := StepFacts.ofRemoved h hh hg ht hk e.woken
    have heq := (removed_facts h hh hg t' (hr1 ▸ s1 (hk.elim Or.inl (fun h' => Or.inr (Or.inl h')))) e.woken).1
    rw [hr1, hr2] at this
    have he : removeTask ((makeCold e id).setTask id t') id =
        ({ e with tasks := e.tasks.set id t', hot := rest, woken := e.woken, qlog := e.qlog ++ [.makeCold id] ++ [.remove id] } : Exec) := by
      rw [← heq]; simp [hmc, removeTask, Exec.setTask]
    rw [he]; simpa using this
  · -- pending
    have hk : (runTask t).2.1 = .pending ∨ (runTask t).2.1 = .wokeSelf ∨ (runTask t).2.1 = .remoteWoke :=
      Or.inl hr2
    obtain ⟨st, sn, ss⟩ := s2 hk
    have pf := pend_facts h hh hg (runTask t).1 st sn ss
    have := StepFacts.ofPend h hh hg ht hk _ pf.1 ⟨[], by simp⟩ (fun _ _ => rfl)
      ⟨_, pf.2.2.1, Or.inl rfl⟩ (fun _ => rfl) ⟨rfl, rfl, rfl⟩
    rw [hr1] at this; exact this
  · -- wokeSelf
    have hk : (runTask t).2.1 = .pending ∨ (runTask t).2.1 = .wokeSelf ∨ (runTask t).2.1 = .remoteWoke :=
      Or.inr (Or.inl hr2)
    obtain ⟨st, sn, ss⟩ := s2 hk
    have pf := pend_facts h hh hg (runTask t).1 st sn ss
    have f := scheduleLocal_fields pf.1 id
    have := StepFacts.ofPend h hh hg ht hk (scheduleLocal ((makeCold e id).setTask id (runTask t).1) id)
      (scheduleLocal_inv pf.1 id) (scheduleLocal_hot pf.1 id) (fun x _ => scheduleLocal_get? pf.1 id x)
      ⟨_, by rw [scheduleLocal_get? pf.1 id id]; exact pf.2.2.1, Or.inl rfl⟩
      (fun x => scheduleLocal_inMap pf.1 id x) ⟨f.2.2.1, f.2.2.2.2.2, f.2.2.2.1⟩
    rw [hr1] at this; exact this
  · -- remoteWoke
    have hk : (runTask t).2.1 = .pending ∨ (runTask t).2.1 = .wokeSelf ∨ (runTask t).2.1 = .remoteWoke :=
      Or.inr (Or.inr hr2)
    obtain ⟨st, sn, ss⟩ := s2 hk
    have pf := pend_facts h hh hg (runTask t).1 st sn ss
    have hfin : StepFacts e id rest t (remoteScheduleGuarded ((makeCold e id).setTask id (runTask t).1) id, true) := by
      rcases remoteScheduleGuarded_cases ((makeCold e id).setTask id (runTask t).1) id with he | he
      · rw [he]
        exact StepFacts.ofPend h hh hg ht hk _ pf.1 ⟨[], by simp⟩ (fun _ _ => rfl)
          ⟨_, pf.2.2.1, Or.inl rfl⟩ (fun _ => rfl) ⟨rfl, rfl, rfl⟩
      · have hinv := remoteScheduleGuarded_inv pf.1 id
        rw [he] at hinv ⊢
        have f := remoteSchedule_fields
          ({ (makeCold e id).setTask id (runTask t).1 with
              outstanding := ((makeCold e id).setTask id (runTask t).1).outstanding + 1 } : Exec) id
        have hgp : ({ (makeCold e id).setTask id (runTask t).1 with
              outstanding := ((makeCold e id).setTask id (runTask t).1).outstanding + 1 } : Exec).get? id
              = some (runTask t).1 := pf.2.2.1
        refine StepFacts.ofPend h hh hg ht hk _ hinv ⟨[], by rw [f.1]; simp⟩
          (fun x hx => by rw [remoteSchedule_get?_ne _ hx]; rfl)
          ⟨_, remoteSchedule_get?_self hgp, Or.inr ⟨hr2 ▸ rfl, true, false, rfl⟩⟩ ?_ ⟨f.2.2.2.1, f.2.2.2.2.2.2.1, f.2.2.2.2.1⟩
        intro x
        apply inMap_eq_of_iff
        rw [f.1, f.2.1]
    rw [hr1] at hfin; exact hfin
  · -- finished
    have hk : (runTask t).2.1 = .dropped ∨ (runTask t).2.1 = .finished := Or.inr hr2
    have := StepFacts.ofRemoved h hh hg ht hk ((makeCold e id).woken ++ w.toList)
    have heq := (removed_facts h hh hg t' (hr1 ▸ s1 (hk.elim Or.inl (fun h' => Or.inr (Or.inl h')))) ((makeCold e id).woken ++ w.toList)).1
    rw [hr1, hr2] at this
    rw [heq]; simpa using this
  · -- finishedWoke: woke itself (back to the hot tail), then finished: removed from the HOT list
    have hnd0 : (runTask t).2.1 ≠ .dropped := by rw [hr2]; simp
    have hnc : t.word.notCancelled = true := by
      cases hn : t.word.notCancelled
      · exact absurd (s3.mpr hn) hnd0
      · rfl
    have hmid : ({ t with word := TaskState.unschedule t.word } : TaskSt) =
        { t with word := { t.word with scheduled := false, scheduling := t.word.scheduling } } := by simp
    have htm : TInv true ({ t with word := TaskState.unschedule t.word } : TaskSt) := by
      rw [hmid]; exact sched_bits_inv _ t false _ ht
    obtain ⟨p1, p2, p3, p4, p5, p6⟩ := pend_facts h hh hg _ htm (by simpa using hnc) (by simp)
    have hE1 := scheduleLocal_inv p1 id
    have hget1 : (scheduleLocal ((makeCold e id).setTask id { t with word := TaskState.unschedule t.word }) id).get? id
        = some { t with word := TaskState.unschedule t.word } := by rw [scheduleLocal_get? p1]; exact p3
    have hl1 := get?_lt hget1
    have hf1 := scheduleLocal_fields p1 id
    have ht' : TInv false t' := hr1 ▸ s1 (Or.inr (Or.inr hr2))
    obtain ⟨w1, hw1⟩ := scheduleLocal_hot p1 id
    have hndr := h.q.hnd
    rw [hh, List.nodup_cons] at hndr
    have hnd1 := hE1.q.hnd
    have hcd1 := hE1.q.cnd
    have hout : ∀ l : List Nat, l.Nodup → id ∉ l.erase id := fun l hl hm => ((hl.mem_erase_iff).mp hm).1 rfl
    have hinvF := hE1.update hget1 (QStep.remove hE1.q id) false
      ⟨fun h' => (h'.elim (hout _ hnd1) (hout _ hcd1)).elim, fun h' => by cases h'⟩ ht'
      ({ removeTask ((scheduleLocal ((makeCold e id).setTask id { t with word := TaskState.unschedule t.word }) id).setTask id t') id
          with woken := (makeCold e id).woken ++ w.toList } : Exec)
      rfl rfl rfl rfl
      (fun _ hc => absurd hc (hout _ hcd1)) (fun _ hc => absurd hc (hout _ hcd1)) (fun x _ _ hx => hx) hE1.p
    refine ⟨hinvF, ?_, ?_, ?_, ?_, ⟨t', ?_, Or.inl hr1.symm⟩, ?_, ?_, ?_, ?_, ?_⟩
    · refine ⟨w1.erase id, ?_⟩
      show (scheduleLocal _ id).hot.erase id = rest ++ w1.erase id
      rw [hw1, p2, List.erase_append_right _ hndr.1]
    · intro x hx
      show ((scheduleLocal _ id).setTask id t').get? x = e.get? x
      rw [get?_setTask_ne _ _ hx, scheduleLocal_get? p1, p4 x hx]
    · simp [hnc]
    · intro hf'; cases hf'
    · show ((scheduleLocal _ id).setTask id t').get? id = some t'
      exact get?_setTask_self _ hget1
    · rw [s4 hnd0]; simp
    · intro hi
      rw [inMap_iff] at hi
      rcases hi with hi | hi
      · exact absurd hi (hout _ hnd1)
      · exact absurd hi (hout _ hcd1)
    · intro x hx
      rw [inMap_iff] at hx
      have : x ∈ (scheduleLocal ((makeCold e id).setTask id { t with word := TaskState.unschedule t.word }) id).hot ∨
          x ∈ (scheduleLocal ((makeCold e id).setTask id { t with word := TaskState.unschedule t.word }) id).cold :=
        hx.elim (fun h' => Or.inl (List.mem_of_mem_erase h')) (fun h' => Or.inr (List.mem_of_mem_erase h'))
      rw [scheduleLocal_mem p1, ← inMap_iff, p5] at this; exact this
    · intro x hne hx
      rw [← p5, inMap_iff, ← scheduleLocal_mem p1 id x] at hx
      rw [inMap_iff]
      exact hx.elim (fun h' => Or.inl ((List.mem_erase_of_ne hne).mpr h')) (fun h' => Or.inr ((List.mem_erase_of_ne hne).mpr h'))
    · exact ⟨hf1.2.2.1.trans p6.1, hf1.2.2.2.2.2.trans p6.2.1, hf1.2.2.2.1.trans p6.2.2⟩

theorem tickStep_inv {e : Exec} (h : Inv e) {id : Nat} {rest : List Nat} (hh : e.hot = id :: rest) :
    Inv (tickStep e id).1 := by
  obtain ⟨t, _, _, sf⟩ := tickStep_facts h hh
  exact sf.inv

end Compio.Executor
