/-
`Inv` is preserved by the cancel routes (`Proactor::cancel`, `cancel(key.clone())`, `cancel_token`) — including the
`push_raw` overflow round inside io_uring's `Driver::cancel` — and by the polling driver's submit / readiness events.
-/
import Compio.Lemmas.KeyLifeStepsA

namespace Compio.KeyLife

open Compio.PollQueues

/-! ### the `push_raw` overflow round inside a driver call -/

theorem step_kPost_eq (c : Cfg) (s : State) (id : Nat) (more : Bool) (r : Res) :
    step c s (.kPost id more r) = kPostStep s id more r := rfl

theorem step_submit_eq (c : Cfg) {s : State} (ha : s.alive = true) (hd : s.drv = .iour) :
    step c s .submit = some (submitAll s) := by simp [step, submitAll, ha, hd]

theorem step_pollEntries_eq (c : Cfg) {s : State} (ha : s.alive = true) (hd : s.drv = .iour) :
    step c s .pollEntries = some (drainAll s) := by simp [step, drainAll, ha, hd]

/-- a CQE post changes nothing but the ops -/
theorem kPostStep_fields {s s' : State} {id : Nat} {more : Bool} {r : Res} (h : kPostStep s id more r = some s') :
    s'.alive = s.alive ∧ s'.drv = s.drv ∧ s'.reg = s.reg ∧ s'.armed = s.armed ∧ s'.hazard = s.hazard ∧
      s'.sqLen = s.sqLen ∧ s'.cap = s.cap := by
  unfold kPostStep at h
  split at h
  · split at h
    · split at h <;> (obtain rfl := Option.some.inj h; exact ⟨rfl, rfl, rfl, rfl, rfl, rfl, rfl⟩)
    · cases h
  · cases h

/-- whatever the three events `submit`, `kPost`, `pollEntries` preserve on a live io_uring driver is preserved by
the overflow round -/
theorem overflowDrain_ind (c : Cfg) (P : State → Prop)
    (hsub : ∀ s s', P s → step c s .submit = some s' → P s')
    (hpost : ∀ s s' id more r, P s → step c s (.kPost id more r) = some s' → P s')
    (hdrain : ∀ s s', P s → step c s .pollEntries = some s' → P s')
    {s : State} (hp : P s) (ha : s.alive = true) (hd : s.drv = .iour) (posts : List (Nat × Bool × Res)) :
    P (overflowDrain s posts) ∧ (overflowDrain s posts).alive = true ∧ (overflowDrain s posts).drv = .iour := by
  unfold overflowDrain
  have h1 : P (submitAll s) ∧ (submitAll s).alive = true ∧ (submitAll s).drv = .iour :=
    ⟨hsub s _ hp (step_submit_eq c ha hd), ha, hd⟩
  have h2 : ∀ (posts : List (Nat × Bool × Res)) (t : State), (P t ∧ t.alive = true ∧ t.drv = .iour) →
      (P (posts.foldl (fun s p => (kPostStep s p.1 p.2.1 p.2.2).getD s) t) ∧
        (posts.foldl (fun s p => (kPostStep s p.1 p.2.1 p.2.2).getD s) t).alive = true ∧
        (posts.foldl (fun s p => (kPostStep s p.1 p.2.1 p.2.2).getD s) t).drv = .iour) := by
    intro posts
    induction posts with
    | nil => intro t ht; exact ht
    | cons p ps ih =>
      intro t ht
      simp only [List.foldl_cons]
      apply ih
      cases hk : kPostStep t p.1 p.2.1 p.2.2 with
      | none => simpa using ht
      | some t' =>
        obtain ⟨f1, f2, _⟩ := kPostStep_fields hk
        simp only [Option.getD_some]
        exact ⟨hpost t t' _ _ _ ht.1 (by rw [step_kPost_eq]; exact hk), by rw [f1]; exact ht.2.1, by rw [f2]; exact ht.2.2⟩
  obtain ⟨p3, a3, d3⟩ := h2 posts _ h1
  exact ⟨hdrain _ _ p3 (step_pollEntries_eq c a3 d3), a3, d3⟩

theorem inv_overflowDrain {c : Cfg} {s : State} (hi : Inv c s) (ha : s.alive = true) (hd : s.drv = .iour)
    (posts : List (Nat × Bool × Res)) : Inv c (overflowDrain s posts) :=
  (overflowDrain_ind c (Inv c) (fun _ _ h1 h2 => inv_submit h1 h2) (fun _ _ _ _ _ h1 h2 => inv_kPost h1 h2)
    (fun _ _ h1 h2 => inv_pollEntries h1 h2) hi ha hd posts).1

/-- the overflow round touches nothing but the ops and the SQ occupancy -/
theorem overflowDrain_fields (s : State) (posts : List (Nat × Bool × Res)) :
    (overflowDrain s posts).alive = s.alive ∧ (overflowDrain s posts).drv = s.drv ∧
      (overflowDrain s posts).reg = s.reg ∧ (overflowDrain s posts).armed = s.armed ∧
      (overflowDrain s posts).hazard = s.hazard ∧ (overflowDrain s posts).sqLen = 0 ∧
      (overflowDrain s posts).cap = s.cap := by
  unfold overflowDrain drainAll
  have h2 : ∀ (posts : List (Nat × Bool × Res)) (t : State),
      let t' := posts.foldl (fun s p => (kPostStep s p.1 p.2.1 p.2.2).getD s) t
      t'.alive = t.alive ∧ t'.drv = t.drv ∧ t'.reg = t.reg ∧ t'.armed = t.armed ∧ t'.hazard = t.hazard ∧
        t'.sqLen = t.sqLen ∧ t'.cap = t.cap := by
    intro posts
    induction posts with
    | nil => intro t; exact ⟨rfl, rfl, rfl, rfl, rfl, rfl, rfl⟩
    | cons p ps ih =>
      intro t
      simp only [List.foldl_cons]
      cases hk : kPostStep t p.1 p.2.1 p.2.2 with
      | none => simpa using ih t
      | some t' =>
        obtain ⟨f1, f2, f3, f4, f5, f6, f7⟩ := kPostStep_fields hk
        obtain ⟨g1, g2, g3, g4, g5, g6, g7⟩ := ih t'
        simp only [Option.getD_some]
        exact ⟨g1.trans f1, g2.trans f2, g3.trans f3, g4.trans f4, g5.trans f5, g6.trans f6, g7.trans f7⟩
  obtain ⟨g1, g2, g3, g4, g5, g6, g7⟩ := h2 posts (submitAll s)
  exact ⟨g1, g2, g3, g4, g5, g6, g7⟩

theorem inv_flag {c : Cfg} {s : State} (hi : Inv c s) (id : Nat) :
    Inv c { s with ops := modAt (fun o => { o with cancelled := true }) s.ops id } :=
  inv_modAt hi id _ rfl rfl rfl rfl rfl rfl rfl
    (keeps_congr (fun _ => rfl) (fun _ => rfl) (fun _ => rfl) (fun _ => rfl) (fun _ => rfl) (fun _ => rfl))
    (fun _ _ ok => ok.congr rfl rfl rfl rfl rfl rfl rfl rfl rfl rfl rfl rfl rfl rfl)

theorem inv_queueCancel {c : Cfg} {s : State} (hi : Inv c s) (id : Nat) : Inv c (queueCancel s id) :=
  inv_modAt hi id _ rfl rfl rfl rfl rfl rfl rfl
    (keeps_congr (fun _ => rfl) (fun _ => rfl) (fun _ => rfl) (fun _ => rfl) (fun _ => rfl) (fun _ => rfl))
    (fun _ _ ok => ok.congr rfl rfl rfl rfl rfl rfl rfl rfl rfl rfl rfl rfl rfl rfl)

theorem inv_iourCancel {c : Cfg} {s : State} (hi : Inv c s) (ha : s.alive = true) (hd : s.drv = .iour) (id : Nat)
    (posts : List (Nat × Bool × Res)) : Inv c (iourCancel c s id posts) := by
  unfold iourCancel
  split
  · split
    · exact inv_queueCancel hi id
    · exact inv_queueCancel (inv_overflowDrain hi ha hd posts) id
  · unfold iourCancelUnfixed
    split
    · exact inv_queueCancel hi id
    · exact inv_modAt hi id _ rfl rfl rfl rfl rfl rfl rfl
        (keeps_congr (fun _ => rfl) (fun _ => rfl) (fun _ => rfl) (fun _ => rfl) (fun _ => rfl) (fun _ => rfl))
        (fun _ _ ok => ok.congr rfl rfl rfl rfl rfl rfl rfl rfl rfl rfl rfl rfl rfl rfl)

theorem inv_pollCancel {c : Cfg} {s : State} (hi : Inv c s) (ha : s.alive = true) {id : Nat} {o o' : Op}
    (ho : s.ops[id]? = some o') (hfd : o.fd = o'.fd) (hrc : 0 < o'.rc) : Inv c (pollCancel s id o) := by
  unfold pollCancel
  split
  · exact hi
  · have hid := (hi.ops id o' ho).2
    refine inv_modAt_reg hi ha id _ rfl rfl rfl rfl rfl rfl (fun _ => ⟨rfl, rfl, rfl⟩) ?_ ?_ ?_ ?_
    · intro j x hj hx
      have hxid := (hi.ops j x hx).2
      unfold qcount
      by_cases hf : x.fd = o.fd
      · simp only [hf, upd_same, FdQ.sel_remove, count_filter_ne, hxid, hj, if_false]
      · simp only [upd_other _ _ _ _ hf]
    · intro fd d i hm
      by_cases hf : fd = o.fd
      · subst hf
        simp only [upd_same, FdQ.sel_remove] at hm
        exact (mem_filter_ne.mp hm).1
      · simpa only [upd_other _ _ _ _ hf] using hm
    · intro hd fd
      by_cases hf : fd = o.fd
      · subst hf
        simp [upd_same, hi.iour_reg hd, FdQ.remove, FdQ.empty]
      · simp only [upd_other _ _ _ _ hf]; exact hi.iour_reg hd fd
    · intro x hx ok
      rw [ho] at hx; obtain rfl := Option.some.inj hx
      have hocc : (s.reg o.fd).occ id = qcount s.reg o' := by rw [hfd]; exact occ_eq_qcount hi ho
      obtain ⟨h1, h2, h5, h6, h7, h8, h9⟩ := ok
      have hle : (s.reg o.fd).occ id ≤ o'.cloneRef.rc := by
        rw [hocc]; simp only [Op.cloneRef]; rw [h1]; unfold holders; omega
      refine ⟨?_, (rcok_dropRefs (rcok_cloneRef h2 hrc) hle).congr rfl rfl rfl rfl, h5, h6, h7, h8, h9⟩
      have hq0 : qcount (upd s.reg o.fd ((s.reg o.fd).remove id))
          { (o'.cloneRef.dropRefs ((s.reg o.fd).occ id)) with chan := o'.chan ++ [ECANCELED] } = 0 := by
        unfold qcount
        simp only [Op.dropRefs, Op.cloneRef, ← hfd, upd_same, FdQ.sel_remove, count_filter_ne, hid, if_true]
      simp only [holders, hq0]
      simp only [Op.dropRefs, Op.cloneRef, holders, List.length_append, List.length_singleton] at h1 ⊢
      rw [hocc]
      omega

theorem inv_driverCancel {c : Cfg} {s : State} (hi : Inv c s) (ha : s.alive = true) {id : Nat} {o o' : Op}
    (ho : s.ops[id]? = some o') (hfd : o.fd = o'.fd) (hrc : 0 < o'.rc) (posts : List (Nat × Bool × Res)) :
    Inv c (driverCancel c s id o posts) := by
  unfold driverCancel
  split
  · rename_i hd; exact inv_iourCancel hi ha hd id posts
  · exact inv_pollCancel hi ha ho hfd hrc

/-! ### what a driver call leaves alone in every op -/

/-- fields of an op that neither a submit, nor a CQE, nor a drain, nor a cancel request changes; and a released op
stays released -/
structure Same (x x' : Op) : Prop where
  user : x'.user = x.user
  cancelled : x'.cancelled = x.cancelled
  id : x'.id = x.id
  fd : x'.fd = x.fd
  dir : x'.dir = x.dir
  kind : x'.kind = x.kind
  weak : x'.weak = x.weak
  dead : x.rc = 0 → x'.rc = 0

theorem Same.rfl' (x : Op) : Same x x := ⟨rfl, rfl, rfl, rfl, rfl, rfl, rfl, fun h => h⟩

theorem Same.trans {x y z : Op} (h1 : Same x y) (h2 : Same y z) : Same x z :=
  ⟨h2.user.trans h1.user, h2.cancelled.trans h1.cancelled, h2.id.trans h1.id, h2.fd.trans h1.fd,
    h2.dir.trans h1.dir, h2.kind.trans h1.kind, h2.weak.trans h1.weak, fun h => h2.dead (h1.dead h)⟩

/-- position-wise relation of two op lists of equal length -/
def OpsRel (l l' : List Op) : Prop :=
  l'.length = l.length ∧ ∀ (i : Nat) (x x' : Op), l[i]? = some x → l'[i]? = some x' → Same x x'

theorem OpsRel.refl (l : List Op) : OpsRel l l :=
  ⟨rfl, fun i x x' h h' => by rw [h] at h'; obtain rfl := Option.some.inj h'; exact Same.rfl' x⟩

theorem OpsRel.get {l l' : List Op} (h : OpsRel l l') {i : Nat} {x : Op} (hx : l[i]? = some x) :
    ∃ x', l'[i]? = some x' ∧ Same x x' := by
  have hlt : i < l'.length := by rw [h.1]; exact (List.getElem?_eq_some_iff.mp hx).1
  exact ⟨l'[i], List.getElem?_eq_getElem hlt, h.2 i x _ hx (List.getElem?_eq_getElem hlt)⟩

theorem OpsRel.get' {l l' : List Op} (h : OpsRel l l') {i : Nat} {x' : Op} (hx : l'[i]? = some x') :
    ∃ x, l[i]? = some x ∧ Same x x' := by
  have hlt : i < l.length := by rw [← h.1]; exact (List.getElem?_eq_some_iff.mp hx).1
  exact ⟨l[i], List.getElem?_eq_getElem hlt, h.2 i _ x' (List.getElem?_eq_getElem hlt) hx⟩

theorem OpsRel.trans {l1 l2 l3 : List Op} (h1 : OpsRel l1 l2) (h2 : OpsRel l2 l3) : OpsRel l1 l3 := by
  refine ⟨h2.1.trans h1.1, ?_⟩
  intro i x z hx hz
  obtain ⟨y, hy, hxy⟩ := h1.get hx
  exact hxy.trans (h2.2 i y z hy hz)

theorem OpsRel.map {f : Op → Op} (hf : ∀ x, Same x (f x)) (l : List Op) : OpsRel l (l.map f) := by
  refine ⟨by simp, ?_⟩
  intro i x x' hx hx'
  rw [List.getElem?_map, hx] at hx'
  obtain rfl := Option.some.inj hx'
  exact hf x

theorem OpsRel.modAt {f : Op → Op} (hf : ∀ x, Same x (f x)) (l : List Op) (i : Nat) : OpsRel l (modAt f l i) := by
  refine ⟨by simp, ?_⟩
  intro j x x' hx hx'
  rcases modAt_cases hx' with ⟨_, y, hy, rfl⟩ | ⟨_, hy⟩
  · rw [hx] at hy; obtain rfl := Option.some.inj hy; exact hf x
  · rw [hx] at hy; obtain rfl := Option.some.inj hy; exact Same.rfl' x

theorem same_submit (x : Op) : Same x x.submit := ⟨rfl, rfl, rfl, rfl, rfl, rfl, rfl, fun h => h⟩

theorem same_drainCq (x : Op) : Same x x.drainCq := by
  unfold Op.drainCq
  split
  · exact ⟨rfl, rfl, rfl, rfl, rfl, rfl, rfl, fun h => h⟩
  · exact ⟨rfl, rfl, rfl, rfl, rfl, rfl, rfl, fun h => by simp only [Op.dropRef, Op.dropRefs]; omega⟩

theorem kPostStep_same {s s' : State} {id : Nat} {more : Bool} {r : Res} (h : kPostStep s id more r = some s') :
    OpsRel s.ops s'.ops := by
  unfold kPostStep at h
  split at h
  · split at h
    · split at h
      · obtain rfl := Option.some.inj h
        (apply OpsRel.modAt; intro x; exact ⟨rfl, rfl, rfl, rfl, rfl, rfl, rfl, fun h => h⟩)
      · obtain rfl := Option.some.inj h
        (apply OpsRel.modAt; intro x; exact ⟨rfl, rfl, rfl, rfl, rfl, rfl, rfl, fun h => h⟩)
    · cases h
  · cases h

/-- the overflow round leaves handles, flags and identities of every op alone, and resurrects nothing -/
theorem overflowDrain_same (s : State) (posts : List (Nat × Bool × Res)) :
    OpsRel s.ops (overflowDrain s posts).ops := by
  unfold overflowDrain
  have h1 : OpsRel s.ops (submitAll s).ops := OpsRel.map same_submit _
  have h2 : ∀ (posts : List (Nat × Bool × Res)) (t : State),
      OpsRel t.ops (posts.foldl (fun s p => (kPostStep s p.1 p.2.1 p.2.2).getD s) t).ops := by
    intro posts
    induction posts with
    | nil => intro t; exact OpsRel.refl _
    | cons p ps ih =>
      intro t
      simp only [List.foldl_cons]
      cases hk : kPostStep t p.1 p.2.1 p.2.2 with
      | none => simpa using ih t
      | some t' => simp only [Option.getD_some]; exact (kPostStep_same hk).trans (ih t')
  exact (h1.trans (h2 posts _)).trans (OpsRel.map same_drainCq _)

theorem queueCancel_same (s : State) (id : Nat) : OpsRel s.ops (queueCancel s id).ops := by
  unfold queueCancel
  apply OpsRel.modAt; intro x; exact ⟨rfl, rfl, rfl, rfl, rfl, rfl, rfl, fun h => h⟩

theorem iourCancel_same (c : Cfg) (s : State) (id : Nat) (posts : List (Nat × Bool × Res)) :
    OpsRel s.ops (iourCancel c s id posts).ops := by
  unfold iourCancel
  split
  · split
    · exact queueCancel_same s id
    · exact (overflowDrain_same s posts).trans (queueCancel_same _ id)
  · unfold iourCancelUnfixed
    split
    · exact queueCancel_same s id
    · (apply OpsRel.modAt; intro x; exact ⟨rfl, rfl, rfl, rfl, rfl, rfl, rfl, fun h => h⟩)

theorem driverCancel_user {c : Cfg} {s : State} {id : Nat} {o o'' : Op} {posts : List (Nat × Bool × Res)}
    (h : (driverCancel c s id o posts).ops[id]? = some o'') :
    ∃ o1, s.ops[id]? = some o1 ∧ o''.user = o1.user ∧ o''.cancelled = o1.cancelled := by
  unfold driverCancel at h
  split at h
  · obtain ⟨x, hx, hs⟩ := (iourCancel_same c s id posts).get' h
    exact ⟨x, hx, hs.user, hs.cancelled⟩
  · unfold pollCancel at h
    split at h
    · exact ⟨o'', h, rfl, rfl⟩
    · simp only [getElem?_modAt_self] at h
      cases h1 : s.ops[id]? with
      | none => simp [h1] at h
      | some o1 => simp [h1] at h; exact ⟨o1, rfl, by rw [← h]; rfl, by rw [← h]; rfl⟩

theorem iourCancel_fields (c : Cfg) (s : State) (id : Nat) (posts : List (Nat × Bool × Res)) :
    (iourCancel c s id posts).alive = s.alive ∧ (iourCancel c s id posts).drv = s.drv ∧
      (iourCancel c s id posts).reg = s.reg ∧ (iourCancel c s id posts).armed = s.armed ∧
      (iourCancel c s id posts).hazard = s.hazard := by
  obtain ⟨g1, g2, g3, g4, g5, _, _⟩ := overflowDrain_fields s posts
  unfold iourCancel iourCancelUnfixed queueCancel
  split
  · split
    · exact ⟨rfl, rfl, rfl, rfl, rfl⟩
    · exact ⟨g1, g2, g3, g4, g5⟩
  · split <;> exact ⟨rfl, rfl, rfl, rfl, rfl⟩

theorem driverCancel_alive (c : Cfg) (s : State) (id : Nat) (o : Op) (posts : List (Nat × Bool × Res)) :
    (driverCancel c s id o posts).alive = s.alive ∧ (driverCancel c s id o posts).drv = s.drv := by
  unfold driverCancel
  split
  · exact ⟨(iourCancel_fields c s id posts).1, (iourCancel_fields c s id posts).2.1⟩
  · unfold pollCancel; split <;> exact ⟨rfl, rfl⟩

theorem inv_cancelIssue {c : Cfg} {s : State} (hi : Inv c s) (ha : s.alive = true) {id : Nat} {o : Op}
    (ho : s.ops[id]? = some o) (hu : 0 < o.user) (posts : List (Nat × Bool × Res)) :
    Inv c (cancelIssue c s id o posts) := by
  unfold cancelIssue
  have hi1 := inv_flag hi id
  have ho1 : ({ s with ops := modAt (fun o => { o with cancelled := true }) s.ops id } : State).ops[id]?
      = some { o with cancelled := true } := by
    simp only [getElem?_modAt_self, ho, Option.map_some]
  have hrc : 0 < o.rc := opok_rc_pos_of_user (hi.ops id o ho).1 hu
  have hi2 := inv_driverCancel (o := o) hi1 ha ho1 rfl hrc posts
  refine inv_modAt hi2 id _ rfl rfl rfl rfl rfl rfl rfl keeps_userDrop ?_
  intro o'' ho'' ok
  obtain ⟨o1, h1, h2, _⟩ := driverCancel_user ho''
  rw [ho1] at h1; obtain rfl := Option.some.inj h1
  exact ok_userDrop ok (by rw [h2]; exact hu)

theorem inv_cancelKey {c : Cfg} {s : State} (hi : Inv c s) (ha : s.alive = true) {id : Nat} {o : Op}
    (ho : s.ops[id]? = some o) (hu : 0 < o.user) (posts : List (Nat × Bool × Res)) :
    Inv c (cancelKey c s id o posts) := by
  unfold cancelKey
  split
  · refine inv_modAt hi id _ rfl rfl rfl rfl rfl rfl rfl keeps_userDrop ?_
    intro o' ho' ok
    rw [ho] at ho'; obtain rfl := Option.some.inj ho'
    exact ok_userDrop ok hu
  · split
    · rename_i hq
      refine inv_modAt hi id _ rfl rfl rfl rfl rfl rfl rfl
        (keeps_congr (fun _ => rfl) (fun _ => rfl) (fun _ => rfl) (fun _ => rfl) (fun _ => rfl) (fun _ => rfl)) ?_
      intro o' ho' ok
      rw [ho] at ho'; obtain rfl := Option.some.inj ho'
      exact ok_takeResult ok hu hq.1 true
    · exact inv_cancelIssue hi ha ho hu posts

theorem inv_userCancel {c : Cfg} {s s' : State} {id : Nat} {posts : List (Nat × Bool × Res)} (hi : Inv c s)
    (h : step c s (.userCancel id posts) = some s') : Inv c s' := by
  simp only [step] at h
  split at h
  · rename_i o ho
    split at h
    · rename_i hg
      obtain rfl := Option.some.inj h
      exact inv_cancelKey hi hg.1 ho hg.2 posts
    · cases h
  · cases h

/-- `key.clone()` / `token.upgrade()`: one more counted handle on the caller's side -/
theorem inv_clone {c : Cfg} {s : State} (hi : Inv c s) {id : Nat} {o : Op} (ho : s.ops[id]? = some o) (hrc : 0 < o.rc) :
    Inv c { s with ops := modAt (fun o => ({ o.cloneRef with user := o.user + 1 } : Op)) s.ops id } := by
  refine inv_modAt hi id _ rfl rfl rfl rfl rfl rfl rfl
    (keeps_congr (fun _ => rfl) (fun _ => rfl) (fun _ => rfl) (fun _ => rfl) (fun _ => rfl) (fun _ => rfl)) ?_
  intro o' ho' ok
  rw [ho] at ho'; obtain rfl := Option.some.inj ho'
  obtain ⟨h1, h2, h5, h6, h7, h8, h9⟩ := ok
  refine ⟨?_, (rcok_cloneRef h2 hrc).congr rfl rfl rfl rfl, h5, h6, h7, h8, h9⟩
  simp only [Op.cloneRef, holders, qcount] at h1 ⊢
  omega

theorem inv_cloneCancel {c : Cfg} {s s' : State} {id : Nat} {posts : List (Nat × Bool × Res)} (hi : Inv c s)
    (h : step c s (.cloneCancel id posts) = some s') : Inv c s' := by
  simp only [step] at h
  split at h
  · rename_i o ho
    split at h
    · rename_i hg
      obtain rfl := Option.some.inj h
      have hrc := opok_rc_pos_of_user (hi.ops id o ho).1 hg.2
      refine inv_cancelKey (inv_clone hi ho hrc) hg.1 ?_ (by show 0 < o.user + 1; omega) posts
      simp only [getElem?_modAt_self, ho, Option.map_some]
    · cases h
  · cases h

theorem ok_flag_userDrop {drv ring reg} {o : Op} (ok : OpOk drv ring reg o) (hu : 0 < o.user) :
    OpOk drv ring reg ({ o with cancelled := true, user := o.user - 1 }.dropRef) := by
  have hrc := opok_rc_pos_of_user ok hu
  obtain ⟨h1, h2, h5, h6, h7, h8, h9⟩ := ok
  refine ⟨?_, rcok_dropRef (h2.congr (o' := { o with cancelled := true, user := o.user - 1 }) rfl rfl rfl rfl) hrc,
    h5, h6, h7, h8, h9⟩
  simp only [Op.dropRef, Op.dropRefs, holders, qcount] at h1 ⊢
  omega

theorem inv_tokenCancel {c : Cfg} {s s' : State} {id : Nat} {posts : List (Nat × Bool × Res)} (hi : Inv c s)
    (h : step c s (.tokenCancel id posts) = some s') : Inv c s' := by
  simp only [step] at h
  split at h
  · rename_i o ho
    split at h
    · rename_i hg
      split at h
      · obtain rfl := Option.some.inj h; exact hi
      · rename_i hrc0
        obtain rfl := Option.some.inj h
        have hrc : 0 < o.rc := by omega
        have hi0 := inv_clone hi ho hrc
        have ho0 : ({ s with ops := modAt (fun o => ({ o.cloneRef with user := o.user + 1 } : Op)) s.ops id } : State).ops[id]?
            = some { o.cloneRef with user := o.user + 1 } := by
          simp only [getElem?_modAt_self, ho, Option.map_some]
        unfold cancelTok
        split
        · refine inv_modAt hi0 id _ rfl rfl rfl rfl rfl rfl rfl
            (keeps_congr (fun _ => rfl) (fun _ => rfl) (fun _ => rfl) (fun _ => rfl) (fun _ => rfl) (fun _ => rfl)) ?_
          intro o' ho' ok
          rw [ho0] at ho'; obtain rfl := Option.some.inj ho'
          exact ok_flag_userDrop ok (by show 0 < o.user + 1; omega)
        · exact inv_cancelIssue hi0 hg.1 ho0 (by show 0 < o.user + 1; omega) posts
    · cases h
  · cases h

/-! ### polling driver: submit and readiness -/

theorem not_mem_queue_len {c : Cfg} {s : State} (hi : Inv c s) (fd : Nat) (d : Dir) :
    ((s.reg fd).sel d).count s.ops.length = 0 := by
  apply List.count_eq_zero.mpr
  intro hm
  obtain ⟨x, hx, _, _⟩ := hi.qmem fd d _ hm
  have := (List.getElem?_eq_some_iff.mp hx).1
  omega

theorem inv_pushWait {c : Cfg} {s s' : State} {k : Kind} {fd : Nat} {d : Dir} (hi : Inv c s)
    (h : step c s (.pushWait k fd d) = some s') : Inv c s' := by
  simp only [step] at h
  split at h
  · rename_i hg
    obtain rfl := Option.some.inj h
    refine inv_append hi _ rfl rfl rfl rfl rfl rfl hg.1 rfl ?_ ?_ ?_ ?_
    · -- the new op
      have h0 := not_mem_queue_len hi fd d
      refine ⟨?_, ⟨rfl, by simp [Op.new, Op.cloneRef], by simp [Op.new, Op.cloneRef]⟩, by simp [Op.new, Op.cloneRef],
        by simp [Op.new, Op.cloneRef], by simp [Op.new, Op.cloneRef], by simp [Op.new, Op.cloneRef],
        by simp [Op.new, Op.cloneRef]⟩
      simp only [holders, qcount, Op.new, Op.cloneRef, upd_same, FdQ.sel_pushBack, if_true, count_append_one, h0]
      simp
    · intro j x hx
      have hxid := (hi.ops j x hx).2
      have hj : j < s.ops.length := (List.getElem?_eq_some_iff.mp hx).1
      unfold qcount
      by_cases hf : x.fd = fd
      · simp only [hf, upd_same, FdQ.sel_pushBack]
        split
        · rw [count_append_one]
          have : x.id ≠ s.ops.length := by omega
          simp [this]
        · rfl
      · simp only [upd_other _ _ _ _ hf]
    · intro fd' d' i hm
      by_cases hf : fd' = fd
      · subst hf
        simp only [upd_same, FdQ.sel_pushBack] at hm
        split at hm
        · rename_i hd
          rcases List.mem_append.mp hm with h1 | h1
          · exact Or.inl h1
          · simp at h1; exact Or.inr ⟨h1, rfl, hd.symm⟩
        · exact Or.inl hm
      · simp only [upd_other _ _ _ _ hf] at hm; exact Or.inl hm
    · intro hd; rw [hg.2.1] at hd; cases hd
  · cases h

theorem inv_armed {c : Cfg} {s : State} (hi : Inv c s) (a : Nat → FdQ.Interest) : Inv c { s with armed := a } :=
  ⟨hi.1, hi.2, hi.3, hi.4, hi.5, hi.6, hi.7⟩

theorem inv_fdEvent {c : Cfg} {s s' : State} {fd : Nat} {rd wr : Bool} {r : Option Res} (hi : Inv c s)
    (h : step c s (.fdEvent fd rd wr r) = some s') : Inv c s' := by
  simp only [step] at h
  split at h
  · rename_i hg
    split at h
    · obtain rfl := Option.some.inj h; exact inv_armed hi _
    · rename_i k d q' hpop
      split at h
      · obtain rfl := Option.some.inj h; exact inv_armed hi _
      · rename_i v
        obtain rfl := Option.some.inj h
        obtain ⟨hsel, hoth⟩ := FdQ.popInterest_spec hpop
        have hkm : k ∈ (s.reg fd).sel d := by rw [hsel]; simp
        obtain ⟨ok0, hok0, hfd0, hdir0⟩ := hi.qmem fd d k hkm
        have hid0 := (hi.ops k ok0 hok0).2
        refine inv_modAt_reg hi hg.1 k _ rfl rfl rfl rfl rfl rfl (fun _ => ⟨rfl, rfl, rfl⟩) ?_ ?_ ?_ ?_
        · intro j x hj hx
          have hxid := (hi.ops j x hx).2
          unfold qcount
          by_cases hf : x.fd = fd
          · simp only [hf, upd_same]
            by_cases hd : x.dir = d
            · rw [hd, hsel, List.count_cons]
              have : ¬ (k = x.id) := by omega
              simp [this]
            · rw [hoth _ hd]
          · simp only [upd_other _ _ _ _ hf]
        · intro fd' d' i hm
          by_cases hf : fd' = fd
          · subst hf
            simp only [upd_same] at hm
            by_cases hd : d' = d
            · subst hd; rw [hsel]; exact List.mem_cons_of_mem _ hm
            · rw [hoth _ hd] at hm; exact hm
          · simpa only [upd_other _ _ _ _ hf] using hm
        · intro hd; rw [hg.2.1] at hd; cases hd
        · intro x hx ok
          rw [hok0] at hx; obtain rfl := Option.some.inj hx
          obtain ⟨h1, h2, h5, h6, h7, h8, h9⟩ := ok
          have hq1 : qcount s.reg ok0 = ((q'.sel d).count k) + 1 := by
            unfold qcount; rw [hfd0, hdir0, hid0, hsel]; simp
          have hq2 : qcount (upd s.reg fd q') ({ ok0 with result := some v, produced := ok0.produced ++ [v] }.dropRef)
              = (q'.sel d).count k := by
            unfold qcount
            simp only [Op.dropRef, Op.dropRefs, hfd0, hdir0, hid0, upd_same]
          have hrc : 0 < ok0.rc := by rw [h1]; unfold holders; omega
          refine ⟨?_, rcok_dropRef (h2.congr (o' := { ok0 with result := some v, produced := ok0.produced ++ [v] })
            rfl rfl rfl rfl) hrc, h5, h6, h7, h8, h9⟩
          simp only [holders, hq2]
          simp only [holders, hq1] at h1
          simp only [Op.dropRef, Op.dropRefs]
          omega
  · cases h

end Compio.KeyLife
