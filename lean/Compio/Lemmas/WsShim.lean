/-
Lemmas about the compio-ws model (`Model/WsShim.lean`).
-/
import Compio.Model.WsShim

namespace Compio.WsShim
open Compio.TlsNet (Pend)

/-- everything written so far, in order: in the pipe, then in the buffering stream -/
def WView.wire (v : WView) : List Frame := v.tx ++ v.tbuf

/-- a non-buffering stream never holds anything back -/
def NoBuf (sc : WSched) (v : WView) : Prop := sc.buffering = false → v.tbuf = []

theorem sWrite_ready {sc : WSched} {v v' : WView} {f : Frame} (hn : NoBuf sc v) (h : sWrite sc v f = (v', .ready ())) :
    NoBuf sc v' ∧ v'.wire = v.wire ++ [f] ∧ v'.rx = v.rx ∧ (sc.buffering = false → v'.tbuf = v.tbuf ∧ v'.tx = v.tx ++ [f]) ∧
    (sc.buffering = true → v'.tx = v.tx) := by
  unfold sWrite at h
  split at h
  · simp at h
  · split at h
    · rename_i hb
      simp only [Prod.mk.injEq, and_true] at h; subst h
      simp [WView.wire, hb, NoBuf]
    · rename_i hb
      have hb' : sc.buffering = false := by simpa using hb
      have := hn hb'
      simp only [Prod.mk.injEq, and_true] at h; subst h
      simp [WView.wire, hb', NoBuf, this]

theorem sWrite_pending {sc : WSched} {v v' : WView} {f : Frame} {p : Pend} (h : sWrite sc v f = (v', .pending p)) :
    v'.wire = v.wire ∧ v'.tx = v.tx ∧ v'.tbuf = v.tbuf ∧ v'.rx = v.rx ∧ p = .self := by
  unfold sWrite at h
  split at h
  · simp only [Prod.mk.injEq, R.pending.injEq] at h
    obtain ⟨h1, h2⟩ := h; subst h1; subst h2; simp [WView.wire]
  · split at h <;> simp at h

theorem sFlush_ready {sc : WSched} {v v' : WView} (h : sFlush sc v = (v', .ready ())) :
    NoBuf sc v' ∧ v'.tbuf = [] ∧ v'.tx = v.tx ++ v.tbuf ∧ v'.wire = v.wire ∧ v'.rx = v.rx := by
  unfold sFlush at h
  split at h
  · simp at h
  · simp only [Prod.mk.injEq, and_true] at h; subst h; simp [WView.wire, NoBuf]

theorem sFlush_pending {sc : WSched} {v v' : WView} {p : Pend} (h : sFlush sc v = (v', .pending p)) :
    v'.tbuf = v.tbuf ∧ v'.tx = v.tx ∧ v'.rx = v.rx ∧ p = .self := by
  unfold sFlush at h
  split at h
  · simp only [Prod.mk.injEq, R.pending.injEq] at h
    obtain ⟨h1, h2⟩ := h; subst h1; subst h2; simp
  · simp at h

/-- the frames of the write buffer go out in order; `Ready` means all of them went -/
theorem writeOut_spec (sc : WSched) : ∀ (l : List Frame) (v : WView) (rest : List Frame) (v' : WView) (r : R Unit),
    NoBuf sc v → writeOut sc l v = (rest, v', r) →
    NoBuf sc v' ∧ (∃ done, l = done ++ rest ∧ v'.wire = v.wire ++ done ∧ v'.rx = v.rx ∧
      (sc.buffering = false → v'.tbuf = v.tbuf ∧ v'.tx = v.tx ++ done) ∧ (sc.buffering = true → v'.tx = v.tx)) ∧
    (match r with | .ready () => rest = [] | .pending p => p = .self ∧ rest ≠ [])
  | [], v, rest, v', r, hn, h => by
    simp only [writeOut, Prod.mk.injEq] at h
    obtain ⟨h1, h2, h3⟩ := h; subst h1; subst h2; subst h3
    exact ⟨hn, ⟨[], by simp, by simp, rfl, fun _ => by simp, fun _ => rfl⟩, rfl⟩
  | f :: l, v, rest, v', r, hn, h => by
    rw [writeOut] at h
    cases hw : sWrite sc v f with
    | mk v1 r1 =>
      rw [hw] at h
      cases r1 with
      | ready u =>
        cases u
        simp only at h
        obtain ⟨g0, g1, g2, g3, g4⟩ := sWrite_ready hn hw
        obtain ⟨hn', ⟨done, h1, h2, h3, h4, h5⟩, hr⟩ := writeOut_spec sc l v1 rest v' r g0 h
        refine ⟨hn', ⟨f :: done, by simp [h1], by rw [h2, g1]; simp, by rw [h3, g2], ?_, ?_⟩, hr⟩
        · intro hb
          obtain ⟨e1, e2⟩ := h4 hb
          obtain ⟨e3, e4⟩ := g3 hb
          exact ⟨by rw [e1, e3], by rw [e2, e4]; simp⟩
        · intro hb; rw [h5 hb, g4 hb]
      | pending p =>
        simp only [Prod.mk.injEq] at h
        obtain ⟨h1, h2, h3⟩ := h; subst h1; subst h2; subst h3
        obtain ⟨g1, g2, g3, g4, g5⟩ := sWrite_pending hw
        refine ⟨?_, ⟨[], by simp, by simp [g1], g4, fun _ => ⟨g3, by simp [g2]⟩, fun _ => g2⟩, ⟨g5, by simp⟩⟩
        intro hb; rw [g3]; exact hn hb

theorem queueReply_spec (e : Eng) :
    e.queueReply.additional = none ∧
    e.queueReply.out = e.out ++ (match e.additional with | some f => [f] | none => []) := by
  unfold Eng.queueReply
  cases ha : e.additional with
  | none => simp [ha]
  | some f => simp

/-- the protocol flush: `Ready` means the reply queue, the write buffer and the stream buffer are empty and
everything is on the wire in order -/
theorem engFlush_ready {sc : WSched} {e e' : Eng} {v v' : WView} (hn : NoBuf sc v)
    (h : engFlush sc e v = (e', v', .ready ())) :
    NoBuf sc v' ∧ e'.additional = none ∧ e'.out = [] ∧ v'.tbuf = [] ∧ v'.rx = v.rx ∧
    v'.tx = v.tx ++ v.tbuf ++ e.out ++ (match e.additional with | some f => [f] | none => []) := by
  unfold engFlush at h
  have hadd := queueReply_spec e
  generalize e.queueReply = e1 at h hadd
  simp only at h
  cases hw : writeOut sc e1.out v with
  | mk rest x =>
    obtain ⟨v1, r1⟩ := x
    rw [hw] at h
    obtain ⟨hn1, ⟨done, h1, h2, h3, h4, h5⟩, hr⟩ := writeOut_spec sc _ _ _ _ _ hn hw
    cases r1 with
    | pending p => simp at h
    | ready u =>
      cases u
      simp only at hr h
      subst hr
      cases hf : sFlush sc v1 with
      | mk v2 r2 =>
        rw [hf] at h
        cases r2 with
        | pending p => simp at h
        | ready u =>
          cases u
          simp only [Prod.mk.injEq, and_true] at h
          obtain ⟨h6, h7⟩ := h; subst h6; subst h7
          obtain ⟨g0, g1, g2, g3, g4⟩ := sFlush_ready hf
          simp only [List.append_nil] at h1
          refine ⟨g0, hadd.1, rfl, g1, by rw [g4, h3], ?_⟩
          have : v2.tx = v1.wire := by rw [g2]; rfl
          rw [this, h2, ← h1, hadd.2]
          simp [WView.wire, List.append_assoc]

/-- a `Pending` protocol flush loses nothing: what is not yet on the wire is still queued, in order -/
theorem engFlush_pending {sc : WSched} {e e' : Eng} {v v' : WView} {p : Pend} (hn : NoBuf sc v)
    (h : engFlush sc e v = (e', v', .pending p)) :
    NoBuf sc v' ∧ p = .self ∧ e'.additional = none ∧ v'.rx = v.rx ∧
    v'.wire ++ e'.out = v.wire ++ e.out ++ (match e.additional with | some f => [f] | none => []) := by
  unfold engFlush at h
  have hadd := queueReply_spec e
  generalize e.queueReply = e1 at h hadd
  simp only at h
  cases hw : writeOut sc e1.out v with
  | mk rest x =>
    obtain ⟨v1, r1⟩ := x
    rw [hw] at h
    obtain ⟨hn1, ⟨done, h1, h2, h3, h4, h5⟩, hr⟩ := writeOut_spec sc _ _ _ _ _ hn hw
    cases r1 with
    | pending p1 =>
      simp only [Prod.mk.injEq, R.pending.injEq] at h
      obtain ⟨h6, h7, h8⟩ := h; subst h6; subst h7; subst h8
      simp only at hr
      refine ⟨hn1, hr.1, hadd.1, h3, ?_⟩
      simp only
      rw [h2, List.append_assoc, ← h1, hadd.2, List.append_assoc]
    | ready u =>
      cases u
      simp only at hr h
      subst hr
      cases hf : sFlush sc v1 with
      | mk v2 r2 =>
        rw [hf] at h
        cases r2 with
        | ready u => simp at h
        | pending p2 =>
          simp only [Prod.mk.injEq, R.pending.injEq] at h
          obtain ⟨h6, h7, h8⟩ := h; subst h6; subst h7; subst h8
          obtain ⟨g1, g2, g3, g4⟩ := sFlush_pending hf
          simp only [List.append_nil] at h1
          refine ⟨?_, g4, hadd.1, by rw [g3, h3], ?_⟩
          · intro hb; rw [g1]; exact hn1 hb
          · simp only [List.append_nil]
            have : v2.wire = v1.wire := by simp [WView.wire, g1, g2]
            rw [this, h2, ← h1, hadd.2, List.append_assoc]

/-- the reply that reading `f` queues -/
def replyOf (e : Eng) (f : Frame) : List Frame :=
  match f.kind with
  | .ping => [⟨.pong, f.data⟩]
  | .close => if e.closeSent then [] else [⟨.close, f.data⟩]
  | _ => []

def addList (e : Eng) : List Frame := match e.additional with | some f => [f] | none => []

theorem engRead_spec (e : Eng) (v : WView) :
    (v.rx = [] ∧ engRead e v = (e, { v with rwait := true }, .pending .reg)) ∨
    (∃ f rest e', v.rx = f :: rest ∧ engRead e v = (e', { v with rx := rest }, .ready f) ∧ e'.out = e.out ∧
      (e.additional = none → addList e' = replyOf e f)) := by
  cases hrx : v.rx with
  | nil => left; simp [engRead, sRead, hrx]
  | cons f rest =>
    right
    cases hk : f.kind with
    | ping =>
      exact ⟨f, rest, { e with additional := some ⟨.pong, f.data⟩ }, rfl, by simp [engRead, sRead, hrx, hk], rfl,
        fun _ => by simp [addList, replyOf, hk]⟩
    | close =>
      by_cases hc : e.closeSent = true
      · exact ⟨f, rest, { e with closeRcvd := true }, rfl, by simp [engRead, sRead, hrx, hk, hc], rfl,
          fun ha => by simp [addList, replyOf, hk, hc, ha]⟩
      · exact ⟨f, rest, { e with closeRcvd := true, closeSent := true, additional := some ⟨.close, f.data⟩ }, rfl,
          by simp [engRead, sRead, hrx, hk, hc], rfl, fun _ => by simp [addList, replyOf, hk, hc]⟩
    | text =>
      exact ⟨f, rest, e, rfl, by simp [engRead, sRead, hrx, hk], rfl, fun ha => by simp [addList, replyOf, hk, ha]⟩
    | bin =>
      exact ⟨f, rest, e, rfl, by simp [engRead, sRead, hrx, hk], rfl, fun ha => by simp [addList, replyOf, hk, ha]⟩
    | pong =>
      exact ⟨f, rest, e, rfl, by simp [engRead, sRead, hrx, hk], rfl, fun ha => by simp [addList, replyOf, hk, ha]⟩

/-- `Sink::poll_flush` of compio-ws: `Ready` ⇒ nothing is pending anywhere, everything is on the wire -/
theorem pollFlush_ready {sc : WSched} {w w' : Ws} {v v' : WView} (hn : NoBuf sc v)
    (h : pollFlush sc w v = (w', v', .ready ())) :
    NoBuf sc v' ∧ w'.e.additional = none ∧ w'.e.out = [] ∧ v'.tbuf = [] ∧ v'.rx = v.rx ∧ w'.nextItem = w.nextItem ∧
    v'.tx = v.tx ++ v.tbuf ++ w.e.out ++ addList w.e := by
  unfold pollFlush at h
  cases he : engFlush sc w.e v with
  | mk e1 x =>
    obtain ⟨v1, r1⟩ := x
    rw [he] at h
    cases r1 with
    | pending p => simp at h
    | ready u =>
      cases u
      simp only at h
      obtain ⟨g0, g1, g2, g3, g4, g5⟩ := engFlush_ready hn he
      cases hf : sFlush sc v1 with
      | mk v2 r2 =>
        rw [hf] at h
        cases r2 with
        | pending p => simp at h
        | ready u =>
          cases u
          simp only [Prod.mk.injEq, and_true] at h
          obtain ⟨h1, h2⟩ := h; subst h1; subst h2
          obtain ⟨f0, f1, f2, _, f4⟩ := sFlush_ready hf
          refine ⟨f0, g1, g2, f1, by rw [f4, g4], rfl, ?_⟩
          rw [f2, g3, g5]; simp [addList]

/-- a `Pending` flush: the wake-up is the transport's, and nothing is lost or reordered -/
theorem pollFlush_pending {sc : WSched} {w w' : Ws} {v v' : WView} {p : Pend} (hn : NoBuf sc v)
    (h : pollFlush sc w v = (w', v', .pending p)) :
    NoBuf sc v' ∧ p = .self ∧ w'.e.additional = none ∧ v'.rx = v.rx ∧ w'.nextItem = w.nextItem ∧
    v'.wire ++ w'.e.out = v.wire ++ w.e.out ++ addList w.e := by
  unfold pollFlush at h
  cases he : engFlush sc w.e v with
  | mk e1 x =>
    obtain ⟨v1, r1⟩ := x
    rw [he] at h
    cases r1 with
    | pending p1 =>
      simp only [Prod.mk.injEq, R.pending.injEq] at h
      obtain ⟨h1, h2, h3⟩ := h; subst h1; subst h2; subst h3
      obtain ⟨g0, g1, g2, g3, g4⟩ := engFlush_pending hn he
      exact ⟨g0, g1, g2, g3, rfl, g4⟩
    | ready u =>
      cases u
      simp only at h
      obtain ⟨g0, g1, g2, g3, g4, g5⟩ := engFlush_ready hn he
      cases hf : sFlush sc v1 with
      | mk v2 r2 =>
        rw [hf] at h
        cases r2 with
        | ready u => simp at h
        | pending p2 =>
          simp only [Prod.mk.injEq, R.pending.injEq] at h
          obtain ⟨h1, h2, h3⟩ := h; subst h1; subst h2; subst h3
          obtain ⟨f1, f2, f3, f4⟩ := sFlush_pending hf
          refine ⟨?_, f4, g1, by rw [f3, g4], rfl, ?_⟩
          · intro hb; rw [f1]; exact g0 hb
          · simp only [g2, List.append_nil, WView.wire, f1, f2, g3, g5, addList]

end Compio.WsShim
