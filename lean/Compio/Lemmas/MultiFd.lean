/-
Lemmas about `Compio.MultiFd` (operations waiting on several descriptors): what the cancel loop does to the registry,
and the invariant "a key sits only in queues of descriptors of its own operation" over all event lists.
-/
import Compio.Model.MultiFd

namespace Compio.MultiFd

open Compio.PollQueues

/-- `key` sits in an interest queue of descriptor `fd` -/
def On (reg : Reg) (key fd : Nat) : Prop := key ∈ (reg fd).rq ∨ key ∈ (reg fd).wq

theorem not_on_empty (key fd : Nat) : ¬ On Reg.empty key fd := by
  simp [On, Reg.empty, FdQ.empty]

theorem not_on_remove (q : FdQ) (key : Nat) : key ∉ (q.remove key).rq ∧ key ∉ (q.remove key).wq := by
  simp [FdQ.remove]

theorem mem_remove_sub (q : FdQ) (key k : Nat) :
    (k ∈ (q.remove key).rq → k ∈ q.rq) ∧ (k ∈ (q.remove key).wq → k ∈ q.wq) := by
  simp only [FdQ.remove, List.mem_filter]
  exact ⟨fun h => h.1, fun h => h.1⟩

theorem on_removeOne_sub {reg : Reg} {key fd k x : Nat} (h : On (removeOne reg key fd) k x) : On reg k x := by
  unfold On removeOne at h
  by_cases hx : x = fd
  · subst hx
    simp only [upd_same] at h
    rcases h with h | h
    · exact Or.inl ((mem_remove_sub _ _ _).1 h)
    · exact Or.inr ((mem_remove_sub _ _ _).2 h)
  · rw [upd_other _ _ _ _ hx] at h
    exact h

theorem not_on_removeOne_self (reg : Reg) (key fd : Nat) : ¬ On (removeOne reg key fd) key fd := by
  unfold On removeOne
  simp only [upd_same]
  have := not_on_remove (reg fd) key
  exact fun h => h.elim this.1 this.2

theorem on_cancelFds_sub {brk : Bool} {key k x : Nat} :
    ∀ {fds : List Nat} {reg : Reg}, On (cancelFds brk reg key fds) k x → On reg k x := by
  intro fds
  induction fds with
  | nil => intro reg h; exact h
  | cons fd rest ih =>
    intro reg h
    unfold cancelFds at h
    cases brk with
    | true => exact on_removeOne_sub h
    | false => exact on_removeOne_sub (ih h)

/-- a loop that cannot leave early takes the key out of the queues of EVERY descriptor it is given -/
theorem cancelFds_removes_all (key x : Nat) :
    ∀ (fds : List Nat) (reg : Reg), x ∈ fds → ¬ On (cancelFds false reg key fds) key x := by
  intro fds
  induction fds with
  | nil => intro reg hx; cases hx
  | cons fd rest ih =>
    intro reg hx
    unfold cancelFds
    simp only [Bool.false_eq_true, if_false]
    by_cases hxf : x = fd
    · subst hxf
      intro h
      exact not_on_removeOne_self reg key x (on_cancelFds_sub h)
    · have hr : x ∈ rest := by
        cases hx with
        | head => exact absurd rfl hxf
        | tail _ h => exact h
      exact ih _ hr

/-- descriptors that are not among the operation's are left alone -/
theorem cancelFds_other (brk : Bool) (key x : Nat) :
    ∀ (fds : List Nat) (reg : Reg), x ∉ fds → cancelFds brk reg key fds x = reg x := by
  intro fds
  induction fds with
  | nil => intro reg _; rfl
  | cons fd rest ih =>
    intro reg hx
    have h1 : x ≠ fd := fun h => hx (h ▸ List.mem_cons_self)
    have h2 : x ∉ rest := fun h => hx (List.mem_cons_of_mem _ h)
    unfold cancelFds
    cases brk with
    | true => simp only [if_true]; exact upd_other _ _ _ _ h1
    | false =>
      simp only [Bool.false_eq_true, if_false]
      rw [ih _ h2]
      exact upd_other _ _ _ _ h1

/-- other keys keep their places -/
theorem cancelFds_keeps_others (brk : Bool) (key k x : Nat) (hk : k ≠ key) :
    ∀ (fds : List Nat) (reg : Reg), On reg k x → On (cancelFds brk reg key fds) k x := by
  have hrm : ∀ (reg : Reg) (fd : Nat), On reg k x → On (removeOne reg key fd) k x := by
    intro reg fd h
    unfold On removeOne at *
    by_cases hx : x = fd
    · subst hx
      simp only [upd_same, FdQ.remove, List.mem_filter]
      rcases h with h | h
      · exact Or.inl ⟨h, by simp [hk]⟩
      · exact Or.inr ⟨h, by simp [hk]⟩
    · rw [upd_other _ _ _ _ hx]; exact h
  intro fds
  induction fds with
  | nil => intro reg h; exact h
  | cons fd rest ih =>
    intro reg h
    unfold cancelFds
    cases brk with
    | true => simp only [if_true]; exact hrm reg fd h
    | false => simp only [Bool.false_eq_true, if_false]; exact ih _ (hrm reg fd h)

theorem on_pushFds {key k x : Nat} :
    ∀ {fds : List (Nat × Dir)} {reg : Reg}, On (pushFds reg key fds) k x →
      On reg k x ∨ (k = key ∧ x ∈ fds.map (·.1)) := by
  intro fds
  induction fds with
  | nil => intro reg h; exact Or.inl h
  | cons a rest ih =>
    intro reg h
    obtain ⟨fd, d⟩ := a
    unfold pushFds at h
    rcases ih h with h1 | ⟨hk, hx⟩
    · unfold On at h1
      by_cases hxf : x = fd
      · subst hxf
        simp only [upd_same] at h1
        cases d with
        | rd =>
          simp only [FdQ.pushBack, List.mem_append, List.mem_singleton] at h1
          rcases h1 with (h1 | h1) | h1
          · exact Or.inl (Or.inl h1)
          · exact Or.inr ⟨h1, by simp⟩
          · exact Or.inl (Or.inr h1)
        | wr =>
          simp only [FdQ.pushBack, List.mem_append, List.mem_singleton] at h1
          rcases h1 with h1 | h1 | h1
          · exact Or.inl (Or.inl h1)
          · exact Or.inl (Or.inr h1)
          · exact Or.inr ⟨h1, by simp⟩
      · rw [upd_other _ _ _ _ hxf] at h1
        exact Or.inl h1
    · exact Or.inr ⟨hk, by simp only [List.map_cons, List.mem_cons]; exact Or.inr hx⟩

/-- after `push` the key sits in a queue of every descriptor of the operation -/
theorem pushFds_on (key : Nat) :
    ∀ (fds : List (Nat × Dir)) (reg : Reg) (x : Nat), x ∈ fds.map (·.1) → On (pushFds reg key fds) key x := by
  have keep : ∀ (fds : List (Nat × Dir)) (reg : Reg) (x : Nat), On reg key x → On (pushFds reg key fds) key x := by
    intro fds
    induction fds with
    | nil => intro reg x h; exact h
    | cons a rest ih =>
      intro reg x h
      obtain ⟨fd, d⟩ := a
      unfold pushFds
      apply ih
      unfold On at *
      by_cases hx : x = fd
      · subst hx
        simp only [upd_same]
        cases d <;> simp [FdQ.pushBack]
      · rw [upd_other _ _ _ _ hx]; exact h
  intro fds
  induction fds with
  | nil => intro reg x hx; cases hx
  | cons a rest ih =>
    intro reg x hx
    obtain ⟨fd, d⟩ := a
    unfold pushFds
    simp only [List.map_cons, List.mem_cons] at hx
    rcases hx with hx | hx
    · subst hx
      apply keep
      unfold On
      simp only [upd_same]
      cases d <;> simp [FdQ.pushBack]
    · exact ih _ _ hx

/-! ### invariant over all event lists -/

/-- a key sits only in queues of descriptors its operation waits on -/
def Own (s : State) : Prop :=
  ∀ (id fd : Nat), On s.reg id fd → ∃ o : MOp, s.ops[id]? = some o ∧ fd ∈ o.fdList

/-- same operations with the same descriptor lists (possibly more of them) -/
def Same (l l' : List MOp) : Prop :=
  ∀ (j : Nat) (o : MOp), l[j]? = some o → ∃ o' : MOp, l'[j]? = some o' ∧ o'.fds = o.fds

theorem Same.refl (l : List MOp) : Same l l := fun _ o h => ⟨o, h, rfl⟩

theorem Same.trans {a b c : List MOp} (h1 : Same a b) (h2 : Same b c) : Same a c := by
  intro j o h
  obtain ⟨o1, h1', e1⟩ := h1 j o h
  obtain ⟨o2, h2', e2⟩ := h2 j o1 h1'
  exact ⟨o2, h2', e2.trans e1⟩

theorem getElem?_modAt {α : Type} (f : α → α) (l : List α) (i j : Nat) :
    (modAt f l i)[j]? = if i = j then l[j]?.map f else l[j]? := by
  induction l generalizing i j with
  | nil => simp [modAt]
  | cons x xs ih =>
    cases i with
    | zero => cases j <;> simp [modAt]
    | succ i =>
      cases j with
      | zero => simp [modAt]
      | succ j => simp [modAt, ih]

theorem same_modAt (f : MOp → MOp) (hf : ∀ x, (f x).fds = x.fds) (l : List MOp) (i : Nat) : Same l (modAt f l i) := by
  intro j o h
  rw [getElem?_modAt]
  by_cases hij : i = j
  · simp only [hij, if_true, h, Option.map_some]
    exact ⟨f o, rfl, hf o⟩
  · simp only [hij, if_false]
    exact ⟨o, h, rfl⟩

theorem same_map (f : MOp → MOp) (hf : ∀ x, (f x).fds = x.fds) (l : List MOp) : Same l (l.map f) := by
  intro j o h
  exact ⟨f o, by simp [h], hf o⟩

theorem same_append (l : List MOp) (x : MOp) : Same l (l ++ [x]) := by
  intro j o h
  have hj : j < l.length := by
    rcases Nat.lt_or_ge j l.length with hlt | hge
    · exact hlt
    · rw [List.getElem?_eq_none hge] at h; cases h
  exact ⟨o, by rw [List.getElem?_append_left hj]; exact h, rfl⟩

theorem own_mono {s s' : State} (ho : Own s) (hs : Same s.ops s'.ops) (hr : ∀ id fd, On s'.reg id fd → On s.reg id fd) :
    Own s' := by
  intro id fd h
  obtain ⟨o, h1, h2⟩ := ho id fd (hr id fd h)
  obtain ⟨o', h1', e⟩ := hs id o h1
  exact ⟨o', h1', by unfold MOp.fdList at *; rw [e]; exact h2⟩

theorem same_zipWith_range (f : Nat → MOp → MOp) (hf : ∀ i x, (f i x).fds = x.fds) (l : List MOp) :
    Same l ((List.range l.length).zipWith f l) := by
  intro j o h
  have hj : j < l.length := by
    rcases Nat.lt_or_ge j l.length with hlt | hge
    · exact hlt
    · rw [List.getElem?_eq_none hge] at h; cases h
  refine ⟨f j o, ?_, hf j o⟩
  rw [List.getElem?_zipWith]
  simp [h, List.getElem?_range hj]

theorem own_init (d : Drv) : Own (init d) := fun id fd h => absurd h (not_on_empty id fd)

theorem driverCancel_same (brk : Bool) (s : State) (id : Nat) (o : MOp) : Same s.ops (driverCancel brk s id o).ops := by
  unfold driverCancel
  cases s.drv with
  | iour => exact same_modAt _ (by intro x; rfl) _ _
  | poll =>
    simp only
    split
    · exact Same.refl _
    · exact same_modAt _ (by intro x; rfl) _ _

theorem driverCancel_reg_sub (brk : Bool) (s : State) (id : Nat) (o : MOp) (k fd : Nat)
    (h : On (driverCancel brk s id o).reg k fd) : On s.reg k fd := by
  unfold driverCancel at h
  cases hd : s.drv with
  | iour => rw [hd] at h; exact h
  | poll =>
    rw [hd] at h
    simp only at h
    split at h
    · exact h
    · exact on_cancelFds_sub h

theorem step_own {brk : Bool} {s s' : State} {e : Event} (ho : Own s) (hs : step brk s e = some s') : Own s' := by
  cases e with
  | push fds =>
    simp only [step] at hs
    split at hs
    · cases hd : s.drv with
      | iour =>
        rw [hd] at hs
        simp only [Option.some.injEq] at hs
        subst hs
        exact own_mono ho (same_append _ _) (fun _ _ h => h)
      | poll =>
        rw [hd] at hs
        simp only [Option.some.injEq] at hs
        subst hs
        intro id fd h
        rcases on_pushFds h with h1 | ⟨hk, hx⟩
        · obtain ⟨o, h1', h2⟩ := ho id fd h1
          obtain ⟨o', h1'', e⟩ := same_append s.ops _ id o h1'
          exact ⟨o', h1'', by unfold MOp.fdList at *; rw [e]; exact h2⟩
        · subst hk
          exact ⟨⟨fds, 1 + fds.length, 1, false, false, 0, false, none, 0, 0, false⟩, by simp, hx⟩
    · cases hs
  | cancel id =>
    simp only [step] at hs
    split at hs
    · rename_i o hoo
      split at hs
      · split at hs
        · simp only [Option.some.injEq] at hs; subst hs
          exact own_mono ho (same_modAt _ (by intro x; rfl) _ _) (fun _ _ h => h)
        · split at hs
          · simp only [Option.some.injEq] at hs; subst hs
            exact own_mono ho (same_modAt _ (by intro x; rfl) _ _) (fun _ _ h => h)
          · simp only [Option.some.injEq] at hs; subst hs
            have hS := driverCancel_same brk
              { s with ops := modAt (fun o => { o with cancelled := true }) s.ops id } id o
            have hR := driverCancel_reg_sub brk
              { s with ops := modAt (fun o => { o with cancelled := true }) s.ops id } id o
            refine own_mono ho ?_ ?_
            · exact Same.trans (same_modAt (fun o => { o with cancelled := true }) (by intro x; rfl) s.ops id)
                (Same.trans hS (same_modAt _ (by intro x; rfl) _ _))
            · intro k fd h
              exact hR k fd h
      · cases hs
    · cases hs
  | drop id =>
    simp only [step] at hs
    split at hs
    · split at hs
      · simp only [Option.some.injEq] at hs; subst hs
        exact own_mono ho (same_modAt _ (by intro x; rfl) _ _) (fun _ _ h => h)
      · cases hs
    · cases hs
  | pop id =>
    simp only [step] at hs
    split at hs
    · split at hs
      · split at hs
        · simp only [Option.some.injEq] at hs; subst hs
          exact own_mono ho (same_modAt _ (by intro x; rfl) _ _) (fun _ _ h => h)
        · split at hs
          · cases hs
          · simp only [Option.some.injEq] at hs; subst hs; exact ho
      · cases hs
    · cases hs
  | poll =>
    simp only [step] at hs
    split at hs
    · simp only [Option.some.injEq] at hs; subst hs
      refine own_mono ho (same_map _ ?_ _) (fun _ _ h => h)
      intro x
      cases s.drv <;> simp only <;> split <;> rfl
    · cases hs
  | pdrop =>
    simp only [step] at hs
    split at hs
    · simp only [Option.some.injEq] at hs; subst hs
      intro id fd h
      exact absurd h (not_on_empty id fd)
    · cases hs

theorem run_own {brk : Bool} : ∀ (es : List Event) (s s' : State), Own s → run brk s es = some s' → Own s' := by
  intro es
  induction es with
  | nil => intro s s' ho h; simp only [run, Option.some.injEq] at h; subst h; exact ho
  | cons e es ih =>
    intro s s' ho h
    simp only [run] at h
    split at h
    · rename_i s1 h1
      exact ih s1 s' (step_own ho h1) h
    · cases h

end Compio.MultiFd
