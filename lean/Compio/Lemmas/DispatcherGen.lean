/-
Reading of the tables regenerated from the Rust source (`Gen/DispatcherLoop.lean`, extractor target
`DispatcherLoop`) as model events / effects, and the history lemma behind `join_events_follow_source_order`.
The `gen_*` theorems of Props/C18.lean state that the hand model's step functions do what these readings of the
generated tables say.
-/
import Compio.Lemmas.Dispatcher
import Compio.Gen.DispatcherLoop

namespace Compio.Dispatcher

open Compio.Gen.DispatcherLoop

/-- the worker's loop future after the generated action on the `JoinHandle` of the freshly spawned task `t` -/
def loopAfter (main : Nat → Main) (w t : Nat) : AfterSpawn → (Nat → Main)
  | .detach => main
  | .awaitTask => upd main w (.awaiting t)

/-- Effect of the statements of the spawned future on the receiver's view of the `oneshot` channel and on the
ghost counter `sent`, given how `func()` ends.  `res` = the bound result.  Leaving the future (end of the block, or
unwinding out of `func()`) drops the `callback` if it is still owned: `Chan.cancel` (which leaves a channel that
already carries a value alone).  `none` = the body never ends / is ill-formed. -/
def bodyEffect : List TaskStmt → Out → Option Nat → Chan → Nat → Option (Chan × Nat)
  | [], _, _, c, n => some (c.cancel, n)
  | .callFunc :: r, .ok v, _, c, n => bodyEffect r (.ok v) (some v) c n
  | .callFunc :: _, .panic, _, c, n => some (c.cancel, n)
  | .callFunc :: _, .never, _, _, _ => none
  | .sendResult :: r, o, some v, c, n => bodyEffect r o (some v) (c.send v) (n + 1)
  | .sendResult :: _, _, none, _, _ => none

theorem Chan.cancel_send (c : Chan) (v : Nat) : (c.send v).cancel = c.send v := by
  cases c <;> rfl

/-- the model event of the hand-over of the joiner closure -/
def handEvent (onPool : Bool) : Event := if onPool then .joinPool else .joinFallbackThread

/-- the joiner closure sends its results only after it has joined every thread -/
def joinerWaits : List JoinerStmt → Bool
  | .joinAllThreads :: r => r.contains .sendResults
  | _ => false

/-- model events of one statement of the generated `join` body; `refused` = the blocking pool refuses the joiner.
`none` = the statement has no counterpart in the model (e.g. an early `return Err(..)`). -/
def joinStmtEvents (refused : Bool) : JoinStmt → Option (List Event)
  | .dropSender => some [.joinStart]
  | .makeChannel => some []
  | .handJoiner =>
    if refused then
      match joinerRefused with
      | .spawnThread => some [.joinFallbackThread]
      | _ => none
    else some [.joinPool]
  | .awaitResults => if joinerWaits joinerBody then some [.joinReturn] else none
  | .resumePanics => some []
  | .returnOk => some []

def joinProgramOf (refused : Bool) : List JoinStmt → Option (List Event)
  | [] => some []
  | st :: r =>
    match joinStmtEvents refused st, joinProgramOf refused r with
    | some a, some b => some (a ++ b)
    | _, _ => none

/-- the join events of the generated `Dispatcher::join`, in source order -/
def joinProgram (refused : Bool) : Option (List Event) := joinProgramOf refused joinBody

/-- what `join` returns (`some p` = resumes panic `p`, `none` = `Ok(())`) once the results have arrived, read off
the statements: `firstDead` = payload of the first `Err` in the result vector -/
def joinResult : List JoinStmt → Option Nat → Option (Option Nat)
  | [], _ => none
  | .resumePanics :: _, some p => some (some p)
  | .returnOk :: _, _ => some none
  | _ :: r, d => joinResult r d

/-- `block_on_at` leaves after a bounded number of ticks once its main future is ready -/
def exitBounded (l : List ExitStmt) : Bool :=
  !l.contains .tickUntilIdle && l.getLast? == some .returnResult

def Event.isJoin : Event → Bool
  | .joinStart | .joinPool | .joinFallbackThread | .joinReturn => true
  | _ => false

/-- the join events that have happened, as a function of the state -/
def joinPhase (s : St) : List Event :=
  if s.sender then []
  else match s.joiner with
    | none => [.joinStart]
    | some b => [.joinStart, handEvent b] ++ (if s.joined.isSome then [.joinReturn] else [])

structure JGood (s : St) : Prop where
  a : s.sender = true → s.joiner = none
  b : s.joiner = none → s.joined = none

theorem JGood.init (nw : Nat) (conc : Bool) : JGood (init nw conc) := by
  constructor <;> simp [Compio.Dispatcher.init]

theorem joinPhase_same {s s' : St} {e : Event} (hg : JGood s) (he : e.isJoin = false) (h1 : s'.sender = s.sender)
    (h2 : s'.joiner = s.joiner) (h3 : s'.joined = s.joined) :
    JGood s' ∧ joinPhase s' = joinPhase s ++ (if e.isJoin then [e] else []) := by
  refine ⟨⟨by rw [h1, h2]; exact hg.a, by rw [h2, h3]; exact hg.b⟩, ?_⟩
  simp [joinPhase, h1, h2, h3, he]

theorem joinPhase_step {s s' : St} {e : Event} (hg : JGood s) (hs : step? s e = some s') :
    JGood s' ∧ joinPhase s' = joinPhase s ++ (if e.isJoin then [e] else []) := by
  cases e with
  | dispatch d t b =>
    obtain ⟨_, _, _, hc | hc⟩ := dispatch?_some hs <;> (obtain ⟨_, rfl⟩ := hc; exact joinPhase_same hg rfl rfl rfl rfl)
  | dispatchBlocking d t b ok =>
    obtain ⟨_, _, _, hc | hc⟩ := dispatchBlocking?_some hs <;>
      (obtain ⟨_, rfl⟩ := hc; exact joinPhase_same hg rfl rfl rfl rfl)
  | runBlocking t =>
    obtain ⟨_, hc | hc⟩ := runBlocking?_some hs
    · obtain ⟨v, _, rfl⟩ := hc; exact joinPhase_same hg rfl rfl rfl rfl
    · obtain ⟨_, rfl⟩ := hc; exact joinPhase_same hg rfl rfl rfl rfl
  | rxDrop t => obtain ⟨_, _, rfl⟩ := rxDrop?_some hs; exact joinPhase_same hg rfl rfl rfl rfl
  | recv w t => obtain ⟨_, _, _, rfl⟩ := recv?_some hs; exact joinPhase_same hg rfl rfl rfl rfl
  | poll w t =>
    obtain ⟨_, _, hc | hc | hc | hc⟩ := poll?_some hs
    · obtain ⟨_, rfl⟩ := hc; exact joinPhase_same hg rfl rfl rfl rfl
    · obtain ⟨k, _, rfl⟩ := hc; exact joinPhase_same hg rfl rfl rfl rfl
    · obtain ⟨v, _, _, rfl⟩ := hc; exact joinPhase_same hg rfl rfl rfl rfl
    · obtain ⟨_, _, rfl⟩ := hc; exact joinPhase_same hg rfl rfl rfl rfl
  | remoteWake t => obtain ⟨_, rfl⟩ := remoteWake?_some hs; exact joinPhase_same hg rfl rfl rfl rfl
  | die w p => obtain ⟨_, _, rfl⟩ := die?_some hs; exact joinPhase_same hg rfl rfl rfl rfl
  | reap w =>
    obtain ⟨p, _, _, rfl⟩ := reap?_some hs
    exact joinPhase_same hg rfl (by simp) (by simp) (by simp)
  | exitLoop w => obtain ⟨_, _, _, _, rfl⟩ := exitLoop?_some hs; exact joinPhase_same hg rfl rfl rfl rfl
  | teardown w => obtain ⟨_, _, rfl⟩ := teardown?_some hs; exact joinPhase_same hg rfl rfl rfl rfl
  | joinStart =>
    obtain ⟨h1, rfl⟩ := joinStart?_some hs
    have hj := hg.a h1
    refine ⟨⟨by simp, by simpa using hg.b⟩, ?_⟩
    simp [joinPhase, h1, hj, Event.isJoin]
  | joinPool =>
    obtain ⟨h1, h2, rfl⟩ := joinHand?_some hs
    have h3 := hg.b h2
    refine ⟨⟨by simp [h1], by simp⟩, ?_⟩
    simp [joinPhase, h1, h2, h3, Event.isJoin, handEvent]
  | joinFallbackThread =>
    obtain ⟨h1, h2, rfl⟩ := joinHand?_some hs
    have h3 := hg.b h2
    refine ⟨⟨by simp [h1], by simp⟩, ?_⟩
    simp [joinPhase, h1, h2, h3, Event.isJoin, handEvent]
  | joinReturn =>
    have hj := joinReturn?_joiner hs
    obtain ⟨h1, h2, _, rfl⟩ := joinReturn?_some hs
    obtain ⟨b, hb⟩ := Option.isSome_iff_exists.mp hj
    refine ⟨⟨by simp [h1], by simp [hb]⟩, ?_⟩
    simp [joinPhase, h1, h2, hb, Event.isJoin]

/-- over a whole history: the join events of the schedule, in order, are what `joinPhase` reads off the state -/
theorem joinPhase_run {s s' : St} {evs : List Event} (hg : JGood s) (h : run? s evs = some s') :
    JGood s' ∧ joinPhase s' = joinPhase s ++ evs.filter Event.isJoin := by
  induction evs generalizing s with
  | nil => simp [run?] at h; subst h; exact ⟨hg, by simp⟩
  | cons e es ih =>
    obtain ⟨s1, h1, h2⟩ := run?_cons h
    obtain ⟨hg1, hp1⟩ := joinPhase_step hg h1
    obtain ⟨hg2, hp2⟩ := ih hg1 h2
    refine ⟨hg2, ?_⟩
    rw [hp2, hp1]
    cases hj : e.isJoin <;> simp [hj]

end Compio.Dispatcher
