import Compio.Model.QuicWakers
namespace Compio.QuicWakers
open Compio.Gen.QuicWakers

theorem tbl_all_complete : ∀ t : Tbl, t ∈ Tbl.all := by intro t; cases t <;> decide
theorem tbl_all_nodup : Tbl.all.Nodup := by decide

@[simp] theorem setTab_same (s : St) (t : Tbl) (l : List Entry) : (s.setTab t l).tabs t = l := by
  simp [St.setTab]

theorem setTab_other (s : St) (t t' : Tbl) (l : List Entry) (h : t' ≠ t) : (s.setTab t l).tabs t' = s.tabs t' := by
  simp [St.setTab, h]

@[simp] theorem setTab_woken (s : St) (t : Tbl) (l : List Entry) : (s.setTab t l).woken = s.woken := rfl
@[simp] theorem setTab_error (s : St) (t : Tbl) (l : List Entry) : (s.setTab t l).error = s.error := rfl
@[simp] theorem setTab_connected (s : St) (t : Tbl) (l : List Entry) : (s.setTab t l).connected = s.connected := rfl

theorem wake_tabs_same (s : St) (t : Tbl) (sc : Scope) (k : Nat) :
    (s.wake t sc k).tabs t = (s.tabs t).filter (fun e => !hit sc k e) := by
  simp [St.wake, St.setTab]

theorem wake_tabs_other (s : St) (t t' : Tbl) (sc : Scope) (k : Nat) (h : t' ≠ t) :
    (s.wake t sc k).tabs t' = s.tabs t' := by
  simp [St.wake, St.setTab, h]

@[simp] theorem wake_woken (s : St) (t : Tbl) (sc : Scope) (k : Nat) :
    (s.wake t sc k).woken = s.woken ++ ((s.tabs t).filter (hit sc k)).map (·.2) := rfl
@[simp] theorem wake_error (s : St) (t : Tbl) (sc : Scope) (k : Nat) : (s.wake t sc k).error = s.error := rfl
@[simp] theorem wake_connected (s : St) (t : Tbl) (sc : Scope) (k : Nat) : (s.wake t sc k).connected = s.connected := rfl

theorem sum_map_congr_of_not_mem {α : Type} (l : List α) (t : α) (f g : α → Nat)
    (ht : t ∉ l) (h : ∀ x, x ≠ t → f x = g x) : (l.map f).sum = (l.map g).sum := by
  induction l with
  | nil => rfl
  | cons a l ih =>
    simp only [List.mem_cons, not_or] at ht
    simp only [List.map_cons, List.sum_cons]
    rw [ih ht.2, h a (fun e => ht.1 e.symm)]

theorem sum_map_update {α : Type} (l : List α) (t : α) (f g : α → Nat) (hn : l.Nodup) (ht : t ∈ l)
    (h : ∀ x, x ≠ t → f x = g x) : (l.map f).sum + g t = (l.map g).sum + f t := by
  induction l with
  | nil => cases ht
  | cons a l ih =>
    rw [List.nodup_cons] at hn
    simp only [List.map_cons, List.sum_cons]
    by_cases hat : a = t
    · subst hat
      rw [sum_map_congr_of_not_mem l a f g hn.1 h]; omega
    · have : t ∈ l := by
        cases ht with
        | head => exact absurd rfl hat
        | tail _ h' => exact h'
      have := ih hn.2 this
      rw [h a hat]; omega

theorem count_filter_partition {α : Type} [BEq α] [LawfulBEq α] (l : List (Nat × α)) (p : Nat × α → Bool) (w : α) :
    (l.map (·.2)).count w = ((l.filter p).map (·.2)).count w + ((l.filter (fun e => !p e)).map (·.2)).count w := by
  induction l with
  | nil => rfl
  | cons a l ih =>
    by_cases hp : p a = true
    · simp [hp, List.count_cons, ih]; omega
    · simp only [Bool.not_eq_true] at hp
      simp [hp, List.count_cons, ih]; omega


/-! ## `Adv s s'`: `s'` is reached from `s` by wake-ups (and flag updates) only -/

structure Adv (s s' : St) : Prop where
  log : ∃ extra, s'.woken = s.woken ++ extra
  kept : ∀ t e, e ∈ s.tabs t → e ∈ s'.tabs t ∨ e.2 ∈ newlyWoken s s'
  noNew : ∀ t e, e ∈ s'.tabs t → e ∈ s.tabs t

theorem newlyWoken_of_log {s s' : St} {extra : List Nat} (h : s'.woken = s.woken ++ extra) :
    newlyWoken s s' = extra := by
  simp [newlyWoken, h]

theorem Adv.refl (s : St) : Adv s s :=
  ⟨⟨[], by simp⟩, fun _ _ h => Or.inl h, fun _ _ h => h⟩

theorem Adv.trans {a b c : St} (h1 : Adv a b) (h2 : Adv b c) : Adv a c := by
  obtain ⟨x1, hx1⟩ := h1.log
  obtain ⟨x2, hx2⟩ := h2.log
  have hc : c.woken = a.woken ++ (x1 ++ x2) := by rw [hx2, hx1, List.append_assoc]
  refine ⟨⟨x1 ++ x2, hc⟩, ?_, fun t e h => h1.noNew t e (h2.noNew t e h)⟩
  intro t e he
  rw [newlyWoken_of_log hc]
  cases h1.kept t e he with
  | inl hb =>
    cases h2.kept t e hb with
    | inl hcc => exact Or.inl hcc
    | inr hw => rw [newlyWoken_of_log hx2] at hw; exact Or.inr (List.mem_append_right _ hw)
  | inr hw => rw [newlyWoken_of_log hx1] at hw; exact Or.inr (List.mem_append_left _ hw)

/-- wakers woken on the way stay woken -/
theorem Adv.newly_mono {a b c : St} (h1 : Adv a b) (h2 : Adv b c) {w : Nat} (hw : w ∈ newlyWoken a b) :
    w ∈ newlyWoken a c := by
  obtain ⟨x1, hx1⟩ := h1.log
  obtain ⟨x2, hx2⟩ := h2.log
  have hc : c.woken = a.woken ++ (x1 ++ x2) := by rw [hx2, hx1, List.append_assoc]
  rw [newlyWoken_of_log hx1] at hw
  rw [newlyWoken_of_log hc]; exact List.mem_append_left _ hw

theorem Adv.newly_mono_right {a b c : St} (h1 : Adv a b) (h2 : Adv b c) {w : Nat} (hw : w ∈ newlyWoken b c) :
    w ∈ newlyWoken a c := by
  obtain ⟨x1, hx1⟩ := h1.log
  obtain ⟨x2, hx2⟩ := h2.log
  have hc : c.woken = a.woken ++ (x1 ++ x2) := by rw [hx2, hx1, List.append_assoc]
  rw [newlyWoken_of_log hx2] at hw
  rw [newlyWoken_of_log hc]; exact List.mem_append_right _ hw

theorem adv_wake (s : St) (t : Tbl) (sc : Scope) (k : Nat) : Adv s (s.wake t sc k) := by
  refine ⟨⟨_, wake_woken s t sc k⟩, ?_, ?_⟩
  · intro t' e he
    rw [newlyWoken_of_log (wake_woken s t sc k)]
    by_cases htt : t' = t
    · subst htt
      rw [wake_tabs_same]
      by_cases hh : hit sc k e = true
      · exact Or.inr (List.mem_map.mpr ⟨e, List.mem_filter.mpr ⟨he, hh⟩, rfl⟩)
      · exact Or.inl (List.mem_filter.mpr ⟨he, by simp [hh]⟩)
    · rw [wake_tabs_other _ _ _ _ _ htt]; exact Or.inl he
  · intro t' e he
    by_cases htt : t' = t
    · subst htt
      rw [wake_tabs_same] at he
      exact (List.mem_filter.mp he).1
    · rw [wake_tabs_other _ _ _ _ _ htt] at he; exact he

theorem adv_of_same_tabs_woken {s s' : St} (ht : s'.tabs = s.tabs) (hw : s'.woken = s.woken) : Adv s s' :=
  ⟨⟨[], by simp [hw]⟩, fun t e h => Or.inl (by rw [ht]; exact h), fun t e h => by rw [ht] at h; exact h⟩

/-- an entry hit by a wake is in the log afterwards -/
theorem wake_hits {s : St} {t : Tbl} {sc : Scope} {k : Nat} {e : Entry} (he : e ∈ s.tabs t)
    (hh : hit sc k e = true) : e.2 ∈ newlyWoken s (s.wake t sc k) := by
  rw [newlyWoken_of_log (wake_woken s t sc k)]
  exact List.mem_map.mpr ⟨e, List.mem_filter.mpr ⟨he, hh⟩, rfl⟩

theorem wake_all_empties (s : St) (t : Tbl) (k : Nat) : (s.wake t .all k).tabs t = [] := by
  rw [wake_tabs_same]; simp [hit]

/-! ## the potential: wake-ups logged + wakers still registered -/

def tabCount (s : St) (w : Nat) : Nat := (Tbl.all.map fun t => ((s.tabs t).map (·.2)).count w).sum

def phi (s : St) (w : Nat) : Nat := s.woken.count w + tabCount s w

theorem phi_wake (s : St) (t : Tbl) (sc : Scope) (k w : Nat) : phi (s.wake t sc k) w = phi s w := by
  have hsum := sum_map_update Tbl.all t
    (fun t' => (((s.wake t sc k).tabs t').map (·.2)).count w)
    (fun t' => ((s.tabs t').map (·.2)).count w) tbl_all_nodup (tbl_all_complete t)
    (fun x hx => by rw [wake_tabs_other _ _ _ _ _ hx])
  have hp := count_filter_partition (s.tabs t) (hit sc k) w
  have h1 : phi (s.wake t sc k) w =
      s.woken.count w + (((s.tabs t).filter (hit sc k)).map (·.2)).count w
        + (Tbl.all.map fun t' => (((s.wake t sc k).tabs t').map (·.2)).count w).sum := by
    simp [phi, tabCount, List.count_append]
  have h2 : phi s w = s.woken.count w + (Tbl.all.map fun t' => ((s.tabs t').map (·.2)).count w).sum := rfl
  rw [h1, h2]
  rw [wake_tabs_same] at hsum
  generalize (Tbl.all.map fun t' => (((s.wake t sc k).tabs t').map (·.2)).count w).sum = A at *
  generalize (Tbl.all.map fun t' => ((s.tabs t').map (·.2)).count w).sum = B at *
  generalize (((s.tabs t).filter (hit sc k)).map (·.2)).count w = C at *
  generalize (((s.tabs t).filter (fun e => !hit sc k e)).map (·.2)).count w = D at *
  generalize ((s.tabs t).map (·.2)).count w = E at *
  omega

theorem phi_of_same {s s' : St} (ht : s'.tabs = s.tabs) (hw : s'.woken = s.woken) (w : Nat) : phi s' w = phi s w := by
  simp [phi, tabCount, ht, hw]

theorem tabCount_zero_of_empty {s : St} (h : ∀ t, s.tabs t = []) (w : Nat) : tabCount s w = 0 := by
  unfold tabCount
  have : (Tbl.all.map fun t => ((s.tabs t).map (·.2)).count w) = Tbl.all.map fun _ => 0 := by
    apply List.map_congr_left; intro t _; rw [h t]; rfl
  rw [this]
  generalize Tbl.all = l
  induction l with
  | nil => rfl
  | cons a l ih => simp [ih]

/-! ## `terminate`, generically over the statement list -/

def drainsOf : List TermAct → List Tbl
  | [] => []
  | .drain t :: r => t :: drainsOf r
  | _ :: r => drainsOf r

theorem adv_applyTerm (e : Err) (s : St) (a : TermAct) : Adv s (s.applyTerm e a) := by
  cases a with
  | setError => exact adv_of_same_tabs_woken rfl rfl
  | clearConnected => exact adv_of_same_tabs_woken rfl rfl
  | drain t => exact adv_wake s t .all 0

theorem phi_applyTerm (e : Err) (s : St) (a : TermAct) (w : Nat) : phi (s.applyTerm e a) w = phi s w := by
  cases a with
  | setError => exact phi_of_same rfl rfl w
  | clearConnected => exact phi_of_same rfl rfl w
  | drain t => exact phi_wake s t .all 0 w

theorem adv_foldTerm (e : Err) (acts : List TermAct) : ∀ s : St, Adv s (acts.foldl (St.applyTerm e) s) := by
  induction acts with
  | nil => intro s; exact Adv.refl s
  | cons a r ih => intro s; exact (adv_applyTerm e s a).trans (ih _)

theorem phi_foldTerm (e : Err) (acts : List TermAct) (w : Nat) :
    ∀ s : St, phi (acts.foldl (St.applyTerm e) s) w = phi s w := by
  induction acts with
  | nil => intro s; rfl
  | cons a r ih => intro s; rw [List.foldl_cons, ih, phi_applyTerm]

theorem adv_empty_stays {s s' : St} (h : Adv s s') {t : Tbl} (he : s.tabs t = []) : s'.tabs t = [] := by
  cases hl : s'.tabs t with
  | nil => rfl
  | cons x xs =>
    have := h.noNew t x (by rw [hl]; exact List.mem_cons_self)
    rw [he] at this; cases this

theorem foldTerm_empties (e : Err) (acts : List TermAct) :
    ∀ (s : St) (t : Tbl), t ∈ drainsOf acts → (acts.foldl (St.applyTerm e) s).tabs t = [] := by
  induction acts with
  | nil => intro s t h; cases h
  | cons a r ih =>
    intro s t h
    rw [List.foldl_cons]
    cases a with
    | setError => exact ih _ t h
    | clearConnected => exact ih _ t h
    | drain t' =>
      simp only [drainsOf, List.mem_cons] at h
      cases h with
      | inl heq =>
        subst heq
        exact adv_empty_stays (adv_foldTerm e r _) (wake_all_empties s t 0)
      | inr hr => exact ih _ t hr

theorem applyTerm_error_mono (e : Err) (s : St) (a : TermAct) (h : s.error = some e) :
    (s.applyTerm e a).error = some e := by
  cases a <;> simp [St.applyTerm, h]

theorem foldTerm_error_stays (e : Err) (acts : List TermAct) :
    ∀ s : St, s.error = some e → (acts.foldl (St.applyTerm e) s).error = some e := by
  induction acts with
  | nil => intro s h; exact h
  | cons a r ih => intro s h; exact ih _ (applyTerm_error_mono e s a h)

theorem foldTerm_error (e : Err) (acts : List TermAct) :
    ∀ s : St, TermAct.setError ∈ acts → (acts.foldl (St.applyTerm e) s).error = some e := by
  induction acts with
  | nil => intro s h; cases h
  | cons a r ih =>
    intro s h
    rw [List.foldl_cons]
    cases h with
    | head => exact foldTerm_error_stays e r _ rfl
    | tail _ h' => exact ih _ h'

/-! ### instantiated with the regenerated `terminateBody` -/

theorem all_tables_drained : ∀ t : Tbl, t ∈ drainsOf terminateBody := by
  intro t; cases t <;> decide

theorem terminate_adv (s : St) (e : Err) : Adv s (s.terminate e) := adv_foldTerm e _ s

theorem terminate_tabs (s : St) (e : Err) (t : Tbl) : (s.terminate e).tabs t = [] :=
  foldTerm_empties e _ s t (all_tables_drained t)

theorem terminate_error (s : St) (e : Err) : (s.terminate e).error = some e :=
  foldTerm_error e _ s (by decide)

theorem terminate_phi (s : St) (e : Err) (w : Nat) : phi (s.terminate e) w = phi s w := phi_foldTerm e _ w s

theorem terminate_count (s : St) (e : Err) (w : Nat) :
    (s.terminate e).woken.count w = s.woken.count w + tabCount s w := by
  have h := terminate_phi s e w
  unfold phi at h
  rw [tabCount_zero_of_empty (terminate_tabs s e) w] at h
  omega

theorem terminate_wakes {s : St} {e : Err} {t : Tbl} {x : Entry} (hx : x ∈ s.tabs t) :
    x.2 ∈ newlyWoken s (s.terminate e) := by
  cases (terminate_adv s e).kept t x hx with
  | inl h => rw [terminate_tabs] at h; cases h
  | inr h => exact h

theorem all_sites_check_error : ∀ r : Reg, regChecksError r = true := by
  intro r; cases r <;> rfl

theorem pollBlocked_of_error {s : St} {e : Err} (h : s.error = some e) (r : Reg) (k w : Nat) :
    s.pollBlocked r k w = (s, .err e) := by
  simp [St.pollBlocked, all_sites_check_error r, h]

theorem pollBlocked_of_no_error {s : St} (h : s.error = none) (r : Reg) (k w : Nat) :
    s.pollBlocked r k w = (s.register r k w, .pending) := by
  simp [St.pollBlocked, h]

/-! ## events -/

theorem adv_applyAction (key : Nat) (zr : Bool) (e : Err) (s : St) (a : Action) :
    Adv s (s.applyAction key zr e a) := by
  cases a with
  | wake t sc => exact adv_wake s t sc key
  | wakeIfZeroRttRejected t =>
    simp only [St.applyAction]
    split
    · exact adv_wake s t .all 0
    · exact Adv.refl s
  | setConnected => exact adv_of_same_tabs_woken rfl rfl
  | terminate => exact terminate_adv s e

theorem adv_foldAction (key : Nat) (zr : Bool) (e : Err) (acts : List Action) :
    ∀ s : St, Adv s (acts.foldl (St.applyAction key zr e) s) := by
  induction acts with
  | nil => intro s; exact Adv.refl s
  | cons a r ih => intro s; exact (adv_applyAction key zr e s a).trans (ih _)

theorem adv_onEvent (s : St) (ev : Ev) (key : Nat) (zr : Bool) (e : Err) : Adv s (s.onEvent ev key zr e) :=
  adv_foldAction key zr e _ s

theorem phi_applyAction (key : Nat) (zr : Bool) (e : Err) (s : St) (a : Action) (w : Nat) :
    phi (s.applyAction key zr e a) w = phi s w := by
  cases a with
  | wake t sc => exact phi_wake s t sc key w
  | wakeIfZeroRttRejected t =>
    simp only [St.applyAction]
    split
    · exact phi_wake s t .all 0 w
    · rfl
  | setConnected => exact phi_of_same rfl rfl w
  | terminate => exact terminate_phi s e w

theorem phi_onEvent (s : St) (ev : Ev) (key : Nat) (zr : Bool) (e : Err) (w : Nat) :
    phi (s.onEvent ev key zr e) w = phi s w := by
  unfold St.onEvent
  generalize Gen.QuicWakers.onEvent ev = acts
  induction acts generalizing s with
  | nil => rfl
  | cons a r ih => rw [List.foldl_cons, ih, phi_applyAction]

theorem applyAction_wakes {s : St} {key : Nat} {zr : Bool} {err : Err} {r : Reg} {k w : Nat} {a : Action}
    (ha : actionWakes r a = true) (he : (normKey r k, w) ∈ s.tabs (registersIn r))
    (hk : regKey r ≠ .none → normKey r k = key) :
    w ∈ newlyWoken s (s.applyAction key zr err a) := by
  cases a with
  | wake t sc =>
    simp only [actionWakes, Bool.and_eq_true, beq_iff_eq, Bool.or_eq_true, bne_iff_ne] at ha
    obtain ⟨ht, hs⟩ := ha
    subst ht
    refine wake_hits (e := (normKey r k, w)) he ?_
    cases sc with
    | all => rfl
    | key =>
      have : regKey r ≠ .none := by
        cases hs with
        | inl h => cases h
        | inr h => exact h
      simp [hit, hk this]
  | terminate => exact terminate_wakes (x := (normKey r k, w)) he
  | wakeIfZeroRttRejected t => simp [actionWakes] at ha
  | setConnected => simp [actionWakes] at ha

theorem foldAction_wakes {key : Nat} {zr : Bool} {err : Err} {r : Reg} {k w : Nat} {a : Action}
    (ha : actionWakes r a = true) (hk : regKey r ≠ .none → normKey r k = key) (acts : List Action) :
    ∀ s : St, a ∈ acts → (normKey r k, w) ∈ s.tabs (registersIn r) →
      w ∈ newlyWoken s (acts.foldl (St.applyAction key zr err) s) := by
  induction acts with
  | nil => intro s h; cases h
  | cons b rest ih =>
    intro s hmem he
    rw [List.foldl_cons]
    have h1 := adv_applyAction key zr err s b
    have h2 := adv_foldAction key zr err rest (s.applyAction key zr err b)
    cases hmem with
    | head => exact h1.newly_mono h2 (applyAction_wakes ha he hk)
    | tail _ hr =>
      cases h1.kept _ _ he with
      | inl hstill => exact h1.newly_mono_right h2 (ih _ hr hstill)
      | inr hw => exact h1.newly_mono h2 hw

/-- the decision table, closed by computation over the regenerated `onEvent` / `registersIn` / `regKey` -/
theorem event_table_complete : ∀ (ev : Ev) (r : Reg), unblocks ev r = true →
    (Gen.QuicWakers.onEvent ev).any (actionWakes r) = true := by
  intro ev r; cases ev <;> cases r <;> decide

theorem onEvent_wakes {s : St} {ev : Ev} {key : Nat} {zr : Bool} {err : Err} {r : Reg} {k w : Nat}
    (hu : unblocks ev r = true) (he : (normKey r k, w) ∈ s.tabs (registersIn r))
    (hk : regKey r ≠ .none → normKey r k = key) :
    w ∈ newlyWoken s (s.onEvent ev key zr err) := by
  have := event_table_complete ev r hu
  rw [List.any_eq_true] at this
  obtain ⟨a, hmem, ha⟩ := this
  exact foldAction_wakes ha hk _ s hmem he

/-! ## registration -/

theorem insertEntry_mem (k : Kind) (g : Bool) (key w : Nat) (l : List Entry) :
    (key, w) ∈ insertEntry k g key w l := by
  cases k with
  | slot =>
    simp only [insertEntry]
    split
    · rename_i h
      simp only [Bool.and_eq_true, beq_iff_eq] at h
      rw [h.2]; exact List.mem_cons_self
    · exact List.mem_cons_self
  | queue => simp [insertEntry]
  | queueArr => simp [insertEntry]
  | map => simp [insertEntry]

theorem insertEntry_keeps {k : Kind} {g : Bool} {key w : Nat} {l : List Entry} {e : Entry} (he : e ∈ l)
    (h : e = (key, w) ∨ k = .queue ∨ k = .queueArr ∨ (k = .map ∧ e.1 ≠ key)) :
    e ∈ insertEntry k g key w l := by
  rcases h with h | h | h | ⟨h, hne⟩
  · subst h; exact insertEntry_mem k g key w l
  · subst h; simp [insertEntry, he]
  · subst h; simp [insertEntry, he]
  · subst h
    simp only [insertEntry, List.mem_append, List.mem_filter]
    exact Or.inl ⟨he, by simp [hne]⟩

theorem register_tabs_other (s : St) (r : Reg) (k w : Nat) (t' : Tbl) (h : t' ≠ registersIn r) :
    (s.register r k w).tabs t' = s.tabs t' := setTab_other _ _ _ _ h

theorem register_tabs_same (s : St) (r : Reg) (k w : Nat) :
    (s.register r k w).tabs (registersIn r) =
      insertEntry (kind (registersIn r)) (regWillWakeGuard r) (normKey r k) w (s.tabs (registersIn r)) :=
  setTab_same _ _ _

theorem register_mem (s : St) (r : Reg) (k w : Nat) :
    (normKey r k, w) ∈ (s.register r k w).tabs (registersIn r) := by
  rw [register_tabs_same]; exact insertEntry_mem _ _ _ _ _

theorem slot_sites_unkeyed : ∀ r : Reg, kind (registersIn r) = .slot → regKey r = .none := by
  intro r; cases r <;> decide

theorem normKey_of_slot {r : Reg} (h : kind (registersIn r) = .slot) (k : Nat) : normKey r k = 0 := by
  simp [normKey, slot_sites_unkeyed r h]

/-! ## the world: no waiter is lost -/

/-- every future that is owed a wake-up is registered in its table -/
def Inv (W : World) : Prop := ∀ x ∈ W.owed, x.entry ∈ W.st.tabs x.tbl

theorem inv_init : Inv World.init := by intro x hx; cases hx

theorem mem_discharge {owed : List Waiter} {woken : List Nat} {x : Waiter} :
    x ∈ discharge owed woken ↔ x ∈ owed ∧ x.w ∉ woken := by
  simp [discharge, List.mem_filter]

theorem inv_setSt {W : World} {s' : St} (h : Adv W.st s') (hi : Inv W) : Inv (W.setSt s') := by
  intro x hx
  simp only [World.setSt] at hx ⊢
  obtain ⟨hxo, hxw⟩ := mem_discharge.mp hx
  cases h.kept x.tbl x.entry (hi x hxo) with
  | inl hk => exact hk
  | inr hw => exact absurd hw hxw

theorem setSt_owed_subset (W : World) (s' : St) : ∀ x ∈ (W.setSt s').owed, x ∈ W.owed := by
  intro x hx; exact (mem_discharge.mp hx).1

theorem admissible_poll_spec {W : World} {r : Reg} {key w : Nat} (ha : admissible W (.poll r key w) = true)
    {y : Waiter} (hy : y ∈ W.owed) (ht : y.tbl = registersIn r) (hex : exclusive (registersIn r) = true)
    (hk : y.entry.1 = normKey r key) : y.w = w := by
  simp only [admissible, Bool.or_eq_true, Bool.not_eq_true', List.all_eq_true] at ha
  cases ha with
  | inl h => rw [hex] at h; cases h
  | inr h =>
    have := h y hy
    simp only [Bool.or_eq_true, Bool.not_eq_true', Bool.and_eq_false_iff, beq_iff_eq] at this
    rcases this with (h1 | h1) | h1
    · exact absurd ht (by simpa using h1)
    · exact absurd hk (by simpa using h1)
    · exact h1

theorem inv_poll {W : World} {r : Reg} {key w : Nat} (hi : Inv W) (ha : admissible W (.poll r key w) = true) :
    Inv (W.step (.poll r key w)).1 := by
  cases herr : W.st.error with
  | some e =>
    simp only [World.step, pollBlocked_of_error herr]
    exact hi
  | none =>
    simp only [World.step, pollBlocked_of_no_error herr]
    intro y hy
    simp only [List.mem_append, List.mem_filter, List.mem_singleton] at hy
    rcases hy with ⟨hyo, _⟩ | hy
    · have hye := hi y hyo
      by_cases ht : y.tbl = registersIn r
      · show y.entry ∈ (W.st.register r key w).tabs y.tbl
        rw [ht, register_tabs_same]
        rw [ht] at hye
        apply insertEntry_keeps hye
        cases hkind : kind (registersIn r) with
        | queue => exact Or.inr (Or.inl rfl)
        | queueArr => exact Or.inr (Or.inr (Or.inl rfl))
        | map =>
          by_cases hk : y.entry.1 = normKey r key
          · have hw := admissible_poll_spec ha hyo ht (by simp [exclusive, hkind]) hk
            left
            show (y.entry.1, y.entry.2) = _
            rw [hk]; simp [Waiter.entry, hw]
          · exact Or.inr (Or.inr (Or.inr ⟨rfl, hk⟩))
        | slot =>
          have hk : y.entry.1 = normKey r key := by
            have h1 : kind (registersIn y.r) = .slot := by
              have : registersIn y.r = registersIn r := ht
              rw [this]; exact hkind
            show normKey y.r y.key = normKey r key
            rw [normKey_of_slot h1, normKey_of_slot hkind]
          have hw := admissible_poll_spec ha hyo ht (by simp [exclusive, hkind]) hk
          left
          show (y.entry.1, y.entry.2) = _
          rw [hk]; simp [Waiter.entry, hw]
      · show y.entry ∈ (W.st.register r key w).tabs y.tbl
        rw [register_tabs_other _ _ _ _ _ ht]; exact hye
    · subst hy
      exact register_mem W.st r key w

theorem dropFold_keeps (owner : String) (id : Nat) (l : List (String × Tbl)) :
    ∀ (s : St) (t : Tbl) (e : Entry), e ∈ s.tabs t →
      ¬ (l.any (fun p => p.1 == owner && p.2 == t) = true ∧ e.1 = id) →
      e ∈ (l.foldl (fun s p => if p.1 == owner then s.setTab p.2 ((s.tabs p.2).filter (fun e => e.1 != id)) else s) s).tabs t := by
  induction l with
  | nil => intro s t e he _; exact he
  | cons p rest ih =>
    intro s t e he hn
    rw [List.foldl_cons]
    apply ih
    · split
      · rename_i hown
        by_cases hpt : t = p.2
        · subst hpt
          rw [setTab_same]
          refine List.mem_filter.mpr ⟨he, ?_⟩
          have : ¬ e.1 = id := by
            intro hid
            apply hn
            refine ⟨?_, hid⟩
            simp [List.any_cons, hown]
          simp [this]
        · rw [setTab_other _ _ _ _ hpt]; exact he
      · exact he
    · intro ⟨h1, h2⟩
      apply hn
      refine ⟨?_, h2⟩
      rw [List.any_cons, h1]; simp

theorem reg_all_complete : ∀ r : Reg, r ∈ Reg.all := by intro r; cases r <;> decide

/-- the decision table behind "a half's `Drop` only touches its own tables": every table a `Drop` removes keys
    from is registered in ONLY by methods of the dropped type -/
theorem drop_tables_exclusive_table :
    dropCleans.all (fun p => Reg.all.all (fun r => registersIn r != p.2 || Reg.owner r == p.1)) = true := by decide

theorem drop_tables_exclusive {owner : String} {t : Tbl} (h : dropCleans.any (fun p => p.1 == owner && p.2 == t) = true)
    (r : Reg) (hr : registersIn r = t) : Reg.owner r = owner := by
  rw [List.any_eq_true] at h
  obtain ⟨p, hp, hpo⟩ := h
  simp only [Bool.and_eq_true, beq_iff_eq] at hpo
  have := List.all_eq_true.mp drop_tables_exclusive_table p hp
  have := List.all_eq_true.mp this r (reg_all_complete r)
  simp only [Bool.or_eq_true, bne_iff_ne, ne_eq, beq_iff_eq] at this
  rcases this with h1 | h1
  · exact absurd (hr.trans hpo.2.symm) h1
  · rw [h1, hpo.1]

/-- dropping one half of a stream keeps every entry registered by a method of another type — in particular the
    waker of a task parked in `SendStream::stopped()` / `write` when the `RecvStream` half of the same
    bidirectional stream is dropped, and vice versa -/
theorem dropStream_keeps_other_half (s : St) (owner : String) (id : Nat) (r : Reg) (e : Entry)
    (he : e ∈ s.tabs (registersIn r)) (ho : Reg.owner r ≠ owner) :
    e ∈ (s.dropStream owner id).tabs (registersIn r) := by
  apply dropFold_keeps _ _ _ _ _ _ he
  intro ⟨h1, _⟩
  exact ho (drop_tables_exclusive h1 r rfl)

theorem inv_dropStream {W : World} {send : Bool} {id : Nat} (hi : Inv W)
    (ha : admissible W (.dropStream send id) = true) : Inv (W.step (.dropStream send id)).1 := by
  intro y hy
  simp only [World.step] at hy ⊢
  have hye := hi y hy
  simp only [admissible, List.all_eq_true] at ha
  have hay := ha y hy
  apply dropFold_keeps _ _ _ _ _ _ hye
  intro ⟨h1, h2⟩
  have ho := drop_tables_exclusive h1 y.r rfl
  simp only [Bool.not_eq_true', Bool.and_eq_false_iff, beq_eq_false_iff_ne, ne_eq] at hay
  rcases hay with h | h
  · exact h ho
  · exact h h2

theorem closedPoll_st (W : World) (w : Nat) : (W.step (.closedPoll w)).1.st = W.st ∧
    (W.step (.closedPoll w)).1.owed = W.owed := by
  simp only [World.step]
  repeat' split
  all_goals exact ⟨rfl, rfl⟩

theorem inv_step {W : World} {op : Op} (hi : Inv W) (ha : admissible W op = true) : Inv (W.step op).1 := by
  cases op with
  | poll r key w => exact inv_poll hi ha
  | cancel r key w =>
    intro y hy
    simp only [World.step, List.mem_filter] at hy ⊢
    exact hi y hy.1
  | event ev key zr e =>
    simp only [World.step]
    split
    · exact inv_setSt (adv_onEvent _ _ _ _ _) hi
    · exact hi
  | close => exact inv_setSt (terminate_adv _ _) hi
  | endpointClose =>
    simp only [World.step]
    split
    · exact inv_setSt (terminate_adv _ _) hi
    · exact hi
  | dropStream send id => exact inv_dropStream hi ha
  | closedPoll w =>
    have h := closedPoll_st W w
    intro y hy
    rw [h.2] at hy; rw [h.1]; exact hi y hy
  | closedDrop w =>
    simp only [World.step]
    split <;> exact hi
  | drained => exact hi

theorem inv_run (ops : List Op) : ∀ W : World, Inv W → allAdmissible W ops = true → Inv (W.run ops) := by
  induction ops with
  | nil => intro W hi _; exact hi
  | cons o os ih =>
    intro W hi ha
    simp only [allAdmissible, Bool.and_eq_true] at ha
    exact ih _ (inv_step hi ha.1) ha.2

/-! ## obligations end by a wake-up or a cancellation; events and close discharge them -/

theorem owed_shrinks (W : World) (op : Op) (x : Waiter) (hx : x ∈ W.owed) (hgone : x ∉ (W.step op).1.owed) :
    op = .cancel x.r x.key x.w ∨ x.w ∈ newlyWoken W.st (W.step op).1.st := by
  have setSt_case : ∀ s' : St, x ∉ (W.setSt s').owed → x.w ∈ newlyWoken W.st (W.setSt s').st := by
    intro s' hg
    simp only [World.setSt] at hg ⊢
    rw [mem_discharge] at hg
    by_cases hw : x.w ∈ newlyWoken W.st s'
    · exact hw
    · exact absurd ⟨hx, hw⟩ hg
  cases op with
  | poll r key w =>
    exfalso; apply hgone
    cases herr : W.st.error with
    | some e => simp only [World.step, pollBlocked_of_error herr]; exact hx
    | none =>
      simp only [World.step, pollBlocked_of_no_error herr, List.mem_append, List.mem_filter, List.mem_singleton]
      by_cases hxe : x = ⟨r, key, w⟩
      · exact Or.inr hxe
      · exact Or.inl ⟨hx, by simpa using hxe⟩
  | cancel r key w =>
    left
    simp only [World.step, List.mem_filter] at hgone
    have : ¬ (x != ⟨r, key, w⟩) = true := fun h => hgone ⟨hx, h⟩
    have hx' : x = ⟨r, key, w⟩ := by simpa using this
    subst hx'; rfl
  | event ev key zr e =>
    right
    simp only [World.step] at hgone ⊢
    split at hgone
    · rename_i h; simp only [h, if_true]; exact setSt_case _ hgone
    · exact absurd hx hgone
  | close => right; exact setSt_case _ hgone
  | endpointClose =>
    right
    simp only [World.step] at hgone ⊢
    split at hgone
    · rename_i h; simp only [h, if_true]; exact setSt_case _ hgone
    · exact absurd hx hgone
  | dropStream send id => exact absurd hx hgone
  | closedPoll w => rw [(closedPoll_st W w).2] at hgone; exact absurd hx hgone
  | closedDrop w =>
    exfalso; apply hgone
    simp only [World.step]
    split <;> exact hx
  | drained => exact absurd hx hgone

theorem event_wakes_waiter (W : World) (hi : Inv W) (hrun : W.worker = .running)
    (x : Waiter) (hx : x ∈ W.owed) (ev : Ev) (key : Nat) (zr : Bool) (e : Err)
    (hu : unblocks ev x.r = true) (hk : regKey x.r ≠ .none → x.entry.1 = key) :
    x.w ∈ newlyWoken W.st (W.step (.event ev key zr e)).1.st ∧ x ∉ (W.step (.event ev key zr e)).1.owed := by
  have hw : x.w ∈ newlyWoken W.st (W.st.onEvent ev key zr e) :=
    onEvent_wakes (r := x.r) (k := x.key) hu (hi x hx) hk
  simp only [World.step, hrun, if_true]
  refine ⟨hw, ?_⟩
  simp only [World.setSt]
  rw [mem_discharge]
  exact fun h => h.2 hw

theorem terminate_discharges (W : World) (hi : Inv W) (e : Err) :
    let W' := W.setSt (W.st.terminate e)
    W'.owed = [] ∧ (∀ x ∈ W.owed, x.w ∈ newlyWoken W.st W'.st) ∧ (∀ t, W'.st.tabs t = []) ∧
      ∀ r k w, (W'.step (.poll r k w)).2 = .err e := by
  have hall : ∀ x ∈ W.owed, x.w ∈ newlyWoken W.st (W.st.terminate e) :=
    fun x hx => terminate_wakes (x := x.entry) (hi x hx)
  refine ⟨?_, hall, fun t => terminate_tabs W.st e t, ?_⟩
  · simp only [World.setSt]
    apply List.eq_nil_iff_forall_not_mem.mpr
    intro x hx
    rw [mem_discharge] at hx
    exact hx.2 (hall x hx.1)
  · intro r k w
    simp only [World.setSt, World.step, pollBlocked_of_error (terminate_error W.st e)]

theorem close_completes (W : World) (hi : Inv W) :
    let W' := (W.step .close).1
    W'.owed = [] ∧ (∀ x ∈ W.owed, x.w ∈ newlyWoken W.st W'.st) ∧ (∀ t, W'.st.tabs t = []) ∧
      ∀ r k w, (W'.step (.poll r k w)).2 = .err .locallyClosed :=
  terminate_discharges W hi .locallyClosed

theorem endpoint_close_completes (W : World) (hi : Inv W) (hrun : W.worker = .running) :
    let W' := (W.step .endpointClose).1
    W'.owed = [] ∧ (∀ x ∈ W.owed, x.w ∈ newlyWoken W.st W'.st) ∧
      ∀ r k w, (W'.step (.poll r k w)).2 = .err .locallyClosed := by
  have := terminate_discharges W hi .locallyClosed
  simp only [World.step, hrun, if_true]
  exact ⟨this.1, this.2.1, this.2.2.2⟩

theorem connectionLost_is_terminate : Gen.QuicWakers.onEvent .connectionLost = [.terminate] := by decide

theorem lost_completes (W : World) (hi : Inv W) (hrun : W.worker = .running) (e : Err) (key : Nat) (zr : Bool) :
    let W' := (W.step (.event .connectionLost key zr e)).1
    W'.owed = [] ∧ (∀ x ∈ W.owed, x.w ∈ newlyWoken W.st W'.st) ∧
      ∀ r k w, (W'.step (.poll r k w)).2 = .err e := by
  have := terminate_discharges W hi e
  have hev : W.st.onEvent .connectionLost key zr e = W.st.terminate e := by
    simp [St.onEvent, connectionLost_is_terminate, St.applyAction]
  simp only [World.step, hrun, if_true, hev]
  exact ⟨this.1, this.2.1, this.2.2.2⟩

end Compio.QuicWakers
