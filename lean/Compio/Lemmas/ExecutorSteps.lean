/-
Every task evolves only by the primitive per-task steps of the model (`TaskStep`), whatever program
runs: `apply_steps` / `run_steps`. Monotone facts about a task (cancellation is never undone, a consumed
handle never comes back, counters only grow) follow by induction over these steps.
-/
import Compio.Lemmas.ExecutorOps

namespace Compio.Executor
open Compio.TaskWord Compio.Gen
set_option linter.unusedSimpArgs false
set_option linter.unusedVariables false

/-- the primitive things that can happen to one task -/
inductive TaskStep : TaskSt → TaskSt → Prop where
  | poll (t : TaskSt) (w : Nat) : t.handle = true → TaskStep t (pollTask t w).1
  | hdrop (t : TaskSt) : t.handle = true → TaskStep t (dropRef { cancelWord t true with handle := false })
  | detach (t : TaskSt) : t.handle = true → TaskStep t (dropRef { t with handle := false })
  | cancel (t : TaskSt) : t.handle = true → TaskStep t (cancelWord t false)
  | wdrop (t : TaskSt) : t.wakers ≠ 0 → TaskStep t (dropRef { t with wakers := t.wakers - 1 })
  | run (t : TaskSt) : TaskStep t (runTask t).1
  | clear (t : TaskSt) : TaskStep t (clearedTask t)

inductive TaskSteps : TaskSt → TaskSt → Prop where
  | refl (t : TaskSt) : TaskSteps t t
  | tail {a b c : TaskSt} : TaskSteps a b → TaskStep b c → TaskSteps a c

theorem TaskSteps.single {a b : TaskSt} (h : TaskStep a b) : TaskSteps a b := .tail (.refl a) h

theorem TaskSteps.trans {a b c : TaskSt} (h1 : TaskSteps a b) (h2 : TaskSteps b c) : TaskSteps a c := by
  induction h2 with
  | refl => exact h1
  | tail _ hs ih => exact .tail ih hs

/-- a reflexive-transitive property of pairs of task states that every primitive step has, holds along
any number of steps -/
theorem TaskSteps.induct {R : TaskSt → TaskSt → Prop} (hrefl : ∀ t, R t t)
    (htrans : ∀ a b c, R a b → R b c → R a c) (hstep : ∀ a b, TaskStep a b → R a b)
    {a b : TaskSt} (h : TaskSteps a b) : R a b := by
  induction h with
  | refl => exact hrefl _
  | tail _ hs ih => exact htrans _ _ _ ih (hstep _ _ hs)

/-- the loop of `tick` changes tasks only by `Task::run` steps -/
theorem tickLoop_steps (n : Nat) (e : Exec) (h : Inv e) :
    ∀ x t, e.get? x = some t → ∃ t', (tickLoop n e.hot.head? e []).1.get? x = some t' ∧ TaskSteps t t' := by
  refine tickLoop_induct (fun _ e r => ∀ x t, e.get? x = some t → ∃ t', r.1.get? x = some t' ∧ TaskSteps t t')
    ?_ ?_ ?_ ?_ n e h
  · intro e h x t hx; exact ⟨t, hx, .refl t⟩
  · intro _ e h _ x t hx; exact ⟨t, hx, .refl t⟩
  · intro _ e id t h hh hg sf x tx hx
    by_cases hxi : x = id
    · subst hxi; rw [hg] at hx; cases hx
      exact ⟨_, sf.taskEq, .single (.run t)⟩
    · exact ⟨tx, by rw [sf.frame x hxi]; exact hx, .refl tx⟩
  · intro _ e id rest t r h hh hne hg sf _ hr x tx hx
    by_cases hxi : x = id
    · subst hxi; rw [hg] at hx; cases hx
      obtain ⟨t', hg', hs⟩ := hr x _ sf.taskEq
      exact ⟨t', hg', (TaskSteps.single (.run t)).trans hs⟩
    · exact hr x tx (by rw [sf.frame x hxi]; exact hx)

/-- every operation changes every task only by primitive steps -/
theorem apply_steps {e : Exec} (h : Inv e) (op : Op) {id : Nat} {t : TaskSt} (hg : e.get? id = some t) :
    ∃ t', (apply e op).get? id = some t' ∧ TaskSteps t t' := by
  cases op with
  | spawn sc =>
    cases ha : e.alive
    · exact ⟨t, by simp [apply, applyR, ha, hg], .refl t⟩
    · refine ⟨t, ?_, .refl t⟩
      simp [apply, applyR, ha, spawn, Exec.get?, List.getElem?_append_left (get?_lt hg)]
      exact hg
  | tick n =>
    cases ha : e.alive
    · exact ⟨t, by simp [apply, applyR, ha, hg], .refl t⟩
    · simp only [apply, applyR, ha]
      exact tickLoop_steps n e h id t hg
  | xdrop =>
    cases ha : e.alive
    · exact ⟨t, by simp [apply, applyR, ha, hg], .refl t⟩
    · simp only [apply, applyR, ha]
      have hnd : (e.hot ++ e.cold).Nodup := by
        rw [List.nodup_append]
        refine ⟨h.q.hnd, h.q.cnd, ?_⟩
        intro a ha b hb hab; subst hab; exact h.q.disj a ha hb
      have := (foldl_clearTask (e.hot ++ e.cold) e hnd).1 id
      by_cases hm : id ∈ e.hot ++ e.cold
      · rw [if_pos hm, hg] at this
        exact ⟨clearedTask t, this, .single (.clear t)⟩
      · rw [if_neg hm, hg] at this
        exact ⟨t, this, .refl t⟩
  | hpoll id' w =>
    rcases handle_dead_or_live e id' with hd | ⟨t1, hg1, hh⟩
    · exact ⟨t, by simp [apply, applyR, handlePoll_dead w hd, hg], .refl t⟩
    · simp only [apply, applyR, handlePoll_live w hg1 hh]
      by_cases hx : id = id'
      · subst hx; rw [hg] at hg1; cases hg1
        exact ⟨_, get?_setTask_self _ hg, .single (.poll t w hh)⟩
      · exact ⟨t, by rw [get?_setTask_ne _ _ hx]; exact hg, .refl t⟩
  | hdrop id' =>
    rcases handle_dead_or_live e id' with hd | ⟨t1, hg1, hh⟩
    · exact ⟨t, by simp [apply, applyR, handleDrop_dead hd, hg], .refl t⟩
    · simp only [apply, applyR, handleDrop_live hg1 hh]
      by_cases hx : id = id'
      · subst hx; rw [hg] at hg1; cases hg1
        exact ⟨_, get?_setTask_self _ (by rw [scheduleLocal_get?]; exact hg), .single (.hdrop t hh)⟩
      · exact ⟨t, by rw [get?_setTask_ne _ _ hx, scheduleLocal_get?]; exact hg, .refl t⟩
  | hdetach id' =>
    rcases handle_dead_or_live e id' with hd | ⟨t1, hg1, hh⟩
    · exact ⟨t, by simp [apply, applyR, handleDetach_dead hd, hg], .refl t⟩
    · simp only [apply, applyR, handleDetach_live hg1 hh]
      by_cases hx : id = id'
      · subst hx; rw [hg] at hg1; cases hg1
        exact ⟨_, get?_setTask_self _ hg, .single (.detach t hh)⟩
      · exact ⟨t, by rw [get?_setTask_ne _ _ hx]; exact hg, .refl t⟩
  | hcancel id' =>
    rcases handle_dead_or_live e id' with hd | ⟨t1, hg1, hh⟩
    · exact ⟨t, by simp [apply, hcancel_dead hd, hg], .refl t⟩
    · simp only [apply, hcancel_live hg1 hh]
      by_cases hx : id = id'
      · subst hx; rw [hg] at hg1; cases hg1
        refine ⟨_, get?_setTask_self _ (by rw [scheduleLocal_get?]; exact hg), ?_⟩
        exact (TaskSteps.single (.cancel t hh)).tail (.poll _ _ (by rw [cancelWord_handle]; exact hh))
      · exact ⟨t, by rw [get?_setTask_ne _ _ hx, scheduleLocal_get?]; exact hg, .refl t⟩
  | wake id' =>
    rcases wakers_dead_or_live e id' with hd | ⟨t1, hg1, hw⟩
    · exact ⟨t, by simp [apply, applyR, wakeLocal_dead hd, hg], .refl t⟩
    · exact ⟨t, by simp [apply, applyR, wakeLocal_live hg1 hw, scheduleLocal_get?, hg], .refl t⟩
  | wdrop id' =>
    rcases wakers_dead_or_live e id' with hd | ⟨t1, hg1, hw⟩
    · exact ⟨t, by simp [apply, applyR, wakerDrop_dead hd, hg], .refl t⟩
    · simp only [apply, applyR, wakerDrop_live hg1 hw]
      by_cases hx : id = id'
      · subst hx; rw [hg] at hg1; cases hg1
        exact ⟨_, get?_setTask_self _ hg, .single (.wdrop t hw)⟩
      · exact ⟨t, by rw [get?_setTask_ne _ _ hx]; exact hg, .refl t⟩

/-- along any continuation of a program every task evolves only by primitive steps -/
theorem foldl_steps (ops : List Op) : ∀ {e : Exec}, Inv e → ∀ {id : Nat} {t : TaskSt}, e.get? id = some t →
    ∃ t', (ops.foldl apply e).get? id = some t' ∧ TaskSteps t t' := by
  induction ops with
  | nil => intro e _ id t hg; exact ⟨t, hg, .refl t⟩
  | cons op ops ih =>
    intro e h id t hg
    obtain ⟨t1, hg1, hs1⟩ := apply_steps h op hg
    obtain ⟨t2, hg2, hs2⟩ := ih (apply_inv h op) hg1
    exact ⟨t2, hg2, hs1.trans hs2⟩

/-- facts that only ever go one way along the life of a task -/
structure Mono (a b : TaskSt) : Prop where
  /-- cancellation is never undone -/
  nc : b.word.notCancelled = true → a.word.notCancelled = true
  /-- a consumed handle never comes back, and then nobody takes the result -/
  hdl : a.handle = false → b.handle = false ∧ b.resTaken = a.resTaken
  polls : a.polls ≤ b.polls
  /-- a cancelled task is never polled again -/
  cpolls : a.word.notCancelled = false → b.polls = a.polls
  comp : a.word.completed = true → b.word.completed = true

theorem Mono.refl (t : TaskSt) : Mono t t := ⟨id, fun h => ⟨h, rfl⟩, Nat.le_refl _, fun _ => rfl, id⟩

theorem Mono.trans {a b c : TaskSt} (h1 : Mono a b) (h2 : Mono b c) : Mono a c := by
  refine ⟨fun h => h1.nc (h2.nc h), ?_, Nat.le_trans h1.polls h2.polls, ?_, fun h => h2.comp (h1.comp h)⟩
  · intro h
    obtain ⟨hb, hr⟩ := h1.hdl h
    obtain ⟨hc, hr'⟩ := h2.hdl hb
    exact ⟨hc, by rw [hr', hr]⟩
  · intro h
    have hb : b.word.notCancelled = false := by
      cases hbn : b.word.notCancelled
      · rfl
      · rw [h1.nc hbn] at h; cases h
    rw [h2.cpolls hb, h1.cpolls h]

theorem dropRef_mono (t : TaskSt) : Mono t (dropRef t) := by
  obtain ⟨⟨s, sg, nsw, hw, c, hr, nc, cnt⟩, st, slot, script, sh, hd, wk, polls, fd, rt, rd, ss, sd, de, uaf, bp⟩ := t
  cases hr <;> cases hw <;> constructor <;> simp [dropRef] <;> (repeat' split) <;> simp_all

theorem taskDropByExecutor_mono (t : TaskSt) : Mono t (taskDropByExecutor t) := by
  obtain ⟨⟨s, sg, nsw, hw, c, hr, nc, cnt⟩, st, slot, script, sh, hd, wk, polls, fd, rt, rd, ss, sd, de, uaf, bp⟩ := t
  cases c <;> cases hw <;> cases nsw <;> constructor <;> simp [taskDropByExecutor]

theorem runTask_mono (t : TaskSt) : Mono t (runTask t).1 := by
  cases hn : t.word.notCancelled
  · rw [runTask_cancelled t hn]
    refine Mono.trans (b := { t with word := TaskState.unschedule t.word }) ?_
      (Mono.trans (taskDropByExecutor_mono _) (dropRef_mono _))
    constructor <;> simp
  · rcases hs : t.script with _ | ⟨o, r⟩
    · constructor <;> simp [runTask, hn, hs]
    · cases o
      · constructor <;> simp [runTask, hn, hs]
      · constructor <;> simp [runTask, hn, hs]
      · constructor <;> simp [runTask, hn, hs]
      all_goals
        simp only [runTask, hn, hs, g_isCancelled, Bool.not_true, Bool.false_eq_true, if_false]
        refine Mono.trans ?_ (Mono.trans (taskDropByExecutor_mono _) (dropRef_mono _))
        constructor <;> simp [hn]

theorem taskStep_mono {t b : TaskSt} (h : TaskStep t b) : Mono t b := by
  cases h with
  | poll w hh =>
    obtain ⟨⟨s, sg, nsw, hw, c, hr, nc, cnt⟩, st, slot, script, sh, hd, wk, polls, fd, rt, rd, ss, sd, de, uaf, bp⟩ := t
    simp at hh; subst hh
    cases hr <;> cases nc <;> cases c <;> cases hw <;> constructor <;>
      simp [pollTask, dropRef_nc, dropRef_polls, (dropRef_mono _).comp] <;> (repeat' split) <;> simp_all
  | hdrop hh =>
    refine Mono.trans (b := { cancelWord t true with handle := false }) ?_ (dropRef_mono _)
    obtain ⟨⟨s, sg, nsw, hw, c, hr, nc, cnt⟩, st, slot, script, sh, hd, wk, polls, fd, rt, rd, ss, sd, de, uaf, bp⟩ := t
    simp at hh; subst hh
    cases hr <;> constructor <;> simp [cancelWord]
  | detach hh =>
    refine Mono.trans (b := { t with handle := false }) ?_ (dropRef_mono _)
    constructor <;> simp [hh]
  | cancel hh =>
    obtain ⟨⟨s, sg, nsw, hw, c, hr, nc, cnt⟩, st, slot, script, sh, hd, wk, polls, fd, rt, rd, ss, sd, de, uaf, bp⟩ := t
    cases hr <;> constructor <;> simp [cancelWord]
  | wdrop hw =>
    refine Mono.trans (b := { t with wakers := t.wakers - 1 }) ?_ (dropRef_mono _)
    constructor <;> simp
  | run => exact runTask_mono t
  | clear => exact Mono.trans (taskDropByExecutor_mono _) (dropRef_mono _)

theorem taskSteps_mono {a b : TaskSt} (h : TaskSteps a b) : Mono a b :=
  TaskSteps.induct Mono.refl (fun _ _ _ => Mono.trans) (fun _ _ => taskStep_mono) h

/-- (D) once the allocation of a task was freed, no operation touches it any more -/
theorem frozen_after_free {e : Exec} (h : Inv e) {id : Nat} {t : TaskSt} (hg : e.get? id = some t)
    (hd : t.deallocs = 1) (op : Op) : (apply e op).get? id = some t := by
  have ht := h.t id t hg
  have hhold : holders (inMap e id) t = 0 := by
    have := ht.dl; rw [hd] at this
    by_cases hz : holders (inMap e id) t = 0
    · exact hz
    · simp [hz] at this
  have hin : inMap e id = false := by
    cases hi : inMap e id
    · rfl
    · simp [holders, hi] at hhold
  have hh : t.handle = false := by
    cases hi : t.handle
    · rfl
    · simp [holders, hi] at hhold
  have hw : t.wakers = 0 := by simp [holders] at hhold; omega
  have hnd : (e.hot ++ e.cold).Nodup := by
    rw [List.nodup_append]
    refine ⟨h.q.hnd, h.q.cnd, ?_⟩
    intro a ha b hb hab; subst hab; exact h.q.disj a ha hb
  rcases apply_cases e op with h0 | ⟨id', t1, t', hg', hlive, _, h1 | h1⟩ | ⟨ha, ⟨sc, rfl⟩ | ⟨n, rfl⟩ | rfl⟩
  · rw [h0]; exact hg
  · have hx : id ≠ id' := by
      intro hx; subst hx; rw [hg] at hg'; cases hg'
      rcases hlive with h2 | h2
      · rw [hh] at h2; cases h2
      · exact h2 hw
    rw [h1, get?_setTask_ne _ _ hx]; exact hg
  · have hx : id ≠ id' := by
      intro hx; subst hx; rw [hg] at hg'; cases hg'
      rcases hlive with h2 | h2
      · rw [hh] at h2; cases h2
      · exact h2 hw
    rw [h1, get?_setTask_ne _ _ hx, scheduleLocal_get?]; exact hg
  · simp [apply, applyR, ha, spawn, Exec.get?, List.getElem?_append_left (get?_lt hg)]
    exact hg
  · simp only [apply, applyR, ha]
    show (tickLoop n e.hot.head? e []).1.get? id = some t
    rw [tickLoop_frame n e h id hin, hg]
  · simp only [apply, applyR, ha]
    have := (foldl_clearTask (e.hot ++ e.cold) e hnd).1 id
    rw [inMap_false_iff] at hin
    rw [if_neg (by simpa using hin)] at this
    show ((e.hot ++ e.cold).foldl clearTask e).get? id = some t
    rw [this, hg]

/-! ## several ticks in a row -/

/-- `k` consecutive ticks with `max_interval = n`; the concatenated poll logs -/
def tickN (e : Exec) (n : Nat) : Nat → Exec × List Nat
  | 0 => (e, [])
  | k + 1 => ((tickN (tick e n).1 n k).1, (tick e n).2.1 ++ (tickN (tick e n).1 n k).2)

theorem tickN_inv {e : Exec} (h : Inv e) (n k : Nat) : Inv (tickN e n k).1 := by
  induction k generalizing e with
  | zero => exact h
  | succ k ih => exact ih (tick_inv h n)

/-- no starvation: a live hot task at position `p` is polled within ⌈(p+1)/n⌉ ticks -/
theorem tickN_polls_live {e : Exec} (h : Inv e) (n : Nat) (hn : 0 < n) (k : Nat) :
    ∀ p x, e.hot[p]? = some x → liveIn e x → p < k * n → x ∈ (tickN e n k).2 := by
  induction k generalizing e with
  | zero => intro p x _ _ hp; omega
  | succ k ih =>
    intro p x hx hl hp
    simp only [tickN]
    by_cases hpn : p < n
    · exact List.mem_append_left _ ((tickLoop_visit n e h p x hx hpn).2 hl)
    · have hs := tickLoop_shift n e h p x hx (by omega)
      have hin : inMap (tick e n).1 x = true := (inMap_iff _ _).mpr (Or.inl (List.mem_of_getElem? hs))
      have hl' := (tickLoop_sub n e h).2 x hl hin
      exact List.mem_append_right _ (ih (tick_inv h n) (p - n) x hs hl' (by
        have : (k + 1) * n = k * n + n := Nat.succ_mul k n
        omega))

/-- a cancelled hot task at position `p` is dropped and removed within ⌈(p+1)/n⌉ ticks, never polled -/
theorem tickN_drops_cancelled {e : Exec} (h : Inv e) (n : Nat) (hn : 0 < n) (k : Nat) :
    ∀ p x, e.hot[p]? = some x → cancelledIn e x → p < k * n → inMap (tickN e n k).1 x = false := by
  induction k generalizing e with
  | zero => intro p x _ _ hp; omega
  | succ k ih =>
    intro p x hx hc hp
    simp only [tickN]
    have hsubN : ∀ (k : Nat) (e : Exec), Inv e → ∀ y, inMap (tickN e n k).1 y = true → inMap e y = true := by
      intro k
      induction k with
      | zero => intro e _ y hy; exact hy
      | succ k ihk =>
        intro e he y hy
        exact (tickLoop_sub n e he).1 y (ihk _ (tick_inv he n) y hy)
    by_cases hpn : p < n
    · have hgone := (tickLoop_visit n e h p x hx hpn).1 hc
      cases hin : inMap (tickN (tick e n).1 n k).1 x
      · rfl
      · have := hsubN k _ (tick_inv h n) x hin
        rw [show (tick e n).1 = (tickLoop n e.hot.head? e []).1 from rfl, hgone] at this; cases this
    · have hs := tickLoop_shift n e h p x hx (by omega)
      obtain ⟨t, hg, hnc⟩ := hc
      obtain ⟨t', hg', hst⟩ := tickLoop_steps n e h x t hg
      have hc' : cancelledIn (tick e n).1 x := by
        refine ⟨t', hg', ?_⟩
        cases hn' : t'.word.notCancelled
        · rfl
        · rw [(taskSteps_mono hst).nc hn'] at hnc; cases hnc
      exact ih (tick_inv h n) (p - n) x hs hc' (by
        have : (k + 1) * n = k * n + n := Nat.succ_mul k n
        omega)

end Compio.Executor
