/-
Every task evolves only by the primitive per-task steps of the model (`TaskStep`), whatever program
runs: `apply_steps` / `foldl_steps`. Each step needs a live holder of the task (its handle, a waker clone,
or the executor itself); `Task::run` steps happen only inside ticks. Monotone facts about a task
(cancellation is never undone, a consumed handle never comes back, counters only grow) follow by
induction over these steps.
-/
import Compio.Lemmas.ExecutorOps

namespace Compio.Executor
open Compio.TaskWord Compio.Gen
set_option linter.unusedSimpArgs false
set_option linter.unusedVariables false

/-- somebody still holds a reference to the task: the handle, a waker clone, or the executor (the task
is still in the queue exactly as long as its future has not been dropped) -/
def Live (t : TaskSt) : Prop := t.handle = true ∨ t.wakers ≠ 0 ∨ t.futDrops = 0

/-- the primitive things that can happen to one task; `run = true`: `Task::run` steps allowed -/
inductive TaskStep (run : Bool) : TaskSt → TaskSt → Prop where
  | poll (t : TaskSt) (w : Nat) : t.handle = true → TaskStep run t (pollTask t w).1
  | rpoll (t : TaskSt) (w : Nat) : t.handle = true → TaskStep run t (remotePollTask t w).1
  | hdrop (t : TaskSt) : t.handle = true → TaskStep run t (dropRef { cancelWord t true with handle := false })
  | detach (t : TaskSt) : t.handle = true → TaskStep run t (dropRef { t with handle := false })
  | cancel (t : TaskSt) : t.handle = true → TaskStep run t (cancelWord t false)
  | wdrop (t : TaskSt) : t.wakers ≠ 0 → TaskStep run t (dropRef { t with wakers := t.wakers - 1 })
  /-- `Remote::schedule`: `start_scheduling` / `finish_scheduling` -/
  | sched (t : TaskSt) (a b : Bool) : Live t →
      TaskStep run t { t with word := { t.word with scheduled := a, scheduling := b } }
  | run (t : TaskSt) : run = true → t.futDrops = 0 → TaskStep run t (runTask t).1
  | clear (t : TaskSt) : t.futDrops = 0 → TaskStep run t (clearedTask t)

inductive TaskSteps (run : Bool) : TaskSt → TaskSt → Prop where
  | refl (t : TaskSt) : TaskSteps run t t
  | tail {a b c : TaskSt} : TaskSteps run a b → TaskStep run b c → TaskSteps run a c

theorem TaskSteps.single {r : Bool} {a b : TaskSt} (h : TaskStep r a b) : TaskSteps r a b := .tail (.refl a) h

theorem TaskSteps.trans {r : Bool} {a b c : TaskSt} (h1 : TaskSteps r a b) (h2 : TaskSteps r b c) :
    TaskSteps r a c := by
  induction h2 with
  | refl => exact h1
  | tail _ hs ih => exact .tail ih hs

theorem TaskStep.weaken {r : Bool} {a b : TaskSt} (h : TaskStep r a b) : TaskStep true a b := by
  cases h with
  | poll w hh => exact .poll _ w hh
  | rpoll w hh => exact .rpoll _ w hh
  | hdrop hh => exact .hdrop _ hh
  | detach hh => exact .detach _ hh
  | cancel hh => exact .cancel _ hh
  | wdrop hw => exact .wdrop _ hw
  | sched x y hl => exact .sched _ x y hl
  | run _ hf => exact .run _ rfl hf
  | clear hf => exact .clear _ hf

theorem TaskSteps.weaken {r : Bool} {a b : TaskSt} (h : TaskSteps r a b) : TaskSteps true a b := by
  induction h with
  | refl => exact .refl _
  | tail _ hs ih => exact .tail ih hs.weaken

/-- a reflexive-transitive property of pairs of task states that every primitive step has, holds along
any number of steps -/
theorem TaskSteps.induct {r : Bool} {R : TaskSt → TaskSt → Prop} (hrefl : ∀ t, R t t)
    (htrans : ∀ a b c, R a b → R b c → R a c) (hstep : ∀ a b, TaskStep r a b → R a b)
    {a b : TaskSt} (h : TaskSteps r a b) : R a b := by
  induction h with
  | refl => exact hrefl _
  | tail _ hs ih => exact htrans _ _ _ ih (hstep _ _ hs)

theorem TaskStep.live {r : Bool} {a b : TaskSt} (h : TaskStep r a b) : Live a := by
  cases h with
  | poll w hh => exact Or.inl hh
  | rpoll w hh => exact Or.inl hh
  | hdrop hh => exact Or.inl hh
  | detach hh => exact Or.inl hh
  | cancel hh => exact Or.inl hh
  | wdrop hw => exact Or.inr (Or.inl hw)
  | sched x y hl => exact hl
  | run _ hf => exact Or.inr (Or.inr hf)
  | clear hf => exact Or.inr (Or.inr hf)

/-- a task nobody holds any more does not change -/
theorem TaskSteps.frozen {r : Bool} {a b : TaskSt} (h : TaskSteps r a b) (hd : ¬ Live a) : b = a := by
  induction h with
  | refl => rfl
  | tail _ hs ih => rw [ih] at hs; exact absurd hs.live hd

theorem sameUpToSched_steps {r : Bool} {a b : TaskSt} (hl : Live b) (h : SameUpToSched a b) : TaskSteps r b a := by
  obtain ⟨x, y, he⟩ := h
  rw [he]; exact .single (.sched b x y hl)

/-- the loop of `tick` changes tasks only by `Task::run` steps (and the `Remote::schedule` of a task that
has itself woken from another thread) -/
theorem tickLoop_steps (n : Nat) (e : Exec) (h : Inv e) :
    ∀ x t, e.get? x = some t → ∃ t', (tickLoop n e.hot.head? e []).1.get? x = some t' ∧ TaskSteps true t t' := by
  have hstep : ∀ (e : Exec) (id : Nat) (rest : List Nat) (t : TaskSt), Inv e → e.hot = id :: rest →
      e.get? id = some t → StepFacts e id rest t (tickStep e id) →
      ∃ t', (tickStep e id).1.get? id = some t' ∧ TaskSteps true t t' := by
    intro e id rest t h hh hg sf
    obtain ⟨t0, hg0, ht0⟩ := h.get_of_mem (id := id) (Or.inl (by simp [hh]))
    rw [hg] at hg0; cases hg0
    have hrun : TaskSteps true t (runTask t).1 := .single (.run t rfl (ht0.inq_fd rfl))
    obtain ⟨t', hg', he | ⟨hk, hs⟩⟩ := sf.taskEq
    · exact ⟨t', hg', he ▸ hrun⟩
    · refine ⟨t', hg', hrun.trans (sameUpToSched_steps ?_ hs)⟩
      have hb := ht0.inq_c rfl
      rcases runTask_cases t hb with ⟨_, hr⟩ | ⟨_, hr | hr | hr | hr | ⟨tb, o, k, _, hkk, hr⟩⟩ <;> rw [hr] at hk ⊢ <;>
        simp at hk
      rotate_left
      · rcases hkk with rfl | rfl <;> simp at hk
      exact Or.inr (Or.inr (by simp [polledTask, ht0.inq_fd rfl]))
  refine tickLoop_induct (fun _ e r => ∀ x t, e.get? x = some t → ∃ t', r.1.get? x = some t' ∧ TaskSteps true t t')
    ?_ ?_ ?_ ?_ n e h
  · intro e h x t hx; exact ⟨t, hx, .refl t⟩
  · intro _ e h _ x t hx; exact ⟨t, hx, .refl t⟩
  · intro _ e id t h hh hg sf x tx hx
    by_cases hxi : x = id
    · subst hxi; rw [hg] at hx; cases hx
      exact hstep e x [] t h hh hg sf
    · exact ⟨tx, by rw [sf.frame x hxi]; exact hx, .refl tx⟩
  · intro _ e id rest t r h hh hne hg sf _ hr x tx hx
    by_cases hxi : x = id
    · subst hxi; rw [hg] at hx; cases hx
      obtain ⟨t1, hg1, hs1⟩ := hstep e x rest t h hh hg sf
      obtain ⟨t', hg', hs⟩ := hr x _ hg1
      exact ⟨t', hg', hs1.trans hs⟩
    · exact hr x tx (by rw [sf.frame x hxi]; exact hx)

theorem tickFrom_steps {e : Exec} (h : Inv e) (n : Nat) {x : Nat} {t : TaskSt} (hx : e.get? x = some t) :
    ∃ t', (tickFrom e n).1.get? x = some t' ∧ TaskSteps true t t' :=
  tickLoop_steps n (drainSync e) (drainSync_inv h) x t (by rw [drainSync_get? h]; exact hx)

/-- does the operation run tasks -/
def Op.ticks : Op → Bool
  | .tick _ => true
  | .rwakeb _ _ => true
  | _ => false

theorem remoteSchedule_steps {e : Exec} (r : Bool) (id : Nat) {x : Nat} {t : TaskSt} (hx : e.get? x = some t)
    (hl : x = id → Live t) :
    ∃ t', (remoteSchedule e id).get? x = some t' ∧ TaskSteps r t t' := by
  by_cases hxi : x = id
  · subst hxi
    exact ⟨_, remoteSchedule_get?_self hx, .single (.sched t true false (hl rfl))⟩
  · exact ⟨t, by rw [remoteSchedule_get?_ne _ hxi]; exact hx, .refl t⟩

theorem dropRef_wakers (t : TaskSt) : (dropRef t).wakers = t.wakers := by
  obtain ⟨⟨s, sg, nsw, hw, c, hr, nc, cnt⟩, st, slot, script, sh, hd, wk, polls, fd, rt, rd, ss, sd, de, uaf, bp⟩ := t
  cases hr <;> cases hw <;> simp [dropRef] <;> split <;> split <;> rfl

theorem taskDropByExecutor_wakers (t : TaskSt) : (taskDropByExecutor t).wakers = t.wakers := by
  obtain ⟨⟨s, sg, nsw, hw, c, hr, nc, cnt⟩, st, slot, script, sh, hd, wk, polls, fd, rt, rd, ss, sd, de, uaf, bp⟩ := t
  cases c <;> cases hw <;> cases nsw <;> simp [taskDropByExecutor]

theorem runTask_wakers (t : TaskSt) (hb : t.word.completed = false) : t.wakers ≤ (runTask t).1.wakers := by
  rcases runTask_cases t hb with ⟨_, hr⟩ | ⟨_, hr | hr | hr | hr | ⟨tb, o, k, htb, _, hr⟩⟩ <;> rw [hr] <;>
    simp [droppedTask, polledTask, clonedTask, finishedTask, dropRef_wakers, taskDropByExecutor_wakers]
  rcases htb with rfl | rfl <;> simp [cloneInc]

/-- waker clones only accumulate during a tick -/
theorem tickLoop_wakers (n : Nat) (e : Exec) (h : Inv e) :
    ∀ x t, e.get? x = some t → ∃ t', (tickLoop n e.hot.head? e []).1.get? x = some t' ∧ t.wakers ≤ t'.wakers := by
  have hstep : ∀ (e : Exec) (id : Nat) (rest : List Nat) (t : TaskSt), Inv e → e.hot = id :: rest →
      e.get? id = some t → StepFacts e id rest t (tickStep e id) →
      ∃ t', (tickStep e id).1.get? id = some t' ∧ t.wakers ≤ t'.wakers := by
    intro e id rest t h hh hg sf
    obtain ⟨t0, hg0, ht0⟩ := h.get_of_mem (id := id) (Or.inl (by simp [hh]))
    rw [hg] at hg0; cases hg0
    have := runTask_wakers t (ht0.inq_c rfl)
    obtain ⟨t', hg', he | ⟨_, x, y, he⟩⟩ := sf.taskEq
    · exact ⟨t', hg', by rw [he]; exact this⟩
    · exact ⟨t', hg', by rw [he]; exact this⟩
  refine tickLoop_induct (fun _ e r => ∀ x t, e.get? x = some t → ∃ t', r.1.get? x = some t' ∧ t.wakers ≤ t'.wakers)
    ?_ ?_ ?_ ?_ n e h
  · intro e h x t hx; exact ⟨t, hx, Nat.le_refl _⟩
  · intro _ e h _ x t hx; exact ⟨t, hx, Nat.le_refl _⟩
  · intro _ e id t h hh hg sf x tx hx
    by_cases hxi : x = id
    · subst hxi; rw [hg] at hx; cases hx
      exact hstep e x [] t h hh hg sf
    · exact ⟨tx, by rw [sf.frame x hxi]; exact hx, Nat.le_refl _⟩
  · intro _ e id rest t r h hh hne hg sf _ hr x tx hx
    by_cases hxi : x = id
    · subst hxi; rw [hg] at hx; cases hx
      obtain ⟨t1, hg1, hs1⟩ := hstep e x rest t h hh hg sf
      obtain ⟨t', hg', hs⟩ := hr x _ hg1
      exact ⟨t', hg', Nat.le_trans hs1 hs⟩
    · exact hr x tx (by rw [sf.frame x hxi]; exact hx)

theorem finishSched_steps {e : Exec} (r : Bool) (id : Nat) {x : Nat} {t : TaskSt} (hx : e.get? x = some t)
    (hl : x = id → Live t) :
    ∃ t', (finishSched e id).get? x = some t' ∧ TaskSteps r t t' := by
  unfold finishSched
  by_cases hxi : x = id
  · subst hxi
    rw [hx]
    refine ⟨_, get?_setTask_self _ hx, ?_⟩
    have : ({ t with word := TaskState.finishScheduling t.word } : TaskSt) =
        { t with word := { t.word with scheduled := t.word.scheduled, scheduling := false } } := by simp
    rw [this]; exact .single (.sched t _ false (hl rfl))
  · cases hg : e.get? id with
    | none => exact ⟨t, hx, .refl t⟩
    | some t1 => exact ⟨t, by simp only; rw [get?_setTask_ne _ _ hxi]; exact hx, .refl t⟩

theorem remoteWakeB_steps {e : Exec} (h : Inv e) (hi : e.inflight = none) (id n : Nat) {x : Nat} {t : TaskSt}
    (hx : e.get? x = some t) (hw : hasWakerClone e id = true) :
    ∃ t', (remoteWakeB e id n).1.get? x = some t' ∧ TaskSteps true t t' := by
  obtain ⟨t0, hg, hw0⟩ := (hasWakerClone_iff e id).mp hw
  have hl0 : x = id → Live t := by
    intro hxi; subst hxi; rw [hx] at hg; cases hg; exact Or.inr (Or.inl hw0)
  by_cases he : t0.word.scheduled = true ∨ t0.word.completed = true ∨ t0.word.notCancelled = false ∨ t0.shared = false
  · rw [remoteWakeB_early n hg he]
    exact remoteSchedule_steps true id hx hl0
  · have h1 : t0.word.scheduled = false := by cases hx : t0.word.scheduled <;> simp_all
    have h2 : t0.word.completed = false := by cases hx : t0.word.completed <;> simp_all
    have h3 : t0.word.notCancelled = true := by cases hx : t0.word.notCancelled <;> simp_all
    have h4 : t0.shared = true := by cases hx : t0.shared <;> simp_all
    -- the task in the state the tick starts from
    have start : ∀ (eA : Exec), eA.tasks = e.tasks.set id { t0 with word := { t0.word with scheduled := true, scheduling := true } } →
        ∃ t1, eA.get? x = some t1 ∧ TaskSteps true t t1 ∧ (x = id → t1.wakers ≠ 0) := by
      intro eA hA
      by_cases hxi : x = id
      · subst hxi; rw [hx] at hg; cases hg
        exact ⟨_, by simp [Exec.get?, hA, List.getElem?_set_self (get?_lt hx)],
          .single (.sched t true true (hl0 rfl)), fun _ => hw0⟩
      · exact ⟨t, by simp [Exec.get?, hA, List.getElem?_set_ne (Ne.symm hxi)]; exact hx, .refl t,
          fun h => absurd h hxi⟩
    have finish : ∀ (eA : Exec), Inv eA → ∀ t1, eA.get? x = some t1 → (x = id → t1.wakers ≠ 0) →
        ∀ (eC : Exec), (∀ y, eC.get? y = (tickFrom eA n).1.get? y) →
        ∃ t', (finishSched eC id).get? x = some t' ∧ TaskSteps true t1 t' := by
      intro eA hA t1 hg1 hw1 eC hC
      obtain ⟨t2, hg2, hs2⟩ := tickFrom_steps hA n hg1
      obtain ⟨t2', hg2', hw2⟩ := tickLoop_wakers n (drainSync eA) (drainSync_inv hA) x t1
        (by rw [drainSync_get? hA]; exact hg1)
      have : t2' = t2 := by
        have h' : (tickFrom eA n).1.get? x = some t2' := hg2'
        rw [hg2] at h'; cases h'; rfl
      subst this
      obtain ⟨t3, hg3, hs3⟩ := finishSched_steps (e := eC) true id (by rw [hC]; exact hg2)
        (fun hxi => Or.inr (Or.inl (by have := hw1 hxi; omega)))
      exact ⟨t3, hg3, hs2.trans hs3⟩
    rcases remoteWakeB_push n hg h1 h2 h3 h4 with ⟨_, hr⟩ | ⟨_, hr⟩ <;> rw [hr]
    · obtain ⟨t1, hg1, hs1, hw1⟩ := start
        ({ e.setTask id { t0 with word := { t0.word with scheduled := true, scheduling := true } } with
            pending := e.pending + 1, sync := e.sync ++ [id], outstanding := 1 } : Exec) rfl
      obtain ⟨t', hg', hs'⟩ := finish _ (push_inv h hg true 1) t1 hg1 hw1 _ (fun _ => rfl)
      exact ⟨t', hg', hs1.trans hs'⟩
    · obtain ⟨t1, hg1, hs1, hw1⟩ := start
        ({ e.setTask id { t0 with word := { t0.word with scheduled := true, scheduling := true } } with
            pending := e.pending + 1, outstanding := 1, inflight := some id } : Exec) rfl
      obtain ⟨t', hg', hs'⟩ := finish _ (reserve_inv h hi hg) t1 hg1 hw1
        ({ (tickFrom ({ e.setTask id { t0 with word := { t0.word with scheduled := true, scheduling := true } } with
            pending := e.pending + 1, outstanding := 1, inflight := some id } : Exec) n).1 with
              sync := (tickFrom ({ e.setTask id { t0 with word := { t0.word with scheduled := true, scheduling := true } } with
                pending := e.pending + 1, outstanding := 1, inflight := some id } : Exec) n).1.sync ++ [id],
              inflight := none } : Exec) (fun _ => rfl)
      exact ⟨t', hg', hs1.trans hs'⟩

/-- every operation changes every task only by primitive steps; `Task::run` steps only in a tick -/
theorem apply_steps {e : Exec} (h : InvB e) (op : Op) {id : Nat} {t : TaskSt} (hg : e.get? id = some t) :
    ∃ t', (apply e op).get? id = some t' ∧ TaskSteps op.ticks t t' := by
  obtain ⟨h, hi⟩ := h
  have hfd : ∀ x tx, e.get? x = some tx → inMap e x = true → tx.futDrops = 0 := by
    intro x tx hx hin
    have := h.t x tx hx; rw [hin] at this; exact this.inq_fd rfl
  cases op with
  | spawn sc =>
    cases ha : e.alive
    · exact ⟨t, by simp [apply, applyR, ha, hg], .refl t⟩
    · refine ⟨t, ?_, .refl t⟩
      simp [apply, applyR, ha, spawn, Exec.get?, List.getElem?_append_left (get?_lt hg)]
      exact hg
  | tick n =>
    cases ha : e.alive
    · exact ⟨t, by simp [apply, applyR, ha, hg], .refl t⟩
    · simp only [apply, applyR, ha]
      exact tickFrom_steps (h.outstanding 0) n hg
  | xdrop =>
    cases ha : e.alive
    · exact ⟨t, by simp [apply, applyR, ha, hg], .refl t⟩
    · simp only [apply, applyR, ha]
      have hnd : (e.hot ++ e.cold).Nodup := by
        rw [List.nodup_append]
        refine ⟨h.q.hnd, h.q.cnd, ?_⟩
        intro a ha b hb hab; subst hab; exact h.q.disj a ha hb
      have := (foldl_clearTask (e.hot ++ e.cold) e hnd).1 id
      by_cases hm : id ∈ e.hot ++ e.cold
      · rw [if_pos hm, hg] at this
        exact ⟨clearedTask t, this, .single (.clear t (hfd id t hg ((inMap_iff e id).mpr (by simpa using hm))))⟩
      · rw [if_neg hm, hg] at this
        exact ⟨t, this, .refl t⟩
  | hpoll id' w =>
    rcases handle_dead_or_live e id' with hd | ⟨t1, hg1, hh⟩
    · exact ⟨t, by simp [apply, applyR, handlePoll_dead w hd, hg], .refl t⟩
    · simp only [apply, applyR, handlePoll_live w hg1 hh]
      by_cases hx : id = id'
      · subst hx; rw [hg] at hg1; cases hg1
        exact ⟨_, get?_setTask_self _ hg, .single (.poll t w hh)⟩
      · exact ⟨t, by rw [get?_setTask_ne _ _ hx]; exact hg, .refl t⟩
  | hdrop id' =>
    rcases handle_dead_or_live e id' with hd | ⟨t1, hg1, hh⟩
    · exact ⟨t, by simp [apply, applyR, handleDrop_dead hd, hg], .refl t⟩
    · simp only [apply, applyR, handleDrop_live hg1 hh]
      by_cases hx : id = id'
      · subst hx; rw [hg] at hg1; cases hg1
        exact ⟨_, get?_setTask_self _ (by rw [scheduleLocal_get? h]; exact hg), .single (.hdrop t hh)⟩
      · exact ⟨t, by rw [get?_setTask_ne _ _ hx, scheduleLocal_get? h]; exact hg, .refl t⟩
  | hdetach id' =>
    rcases handle_dead_or_live e id' with hd | ⟨t1, hg1, hh⟩
    · exact ⟨t, by simp [apply, applyR, handleDetach_dead hd, hg], .refl t⟩
    · simp only [apply, applyR, handleDetach_live hg1 hh]
      by_cases hx : id = id'
      · subst hx; rw [hg] at hg1; cases hg1
        exact ⟨_, get?_setTask_self _ hg, .single (.detach t hh)⟩
      · exact ⟨t, by rw [get?_setTask_ne _ _ hx]; exact hg, .refl t⟩
  | hcancel id' =>
    rcases handle_dead_or_live e id' with hd | ⟨t1, hg1, hh⟩
    · exact ⟨t, by simp [apply, hcancel_dead hd, hg], .refl t⟩
    · simp only [apply, hcancel_live h hg1 hh]
      by_cases hx : id = id'
      · subst hx; rw [hg] at hg1; cases hg1
        refine ⟨_, get?_setTask_self _ (by rw [scheduleLocal_get? h]; exact hg), ?_⟩
        exact (TaskSteps.single (.cancel t hh)).tail (.poll _ _ (by rw [cancelWord_handle]; exact hh))
      · exact ⟨t, by rw [get?_setTask_ne _ _ hx, scheduleLocal_get? h]; exact hg, .refl t⟩
  | wake id' =>
    rcases wakers_dead_or_live e id' with hd | ⟨t1, hg1, hw⟩
    · exact ⟨t, by simp [apply, applyR, wakeLocal_dead hd, hg], .refl t⟩
    · exact ⟨t, by simp [apply, applyR, wakeLocal_live hg1 hw, scheduleLocal_get? h, hg], .refl t⟩
  | wdrop id' =>
    rcases wakers_dead_or_live e id' with hd | ⟨t1, hg1, hw⟩
    · exact ⟨t, by simp [apply, applyR, wakerDrop_dead hd, hg], .refl t⟩
    · simp only [apply, applyR, wakerDrop_live hg1 hw]
      by_cases hx : id = id'
      · subst hx; rw [hg] at hg1; cases hg1
        exact ⟨_, get?_setTask_self _ hg, .single (.wdrop t hw)⟩
      · exact ⟨t, by rw [get?_setTask_ne _ _ hx]; exact hg, .refl t⟩
  | rwdrop id' =>
    rcases wakers_dead_or_live e id' with hd | ⟨t1, hg1, hw⟩
    · exact ⟨t, by simp [apply, applyR, wakerDrop_dead hd, hg], .refl t⟩
    · simp only [apply, applyR, wakerDrop_live hg1 hw]
      by_cases hx : id = id'
      · subst hx; rw [hg] at hg1; cases hg1
        exact ⟨_, get?_setTask_self _ hg, .single (.wdrop t hw)⟩
      · exact ⟨t, by rw [get?_setTask_ne _ _ hx]; exact hg, .refl t⟩
  | rhpoll id' w =>
    simp only [apply, applyR, remoteHandlePoll]
    cases hg1 : e.get? id' with
    | none => exact ⟨t, hg, .refl t⟩
    | some t1 =>
      simp only
      cases hh : t1.handle
      · exact ⟨t, by simpa using hg, .refl t⟩
      · simp only [Bool.not_true, Bool.false_eq_true, if_false]
        by_cases hx : id = id'
        · subst hx; rw [hg] at hg1; cases hg1
          exact ⟨_, get?_setTask_self _ hg, .single (.rpoll t w hh)⟩
        · exact ⟨t, by rw [get?_setTask_ne _ _ hx]; exact hg, .refl t⟩
  | rhdrop id' =>
    simp only [apply, applyR]
    cases hh : hasHandle e id'
    · exact ⟨t, by simpa using hg, .refl t⟩
    · simp only [Bool.not_true, Bool.false_eq_true, if_false]
      split
      · exact ⟨t, hg, .refl t⟩
      · obtain ⟨t1, hg1, hh1⟩ := (hasHandle_iff e id').mp hh
        have hg1' : (chargeBudget e).get? id' = some t1 := hg1
        simp only [remoteHandleDrop, remoteSchedule_get?_self hg1']
        by_cases hx : id = id'
        · subst hx; rw [hg] at hg1; cases hg1
          refine ⟨_, get?_setTask_self _ (remoteSchedule_get?_self hg1'), ?_⟩
          exact (TaskSteps.single (.sched t true false (Or.inl hh1))).tail (.hdrop _ hh1)
        · exact ⟨t, by rw [get?_setTask_ne _ _ hx, remoteSchedule_get?_ne _ hx]; exact hg, .refl t⟩
  | rhcancel id' =>
    simp only [apply, applyR]
    cases hh : hasHandle e id'
    · exact ⟨t, by simpa using hg, .refl t⟩
    · simp only [Bool.not_true, Bool.false_eq_true, if_false]
      split
      · exact ⟨t, hg, .refl t⟩
      · obtain ⟨t1, hg1, hh1⟩ := (hasHandle_iff e id').mp hh
        have hg1' : (chargeBudget e).get? id' = some t1 := hg1
        simp only [remoteHandleCancel, remoteSchedule_get?_self hg1']
        by_cases hx : id = id'
        · subst hx; rw [hg] at hg1; cases hg1
          refine ⟨_, get?_setTask_self _ (remoteSchedule_get?_self hg1'), ?_⟩
          exact ((TaskSteps.single (.sched t true false (Or.inl hh1))).tail (.cancel _ hh1)).tail
            (.rpoll _ _ (by rw [cancelWord_handle]; exact hh1))
        · exact ⟨t, by rw [get?_setTask_ne _ _ hx, remoteSchedule_get?_ne _ hx]; exact hg, .refl t⟩
  | rwake id' =>
    simp only [apply, applyR]
    cases hh : hasWakerClone e id'
    · exact ⟨t, by simpa using hg, .refl t⟩
    · simp only [Bool.not_true, Bool.false_eq_true, if_false]
      split
      · exact ⟨t, hg, .refl t⟩
      · obtain ⟨t1, hg1, hw1⟩ := (hasWakerClone_iff e id').mp hh
        exact remoteSchedule_steps (e := chargeBudget e) false id' hg (fun hx => by
          subst hx; rw [hg] at hg1; cases hg1; exact Or.inr (Or.inl hw1))
  | rwakeb id' n =>
    simp only [apply, applyR]
    cases hh : hasWakerClone e id'
    · exact ⟨t, by simpa using hg, .refl t⟩
    · simp only [Bool.not_true, Bool.false_eq_true, if_false]
      exact remoteWakeB_steps h hi id' n hg hh

/-- along any continuation of a program every task evolves only by primitive steps -/
theorem foldl_steps (ops : List Op) : ∀ {e : Exec}, InvB e → ∀ {id : Nat} {t : TaskSt}, e.get? id = some t →
    ∃ t', (ops.foldl apply e).get? id = some t' ∧ TaskSteps true t t' := by
  induction ops with
  | nil => intro e _ id t hg; exact ⟨t, hg, .refl t⟩
  | cons op ops ih =>
    intro e h id t hg
    obtain ⟨t1, hg1, hs1⟩ := apply_steps h op hg
    obtain ⟨t2, hg2, hs2⟩ := ih (apply_invB h op) hg1
    exact ⟨t2, hg2, hs1.weaken.trans hs2⟩

/-- facts that only ever go one way along the life of a task -/
structure Mono (a b : TaskSt) : Prop where
  /-- cancellation is never undone -/
  nc : b.word.notCancelled = true → a.word.notCancelled = true
  /-- a consumed handle never comes back, and then nobody takes the result -/
  hdl : a.handle = false → b.handle = false ∧ b.resTaken = a.resTaken
  polls : a.polls ≤ b.polls
  /-- a cancelled task is never polled again -/
  cpolls : a.word.notCancelled = false → b.polls = a.polls
  comp : a.word.completed = true → b.word.completed = true

theorem Mono.refl (t : TaskSt) : Mono t t := ⟨id, fun h => ⟨h, rfl⟩, Nat.le_refl _, fun _ => rfl, id⟩

theorem Mono.trans {a b c : TaskSt} (h1 : Mono a b) (h2 : Mono b c) : Mono a c := by
  refine ⟨fun h => h1.nc (h2.nc h), ?_, Nat.le_trans h1.polls h2.polls, ?_, fun h => h2.comp (h1.comp h)⟩
  · intro h
    obtain ⟨hb, hr⟩ := h1.hdl h
    obtain ⟨hc, hr'⟩ := h2.hdl hb
    exact ⟨hc, by rw [hr', hr]⟩
  · intro h
    have hb : b.word.notCancelled = false := by
      cases hbn : b.word.notCancelled
      · rfl
      · rw [h1.nc hbn] at h; cases h
    rw [h2.cpolls hb, h1.cpolls h]

theorem dropRef_mono (t : TaskSt) : Mono t (dropRef t) := by
  obtain ⟨⟨s, sg, nsw, hw, c, hr, nc, cnt⟩, st, slot, script, sh, hd, wk, polls, fd, rt, rd, ss, sd, de, uaf, bp⟩ := t
  cases hr <;> cases hw <;> constructor <;> simp [dropRef] <;> (repeat' split) <;> simp_all

theorem taskDropByExecutor_mono (t : TaskSt) : Mono t (taskDropByExecutor t) := by
  obtain ⟨⟨s, sg, nsw, hw, c, hr, nc, cnt⟩, st, slot, script, sh, hd, wk, polls, fd, rt, rd, ss, sd, de, uaf, bp⟩ := t
  cases c <;> cases hw <;> cases nsw <;> constructor <;> simp [taskDropByExecutor]

theorem runTask_mono (t : TaskSt) : Mono t (runTask t).1 := by
  cases hn : t.word.notCancelled
  · rw [runTask_cancelled t hn]
    refine Mono.trans (b := { t with word := TaskState.unschedule t.word }) ?_
      (Mono.trans (taskDropByExecutor_mono _) (dropRef_mono _))
    constructor <;> simp
  · rcases hs : t.script with _ | ⟨o, r⟩
    · constructor <;> simp [runTask, hn, hs]
    · cases o
      · constructor <;> simp [runTask, hn, hs]
      · constructor <;> simp [runTask, hn, hs]
      · constructor <;> simp [runTask, hn, hs]
      · constructor <;> simp [runTask, hn, hs]
      all_goals
        simp only [runTask, hn, hs, g_isCancelled, Bool.not_true, Bool.false_eq_true, if_false]
        refine Mono.trans ?_ (Mono.trans (taskDropByExecutor_mono _) (dropRef_mono _))
        constructor <;> simp [hn] <;> (try split) <;> simp_all

theorem taskStep_mono {r : Bool} {t b : TaskSt} (h : TaskStep r t b) : Mono t b := by
  cases h with
  | poll w hh =>
    obtain ⟨⟨s, sg, nsw, hw, c, hr, nc, cnt⟩, st, slot, script, sh, hd, wk, polls, fd, rt, rd, ss, sd, de, uaf, bp⟩ := t
    simp at hh; subst hh
    cases hr <;> cases nc <;> cases c <;> cases hw <;> constructor <;>
      simp [pollTask, dropRef_nc, dropRef_polls, (dropRef_mono _).comp] <;> (repeat' split) <;> simp_all
  | rpoll w hh =>
    obtain ⟨⟨s, sg, nsw, hw, c, hr, nc, cnt⟩, st, slot, script, sh, hd, wk, polls, fd, rt, rd, ss, sd, de, uaf, bp⟩ := t
    simp at hh; subst hh
    cases hr <;> cases nc <;> cases c <;> cases hw <;> constructor <;>
      simp [remotePollTask, dropRef_nc, dropRef_polls, (dropRef_mono _).comp] <;> (repeat' split) <;> simp_all
  | hdrop hh =>
    refine Mono.trans (b := { cancelWord t true with handle := false }) ?_ (dropRef_mono _)
    obtain ⟨⟨s, sg, nsw, hw, c, hr, nc, cnt⟩, st, slot, script, sh, hd, wk, polls, fd, rt, rd, ss, sd, de, uaf, bp⟩ := t
    simp at hh; subst hh
    cases hr <;> constructor <;> simp [cancelWord]
  | detach hh =>
    refine Mono.trans (b := { t with handle := false }) ?_ (dropRef_mono _)
    constructor <;> simp [hh]
  | cancel hh =>
    obtain ⟨⟨s, sg, nsw, hw, c, hr, nc, cnt⟩, st, slot, script, sh, hd, wk, polls, fd, rt, rd, ss, sd, de, uaf, bp⟩ := t
    cases hr <;> constructor <;> simp [cancelWord]
  | wdrop hw =>
    refine Mono.trans (b := { t with wakers := t.wakers - 1 }) ?_ (dropRef_mono _)
    constructor <;> simp
  | sched x y _ => constructor <;> simp
  | run _ _ => exact runTask_mono t
  | clear _ => exact Mono.trans (taskDropByExecutor_mono _) (dropRef_mono _)

theorem taskSteps_mono {r : Bool} {a b : TaskSt} (h : TaskSteps r a b) : Mono a b :=
  TaskSteps.induct Mono.refl (fun _ _ _ => Mono.trans) (fun _ _ => taskStep_mono) h

/-- outside ticks nothing is polled -/
theorem taskSteps_norun_polls {a b : TaskSt} (h : TaskSteps false a b) : b.polls = a.polls := by
  refine TaskSteps.induct (R := fun a b => b.polls = a.polls) (fun _ => rfl) (fun _ _ _ h1 h2 => h2.trans h1) ?_ h
  intro a b hs
  cases hs with
  | poll w hh => exact pollTask_polls a w
  | rpoll w hh => exact remotePollTask_polls a w
  | hdrop hh => rw [dropRef_polls]; exact cancelWord_polls a true
  | detach hh => rw [dropRef_polls]
  | cancel hh => exact cancelWord_polls a false
  | wdrop hw => rw [dropRef_polls]
  | sched x y _ => rfl
  | run hr _ => cases hr
  | clear _ => simp [clearedTask, dropRef_polls, taskDropByExecutor_polls]

/-- (D) once the allocation of a task was freed, no operation touches it any more -/
theorem frozen_after_free {e : Exec} (h : InvB e) {id : Nat} {t : TaskSt} (hg : e.get? id = some t)
    (hd : t.deallocs = 1) (op : Op) : (apply e op).get? id = some t := by
  have ht := h.inv.t id t hg
  have hhold : holders (inMap e id) t = 0 := by
    have := ht.dl; rw [hd] at this
    by_cases hz : holders (inMap e id) t = 0
    · exact hz
    · simp [hz] at this
  have hin : inMap e id = false := by
    cases hi : inMap e id
    · rfl
    · simp [holders, hi] at hhold
  have hh : t.handle = false := by
    cases hi : t.handle
    · rfl
    · simp [holders, hi] at hhold
  have hw : t.wakers = 0 := by simp [holders] at hhold; omega
  rw [hin] at ht
  have hnl : ¬ Live t := by
    rintro (h1 | h1 | h1)
    · rw [hh] at h1; cases h1
    · exact h1 hw
    · rw [ht.outq_fd rfl] at h1; cases h1
  obtain ⟨t', hg', hs⟩ := apply_steps h op hg
  rw [hs.frozen hnl] at hg'; exact hg'


theorem makeHot_tasks' (l : List Nat) : ∀ e : Exec, (l.foldl makeHot e).tasks = e.tasks := by
  induction l with
  | nil => intro e; rfl
  | cons a l ih => intro e; rw [List.foldl_cons, ih, (makeHot_fields e a).1]

/-- `drain_sync` and `Local::schedule` never touch a task (no invariant needed) -/
theorem drainSync_tasks (e : Exec) : (drainSync e).tasks = e.tasks := by
  unfold drainSync
  split
  · rfl
  · simp only; split <;> simp [makeHot_tasks']

theorem scheduleLocal_tasks (e : Exec) (id : Nat) : (scheduleLocal e id).tasks = e.tasks := by
  rcases scheduleLocal_cases e id with he | he <;> rw [he]
  rw [(makeHot_fields _ id).1, drainSync_tasks]

theorem remoteScheduleGuarded_get?_ne (e : Exec) {id x : Nat} (hx : x ≠ id) :
    (remoteScheduleGuarded e id).get? x = e.get? x := by
  rcases remoteScheduleGuarded_cases e id with he | he <;> rw [he]
  rw [remoteSchedule_get?_ne _ hx]; rfl

/-! ## one whole tick: `drain_sync`, then the loop -/

theorem liveIn_congr {e e' : Exec} (h : ∀ x, e'.get? x = e.get? x) (x : Nat) :
    (liveIn e' x ↔ liveIn e x) ∧ (cancelledIn e' x ↔ cancelledIn e x) := by
  simp [liveIn, cancelledIn, h x]

/-- the hot queue the loop of a `tick` line starts from: the old hot queue, then the drained ids -/
def tickStart (e : Exec) : Exec := drainSync { e with outstanding := 0 }

theorem tick_eq (e : Exec) (n : Nat) :
    tick e n = ((tickLoop n (tickStart e).hot.head? (tickStart e) []).1,
                (tickLoop n (tickStart e).hot.head? (tickStart e) []).2,
                !(tickLoop n (tickStart e).hot.head? (tickStart e) []).1.hot.isEmpty) := rfl

structure StartFacts (e : Exec) : Prop where
  inv : Inv (tickStart e)
  get : ∀ x, (tickStart e).get? x = e.get? x
  inMap : ∀ x, inMap (tickStart e) x = inMap e x
  hot : ∃ w, (tickStart e).hot = e.hot ++ w ∧ w.length ≤ e.sync.length ∧ ∀ x, x ∈ w → x ∈ e.cold ∧ x ∈ e.sync
  cold : ∀ x, x ∈ (tickStart e).cold ↔ (x ∈ e.cold ∧ x ∉ e.sync)
  inflight : (tickStart e).inflight = e.inflight

theorem tickStart_facts {e : Exec} (h : Inv e) : StartFacts e := by
  have h0 := h.outstanding 0
  have d := drainSync_facts h0
  exact ⟨d.inv, fun x => drainSync_get? h0 x, fun x => drainSync_inMap h0 x, d.hot, d.cold, d.inflight⟩

theorem tickStart_hot_get {e : Exec} (h : Inv e) {p x : Nat} (hx : e.hot[p]? = some x) :
    (tickStart e).hot[p]? = some x := by
  obtain ⟨w, hw, _⟩ := (tickStart_facts h).hot
  rw [hw, List.getElem?_append_left (List.getElem?_eq_some_iff.mp hx).1]; exact hx

/-- a cancelled task that is still queued is in the hot queue the next tick starts from -/
theorem cancelled_in_tickStart {e : Exec} (h : InvB e) {x : Nat} (hc : cancelledIn e x) (hq : inMap e x = true) :
    x ∈ (tickStart e).hot := by
  have sf := tickStart_facts h.inv
  obtain ⟨t, hg, hn⟩ := hc
  have hq' : x ∈ (tickStart e).hot ∨ x ∈ (tickStart e).cold := by rw [← inMap_iff, sf.inMap]; exact hq
  rcases hq' with h1 | h1
  · exact h1
  · have := (sf.cold x).mp h1
    rcases h.inv.c x t hg hn this.1 with h2 | h2
    · exact absurd h2 this.2
    · rw [h.idle] at h2; cases h2

/-- a queued task with a cross-thread wake-up accepted (SCHEDULED) is in the hot queue the next tick starts from -/
theorem scheduled_in_tickStart {e : Exec} (h : InvB e) {x : Nat} {t : TaskSt} (hg : e.get? x = some t)
    (hs : t.word.scheduled = true) (hq : inMap e x = true) : x ∈ (tickStart e).hot := by
  have sf := tickStart_facts h.inv
  have hq' : x ∈ (tickStart e).hot ∨ x ∈ (tickStart e).cold := by rw [← inMap_iff, sf.inMap]; exact hq
  rcases hq' with h1 | h1
  · exact h1
  · have := (sf.cold x).mp h1
    rcases h.inv.s x t hg hs this.1 with h2 | h2
    · exact absurd h2 this.2
    · rw [h.idle] at h2; cases h2

theorem tick_inflight {e : Exec} (h : Inv e) (n : Nat) : (tick e n).1.inflight = e.inflight :=
  (tickFrom_fields (h.outstanding 0) n).2.1

theorem tick_invB {e : Exec} (h : InvB e) (n : Nat) : InvB (tick e n).1 :=
  ⟨tick_inv h.inv n, by rw [tick_inflight h.inv]; exact h.idle⟩

/-! ## several ticks in a row -/

/-- `k` consecutive ticks with `max_interval = n`; the concatenated poll logs -/
def tickN (e : Exec) (n : Nat) : Nat → Exec × List Nat
  | 0 => (e, [])
  | k + 1 => ((tickN (tick e n).1 n k).1, (tick e n).2.1 ++ (tickN (tick e n).1 n k).2)

theorem tickN_invB {e : Exec} (h : InvB e) (n k : Nat) : InvB (tickN e n k).1 := by
  induction k generalizing e with
  | zero => exact h
  | succ k ih => exact ih (tick_invB h n)

theorem tickN_steps (n : Nat) : ∀ (k : Nat) {e : Exec}, Inv e → ∀ {x : Nat} {t : TaskSt}, e.get? x = some t →
    ∃ t', (tickN e n k).1.get? x = some t' ∧ TaskSteps true t t' := by
  intro k
  induction k with
  | zero => intro e _ x t hx; exact ⟨t, hx, .refl t⟩
  | succ k ih =>
    intro e h x t hx
    obtain ⟨t1, hg1, hs1⟩ := tickFrom_steps (h.outstanding 0) n (x := x) (t := t) hx
    obtain ⟨t2, hg2, hs2⟩ := ih (tick_inv h n) (x := x) (t := t1) hg1
    exact ⟨t2, hg2, hs1.trans hs2⟩

theorem tickN_sub {e : Exec} (h : Inv e) (n : Nat) : ∀ (k : Nat) (e : Exec), Inv e →
    ∀ y, inMap (tickN e n k).1 y = true → inMap e y = true := by
  intro k
  induction k with
  | zero => intro e _ y hy; exact hy
  | succ k ihk =>
    intro e he y hy
    have := (tickLoop_sub n (tickStart e) (tickStart_facts he).inv).1 y (ihk _ (tick_inv he n) y hy)
    rw [(tickStart_facts he).inMap] at this; exact this

/-- a live task at position `p` of the hot queue the first tick starts from is polled within `k` ticks
when `k * n > p` -/
theorem tickN_polls_live_start {e : Exec} (h : Inv e) (n : Nat) (hn : 0 < n) (k : Nat) :
    ∀ p x, (tickStart e).hot[p]? = some x → liveIn e x → p < k * n → x ∈ (tickN e n k).2 := by
  induction k generalizing e with
  | zero => intro p x _ _ hp; omega
  | succ k ih =>
    intro p x hx hl hp
    have sf := tickStart_facts h
    have hl0 : liveIn (tickStart e) x := (liveIn_congr sf.get x).1.mpr hl
    simp only [tickN]
    by_cases hpn : p < n
    · exact List.mem_append_left _ ((tickLoop_visit n _ sf.inv p x hx hpn).2 hl0)
    · have hs := tickLoop_shift n _ sf.inv p x hx (by omega)
      have hin : inMap (tick e n).1 x = true := (inMap_iff _ _).mpr (Or.inl (List.mem_of_getElem? hs))
      have hl' : liveIn (tick e n).1 x := (tickLoop_sub n _ sf.inv).2 x hl0 hin
      exact List.mem_append_right _ (ih (tick_inv h n) (p - n) x (tickStart_hot_get (tick_inv h n) hs) hl' (by
        have : (k + 1) * n = k * n + n := Nat.succ_mul k n
        omega))

/-- a cancelled task at position `p` of the hot queue the first tick starts from is dropped and removed
within `k` ticks when `k * n > p`, never polled -/
theorem tickN_drops_cancelled_start {e : Exec} (h : Inv e) (n : Nat) (hn : 0 < n) (k : Nat) :
    ∀ p x, (tickStart e).hot[p]? = some x → cancelledIn e x → p < k * n → inMap (tickN e n k).1 x = false := by
  induction k generalizing e with
  | zero => intro p x _ _ hp; omega
  | succ k ih =>
    intro p x hx hc hp
    have sf := tickStart_facts h
    have hc0 : cancelledIn (tickStart e) x := (liveIn_congr sf.get x).2.mpr hc
    simp only [tickN]
    by_cases hpn : p < n
    · have hgone := (tickLoop_visit n _ sf.inv p x hx hpn).1 hc0
      cases hin : inMap (tickN (tick e n).1 n k).1 x
      · rfl
      · have := tickN_sub h n k _ (tick_inv h n) x hin
        rw [tick_eq] at this; simp only at this
        rw [hgone] at this; cases this
    · have hs := tickLoop_shift n _ sf.inv p x hx (by omega)
      obtain ⟨t, hg, hnc⟩ := hc0
      obtain ⟨t', hg', hst⟩ := tickLoop_steps n _ sf.inv x t hg
      have hc' : cancelledIn (tick e n).1 x := by
        refine ⟨t', hg', ?_⟩
        cases hn' : t'.word.notCancelled
        · rfl
        · rw [(taskSteps_mono hst).nc hn'] at hnc; cases hnc
      exact ih (tick_inv h n) (p - n) x (tickStart_hot_get (tick_inv h n) hs) hc' (by
        have : (k + 1) * n = k * n + n := Nat.succ_mul k n
        omega)

theorem tickN_polls_live {e : Exec} (h : Inv e) (n : Nat) (hn : 0 < n) (k : Nat) :
    ∀ p x, e.hot[p]? = some x → liveIn e x → p < k * n → x ∈ (tickN e n k).2 :=
  fun p x hx => tickN_polls_live_start h n hn k p x (tickStart_hot_get h hx)

theorem tickN_drops_cancelled {e : Exec} (h : Inv e) (n : Nat) (hn : 0 < n) (k : Nat) :
    ∀ p x, e.hot[p]? = some x → cancelledIn e x → p < k * n → inMap (tickN e n k).1 x = false :=
  fun p x hx => tickN_drops_cancelled_start h n hn k p x (tickStart_hot_get h hx)

theorem mem_getElem? {l : List Nat} {x : Nat} (h : x ∈ l) : ∃ p, p < l.length ∧ l[p]? = some x := by
  obtain ⟨p, hp, he⟩ := List.getElem_of_mem h
  exact ⟨p, hp, by simp [hp, he]⟩

theorem tickStart_hot_length {e : Exec} (h : Inv e) : (tickStart e).hot.length ≤ e.hot.length + e.sync.length := by
  obtain ⟨w, hw, hl, _⟩ := (tickStart_facts h).hot
  rw [hw]; simp; omega

/-- dropping the handle cancels, wherever the handle lives: a cancelled task that is still queued is
reaped (future dropped unpolled, task removed) within `k` ticks as soon as `k * n ≥ |hot| + |sync|` -/
theorem tickN_reaps_cancelled {e : Exec} (h : InvB e) (n : Nat) (hn : 0 < n) (k : Nat) {x : Nat}
    (hc : cancelledIn e x) (hk : e.hot.length + e.sync.length ≤ k * n) : inMap (tickN e n k).1 x = false := by
  cases hq : inMap e x
  · cases hin : inMap (tickN e n k).1 x
    · rfl
    · rw [tickN_sub h.inv n k e h.inv x hin] at hq; cases hq
  · obtain ⟨p, hp, hx⟩ := mem_getElem? (cancelled_in_tickStart h hc hq)
    have := tickStart_hot_length h.inv
    exact tickN_drops_cancelled_start h.inv n hn k p x hx hc (by omega)

/-- a cross-thread wake-up is not lost: a live queued task whose SCHEDULED bit is set is polled within
`k` ticks as soon as `k * n ≥ |hot| + |sync|` -/
theorem tickN_polls_scheduled {e : Exec} (h : InvB e) (n : Nat) (hn : 0 < n) (k : Nat) {x : Nat} {t : TaskSt}
    (hg : e.get? x = some t) (hs : t.word.scheduled = true) (hl : t.word.notCancelled = true)
    (hq : inMap e x = true) (hk : e.hot.length + e.sync.length ≤ k * n) : x ∈ (tickN e n k).2 := by
  obtain ⟨p, hp, hx⟩ := mem_getElem? (scheduled_in_tickStart h hg hs hq)
  have := tickStart_hot_length h.inv
  exact tickN_polls_live_start h.inv n hn k p x hx ⟨t, hg, hl⟩ (by omega)

end Compio.Executor
