/-
Preservation of the invariant `Inv` (Compio.Lemmas.Wake) by every step of the wake-up model.
-/
import Compio.Lemmas.Wake

namespace Compio.Wake
open Compio.TaskWord Compio.Gen

macro "rt_step" h:ident : tactic => `(tactic| (
  unfold rtStep at $h:ident
  try unfold startLocal at $h:ident
  try unfold drainDone at $h:ident
  try unfold afterTick at $h:ident
  repeat' split at $h:ident
  all_goals (try simp only [Option.some.injEq, reduceCtorEq] at $h:ident)
  all_goals (try subst $h:ident)
  all_goals (try simp only [subPending, dropTask, startPoll, kWrite, doArm, doSubmit])))

theorem mem_hotPush {d : Nat → Bool} {hot : List Nat} {t x : Nat} :
    x ∈ hotPush d hot t ↔ x ∈ hot ∨ (x = t ∧ d t = false) := by
  unfold hotPush
  by_cases h1 : d t = true
  · simp [h1]
  · have h1' : d t = false := by simpa using h1
    by_cases h2 : t ∈ hot
    · simp [h1', h2]
      rintro rfl; exact h2
    · simp [h1', h2]

theorem hotLive_push {d : Nat → Bool} {hot : List Nat} (x : Nat) (h : ∀ t, t ∈ hot → d t = false) :
    ∀ t, t ∈ hotPush d hot x → d t = false := by
  intro t ht
  rcases mem_hotPush.1 ht with h1 | ⟨rfl, h1⟩
  · exact h t h1
  · exact h1

theorem nodup_hotPush {d : Nat → Bool} {hot : List Nat} (x : Nat) (h : hot.Nodup) : (hotPush d hot x).Nodup := by
  unfold hotPush
  split
  · exact h
  · rename_i hc
    simp only [Bool.or_eq_true, List.contains_eq_mem, decide_eq_true_eq, not_or] at hc
    exact List.nodup_append.2 ⟨h, by simp, by
      intro a ha b hb; simp at hb; subst hb; intro e; subst e; exact hc.2 ha⟩

theorem hotLive_erase_upd {d : Nat → Bool} {hot : List Nat} (x : Nat) (hn : hot.Nodup)
    (h : ∀ t, t ∈ hot → d t = false) : ∀ t, t ∈ hot.erase x → upd d x true t = false := by
  intro t ht
  rw [hn.mem_erase_iff] at ht
  rw [upd_other _ _ _ _ ht.1]
  exact h t ht.2

theorem hotLive_erase {d : Nat → Bool} {hot : List Nat} (x : Nat) (h : ∀ t, t ∈ hot → d t = false) :
    ∀ t, t ∈ hot.erase x → d t = false :=
  fun t ht => h t (List.mem_of_mem_erase ht)


set_option maxRecDepth 4000 in
theorem g1_rt (s s' : State) (e : RtEv) (h : Inv s) (hs : rtStep s e = some s') :
    s'.flag ≤ 3 ∧ s'.uflow = false ∧ s'.pending = s'.sync.length + cnt s' resvP + drained s'.rt ∧
    (∀ t, t ∈ s'.hot → s'.dropped t = false) ∧
    (∀ t, TaskState.isCompleted (s'.word t) = true → s'.dropped t = true) ∧
    s'.hot.Nodup ∧ (∀ w, prePush (s'.wk w).pc = true → (s'.wk w).pushed = false) ∧
    (waitPcs s'.rt = true → s'.hot ≠ [] → s'.zero = true) ∧ (extPc s'.rt = true → s'.cfg.loop = .ext) := by
  have hx := h.extOnly
  have hn := h.hotNodup
  have hnp := h.notPushed
  have hp := h.pend
  have hu := h.noUflow
  have hf := h.flagLe
  have hh := h.hotLive
  have hc := h.compl
  have hz := h.zeroHot
  rt_step hs
  all_goals (refine ⟨?_, ?_, ?_, ?_, ?_, ?_, ?_, ?_, ?_⟩)
  all_goals (try (first | exact hf | exact hu | exact hh | exact hc | exact wake_le hf | (simp only [reset_fst]; omega) | (simp only [set_eq]; omega) | exact hotLive_push _ hh | exact hotLive_erase _ hh | exact hn | exact hnp | exact nodup_hotPush _ hn | exact hn.erase _ | exact (hn.erase _).erase _ | exact hotLive_erase_upd _ hn hh | exact hotLive_erase_upd _ (hn.erase _) (hotLive_erase _ hh)))
  all_goals (try (simp_all [cnt, drained, waitPcs, extPc, upd]; done))
  all_goals (try (simp_all [cnt, drained, waitPcs, upd]; omega))
  all_goals (try (intro t; simp only [upd]; split <;> simp_all [compl_unsched, compl_dropped]; done))
  all_goals (try simp_all [cnt, drained, waitPcs, upd])

@[simp] theorem kWrite_wk (s : State) : (kWrite s).wk = s.wk := rfl

macro "w_step" h:ident : tactic => `(tactic| (
  unfold wStep at $h:ident
  try unfold mainDone at $h:ident
  try simp only [kWrite_wk] at $h:ident
  repeat' split at $h:ident
  all_goals (try simp only [Option.some.injEq, reduceCtorEq] at $h:ident)
  all_goals (try subst $h:ident)
  all_goals (try simp only [setWk, subPending, kWrite])))

set_option maxRecDepth 4000 in
theorem g1_w (s s' : State) (w : Nat) (hw : w < s.cfg.nw) (h : Inv s) (hs : wStep s w = some s') :
    s'.flag ≤ 3 ∧ s'.uflow = false ∧ s'.pending = s'.sync.length + cnt s' resvP + drained s'.rt ∧
    (∀ t, t ∈ s'.hot → s'.dropped t = false) ∧
    (∀ t, TaskState.isCompleted (s'.word t) = true → s'.dropped t = true) ∧
    s'.hot.Nodup ∧ (∀ w, prePush (s'.wk w).pc = true → (s'.wk w).pushed = false) ∧
    (waitPcs s'.rt = true → s'.hot ≠ [] → s'.zero = true) ∧ (extPc s'.rt = true → s'.cfg.loop = .ext) := by
  have hx := h.extOnly
  have hp := h.pend
  have hu := h.noUflow
  have hf := h.flagLe
  have hh := h.hotLive
  have hc := h.compl
  have hz := h.zeroHot
  have hn := h.hotNodup
  have hnp := h.notPushed
  have hnpw := h.notPushed w
  simp only [cnt, cntUpTo_split _ _ _ _ hw] at hp
  w_step hs
  all_goals (refine ⟨?_, ?_, ?_, ?_, ?_, ?_, ?_, ?_, ?_⟩)
  all_goals (try (first | exact hf | exact hu | exact hh | exact hc | exact wake_le hf | exact hn | exact hz | exact hx))
  all_goals (try (intro t; simp only [upd]; split <;> simp_all [compl_start, compl_finish]; done))
  all_goals (try (intro w1; by_cases h1 : w1 = w <;> simp_all [upd, prePush]; done))
  all_goals (try (try simp only [cnt, cntUpTo_split _ _ _ _ hw, cntExcept_upd, upd_same]; simp_all [resvP, isTaskKind, prePush]; done))
  all_goals (try (try simp only [cnt, cntUpTo_split _ _ _ _ hw, cntExcept_upd, upd_same]; simp_all [resvP, isTaskKind, prePush]; omega))
  all_goals (try (try simp only [cnt, cntUpTo_split _ _ _ _ hw, cntExcept_upd, upd_same]; simp_all [resvP, isTaskKind, prePush]))
  all_goals (try (
    have hr : resvP (s.wk w) = true := by simp_all [resvP, isTaskKind, prePush]
    simp only [hr, if_true] at hp
    simp only [hu, Bool.false_or, decide_eq_false_iff_not]
    omega))

set_option maxRecDepth 4000 in
theorem g2_rt (s s' : State) (e : RtEv) (h : Inv s) (hs : rtStep s e = some s') :
    (∀ t, TaskState.isScheduled (s'.word t) = true → s'.dropped t = false →
      TaskState.isCancelled (s'.word t) = false → t ∈ s'.sync ∨ t ∈ s'.hot ∨ 0 < cnt s' (holdsP t)) ∧
    (∀ w t, (s'.wk w).kind = .task t → inCall (s'.wk w) = true → (s'.wk w).seq0 ≤ s'.pollSeq t) ∧
    (∀ w t, (s'.wk w).kind = .task t → inCall (s'.wk w) = true → (s'.wk w).seq0 = s'.pollSeq t →
      TaskState.isScheduled (s'.word t) = true) ∧
    (∀ t, s'.woken t = true → TaskState.isScheduled (s'.word t) = true) := by
  have h1 := h.sched
  have h2 := h.seqLe
  have h3 := h.unserved
  have h4 := h.wokenSched
  rt_step hs
  all_goals (refine ⟨?_, ?_, ?_, ?_⟩)
  all_goals (try (first | exact h1 | exact h2 | exact h3 | exact h4))
  all_goals (try (simp only [cnt, upd] at *; grind [mem_hotPush, sched_unsched, sched_dropped, sched_finrun, List.mem_erase_of_ne]))


set_option maxRecDepth 4000 in
theorem g2_w (s s' : State) (w : Nat) (hw : w < s.cfg.nw) (h : Inv s) (hs : wStep s w = some s') :
    (∀ t, TaskState.isScheduled (s'.word t) = true → s'.dropped t = false →
      TaskState.isCancelled (s'.word t) = false → t ∈ s'.sync ∨ t ∈ s'.hot ∨ 0 < cnt s' (holdsP t)) ∧
    (∀ w t, (s'.wk w).kind = .task t → inCall (s'.wk w) = true → (s'.wk w).seq0 ≤ s'.pollSeq t) ∧
    (∀ w t, (s'.wk w).kind = .task t → inCall (s'.wk w) = true → (s'.wk w).seq0 = s'.pollSeq t →
      TaskState.isScheduled (s'.word t) = true) ∧
    (∀ t, s'.woken t = true → TaskState.isScheduled (s'.word t) = true) := by
  have h1 := h.sched
  have h2 := h.seqLe
  have h3 := h.unserved
  have h4 := h.wokenSched
  have h5 := h.compl
  have hnpw := h.notPushed w
  simp only [cnt, cntUpTo_split _ _ _ _ hw] at h1
  w_step hs
  all_goals (refine ⟨?_, ?_, ?_, ?_⟩)
  all_goals (try (first | exact h2 | exact h3 | exact h4))
  all_goals (try (simp only [cnt, cntUpTo_split _ _ _ _ hw, cntExcept_upd, upd_same, upd, holdsP, inCall, prePush] at *; grind [sched_start, sched_finish, canc_start, canc_finish, compl_start]))

set_option maxRecDepth 4000 in
set_option maxHeartbeats 4000000 in
theorem g3_rt (s s' : State) (e : RtEv) (h : Inv s) (hs : rtStep s e = some s') :
    (s'.sync ≠ [] → cov s' = true ∨ 0 < cnt s' aboutP) ∧
    (∀ w, (s'.wk w).kind = .main → inflightP (s'.wk w) = true → (s'.wk w).seq0 ≤ s'.mainSeq) ∧
    (∀ w, (s'.wk w).kind = .main → inflightP (s'.wk w) = true → (s'.wk w).seq0 = s'.mainSeq → covM s' = true) ∧
    (s'.mainWoken = true → covM s' = true) := by
  have h1 := h.covSync
  have h2 := h.mseqLe
  have h3 := h.covMainW
  have h4 := h.covMain
  have hp := h.pend
  have hf := h.flagLe
  have hwn := wake_nbit hf
  have hrs := reset_snd hf
  have hx := h.extOnly
  have hsync : s.pending = 0 → s.sync = [] := by
    intro h0
    have : s.sync.length = 0 := by omega
    exact List.eq_nil_of_length_eq_zero this
  rt_step hs
  all_goals (refine ⟨?_, ?_, ?_, ?_⟩)
  all_goals (try (first | exact h1 | exact h2 | exact h3 | exact h4))
  all_goals (try (simp only [cnt, cov, covM, covOf, phase, mphase, retPhase, backPhase, reset_fst, set_eq, drained, extPc] at *; grind [nbit]))

set_option maxRecDepth 4000 in
set_option maxHeartbeats 4000000 in
theorem g3_w (s s' : State) (w : Nat) (hw : w < s.cfg.nw) (hrw : s.cfg.rewake = true) (h : Inv s)
    (hs : wStep s w = some s') :
    (s'.sync ≠ [] → cov s' = true ∨ 0 < cnt s' aboutP) ∧
    (∀ w, (s'.wk w).kind = .main → inflightP (s'.wk w) = true → (s'.wk w).seq0 ≤ s'.mainSeq) ∧
    (∀ w, (s'.wk w).kind = .main → inflightP (s'.wk w) = true → (s'.wk w).seq0 = s'.mainSeq → covM s' = true) ∧
    (s'.mainWoken = true → covM s' = true) := by
  have h1 := h.covSync
  have h2 := h.mseqLe
  have h3 := h.covMainW
  have h4 := h.covMain
  have hf := h.flagLe
  have hwn := wake_nbit hf
  have hnpw := h.notPushed w
  have h2w := h.mseqLe w
  have h3w := h.covMainW w
  simp only [cnt, cntUpTo_split _ _ _ _ hw] at h1
  w_step hs
  all_goals (refine ⟨?_, ?_, ?_, ?_⟩)
  all_goals (try (first | exact h2 | exact h3 | exact h4))
  all_goals (try (simp only [cnt, cntUpTo_split _ _ _ _ hw, cntExcept_upd, upd_same, upd, aboutP, inflightP, prePush, cov, covM, covOf] at *; grind [nbit]))

def G4 (s' : State) : Prop :=
    (s'.cfg.drv = .iour → s'.rt ≠ .clear → s'.arm = .live → 0 < s'.efd → s'.cq = true) ∧
    (s'.cfg.drv = .iour → s'.rt = .wait → s'.arm = .live) ∧
    (s'.cfg.drv = .iour → s'.rt = .submit → s'.arm ≠ .needPush) ∧
    (s'.cfg.drv = .iour → (s'.rt = .xwait ∨ s'.rt = .xreset) → s'.arm = .live) ∧
    (s'.cfg.drv = .iour → s'.rt = .xsubmit → s'.arm ≠ .needPush) ∧
    ((phase s'.cfg.loop s'.rt = .sleep ∨ phase s'.cfg.loop s'.rt = .xsleep) → s'.flag ≤ 1) ∧
    (phase s'.cfg.loop s'.rt = .sleep → nbit s'.flag = true → 0 < cnt s' inflightP ∨ 0 < s'.efd) ∧
    (phase s'.cfg.loop s'.rt = .xsleep → nbit s'.flag = true → 0 < cnt s' inflightP ∨ fdReadable s' = true) ∧
    (s'.pnot = true → 0 < s'.efd ∨ 0 < cnt s' writeP ∨ s'.rt = .pswap ∨ isLwrite s'.rt = true) ∧
    ((s'.rt = .consume ∨ s'.rt = .clear) → s'.cfg.drv = .iour) ∧
    (s'.pnot = true → s'.cfg.drv = .poll) ∧
    (∀ w, (s'.wk w).pc = .cas → s'.cfg.drv = .poll) ∧
    (isLcas s'.rt = true → s'.cfg.drv = .poll)

theorem G4_of_inv {s : State} (h : Inv s) : G4 s :=
  ⟨h.kq, h.armW, h.armS, h.armXW, h.armXS, h.sleepFlag, h.sig, h.xsig, h.pn, h.iourPc, h.pnotPoll, h.casPoll, h.lcasPoll⟩

set_option maxRecDepth 4000 in
set_option maxHeartbeats 4000000 in
theorem g4_rt (s s' : State) (e : RtEv) (hfa : s.cfg.flushArms = true) (h : Inv s) (hs : rtStep s e = some s') :
    G4 s' := by
  have h1 := h.kq
  have h2 := h.armW
  have h3 := h.armS
  have h4 := h.armXW
  have h5 := h.armXS
  have h6 := h.sleepFlag
  have h7 := h.sig
  have h8 := h.xsig
  have h9 := h.pn
  have h10 := h.iourPc
  have h11 := h.pnotPoll
  have h12 := h.casPoll
  have h13 := h.lcasPoll
  have hf := h.flagLe
  have hx := h.extOnly
  have hwn := wake_nbit hf
  have hrs := reset_snd hf
  unfold G4
  rt_step hs
  all_goals (refine ⟨?_, ?_, ?_, ?_, ?_, ?_, ?_, ?_, ?_, ?_, ?_, ?_, ?_⟩)
  all_goals (try (first | exact h1 | exact h2 | exact h3 | exact h4 | exact h5 | exact h6 | exact h7 | exact h8 | exact h9 | exact h10 | exact h11 | exact h12 | exact h13))
  all_goals (try (intro hd _; simp only [submits, hd]; cases ha : s.arm <;> simp_all; done))
  all_goals (try (simp only [cnt, phase, retPhase, backPhase, reset_fst, set_eq, extPc, isLwrite, isLcas, fdReadable, posts, submits, armAfter] at *; grind [nbit]))

theorem cntExcept_mono (n : Nat) (f : Nat → Wk) (p q : Wk → Bool) (w : Nat)
    (hpq : ∀ k, p k = true → q k = true) : cntExcept n f p w ≤ cntExcept n f q w := by
  induction n with
  | zero => exact Nat.le_refl _
  | succ n ih =>
    simp only [cntExcept]
    by_cases h : n = w
    · simp [h]; simpa [h] using ih
    · by_cases hp : p (f n) = true
      · simp [h, hp, hpq _ hp]; omega
      · simp [h, hp]; split <;> omega

theorem backPhase_cases (b : Back) : backPhase b = .pre ∨ backPhase b = .post := by
  cases b <;> simp [backPhase]

theorem retPhase_cases (r : Ret) : retPhase r = .pre ∨ retPhase r = .post := by
  cases r with
  | tick => simp [retPhase]
  | loc t b => simpa [retPhase] using backPhase_cases b

theorem sleep_pc {l : Loop} {pc : RtPc} (h : phase l pc = .sleep) : pc = .arm ∨ pc = .submit ∨ pc = .wait := by
  cases pc <;> simp only [phase] at h <;> first
    | (simp; done)
    | (exfalso; rename_i b; rcases backPhase_cases b with hb | hb <;> rw [hb] at h <;> cases h)
    | (exfalso; rename_i r; rcases retPhase_cases r with hb | hb <;> rw [hb] at h <;> cases h)
    | (exfalso; rename_i r d; rcases retPhase_cases r with hb | hb <;> rw [hb] at h <;> cases h)
    | (exfalso; cases l <;> cases h)
    | (exfalso; cases h)

theorem xsleep_pc {l : Loop} {pc : RtPc} (h : phase l pc = .xsleep) : pc = .xwait := by
  cases pc <;> simp only [phase] at h <;> first
    | rfl
    | (exfalso; rename_i b; rcases backPhase_cases b with hb | hb <;> rw [hb] at h <;> cases h)
    | (exfalso; rename_i r; rcases retPhase_cases r with hb | hb <;> rw [hb] at h <;> cases h)
    | (exfalso; rename_i r d; rcases retPhase_cases r with hb | hb <;> rw [hb] at h <;> cases h)
    | (exfalso; cases l <;> cases h)
    | (exfalso; cases h)

set_option maxRecDepth 4000 in
set_option maxHeartbeats 4000000 in
theorem g4_w (s s' : State) (w : Nat) (hw : w < s.cfg.nw) (hfa : s.cfg.flushArms = true) (h : Inv s)
    (hs : wStep s w = some s') : G4 s' := by
  have h1 := h.kq
  have h2 := h.armW
  have h3 := h.armS
  have h4 := h.armXW
  have h5 := h.armXS
  have h6 := h.sleepFlag
  have h7 := h.sig
  have h8 := h.xsig
  have h9 := h.pn
  have h10 := h.iourPc
  have h11 := h.pnotPoll
  have h12 := h.casPoll
  have h13 := h.lcasPoll
  have h12w := h.casPoll w
  have hf := h.flagLe
  have hx := h.extOnly
  have hwn := wake_nbit hf
  have hwr := wake_ret hf
  have hw1 : s.flag ≤ 1 → (AwakeFlag.wake s.flag).1 = 1 := wake_le1
  simp only [cnt, cntUpTo_split _ _ _ _ hw] at h7 h8 h9
  have hmono := cntExcept_mono s.cfg.nw s.wk writeP inflightP w (by intro k hk; simp only [writeP, inflightP] at *; simp [hk])
  have hsl := @sleep_pc s.cfg.loop s.rt
  have hxsl := @xsleep_pc s.cfg.loop s.rt
  unfold G4
  w_step hs
  all_goals (refine ⟨?_, ?_, ?_, ?_, ?_, ?_, ?_, ?_, ?_, ?_, ?_, ?_, ?_⟩)
  all_goals (try (first | exact h1 | exact h2 | exact h3 | exact h4 | exact h5 | exact h6 | exact h10 | exact h11 | exact h12 | exact h13))
  all_goals (try (simp only [cnt, cntUpTo_split _ _ _ _ hw, cntExcept_upd, upd_same, upd, inflightP, writeP, fdReadable, posts] at *; grind [nbit, isLwrite]))

theorem inv_rt (s s' : State) (e : RtEv) (hfa : s.cfg.flushArms = true) (h : Inv s) (hs : rtStep s e = some s') :
    Inv s' := by
  obtain ⟨a1, a2, a3, a4, a5, a6, a7, a8, a9⟩ := g1_rt s s' e h hs
  obtain ⟨b1, b2, b3, b4⟩ := g2_rt s s' e h hs
  obtain ⟨c1, c2, c3, c4⟩ := g3_rt s s' e h hs
  obtain ⟨d1, d2, d3, d4, d5, d6, d7, d8, d9, d10, d11, d12, d13⟩ := g4_rt s s' e hfa h hs
  exact { flagLe := a1, noUflow := a2, pend := a3, hotLive := a4, compl := a5, hotNodup := a6, notPushed := a7,
          zeroHot := a8, extOnly := a9, sched := b1, seqLe := b2, unserved := b3, wokenSched := b4,
          covSync := c1, mseqLe := c2, covMainW := c3, covMain := c4,
          kq := d1, armW := d2, armS := d3, armXW := d4, armXS := d5, sleepFlag := d6, sig := d7, xsig := d8, pn := d9,
          iourPc := d10, pnotPoll := d11, casPoll := d12, lcasPoll := d13 }

theorem inv_w (s s' : State) (w : Nat) (hw : w < s.cfg.nw) (hfa : s.cfg.flushArms = true) (hrw : s.cfg.rewake = true)
    (h : Inv s) (hs : wStep s w = some s') : Inv s' := by
  obtain ⟨a1, a2, a3, a4, a5, a6, a7, a8, a9⟩ := g1_w s s' w hw h hs
  obtain ⟨b1, b2, b3, b4⟩ := g2_w s s' w hw h hs
  obtain ⟨c1, c2, c3, c4⟩ := g3_w s s' w hw hrw h hs
  obtain ⟨d1, d2, d3, d4, d5, d6, d7, d8, d9, d10, d11, d12, d13⟩ := g4_w s s' w hw hfa h hs
  exact { flagLe := a1, noUflow := a2, pend := a3, hotLive := a4, compl := a5, hotNodup := a6, notPushed := a7,
          zeroHot := a8, extOnly := a9, sched := b1, seqLe := b2, unserved := b3, wokenSched := b4,
          covSync := c1, mseqLe := c2, covMainW := c3, covMain := c4,
          kq := d1, armW := d2, armS := d3, armXW := d4, armXS := d5, sleepFlag := d6, sig := d7, xsig := d8, pn := d9,
          iourPc := d10, pnotPoll := d11, casPoll := d12, lcasPoll := d13 }

set_option maxRecDepth 4000 in
set_option maxHeartbeats 4000000 in
theorem inv_wStart (s : State) (w : Nat) (k : Kind) (hw : w < s.cfg.nw) (hidle : (s.wk w).pc = .idle) (h : Inv s) :
    Inv (setWk s w { pc := match k with | .main => .dwake | .task _ => .sched,
                     kind := k, notified := false, pushed := false, seq0 := 0 }) := by
  have hh := h
  obtain ⟨a1, a2, a3, a4, a5, a6, a7, a8, a9, b1, b2, b3, b4, c1, c2, c3, c4, d1, d2, d3, d4, d5, d6, d7, d8, d9, d10, d11, d12, d13⟩ := hh
  simp only [cnt, cntUpTo_split _ _ _ _ hw] at *
  cases k <;> constructor
  all_goals (try (simp only [setWk, cnt, cntUpTo_split _ _ _ _ hw, cntExcept_upd, upd_same, upd, resvP, holdsP, aboutP, inflightP, writeP, isTaskKind, prePush, inCall, cov, covM, covOf, fdReadable] at *; grind))

set_option maxRecDepth 4000 in
set_option maxHeartbeats 4000000 in
theorem inv_cancel (s : State) (t : Nat) (h : Inv s) :
    Inv { s with word := upd s.word t (TaskState.setCancelled (s.word t)) } := by
  obtain ⟨a1, a2, a3, a4, a5, a6, a7, a8, a9, b1, b2, b3, b4, c1, c2, c3, c4, d1, d2, d3, d4, d5, d6, d7, d8, d9, d10, d11, d12, d13⟩ := h
  constructor
  all_goals (first | assumption | (simp only [cnt, upd, cov, covM, fdReadable] at *; grind [sched_cancel, canc_cancel, compl_cancel]))


end Compio.Wake
