/-
Preservation of the invariant `Inv` (Compio.Lemmas.Wake) by every step of the wake-up model.
-/
import Compio.Lemmas.Wake

namespace Compio.Wake
open Compio.TaskWord Compio.Gen

macro "rt_step" h:ident : tactic => `(tactic| (
  unfold rtStep at $h:ident
  try unfold startLocal at $h:ident
  try unfold drainDone at $h:ident
  try unfold afterTick at $h:ident
  repeat' split at $h:ident
  all_goals (try simp only [Option.some.injEq, reduceCtorEq] at $h:ident)
  all_goals (try subst $h:ident)
  all_goals (try simp only [subPending, dropTask, startPoll, kWrite, doArm, doSubmit])))

theorem mem_hotPush {d : Nat → Bool} {hot : List Nat} {t x : Nat} :
    x ∈ hotPush d hot t ↔ x ∈ hot ∨ (x = t ∧ d t = false) := by
  unfold hotPush
  by_cases h1 : d t = true
  · simp [h1]
  · have h1' : d t = false := by simpa using h1
    by_cases h2 : t ∈ hot
    · simp [h1', h2]
      rintro rfl; exact h2
    · simp [h1', h2]

theorem hotLive_push {d : Nat → Bool} {hot : List Nat} (x : Nat) (h : ∀ t, t ∈ hot → d t = false) :
    ∀ t, t ∈ hotPush d hot x → d t = false := by
  intro t ht
  rcases mem_hotPush.1 ht with h1 | ⟨rfl, h1⟩
  · exact h t h1
  · exact h1

theorem nodup_hotPush {d : Nat → Bool} {hot : List Nat} (x : Nat) (h : hot.Nodup) : (hotPush d hot x).Nodup := by
  unfold hotPush
  split
  · exact h
  · rename_i hc
    simp only [Bool.or_eq_true, List.contains_eq_mem, decide_eq_true_eq, not_or] at hc
    exact List.nodup_append.2 ⟨h, by simp, by
      intro a ha b hb; simp at hb; subst hb; intro e; subst e; exact hc.2 ha⟩

theorem hotLive_erase_upd {d : Nat → Bool} {hot : List Nat} (x : Nat) (hn : hot.Nodup)
    (h : ∀ t, t ∈ hot → d t = false) : ∀ t, t ∈ hot.erase x → upd d x true t = false := by
  intro t ht
  rw [hn.mem_erase_iff] at ht
  rw [upd_other _ _ _ _ ht.1]
  exact h t ht.2

theorem hotLive_erase {d : Nat → Bool} {hot : List Nat} (x : Nat) (h : ∀ t, t ∈ hot → d t = false) :
    ∀ t, t ∈ hot.erase x → d t = false :=
  fun t ht => h t (List.mem_of_mem_erase ht)


set_option maxRecDepth 4000 in
theorem g1_rt (s s' : State) (e : RtEv) (h : Inv s) (hs : rtStep s e = some s') :
    s'.flag ≤ 3 ∧ s'.uflow = false ∧ s'.pending = s'.sync.length + cnt s' resvP + drained s'.rt ∧
    (∀ t, t ∈ s'.hot → s'.dropped t = false) ∧
    (∀ t, TaskState.isCompleted (s'.word t) = true → s'.dropped t = true) ∧
    s'.hot.Nodup ∧ (∀ w, prePush (s'.wk w).pc = true → (s'.wk w).pushed = false) ∧
    (waitPcs s'.rt = true → s'.hot ≠ [] → s'.zero = true) := by
  have hn := h.hotNodup
  have hnp := h.notPushed
  have hp := h.pend
  have hu := h.noUflow
  have hf := h.flagLe
  have hh := h.hotLive
  have hc := h.compl
  have hz := h.zeroHot
  rt_step hs
  all_goals (refine ⟨?_, ?_, ?_, ?_, ?_, ?_, ?_, ?_⟩)
  all_goals (try (first | exact hf | exact hu | exact hh | exact hc | exact wake_le hf | (simp only [reset_fst]; omega) | (simp only [set_eq]; omega) | exact hotLive_push _ hh | exact hotLive_erase _ hh | exact hn | exact hnp | exact nodup_hotPush _ hn | exact hn.erase _ | exact (hn.erase _).erase _ | exact hotLive_erase_upd _ hn hh | exact hotLive_erase_upd _ (hn.erase _) (hotLive_erase _ hh)))
  all_goals (try (simp_all [cnt, drained, waitPcs, upd]; done))
  all_goals (try (simp_all [cnt, drained, waitPcs, upd]; omega))
  all_goals (try (intro t; simp only [upd]; split <;> simp_all [compl_unsched, compl_dropped]; done))
  all_goals (try simp_all [cnt, drained, waitPcs, upd])

@[simp] theorem kWrite_wk (s : State) : (kWrite s).wk = s.wk := rfl

macro "w_step" h:ident : tactic => `(tactic| (
  unfold wStep at $h:ident
  try unfold mainDone at $h:ident
  try simp only [kWrite_wk] at $h:ident
  repeat' split at $h:ident
  all_goals (try simp only [Option.some.injEq, reduceCtorEq] at $h:ident)
  all_goals (try subst $h:ident)
  all_goals (try simp only [setWk, subPending, kWrite])))

set_option maxRecDepth 4000 in
theorem g1_w (s s' : State) (w : Nat) (hw : w < s.cfg.nw) (h : Inv s) (hs : wStep s w = some s') :
    s'.flag ≤ 3 ∧ s'.uflow = false ∧ s'.pending = s'.sync.length + cnt s' resvP + drained s'.rt ∧
    (∀ t, t ∈ s'.hot → s'.dropped t = false) ∧
    (∀ t, TaskState.isCompleted (s'.word t) = true → s'.dropped t = true) ∧
    s'.hot.Nodup ∧ (∀ w, prePush (s'.wk w).pc = true → (s'.wk w).pushed = false) ∧
    (waitPcs s'.rt = true → s'.hot ≠ [] → s'.zero = true) := by
  have hp := h.pend
  have hu := h.noUflow
  have hf := h.flagLe
  have hh := h.hotLive
  have hc := h.compl
  have hz := h.zeroHot
  have hn := h.hotNodup
  have hnp := h.notPushed
  have hnpw := h.notPushed w
  simp only [cnt, cntUpTo_split _ _ _ _ hw] at hp
  w_step hs
  all_goals (refine ⟨?_, ?_, ?_, ?_, ?_, ?_, ?_, ?_⟩)
  all_goals (try (first | exact hf | exact hu | exact hh | exact hc | exact wake_le hf | exact hn | exact hz))
  all_goals (try (intro t; simp only [upd]; split <;> simp_all [compl_start, compl_finish]; done))
  all_goals (try (intro w1; by_cases h1 : w1 = w <;> simp_all [upd, prePush]; done))
  all_goals (try (try simp only [cnt, cntUpTo_split _ _ _ _ hw, cntExcept_upd, upd_same]; simp_all [resvP, isTaskKind, prePush]; done))
  all_goals (try (try simp only [cnt, cntUpTo_split _ _ _ _ hw, cntExcept_upd, upd_same]; simp_all [resvP, isTaskKind, prePush]; omega))
  all_goals (try (try simp only [cnt, cntUpTo_split _ _ _ _ hw, cntExcept_upd, upd_same]; simp_all [resvP, isTaskKind, prePush]))
  all_goals (try (
    have hr : resvP (s.wk w) = true := by simp_all [resvP, isTaskKind, prePush]
    simp only [hr, if_true] at hp
    simp only [hu, Bool.false_or, decide_eq_false_iff_not]
    omega))

end Compio.Wake
