/-
Preservation of the invariant `Inv` (Compio.Lemmas.Wake) by every step of the wake-up model; it holds in every reachable state.
-/
import Compio.Lemmas.WakeInvD

namespace Compio.Wake
open Compio.TaskWord Compio.Gen

theorem inv_rt (s s' : State) (e : RtEv) (hfa : s.cfg.flushArms = true) (h : Inv s) (hs : rtStep s e = some s') :
    Inv s' := by
  obtain ⟨a1, a2, a3, a4, a5, a6, a7, a8, a9⟩ := g1_rt s s' e h hs
  obtain ⟨b1, b2, b3, b4⟩ := g2_rt s s' e h hs
  obtain ⟨c1, c2, c3, c4⟩ := g3_rt s s' e h hs
  obtain ⟨d1, d2, d3, d4, d5, d6, d7, d8, d9, d10, d11, d12, d13, d14⟩ := g4_rt s s' e hfa h hs
  obtain ⟨e1, e2⟩ := g5_rt s s' e h hs
  exact { flagLe := a1, noUflow := a2, pend := a3, hotLive := a4, compl := a5, hotNodup := a6, notPushed := a7,
          zeroHot := a8, extOnly := a9, sched := b1, seqLe := b2, unserved := b3, wokenSched := b4,
          covSync := c1, mseqLe := c2, covMainW := c3, covMain := c4,
          kq := d1, armW := d2, armS := d3, armXW := d4, armXS := d5, sleepFlag := d6, sig := d7, xsig := d8, pn := d9,
          iourPc := d10, pnotPoll := d11, casPoll := d12, lcasPoll := d13, cqLive := d14, nxtHead := e1, nxtNe := e2 }

theorem inv_w (s s' : State) (w : Nat) (hw : w < s.cfg.nw) (hfa : s.cfg.flushArms = true) (hrw : s.cfg.rewake = true)
    (h : Inv s) (hs : wStep s w = some s') : Inv s' := by
  obtain ⟨a1, a2, a3, a4, a5, a6, a7, a8, a9⟩ := g1_w s s' w hw h hs
  obtain ⟨b1, b2, b3, b4⟩ := g2_w s s' w hw h hs
  obtain ⟨c1, c2, c3, c4⟩ := g3_w s s' w hw hrw h hs
  obtain ⟨d1, d2, d3, d4, d5, d6, d7, d8, d9, d10, d11, d12, d13, d14⟩ := g4_w s s' w hw hfa h hs
  obtain ⟨e1, e2⟩ := g5_w s s' w h hs
  exact { flagLe := a1, noUflow := a2, pend := a3, hotLive := a4, compl := a5, hotNodup := a6, notPushed := a7,
          zeroHot := a8, extOnly := a9, sched := b1, seqLe := b2, unserved := b3, wokenSched := b4,
          covSync := c1, mseqLe := c2, covMainW := c3, covMain := c4,
          kq := d1, armW := d2, armS := d3, armXW := d4, armXS := d5, sleepFlag := d6, sig := d7, xsig := d8, pn := d9,
          iourPc := d10, pnotPoll := d11, casPoll := d12, lcasPoll := d13, cqLive := d14, nxtHead := e1, nxtNe := e2 }

set_option maxRecDepth 4000 in
set_option maxHeartbeats 4000000 in
theorem inv_wStart (s : State) (w : Nat) (k : Kind) (hw : w < s.cfg.nw) (hidle : (s.wk w).pc = .idle) (h : Inv s) :
    Inv (setWk s w { pc := match k with | .main => .dwake | .task _ => .sched,
                     kind := k, notified := false, pushed := false, seq0 := 0 }) := by
  have hh := h
  obtain ⟨a1, a2, a3, a4, a5, a6, a7, a8, a9, b1, b2, b3, b4, c1, c2, c3, c4, d1, d2, d3, d4, d5, d6, d7, d8, d9, d10, d11, d12, d13, d14, e1, e2⟩ := hh
  simp only [cnt, cntUpTo_split _ _ _ _ hw] at *
  cases k <;> constructor
  all_goals (try (simp only [setWk, cnt, cntUpTo_split _ _ _ _ hw, cntExcept_upd, upd_same, upd, resvP, holdsP, aboutP, inflightP, writeP, isTaskKind, prePush, inCall, cov, covM, covOf, fdReadable] at *; grind))

set_option maxRecDepth 4000 in
set_option maxHeartbeats 4000000 in
theorem inv_cancel (s : State) (t : Nat) (h : Inv s) :
    Inv { s with word := upd s.word t (TaskState.setCancelled (s.word t)) } := by
  obtain ⟨a1, a2, a3, a4, a5, a6, a7, a8, a9, b1, b2, b3, b4, c1, c2, c3, c4, d1, d2, d3, d4, d5, d6, d7, d8, d9, d10, d11, d12, d13, d14, e1, e2⟩ := h
  constructor
  all_goals (first | assumption | (simp only [cnt, upd, cov, covM, fdReadable] at *; grind [sched_cancel, canc_cancel, compl_cancel]))


theorem cntUpTo_const (n : Nat) (k : Wk) (p : Wk → Bool) (hp : p k = false) : cntUpTo n (fun _ => k) p = 0 := by
  induction n with
  | zero => rfl
  | succ n ih => simp [cntUpTo, ih, hp]

theorem inv_init (cfg : Cfg) : Inv (init cfg) := by
  constructor
  all_goals (simp only [init, cnt, new_eq, cov, covM, covOf, phase, mphase, fdReadable, drained, waitPcs, extPc, isLcas, isLwrite, Wk.init, nxtOf, curOf, backOf] at *)
  all_goals (try (first | omega | (intros; simp_all [sched_new, compl_new, canc_new, nbit, inCall, prePush, inflightP]; done)))
  all_goals (try (rw [cntUpTo_const _ _ _ (by rfl)]))
  all_goals simp

theorem rtStep_cfg {s s' : State} {e : RtEv} (hs : rtStep s e = some s') : s'.cfg = s.cfg := by
  rt_step hs
  all_goals rfl

theorem wStep_cfg {s s' : State} {w : Nat} (hs : wStep s w = some s') : s'.cfg = s.cfg := by
  w_step hs
  all_goals rfl

theorem step_cfg {s s' : State} {ev : Event} (hs : step s ev = some s') : s'.cfg = s.cfg := by
  cases ev with
  | rt e => exact rtStep_cfg hs
  | wStart w k =>
    simp only [step] at hs
    split at hs
    · simp only [Option.some.injEq] at hs; subst hs; rfl
    · cases hs
  | w w =>
    simp only [step] at hs
    split at hs
    · exact wStep_cfg hs
    · cases hs
  | cancel t => simp only [step, Option.some.injEq] at hs; subst hs; rfl

theorem inv_step {s s' : State} {ev : Event} (hfa : s.cfg.flushArms = true) (hrw : s.cfg.rewake = true)
    (h : Inv s) (hs : step s ev = some s') : Inv s' := by
  cases ev with
  | rt e => exact inv_rt s s' e hfa h hs
  | wStart w k =>
    simp only [step] at hs
    split at hs
    · rename_i hc
      simp only [Bool.and_eq_true, decide_eq_true_eq, beq_iff_eq] at hc
      simp only [Option.some.injEq] at hs; subst hs
      exact inv_wStart s w k hc.1 hc.2 h
    · cases hs
  | w w =>
    simp only [step] at hs
    split at hs
    · rename_i hc
      exact inv_w s s' w (by simpa using hc) hfa hrw h hs
    · cases hs
  | cancel t =>
    simp only [step, Option.some.injEq] at hs; subst hs
    exact inv_cancel s t h

theorem run_cfg {s s' : State} {evs : List Event} (hs : run s evs = some s') : s'.cfg = s.cfg := by
  induction evs generalizing s with
  | nil => simp only [run, Option.some.injEq] at hs; subst hs; rfl
  | cons e es ih =>
    simp only [run] at hs
    split at hs
    · rename_i s1 h1
      rw [ih hs, step_cfg h1]
    · cases hs

theorem inv_run {s s' : State} {evs : List Event} (hfa : s.cfg.flushArms = true) (hrw : s.cfg.rewake = true)
    (h : Inv s) (hs : run s evs = some s') : Inv s' := by
  induction evs generalizing s with
  | nil => simp only [run, Option.some.injEq] at hs; subst hs; exact h
  | cons e es ih =>
    simp only [run] at hs
    split at hs
    · rename_i s1 h1
      have hc := step_cfg h1
      exact ih (by rw [hc]; exact hfa) (by rw [hc]; exact hrw) (inv_step hfa hrw h h1) hs
    · cases hs

theorem inv_reachable {cfg : Cfg} {s : State} (hfa : cfg.flushArms = true) (hrw : cfg.rewake = true)
    (h : Reachable cfg s) : Inv s := by
  obtain ⟨evs, he⟩ := h
  exact inv_run (s := init cfg) hfa hrw (inv_init cfg) he

end Compio.Wake
