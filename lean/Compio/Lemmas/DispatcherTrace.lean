/-
The driver's canonical scheduler (`Sched`) only ever moves through `step?`: whatever it prints is read off
a state reachable by the schedule it has logged.  (The trace acceptor re-checks its schedule at run time,
see `accepts`.)
-/
import Compio.Lemmas.Dispatcher
import Compio.Model.DispatcherTrace

namespace Compio.Dispatcher

theorem run?_snoc (s : St) (l : List Event) (e : Event) :
    run? s (l ++ [e]) = (run? s l).bind (fun s' => step? s' e) := by
  induction l generalizing s with
  | nil => simp [run?]; cases step? s e <;> rfl
  | cons a l ih =>
    simp only [List.cons_append, run?]
    cases step? s a with
    | none => rfl
    | some s' => exact ih s'

/-- the state of the scheduler is the result of running its log -/
structure Sched.Valid (nw : Nat) (conc : Bool) (d : Sched) : Prop where
  run : d.bad = false → run? (init nw conc) d.log.reverse = some d.s

theorem Sched.Valid.fire_valid {nw : Nat} {conc : Bool} {d : Sched} (h : d.Valid nw conc) (e : Event) :
    (d.fire e).Valid nw conc := by
  unfold Sched.fire
  cases hs : step? d.s e with
  | none => exact ⟨fun hb => by simp at hb⟩
  | some s' =>
    refine ⟨fun hb => ?_⟩
    simp only at hb ⊢
    rw [List.reverse_cons, run?_snoc, h.run hb]
    exact hs

theorem Sched.Valid.settleN_valid {nw : Nat} {conc : Bool} (n : Nat) {d : Sched} (h : d.Valid nw conc) :
    (d.settleN n).Valid nw conc := by
  induction n generalizing d with
  | zero => exact h
  | succ n ih =>
    unfold Sched.settleN
    cases nextInternal d.s with
    | none => exact h
    | some e => exact ih (h.fire_valid e)

theorem Sched.Valid.settle_valid {nw : Nat} {conc : Bool} {d : Sched} (h : d.Valid nw conc) :
    d.settle.Valid nw conc := Sched.Valid.settleN_valid _ h

theorem foldl_valid {α : Type} {nw : Nat} {conc : Bool} (f : Sched → α → Sched)
    (hf : ∀ d a, d.Valid nw conc → (f d a).Valid nw conc) (l : List α) {d : Sched} (h : d.Valid nw conc) :
    (l.foldl f d).Valid nw conc := by
  induction l generalizing d with
  | nil => exact h
  | cons a l ih => exact ih (hf d a h)

theorem Sched.Valid.explode_valid {nw : Nat} {conc : Bool} {d : Sched} (h : d.Valid nw conc) :
    d.explode.Valid nw conc := by
  unfold Sched.explode
  -- the fold runs over the bombs of the initial `d`; every step fires at most two events
  refine foldl_valid _ ?_ _ h
  intro d' t hd'
  cases hst : d'.s.stat t with
  | running w k =>
    simp only []
    by_cases hl : (d'.s.main w).inLoop = true
    · simp only [hl, if_true]; exact (hd'.fire_valid _).fire_valid _
    · simp only [hl]; exact hd'
  | _ => exact hd'

theorem Sched.Valid.settleAllN_valid {nw : Nat} {conc : Bool} (n : Nat) {d : Sched} (h : d.Valid nw conc) :
    (d.settleAllN n).Valid nw conc := by
  induction n generalizing d with
  | zero => exact h
  | succ n ih =>
    unfold Sched.settleAllN
    simp only
    split
    · exact h.settle_valid.explode_valid
    · exact ih h.settle_valid.explode_valid

theorem Sched.Valid.settleAll_valid {nw : Nat} {conc : Bool} {d : Sched} (h : d.Valid nw conc) :
    d.settleAll.Valid nw conc := Sched.Valid.settleAllN_valid _ h

theorem Sched.Valid.joinAll_valid {nw : Nat} {conc : Bool} {d : Sched} (h : d.Valid nw conc) (fb : Bool) :
    (d.joinAll fb).Valid nw conc := by
  unfold Sched.joinAll
  apply Sched.Valid.fire_valid
  refine foldl_valid _ ?_ _ ((h.fire_valid _).fire_valid _).settleAll_valid
  intro d' w hd'
  split
  · exact (hd'.fire_valid _).fire_valid _
  · exact hd'

theorem Sched.init_valid (nw : Nat) (conc : Bool) : Sched.Valid nw conc { s := init nw conc } :=
  ⟨fun _ => rfl⟩

/-- what a valid scheduler state shows is a reachable state: all theorems of Props/C18.lean apply to it -/
theorem Sched.Valid.reachable {nw : Nat} {conc : Bool} {d : Sched} (h : d.Valid nw conc) (hb : d.bad = false) :
    Reachable nw conc d.s := ⟨d.log.reverse, h.run hb⟩

/-- `accept` means: the constructed schedule is accepted by `run?` -/
theorem accepts_sound {nw : Nat} {conc : Bool} {h : List Obs} (ha : accepts nw conc h = true) :
    ∃ s, run? (init nw conc) (witness nw conc h) = some s := by
  simp only [accepts, Bool.and_eq_true] at ha
  exact Option.isSome_iff_exists.mp ha.2

end Compio.Dispatcher
