/-
Helper lemmas for the C06 model (`Compio/Model/SharedFd.lean`): reference counting over the actor
list, the safety invariant `Inv`, and the wake-up invariant `UInv` of the builds where
`Drop for SharedFd` is one step.
-/
import Compio.Model.SharedFd

namespace Compio.SharedFd

/-! ## `refs` and list updates -/

theorem refs_append (l : List Role) (r : Role) : refs (l ++ [r]) = refs l + b2n r.holds := by
  induction l with
  | nil => simp [refs]
  | cons a l ih => simp [refs, ih]; omega

theorem refs_set (l : List Role) (i : Nat) (old new : Role) (h : l[i]? = some old) :
    refs (l.set i new) + b2n old.holds = refs l + b2n new.holds := by
  induction l generalizing i with
  | nil => simp at h
  | cons a l ih =>
    cases i with
    | zero =>
      simp at h
      subst h
      simp [refs]; omega
    | succ i =>
      simp at h
      have := ih i h
      simp [refs]; omega

theorem refs_pos (l : List Role) (i : Nat) (r : Role) (h : l[i]? = some r) (hr : r.holds = true) :
    1 ≤ refs l := by
  induction l generalizing i with
  | nil => simp at h
  | cons a l ih =>
    cases i with
    | zero =>
      simp at h
      subst h
      simp [refs, b2n, hr]
    | succ i =>
      simp at h
      have := ih i h
      simp [refs]; omega

theorem refs_zero_not_holds (l : List Role) (h0 : refs l = 0) (i : Nat) (r : Role)
    (h : l[i]? = some r) : r.holds = false := by
  cases hr : r.holds with
  | false => rfl
  | true => have := refs_pos l i r h hr; omega

theorem getElem?_set_ne' {α} (l : List α) (i j : Nat) (a : α) (h : i ≠ j) :
    (l.set i a)[j]? = l[j]? := by
  simp [List.getElem?_set, h]

theorem getElem?_set_self' {α} (l : List α) (i : Nat) (a b : α) (h : l[i]? = some b) :
    (l.set i a)[i]? = some a := by
  have hi : i < l.length := by
    by_cases hlt : i < l.length
    · exact hlt
    · have : l[i]? = none := by simp; omega
      simp [this] at h
  simp [List.getElem?_set, hi]

/-- reading an actor after `set`: either the index was untouched, or it is the new role -/
theorem getElem?_set_cases {α} (l : List α) (i j : Nat) (a x : α) (h : (l.set i a)[j]? = some x) :
    (i ≠ j ∧ l[j]? = some x) ∨ (i = j ∧ x = a) := by
  by_cases hij : i = j
  · subst hij
    right
    refine ⟨rfl, ?_⟩
    by_cases hi : i < l.length
    · simp [List.getElem?_set, hi] at h
      exact h.symm
    · have : (l.set i a)[i]? = none := by simp; omega
      simp [this] at h
  · left
    exact ⟨hij, by rw [getElem?_set_ne' l i j a hij] at h; exact h⟩

theorem getElem?_append_cases {α} (l : List α) (a x : α) (j : Nat) (h : (l ++ [a])[j]? = some x) :
    l[j]? = some x ∨ (j = l.length ∧ x = a) := by
  by_cases hj : j < l.length
  · left
    rw [List.getElem?_append_left hj] at h
    exact h
  · right
    have hge : l.length ≤ j := by omega
    rw [List.getElem?_append_right hge] at h
    cases hd : j - l.length with
    | zero =>
      rw [hd] at h
      simp at h
      exact ⟨by omega, h.symm⟩
    | succ n =>
      rw [hd] at h
      simp at h

/-! ## the safety invariant -/

structure Inv (s : St) : Prop where
  /-- the strong count is the number of actors owning a reference -/
  cnt : s.count = refs s.actors
  /-- the inner descriptor is in the `Shared` while the count is positive, and has left it exactly once otherwise -/
  rel : (s.released = 0 ∧ 1 ≤ s.count) ∨ (s.released = 1 ∧ s.count = 0)
  del : s.delivered ≤ s.released

theorem inv_init (b : Bool) : Inv (init b) := by
  constructor <;> simp [init, refs, Role.holds, b2n]

/-- every transition is one of four shapes w.r.t. (actors, count, released, delivered) -/
theorem inv_decRef {s : St} {a : List Role} (hc : s.count = refs a + 1)
    (hr : (s.released = 0 ∧ 1 ≤ s.count) ∨ (s.released = 1 ∧ s.count = 0)) (hd : s.delivered ≤ s.released)
    (ha : s.actors = a) : Inv (decRef s) := by
  unfold decRef
  split
  · next h1 =>
    constructor
    · simp [ha]; omega
    · simp; omega
    · simp; omega
  · next h1 =>
    constructor
    · simp [ha]; omega
    · simp; omega
    · simpa using hd

@[simp] theorem wake_actors (s : St) : (wake s).actors = s.actors := by unfold wake; split <;> rfl
@[simp] theorem wake_count (s : St) : (wake s).count = s.count := by unfold wake; split <;> rfl
@[simp] theorem wake_released (s : St) : (wake s).released = s.released := by unfold wake; split <;> rfl
@[simp] theorem wake_delivered (s : St) : (wake s).delivered = s.delivered := by unfold wake; split <;> rfl
@[simp] theorem wake_waits (s : St) : (wake s).waits = s.waits := by unfold wake; split <;> rfl
@[simp] theorem wake_winner (s : St) : (wake s).winner = s.winner := by unfold wake; split <;> rfl
@[simp] theorem wake_rawDecs (s : St) : (wake s).rawDecs = s.rawDecs := by unfold wake; split <;> rfl
@[simp] theorem wake_sync (s : St) : (wake s).sync = s.sync := by unfold wake; split <;> rfl

@[simp] theorem dropTest_actors (s : St) : (dropTest s).actors = s.actors := by unfold dropTest; split <;> simp
@[simp] theorem dropTest_count (s : St) : (dropTest s).count = s.count := by unfold dropTest; split <;> simp
@[simp] theorem dropTest_released (s : St) : (dropTest s).released = s.released := by
  unfold dropTest; split <;> simp
@[simp] theorem dropTest_delivered (s : St) : (dropTest s).delivered = s.delivered := by
  unfold dropTest; split <;> simp
@[simp] theorem dropTest_waits (s : St) : (dropTest s).waits = s.waits := by unfold dropTest; split <;> simp
@[simp] theorem dropTest_winner (s : St) : (dropTest s).winner = s.winner := by unfold dropTest; split <;> simp
@[simp] theorem dropTest_rawDecs (s : St) : (dropTest s).rawDecs = s.rawDecs := by
  unfold dropTest; split <;> simp
@[simp] theorem dropTest_sync (s : St) : (dropTest s).sync = s.sync := by unfold dropTest; split <;> simp

@[simp] theorem setRole_actors (s : St) (i : Nat) (r : Role) : (setRole s i r).actors = s.actors.set i r := rfl
@[simp] theorem setRole_count (s : St) (i : Nat) (r : Role) : (setRole s i r).count = s.count := rfl
@[simp] theorem setRole_released (s : St) (i : Nat) (r : Role) : (setRole s i r).released = s.released := rfl
@[simp] theorem setRole_delivered (s : St) (i : Nat) (r : Role) : (setRole s i r).delivered = s.delivered := rfl
@[simp] theorem setRole_waits (s : St) (i : Nat) (r : Role) : (setRole s i r).waits = s.waits := rfl
@[simp] theorem setRole_slot (s : St) (i : Nat) (r : Role) : (setRole s i r).slot = s.slot := rfl
@[simp] theorem setRole_woken (s : St) (i : Nat) (r : Role) : (setRole s i r).woken = s.woken := rfl
@[simp] theorem setRole_winner (s : St) (i : Nat) (r : Role) : (setRole s i r).winner = s.winner := rfl
@[simp] theorem setRole_rawDecs (s : St) (i : Nat) (r : Role) : (setRole s i r).rawDecs = s.rawDecs := rfl
@[simp] theorem setRole_sync (s : St) (i : Nat) (r : Role) : (setRole s i r).sync = s.sync := rfl
@[simp] theorem setRole_wakes (s : St) (i : Nat) (r : Role) : (setRole s i r).wakes = s.wakes := rfl

/-- a holder (holding role `old`) gives its reference back through `decRef` -/
theorem inv_release {s : St} (hi : Inv s) (x : Nat) (old new : Role) (hx : s.actors[x]? = some old)
    (ho : old.holds = true) (hn : new.holds = false) (s1 : St)
    (h1a : s1.actors = s.actors.set x new) (h1c : s1.count = s.count) (h1r : s1.released = s.released)
    (h1d : s1.delivered = s.delivered) : Inv (decRef s1) := by
  have hs := refs_set s.actors x old new hx
  simp [b2n, ho, hn] at hs
  have hc := hi.cnt
  apply inv_decRef (a := s.actors.set x new)
  · omega
  · rw [h1r, h1c]; exact hi.rel
  · rw [h1r, h1d]; exact hi.del
  · exact h1a

/-- a role change that keeps the reference -/
theorem inv_keep {s : St} (hi : Inv s) (x : Nat) (old new : Role) (hx : s.actors[x]? = some old)
    (ho : old.holds = true) (hn : new.holds = true) (s1 : St)
    (h1a : s1.actors = s.actors.set x new) (h1c : s1.count = s.count) (h1r : s1.released = s.released)
    (h1d : s1.delivered = s.delivered) : Inv s1 := by
  have hs := refs_set s.actors x old new hx
  simp [b2n, ho, hn] at hs
  constructor
  · rw [h1c, h1a, hi.cnt]; omega
  · rw [h1r, h1c]; exact hi.rel
  · rw [h1r, h1d]; exact hi.del

/-- successful `try_unwrap` by the holder `x` when the count is 1 -/
theorem inv_deliver {s : St} (hi : Inv s) (x : Nat) (old new : Role) (hx : s.actors[x]? = some old)
    (ho : old.holds = true) (hn : new.holds = false) (h1 : s.count = 1) (s1 : St)
    (h1a : s1.actors = s.actors.set x new) (h1r : s1.released = s.released)
    (h1d : s1.delivered = s.delivered) : Inv (deliver s1) := by
  have hs := refs_set s.actors x old new hx
  simp [b2n, ho, hn] at hs
  have hc := hi.cnt
  have hrel := hi.rel
  have hdel := hi.del
  constructor
  · simp [deliver, h1a]; omega
  · simp [deliver, h1r]; omega
  · simp [deliver, h1r, h1d]; omega

theorem inv_grow {s : St} (hi : Inv s) (r : Role) (hr : r.holds = true) (s1 : St)
    (h1a : s1.actors = s.actors ++ [r]) (h1c : s1.count = s.count + 1) (h1r : s1.released = s.released)
    (h1d : s1.delivered = s.delivered) (x : Nat) (old : Role) (hx : s.actors[x]? = some old)
    (ho : old.holds = true) : Inv s1 := by
  have hp := refs_pos s.actors x old hx ho
  have hc := hi.cnt
  have hrel := hi.rel
  constructor
  · rw [h1c, h1a, refs_append]; simp [b2n, hr]; omega
  · rw [h1r, h1c]; omega
  · rw [h1r, h1d]; exact hi.del

theorem inv_step {s s' : St} {e : Ev} (hi : Inv s) (h : step s e = some s') : Inv s' := by
  cases e with
  | clone x =>
    simp only [step, stepClone] at h
    split at h
    · next hx =>
      cases h
      exact inv_grow hi (.handle .live) rfl _ rfl rfl rfl rfl x _ hx rfl
    · cases h
  | opStart x =>
    simp only [step, stepOpStart] at h
    split at h
    · next hx =>
      cases h
      exact inv_grow hi (.op .live) rfl _ rfl rfl rfl rfl x _ hx rfl
    · cases h
  | drop x =>
    simp only [step, stepDrop] at h
    split at h
    · next hx => cases h; exact inv_release hi x _ .gone hx rfl rfl _ (by simp) (by simp) (by simp) (by simp)
    · next hx => cases h; exact inv_release hi x _ .gone hx rfl rfl _ (by simp) (by simp) (by simp) (by simp)
    · cases h
  | dropCheck x =>
    simp only [step, stepDropCheck] at h
    split at h
    · split at h
      · next hx => cases h; exact inv_keep hi x _ (.handle .checked) hx rfl rfl _ (by simp) (by simp) (by simp) (by simp)
      · next hx => cases h; exact inv_keep hi x _ (.op .checked) hx rfl rfl _ (by simp) (by simp) (by simp) (by simp)
      · cases h
    · cases h
  | dropDec x =>
    simp only [step, stepDropDec] at h
    split at h
    · split at h
      · next hx => cases h; exact inv_release hi x _ .gone hx rfl rfl _ (by simp) (by simp) (by simp) (by simp)
      · next hx => cases h; exact inv_release hi x _ .gone hx rfl rfl _ (by simp) (by simp) (by simp) (by simp)
      · cases h
    · cases h
  | tryUnwrap x =>
    simp only [step, stepTryUnwrap] at h
    split at h
    · next hx =>
      split at h
      · next h1 => cases h; exact inv_deliver hi x _ .gone hx rfl rfl h1 _ (by simp) (by simp) (by simp)
      · cases h; exact hi
    · cases h
  | take x =>
    simp only [step, stepTake] at h
    split at h
    · next hx => cases h; exact inv_keep hi x _ (.closer .created) hx rfl rfl _ (by simp) (by simp) (by simp) (by simp)
    · cases h
  | close x =>
    simp only [step, stepClose] at h
    split at h
    · next hx => cases h; exact inv_keep hi x _ (.closer .wrapped) hx rfl rfl _ (by simp) (by simp) (by simp) (by simp)
    · cases h
  | poll c =>
    simp only [step, stepPoll] at h
    split at h
    · next hx =>
      cases h
      unfold firstPoll
      split
      · exact inv_release hi c _ (.closer .doneNone) hx rfl rfl _ (by simp) (by simp) (by simp) (by simp)
      · unfold pollBody
        split
        · next h1 => exact inv_deliver hi c _ (.closer .doneSome) hx rfl rfl h1 _ (by simp) (by simp) (by simp)
        · exact inv_keep hi c _ (.closer .parked) hx rfl rfl _ (by simp) (by simp) (by simp) (by simp)
    · next hx =>
      cases h
      unfold firstPoll
      split
      · exact inv_release hi c _ (.closer .doneNone) hx rfl rfl _ (by simp) (by simp) (by simp) (by simp)
      · unfold pollBody
        split
        · next h1 => exact inv_deliver hi c _ (.closer .doneSome) hx rfl rfl h1 _ (by simp) (by simp) (by simp)
        · exact inv_keep hi c _ (.closer .parked) hx rfl rfl _ (by simp) (by simp) (by simp) (by simp)
    · next hx =>
      cases h
      unfold pollBody
      split
      · next h1 =>
        exact inv_deliver hi c _ (.closer .doneSome) hx rfl rfl (by simpa [clearWoken] using h1) _
          (by simp [clearWoken]) (by simp [clearWoken]) (by simp [clearWoken])
      · exact inv_keep hi c _ (.closer .parked) hx rfl rfl _ (by simp [clearWoken]) (by simp [clearWoken])
          (by simp [clearWoken]) (by simp [clearWoken])
    · cases h
  | pSwap c =>
    simp only [step, stepPSwap] at h
    split at h
    · split at h
      · next hx =>
        cases h
        unfold swapWaits
        split
        · exact inv_keep hi c _ (.closer .losing) hx rfl rfl _ (by simp) (by simp) (by simp) (by simp)
        · exact inv_keep hi c _ (.closer .try1) hx rfl rfl _ (by simp) (by simp) (by simp) (by simp)
      · next hx =>
        cases h
        unfold swapWaits
        split
        · exact inv_keep hi c _ (.closer .losing) hx rfl rfl _ (by simp) (by simp) (by simp) (by simp)
        · exact inv_keep hi c _ (.closer .try1) hx rfl rfl _ (by simp) (by simp) (by simp) (by simp)
      · cases h
    · cases h
  | pNone c =>
    simp only [step, stepMicro] at h
    split at h
    · split at h
      · next pc hx =>
        split at h
        · next hpc =>
          cases h; subst hpc
          exact inv_release hi c _ (.closer .doneNone) hx rfl rfl _ (by simp) (by simp) (by simp) (by simp)
        · cases h
      · cases h
    · cases h
  | pTry1 c =>
    simp only [step, stepMicro] at h
    split at h
    · split at h
      · next pc hx =>
        split at h
        · next hpc =>
          cases h; subst hpc
          unfold tryUnwrap1
          split
          · next h1 => exact inv_deliver hi c _ (.closer .doneSome) hx rfl rfl h1 _ (by simp) (by simp) (by simp)
          · exact inv_keep hi c _ (.closer .reg) hx rfl rfl _ (by simp) (by simp) (by simp) (by simp)
        · cases h
      · cases h
    · cases h
  | pReg c =>
    simp only [step, stepMicro] at h
    split at h
    · split at h
      · next pc hx =>
        split at h
        · next hpc =>
          cases h; subst hpc
          exact inv_keep hi c _ (.closer .try2) hx rfl rfl _ (by simp [register]) (by simp [register]) (by simp [register])
            (by simp [register])
        · cases h
      · cases h
    · cases h
  | pTry2 c =>
    simp only [step, stepMicro] at h
    split at h
    · split at h
      · next pc hx =>
        split at h
        · next hpc =>
          cases h; subst hpc
          unfold tryUnwrap2
          split
          · next h1 => exact inv_deliver hi c _ (.closer .doneSome) hx rfl rfl h1 _ (by simp) (by simp) (by simp)
          · exact inv_keep hi c _ (.closer .parked) hx rfl rfl _ (by simp) (by simp) (by simp) (by simp)
        · cases h
      · cases h
    · cases h
  | pBegin c =>
    simp only [step, stepMicro] at h
    split at h
    · split at h
      · next pc hx =>
        split at h
        · next hpc =>
          cases h; subst hpc
          exact inv_keep hi c _ (.closer .try1) hx rfl rfl _ (by simp [beginPoll, clearWoken]) (by simp [beginPoll, clearWoken])
            (by simp [beginPoll, clearWoken]) (by simp [beginPoll, clearWoken])
        · cases h
      · cases h
    · cases h
  | dropFut c =>
    simp only [step, stepDropFut] at h
    split at h
    · next hx => cases h; exact inv_release hi c _ (.closer .dropped) hx rfl rfl _ (by simp) (by simp) (by simp) (by simp)
    · next hx => cases h; exact inv_release hi c _ (.closer .dropped) hx rfl rfl _ (by simp) (by simp) (by simp) (by simp)
    · next hx => cases h; exact inv_keep hi c _ (.closer .leaked) hx rfl rfl _ (by simp) (by simp) (by simp) (by simp)
    · cases h
  | setWaker c w =>
    simp only [step, stepSetWaker] at h
    split at h <;> first | (cases h; exact ⟨hi.cnt, hi.rel, hi.del⟩) | cases h

theorem inv_run {s s' : St} {evs : List Ev} (hi : Inv s) (h : run s evs = some s') : Inv s' := by
  induction evs generalizing s with
  | nil => simp [run] at h; subst h; exact hi
  | cons e es ih =>
    simp only [run] at h
    split at h
    · next s1 h1 => exact ih (inv_step hi h1) h
    · cases h

theorem decRef_rel (s : St) (c0 : Nat) (r0 : Nat) (hc : s.count = c0) (hr : s.released = r0) :
    (decRef s).released = r0 ∨ ((decRef s).released = r0 + 1 ∧ c0 = 1) := by
  unfold decRef; split <;> simp_all

/-- the inner descriptor leaves the `Shared` only in a step taken at strong count 1 -/
theorem step_released {s s' : St} {e : Ev} (h : step s e = some s') :
    s'.released = s.released ∨ (s'.released = s.released + 1 ∧ s.count = 1) := by
  cases e <;>
    simp only [step, stepClone, stepOpStart, stepDrop, stepDropCheck, stepDropDec, stepTryUnwrap, stepTake,
      stepClose, stepPoll, stepPSwap, stepMicro, stepDropFut, stepSetWaker] at h <;>
    (repeat' split at h) <;>
    (try cases h) <;>
    (try subst_vars) <;>
    (try simp only [firstPoll, pollBody, loseNone, swapWaits, tryUnwrap1, tryUnwrap2, register, beginPoll,
      clearWoken]) <;>
    (repeat' split) <;>
    (first
      | (apply decRef_rel <;> simp; done)
      | (simp_all [deliver]; done)
      | (left; simp; done)
      | (left; rfl)
      | (by_cases hw : s.waits = true <;> by_cases h1 : s.count = 1 <;> simp_all [deliver]; done))

/-! ## the wake-up invariant (whole drops, whole polls) -/

@[simp] theorem decRef_actors (s : St) : (decRef s).actors = s.actors := by unfold decRef; split <;> rfl
@[simp] theorem decRef_slot (s : St) : (decRef s).slot = s.slot := by unfold decRef; split <;> rfl
@[simp] theorem decRef_woken (s : St) : (decRef s).woken = s.woken := by unfold decRef; split <;> rfl
@[simp] theorem decRef_winner (s : St) : (decRef s).winner = s.winner := by unfold decRef; split <;> rfl
@[simp] theorem decRef_waits (s : St) : (decRef s).waits = s.waits := by unfold decRef; split <;> rfl
@[simp] theorem decRef_rawDecs (s : St) : (decRef s).rawDecs = s.rawDecs := by unfold decRef; split <;> rfl
theorem decRef_count (s : St) : (decRef s).count = s.count - 1 := by unfold decRef; split <;> simp_all

@[simp] theorem deliver_actors (s : St) : (deliver s).actors = s.actors := rfl
@[simp] theorem deliver_slot (s : St) : (deliver s).slot = s.slot := rfl
@[simp] theorem deliver_woken (s : St) : (deliver s).woken = s.woken := rfl
@[simp] theorem deliver_winner (s : St) : (deliver s).winner = s.winner := rfl
@[simp] theorem deliver_waits (s : St) : (deliver s).waits = s.waits := rfl
@[simp] theorem deliver_rawDecs (s : St) : (deliver s).rawDecs = s.rawDecs := rfl
@[simp] theorem deliver_count (s : St) : (deliver s).count = 0 := rfl

/-- wake-up invariant of the executions in which `Drop for SharedFd` and polls are single steps -/
structure UInv (s : St) : Prop where
  w1 : ∀ c, s.slot = some c → s.winner = some c
  w2 : ∀ c, s.parked c → s.winner = some c ∧ (s.slot = some c ∨ c ∈ s.woken)
  w3 : ∀ c, s.winner = some c → s.waits = true
  j : ∀ c, s.parked c → 2 ≤ s.count ∨ c ∈ s.woken ∨ 0 < s.rawDecs

theorem uinv_init (b : Bool) : UInv (init b) := by
  constructor
  · intro c h; simp [init] at h
  · intro c h
    unfold St.parked at h
    simp [init] at h
    cases c <;> simp at h
  · intro c h; simp [init] at h
  · intro c h
    unfold St.parked at h
    simp [init] at h
    cases c <;> simp at h

theorem parked_set {l : List Role} {i c : Nat} {r : Role}
    (h : (l.set i r)[c]? = some (.closer .parked)) (hr : r ≠ .closer .parked) :
    l[c]? = some (.closer .parked) := by
  rcases getElem?_set_cases l i c r _ h with ⟨_, h1⟩ | ⟨_, h1⟩
  · exact h1
  · exact absurd h1.symm hr

theorem parked_append {l : List Role} {c : Nat} {r : Role}
    (h : (l ++ [r])[c]? = some (.closer .parked)) (hr : r ≠ .closer .parked) :
    l[c]? = some (.closer .parked) := by
  rcases getElem?_append_cases l r _ c h with h1 | ⟨_, h1⟩
  · exact h1
  · exact absurd h1.symm hr

/-- a step that creates no parked closer and leaves slot / winner / waits alone -/
theorem uinv_frame {s s' : St} (hu : UInv s)
    (hp : ∀ c, s'.parked c → s.parked c)
    (hslot : s'.slot = s.slot) (hwoken : ∀ c, c ∈ s.woken → c ∈ s'.woken)
    (hwin : s'.winner = s.winner) (hwaits : s'.waits = s.waits)
    (hj : ∀ c, s.parked c → (2 ≤ s.count ∨ c ∈ s.woken ∨ 0 < s.rawDecs) →
      (2 ≤ s'.count ∨ c ∈ s'.woken ∨ 0 < s'.rawDecs)) : UInv s' := by
  constructor
  · intro c h; rw [hwin]; exact hu.w1 c (by rw [← hslot]; exact h)
  · intro c h
    have := hu.w2 c (hp c h)
    rw [hwin, hslot]
    exact ⟨this.1, this.2.imp id (hwoken c)⟩
  · intro c h; rw [hwaits]; exact hu.w3 c (by rw [← hwin]; exact h)
  · intro c h; exact hj c (hp c h) (hu.j c (hp c h))

theorem mem_filter_ne {l : List Nat} {c c0 : Nat} (h : c ∈ l) (hne : c ≠ c0) : c ∈ l.filter (· != c0) := by
  simp [List.mem_filter, h, hne]

theorem uinv_drop {s : St} (hu : UInv s) (x : Nat) :
    UInv (decRef (setRole (dropTest s) x .gone)) := by
  have hp : ∀ c, (decRef (setRole (dropTest s) x .gone)).parked c → s.parked c := by
    intro c h
    unfold St.parked at h ⊢
    simp at h
    exact parked_set h (by simp)
  by_cases hw : s.count = 2 ∧ s.waits = true
  · -- the wake test fires
    cases hs : s.slot with
    | none =>
      have hd : dropTest s = s := by unfold dropTest wake; simp [hw, hs]
      rw [hd] at hp ⊢
      apply uinv_frame hu hp (by simp) (by intro c h; simpa using h) (by simp) (by simp)
      intro c hc hj
      have h2 := (hu.w2 c hc).2
      rw [hs] at h2
      simp at h2
      right; left; simpa using h2
    | some c0 =>
      have hd : dropTest s = { s with slot := none, woken := c0 :: s.woken, wakes := s.wakes + 1, wokenW := (c0, s.slotW) :: s.wokenW, wakeLog := s.wakeLog ++ [(c0, s.slotW)] } := by
        unfold dropTest wake; simp [hw, hs]
      have hwin0 := hu.w1 c0 hs
      rw [hd] at hp ⊢
      constructor
      · intro c h; simp at h
      · intro c h
        have h2 := hu.w2 c (hp c h)
        refine ⟨by simpa using h2.1, ?_⟩
        right
        simp
        rcases h2.2 with h3 | h3
        · rw [hs] at h3; simp at h3; left; exact h3.symm
        · right; exact h3
      · intro c h; simp at h; simpa using hu.w3 c h
      · intro c h
        have h2 := hu.w2 c (hp c h)
        right; left
        simp
        have : c0 = c := by
          have := h2.1
          rw [hwin0] at this
          simpa using this
        left; exact this.symm
  · have hd : dropTest s = s := by unfold dropTest; simp [hw]
    rw [hd] at hp ⊢
    apply uinv_frame hu hp (by simp) (by intro c h; simpa using h) (by simp) (by simp)
    intro c hc hj
    simp [decRef_count]
    rcases hj with h1 | h1 | h1
    · by_cases h3 : 3 ≤ s.count
      · left; omega
      · have h2 : s.count = 2 := by omega
        have hwt := hu.w3 c (hu.w2 c hc).1
        exact absurd ⟨h2, hwt⟩ hw
    · right; left; exact h1
    · right; right; exact h1

theorem uinv_pollBody_first {s : St} (hi : Inv s) (hu : UInv s) (c0 : Nat) (old : Role)
    (hx : s.actors[c0]? = some old) (hold : old.holds = true) (hw : s.waits = false) :
    UInv (pollBody { s with waits := true, winner := some c0 } c0) := by
  have hnone : s.winner = none := by
    cases hwin : s.winner with
    | none => rfl
    | some c => have := hu.w3 c hwin; simp [hw] at this
  have hnopark : ∀ c, ¬ s.parked c := by
    intro c hc
    have := (hu.w2 c hc).1
    simp [hnone] at this
  have hcnt : 1 ≤ s.count := by
    have := refs_pos _ c0 old hx hold
    have := hi.cnt
    omega
  unfold pollBody
  split
  · constructor
    · intro c h
      simp at h
      have := hu.w1 c h
      simp [hnone] at this
    · intro c h
      unfold St.parked at h
      simp at h
      exact absurd (parked_set h (by simp)) (hnopark c)
    · intro c h; simp
    · intro c h
      unfold St.parked at h
      simp at h
      exact absurd (parked_set h (by simp)) (hnopark c)
  · next h1 =>
    simp at h1
    have hpk : ∀ c, (setRole { s with waits := true, winner := some c0, slot := some c0 } c0 (.closer .parked)).parked c → c = c0 := by
      intro c h
      unfold St.parked at h
      simp at h
      rcases getElem?_set_cases _ c0 c _ _ h with ⟨_, h2⟩ | ⟨h2, _⟩
      · exact absurd h2 (hnopark c)
      · exact h2.symm
    constructor
    · intro c h; simp at h; simp [h]
    · intro c h
      have := hpk c h
      subst this
      simp
    · intro c h; simp
    · intro c h
      have := hpk c h
      subst this
      left; simp; omega

theorem uinv_pollBody_again {s : St} (hi : Inv s) (hu : UInv s) (c0 : Nat) (hx : s.parked c0) :
    UInv (pollBody (clearWoken s c0) c0) := by
  have hwin := (hu.w2 c0 hx).1
  have hcnt : 1 ≤ s.count := by
    have := refs_pos _ c0 _ hx rfl
    have := hi.cnt
    omega
  have huniq : ∀ c, s.parked c → c = c0 := by
    intro c hc
    have := (hu.w2 c hc).1
    rw [hwin] at this
    simpa using this.symm
  unfold pollBody
  split
  · constructor
    · intro c h; simp [clearWoken] at h; simpa [clearWoken] using hu.w1 c h
    · intro c h
      unfold St.parked at h
      simp [clearWoken] at h
      rcases getElem?_set_cases _ c0 c _ _ h with ⟨hne, h2⟩ | ⟨_, h2⟩
      · exact absurd (huniq c h2) (fun h => hne h.symm)
      · simp at h2
    · intro c h; simp [clearWoken] at h ⊢; exact hu.w3 c h
    · intro c h
      unfold St.parked at h
      simp [clearWoken] at h
      rcases getElem?_set_cases _ c0 c _ _ h with ⟨hne, h2⟩ | ⟨_, h2⟩
      · exact absurd (huniq c h2) (fun h => hne h.symm)
      · simp at h2
  · next h1 =>
    simp [clearWoken] at h1
    have hpk : ∀ c, (setRole { clearWoken s c0 with slot := some c0 } c0 (.closer .parked)).parked c → c = c0 := by
      intro c h
      unfold St.parked at h
      simp [clearWoken] at h
      rcases getElem?_set_cases _ c0 c _ _ h with ⟨_, h2⟩ | ⟨h2, _⟩
      · exact huniq c h2
      · exact h2.symm
    constructor
    · intro c h; simp [clearWoken] at h; simp [clearWoken, ← h, hwin]
    · intro c h
      have := hpk c h
      subst this
      simp [clearWoken, hwin]
    · intro c h; simp [clearWoken] at h ⊢; exact hu.w3 c h
    · intro c h
      have := hpk c h
      subst this
      left; simp [clearWoken]; omega

theorem uinv_step {s s' : St} {e : Ev} (hi : Inv s) (hu : UInv s) (he : e.unsync = true)
    (h : step s e = some s') : UInv s' := by
  cases e with
  | dropCheck x | dropDec x | pSwap x | pNone x | pTry1 x | pReg x | pTry2 x | pBegin x => simp [Ev.unsync] at he
  | setWaker c w =>
    simp only [step, stepSetWaker] at h
    split at h <;> first
      | (cases h
         exact uinv_frame hu (fun c hc => hc) rfl (fun c h => h) rfl rfl (fun c _ hj => hj))
      | cases h
  | clone x =>
    simp only [step, stepClone] at h
    split at h
    · cases h
      apply uinv_frame hu _ (by simp) (by intro c h; simpa using h) (by simp) (by simp)
      · intro c hc hj
        simp
        rcases hj with h | h | h
        · left; omega
        · right; left; exact h
        · right; right; exact h
      · intro c hc; exact parked_append hc (by simp)
    · cases h
  | opStart x =>
    simp only [step, stepOpStart] at h
    split at h
    · cases h
      apply uinv_frame hu _ (by simp) (by intro c h; simpa using h) (by simp) (by simp)
      · intro c hc hj
        simp
        rcases hj with h | h | h
        · left; omega
        · right; left; exact h
        · right; right; exact h
      · intro c hc; exact parked_append hc (by simp)
    · cases h
  | drop x =>
    simp only [step, stepDrop] at h
    split at h
    · next hx => cases h; exact uinv_drop hu x
    · next hx => cases h; exact uinv_drop hu x
    · cases h
  | tryUnwrap x =>
    simp only [step, stepTryUnwrap] at h
    split at h
    · split at h
      · next h1 =>
        cases h
        apply uinv_frame hu _ (by simp) (by intro c h; simpa using h) (by simp) (by simp)
        · intro c hc hj
          simp
          rcases hj with h | h | h
          · omega
          · left; exact h
          · right; exact h
        · intro c hc
          unfold St.parked at hc ⊢
          simp at hc
          exact parked_set hc (by simp)
      · cases h; exact hu
    · cases h
  | take x =>
    simp only [step, stepTake] at h
    split at h
    · cases h
      apply uinv_frame hu _ (by simp) (by intro c h; simpa using h) (by simp) (by simp)
      · intro c hc hj; simpa using hj
      · intro c hc
        unfold St.parked at hc ⊢
        simp at hc
        exact parked_set hc (by simp)
    · cases h
  | close x =>
    simp only [step, stepClose] at h
    split at h
    · cases h
      apply uinv_frame hu _ (by simp) (by intro c h; simpa using h) (by simp) (by simp)
      · intro c hc hj; simpa using hj
      · intro c hc
        unfold St.parked at hc ⊢
        simp at hc
        exact parked_set hc (by simp)
    · cases h
  | poll c0 =>
    simp only [step, stepPoll] at h
    split at h
    · next hx =>
      cases h
      unfold firstPoll
      split
      · unfold loseNone
        apply uinv_frame hu _ (by simp) (by intro c h; simpa using h) (by simp) (by simp)
        · intro c hc hj; right; right; simp
        · intro c hc
          unfold St.parked at hc ⊢
          simp at hc
          exact parked_set hc (by simp)
      · next hw => exact uinv_pollBody_first hi hu c0 _ hx rfl (by simpa using hw)
    · next hx =>
      cases h
      unfold firstPoll
      split
      · unfold loseNone
        apply uinv_frame hu _ (by simp) (by intro c h; simpa using h) (by simp) (by simp)
        · intro c hc hj; right; right; simp
        · intro c hc
          unfold St.parked at hc ⊢
          simp at hc
          exact parked_set hc (by simp)
      · next hw => exact uinv_pollBody_first hi hu c0 _ hx rfl (by simpa using hw)
    · next hx => cases h; exact uinv_pollBody_again hi hu c0 hx
    · cases h
  | dropFut c0 =>
    simp only [step, stepDropFut] at h
    split at h
    · cases h
      apply uinv_frame hu _ (by simp) (by intro c h; simpa using h) (by simp) (by simp)
      · intro c hc hj; right; right; simp
      · intro c hc
        unfold St.parked at hc ⊢
        simp at hc
        exact parked_set hc (by simp)
    · cases h
      apply uinv_frame hu _ (by simp) (by intro c h; simpa using h) (by simp) (by simp)
      · intro c hc hj; right; right; simp
      · intro c hc
        unfold St.parked at hc ⊢
        simp at hc
        exact parked_set hc (by simp)
    · cases h
      apply uinv_frame hu _ (by simp) (by intro c h; simpa using h) (by simp) (by simp)
      · intro c hc hj; simpa using hj
      · intro c hc
        unfold St.parked at hc ⊢
        simp at hc
        exact parked_set hc (by simp)
    · cases h


theorem uinv_run {s s' : St} {evs : List Ev} (hi : Inv s) (hu : UInv s) (he : ∀ e ∈ evs, e.unsync = true)
    (h : run s evs = some s') : Inv s' ∧ UInv s' := by
  induction evs generalizing s with
  | nil => simp [run] at h; subst h; exact ⟨hi, hu⟩
  | cons e es ih =>
    simp only [run] at h
    split at h
    · next s1 h1 =>
      exact ih (inv_step hi h1) (uinv_step hi hu (he e (by simp)) h1) (fun e' he' => he e' (by simp [he'])) h
    · cases h

end Compio.SharedFd

namespace Compio.SharedFd

theorem setRole_setRole (s : St) (i : Nat) (a b : Role) : setRole (setRole s i a) i b = setRole s i b := by
  simp [setRole, List.set_set]

theorem get_set_self (l : List Role) (c : Nat) (r r0 : Role) (h : l[c]? = some r0) : (l.set c r)[c]? = some r :=
  getElem?_set_self' l c r r0 h

end Compio.SharedFd

namespace Compio.SharedFd

/-! ## what the ghost counter `rawDecs` counts -/

def cntP (p : Role → Bool) : List Role → Nat
  | [] => 0
  | r :: rs => b2n (p r) + cntP p rs

theorem cntP_append (p : Role → Bool) (l : List Role) (r : Role) : cntP p (l ++ [r]) = cntP p l + b2n (p r) := by
  induction l with
  | nil => simp [cntP]
  | cons a l ih => simp [cntP, ih]; omega

theorem cntP_set (p : Role → Bool) (l : List Role) (i : Nat) (old new : Role) (h : l[i]? = some old) :
    cntP p (l.set i new) + b2n (p old) = cntP p l + b2n (p new) := by
  induction l generalizing i with
  | nil => simp at h
  | cons a l ih =>
    cases i with
    | zero =>
      simp at h
      subst h
      simp [cntP]; omega
    | succ i =>
      simp at h
      have := ih i h
      simp [cntP]; omega

theorem cntP_zero (p : Role → Bool) (l : List Role) (h : ∀ (i : Nat) (r : Role), l[i]? = some r → p r = false) : cntP p l = 0 := by
  induction l with
  | nil => rfl
  | cons a l ih =>
    have h0 := h 0 a (by simp)
    have := ih (fun i r hr => h (i + 1) r (by simpa using hr))
    simp [cntP, b2n, h0, this]

/-- the closer finished through a path that dropped the raw `Shared` -/
def Role.isRaw : Role → Bool
  | .closer .doneNone => true
  | .closer .dropped => true
  | _ => false

/-- `rawDecs` counts exactly the closers that ended as `doneNone` / `dropped` -/
def KInv (s : St) : Prop := s.rawDecs = cntP Role.isRaw s.actors

theorem kinv_set {s : St} (hk : KInv s) (i : Nat) (old new : Role) (hx : s.actors[i]? = some old)
    (ho : old.isRaw = false) (s1 : St) (ha : s1.actors = s.actors.set i new)
    (hr : s1.rawDecs = s.rawDecs + b2n new.isRaw) : KInv s1 := by
  have := cntP_set Role.isRaw s.actors i old new hx
  unfold KInv at *
  rw [ha, hr, hk]
  simp [b2n, ho] at this ⊢
  omega

theorem kinv_step {s s' : St} {e : Ev} (hk : KInv s) (h : step s e = some s') : KInv s' := by
  cases e <;>
    simp only [step, stepClone, stepOpStart, stepDrop, stepDropCheck, stepDropDec, stepTryUnwrap, stepTake,
      stepClose, stepPoll, stepPSwap, stepMicro, stepDropFut, stepSetWaker] at h <;>
    (repeat' split at h) <;>
    (try cases h) <;>
    (try subst_vars) <;>
    (try simp only [firstPoll, pollBody, loseNone, swapWaits, tryUnwrap1, tryUnwrap2, register, beginPoll,
      clearWoken]) <;>
    (repeat' split) <;>
    (first
      | exact hk
      | (unfold KInv at *; simp [cntP_append, b2n, Role.isRaw]; exact hk)
      | (refine kinv_set hk _ _ _ (by assumption) rfl _ (by simp; rfl) ?_ <;> simp [b2n, Role.isRaw]; done)
      | (by_cases hw : s.waits = true <;> by_cases h1 : s.count = 1 <;>
          simp only [hw, h1, if_true, if_false, Bool.false_eq_true] <;>
          (refine kinv_set hk _ _ _ (by assumption) rfl _ (by simp; rfl) ?_ <;> simp [b2n, Role.isRaw]); done)
      | trace_state)


theorem kinv_run {s s' : St} {evs : List Ev} (hk : KInv s) (h : run s evs = some s') : KInv s' := by
  induction evs generalizing s with
  | nil => simp [run] at h; subst h; exact hk
  | cons e es ih =>
    simp only [run] at h
    split at h
    · next s1 h1 => exact ih (kinv_step hk h1) h
    · cases h

theorem kinv_init (b : Bool) : KInv (init b) := by
  simp [KInv, init, cntP, b2n, Role.isRaw]

end Compio.SharedFd

namespace Compio.SharedFd

/-! ## a sole owner that is parked stays parked -/

theorem refs_two (l : List Role) (i j : Nat) (a b : Role) (hij : i ≠ j) (hi : l[i]? = some a)
    (hj : l[j]? = some b) (ha : a.holds = true) (hb : b.holds = true) : 2 ≤ refs l := by
  induction l generalizing i j with
  | nil => simp at hi
  | cons x l ih =>
    cases i with
    | zero =>
      cases j with
      | zero => exact absurd rfl hij
      | succ j =>
        simp at hi hj
        subst hi
        have := refs_pos l j b hj hb
        simp [refs, b2n, ha]; omega
    | succ i =>
      cases j with
      | zero =>
        simp at hi hj
        subst hj
        have := refs_pos l i a hi ha
        simp [refs, b2n, hb]; omega
      | succ j =>
        simp at hi hj
        have := ih i j (by omega) hi hj
        simp [refs]; omega

/-- every event needs its target to own a reference -/
theorem step_target_holds {s s' : St} {e : Ev} (h : step s e = some s') :
    ∃ r, s.actors[e.target]? = some r ∧ r.holds = true := by
  cases e <;>
    simp only [step, stepClone, stepOpStart, stepDrop, stepDropCheck, stepDropDec, stepTryUnwrap, stepTake,
      stepClose, stepPoll, stepPSwap, stepMicro, stepDropFut, stepSetWaker] at h <;>
    (repeat' split at h) <;>
    (first
      | exact ⟨_, by assumption, rfl⟩
      | (subst_vars; exact ⟨_, by assumption, rfl⟩)
      | (cases h; done))


/-- A closer that is parked as the sole owner and has no pending wake-up stays so for ever: no other
actor can take a step (nobody else owns a reference), so nothing will wake it. Only a poll of the
closer itself (which nothing will trigger) or dropping its future changes the state. -/
theorem stuck_forever {s s' : St} {e : Ev} {c : Nat} (hi : Inv s) (hc : s.parked c) (h1 : s.count = 1)
    (h : step s e = some s') : e.target = c := by
  obtain ⟨r, hr, hh⟩ := step_target_holds h
  by_cases hne : e.target = c
  · exact hne
  · have := refs_two s.actors e.target c r _ hne hr hc hh rfl
    have := hi.cnt
    omega

end Compio.SharedFd

namespace Compio.SharedFd

/-! ## waker identity: the slot holds the waker of the latest poll -/

theorem wOf_cons_self (l : List (Nat × Nat)) (c w : Nat) : wOf ((c, w) :: l) c = w := by
  simp [wOf, List.lookup]

theorem wOf_cons_ne (l : List (Nat × Nat)) (c c' w : Nat) (h : c' ≠ c) : wOf ((c, w) :: l) c' = wOf l c' := by
  have : (c' == c) = false := by simp [h]
  simp [wOf, List.lookup, this]

theorem role_set {l : List Role} {i c : Nat} {r q : Role} (h : (l.set i r)[c]? = some q) (hr : r ≠ q) :
    l[c]? = some q := by
  rcases getElem?_set_cases l i c r _ h with ⟨_, h1⟩ | ⟨_, h1⟩
  · exact h1
  · exact absurd h1.symm hr

theorem role_append {l : List Role} {c : Nat} {r q : Role} (h : (l ++ [r])[c]? = some q) (hr : r ≠ q) :
    l[c]? = some q := by
  rcases getElem?_append_cases l r _ c h with h1 | ⟨_, h1⟩
  · exact h1
  · exact absurd h1.symm hr

def St.try2 (s : St) (c : Nat) : Prop := s.actors[c]? = some (.closer .try2)

/-- the waker in the slot is the one supplied by the closer's current / latest poll -/
structure SInv (s : St) : Prop where
  s1 : ∀ c, s.parked c → s.slot = some c → s.slotW = wOf s.parkedW c
  s2 : ∀ c, s.try2 c → s.slot = some c → s.slotW = wOf s.nextW c

theorem sinv_init (b : Bool) : SInv (init b) := by
  constructor <;> intro c _ h <;> simp [init] at h

theorem sinv_frame {s s' : St} (hs : SInv s) (hp : ∀ c, s'.parked c → s.parked c)
    (ht : ∀ c, s'.try2 c → s.try2 c) (hslot : ∀ c, s'.slot = some c → s.slot = some c)
    (hsw : s'.slotW = s.slotW) (hpw : s'.parkedW = s.parkedW)
    (hnw : ∀ c, s'.try2 c → wOf s'.nextW c = wOf s.nextW c) : SInv s' := by
  constructor
  · intro c h1 h2; rw [hsw, hpw]; exact hs.s1 c (hp c h1) (hslot c h2)
  · intro c h1 h2; rw [hsw, hnw c h1]; exact hs.s2 c (ht c h1) (hslot c h2)

/-- steps of shape "set one actor to a role that is neither parked nor try2, maybe wake, maybe decrement" -/
theorem sinv_set {s s' : St} (hs : SInv s) (i : Nat) (r : Role) (hr1 : r ≠ .closer .parked)
    (hr2 : r ≠ .closer .try2) (ha : s'.actors = s.actors.set i r)
    (hslot : ∀ c, s'.slot = some c → s.slot = some c)
    (hsw : s'.slotW = s.slotW) (hpw : s'.parkedW = s.parkedW) (hnw : s'.nextW = s.nextW) : SInv s' := by
  apply sinv_frame hs _ _ hslot hsw hpw (fun c _ => by rw [hnw])
  · intro c h; unfold St.parked at h ⊢; rw [ha] at h; exact role_set h hr1
  · intro c h; unfold St.try2 at h ⊢; rw [ha] at h; exact role_set h hr2

theorem sinv_app {s s' : St} (hs : SInv s) (r : Role) (hr1 : r ≠ .closer .parked)
    (hr2 : r ≠ .closer .try2) (ha : s'.actors = s.actors ++ [r])
    (hslot : s'.slot = s.slot)
    (hsw : s'.slotW = s.slotW) (hpw : s'.parkedW = s.parkedW) (hnw : s'.nextW = s.nextW) : SInv s' := by
  apply sinv_frame hs _ _ (fun c h => by rw [← hslot]; exact h) hsw hpw (fun c _ => by rw [hnw])
  · intro c h; unfold St.parked at h ⊢; rw [ha] at h; exact role_append h hr1
  · intro c h; unfold St.try2 at h ⊢; rw [ha] at h; exact role_append h hr2

@[simp] theorem wake_slotW (s : St) : (wake s).slotW = s.slotW := by unfold wake; split <;> rfl
@[simp] theorem wake_parkedW (s : St) : (wake s).parkedW = s.parkedW := by unfold wake; split <;> rfl
@[simp] theorem wake_nextW (s : St) : (wake s).nextW = s.nextW := by unfold wake; split <;> rfl
theorem wake_slot (s : St) (c : Nat) (h : (wake s).slot = some c) : s.slot = some c := by
  unfold wake at h; split at h <;> simp_all
@[simp] theorem dropTest_slotW (s : St) : (dropTest s).slotW = s.slotW := by unfold dropTest; split <;> simp
@[simp] theorem dropTest_parkedW (s : St) : (dropTest s).parkedW = s.parkedW := by unfold dropTest; split <;> simp
@[simp] theorem dropTest_nextW (s : St) : (dropTest s).nextW = s.nextW := by unfold dropTest; split <;> simp
theorem dropTest_slot (s : St) (c : Nat) (h : (dropTest s).slot = some c) : s.slot = some c := by
  unfold dropTest at h; split at h
  · exact wake_slot s c h
  · exact h
@[simp] theorem decRef_slotW (s : St) : (decRef s).slotW = s.slotW := by unfold decRef; split <;> rfl
@[simp] theorem decRef_parkedW (s : St) : (decRef s).parkedW = s.parkedW := by unfold decRef; split <;> rfl
@[simp] theorem decRef_nextW (s : St) : (decRef s).nextW = s.nextW := by unfold decRef; split <;> rfl
@[simp] theorem deliver_slotW (s : St) : (deliver s).slotW = s.slotW := rfl
@[simp] theorem deliver_parkedW (s : St) : (deliver s).parkedW = s.parkedW := rfl
@[simp] theorem deliver_nextW (s : St) : (deliver s).nextW = s.nextW := rfl
@[simp] theorem decRef_wokenW (s : St) : (decRef s).wokenW = s.wokenW := by unfold decRef; split <;> rfl
@[simp] theorem deliver_wokenW (s : St) : (deliver s).wokenW = s.wokenW := rfl
@[simp] theorem setRole_wokenW (s : St) (i : Nat) (r : Role) : (setRole s i r).wokenW = s.wokenW := rfl
@[simp] theorem setRole_slotW (s : St) (i : Nat) (r : Role) : (setRole s i r).slotW = s.slotW := rfl
@[simp] theorem setRole_parkedW (s : St) (i : Nat) (r : Role) : (setRole s i r).parkedW = s.parkedW := rfl
@[simp] theorem setRole_nextW (s : St) (i : Nat) (r : Role) : (setRole s i r).nextW = s.nextW := rfl

/-- a closer parks having just registered (whole poll), or parks after `register` (micro steps) -/
theorem sinv_park {s s' : St} (hs : SInv s) (c : Nat) (ha : s'.actors = s.actors.set c (.closer .parked))
    (hc : ∃ r, s.actors[c]? = some r)
    (hpw : s'.parkedW = (c, wOf s.nextW c) :: s.parkedW) (hnw : s'.nextW = s.nextW)
    (hcase : (s'.slot = some c ∧ s'.slotW = wOf s.nextW c) ∨
      (s.try2 c ∧ s'.slot = s.slot ∧ s'.slotW = s.slotW)) : SInv s' := by
  constructor
  · intro c' h1 h2
    unfold St.parked at h1
    rw [ha] at h1
    by_cases hcc : c' = c
    · subst hcc
      rw [hpw, wOf_cons_self]
      rcases hcase with ⟨_, h4⟩ | ⟨h3, h4, h5⟩
      · exact h4
      · rw [h5]; exact hs.s2 c' h3 (by rw [← h4]; exact h2)
    · rw [hpw, wOf_cons_ne _ _ _ _ hcc]
      have hp : s.parked c' := by
        unfold St.parked
        rw [getElem?_set_ne' _ _ _ _ (fun h => hcc h.symm)] at h1
        exact h1
      rcases hcase with ⟨h3, _⟩ | ⟨_, h4, h5⟩
      · rw [h3] at h2; simp at h2; exact absurd h2.symm hcc
      · rw [h5]; exact hs.s1 c' hp (by rw [← h4]; exact h2)
  · intro c' h1 h2
    unfold St.try2 at h1
    rw [ha] at h1
    have h1' := role_set h1 (by simp)
    by_cases hcc : c' = c
    · subst hcc
      obtain ⟨r, hr⟩ := hc
      rw [getElem?_set_self' _ _ _ _ hr] at h1
      simp at h1
    · rw [hnw]
      rcases hcase with ⟨h3, _⟩ | ⟨_, h4, h5⟩
      · rw [h3] at h2; simp at h2; exact absurd h2.symm hcc
      · rw [h5]; exact hs.s2 c' h1' (by rw [← h4]; exact h2)

theorem sinv_reg {s : St} (_hs : SInv s) (c : Nat) (hc : ∃ r, s.actors[c]? = some r) : SInv (register s c) := by
  obtain ⟨r, hr⟩ := hc
  constructor
  · intro c' h1 h2
    unfold St.parked register at h1
    simp at h1
    simp [register] at h2
    subst h2
    rw [getElem?_set_self' _ _ _ _ hr] at h1
    simp at h1
  · intro c' h1 h2
    simp [register] at h2 ⊢
    subst h2
    rfl

theorem sinv_pollBody {s : St} (hs : SInv s) (c : Nat) (hc : ∃ r, s.actors[c]? = some r) :
    SInv (pollBody s c) := by
  unfold pollBody
  split
  · exact sinv_set hs c (.closer .doneSome) (by simp) (by simp) rfl (fun _ h => h) rfl rfl rfl
  · exact sinv_park hs c rfl hc rfl rfl (Or.inl ⟨rfl, rfl⟩)

theorem sinv_congr {s s' : St} (hs : SInv s) (ha : s'.actors = s.actors) (h1 : s'.slot = s.slot)
    (h2 : s'.slotW = s.slotW) (h3 : s'.parkedW = s.parkedW) (h4 : s'.nextW = s.nextW) : SInv s' := by
  constructor
  · intro c hp hsl
    unfold St.parked at hp
    rw [ha] at hp; rw [h1] at hsl; rw [h2, h3]; exact hs.s1 c hp hsl
  · intro c hp hsl
    unfold St.try2 at hp
    rw [ha] at hp; rw [h1] at hsl; rw [h2, h4]; exact hs.s2 c hp hsl

theorem sinv_step {s s' : St} {e : Ev} (hs : SInv s) (h : step s e = some s') : SInv s' := by
  cases e with
  | clone x =>
    simp only [step, stepClone] at h
    split at h
    · cases h; exact sinv_app hs _ (by simp) (by simp) rfl rfl rfl rfl rfl
    · cases h
  | opStart x =>
    simp only [step, stepOpStart] at h
    split at h
    · cases h; exact sinv_app hs _ (by simp) (by simp) rfl rfl rfl rfl rfl
    · cases h
  | drop x =>
    simp only [step, stepDrop] at h
    split at h
    · cases h
      exact sinv_set hs x .gone (by simp) (by simp) (by simp) (fun c h => dropTest_slot s c (by simpa using h))
        (by simp) (by simp) (by simp)
    · cases h
      exact sinv_set hs x .gone (by simp) (by simp) (by simp) (fun c h => dropTest_slot s c (by simpa using h))
        (by simp) (by simp) (by simp)
    · cases h
  | dropCheck x =>
    simp only [step, stepDropCheck] at h
    split at h
    · split at h
      · cases h
        exact sinv_set hs x (.handle .checked) (by simp) (by simp) (by simp) (fun c h => dropTest_slot s c (by simpa using h))
          (by simp) (by simp) (by simp)
      · cases h
        exact sinv_set hs x (.op .checked) (by simp) (by simp) (by simp) (fun c h => dropTest_slot s c (by simpa using h))
          (by simp) (by simp) (by simp)
      · cases h
    · cases h
  | dropDec x =>
    simp only [step, stepDropDec] at h
    split at h
    · split at h
      · cases h
        exact sinv_set hs x .gone (by simp) (by simp) (by simp) (fun c h => by simpa using h) (by simp) (by simp) (by simp)
      · cases h
        exact sinv_set hs x .gone (by simp) (by simp) (by simp) (fun c h => by simpa using h) (by simp) (by simp) (by simp)
      · cases h
    · cases h
  | tryUnwrap x =>
    simp only [step, stepTryUnwrap] at h
    split at h
    · split at h
      · cases h
        exact sinv_set hs x .gone (by simp) (by simp) (by simp) (fun c h => by simpa using h) (by simp) (by simp) (by simp)
      · cases h; exact hs
    · cases h
  | take x =>
    simp only [step, stepTake] at h
    split at h
    · cases h
      exact sinv_set hs x (.closer .created) (by simp) (by simp) rfl (fun c h => h) rfl rfl rfl
    · cases h
  | close x =>
    simp only [step, stepClose] at h
    split at h
    · cases h
      exact sinv_set hs x (.closer .wrapped) (by simp) (by simp) rfl (fun c h => h) rfl rfl rfl
    · cases h
  | poll c =>
    simp only [step, stepPoll] at h
    split at h
    · next hx =>
      cases h
      unfold firstPoll
      split
      · exact sinv_set hs c (.closer .doneNone) (by simp) (by simp) (by simp [loseNone])
          (fun c h => by simpa [loseNone] using h) (by simp [loseNone]) (by simp [loseNone]) (by simp [loseNone])
      · exact sinv_pollBody (sinv_congr (s' := { s with waits := true, winner := some c }) hs rfl rfl rfl rfl rfl) c ⟨_, hx⟩
    · next hx =>
      cases h
      unfold firstPoll
      split
      · exact sinv_set hs c (.closer .doneNone) (by simp) (by simp) (by simp [loseNone])
          (fun c h => by simpa [loseNone] using h) (by simp [loseNone]) (by simp [loseNone]) (by simp [loseNone])
      · exact sinv_pollBody (sinv_congr (s' := { s with waits := true, winner := some c }) hs rfl rfl rfl rfl rfl) c ⟨_, hx⟩
    · next hx =>
      cases h
      exact sinv_pollBody (sinv_congr (s' := clearWoken s c) hs rfl rfl rfl rfl rfl) c ⟨_, hx⟩
    · cases h
  | pSwap c =>
    simp only [step, stepPSwap] at h
    split at h
    · split at h
      · cases h
        unfold swapWaits
        split
        · exact sinv_set hs c (.closer .losing) (by simp) (by simp) rfl (fun c h => h) rfl rfl rfl
        · exact sinv_set hs c (.closer .try1) (by simp) (by simp) rfl (fun c h => h) rfl rfl rfl
      · cases h
        unfold swapWaits
        split
        · exact sinv_set hs c (.closer .losing) (by simp) (by simp) rfl (fun c h => h) rfl rfl rfl
        · exact sinv_set hs c (.closer .try1) (by simp) (by simp) rfl (fun c h => h) rfl rfl rfl
      · cases h
    · cases h
  | pNone c =>
    simp only [step, stepMicro] at h
    split at h
    · split at h
      · split at h
        · cases h
          exact sinv_set hs c (.closer .doneNone) (by simp) (by simp) (by simp [loseNone])
            (fun c h => by simpa [loseNone] using h) (by simp [loseNone]) (by simp [loseNone]) (by simp [loseNone])
        · cases h
      · cases h
    · cases h
  | pTry1 c =>
    simp only [step, stepMicro] at h
    split at h
    · split at h
      · split at h
        · cases h
          unfold tryUnwrap1
          split
          · exact sinv_set hs c (.closer .doneSome) (by simp) (by simp) rfl (fun c h => h) rfl rfl rfl
          · exact sinv_set hs c (.closer .reg) (by simp) (by simp) rfl (fun c h => h) rfl rfl rfl
        · cases h
      · cases h
    · cases h
  | pReg c =>
    simp only [step, stepMicro] at h
    split at h
    · split at h
      · next pc hx =>
        split at h
        · cases h; exact sinv_reg hs c ⟨_, hx⟩
        · cases h
      · cases h
    · cases h
  | pTry2 c =>
    simp only [step, stepMicro] at h
    split at h
    · split at h
      · next pc hx =>
        split at h
        · next hpc =>
          cases h
          subst hpc
          unfold tryUnwrap2
          split
          · exact sinv_set hs c (.closer .doneSome) (by simp) (by simp) rfl (fun c h => h) rfl rfl rfl
          · exact sinv_park hs c rfl ⟨_, hx⟩ rfl rfl (Or.inr ⟨hx, rfl, rfl⟩)
        · cases h
      · cases h
    · cases h
  | pBegin c =>
    simp only [step, stepMicro] at h
    split at h
    · split at h
      · split at h
        · cases h
          exact sinv_set hs c (.closer .try1) (by simp) (by simp) (by simp [beginPoll, clearWoken])
            (fun c h => by simpa [beginPoll, clearWoken] using h) (by simp [beginPoll, clearWoken])
            (by simp [beginPoll, clearWoken]) (by simp [beginPoll, clearWoken])
        · cases h
      · cases h
    · cases h
  | dropFut c =>
    simp only [step, stepDropFut] at h
    split at h
    · cases h
      exact sinv_set hs c (.closer .dropped) (by simp) (by simp) (by simp) (fun c h => by simpa using h) (by simp) (by simp) (by simp)
    · cases h
      exact sinv_set hs c (.closer .dropped) (by simp) (by simp) (by simp) (fun c h => by simpa using h) (by simp) (by simp) (by simp)
    · cases h
      exact sinv_set hs c (.closer .leaked) (by simp) (by simp) rfl (fun c h => h) rfl rfl rfl
    · cases h
  | setWaker c w =>
    simp only [step, stepSetWaker] at h
    have key : ∀ (hx : ¬ s.try2 c), SInv { s with nextW := (c, w) :: s.nextW } := by
      intro hx
      refine sinv_frame (s' := { s with nextW := (c, w) :: s.nextW }) hs (fun _ h => h) (fun _ h => h)
        (fun _ h => h) rfl rfl ?_
      intro c' hc'
      have : c' ≠ c := by
        intro h; subst h; exact hx hc'
      exact wOf_cons_ne _ _ _ _ this
    split at h
    · next hx => cases h; exact key (by unfold St.try2; rw [hx]; simp)
    · next hx => cases h; exact key (by unfold St.try2; rw [hx]; simp)
    · next hx => cases h; exact key (by unfold St.try2; rw [hx]; simp)
    · cases h

theorem sinv_run {s s' : St} {evs : List Ev} (hs : SInv s) (h : run s evs = some s') : SInv s' := by
  induction evs generalizing s with
  | nil => simp [run] at h; subst h; exact hs
  | cons e es ih =>
    simp only [run] at h
    split at h
    · next s1 h1 => exact ih (sinv_step hs h1) h
    · cases h

/-- single-threaded executions: a pending wake-up of a parked closer went to the waker of its latest poll -/
structure VInv (s : St) : Prop where
  v1 : ∀ c, c ∈ s.woken → s.winner = some c
  v2 : ∀ c, s.parked c → c ∈ s.woken → (c, wOf s.parkedW c) ∈ s.wokenW

theorem vinv_init (b : Bool) : VInv (init b) := by
  constructor <;> intro c <;> simp [init]

theorem vinv_frame {s s' : St} (hv : VInv s) (hp : ∀ c, s'.parked c → s.parked c)
    (h1 : s'.woken = s.woken) (h2 : s'.wokenW = s.wokenW) (h3 : s'.winner = s.winner)
    (h4 : s'.parkedW = s.parkedW) : VInv s' := by
  constructor
  · intro c hc; rw [h3]; exact hv.v1 c (by rw [← h1]; exact hc)
  · intro c hc hw; rw [h2, h4]; exact hv.v2 c (hp c hc) (by rw [← h1]; exact hw)

theorem vinv_drop {s : St} (hu : UInv s) (hs : SInv s) (hv : VInv s) (x : Nat) :
    VInv (decRef (setRole (dropTest s) x .gone)) := by
  have hp : ∀ c, (decRef (setRole (dropTest s) x .gone)).parked c → s.parked c := by
    intro c h
    unfold St.parked at h ⊢
    simp at h
    exact parked_set h (by simp)
  by_cases hw : s.count = 2 ∧ s.waits = true
  · cases hsl : s.slot with
    | none =>
      have hd : dropTest s = s := by unfold dropTest wake; simp [hw, hsl]
      rw [hd] at hp ⊢
      exact vinv_frame hv hp (by simp) (by simp) (by simp) (by simp)
    | some c0 =>
      have hd : dropTest s = { s with slot := none, woken := c0 :: s.woken, wakes := s.wakes + 1, wokenW := (c0, s.slotW) :: s.wokenW, wakeLog := s.wakeLog ++ [(c0, s.slotW)] } := by
        unfold dropTest wake; simp [hw, hsl]
      rw [hd] at hp ⊢
      constructor
      · intro c hc
        simp at hc ⊢
        rcases hc with hc | hc
        · subst hc; exact hu.w1 c hsl
        · exact hv.v1 c hc
      · intro c hc hwk
        have hpc := hp c hc
        simp only [decRef_woken, setRole_woken, List.mem_cons] at hwk
        simp only [decRef_wokenW, setRole_wokenW, decRef_parkedW, setRole_parkedW, List.mem_cons]
        rcases hwk with hwk | hwk
        · subst hwk
          left
          rw [hs.s1 c hpc hsl]
        · right; exact hv.v2 c hpc hwk
  · have hd : dropTest s = s := by unfold dropTest; simp [hw]
    rw [hd] at hp ⊢
    exact vinv_frame hv hp (by simp) (by simp) (by simp) (by simp)

theorem vinv_step {s s' : St} {e : Ev} (hu : UInv s) (hs : SInv s) (hv : VInv s) (he : e.unsync = true)
    (h : step s e = some s') : VInv s' := by
  cases e with
  | dropCheck x | dropDec x | pSwap x | pNone x | pTry1 x | pReg x | pTry2 x | pBegin x => simp [Ev.unsync] at he
  | setWaker c w =>
    simp only [step, stepSetWaker] at h
    split at h <;> first
      | (cases h; exact vinv_frame hv (fun c hc => hc) rfl rfl rfl rfl)
      | cases h
  | clone x =>
    simp only [step, stepClone] at h
    split at h
    · cases h
      exact vinv_frame hv (fun c hc => parked_append hc (by simp)) rfl rfl rfl rfl
    · cases h
  | opStart x =>
    simp only [step, stepOpStart] at h
    split at h
    · cases h
      exact vinv_frame hv (fun c hc => parked_append hc (by simp)) rfl rfl rfl rfl
    · cases h
  | drop x =>
    simp only [step, stepDrop] at h
    split at h
    · cases h; exact vinv_drop hu hs hv x
    · cases h; exact vinv_drop hu hs hv x
    · cases h
  | tryUnwrap x =>
    simp only [step, stepTryUnwrap] at h
    split at h
    · split at h
      · cases h
        refine vinv_frame hv ?_ rfl rfl rfl rfl
        intro c hc
        unfold St.parked at hc ⊢
        simp at hc
        exact parked_set hc (by simp)
      · cases h; exact hv
    · cases h
  | take x =>
    simp only [step, stepTake] at h
    split at h
    · cases h
      refine vinv_frame hv ?_ rfl rfl rfl rfl
      intro c hc
      unfold St.parked at hc ⊢
      simp at hc
      exact parked_set hc (by simp)
    · cases h
  | close x =>
    simp only [step, stepClose] at h
    split at h
    · cases h
      refine vinv_frame hv ?_ rfl rfl rfl rfl
      intro c hc
      unfold St.parked at hc ⊢
      simp at hc
      exact parked_set hc (by simp)
    · cases h
  | poll c0 =>
    simp only [step, stepPoll] at h
    have first : ∀ (r : Role), s.actors[c0]? = some r → VInv (firstPoll s c0) := by
      intro r hx
      unfold firstPoll
      split
      · unfold loseNone
        refine vinv_frame hv ?_ (by simp) (by simp) (by simp) (by simp)
        intro c hc
        unfold St.parked at hc ⊢
        simp at hc
        exact parked_set hc (by simp)
      · next hw =>
        have hnone : s.winner = none := by
          cases hwin : s.winner with
          | none => rfl
          | some c => have := hu.w3 c hwin; simp [this] at hw
        have hempty : ∀ c, c ∉ s.woken := by
          intro c hc
          have := hv.v1 c hc
          simp [hnone] at this
        unfold pollBody
        split
        · constructor
          · intro c hc; simp at hc; exact absurd hc (hempty c)
          · intro c _ hc; simp at hc; exact absurd hc (hempty c)
        · constructor
          · intro c hc; simp at hc; exact absurd hc (hempty c)
          · intro c _ hc; simp at hc; exact absurd hc (hempty c)
    split at h
    · next hx => cases h; exact first _ hx
    · next hx => cases h; exact first _ hx
    · next hx =>
      cases h
      have hwin := (hu.w2 c0 hx).1
      have huniq : ∀ c, s.parked c → c = c0 := by
        intro c hc
        have := (hu.w2 c hc).1
        rw [hwin] at this
        simpa using this.symm
      have hmem : ∀ c, c ∈ (s.woken.filter (· != c0)) → c ∈ s.woken ∧ c ≠ c0 := by
        intro c hc
        simp [List.mem_filter] at hc
        exact hc
      unfold pollBody
      split
      · constructor
        · intro c hc
          simp [clearWoken] at hc ⊢
          exact hv.v1 c hc.1
        · intro c hc hwk
          unfold St.parked at hc
          simp [clearWoken] at hc hwk
          have := huniq c (parked_set hc (by simp))
          exact absurd this hwk.2
      · constructor
        · intro c hc
          simp [clearWoken] at hc ⊢
          exact hv.v1 c hc.1
        · intro c hc hwk
          unfold St.parked at hc
          simp [clearWoken] at hc hwk
          rcases getElem?_set_cases _ c0 c _ _ hc with ⟨hne, h2⟩ | ⟨h2, _⟩
          · exact absurd (huniq c h2) hwk.2
          · exact absurd h2.symm hwk.2
    · cases h
  | dropFut c0 =>
    simp only [step, stepDropFut] at h
    split at h
    · cases h
      refine vinv_frame hv ?_ (by simp) (by simp) (by simp) (by simp)
      intro c hc
      unfold St.parked at hc ⊢
      simp at hc
      exact parked_set hc (by simp)
    · cases h
      refine vinv_frame hv ?_ (by simp) (by simp) (by simp) (by simp)
      intro c hc
      unfold St.parked at hc ⊢
      simp at hc
      exact parked_set hc (by simp)
    · cases h
      refine vinv_frame hv ?_ rfl rfl rfl rfl
      intro c hc
      unfold St.parked at hc ⊢
      simp at hc
      exact parked_set hc (by simp)
    · cases h

theorem allinv_run {s s' : St} {evs : List Ev} (hi : Inv s) (hu : UInv s) (hs : SInv s) (hv : VInv s)
    (he : ∀ e ∈ evs, e.unsync = true) (h : run s evs = some s') : Inv s' ∧ UInv s' ∧ SInv s' ∧ VInv s' := by
  induction evs generalizing s with
  | nil => simp [run] at h; subst h; exact ⟨hi, hu, hs, hv⟩
  | cons e es ih =>
    simp only [run] at h
    split at h
    · next s1 h1 =>
      have he1 := he e (by simp)
      exact ih (inv_step hi h1) (uinv_step hi hu he1 h1) (sinv_step hs h1) (vinv_step hu hs hv he1 h1)
        (fun e' he' => he e' (by simp [he'])) h
    · cases h

end Compio.SharedFd

/-! ## descriptors produced by operations -/

namespace Compio.Produced

def St.all (s : St) : List Nat := s.taken ++ s.closed ++ s.held

def St.P (s : St) : Prop := s.all.Perm (List.range s.next)

theorem P_congr {s s' : St} (h : s.P) (h1 : s'.taken = s.taken) (h2 : s'.closed = s.closed)
    (h3 : s'.held = s.held) (h4 : s'.next = s.next) : s'.P := by
  unfold St.P St.all at *
  rw [h1, h2, h3, h4]; exact h

theorem P_takeAll {s : St} (h : s.P) : (takeAll s).P := by
  unfold St.P at *
  refine List.Perm.trans ?_ h
  rw [List.perm_iff_count]
  intro a
  simp [takeAll, St.all, List.count_append]
  omega

theorem P_dropOp {s : St} (h : s.P) : (dropOp s).P := by
  unfold St.P at *
  refine List.Perm.trans ?_ h
  rw [List.perm_iff_count]
  intro a
  simp [dropOp, St.all, List.count_append]

theorem P_adopt {s : St} (h : s.P) : (adopt s).P := by
  unfold St.P at *
  have : (adopt s).all = s.all ++ [s.next] := by simp [adopt, St.all]
  rw [this]
  simp only [adopt, List.range_succ]
  exact List.Perm.append_right _ h

structure PInv (s : St) : Prop where
  perm : s.P
  a : s.result.isSome → s.inDriver = false
  b : s.fut = .idle → s.inDriver = false ∧ s.held = [] ∧ s.result = none
  c : s.fut = .submitted → s.result = none → s.inDriver = true
  d : s.fut = .ready → s.held = [] ∧ s.inDriver = false
  e : s.fut = .dropped → s.inDriver = false → s.held = []

theorem pinv_init : PInv init := by
  constructor <;> simp [init, St.all, St.P]

theorem pinv_step {s s' : St} {e : Ev} (hi : PInv s) (hk : e ≠ .completeFallback)
    (h : step s e = some s') : PInv s' := by
  cases e with
  | completeFallback => exact absurd rfl hk
  | rearm =>
    simp only [step] at h
    split at h
    · next hf =>
      cases h
      have hd := hi.d hf
      constructor
      · exact P_congr hi.perm rfl rfl rfl rfl
      · simp
      · simp [hd.1, hd.2]
      · simp
      · simp
      · simp
    · cases h
  | poll =>
    simp only [step] at h
    split at h
    · next hf =>
      cases h
      have hb := hi.b hf
      constructor
      · exact P_congr hi.perm rfl rfl rfl rfl
      · simp [hb.2.2]
      · simp
      · simp
      · simp
      · simp
    · next hf =>
      split at h
      · next r hr =>
        cases h
        have ha := hi.a (by simp [hr])
        constructor
        · exact P_takeAll (P_congr hi.perm rfl rfl rfl rfl)
        · simp [takeAll, ha]
        · simp [takeAll]
        · simp [takeAll]
        · simp [takeAll, ha]
        · simp [takeAll]
      · cases h; exact hi
    · cases h
  | pollImm ok =>
    simp only [step] at h
    split at h
    · next hf =>
      cases h
      have hb := hi.b hf
      constructor
      · apply P_takeAll
        cases ok
        · exact P_congr hi.perm rfl rfl rfl rfl
        · exact P_congr (P_adopt hi.perm) rfl rfl rfl rfl
      · cases ok <;> simp [takeAll, adopt, hb.1]
      · simp [takeAll]
      · simp [takeAll]
      · cases ok <;> simp [takeAll, adopt, hb.1]
      · simp [takeAll]
    · cases h
  | complete ok =>
    simp only [step] at h
    split at h
    · next hg =>
      cases h
      have hnid : s.fut ≠ .idle := fun hf => by have := (hi.b hf).1; simp [hg.1] at this
      have hnrd : s.fut ≠ .ready := fun hf => by have := (hi.d hf).2; simp [hg.1] at this
      split
      · next hdrop =>
        constructor
        · apply P_dropOp
          cases ok
          · exact P_congr hi.perm rfl rfl rfl rfl
          · exact P_congr (P_adopt hi.perm) rfl rfl rfl rfl
        · cases ok <;> simp [dropOp, adopt]
        · cases ok <;> simp [dropOp, adopt, hdrop]
        · cases ok <;> simp [dropOp, adopt, hdrop]
        · cases ok <;> simp [dropOp, adopt, hdrop]
        · cases ok <;> simp [dropOp, adopt]
      · next hdrop =>
        constructor
        · cases ok
          · exact P_congr hi.perm rfl rfl rfl rfl
          · exact P_congr (P_adopt hi.perm) rfl rfl rfl rfl
        · cases ok <;> simp [adopt]
        · cases ok <;> simp [adopt, hnid]
        · cases ok <;> simp [adopt]
        · cases ok <;> simp [adopt, hnrd]
        · cases ok <;> simp [adopt, hdrop]
    · cases h
  | shot =>
    simp only [step] at h
    split at h
    · next hg =>
      cases h
      have hnid : s.fut ≠ .idle := fun hf => by have := (hi.b hf).1; simp [hg.1] at this
      have hnrd : s.fut ≠ .ready := fun hf => by have := (hi.d hf).2; simp [hg.1] at this
      constructor
      · exact P_adopt hi.perm
      · simp [adopt, hg.2]
      · simp [adopt, hnid]
      · simp [adopt, hg.1]
      · simp [adopt, hnrd]
      · simp [adopt, hg.1]
    · cases h
  | popShot =>
    simp only [step] at h
    split at h
    · next fd rest hf hh =>
      cases h
      constructor
      · have hp := hi.perm
        unfold St.P at hp ⊢
        refine List.Perm.trans ?_ hp
        rw [List.perm_iff_count]
        intro a
        simp [St.all, hh, List.count_append, List.count_cons]
        omega
      · simpa using hi.a
      · simp [hf]
      · simpa [hf] using hi.c hf
      · simp [hf]
      · simp [hf]
    · cases h
  | dropFut =>
    simp only [step] at h
    split at h
    · next hf =>
      cases h
      have hb := hi.b hf
      constructor
      · exact P_dropOp (P_congr hi.perm rfl rfl rfl rfl)
      · simp [dropOp, hb.1]
      · simp [dropOp]
      · simp [dropOp]
      · simp [dropOp]
      · simp [dropOp]
    · next hf =>
      split at h
      · next r hr =>
        cases h
        have ha := hi.a (by simp [hr])
        constructor
        · exact P_dropOp (P_congr hi.perm rfl rfl rfl rfl)
        · simp [dropOp, ha]
        · simp [dropOp]
        · simp [dropOp]
        · simp [dropOp]
        · simp [dropOp]
      · next hr =>
        cases h
        have hc := hi.c hf hr
        constructor
        · exact P_congr hi.perm rfl rfl rfl rfl
        · simp [hr]
        · simp
        · simp
        · simp
        · simp [hc]
    · cases h

theorem pinv_run {s s' : St} {evs : List Ev} (hi : PInv s) (hk : ∀ e ∈ evs, e ≠ .completeFallback)
    (h : run s evs = some s') : PInv s' := by
  induction evs generalizing s with
  | nil => simp [run] at h; subst h; exact hi
  | cons e es ih =>
    simp only [run] at h
    split at h
    · next s1 h1 =>
      exact ih (pinv_step hi (hk e (by simp)) h1) (fun e' he' => hk e' (by simp [he'])) h
    · cases h

end Compio.Produced

namespace Compio.MultiWait

theorem filter_map_key (fds : List Nat) (key : Nat) :
    (fds.map (·, key)).filter (fun e => !mine key fds e) = [] := by
  rw [List.filter_eq_nil_iff]
  intro e he
  simp only [List.mem_map] at he
  obtain ⟨fd, hfd, rfl⟩ := he
  simp [mine, hfd]

end Compio.MultiWait
