/-
Helper lemmas for the C06 model (`Compio/Model/SharedFd.lean`): reference counting over the actor
list, the safety invariant `Inv`, and the wake-up invariant `UInv` of the builds where
`Drop for SharedFd` is one step.
-/
import Compio.Model.SharedFd

namespace Compio.SharedFd

/-! ## `refs` and list updates -/

theorem refs_append (l : List Role) (r : Role) : refs (l ++ [r]) = refs l + b2n r.holds := by
  induction l with
  | nil => simp [refs]
  | cons a l ih => simp [refs, ih]; omega

theorem refs_set (l : List Role) (i : Nat) (old new : Role) (h : l[i]? = some old) :
    refs (l.set i new) + b2n old.holds = refs l + b2n new.holds := by
  induction l generalizing i with
  | nil => simp at h
  | cons a l ih =>
    cases i with
    | zero =>
      simp at h
      subst h
      simp [refs]; omega
    | succ i =>
      simp at h
      have := ih i h
      simp [refs]; omega

theorem refs_pos (l : List Role) (i : Nat) (r : Role) (h : l[i]? = some r) (hr : r.holds = true) :
    1 ≤ refs l := by
  induction l generalizing i with
  | nil => simp at h
  | cons a l ih =>
    cases i with
    | zero =>
      simp at h
      subst h
      simp [refs, b2n, hr]
    | succ i =>
      simp at h
      have := ih i h
      simp [refs]; omega

theorem refs_zero_not_holds (l : List Role) (h0 : refs l = 0) (i : Nat) (r : Role)
    (h : l[i]? = some r) : r.holds = false := by
  cases hr : r.holds with
  | false => rfl
  | true => have := refs_pos l i r h hr; omega

theorem getElem?_set_ne' {α} (l : List α) (i j : Nat) (a : α) (h : i ≠ j) :
    (l.set i a)[j]? = l[j]? := by
  simp [List.getElem?_set, h]

theorem getElem?_set_self' {α} (l : List α) (i : Nat) (a b : α) (h : l[i]? = some b) :
    (l.set i a)[i]? = some a := by
  have hi : i < l.length := by
    by_cases hlt : i < l.length
    · exact hlt
    · have : l[i]? = none := by simp; omega
      simp [this] at h
  simp [List.getElem?_set, hi]

/-- reading an actor after `set`: either the index was untouched, or it is the new role -/
theorem getElem?_set_cases {α} (l : List α) (i j : Nat) (a x : α) (h : (l.set i a)[j]? = some x) :
    (i ≠ j ∧ l[j]? = some x) ∨ (i = j ∧ x = a) := by
  by_cases hij : i = j
  · subst hij
    right
    refine ⟨rfl, ?_⟩
    by_cases hi : i < l.length
    · simp [List.getElem?_set, hi] at h
      exact h.symm
    · have : (l.set i a)[i]? = none := by simp; omega
      simp [this] at h
  · left
    exact ⟨hij, by rw [getElem?_set_ne' l i j a hij] at h; exact h⟩

theorem getElem?_append_cases {α} (l : List α) (a x : α) (j : Nat) (h : (l ++ [a])[j]? = some x) :
    l[j]? = some x ∨ (j = l.length ∧ x = a) := by
  by_cases hj : j < l.length
  · left
    rw [List.getElem?_append_left hj] at h
    exact h
  · right
    have hge : l.length ≤ j := by omega
    rw [List.getElem?_append_right hge] at h
    cases hd : j - l.length with
    | zero =>
      rw [hd] at h
      simp at h
      exact ⟨by omega, h.symm⟩
    | succ n =>
      rw [hd] at h
      simp at h

/-! ## the safety invariant -/

structure Inv (s : St) : Prop where
  /-- the strong count is the number of actors owning a reference -/
  cnt : s.count = refs s.actors
  /-- the inner descriptor is in the `Shared` while the count is positive, and has left it exactly once otherwise -/
  rel : (s.released = 0 ∧ 1 ≤ s.count) ∨ (s.released = 1 ∧ s.count = 0)
  del : s.delivered ≤ s.released

theorem inv_init (b : Bool) : Inv (init b) := by
  constructor <;> simp [init, refs, Role.holds, b2n]

/-- every transition is one of four shapes w.r.t. (actors, count, released, delivered) -/
theorem inv_decRef {s : St} {a : List Role} (hc : s.count = refs a + 1)
    (hr : (s.released = 0 ∧ 1 ≤ s.count) ∨ (s.released = 1 ∧ s.count = 0)) (hd : s.delivered ≤ s.released)
    (ha : s.actors = a) : Inv (decRef s) := by
  unfold decRef
  split
  · next h1 =>
    constructor
    · simp [ha]; omega
    · simp; omega
    · simp; omega
  · next h1 =>
    constructor
    · simp [ha]; omega
    · simp; omega
    · simpa using hd

@[simp] theorem wake_actors (s : St) : (wake s).actors = s.actors := by unfold wake; split <;> rfl
@[simp] theorem wake_count (s : St) : (wake s).count = s.count := by unfold wake; split <;> rfl
@[simp] theorem wake_released (s : St) : (wake s).released = s.released := by unfold wake; split <;> rfl
@[simp] theorem wake_delivered (s : St) : (wake s).delivered = s.delivered := by unfold wake; split <;> rfl
@[simp] theorem wake_waits (s : St) : (wake s).waits = s.waits := by unfold wake; split <;> rfl
@[simp] theorem wake_winner (s : St) : (wake s).winner = s.winner := by unfold wake; split <;> rfl
@[simp] theorem wake_rawDecs (s : St) : (wake s).rawDecs = s.rawDecs := by unfold wake; split <;> rfl
@[simp] theorem wake_sync (s : St) : (wake s).sync = s.sync := by unfold wake; split <;> rfl

@[simp] theorem dropTest_actors (s : St) : (dropTest s).actors = s.actors := by unfold dropTest; split <;> simp
@[simp] theorem dropTest_count (s : St) : (dropTest s).count = s.count := by unfold dropTest; split <;> simp
@[simp] theorem dropTest_released (s : St) : (dropTest s).released = s.released := by
  unfold dropTest; split <;> simp
@[simp] theorem dropTest_delivered (s : St) : (dropTest s).delivered = s.delivered := by
  unfold dropTest; split <;> simp
@[simp] theorem dropTest_waits (s : St) : (dropTest s).waits = s.waits := by unfold dropTest; split <;> simp
@[simp] theorem dropTest_winner (s : St) : (dropTest s).winner = s.winner := by unfold dropTest; split <;> simp
@[simp] theorem dropTest_rawDecs (s : St) : (dropTest s).rawDecs = s.rawDecs := by
  unfold dropTest; split <;> simp
@[simp] theorem dropTest_sync (s : St) : (dropTest s).sync = s.sync := by unfold dropTest; split <;> simp

@[simp] theorem setRole_actors (s : St) (i : Nat) (r : Role) : (setRole s i r).actors = s.actors.set i r := rfl
@[simp] theorem setRole_count (s : St) (i : Nat) (r : Role) : (setRole s i r).count = s.count := rfl
@[simp] theorem setRole_released (s : St) (i : Nat) (r : Role) : (setRole s i r).released = s.released := rfl
@[simp] theorem setRole_delivered (s : St) (i : Nat) (r : Role) : (setRole s i r).delivered = s.delivered := rfl
@[simp] theorem setRole_waits (s : St) (i : Nat) (r : Role) : (setRole s i r).waits = s.waits := rfl
@[simp] theorem setRole_slot (s : St) (i : Nat) (r : Role) : (setRole s i r).slot = s.slot := rfl
@[simp] theorem setRole_woken (s : St) (i : Nat) (r : Role) : (setRole s i r).woken = s.woken := rfl
@[simp] theorem setRole_winner (s : St) (i : Nat) (r : Role) : (setRole s i r).winner = s.winner := rfl
@[simp] theorem setRole_rawDecs (s : St) (i : Nat) (r : Role) : (setRole s i r).rawDecs = s.rawDecs := rfl
@[simp] theorem setRole_sync (s : St) (i : Nat) (r : Role) : (setRole s i r).sync = s.sync := rfl
@[simp] theorem setRole_wakes (s : St) (i : Nat) (r : Role) : (setRole s i r).wakes = s.wakes := rfl

/-- a holder (holding role `old`) gives its reference back through `decRef` -/
theorem inv_release {s : St} (hi : Inv s) (x : Nat) (old new : Role) (hx : s.actors[x]? = some old)
    (ho : old.holds = true) (hn : new.holds = false) (s1 : St)
    (h1a : s1.actors = s.actors.set x new) (h1c : s1.count = s.count) (h1r : s1.released = s.released)
    (h1d : s1.delivered = s.delivered) : Inv (decRef s1) := by
  have hs := refs_set s.actors x old new hx
  simp [b2n, ho, hn] at hs
  have hc := hi.cnt
  apply inv_decRef (a := s.actors.set x new)
  · omega
  · rw [h1r, h1c]; exact hi.rel
  · rw [h1r, h1d]; exact hi.del
  · exact h1a

/-- a role change that keeps the reference -/
theorem inv_keep {s : St} (hi : Inv s) (x : Nat) (old new : Role) (hx : s.actors[x]? = some old)
    (ho : old.holds = true) (hn : new.holds = true) (s1 : St)
    (h1a : s1.actors = s.actors.set x new) (h1c : s1.count = s.count) (h1r : s1.released = s.released)
    (h1d : s1.delivered = s.delivered) : Inv s1 := by
  have hs := refs_set s.actors x old new hx
  simp [b2n, ho, hn] at hs
  constructor
  · rw [h1c, h1a, hi.cnt]; omega
  · rw [h1r, h1c]; exact hi.rel
  · rw [h1r, h1d]; exact hi.del

/-- successful `try_unwrap` by the holder `x` when the count is 1 -/
theorem inv_deliver {s : St} (hi : Inv s) (x : Nat) (old new : Role) (hx : s.actors[x]? = some old)
    (ho : old.holds = true) (hn : new.holds = false) (h1 : s.count = 1) (s1 : St)
    (h1a : s1.actors = s.actors.set x new) (h1r : s1.released = s.released)
    (h1d : s1.delivered = s.delivered) : Inv (deliver s1) := by
  have hs := refs_set s.actors x old new hx
  simp [b2n, ho, hn] at hs
  have hc := hi.cnt
  have hrel := hi.rel
  have hdel := hi.del
  constructor
  · simp [deliver, h1a]; omega
  · simp [deliver, h1r]; omega
  · simp [deliver, h1r, h1d]; omega

theorem inv_grow {s : St} (hi : Inv s) (r : Role) (hr : r.holds = true) (s1 : St)
    (h1a : s1.actors = s.actors ++ [r]) (h1c : s1.count = s.count + 1) (h1r : s1.released = s.released)
    (h1d : s1.delivered = s.delivered) (x : Nat) (old : Role) (hx : s.actors[x]? = some old)
    (ho : old.holds = true) : Inv s1 := by
  have hp := refs_pos s.actors x old hx ho
  have hc := hi.cnt
  have hrel := hi.rel
  constructor
  · rw [h1c, h1a, refs_append]; simp [b2n, hr]; omega
  · rw [h1r, h1c]; omega
  · rw [h1r, h1d]; exact hi.del

theorem inv_step {s s' : St} {e : Ev} (hi : Inv s) (h : step s e = some s') : Inv s' := by
  cases e with
  | clone x =>
    simp only [step, stepClone] at h
    split at h
    · next hx =>
      cases h
      exact inv_grow hi (.handle .live) rfl _ rfl rfl rfl rfl x _ hx rfl
    · cases h
  | opStart x =>
    simp only [step, stepOpStart] at h
    split at h
    · next hx =>
      cases h
      exact inv_grow hi (.op .live) rfl _ rfl rfl rfl rfl x _ hx rfl
    · cases h
  | drop x =>
    simp only [step, stepDrop] at h
    split at h
    · next hx => cases h; exact inv_release hi x _ .gone hx rfl rfl _ (by simp) (by simp) (by simp) (by simp)
    · next hx => cases h; exact inv_release hi x _ .gone hx rfl rfl _ (by simp) (by simp) (by simp) (by simp)
    · cases h
  | dropCheck x =>
    simp only [step, stepDropCheck] at h
    split at h
    · split at h
      · next hx => cases h; exact inv_keep hi x _ (.handle .checked) hx rfl rfl _ (by simp) (by simp) (by simp) (by simp)
      · next hx => cases h; exact inv_keep hi x _ (.op .checked) hx rfl rfl _ (by simp) (by simp) (by simp) (by simp)
      · cases h
    · cases h
  | dropDec x =>
    simp only [step, stepDropDec] at h
    split at h
    · split at h
      · next hx => cases h; exact inv_release hi x _ .gone hx rfl rfl _ (by simp) (by simp) (by simp) (by simp)
      · next hx => cases h; exact inv_release hi x _ .gone hx rfl rfl _ (by simp) (by simp) (by simp) (by simp)
      · cases h
    · cases h
  | tryUnwrap x =>
    simp only [step, stepTryUnwrap] at h
    split at h
    · next hx =>
      split at h
      · next h1 => cases h; exact inv_deliver hi x _ .gone hx rfl rfl h1 _ (by simp) (by simp) (by simp)
      · cases h; exact hi
    · cases h
  | take x =>
    simp only [step, stepTake] at h
    split at h
    · next hx => cases h; exact inv_keep hi x _ (.closer .created) hx rfl rfl _ (by simp) (by simp) (by simp) (by simp)
    · cases h
  | close x =>
    simp only [step, stepClose] at h
    split at h
    · next hx => cases h; exact inv_keep hi x _ (.closer .wrapped) hx rfl rfl _ (by simp) (by simp) (by simp) (by simp)
    · cases h
  | poll c =>
    simp only [step, stepPoll] at h
    split at h
    · next hx =>
      cases h
      unfold firstPoll
      split
      · exact inv_release hi c _ (.closer .doneNone) hx rfl rfl _ (by simp) (by simp) (by simp) (by simp)
      · unfold pollBody
        split
        · next h1 => exact inv_deliver hi c _ (.closer .doneSome) hx rfl rfl h1 _ (by simp) (by simp) (by simp)
        · exact inv_keep hi c _ (.closer .parked) hx rfl rfl _ (by simp) (by simp) (by simp) (by simp)
    · next hx =>
      cases h
      unfold firstPoll
      split
      · exact inv_release hi c _ (.closer .doneNone) hx rfl rfl _ (by simp) (by simp) (by simp) (by simp)
      · unfold pollBody
        split
        · next h1 => exact inv_deliver hi c _ (.closer .doneSome) hx rfl rfl h1 _ (by simp) (by simp) (by simp)
        · exact inv_keep hi c _ (.closer .parked) hx rfl rfl _ (by simp) (by simp) (by simp) (by simp)
    · next hx =>
      cases h
      unfold pollBody
      split
      · next h1 =>
        exact inv_deliver hi c _ (.closer .doneSome) hx rfl rfl (by simpa [clearWoken] using h1) _
          (by simp [clearWoken]) (by simp [clearWoken]) (by simp [clearWoken])
      · exact inv_keep hi c _ (.closer .parked) hx rfl rfl _ (by simp [clearWoken]) (by simp [clearWoken])
          (by simp [clearWoken]) (by simp [clearWoken])
    · cases h
  | pSwap c =>
    simp only [step, stepPSwap] at h
    split at h
    · split at h
      · next hx =>
        cases h
        unfold swapWaits
        split
        · exact inv_keep hi c _ (.closer .losing) hx rfl rfl _ (by simp) (by simp) (by simp) (by simp)
        · exact inv_keep hi c _ (.closer .try1) hx rfl rfl _ (by simp) (by simp) (by simp) (by simp)
      · next hx =>
        cases h
        unfold swapWaits
        split
        · exact inv_keep hi c _ (.closer .losing) hx rfl rfl _ (by simp) (by simp) (by simp) (by simp)
        · exact inv_keep hi c _ (.closer .try1) hx rfl rfl _ (by simp) (by simp) (by simp) (by simp)
      · cases h
    · cases h
  | pNone c =>
    simp only [step, stepMicro] at h
    split at h
    · split at h
      · next pc hx =>
        split at h
        · next hpc =>
          cases h; subst hpc
          exact inv_release hi c _ (.closer .doneNone) hx rfl rfl _ (by simp) (by simp) (by simp) (by simp)
        · cases h
      · cases h
    · cases h
  | pTry1 c =>
    simp only [step, stepMicro] at h
    split at h
    · split at h
      · next pc hx =>
        split at h
        · next hpc =>
          cases h; subst hpc
          unfold tryUnwrap1
          split
          · next h1 => exact inv_deliver hi c _ (.closer .doneSome) hx rfl rfl h1 _ (by simp) (by simp) (by simp)
          · exact inv_keep hi c _ (.closer .reg) hx rfl rfl _ (by simp) (by simp) (by simp) (by simp)
        · cases h
      · cases h
    · cases h
  | pReg c =>
    simp only [step, stepMicro] at h
    split at h
    · split at h
      · next pc hx =>
        split at h
        · next hpc =>
          cases h; subst hpc
          exact inv_keep hi c _ (.closer .try2) hx rfl rfl _ (by simp [register]) (by simp [register]) (by simp [register])
            (by simp [register])
        · cases h
      · cases h
    · cases h
  | pTry2 c =>
    simp only [step, stepMicro] at h
    split at h
    · split at h
      · next pc hx =>
        split at h
        · next hpc =>
          cases h; subst hpc
          unfold tryUnwrap2
          split
          · next h1 => exact inv_deliver hi c _ (.closer .doneSome) hx rfl rfl h1 _ (by simp) (by simp) (by simp)
          · exact inv_keep hi c _ (.closer .parked) hx rfl rfl _ (by simp) (by simp) (by simp) (by simp)
        · cases h
      · cases h
    · cases h
  | pBegin c =>
    simp only [step, stepMicro] at h
    split at h
    · split at h
      · next pc hx =>
        split at h
        · next hpc =>
          cases h; subst hpc
          exact inv_keep hi c _ (.closer .try1) hx rfl rfl _ (by simp [beginPoll, clearWoken]) (by simp [beginPoll, clearWoken])
            (by simp [beginPoll, clearWoken]) (by simp [beginPoll, clearWoken])
        · cases h
      · cases h
    · cases h
  | dropFut c =>
    simp only [step, stepDropFut] at h
    split at h
    · next hx => cases h; exact inv_release hi c _ (.closer .dropped) hx rfl rfl _ (by simp) (by simp) (by simp) (by simp)
    · next hx => cases h; exact inv_release hi c _ (.closer .dropped) hx rfl rfl _ (by simp) (by simp) (by simp) (by simp)
    · next hx => cases h; exact inv_keep hi c _ (.closer .leaked) hx rfl rfl _ (by simp) (by simp) (by simp) (by simp)
    · cases h

theorem inv_run {s s' : St} {evs : List Ev} (hi : Inv s) (h : run s evs = some s') : Inv s' := by
  induction evs generalizing s with
  | nil => simp [run] at h; subst h; exact hi
  | cons e es ih =>
    simp only [run] at h
    split at h
    · next s1 h1 => exact ih (inv_step hi h1) h
    · cases h

theorem decRef_rel (s : St) (c0 : Nat) (r0 : Nat) (hc : s.count = c0) (hr : s.released = r0) :
    (decRef s).released = r0 ∨ ((decRef s).released = r0 + 1 ∧ c0 = 1) := by
  unfold decRef; split <;> simp_all

/-- the inner descriptor leaves the `Shared` only in a step taken at strong count 1 -/
theorem step_released {s s' : St} {e : Ev} (h : step s e = some s') :
    s'.released = s.released ∨ (s'.released = s.released + 1 ∧ s.count = 1) := by
  cases e <;>
    simp only [step, stepClone, stepOpStart, stepDrop, stepDropCheck, stepDropDec, stepTryUnwrap, stepTake,
      stepClose, stepPoll, stepPSwap, stepMicro, stepDropFut] at h <;>
    (repeat' split at h) <;>
    (try cases h) <;>
    (try subst_vars) <;>
    (try simp only [firstPoll, pollBody, loseNone, swapWaits, tryUnwrap1, tryUnwrap2, register, beginPoll,
      clearWoken]) <;>
    (repeat' split) <;>
    (first
      | (apply decRef_rel <;> simp; done)
      | (simp_all [deliver]; done)
      | (left; simp; done)
      | (left; rfl)
      | (by_cases hw : s.waits = true <;> by_cases h1 : s.count = 1 <;> simp_all [deliver]; done))

end Compio.SharedFd
