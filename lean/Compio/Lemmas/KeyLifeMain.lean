/-
`Inv` holds in every state reached from `init` by any event list whose last state has `hazard = false`
(the `Drop` drain loop never met a CQE flagged `more`), for every configuration whose extracted `Drop`
statement order is drain → close ring → free in-flight keys.
-/
import Compio.Lemmas.KeyLifeStepsB
import Compio.Lemmas.KeyLifeHonest

namespace Compio.KeyLife

open Compio.PollQueues

theorem driverCancel_hazard (c : Cfg) (s : State) (id : Nat) (o : Op) (posts : List (Nat × Bool × Res)) :
    (driverCancel c s id o posts).hazard = s.hazard := by
  unfold driverCancel
  split
  · exact (iourCancel_fields c s id posts).2.2.2.2
  · unfold pollCancel; split <;> rfl

theorem cancelIssue_hazard (c : Cfg) (s : State) (id : Nat) (o : Op) (posts : List (Nat × Bool × Res)) :
    (cancelIssue c s id o posts).hazard = s.hazard := by
  unfold cancelIssue
  simp only [driverCancel_hazard]

theorem cancelKey_hazard (c : Cfg) (s : State) (id : Nat) (o : Op) (posts : List (Nat × Bool × Res)) :
    (cancelKey c s id o posts).hazard = s.hazard := by
  unfold cancelKey
  split
  · rfl
  · split
    · rfl
    · exact cancelIssue_hazard c s id o posts

theorem cancelTok_hazard (c : Cfg) (s : State) (id : Nat) (o : Op) (posts : List (Nat × Bool × Res)) :
    (cancelTok c s id o posts).hazard = s.hazard := by
  unfold cancelTok
  split
  · rfl
  · simp only [cancelIssue_hazard]

/-- the guard flag is only ever raised, and only by the drain step of `Drop` -/
theorem hazard_step {c : Cfg} {s s' : State} {e : Event} (h : step c s e = some s') :
    s'.hazard = s.hazard ∨
      (e = .dropStep ∧ s'.hazard = (s.hazard || (!c.drainChecksMore && s.ops.any (fun o => !o.pendMore.isEmpty)))) := by
  cases e with
  | dropStep =>
    simp only [step] at h
    split at h
    · split at h
      · rename_i st _
        obtain rfl := Option.some.inj h
        cases st
        · right; exact ⟨rfl, rfl⟩
        all_goals left; rfl
      · cases h
    · cases h
  | userCancel id posts =>
    left
    simp only [step] at h
    split at h
    · split at h
      · obtain rfl := Option.some.inj h; exact cancelKey_hazard _ _ _ _ _
      · cases h
    · cases h
  | cloneCancel id posts =>
    left
    simp only [step] at h
    split at h
    · split at h
      · obtain rfl := Option.some.inj h; exact cancelKey_hazard _ _ _ _ _
      · cases h
    · cases h
  | tokenCancel id posts =>
    left
    simp only [step] at h
    split at h
    · split at h
      · split at h
        · obtain rfl := Option.some.inj h; rfl
        · obtain rfl := Option.some.inj h; exact cancelTok_hazard _ _ _ _ _
      · cases h
    · cases h
  | fdEvent fd rd wr r =>
    left
    simp only [step] at h
    split at h
    · split at h
      · obtain rfl := Option.some.inj h; rfl
      · split at h
        · obtain rfl := Option.some.inj h; rfl
        · obtain rfl := Option.some.inj h; rfl
    · cases h
  | userPop id =>
    left
    simp only [step] at h
    split at h
    · split at h
      · split at h
        · split at h
          · obtain rfl := Option.some.inj h; rfl
          · obtain rfl := Option.some.inj h; rfl
        · obtain rfl := Option.some.inj h; rfl
      · cases h
    · cases h
  | kPost id more r =>
    left
    simp only [step] at h
    split at h
    · split at h
      · split at h
        · obtain rfl := Option.some.inj h; rfl
        · obtain rfl := Option.some.inj h; rfl
      · cases h
    · cases h
  | poolDone id r =>
    left
    simp only [step] at h
    split at h
    · split at h
      · split at h
        · obtain rfl := Option.some.inj h; rfl
        · obtain rfl := Option.some.inj h; rfl
      · cases h
    · cases h
  | pushSq k fd d | pushFail k fd d e | pushBlocking | pushWait k fd d | pushReady k fd d r | pushNotifier | submit
  | pollEntries | pollBlocking | dropBegin =>
    left
    simp only [step] at h
    split at h
    · obtain rfl := Option.some.inj h; rfl
    · cases h
  | userDrop id | popMulti id | tokenRegister id | tokenDrop id =>
    left
    simp only [step] at h
    split at h
    · split at h
      · obtain rfl := Option.some.inj h; rfl
      · cases h
    · cases h

theorem hazard_mono {c : Cfg} {s s' : State} {e : Event} (h : step c s e = some s') (hz : s'.hazard = false) :
    s.hazard = false := by
  rcases hazard_step h with h1 | ⟨_, h1⟩
  · rw [← h1]; exact hz
  · rw [h1] at hz
    cases hs : s.hazard
    · rfl
    · rw [hs] at hz; simp at hz

/-- **the invariant is inductive** -/
theorem step_inv {c : Cfg} (hc : GoodCfg c) {s s' : State} {e : Event} (hi : Inv c s)
    (h : step c s e = some s') (hz : s'.hazard = false) : Inv c s' := by
  cases e with
  | pushSq k fd d => exact inv_pushSq hi h
  | pushFail k fd d e => exact inv_pushFail hi h
  | pushBlocking => exact inv_pushBlocking hi h
  | pushWait k fd d => exact inv_pushWait hi h
  | pushReady k fd d r => exact inv_pushReady hi h
  | userCancel id posts => exact inv_userCancel hi h
  | cloneCancel id posts => exact inv_cloneCancel hi h
  | userDrop id => exact inv_userDrop hi h
  | userPop id => exact inv_userPop hi h
  | popMulti id => exact inv_popMulti hi h
  | tokenRegister id => exact inv_tokenRegister hi h
  | tokenDrop id => exact inv_tokenDrop hi h
  | tokenCancel id posts => exact inv_tokenCancel hi h
  | pushNotifier => exact inv_pushNotifier hi h
  | submit => exact inv_submit hi h
  | pollEntries => exact inv_pollEntries hi h
  | pollBlocking => exact inv_pollBlocking hi h
  | fdEvent fd rd wr r => exact inv_fdEvent hi h
  | dropBegin => exact inv_dropBegin hi h
  | dropStep => exact inv_dropStep hi hc hz h
  | kPost id more r => exact inv_kPost hi h
  | poolDone id r => exact inv_poolDone hi h

theorem run_hazard {c : Cfg} : ∀ (evs : List Event) (s s' : State), run c s evs = some s' → s'.hazard = false →
    s.hazard = false := by
  intro evs
  induction evs with
  | nil => intro s s' h hz; simp [run] at h; subst h; exact hz
  | cons e es ih =>
    intro s s' h hz
    simp only [run] at h
    split at h
    · rename_i s1 hs1
      exact hazard_mono hs1 (ih s1 s' h hz)
    · cases h

theorem run_inv {c : Cfg} (hc : GoodCfg c) : ∀ (evs : List Event) (s s' : State), Inv c s →
    run c s evs = some s' → s'.hazard = false → Inv c s' := by
  intro evs
  induction evs with
  | nil => intro s s' hi h _; simp [run] at h; subst h; exact hi
  | cons e es ih =>
    intro s s' hi h hz
    simp only [run] at h
    split at h
    · rename_i s1 hs1
      exact ih s1 s' (step_inv hc hi hs1 (run_hazard es s1 s' h hz)) h hz
    · cases h

theorem gen_good : GoodCfg Cfg.gen := rfl

/-- every state reachable from a fresh proactor satisfies both invariants -/
theorem reach_inv {d : Drv} {cap : Nat} {evs : List Event} {s : State}
    (h : run Cfg.gen (init d cap) evs = some s) (hz : s.hazard = false) : Inv Cfg.gen s :=
  run_inv gen_good evs _ _ (inv_init _ d cap) h hz

theorem reach_inv2 {c : Cfg} {d : Drv} {cap : Nat} {evs : List Event} {s : State}
    (h : run c (init d cap) evs = some s) : Inv2 s :=
  run_inv2 evs _ _ (inv2_init d cap) h

end Compio.KeyLife
